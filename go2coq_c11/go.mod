module go2coq_c11

go 1.14
