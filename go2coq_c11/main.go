// go2coq_c11 — translator for the row / column exchange and permutation methods of the
// sparse matrix types (C11, round 6).
//
// It reads matrix_sparse_<t>.go for the nine element types of /repo, takes the methods
//
//	Swap, SwapRows, SwapColumns, PermuteRows, PermuteColumns, SymmetricPermutation
//
// and prints them as Gallina definitions in the small statement language of
// coq/C11/GenLib.v (statements are functions smat -> smat * res; res = continue /
// error returned / panic).  coq/C11/GenLib.v holds the expected definitions (exp_*)
// together with the proofs that they ARE the model functions the theorems of
// PropsMatPerm.v / PropsMat2.v are about (mswap, mswap_rows, mswap_cols, mperm_rows,
// mperm_cols, msym_perm); the generated file ends with  gen_* = exp_*  by reflexivity.
//
// Only the Go standard library is used.  The accepted grammar is exactly what those
// methods use today; anything else is emitted as `Unsupported "<reason>"`, which does
// not type-check, so the loss of the tie is loud.  All nine instantiations must
// translate to the same text (type names erased); the text is emitted once and the
// JSON report lists the files that differ.
package main

import (
	"encoding/json"
	"flag"
	"fmt"
	"go/ast"
	"go/parser"
	"go/token"
	"os"
	"path/filepath"
	"sort"
	"strings"
)

var types = []string{"float32", "float64", "int", "int8", "int16", "int32", "int64", "real32", "real64"}
var methods = []string{"Swap", "SwapRows", "SwapColumns", "PermuteRows", "PermuteColumns", "SymmetricPermutation"}

type tr struct {
	recv   string            // receiver name
	env    map[string]string // Go local -> Coq expression
	piVar  string            // name of the []int parameter ("" if none)
	piBind string            // Coq name bound to pi[loopvar] inside the current loop body
	loopV  string
	bad    string
}

func (t *tr) fail(f string, a ...interface{}) string {
	if t.bad == "" {
		t.bad = fmt.Sprintf(f, a...)
	}
	return "(Unsupported \"" + t.bad + "\")"
}

// integer expressions
func (t *tr) iexpr(e ast.Expr) string {
	switch x := e.(type) {
	case *ast.Ident:
		if c, ok := t.env[x.Name]; ok {
			return c
		}
		return t.fail("unknown identifier %s", x.Name)
	case *ast.BasicLit:
		if x.Kind == token.INT {
			return x.Value
		}
	case *ast.ParenExpr:
		return t.iexpr(x.X)
	case *ast.IndexExpr:
		// pi[i] with i the variable of the enclosing loop
		if a, ok := x.X.(*ast.Ident); ok && a.Name == t.piVar && t.piBind != "" {
			if i, ok := x.Index.(*ast.Ident); ok && i.Name == t.loopV {
				return t.piBind
			}
		}
		return t.fail("index expression outside the grammar")
	}
	return t.fail("integer expression outside the grammar")
}

// boolean expressions
func (t *tr) bexpr(e ast.Expr) string {
	switch x := e.(type) {
	case *ast.ParenExpr:
		return t.bexpr(x.X)
	case *ast.UnaryExpr:
		if x.Op == token.NOT {
			return "(negb " + t.bexpr(x.X) + ")"
		}
	case *ast.BinaryExpr:
		switch x.Op {
		case token.LOR:
			return "(" + t.bexpr(x.X) + " || " + t.bexpr(x.Y) + ")"
		case token.LAND:
			return "(" + t.bexpr(x.X) + " && " + t.bexpr(x.Y) + ")"
		case token.LSS:
			return "(" + t.iexpr(x.X) + " <? " + t.iexpr(x.Y) + ")"
		case token.GTR:
			return "(" + t.iexpr(x.Y) + " <? " + t.iexpr(x.X) + ")"
		case token.LEQ:
			return "(" + t.iexpr(x.X) + " <=? " + t.iexpr(x.Y) + ")"
		case token.GEQ:
			return "(" + t.iexpr(x.Y) + " <=? " + t.iexpr(x.X) + ")"
		case token.EQL:
			return "(" + t.iexpr(x.X) + " =? " + t.iexpr(x.Y) + ")"
		case token.NEQ:
			return "(negb (" + t.iexpr(x.X) + " =? " + t.iexpr(x.Y) + "))"
		}
	}
	return t.fail("boolean expression outside the grammar")
}

func mentionsPi(n ast.Node, pi string) bool {
	found := false
	ast.Inspect(n, func(m ast.Node) bool {
		if ix, ok := m.(*ast.IndexExpr); ok {
			if a, ok := ix.X.(*ast.Ident); ok && a.Name == pi {
				found = true
			}
		}
		return true
	})
	return found
}

// recvCall: matrix.<name>(args) -> (name, args)
func (t *tr) recvCall(e ast.Expr) (string, []ast.Expr, bool) {
	c, ok := e.(*ast.CallExpr)
	if !ok {
		return "", nil, false
	}
	s, ok := c.Fun.(*ast.SelectorExpr)
	if !ok {
		return "", nil, false
	}
	if r, ok := s.X.(*ast.Ident); ok && r.Name == t.recv {
		return s.Sel.Name, c.Args, true
	}
	// matrix.values.Swap(k1, k2)
	if in, ok := s.X.(*ast.SelectorExpr); ok {
		if r, ok := in.X.(*ast.Ident); ok && r.Name == t.recv && in.Sel.Name == "values" {
			return "values." + s.Sel.Name, c.Args, true
		}
	}
	return "", nil, false
}

func isErrReturn(s ast.Stmt) bool {
	r, ok := s.(*ast.ReturnStmt)
	if !ok || len(r.Results) != 1 {
		return false
	}
	c, ok := r.Results[0].(*ast.CallExpr)
	if !ok {
		return false
	}
	sel, ok := c.Fun.(*ast.SelectorExpr)
	if !ok {
		return false
	}
	p, ok := sel.X.(*ast.Ident)
	return ok && (p.Name == "fmt" && sel.Sel.Name == "Errorf" || p.Name == "errors" && sel.Sel.Name == "New")
}
func isNilReturn(s ast.Stmt) bool {
	r, ok := s.(*ast.ReturnStmt)
	if !ok || len(r.Results) != 1 {
		return false
	}
	i, ok := r.Results[0].(*ast.Ident)
	return ok && i.Name == "nil"
}

// a statement list -> Coq term of type stm (applied to nothing); `last` = the list is the
// tail of the function body (a final `return nil` is allowed only there)
func (t *tr) stmts(l []ast.Stmt, last bool, ind string) string {
	if len(l) == 0 {
		return "g_skip"
	}
	s := l[0]
	rest := func() string { return t.stmts(l[1:], last, ind) }
	seq := func(a string) string {
		if len(l) == 1 {
			return a
		}
		return "(g_seq " + a + "\n" + ind + rest() + ")"
	}
	switch x := s.(type) {
	case *ast.AssignStmt:
		if x.Tok != token.DEFINE {
			return t.fail("assignment outside the grammar")
		}
		// n, m := matrix.Dims()
		if len(x.Lhs) == 2 && len(x.Rhs) == 1 {
			if name, args, ok := t.recvCall(x.Rhs[0]); ok && name == "Dims" && len(args) == 0 {
				a, b := x.Lhs[0].(*ast.Ident).Name, x.Lhs[1].(*ast.Ident).Name
				t.env[a], t.env[b] = a, b
				return "(g_dims (fun " + a + " " + b + " =>\n" + ind + rest() + "))"
			}
		}
		// k := matrix.index(a, b)
		if len(x.Lhs) == 1 && len(x.Rhs) == 1 {
			if name, args, ok := t.recvCall(x.Rhs[0]); ok && name == "index" && len(args) == 2 {
				a := x.Lhs[0].(*ast.Ident).Name
				i, j := t.iexpr(args[0]), t.iexpr(args[1])
				t.env[a] = a
				return "(g_index_of " + i + " " + j + " (fun " + a + " =>\n" + ind + rest() + "))"
			}
		}
		return t.fail("assignment outside the grammar")
	case *ast.IfStmt:
		if x.Init != nil {
			return t.fail("if with init")
		}
		c := t.bexpr(x.Cond)
		th := t.stmts(x.Body.List, false, ind+"  ")
		el := "g_skip"
		if x.Else != nil {
			b, ok := x.Else.(*ast.BlockStmt)
			if !ok {
				return t.fail("else-if outside the grammar")
			}
			el = t.stmts(b.List, false, ind+"  ")
		}
		return seq("(g_if " + c + " " + th + " " + el + ")")
	case *ast.ReturnStmt:
		if isErrReturn(s) {
			if len(l) != 1 {
				return t.fail("statements after return")
			}
			return "g_return_err"
		}
		if isNilReturn(s) || len(x.Results) == 0 {
			if len(l) != 1 || !last {
				return t.fail("return nil not at the end of the method")
			}
			return "g_skip"
		}
		return t.fail("return outside the grammar")
	case *ast.ExprStmt:
		name, args, ok := t.recvCall(x.X)
		if !ok {
			return t.fail("call outside the grammar")
		}
		as := make([]string, len(args))
		for i, a := range args {
			as[i] = t.iexpr(a)
		}
		switch {
		case name == "values.Swap" && len(args) == 2:
			return seq("(g_values_swap " + strings.Join(as, " ") + ")")
		case name == "Swap" && len(args) == 4:
			return seq("(g_call (gen_Swap " + strings.Join(as, " ") + "))")
		case (name == "SwapRows" || name == "SwapColumns") && len(args) == 2:
			// the error result is dropped
			return seq("(g_call_drop_err (gen_" + name + " " + strings.Join(as, " ") + "))")
		}
		return t.fail("call of %s outside the grammar", name)
	case *ast.ForStmt:
		// for v := 0; v < B; v++ { body }
		in, ok := x.Init.(*ast.AssignStmt)
		if !ok || in.Tok != token.DEFINE || len(in.Lhs) != 1 || len(in.Rhs) != 1 {
			return t.fail("for init outside the grammar")
		}
		v := in.Lhs[0].(*ast.Ident).Name
		if lit, ok := in.Rhs[0].(*ast.BasicLit); !ok || lit.Value != "0" {
			return t.fail("for must start at 0")
		}
		cond, ok := x.Cond.(*ast.BinaryExpr)
		if !ok || cond.Op != token.LSS {
			return t.fail("for condition outside the grammar")
		}
		if cv, ok := cond.X.(*ast.Ident); !ok || cv.Name != v {
			return t.fail("for condition outside the grammar")
		}
		bound := t.iexpr(cond.Y)
		if inc, ok := x.Post.(*ast.IncDecStmt); !ok || inc.Tok != token.INC {
			return t.fail("for post outside the grammar")
		} else if iv, ok := inc.X.(*ast.Ident); !ok || iv.Name != v {
			return t.fail("for post outside the grammar")
		}
		oldV, oldB := t.loopV, t.piBind
		t.env[v] = v
		t.loopV = v
		var body string
		if t.piVar != "" && mentionsPi(x.Body, t.piVar) {
			// pi[v] must be evaluated by the FIRST statement of the body (its panic comes first)
			if len(x.Body.List) == 0 || !mentionsPi(x.Body.List[0], t.piVar) {
				return t.fail("pi[i] not evaluated by the first statement of the loop body")
			}
			t.piBind = "p"
			body = "(fun " + v + " => g_nth " + t.piVar + " " + v + " (fun p =>\n" + ind + "  " + t.stmts(x.Body.List, false, ind+"  ") + "))"
		} else {
			body = "(fun " + v + " =>\n" + ind + "  " + t.stmts(x.Body.List, false, ind+"  ") + ")"
		}
		t.loopV, t.piBind = oldV, oldB
		delete(t.env, v)
		return seq("(g_for " + bound + " " + body + ")")
	}
	return t.fail("statement outside the grammar")
}

func translate(fd *ast.FuncDecl) string {
	t := &tr{env: map[string]string{}}
	t.recv = fd.Recv.List[0].Names[0].Name
	var params []string
	for _, f := range fd.Type.Params.List {
		for _, n := range f.Names {
			switch ty := f.Type.(type) {
			case *ast.Ident:
				if ty.Name != "int" {
					return "Unsupported \"parameter type\""
				}
				t.env[n.Name] = n.Name
				params = append(params, "("+n.Name+" : Z)")
			case *ast.ArrayType:
				if el, ok := ty.Elt.(*ast.Ident); !ok || el.Name != "int" || ty.Len != nil {
					return "Unsupported \"parameter type\""
				}
				t.piVar = n.Name
				params = append(params, "("+n.Name+" : list Z)")
			default:
				return "Unsupported \"parameter type\""
			}
		}
	}
	body := t.stmts(fd.Body.List, true, "    ")
	return "Definition gen_" + fd.Name.Name + " " + strings.Join(params, " ") + " : stm :=\n    " + body + "."
}

func main() {
	repo := flag.String("repo", "/repo", "library root")
	out := flag.String("out", "GenPerm.v", "generated Coq file")
	rep := flag.String("report", "", "JSON report")
	flag.Parse()
	texts := map[string]string{} // type -> text
	for _, ty := range types {
		path := filepath.Join(*repo, "matrix_sparse_"+ty+".go")
		fs := token.NewFileSet()
		f, err := parser.ParseFile(fs, path, nil, 0)
		if err != nil {
			texts[ty] = "(* parse error: " + err.Error() + " *)\nDefinition gen_Swap := Unsupported \"parse error\"."
			continue
		}
		found := map[string]string{}
		for _, d := range f.Decls {
			fd, ok := d.(*ast.FuncDecl)
			if !ok || fd.Recv == nil || len(fd.Recv.List) != 1 || len(fd.Recv.List[0].Names) != 1 {
				continue
			}
			st, ok := fd.Recv.List[0].Type.(*ast.StarExpr)
			if !ok {
				continue
			}
			id, ok := st.X.(*ast.Ident)
			if !ok || !strings.HasPrefix(id.Name, "Sparse") || !strings.HasSuffix(id.Name, "Matrix") {
				continue
			}
			for _, m := range methods {
				if fd.Name.Name == m {
					found[m] = translate(fd)
				}
			}
		}
		var b strings.Builder
		for _, m := range methods {
			if s, ok := found[m]; ok {
				b.WriteString(s + "\n")
			} else {
				b.WriteString("Definition gen_" + m + " := Unsupported \"method " + m + " not found\".\n")
			}
		}
		texts[ty] = b.String()
	}
	// all instantiations must agree; the majority text is emitted
	count := map[string][]string{}
	for _, ty := range types {
		count[texts[ty]] = append(count[texts[ty]], ty)
	}
	best := ""
	for tx, l := range count {
		if len(l) > len(count[best]) || best == "" || len(l) == len(count[best]) && tx < best {
			best = tx
		}
	}
	var differ []string
	for _, ty := range types {
		if texts[ty] != best {
			differ = append(differ, ty)
		}
	}
	sort.Strings(differ)
	var b strings.Builder
	b.WriteString("(* GENERATED by go2coq_c11 from matrix_sparse_<t>.go of the library — do not edit.\n")
	b.WriteString("   Swap / SwapRows / SwapColumns / PermuteRows / PermuteColumns / SymmetricPermutation in the\n")
	b.WriteString("   statement language of coq/C11/GenLib.v, then the tie  gen_* = exp_*  (GenLib.v proves\n")
	b.WriteString("   exp_* = the model functions of ModelMat.v / ModelMatPerm.v for all inputs). *)\n")
	b.WriteString("From Coq Require Import ZArith List Bool. Import ListNotations.\n")
	b.WriteString("From ADV Require Import C11.Model C11.ModelMat C11.ModelMatPerm C11.GenLib.\nOpen Scope Z_scope.\n\n")
	b.WriteString(fmt.Sprintf("(* identical in %d of %d instantiations: %s *)\n", len(count[best]), len(types), strings.Join(count[best], " ")))
	b.WriteString(best)
	for _, ty := range differ {
		b.WriteString("\n(* DIFFERENT in matrix_sparse_" + ty + ".go: *)\nModule Diff_" + ty + ".\n" + texts[ty] + "End Diff_" + ty + ".\n")
		b.WriteString("Lemma same_" + ty + " : (Diff_" + ty + ".gen_Swap, Diff_" + ty + ".gen_SwapRows, Diff_" + ty + ".gen_SwapColumns, Diff_" + ty + ".gen_PermuteRows, Diff_" + ty + ".gen_PermuteColumns, Diff_" + ty + ".gen_SymmetricPermutation) = (exp_Swap, exp_SwapRows, exp_SwapColumns, exp_PermuteRows, exp_PermuteColumns, exp_SymmetricPermutation).\nProof. reflexivity. Qed.\n")
	}
	b.WriteString("\nLemma tie_Swap : gen_Swap = exp_Swap. Proof. reflexivity. Qed.\n")
	b.WriteString("Lemma tie_SwapRows : gen_SwapRows = exp_SwapRows. Proof. reflexivity. Qed.\n")
	b.WriteString("Lemma tie_SwapColumns : gen_SwapColumns = exp_SwapColumns. Proof. reflexivity. Qed.\n")
	b.WriteString("Lemma tie_PermuteRows : gen_PermuteRows = exp_PermuteRows. Proof. reflexivity. Qed.\n")
	b.WriteString("Lemma tie_PermuteColumns : gen_PermuteColumns = exp_PermuteColumns. Proof. reflexivity. Qed.\n")
	b.WriteString("Lemma tie_SymmetricPermutation : gen_SymmetricPermutation = exp_SymmetricPermutation. Proof. reflexivity. Qed.\n")
	b.WriteString("(* hence the generated methods ARE the model functions, for all arguments and matrices *)\n")
	b.WriteString("Theorem generated_methods_are_the_model :\n")
	b.WriteString("  (forall i1 j1 i2 j2 m, fin (gen_Swap i1 j1 i2 j2 m) = fin_opt m (mswap m i1 j1 i2 j2)) /\\\n")
	b.WriteString("  (forall i j m, fin (gen_SwapRows i j m) = mswap_rows m i j) /\\\n")
	b.WriteString("  (forall i j m, fin (gen_SwapColumns i j m) = mswap_cols m i j) /\\\n")
	b.WriteString("  (forall pi m, fin (gen_PermuteRows pi m) = mperm_rows m pi) /\\\n")
	b.WriteString("  (forall pi m, fin (gen_PermuteColumns pi m) = mperm_cols m pi) /\\\n")
	b.WriteString("  (forall pi m, fin (gen_SymmetricPermutation pi m) = msym_perm m pi).\n")
	b.WriteString("Proof.\n  rewrite tie_Swap, tie_SwapRows, tie_SwapColumns, tie_PermuteRows, tie_PermuteColumns, tie_SymmetricPermutation.\n  exact exp_methods_are_the_model.\nQed.\n")
	if err := os.WriteFile(*out, []byte(b.String()), 0644); err != nil {
		fmt.Fprintln(os.Stderr, err)
		os.Exit(2)
	}
	if *rep != "" {
		r := map[string]interface{}{"ok": len(differ) == 0 && !strings.Contains(best, "Unsupported"), "identical": count[best], "differ": differ,
			"unsupported": strings.Contains(best, "Unsupported"), "methods": methods}
		j, _ := json.MarshalIndent(r, "", " ")
		os.WriteFile(*rep, j, 0644)
	}
}
