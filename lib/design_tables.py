#!/usr/bin/env python3
"""Integrator: print the markdown tables of DESIGN.md §7 from the committed artefacts
(seeded/*/meta.json, known_findings.json, MANIFEST.json, evidence/*.json)."""
import glob, json, os, re
ROOT = os.path.dirname(os.path.dirname(os.path.abspath(__file__)))


def title(d):
    p = os.path.join(d, "notes.md")
    if not os.path.exists(p):
        return ""
    for l in open(p, errors="replace"):
        l = l.strip()
        if l.startswith("#"):
            t = re.sub(r"^#+\s*", "", l)
            t = re.sub(r"^(Seed(ed)?( change)?|C\d\d)\s*[^—–-]*[—–-]\s*", "", t)
            return t[:150]
    return ""


def seeds():
    rows = []
    for d in sorted(glob.glob(os.path.join(ROOT, "seeded", "*"))):
        mp = os.path.join(d, "meta.json")
        if not os.path.exists(mp):
            continue
        m = json.load(open(mp))
        runs = m.get("check_runs", [])
        own = m["breaks_property"]
        def res(r):
            if r["exit"] == 1 and r["violation_lines"] > 0:
                return "caught" + ("" if r.get("with_failing_input", 0) > 0 else " (no-failing-input-found)")
            return "MISSED"
        ownruns = [r for r in runs if r["check"] == own]
        first = res(ownruns[0]) if ownruns else "not run"
        last = res(ownruns[-1]) if ownruns else "not run"
        others = sorted({r["check"] for r in runs if r["check"] != own and r["exit"] == 1 and r["violation_lines"] > 0})
        rows.append((m["id"], own, title(d), first, last, ", ".join(others)))
    print("| seed | property | change | first run of the property's check | latest run | also caught by |")
    print("|---|---|---|---|---|---|")
    for r in rows:
        print("| %s | %s | %s | %s | %s | %s |" % r)
    n = len(rows)
    print("\n%d seeded regressions; first-run catches: %d; latest-run catches: %d." % (
        n, sum(1 for r in rows if r[3].startswith("caught")), sum(1 for r in rows if r[4].startswith("caught"))))


def findings():
    kf = json.load(open(os.path.join(ROOT, "known_findings.json")))
    byp = {}
    for f in kf["findings"]:
        byp.setdefault(f["property"], []).append(f)
    print("| property | id | site | what |")
    print("|---|---|---|---|")
    for p in sorted(byp):
        for f in sorted(byp[p], key=lambda f: f["id"]):
            site = f.get("site", "")
            site = site if isinstance(site, str) else json.dumps(site)
            print("| %s | %s | %s | %s |" % (p, f["id"], site[:90].replace("|", "/"), str(f.get("what", ""))[:200].replace("|", "/").replace("\n", " ")))
    print("\n%d recorded findings; %d `fixed:` entries." % (len(kf["findings"]), len(kf["fixed"])))


def props():
    print("| property | theorem statements in Props*.v | quick wall (s) | evaluations | obligations |")
    print("|---|---|---|---|---|")
    for i in range(1, 21):
        p = "C%02d" % i
        n = 0
        for f in glob.glob(os.path.join(ROOT, "coq", p, "Props*.v")):
            txt = re.sub(r"\(\*.*?\*\)", "", open(f).read(), flags=re.S)
            n += len(re.findall(r"(?m)^\s*(?:Theorem|Lemma|Corollary|Example|Fact|Proposition)\s", txt))
        ev = os.path.join(ROOT, "evidence", p + ".json")
        e = json.load(open(ev)) if os.path.exists(ev) else {}
        c = e.get("coverage", {})
        print("| %s | %d | %s | %s | %s |" % (p, n, e.get("wall_s", "?"), c.get("evaluations", "?"), c.get("obligations", "?")))


def axioms():
    """per property: axioms named by Print Assumptions under the Props theorems (from the evidence) and the coqchk result."""
    print("| property | theorems closed under the global context | axioms named by Print Assumptions (all from the standard library / Coquelicot) | coqchk -o (thorough tier) |")
    print("|---|---|---|---|")
    for i in range(1, 21):
        p = "C%02d" % i
        ev = os.path.join(ROOT, "evidence", p + ".json")
        e = json.load(open(ev)) if os.path.exists(ev) else {}
        c = e.get("coverage", {})
        pa = c.get("print_assumptions") or e.get("print_assumptions") or {}
        names, closed, total = set(), 0, 0
        if isinstance(pa, dict) and "axioms_used" in pa:
            names = set(pa["axioms_used"]); closed = pa.get("closed_under_global_context", 0); total = pa.get("theorems", 0)
        elif isinstance(pa, dict):
            for k, v in pa.items():
                total += 1
                v = str(v)
                if v.strip().startswith("Closed"):
                    closed += 1
                for m in re.finditer(r"([A-Za-z_][A-Za-z_0-9]*(?:\.[A-Za-z_][A-Za-z_0-9']*)+)\s*:", v):
                    names.add(m.group(1))
        ck = c.get("coqchk")
        ckp = os.path.join(ROOT, "corpus", "coqchk", p + ".json")
        if ck is None and os.path.exists(ckp):
            ck = json.load(open(ckp))
        if ck is None:
            cks = "no completed run recorded"
        elif ck.get("exit") == 0:
            own = [a for a in ck.get("axioms", []) if not a.startswith(("Coq.Floats", "Coq.Numbers.Cyclic"))]
            prim = len(ck.get("axioms", [])) - len(own)
            cks = "ok in %ss; %d primitive float/int63 declarations of the standard library%s" % (ck.get("secs"), prim, ("; " + ", ".join(a.replace("Coq.", "") for a in own)) if own else "")
        elif ck.get("exit") == 124:
            cks = "did not finish within %ss (recorded, non-fatal)" % ck.get("secs")
        else:
            cks = "exit %s" % ck.get("exit")
        prim = sorted(n for n in names if n.startswith(("PrimFloat.", "PrimInt63.", "FloatAxioms.", "Uint63.", "FloatOps.", "Sint63.")))
        rest = sorted(n for n in names if n not in prim)
        if prim:
            rest.append("%d primitive float / int63 operations and their specification axioms of the standard library (PrimFloat.*, PrimInt63.*, FloatAxioms.*)" % len(prim))
        print("| %s | %s of %s | %s | %s |" % (p, closed, total, ", ".join(rest) or "none", cks))


if __name__ == "__main__":
    import sys
    {"seeds": seeds, "findings": findings, "props": props, "axioms": axioms}[sys.argv[1]]()
