#!/usr/bin/env python3
"""Integrator helper: add/update a property check in MANIFEST.json.
usage: manifest_tool.py add Cxx <json-file-with {text, note, technique, design_ref?}>
       manifest_tool.py hook <commit> ...        (append to hooks.source_commits)
       manifest_tool.py validate
"""
import json, os, sys
ROOT = os.path.dirname(os.path.dirname(os.path.abspath(__file__)))
MP = os.path.join(ROOT, "MANIFEST.json")
ENGINE = "coq-proof+correspondence"


def load():
    return json.load(open(MP))


def save(m):
    m["checks"].sort(key=lambda c: c["property_id"])
    m["not_applicable"].sort(key=lambda c: c["property_id"])
    for e in m["engines"]:
        if e["name"] == ENGINE:
            e["serves_properties"] = sorted(c["property_id"] for c in m["checks"])
    json.dump(m, open(MP, "w"), indent=1)
    open(MP, "a").write("\n")


def validate():
    import jsonschema
    jsonschema.validate(load(), json.load(open("/root/.vp/MANIFEST.schema.json")))
    m = load()
    ids = [c["property_id"] for c in m["checks"]] + [c["property_id"] for c in m["not_applicable"]]
    assert sorted(ids) == ["C%02d" % i for i in range(1, 21)], ids
    print("MANIFEST ok: %d claimed, %d not_applicable" % (len(m["checks"]), len(m["not_applicable"])))


def main():
    cmd = sys.argv[1]
    if cmd == "validate":
        return validate()
    m = load()
    if cmd == "add":
        pid = sys.argv[2]
        d = json.load(open(sys.argv[3]))
        m["checks"] = [c for c in m["checks"] if c["property_id"] != pid]
        m["not_applicable"] = [c for c in m["not_applicable"] if c["property_id"] != pid]
        m["checks"].append({
            "property_id": pid,
            "quick_cmd": "./check %s --tier quick" % pid,
            "thorough_cmd": "./check %s --tier thorough" % pid,
            "evidence_file": "/verif/evidence/%s.json" % pid,
            "replay_cmd_template": "./check %s --replay {path}" % pid,
            "engine": ENGINE,
            "level_claimed": {"category": "proof", "text": d["text"],
                              "design_ref": d.get("design_ref", "DESIGN.md §2 %s" % pid)},
            "level_note": d["note"],
            "technique": d["technique"],
        })
    elif cmd == "hook":
        sc = m["hooks"].setdefault("source_commits", [])
        for c in sys.argv[2:]:
            if c not in sc:
                sc.append(c)
    save(m)
    validate()


if __name__ == "__main__":
    main()
