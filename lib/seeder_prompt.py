#!/usr/bin/env python3
"""Integrator tool: print the prompt for an independent seeder sub-agent (round D and later).
usage: seeder_prompt.py <Cxx> <round letter> <first seed number>
The prompt contains ONLY the property record and the one-line titles of the earlier seeds (so that new seeds differ);
nothing about /verif's models, checks or harnesses."""
import json, os, sys

prop, rnd, first = sys.argv[1], sys.argv[2], int(sys.argv[3])
rec = None
for l in open("/verif/properties.jsonl"):
    d = json.loads(l)
    if d["id"] == prop:
        rec = d
earlier = []
for sid in sorted(os.listdir("/verif/seeded")):
    if sid.startswith(prop + "-"):
        n = os.path.join("/verif/seeded", sid, "notes.md")
        t = ""
        if os.path.exists(n):
            for line in open(n):
                if line.strip():
                    t = line.strip().lstrip("# ").strip()
                    break
        earlier.append("%s: %s" % (sid, t))
wt = "/tmp/seed%s_%s/wt" % (rnd, prop)
out = "/tmp/seed%s_%s" % (rnd, prop)
print("""You are testing a verification effort for the Go numerical library pbenner/autodiff by planting realistic regressions in it. You work ONLY in your own scratch git worktree of the library at %(wt)s (already created for you; it is a detached checkout of the library's current HEAD). Do NOT read, list or use anything under /verif, do NOT touch /repo, and do not commit anywhere. Every shell call must start with: export GOFLAGS=-mod=mod GOPROXY=off GOSUMDB=off GOTOOLCHAIN=local   (there is no network).

The property under attack (this text is all you are given about it):

id: %(id)s
title: %(title)s
statement: %(statement)s
quantified over: %(q)s
why the existing tests cannot settle it: %(why)s
code it is anchored in: %(anchors)s

YOUR TASK: produce TWO independent changes to the library (seed %(a)d and seed %(b)d), each of which
 (1) BREAKS the property above (say which clause), at a site a maintainer could plausibly touch and in a way that looks like an innocent refactoring, optimisation, clean-up or bug fix (wrong index, stale cache, dropped update, reordered write, condition slightly changed, guard removed, buffer reused, a fast path that differs from the generic path, ...);
 (2) still COMPILES (`go build ./...`) and PASSES THE EXISTING TEST SUITE UNCHANGED: `go test -vet=off -count=1 -timeout 25m ./...` run in the worktree root (takes ~90 s; the package algorithm/adam fails to build on the unchanged tree too - ignore it);
 (3) needs something SPECIFIC to manifest - a particular multi-step sequence of operations, an unusual input or boundary value, a particular option combination, re-use of an object across calls, two cooperating sites that each look fine alone, a particular interleaving or fault - NOT something ordinary use would expose at once;
 (4) differs in site AND mechanism from these earlier seeds for the same property:
%(earlier)s
    and the two new changes must differ from each other in site and mechanism too. Much of the library is generated from templates (*.in files instantiated by cpp into many .go files, see the Makefile / *.gen.in files): patch the generated .go files directly (all instantiations that matter, at least the float64/Real64 ones), you do not need to regenerate.

For each change write a directory %(out)s/out1 and %(out)s/out2 containing
  patch.diff    - `git diff` of the worktree against HEAD (library files only, no test files), applicable with `git apply` at the worktree root;
  demo_test.go  - ONE Go test file (self-contained, package clause matching the package directory it is to be copied into; test function names start with TestSeed%(rnd)s%(id)sN where N is 1 or 2) that PASSES on the unchanged library and FAILS with your change, and whose failure shows the property clause being violated (compare against an independent oracle: brute force, a mathematical identity, a dense twin, a fresh object, ...);
  notes.md      - first line: a one-line title of the change; then: file/function changed, the clause that breaks, exactly what is needed to make it manifest, the package directory the demo goes into (relative to the repository root, '.' for the root package) and the -run regex, and what you ran with which outcome.
Verify everything yourself: demo passes on the clean worktree; apply the patch; build; demo fails; the full suite passes with the patch; then `git checkout -- . && git clean -fdq` the worktree before starting the second change (and at the end). Do not leave the worktree patched.

Your final reply: for each change the title, the package directory and -run regex of its demo, and one paragraph on mechanism and trigger. Keep it under 400 words.""" % dict(
    wt=wt, out=out, id=rec["id"], title=rec["title"], statement=rec["statement"], q=rec["quantifier"]["text"],
    why=rec.get("why_tests_cant", ""), anchors=json.dumps(rec.get("anchors", {}).get("mechanism", rec.get("anchors"))),
    a=first, b=first + 1, earlier="\n".join("      - " + e for e in earlier) or "      (none)", rnd=rnd))
