#!/usr/bin/env python3
"""Integrator: append round addenda to MANIFEST.json entries.
usage: manifest_append.py <addenda.json>   with {"Cxx": {"text": "...", "note": "...", "technique": "..."}, ...}
Each string is appended (once: skipped when already present) to level_claimed.text / level_note / technique."""
import json, os, sys
ROOT = os.path.dirname(os.path.dirname(os.path.abspath(__file__)))
mp = os.path.join(ROOT, "MANIFEST.json")
m = json.load(open(mp))
add = json.load(open(sys.argv[1]))
for c in m["checks"]:
    a = add.get(c["property_id"])
    if not a:
        continue
    if a.get("text") and a["text"] not in c["level_claimed"]["text"]:
        c["level_claimed"]["text"] = c["level_claimed"]["text"].rstrip() + " " + a["text"].strip()
    if a.get("note") and a["note"] not in c.get("level_note", ""):
        c["level_note"] = (c.get("level_note", "").rstrip() + "; " + a["note"].strip()).lstrip("; ")
    if a.get("technique") and a["technique"] not in c.get("technique", ""):
        c["technique"] = c.get("technique", "").rstrip() + " " + a["technique"].strip()
json.dump(m, open(mp, "w"), indent=1)
open(mp, "a").write("\n")
try:
    import jsonschema
    jsonschema.validate(json.load(open(mp)), json.load(open("/root/.vp/MANIFEST.schema.json")))
except ImportError:
    print("jsonschema not importable here: validate with python3-vt")
print("MANIFEST updated and valid:", sorted(add))
