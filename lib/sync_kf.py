#!/usr/bin/env python3
"""Integrator: make known_findings.json 'findings' of the given properties equal to corpus/Cxx/known_findings_proposed.json
(the builder's file is authoritative for what is still a defect at HEAD after re-modelling)."""
import json, os, sys
ROOT = os.path.dirname(os.path.dirname(os.path.abspath(__file__)))
kfp = os.path.join(ROOT, "known_findings.json")
kf = json.load(open(kfp))
for p in sys.argv[1:]:
    fp = os.path.join(ROOT, "corpus", p, "known_findings_proposed.json")
    if not os.path.exists(fp):
        print("no proposals for", p); continue
    d = json.load(open(fp)); items = d["findings"] if isinstance(d, dict) else d
    for f in items: f.setdefault("property", p)
    old = {f["id"] for f in kf["findings"] if f["property"] == p}; new = {f["id"] for f in items}
    kf["findings"] = [f for f in kf["findings"] if f["property"] != p] + [f for f in items if f["property"] == p]
    # entries a builder files under another property's id stay with that property
    print(p, "removed:", sorted(old - new), "added:", sorted(new - old), "total:", len(new))
kf["findings"].sort(key=lambda f: (f["property"], f["id"]))
json.dump(kf, open(kfp, "w"), indent=1)
