#!/bin/sh
# integrator tool: confirm a freshly written seed (lib/seed_confirm.py) and, if confirmed, run the property's check
# against it from a snapshot copy of /verif.   usage: seed_process.sh <Cxx> <round> <outN> <seed number> <pkgdir> <regex> [label]
P=$1; R=$2; OUT=$3; N=$4; PKG=$5; RX=$6; LABEL=${7:-round$R}
SID=$P-$N
mkdir -p /root/scratch/seedruns
python3 /verif/lib/seed_confirm.py $SID $P /tmp/seed${R}_$P/$OUT /tmp/seed${R}_$P/wt "$PKG" "$RX" > /root/scratch/seedruns/confirm_$SID.log 2>&1
tail -1 /root/scratch/seedruns/confirm_$SID.log
if grep -q "^$SID CONFIRMED" /root/scratch/seedruns/confirm_$SID.log; then
  VERIF_HOME=${VERIF_HOME:-/root/scratch/verif_snap} sh /verif/lib/seed_run.sh $SID $P quick $LABEL
fi
