#!/usr/bin/env python3
"""Integrator: merge corpus/Cxx/known_findings_proposed.json (given property ids) into known_findings.json."""
import json, os, sys
ROOT = os.path.dirname(os.path.dirname(os.path.abspath(__file__)))
kf = json.load(open(os.path.join(ROOT, "known_findings.json")))
byid = {(f["property"], f["id"]): f for f in kf["findings"]}
for p in sys.argv[1:]:
    fp = os.path.join(ROOT, "corpus", p, "known_findings_proposed.json")
    if not os.path.exists(fp):
        print("no proposals for", p); continue
    d = json.load(open(fp))
    items = d["findings"] if isinstance(d, dict) else d
    for f in items:
        f.setdefault("property", p)
        byid[(f["property"], f["id"])] = f
        print("merged", p, f["id"])
kf["findings"] = sorted(byid.values(), key=lambda f: (f["property"], f["id"]))
json.dump(kf, open(os.path.join(ROOT, "known_findings.json"), "w"), indent=1)
