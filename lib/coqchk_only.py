#!/usr/bin/env python3
"""Integrator: run only the coqchk stage of the thorough tier for one property (independent re-check of Props*.vo and
everything they depend on; axioms recorded in corpus/coqchk/<Cxx>.json). Does not touch evidence/.
usage: coqchk_only.py Cxx [timeout seconds]"""
import os, sys
ROOT = os.path.dirname(os.path.dirname(os.path.abspath(__file__)))
sys.path.insert(0, os.path.join(ROOT, "lib"))
import vlib
prop = sys.argv[1]
ctx = vlib.Ctx(prop, "thorough", 1, None)
vlib.coqchk_stage(ctx, timeout=int(sys.argv[2]) if len(sys.argv) > 2 else 2400)
print(prop, ctx.cov.get("coqchk", {}).get("exit"), ctx.cov.get("coqchk", {}).get("secs"), "violations:", len(ctx.violations))
