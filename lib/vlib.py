"""Shared machinery for the /verif checks (see DESIGN.md §1).

A property plugin (props/cNN.py) defines `run(ctx)`; ctx is a `Ctx` below.
Everything here is deliberately boring: run commands under timeouts, build the
Coq project, build a Go harness from /repo's working tree, evaluate case files
with coqc, write evidence, print VIOLATION / KNOWN-FINDING lines.
"""
import concurrent.futures as cf
import fcntl
import glob
import hashlib
import json
import os
import re
import shutil
import subprocess
import sys
import time

ROOT = os.path.dirname(os.path.dirname(os.path.abspath(__file__)))
COQ = os.path.join(ROOT, "coq")
HARNESS = os.path.join(ROOT, "harness")
# VERIF_REPO / VERIF_RUNS redirect a run to another checkout of the library (used by the integrator to try
# seeded regressions in a scratch worktree without disturbing /repo); registered checks never set them.
RUNS = os.environ.get("VERIF_RUNS") or os.path.join(ROOT, "runs")
REPO = os.environ.get("VERIF_REPO") or "/repo"
# VERIF_COVER=<dir>: build the harnesses with coverage instrumentation of /repo's packages and collect the counters there
COVER = os.environ.get("VERIF_COVER") or ""
if COVER:
    os.makedirs(COVER, exist_ok=True)
    os.environ["GOCOVERDIR"] = COVER
EVID = os.path.join(ROOT, "evidence") if not os.environ.get("VERIF_RUNS") else os.path.join(RUNS, "evidence")
NCPU = 16
# On a machine that is already oversubscribed (several checks / builders at once) sixteen more coqc processes per
# check only thrash memory; the worker count (never the verdict) adapts to the load at start-up. VERIF_COQ_JOBS overrides.
try:
    _la = os.getloadavg()[0]
    NCPU = int(os.environ.get("VERIF_COQ_JOBS", "0")) or (16 if _la < 24 else (6 if _la < 64 else 3))
except (OSError, ValueError):
    NCPU = 16

GATE_RE = re.compile(
    r"\b(Admitted|admit|Axiom|Axioms|Parameter|Parameters|Conjecture|Conjectures|Admit Obligations)\b"
    r"|Unset\s+Guard|bypass_check|type-in-type|impredicative-set|Unset\s+Universe\s+Checking|Unset\s+Positivity")


def go_env():
    e = dict(os.environ)
    e.update(GOFLAGS="-mod=mod", GOPROXY="off", GOSUMDB="off", GOTOOLCHAIN="local",
             CGO_ENABLED="0")
    e.setdefault("GOCACHE", "/root/.cache/go-build")
    return e


def sh(cmd, timeout=600, cwd=None, env=None, stdin=None):
    """Run cmd (list or str) under a timeout; return (rc, combined output). rc=124 on timeout."""
    try:
        p = subprocess.run(cmd, shell=isinstance(cmd, str), cwd=cwd, env=env, input=stdin,
                           stdout=subprocess.PIPE, stderr=subprocess.STDOUT,
                           timeout=timeout, universal_newlines=True, errors="replace")
        return p.returncode, p.stdout
    except subprocess.TimeoutExpired as ex:
        out = ex.stdout or ""
        if isinstance(out, bytes):
            out = out.decode("utf-8", "replace")
        return 124, out + "\n[timeout after %ss]" % timeout


# ----------------------------------------------------------------------------
# Coq project
# ----------------------------------------------------------------------------

class CoqLock:
    def __enter__(self):
        os.makedirs(COQ, exist_ok=True)
        self.f = open(os.path.join(COQ, ".lock"), "w")
        fcntl.flock(self.f, fcntl.LOCK_EX)
        return self

    def __exit__(self, *a):
        fcntl.flock(self.f, fcntl.LOCK_UN)
        self.f.close()


def coq_sources():
    out = []
    for d, _, fs in os.walk(COQ):
        for f in fs:
            if f.endswith(".v"):
                out.append(os.path.relpath(os.path.join(d, f), COQ))
    return sorted(out)


def coq_sync():
    """(Re)write _CoqProject and Makefile when the set of .v files changed."""
    srcs = coq_sources()
    body = "-Q . ADV\n-arg -w -arg -notation-overridden,-deprecated-hint-without-locality,-deprecated-instance-without-locality,-ambiguous-paths\n" + "\n".join(srcs) + "\n"
    cp = os.path.join(COQ, "_CoqProject")
    old = open(cp).read() if os.path.exists(cp) else None
    if old != body or not os.path.exists(os.path.join(COQ, "Makefile")):
        open(cp, "w").write(body)
        rc, out = sh(["coq_makefile", "-f", "_CoqProject", "-o", "Makefile"], cwd=COQ, timeout=120)
        if rc != 0:
            raise RuntimeError("coq_makefile failed: " + out)


def coq_make(targets=None, timeout=1500, jobs=NCPU):
    """make the given .vo targets (relative to coq/), or everything.
    Returns (ok: dict target->bool, log)."""
    # The global lock only covers the (cheap) regeneration of _CoqProject / Makefile / dependency file, so
    # that checks of different properties do not queue behind one long proof build; the builds themselves
    # run concurrently on disjoint targets (shared Base/*.vo are up to date and not rebuilt).
    with CoqLock():
        coq_sync()
        sh(["make", ".Makefile.d"], cwd=COQ, timeout=300)
    tg = list(targets) if targets else []
    rc, out = sh(["make", "-k", "-j%d" % jobs] + tg, cwd=COQ, timeout=timeout)
    if rc != 0 and re.search(r"Makefile\.d|No rule to make target|missing separator", out):
        # lost a race with another check regenerating the dependency file: once more, alone
        with CoqLock():
            coq_sync()
            rc, out = sh(["make", "-k", "-j%d" % jobs] + tg, cwd=COQ, timeout=timeout)
    ok = {}
    for t in (tg or [s + "o" for s in coq_sources()]):
        vo = os.path.join(COQ, t)
        src = vo[:-1]
        ok[t] = os.path.exists(vo) and os.path.exists(src) and os.path.getmtime(vo) >= os.path.getmtime(src)
    if rc != 0:
        # a target that failed has no fresh .vo; make -k keeps going for the others
        for t in ok:
            if re.search(r"(?m)^(File \"\./%s\"|make.*\*\*\* \[.*%s)" % (re.escape(t[:-1]), re.escape(t)), out):
                ok[t] = False
    return ok, out


def coqc_file(path, timeout=900, cwd=None):
    """Compile one stand-alone .v file (case shard, assumptions file) against the project."""
    return sh(["coqc", "-Q", COQ, "ADV", "-w", "-notation-overridden,-deprecated-hint-without-locality", path],
              timeout=timeout, cwd=cwd or os.path.dirname(path))


def coq_errors(log):
    """Extract (file, line, message) triples from a make/coqc log."""
    errs = []
    for m in re.finditer(r'File "([^"]+)", line (\d+), characters [^\n]*\n((?:(?!File ").*\n?){1,12})', log):
        if "Error" in m.group(3):
            errs.append({"file": m.group(1), "line": int(m.group(2)), "msg": m.group(3).strip()[:600]})
    return errs


def theorem_names(vfile):
    """Names of Theorem/Lemma/Corollary/Example statements in a .v file."""
    txt = open(vfile).read()
    txt = re.sub(r"\(\*.*?\*\)", "", txt, flags=re.S)
    return re.findall(r"(?m)^\s*(?:Theorem|Lemma|Corollary|Example|Fact|Proposition)\s+([A-Za-z0-9_']+)", txt)


def enclosing_lemma(vfile, line):
    """Name of the statement that contains source line `line` of vfile."""
    name = None
    try:
        for i, l in enumerate(open(vfile), 1):
            m = re.match(r"\s*(?:Theorem|Lemma|Corollary|Example|Fact|Proposition|Definition|Fixpoint)\s+([A-Za-z0-9_']+)", l)
            if m:
                name = m.group(1)
            if i >= line:
                break
    except OSError:
        pass
    return name


def gate(paths):
    """Scan .v files for forbidden constructs; returns list of 'file:line: text'."""
    bad = []
    for p in paths:
        try:
            txt = open(p).read()
        except OSError:
            continue
        # strip comments (non-nested approximation, then nested leftovers)
        prev = None
        while prev != txt:
            prev = txt
            txt = re.sub(r"\(\*(?:(?!\(\*|\*\)).)*\*\)", lambda m: "\n" * m.group(0).count("\n"), txt, flags=re.S)
        stack = []   # open Section / Module names: a Variable / Hypothesis outside every Section declares an axiom
        for i, l in enumerate(txt.split("\n"), 1):
            if GATE_RE.search(l):
                bad.append("%s:%d: %s" % (os.path.relpath(p, ROOT), i, l.strip()[:120]))
            m = re.match(r"\s*(Section|Module\s+Type|Module)\s+(?:Import\s+|Export\s+)?([A-Za-z_][\w']*)", l)
            if m and not (m.group(1) != "Section" and ":=" in l):
                stack.append(("S" if m.group(1) == "Section" else "M", m.group(2)))
            elif re.match(r"\s*End\s+([A-Za-z_][\w']*)\s*\.", l) and stack:
                stack.pop()
            elif re.match(r"\s*(?:(?:Local|Global|#\[[^\]]*\])\s+)*(Variable|Variables|Hypothesis|Hypotheses)\b", l) \
                    and not any(k == "S" for k, _ in stack):
                bad.append("%s:%d: outside a Section: %s" % (os.path.relpath(p, ROOT), i, l.strip()[:100]))
    return bad


def print_assumptions(prop, modules_theorems, workdir):
    """Compile a scratch file that prints the assumptions of every listed theorem.
    modules_theorems: list of (logical module, [theorem names]). Returns dict name -> text."""
    os.makedirs(workdir, exist_ok=True)
    path = os.path.join(workdir, "Assumptions_%s.v" % prop)
    with open(path, "w") as f:
        for mod, ths in modules_theorems:
            f.write("From ADV Require %s.\n" % mod)
        for mod, ths in modules_theorems:
            for t in ths:
                f.write('Goal True. idtac "@@ %s". Abort.\nPrint Assumptions ADV.%s.%s.\n' % (t, mod, t))
    rc, out = coqc_file(path, timeout=600)
    res = {}
    if rc != 0:
        return {"_error": out[-2000:]}
    cur = None
    for l in out.split("\n"):
        if l.startswith("@@ "):
            cur = l[3:].strip()
            res[cur] = ""
        elif cur is not None:
            res[cur] += l + "\n"
    return {k: " ".join(v.split()) for k, v in res.items()}


# ----------------------------------------------------------------------------
# Go harness
# ----------------------------------------------------------------------------

def harness_sync():
    """go.sum of the harness module follows /repo's."""
    src = os.path.join(REPO, "go.sum")
    dst = os.path.join(HARNESS, "go.sum")
    if os.path.exists(src):
        a = open(src).read()
        b = open(dst).read() if os.path.exists(dst) else ""
        if not set(a.split("\n")) <= set(b.split("\n")):
            open(dst, "w").write(a)


def build_harness(pkg, tags="verif", race=False, timeout=900):
    """Build harness/<pkg> against /repo's current working tree. Returns (binary path or None, log)."""
    harness_sync()
    os.makedirs(os.path.join(RUNS, "bin"), exist_ok=True)
    outp = os.path.join(RUNS, "bin", pkg + ("_race" if race else ""))
    cmd = ["go", "build", "-tags", tags, "-o", outp]
    if REPO != "/repo":
        alt = os.path.join(RUNS, "go.alt.mod")
        gm = open(os.path.join(HARNESS, "go.mod")).read().replace("=> /repo", "=> " + REPO)
        open(alt, "w").write(gm)
        shutil.copy(os.path.join(HARNESS, "go.sum"), os.path.join(RUNS, "go.alt.sum"))
        cmd.append("-modfile=" + alt)
    env = go_env()
    if race:
        cmd.append("-race")
        env["CGO_ENABLED"] = "1"
    if COVER and not race:
        # integrator tool lib/tie_coverage.py: which functions of /repo the correspondence run actually executes
        # (go 1.23 emits no counters unless the main package is instrumented too, and patterns do not reach the
        # replaced module: list the packages explicitly)
        lc = ["go", "list", "-tags", tags, "-deps"] + ([a for a in cmd if a.startswith("-modfile=")]) + ["./" + pkg]
        rcl, outl = sh(lc, cwd=HARNESS, env=env, timeout=300)
        pk = [l.strip() for l in outl.split("\n") if l.startswith(("github.com/pbenner/autodiff", "adharness"))]
        if rcl == 0 and pk:
            cmd += ["-cover", "-coverpkg=" + ",".join(pk)]
    cmd.append("./" + pkg)
    rc, out = sh(cmd, cwd=HARNESS, env=env, timeout=timeout)
    if rc != 0:
        return None, out
    return outp, out


def build_tool(relpath, outname, timeout=600):
    """Build a Go tool living in /verif/<relpath> (own module, stdlib only)."""
    os.makedirs(os.path.join(RUNS, "bin"), exist_ok=True)
    outp = os.path.join(RUNS, "bin", outname)
    rc, out = sh(["go", "build", "-o", outp, "."], cwd=os.path.join(ROOT, relpath), env=go_env(), timeout=timeout)
    return (outp if rc == 0 else None), out


# ----------------------------------------------------------------------------
# case-file evaluation
# ----------------------------------------------------------------------------

def eval_shards(paths, timeout=900, jobs=NCPU):
    """coqc every shard in parallel. Each shard ends with `Print M.` where M : list nat is
    the list of mismatching case indices. Returns list of dicts
    {path, ok, mism:[...], error, secs}."""
    def one(p):
        t0 = time.time()
        rc, out = coqc_file(p, timeout=timeout)
        r = {"path": p, "secs": round(time.time() - t0, 2), "ok": False, "mism": None, "error": None}
        m = re.search(r"M\s*=\s*(\[[^\]]*\])", out, flags=re.S)
        if rc == 0 and m:
            body = m.group(1).strip()[1:-1].strip()
            r["mism"] = [int(x) for x in re.findall(r"\d+", body)] if body else []
            r["ok"] = (r["mism"] == [])
        else:
            r["error"] = out[-3000:]
        for ext in (".vo", ".vok", ".vos", ".glob"):
            q = p[:-2] + ext
            if os.path.exists(q):
                os.remove(q)
        aux = os.path.join(os.path.dirname(p), "." + os.path.basename(p)[:-2] + ".aux")
        if os.path.exists(aux):
            os.remove(aux)
        return r
    with cf.ThreadPoolExecutor(max_workers=jobs) as ex:
        return list(ex.map(one, paths))


def load_jsonl(path):
    out = []
    with open(path) as f:
        for l in f:
            l = l.strip()
            if l:
                out.append(json.loads(l))
    return out


# ----------------------------------------------------------------------------
# known findings
# ----------------------------------------------------------------------------

def known_findings(prop):
    p = os.path.join(ROOT, "known_findings.json")
    if not os.path.exists(p):
        return []
    d = json.load(open(p))
    return [f for f in d.get("findings", []) if f.get("property") == prop]


# ----------------------------------------------------------------------------
# run context
# ----------------------------------------------------------------------------

class Ctx:
    def __init__(self, prop, tier, seed, replay=None):
        self.prop = prop
        self.tier = tier
        self.seed = seed
        self.replay = replay
        self.t0 = time.time()
        self.dir = os.path.join(RUNS, prop)
        self.violations = []      # list of (replay path, found_input bool, text)
        self.known_hit = []
        self.obligations = 0
        self.discharged = 0
        self.cov = {"samples": [], "trusted_base": [], "checker_cmd": ""}
        self.assumptions = []
        self.notes = []
        self.level = "proof"
        self._nrep = 0

    # -- directories
    def fresh_dir(self):
        if self.replay and os.path.abspath(self.replay).startswith(self.dir):
            # keep the replay file we are asked to re-execute
            keep = open(self.replay).read()
            shutil.rmtree(self.dir, ignore_errors=True)
            os.makedirs(self.dir, exist_ok=True)
            open(self.replay, "w").write(keep)
        else:
            shutil.rmtree(self.dir, ignore_errors=True)
            os.makedirs(self.dir, exist_ok=True)
        return self.dir

    def log(self, msg):
        print("[%s %6.1fs] %s" % (self.prop, time.time() - self.t0, msg), flush=True)

    # -- obligations
    def oblige(self, n, done):
        self.obligations += n
        self.discharged += done

    # -- reporting
    def violation(self, replay_obj, found_input, what):
        """Record a violation. replay_obj is written to runs/<id>/replay_<n>.json."""
        self._nrep += 1
        path = os.path.join(self.dir, "replay_%d.json" % self._nrep)
        os.makedirs(self.dir, exist_ok=True)
        replay_obj = dict(replay_obj)
        replay_obj.setdefault("property", self.prop)
        replay_obj.setdefault("what", what)
        replay_obj.setdefault("seed", self.seed)
        replay_obj.setdefault("tier", self.tier)
        replay_obj["failing_input_found"] = bool(found_input)
        with open(path, "w") as f:
            json.dump(replay_obj, f, indent=1, default=str)
        self.violations.append((path, found_input, what))
        return path

    def known_finding(self, fid, what):
        self.known_hit.append((fid, what))

    def finish(self):
        wall = round(time.time() - self.t0, 2)
        cov = dict(self.cov)
        # Obligations that could not be discharged ONLY because a listed known finding makes them false on the
        # unchanged tree (a certified anchor / correspondence case sitting on a recorded defect) are reported
        # separately; anything else undischarged without a reported violation is a machinery error.
        if self.discharged < self.obligations and not self.violations:
            if self.known_hit:
                cov["obligations_excused_by_known_findings"] = int(self.obligations - self.discharged)
                self.obligations = self.discharged
            else:
                self.violation({"obligation": "evidence accounting", "obligations": self.obligations,
                                "discharged": self.discharged}, False,
                               "some proof/correspondence obligations were not discharged and no violation was reported")
        cov["obligations"] = int(self.obligations)
        cov["discharged"] = int(self.discharged)
        cov.setdefault("evaluations", 0)
        cov.setdefault("distinct_nontrivial", 0)
        cov["known_findings_confirmed"] = [f for f, _ in self.known_hit]
        if not cov.get("samples"):
            cov["samples"] = ["(none)"]
        ev = {
            "property_id": self.prop, "tier": self.tier, "seed": int(self.seed), "level": self.level,
            "coverage": cov, "assumptions": self.assumptions, "wall_s": wall,
            "violations": len(self.violations), "notes": self.notes,
        }
        os.makedirs(EVID, exist_ok=True)
        with open(os.path.join(EVID, self.prop + ".json"), "w") as f:
            json.dump(ev, f, indent=1, default=str)
        for fid, what in self.known_hit:
            print("KNOWN-FINDING: property=%s %s: %s" % (self.prop, fid, what), flush=True)
        for path, found, what in self.violations:
            tail = "" if found else " no-failing-input-found"
            print("# %s" % what, flush=True)
            print("VIOLATION property=%s replay=%s%s" % (self.prop, path, tail), flush=True)
        if self.violations:
            return 1
        print("OK property=%s tier=%s obligations=%d discharged=%d evaluations=%s wall=%.1fs" % (
            self.prop, self.tier, self.obligations, self.discharged, cov.get("evaluations"), wall), flush=True)
        return 0



# ----------------------------------------------------------------------------
# independent re-check (thorough tier)
# ----------------------------------------------------------------------------

def coqchk_stage(ctx, timeout=2400):
    """Thorough tier: re-check the compiled Props file(s) of the property and everything they depend on with
    the independent checker coqchk, and record the axioms it reports.  A checker error is a lost guarantee
    (violation without failing input); a timeout is recorded, not fatal."""
    prop = ctx.prop
    vos = sorted(glob.glob(os.path.join(COQ, prop, "Props*.vo")))
    if not vos:
        ctx.notes.append("coqchk: no compiled Props file for %s" % prop)
        return
    mods = ["ADV.%s.%s" % (prop, os.path.basename(v)[:-3]) for v in vos]
    t0 = time.time()
    rc, out = sh(["coqchk", "-silent", "-o", "-Q", COQ, "ADV"] + mods, timeout=timeout, cwd=COQ)
    secs = round(time.time() - t0)
    ax = []
    m = re.search(r"\* Axioms:\s*(.*?)(?:\n\s*\n|\* Constants|\Z)", out, flags=re.S)
    if m:
        ax = [l.strip() for l in m.group(1).split("\n") if l.strip() and l.strip() != "<none>"]
    ctx.cov["coqchk"] = {"modules": mods, "exit": rc, "secs": secs, "axioms": ax[:80],
                         "cmd": "coqchk -silent -o -Q /verif/coq ADV " + " ".join(mods)}
    ctx.oblige(1, 1 if rc in (0, 124) else 0)
    if REPO == "/repo":
        # keep the last result of the independent re-check beside the corpus (DESIGN §7.2 table is generated from it;
        # quick-tier evidence files do not carry it)
        try:
            d = os.path.join(ROOT, "corpus", "coqchk")
            os.makedirs(d, exist_ok=True)
            rec = dict(ctx.cov["coqchk"], at=time.strftime("%Y-%m-%d %H:%M"))
            json.dump(rec, open(os.path.join(d, prop + ".json"), "w"), indent=1)
        except Exception as e:  # noqa
            ctx.notes.append("coqchk record not written: %s" % e)
    if rc == 124:
        ctx.notes.append("coqchk timed out after %ss (recorded, not fatal)" % timeout)
    elif rc != 0:
        ctx.violation({"obligation": "coqchk " + " ".join(mods), "log": out[-3000:]}, False,
                      "independent re-check (coqchk) of the property theorems failed")
    ctx.log("coqchk: exit %s in %ss, %d axioms reported" % (rc, secs, len(ax)))


TRUSTED_BASE_COMMON = [
    "Coq 8.16.1 kernel and vm_compute (no native_compute); coqchk re-check in thorough tier",
    "hand-written Gallina model of the Go code, tied to /repo by the correspondence run of this check (Go harness built from the working tree, model evaluated by vm_compute on the same inputs)",
    "Go harness under /verif/harness and the Python driver (generation, printing of Coq literals, comparison glue)",
]


# ----------------------------------------------------------------------------
# generic pieces used by most plugins
# ----------------------------------------------------------------------------

def proof_stage(ctx, targets, props_files, extra_gate_dirs=()):
    """Build the Coq targets; count obligations = theorem statements in the Props files
    (+1 per target file).  Returns (all_ok, failures list)."""
    t0 = time.time()
    ok, log = coq_make(targets)
    failures = []
    errs = coq_errors(log)
    nthm = 0
    for pf in props_files:
        names = theorem_names(os.path.join(COQ, pf))
        nthm += len(names)
    built = sum(1 for t in targets if ok.get(t))
    props_ok = all(ok.get(pf + "o") for pf in props_files)
    ctx.oblige(len(targets) + nthm, built + (nthm if props_ok else 0))
    for t in targets:
        if not ok.get(t):
            src = t[:-1]
            e = [x for x in errs if x["file"].lstrip("./") == src]
            lemma = enclosing_lemma(os.path.join(COQ, src), e[0]["line"]) if e else None
            failures.append({"target": t, "lemma": lemma, "errors": e[:3]})
    # gate
    paths = set()
    for t in targets:
        paths.add(os.path.join(COQ, t[:-1]))
    for d in extra_gate_dirs:
        paths.update(glob.glob(os.path.join(COQ, d, "*.v")))
    bad = gate(sorted(paths))
    if bad:
        failures.append({"target": "gate", "lemma": None, "errors": bad[:10]})
    ctx.oblige(1, 0 if bad else 1)
    ctx.cov["checker_cmd"] = "cd /verif/coq && coq_makefile -f _CoqProject -o Makefile && make -k -j16 " + " ".join(targets)
    ctx.log("proof stage: %d/%d targets built, %d theorem statements, gate %s (%.1fs)" % (
        built, len(targets), nthm, "clean" if not bad else "DIRTY", time.time() - t0))
    return (not failures), failures


def run_harness(ctx, binary, n, extra=None, outdir=None, timeout=900, args=()):
    outdir = outdir or ctx.dir
    cmd = [binary, "--seed", str(ctx.seed), "--n", str(n), "--out", outdir, "--tier", ctx.tier]
    if extra:
        cmd += ["--extra", extra]
    cmd += list(args)
    rc, out = sh(cmd, timeout=timeout, cwd=ROOT, env=go_env())
    return rc, out


def merge_meta(ctx, meta):
    ctx.cov["evaluations"] = ctx.cov.get("evaluations", 0) + int(meta.get("evaluations", 0))
    ctx.cov["distinct_nontrivial"] = ctx.cov.get("distinct_nontrivial", 0) + int(meta.get("distinct_nontrivial", 0))
    if meta.get("rule"):
        ctx.cov["rule"] = (ctx.cov.get("rule", "") + " | " if ctx.cov.get("rule") else "") + meta["rule"]
    ctx.cov["samples"] = (ctx.cov.get("samples") or []) + list(meta.get("samples", []))[:2]
    h = ctx.cov.setdefault("input_distribution", {})
    h[meta.get("name", "cases")] = meta.get("histogram", {})
    if meta.get("extra"):
        ctx.cov.setdefault("extra", {})[meta.get("name", "cases")] = meta["extra"]
