#!/usr/bin/env python3
"""Integrator tool: confirm a seeded regression in a scratch worktree and file it under /verif/seeded/<id>/.
usage: seed_confirm.py <id e.g. C19-1> <property> <src dir with patch.diff demo_test.go notes.md> <worktree> <pkgdir> <TestRegex>
Steps (all in the worktree, never /repo): reset to /repo's HEAD; demo passes on the unchanged tree; apply patch;
library builds; demo fails; whole existing suite passes (algorithm/adam fails to build on the unchanged tree too);
revert.  Writes patch.diff, the demonstration, notes.md and meta.json (with what was run and observed)."""
import json, os, shutil, subprocess, sys, time

ENV = dict(os.environ, GOFLAGS="-mod=mod", GOPROXY="off", GOSUMDB="off", GOTOOLCHAIN="local")


def sh(cmd, cwd, timeout=1800):
    p = subprocess.run(cmd, shell=True, cwd=cwd, env=ENV, stdout=subprocess.PIPE, stderr=subprocess.STDOUT,
                       universal_newlines=True, timeout=timeout)
    return p.returncode, p.stdout


def main():
    sid, prop, src, wt, pkgdir, rx = sys.argv[1:7]
    head = subprocess.check_output(["git", "-C", "/repo", "rev-parse", "HEAD"], universal_newlines=True).strip()
    sh("git checkout -q -- . && git clean -fdq && git checkout -q --detach %s" % head, wt)
    demo_dst = os.path.join(wt, pkgdir, "zz_seed_demo_test.go")
    shutil.copy(os.path.join(src, "demo_test.go"), demo_dst)
    run_demo = "go test -vet=off -count=1 -run '%s' ./%s" % (rx, pkgdir)
    res = {"id": sid, "property": prop, "repo_head": head, "demo_cmd": run_demo + "   (demo copied to %s/zz_seed_demo_test.go)" % pkgdir}
    rc0, out0 = sh(run_demo, wt)
    res["demo_on_unchanged_tree"] = "pass" if rc0 == 0 else "FAIL"
    pf = os.path.join(src, "patch.diff")
    rc, out = sh("git apply --check %s && git apply %s" % (pf, pf), wt)
    res["patch_applies"] = (rc == 0)
    if rc != 0:
        res["apply_log"] = out[-1500:]
    rcb, outb = sh("go build ./...", wt)
    res["builds_with_change"] = (rcb == 0)
    rc1, out1 = sh(run_demo, wt)
    res["demo_with_change"] = "fail" if rc1 != 0 else "PASS"
    res["demo_failure_excerpt"] = "\n".join([l for l in out1.split("\n") if l.strip()][:12])[-1500:]
    os.remove(demo_dst)
    t0 = time.time()
    rcs, outs = sh("go test -vet=off -count=1 -timeout 25m ./... 2>&1", wt, timeout=2400)
    lines = [l for l in outs.split("\n") if l.startswith(("ok", "FAIL", "---", "panic"))]
    bad = [l for l in lines if not l.startswith("ok") and "algorithm/adam" not in l and l.strip() != "FAIL"]
    res["suite_with_change"] = {"ok_packages": sum(1 for l in lines if l.startswith("ok")), "unexpected": bad,
                                "secs": round(time.time() - t0)}
    sh("git checkout -q -- . && git clean -fdq", wt)
    res["confirmed"] = bool(res["demo_on_unchanged_tree"] == "pass" and res["patch_applies"] and res["builds_with_change"]
                            and res["demo_with_change"] == "fail" and not bad and res["suite_with_change"]["ok_packages"] >= 30)
    dst = os.path.join("/verif/seeded", sid)
    os.makedirs(dst, exist_ok=True)
    for f in ("patch.diff", "demo_test.go", "notes.md"):
        if os.path.exists(os.path.join(src, f)):
            shutil.copy(os.path.join(src, f), os.path.join(dst, f))
    mp = os.path.join(dst, "meta.json")
    old = json.load(open(mp)) if os.path.exists(mp) else {}
    old.update({"id": sid, "breaks_property": prop, "confirmation": res})
    json.dump(old, open(mp, "w"), indent=1)
    print(sid, "CONFIRMED" if res["confirmed"] else "NOT CONFIRMED", json.dumps({k: res[k] for k in ("demo_on_unchanged_tree", "demo_with_change", "suite_with_change")}))


if __name__ == "__main__":
    main()
