#!/usr/bin/env python3
"""Integrator: record the outcome of running a check against a seeded regression into seeded/<id>/meta.json.
usage: seed_record.py <seed id> <Cxx> <log file of the check run> <exit code> [round label]"""
import json, os, re, sys, time
sid, prop, log, rc = sys.argv[1:5]
label = sys.argv[5] if len(sys.argv) > 5 else ""
txt = open(log, errors="replace").read() if os.path.exists(log) else ""
viol = re.findall(r"^VIOLATION .*$", txt, flags=re.M)
what = re.findall(r"^# (.*)$", txt, flags=re.M)
mp = os.path.join("/verif/seeded", sid, "meta.json")
m = json.load(open(mp))
runs = m.setdefault("check_runs", [])
runs.append({"check": prop, "cmd": "VERIF_REPO=<worktree with patch.diff applied> ./check %s --tier quick" % prop,
             "exit": int(rc), "violation_lines": len(viol), "with_failing_input": sum(1 for v in viol if "no-failing-input-found" not in v),
             "what": what[:3], "verif_commit": os.popen("git -C %s rev-parse --short HEAD" % os.environ.get("VERIF_HOME", "/verif")).read().strip(), "label": label,
             "at": time.strftime("%Y-%m-%d %H:%M")})
m["detected_by"] = sorted({r["check"] for r in runs if r["exit"] == 1 and r["violation_lines"] > 0} | set(m.get("detected_by", [])))
json.dump(m, open(mp, "w"), indent=1)
print(sid, prop, "exit", rc, "detected_by", m["detected_by"])
