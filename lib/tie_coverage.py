#!/usr/bin/env python3
"""Integrator tool: which functions of /repo does the correspondence run of each property actually EXECUTE?

usage: tie_coverage.py run <Cxx> [verif home]   - run the quick tier with coverage-instrumented harnesses (evidence and runs are
                                                  redirected to scratch; /verif/evidence is not touched) and write corpus/tiecov/<Cxx>.json
       tie_coverage.py table                    - print the DESIGN.md table from corpus/tiecov/*.json

The result is supporting information about the TIE (model <-> code), not a proof and not a check: a function of an
anchored file that no harness executes is modelled at most by reading; it is listed so that nobody mistakes it for tied.
Functions are attributed to the property's anchored files (properties.jsonl anchors.files and the files named in
anchors.mechanism[].where); coverage of other files is reported as a total only."""
import json, os, re, subprocess, sys, time

ROOT = os.path.dirname(os.path.dirname(os.path.abspath(__file__)))
SCR = "/root/scratch/tiecov"
ENV = dict(os.environ, GOFLAGS="-mod=mod", GOPROXY="off", GOSUMDB="off", GOTOOLCHAIN="local")


def anchors(prop):
    files = set()
    for l in open(os.path.join(ROOT, "properties.jsonl")):
        d = json.loads(l)
        if d["id"] != prop:
            continue
        a = d.get("anchors", {})
        for f in a.get("files", []):
            files.add(f)
        for m in a.get("mechanism", []):
            for f in re.findall(r"([A-Za-z0-9_./-]+\.go)", m.get("where", "")):
                files.add(f)
    return sorted(files)


def run(prop, home):
    cov = os.path.join(SCR, "cov", prop)
    runs = os.path.join(SCR, "runs", prop)
    subprocess.call(["rm", "-rf", cov, runs])
    os.makedirs(cov)
    t0 = time.time()
    p = subprocess.run(["./check", prop, "--tier", "quick"], cwd=home,
                       env=dict(os.environ, VERIF_COVER=cov, VERIF_RUNS=runs), stdout=subprocess.PIPE,
                       stderr=subprocess.STDOUT, universal_newlines=True)
    last = [l for l in p.stdout.split("\n") if l.strip()][-1:]
    out = subprocess.run(["go", "tool", "covdata", "func", "-i=" + cov], env=ENV, stdout=subprocess.PIPE,
                         stderr=subprocess.STDOUT, universal_newlines=True).stdout
    funcs = []
    for l in out.split("\n"):
        m = re.match(r"github.com/pbenner/autodiff/(\S+?):(\d+):\s+(\S+)\s+([0-9.]+)%", l)
        if m:
            funcs.append((m.group(1), int(m.group(2)), m.group(3), float(m.group(4))))
    anc = anchors(prop)
    per = {}
    for f in anc:
        fs = [x for x in funcs if x[0] == f]
        if not fs:
            per[f] = {"functions": 0, "executed": 0, "note": "file not linked into any harness of this property"}
            continue
        per[f] = {"functions": len(fs), "executed": sum(1 for x in fs if x[3] > 0),
                  "fully_covered": sum(1 for x in fs if x[3] >= 99.9),
                  "not_executed": sorted(x[2] for x in fs if x[3] == 0)[:400]}
    rec = {"property": prop, "at": time.strftime("%Y-%m-%d %H:%M"), "check_exit": p.returncode, "check_last_line": last,
           "wall_s": round(time.time() - t0), "repo_head": subprocess.check_output(["git", "-C", "/repo", "rev-parse", "--short", "HEAD"],
                                                                                  universal_newlines=True).strip(),
           "anchored_files": per,
           "all_repo_functions_linked": len(funcs), "all_repo_functions_executed": sum(1 for x in funcs if x[3] > 0)}
    d = os.path.join(ROOT, "corpus", "tiecov")
    os.makedirs(d, exist_ok=True)
    json.dump(rec, open(os.path.join(d, prop + ".json"), "w"), indent=1)
    subprocess.call(["rm", "-rf", cov, runs])
    tot = sum(v["functions"] for v in per.values())
    ex = sum(v["executed"] for v in per.values())
    print(prop, "exit", p.returncode, "anchored functions executed %d/%d" % (ex, tot), "repo-wide %d/%d" % (rec["all_repo_functions_executed"], rec["all_repo_functions_linked"]))


def table():
    d = os.path.join(ROOT, "corpus", "tiecov")
    print("| property | anchored files | functions in them | executed by the quick correspondence run | fully covered | functions of /repo executed (all files) | examples never executed |")
    print("|---|---|---|---|---|---|---|")
    for f in sorted(os.listdir(d)) if os.path.isdir(d) else []:
        r = json.load(open(os.path.join(d, f)))
        per = r["anchored_files"]
        tot = sum(v["functions"] for v in per.values())
        ex = sum(v["executed"] for v in per.values())
        fc = sum(v.get("fully_covered", 0) for v in per.values())
        miss = []
        for fn, v in per.items():
            for n in v.get("not_executed", [])[:3]:
                miss.append("%s:%s" % (os.path.basename(fn), n))
        print("| %s | %d | %d | %d | %d | %d of %d | %s |" % (r["property"], len(per), tot, ex, fc, r["all_repo_functions_executed"],
                                                          r["all_repo_functions_linked"], ", ".join(miss[:6])))


if __name__ == "__main__":
    if sys.argv[1] == "run":
        run(sys.argv[2], sys.argv[3] if len(sys.argv) > 3 else ROOT)
    else:
        table()
