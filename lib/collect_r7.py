#!/usr/bin/env python3
"""Integrator: collect corpus/Cxx/r7_manifest.json (written by the round-7 builders) into lib/r7_addenda.json for manifest_append.py.
usage: collect_r7.py Cxx [Cxx ...]"""
import json, os, sys
ROOT = os.path.dirname(os.path.dirname(os.path.abspath(__file__)))
out = os.path.join(ROOT, "lib", "r7_addenda.json")
add = json.load(open(out)) if os.path.exists(out) else {}
for p in sys.argv[1:]:
    f = os.path.join(ROOT, "corpus", p, "r7_manifest.json")
    if not os.path.exists(f):
        print("no r7_manifest for", p); continue
    d = json.load(open(f))
    add[p] = {k: str(d.get(k, "")).strip() for k in ("text", "note", "technique")}
    print(p, {k: len(v) for k, v in add[p].items()})
json.dump(add, open(out, "w"), indent=1)
