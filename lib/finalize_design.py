#!/usr/bin/env python3
"""Integrator: rebuild DESIGN.md §7 from lib/design_s7.md and the generated tables."""
import io, os, sys, contextlib
ROOT = os.path.dirname(os.path.dirname(os.path.abspath(__file__)))
sys.path.insert(0, os.path.join(ROOT, "lib"))
import design_tables as T
def cap(f):
    b = io.StringIO()
    with contextlib.redirect_stdout(b):
        f()
    return b.getvalue()
s7 = open(os.path.join(ROOT, "lib", "design_s7.md")).read()
import subprocess
tie = subprocess.run([sys.executable, os.path.join(ROOT, "lib", "tie_coverage.py"), "table"], stdout=subprocess.PIPE, universal_newlines=True).stdout
s7 = s7.replace("@@TIECOV@@", tie)
s7 = s7.replace("@@SEEDS@@", cap(T.seeds)).replace("@@PROPS@@", cap(T.props)).replace("@@FINDINGS@@", cap(T.findings)).replace("@@AXIOMS@@", cap(T.axioms))
p = os.path.join(ROOT, "DESIGN.md"); s = open(p).read()
m = "\n## 7. As built"
if m in s: s = s[:s.index(m)]
open(p, "w").write(s.rstrip("\n") + "\n" + s7)
print("DESIGN.md §7 rebuilt:", len(s7), "chars")
