#!/bin/sh
# integrator tool: run a property check against a scratch worktree with a seeded patch applied.
# usage: seed_run.sh <seed id> <Cxx> [tier]      -> prints the tail of the check output; exit code of the check
set -u
SID=$1; P=$2; TIER=${3:-quick}
# VERIF_HOME: the copy of /verif whose checks are run (default /verif; a committed snapshot while builders edit /verif)
VH=${VERIF_HOME:-/verif}
WT=/tmp/wt_seedrun_${SID}_$P
TAG=${SID}_$P
HEAD=${SEED_BASE:-$(git -C /repo rev-parse HEAD)}
git -C /repo worktree add -q --detach $WT $HEAD 2>/dev/null || { git -C $WT checkout -q -- . ; git -C $WT clean -fdq; git -C $WT checkout -q --detach $HEAD; }
# untracked hook files of /repo (verif_*.go) are part of the harness build
(cd /repo && git ls-files -o --exclude-standard | grep 'verif_.*\.go$' | while read f; do mkdir -p $WT/$(dirname $f); cp $f $WT/$f; done)
git -C $WT apply /verif/seeded/$SID/patch.diff || { echo "patch does not apply"; exit 3; }
cd $VH
VERIF_REPO=$WT VERIF_RUNS=/root/scratch/seedruns/$TAG ./check $P --tier $TIER > /root/scratch/seedruns/$TAG.log 2>&1
RC=$?
grep -E "VIOLATION|^OK|^# " /root/scratch/seedruns/$TAG.log | head -6
python3 /verif/lib/seed_record.py $SID $P /root/scratch/seedruns/$TAG.log $RC ${4:-}
echo "seed=$SID check=$P exit=$RC"
git -C /repo worktree remove --force $WT
exit $RC
