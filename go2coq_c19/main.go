// go2coq_c19 — regenerates the statement lists of coq/C19/ModelH.v from avl-tree.go.
//
// It parses <repo>/avl-tree.go with go/parser and prints the bodies of the
// non-recursive *AvlNode methods setLeft, setRight, rotateLL, rotateLR, rotateRR,
// rotateRL, replace, balance1, balance2 as data of the deep-embedded statement
// language of ModelH.v (stmt / pexp), in source order, statement by statement.
// The generated file ends with lemmas  gen_<method> = ModelH.<method>_body  proved by
// reflexivity: Coq decides on every run that the source still reads as the statement
// lists the theorems of coq/C19/PropsH.v are about.  Anything outside the grammar
// (another statement form, another local, a default clause, ...) is reported as
// unsupported: the tie is lost and the check says so.  Go standard library only.
package main

import (
	"encoding/json"
	"flag"
	"fmt"
	"go/ast"
	"go/parser"
	"go/token"
	"os"
	"path/filepath"
	"strings"
)

var fset = token.NewFileSet()

func pos(n ast.Node) string {
	p := fset.Position(n.Pos())
	return fmt.Sprintf("%s:%d", filepath.Base(p.Filename), p.Line)
}

type unsupported struct{ why string }

func (u unsupported) Error() string { return u.why }
func bad(n ast.Node, f string, a ...interface{}) error {
	return unsupported{pos(n) + ": " + fmt.Sprintf(f, a...)}
}

var methods = []struct{ goName, coq, ctor string }{
	{"setLeft", "setLeft", "MSetLeft"}, {"setRight", "setRight", "MSetRight"},
	{"rotateLL", "rotateLL", "MRotLL"}, {"rotateLR", "rotateLR", "MRotLR"},
	{"rotateRR", "rotateRR", "MRotRR"}, {"rotateRL", "rotateRL", "MRotRL"},
	{"replace", "replace", "MReplace"}, {"balance1", "balance1", "MBalance1"}, {"balance2", "balance2", "MBalance2"},
}

func ctorOf(name string) (string, bool) {
	for _, m := range methods {
		if m.goName == name {
			return m.ctor, true
		}
	}
	return "", false
}

// per-method context: which identifiers are pointer locals, the int local, the bool flag
type ctx struct {
	ptr  map[string]string // Go identifier -> pvar constructor
	ivar string            // "balance" once declared
	flag string            // name of the bool parameter ("balanced"), "" if none
}

func (c *ctx) pexp(e ast.Expr) (string, error) {
	switch x := e.(type) {
	case *ast.ParenExpr:
		return c.pexp(x.X)
	case *ast.Ident:
		if x.Name == "nil" {
			return "PNil", nil
		}
		if v, ok := c.ptr[x.Name]; ok {
			return "(PV " + v + ")", nil
		}
		return "", bad(e, "identifier %s is not a pointer local", x.Name)
	case *ast.SelectorExpr:
		in, err := c.pexp(x.X)
		if err != nil {
			return "", err
		}
		switch x.Sel.Name {
		case "Left":
			return "(PL " + in + ")", nil
		case "Right":
			return "(PR " + in + ")", nil
		case "Parent":
			return "(PP " + in + ")", nil
		}
		return "", bad(e, "field %s is not a pointer field", x.Sel.Name)
	}
	return "", bad(e, "pointer expression outside the grammar")
}

// e.F for a non-pointer field F: returns the pointer expression of e
func (c *ctx) fieldOf(e ast.Expr, field string) (string, bool) {
	s, ok := e.(*ast.SelectorExpr)
	if !ok || s.Sel.Name != field {
		return "", false
	}
	p, err := c.pexp(s.X)
	if err != nil {
		return "", false
	}
	return p, true
}

func intLit(e ast.Expr) (string, bool) {
	switch x := e.(type) {
	case *ast.ParenExpr:
		return intLit(x.X)
	case *ast.BasicLit:
		if x.Kind == token.INT {
			return x.Value, true
		}
	case *ast.UnaryExpr:
		if x.Op == token.SUB {
			if v, ok := intLit(x.X); ok && !strings.HasPrefix(v, "(") {
				return "(-" + v + ")", true
			}
		}
		if x.Op == token.ADD {
			return intLit(x.X)
		}
	}
	return "", false
}

func cmpOf(op token.Token) (string, bool) {
	switch op {
	case token.EQL:
		return "CEq", true
	case token.GEQ:
		return "CGe", true
	case token.LEQ:
		return "CLe", true
	}
	return "", false
}

func list(xs []string) string { return "[" + strings.Join(xs, "; ") + "]" }

func (c *ctx) block(ss []ast.Stmt) (string, error) {
	var out []string
	for _, s := range ss {
		t, err := c.stmt(s)
		if err != nil {
			return "", err
		}
		out = append(out, t)
	}
	return list(out), nil
}

func (c *ctx) stmt(s ast.Stmt) (string, error) {
	switch x := s.(type) {
	case *ast.AssignStmt:
		return c.assign(x)
	case *ast.ExprStmt:
		call, ok := x.X.(*ast.CallExpr)
		if !ok {
			return "", bad(s, "expression statement that is not a call")
		}
		sel, ok := call.Fun.(*ast.SelectorExpr)
		if !ok {
			return "", bad(s, "call of a non-method")
		}
		m, ok := ctorOf(sel.Sel.Name)
		if !ok {
			return "", bad(s, "call of %s: not one of the translated methods", sel.Sel.Name)
		}
		recv, err := c.pexp(sel.X)
		if err != nil {
			return "", err
		}
		arg := "PNil"
		switch len(call.Args) {
		case 0:
		case 1:
			if arg, err = c.pexp(call.Args[0]); err != nil {
				return "", err
			}
		default:
			return "", bad(s, "call with %d arguments", len(call.Args))
		}
		return fmt.Sprintf("SCall %s %s %s", m, recv, arg), nil
	case *ast.IfStmt:
		if x.Init != nil {
			return "", bad(s, "if with an init statement")
		}
		be, ok := x.Cond.(*ast.BinaryExpr)
		if !ok {
			return "", bad(s, "if condition outside the grammar")
		}
		th, err := c.block(x.Body.List)
		if err != nil {
			return "", err
		}
		el := "[]"
		if x.Else != nil {
			eb, ok := x.Else.(*ast.BlockStmt)
			if !ok {
				return "", bad(s, "else-if chain")
			}
			if el, err = c.block(eb.List); err != nil {
				return "", err
			}
		}
		// if p != nil { .. }
		if id, ok := be.Y.(*ast.Ident); ok && id.Name == "nil" && be.Op == token.NEQ {
			if x.Else != nil {
				return "", bad(s, "nil test with an else branch")
			}
			p, err := c.pexp(be.X)
			if err != nil {
				return "", err
			}
			return fmt.Sprintf("SIfNotNil %s %s", p, th), nil
		}
		cmp, ok := cmpOf(be.Op)
		if !ok {
			return "", bad(s, "comparison %s outside the grammar", be.Op)
		}
		z, ok := intLit(be.Y)
		if !ok {
			return "", bad(s, "comparison with a non-literal")
		}
		// if balance c z
		if id, ok := be.X.(*ast.Ident); ok {
			if c.ivar == "" || id.Name != c.ivar {
				return "", bad(s, "comparison of %s: not the int local", id.Name)
			}
			return fmt.Sprintf("SIfInt %s %s %s %s", cmp, z, th, el), nil
		}
		// if e.Balance c z
		if p, ok := c.fieldOf(be.X, "Balance"); ok {
			return fmt.Sprintf("SIfBal %s %s %s %s %s", p, cmp, z, th, el), nil
		}
		return "", bad(s, "if condition outside the grammar")
	case *ast.SwitchStmt:
		if x.Init != nil || x.Tag == nil {
			return "", bad(s, "switch without tag / with init")
		}
		p, ok := c.fieldOf(x.Tag, "Balance")
		if !ok {
			return "", bad(s, "switch tag is not a Balance field")
		}
		var cases []string
		for _, cl := range x.Body.List {
			cc := cl.(*ast.CaseClause)
			if len(cc.List) != 1 {
				return "", bad(cc, "default clause or multi-value case")
			}
			z, ok := intLit(cc.List[0])
			if !ok {
				return "", bad(cc, "case value is not an int literal")
			}
			for _, b := range cc.Body {
				if br, ok := b.(*ast.BranchStmt); ok {
					return "", bad(br, "branch statement %s in a case", br.Tok)
				}
			}
			blk, err := c.block(cc.Body)
			if err != nil {
				return "", err
			}
			cases = append(cases, fmt.Sprintf("(%s, %s)", z, blk))
		}
		return fmt.Sprintf("SSwitchBal %s %s", p, list(cases)), nil
	case *ast.ReturnStmt:
		if len(x.Results) != 1 {
			return "", bad(s, "return with %d results", len(x.Results))
		}
		if id, ok := x.Results[0].(*ast.Ident); ok && c.flag != "" && id.Name == c.flag {
			return "SRetFlag", nil
		}
		p, err := c.pexp(x.Results[0])
		if err != nil {
			return "", err
		}
		return "SRetPtr " + p, nil
	}
	return "", bad(s, "statement form %T outside the grammar", s)
}

func (c *ctx) assign(x *ast.AssignStmt) (string, error) {
	// e1.Value, e2.Value = e2.Value, e1.Value
	if len(x.Lhs) == 2 && len(x.Rhs) == 2 && x.Tok == token.ASSIGN {
		l1, ok1 := c.fieldOf(x.Lhs[0], "Value")
		l2, ok2 := c.fieldOf(x.Lhs[1], "Value")
		r1, ok3 := c.fieldOf(x.Rhs[0], "Value")
		r2, ok4 := c.fieldOf(x.Rhs[1], "Value")
		if ok1 && ok2 && ok3 && ok4 && l1 == r2 && l2 == r1 && l1 != l2 {
			return fmt.Sprintf("SSwapV %s %s", l1, l2), nil
		}
		return "", bad(x, "parallel assignment that is not a swap of two Value fields")
	}
	if len(x.Lhs) != 1 || len(x.Rhs) != 1 {
		return "", bad(x, "assignment with %d targets", len(x.Lhs))
	}
	lhs, rhs := x.Lhs[0], x.Rhs[0]
	if x.Tok == token.DEFINE {
		id, ok := lhs.(*ast.Ident)
		if !ok {
			return "", bad(x, "definition of a non-identifier")
		}
		switch id.Name {
		case "a1", "a2":
			p, err := c.pexp(rhs)
			if err != nil {
				return "", err
			}
			v := map[string]string{"a1": "A1", "a2": "A2"}[id.Name]
			c.ptr[id.Name] = v
			return fmt.Sprintf("SLet %s %s", v, p), nil
		case "balance":
			p, ok := c.fieldOf(rhs, "Balance")
			if !ok {
				return "", bad(x, "balance := something that is not a Balance field")
			}
			c.ivar = "balance"
			return "SLetInt " + p, nil
		}
		return "", bad(x, "local %s outside the grammar", id.Name)
	}
	if x.Tok != token.ASSIGN {
		return "", bad(x, "assignment operator %s", x.Tok)
	}
	// balanced = true
	if id, ok := lhs.(*ast.Ident); ok {
		if c.flag != "" && id.Name == c.flag {
			if b, ok := rhs.(*ast.Ident); ok && (b.Name == "true" || b.Name == "false") {
				return "SFlag " + b.Name, nil
			}
		}
		return "", bad(x, "assignment to %s outside the grammar", id.Name)
	}
	sel, ok := lhs.(*ast.SelectorExpr)
	if !ok {
		return "", bad(x, "assignment target outside the grammar")
	}
	tgt, err := c.pexp(sel.X)
	if err != nil {
		return "", err
	}
	switch sel.Sel.Name {
	case "Left", "Right", "Parent":
		p, err := c.pexp(rhs)
		if err != nil {
			return "", err
		}
		return fmt.Sprintf("SAsg F%s %s %s", sel.Sel.Name, tgt, p), nil
	case "Balance":
		if z, ok := intLit(rhs); ok {
			return fmt.Sprintf("SBal %s %s", tgt, z), nil
		}
		if p, ok := c.fieldOf(rhs, "Balance"); ok {
			return fmt.Sprintf("SBalCopy %s %s", tgt, p), nil
		}
		return "", bad(x, "Balance assigned from something outside the grammar")
	}
	return "", bad(x, "assignment to field %s outside the grammar", sel.Sel.Name)
}

func isStarAvlNode(e ast.Expr) bool {
	s, ok := e.(*ast.StarExpr)
	if !ok {
		return false
	}
	id, ok := s.X.(*ast.Ident)
	return ok && id.Name == "AvlNode"
}

func translate(fd *ast.FuncDecl) (string, error) {
	c := &ctx{ptr: map[string]string{}}
	r := fd.Recv.List[0]
	if len(r.Names) != 1 || r.Names[0].Name != "obj" {
		return "", bad(fd, "receiver is not named obj")
	}
	c.ptr["obj"] = "Obj"
	np := 0
	for _, p := range fd.Type.Params.List {
		for _, n := range p.Names {
			np++
			if isStarAvlNode(p.Type) {
				if n.Name != "node" {
					return "", bad(fd, "pointer parameter %s is not named node", n.Name)
				}
				c.ptr["node"] = "Node"
			} else if id, ok := p.Type.(*ast.Ident); ok && id.Name == "bool" {
				c.flag = n.Name
			} else {
				return "", bad(fd, "parameter %s of a type outside the grammar", n.Name)
			}
		}
	}
	if np > 1 {
		return "", bad(fd, "%d parameters", np)
	}
	return c.block(fd.Body.List)
}

func main() {
	repo := flag.String("repo", "/repo", "path of the library")
	out := flag.String("out", "GenAvl.v", "generated Coq file")
	rep := flag.String("report", "", "json report")
	flag.Parse()
	report := map[string]interface{}{"ok": false, "source": "avl-tree.go"}
	finish := func(code int) {
		if *rep != "" {
			b, _ := json.MarshalIndent(report, "", " ")
			os.WriteFile(*rep, b, 0644)
		}
		os.Exit(code)
	}
	f, err := parser.ParseFile(fset, filepath.Join(*repo, "avl-tree.go"), nil, 0)
	if err != nil {
		report["parse_errors"] = err.Error()
		finish(1)
	}
	found := map[string]*ast.FuncDecl{}
	for _, d := range f.Decls {
		fd, ok := d.(*ast.FuncDecl)
		if !ok || fd.Recv == nil || len(fd.Recv.List) != 1 || !isStarAvlNode(fd.Recv.List[0].Type) || fd.Body == nil {
			continue
		}
		if _, ok := ctorOf(fd.Name.Name); ok {
			if found[fd.Name.Name] != nil {
				report["parse_errors"] = "method " + fd.Name.Name + " declared twice"
				finish(1)
			}
			found[fd.Name.Name] = fd
		}
	}
	var sb strings.Builder
	sb.WriteString("(* GENERATED by go2coq_c19 from avl-tree.go — do not edit *)\n")
	sb.WriteString("From Coq Require Import ZArith List Bool. Import ListNotations.\n")
	sb.WriteString("From ADV Require Import C19.Model C19.ModelP C19.ModelW C19.ModelH.\nOpen Scope Z_scope.\n\n")
	var unsup []string
	var lines = map[string]string{}
	nstmt := 0
	for _, m := range methods {
		fd := found[m.goName]
		if fd == nil {
			unsup = append(unsup, "method "+m.goName+" not found on *AvlNode")
			continue
		}
		body, err := translate(fd)
		if err != nil {
			unsup = append(unsup, m.goName+": "+err.Error())
			continue
		}
		lines[m.goName] = pos(fd)
		nstmt += strings.Count(body, "S") // rough size indicator only
		sb.WriteString(fmt.Sprintf("(* %s *)\nDefinition gen_%s : list stmt :=\n  %s.\n", pos(fd), m.coq, body))
		sb.WriteString(fmt.Sprintf("Lemma gen_%s_is_model : gen_%s = %s_body.\nProof. reflexivity. Qed.\n\n", m.coq, m.coq, m.coq))
	}
	report["methods"] = lines
	report["unsupported"] = unsup
	report["ok"] = len(unsup) == 0
	if len(unsup) == 0 {
		sb.WriteString("Definition gen_body (m : meth) : list stmt := match m with\n")
		for _, m := range methods {
			sb.WriteString(fmt.Sprintf("  | %s => gen_%s\n", m.ctor, m.coq))
		}
		sb.WriteString("  end.\nLemma gen_body_is_model : forall m, gen_body m = body m.\nProof. intros []; reflexivity. Qed.\n")
	}
	if err := os.WriteFile(*out, []byte(sb.String()), 0644); err != nil {
		report["parse_errors"] = err.Error()
		finish(1)
	}
	if len(unsup) > 0 {
		finish(2)
	}
	finish(0)
}
