module go2coq_c19

go 1.14
