// go2coq_c01 — the scalar-operation translator ("T1" of DESIGN.md §1.2).
//
// It reads scalar_real{64,32}_math.go and scalar_real{64,32}_math_concrete.go
// of the library (path given by -repo) with go/parser and prints, as data of
// the deep-embedded language of coq/C01/ModelOpsLang.v,
//
//   gen_table  : one entry per call site of a chain-rule combinator
//                (monadic, monadicLazy, realMonadic, realMonadicLazy, dyadic,
//                dyadicLazy, realDyadic, realDyadicLazy): receiver type, method,
//                path condition (k.GetOrder() >= 1), combinator, operands, and the
//                float64 expressions for v0 and for the coefficients, with local
//                definitions and closures (f1, f2, nested f1() calls) inlined;
//   gen_bodies : the bodies of the composite methods (Abs Min Max LogAdd LogSub
//                Log1pExp Sigmoid Logistic Sqrt and their concrete twins) as
//                statement lists: method calls on receiver / operands /
//                temporaries, if / else-if chains on float comparisons, IsInf,
//                a.Greater(b), the operand swap, switch a.Sign(), the local
//                t := NewScalar(c.Type(), 0.0);
//   gen_loops  : (loops.go) the reductions over vectors / matrices SmoothMax
//                LogSmoothMax Vmean VdotV Vnorm Mtrace Mnorm: guards, local,
//                prologue, iteration scheme, loop body, epilogue;
//   gen_preds  : (preds.go) the predicates Greater Smaller Sign and their
//                concrete twins, receiver = operand 0;
//   gen_untied : every method of these files that is outside this grammar
//                (Equals / EQUALS), with the reason.
//
// coq/C01/ProofsGen.v proves that the denotation of each generated datum is the
// hand-written table entry / composite program of coq/C01/Model.v, for every
// carrier and all arguments.  Only the Go standard library is used.  No type
// checker: parameter roles are decided from the declared parameter types.
package main

import (
	"encoding/json"
	"flag"
	"fmt"
	"go/ast"
	"go/parser"
	"go/token"
	"math/big"
	"os"
	"path/filepath"
	"strings"
)

type unsupported struct{ why string }

func (u unsupported) Error() string { return u.why }
func bad(f string, a ...interface{}) error {
	return unsupported{fmt.Sprintf(f, a...)}
}

var fset = token.NewFileSet()

func pos(n ast.Node) string {
	p := fset.Position(n.Pos())
	return fmt.Sprintf("%s:%d", filepath.Base(p.Filename), p.Line)
}

// ------------------------------------------------------------------ values

type vkind int

const (
	vExpr    vkind = iota // float64 expression (Coq text of an expr)
	vClosure              // func literal
	vLgSign               // the int sign returned by math.Lgamma(e)
	vLoopJ                // loop variable of the sum pattern
)

type value struct {
	kind  vkind
	text  string
	fl    *ast.FuncLit
	epoch int
}

type method struct {
	recv     string // Real64 | Real32
	name     string
	rname    string         // receiver identifier
	scal     map[string]int // ConstScalar / *RealNN operand parameters -> index
	nscal    int
	tmps     map[string]int // Scalar temporaries (t Scalar -> 0); arrays: t [2]Scalar -> base 0
	tmpArr   map[string]bool
	ntmp     int
	fpar     string // float64 parameter
	ipar     string // int parameter
	other    []string
	env      map[string]value
	epoch    int
	hasLocal bool
	vecs     map[string]int // ConstVector / ConstMatrix parameters -> index (loop methods)
	isMat    map[string]bool
	nvec     int
	csts     map[string]int // ConstFloat64 parameters (alpha) -> index
	ncst     int
}

func (m *method) clone() map[string]value {
	r := map[string]value{}
	for k, v := range m.env {
		r[k] = v
	}
	return r
}

var fn1 = map[string]string{
	"math.Abs": "FAbs", "math.Sqrt": "FSqrt", "math.Exp": "FExp", "math.Log": "FLog", "math.Log1p": "FLog1p",
	"math.Sin": "FSin", "math.Cos": "FCos", "math.Tan": "FTan", "math.Sinh": "FSinh", "math.Cosh": "FCosh",
	"math.Tanh": "FTanh", "math.Erf": "FErf", "math.Erfc": "FErfc", "math.Gamma": "FGamma", "math.Floor": "FFloor",
	"special.Digamma": "FDigamma", "special.Trigamma": "FTrigamma", "special.LogErfc": "FLogErfc",
}
var fn2 = map[string]string{
	"special.GammaP": "FGammaP", "special.GammaPfirstDerivative": "FGammaPd1", "special.GammaPsecondDerivative": "FGammaPd2",
	"special.BesselI": "FBesselI", "special.LogBesselI": "FLogBesselI",
}
var combs = map[string]struct {
	coq  string
	nop  int
	lazy bool
}{
	"monadic": {"CMonadic", 1, false}, "monadicLazy": {"CMonadicLazy", 1, true},
	"realMonadic": {"CRealMonadic", 1, false}, "realMonadicLazy": {"CRealMonadicLazy", 1, true},
	"dyadic": {"CDyadic", 2, false}, "dyadicLazy": {"CDyadicLazy", 2, true},
	"realDyadic": {"CRealDyadic", 2, false}, "realDyadicLazy": {"CRealDyadicLazy", 2, true},
}

func selName(e ast.Expr) string {
	if s, ok := e.(*ast.SelectorExpr); ok {
		if x, ok := s.X.(*ast.Ident); ok {
			return x.Name + "." + s.Sel.Name
		}
	}
	return ""
}

// literal -> "EZ z" or "EQ (n # d)"
func litText(lit string, neg bool) (string, error) {
	r, ok := new(big.Rat).SetString(lit)
	if !ok {
		return "", bad("literal %q", lit)
	}
	if neg {
		r.Neg(r)
	}
	if r.IsInt() {
		return fmt.Sprintf("(EZ (%s)%%Z)", r.Num().String()), nil
	}
	return fmt.Sprintf("(EQ (%s # %s)%%Q)", r.Num().String(), r.Denom().String()), nil
}

func intLit(e ast.Expr) (string, bool) {
	switch x := e.(type) {
	case *ast.ParenExpr:
		return intLit(x.X)
	case *ast.BasicLit:
		if x.Kind == token.INT {
			return x.Value, true
		}
	case *ast.UnaryExpr:
		if x.Op == token.SUB {
			if s, ok := intLit(x.X); ok {
				return "-" + s, true
			}
		}
	}
	return "", false
}

func (m *method) iexpr(e ast.Expr, env map[string]value) (string, error) {
	switch x := e.(type) {
	case *ast.ParenExpr:
		return m.iexpr(x.X, env)
	case *ast.BasicLit:
		if x.Kind == token.INT {
			return fmt.Sprintf("(IZ (%s)%%Z)", x.Value), nil
		}
	case *ast.Ident:
		if v, ok := env[x.Name]; ok && v.kind == vLoopJ {
			return "IJ", nil
		}
	case *ast.BinaryExpr:
		a, err := m.iexpr(x.X, env)
		if err != nil {
			return "", err
		}
		b, err := m.iexpr(x.Y, env)
		if err != nil {
			return "", err
		}
		switch x.Op {
		case token.SUB:
			return fmt.Sprintf("(ISub %s %s)", a, b), nil
		case token.ADD:
			return fmt.Sprintf("(IAdd %s %s)", a, b), nil
		}
	}
	return "", bad("%s: integer expression outside the grammar", pos(e))
}

func (m *method) expr(e ast.Expr, env map[string]value) (string, error) {
	switch x := e.(type) {
	case *ast.ParenExpr:
		return m.expr(x.X, env)
	case *ast.BasicLit:
		if x.Kind == token.INT || x.Kind == token.FLOAT {
			return litText(x.Value, false)
		}
	case *ast.UnaryExpr:
		if x.Op == token.SUB {
			if l, ok := x.X.(*ast.BasicLit); ok && (l.Kind == token.INT || l.Kind == token.FLOAT) {
				return litText(l.Value, true)
			}
			a, err := m.expr(x.X, env)
			if err != nil {
				return "", err
			}
			return fmt.Sprintf("(ENeg %s)", a), nil
		}
		if x.Op == token.ADD {
			return m.expr(x.X, env)
		}
	case *ast.BinaryExpr:
		op := map[token.Token]string{token.ADD: "EAdd", token.SUB: "ESub", token.MUL: "EMul", token.QUO: "EDiv"}[x.Op]
		if op == "" {
			return "", bad("%s: operator %s", pos(e), x.Op)
		}
		a, err := m.expr(x.X, env)
		if err != nil {
			return "", err
		}
		b, err := m.expr(x.Y, env)
		if err != nil {
			return "", err
		}
		return fmt.Sprintf("(%s %s %s)", op, a, b), nil
	case *ast.Ident:
		if x.Name == m.fpar {
			return "EPar", nil
		}
		v, ok := env[x.Name]
		if ok && v.kind == vExpr {
			if v.epoch != m.epoch {
				return "", bad("%s: float local %s read after a method call changed the state", pos(e), x.Name)
			}
			return v.text, nil
		}
		return "", bad("%s: identifier %s is not a float64 expression", pos(e), x.Name)
	case *ast.SelectorExpr:
		switch selName(x) {
		case "math.Pi":
			return "EPi", nil
		case "special.M_SQRTPI":
			return "ESqrtPi", nil
		}
	case *ast.CallExpr:
		if id, ok := x.Fun.(*ast.Ident); ok {
			if (id.Name == "float64" || id.Name == "float32") && len(x.Args) == 1 {
				if l, ok := intLit(x.Args[0]); ok {
					return litText(l, false)
				}
				i, err := m.iexpr(x.Args[0], env)
				if err != nil {
					return "", err
				}
				return fmt.Sprintf("(EOfInt %s)", i), nil
			}
			if v, ok := env[id.Name]; ok && v.kind == vClosure && len(x.Args) == 0 {
				rs, err := m.closure(v.fl, env)
				if err != nil {
					return "", err
				}
				if len(rs) != 1 {
					return "", bad("%s: closure %s with %d results used as a value", pos(e), id.Name, len(rs))
				}
				return rs[0], nil
			}
			return "", bad("%s: call of %s", pos(e), id.Name)
		}
		name := selName(x.Fun)
		if f, ok := fn1[name]; ok && len(x.Args) == 1 {
			a, err := m.expr(x.Args[0], env)
			if err != nil {
				return "", err
			}
			return fmt.Sprintf("(E1 %s %s)", f, a), nil
		}
		if f, ok := fn2[name]; ok && len(x.Args) == 2 {
			a, err := m.expr(x.Args[0], env)
			if err != nil {
				return "", err
			}
			b, err := m.expr(x.Args[1], env)
			if err != nil {
				return "", err
			}
			return fmt.Sprintf("(E2 %s %s %s)", f, a, b), nil
		}
		switch name {
		case "math.Pow":
			if len(x.Args) == 2 {
				a, err := m.expr(x.Args[0], env)
				if err != nil {
					return "", err
				}
				if l, ok := intLit(x.Args[1]); ok {
					return fmt.Sprintf("(EPowZ %s (%s)%%Z)", a, l), nil
				}
				b, err := m.expr(x.Args[1], env)
				if err != nil {
					return "", err
				}
				return fmt.Sprintf("(E2 FPow %s %s)", a, b), nil
			}
		case "math.NaN":
			if len(x.Args) == 0 {
				return "ENaN", nil
			}
		case "math.Inf":
			if len(x.Args) == 1 {
				if l, ok := intLit(x.Args[0]); ok {
					return fmt.Sprintf("(EInf (%s)%%Z)", l), nil
				}
			}
		case "special.Mlgamma":
			if len(x.Args) == 2 {
				if id, ok := x.Args[1].(*ast.Ident); ok && id.Name == m.ipar && m.ipar != "" {
					a, err := m.expr(x.Args[0], env)
					if err != nil {
						return "", err
					}
					return fmt.Sprintf("(EMlgamma %s)", a), nil
				}
			}
		}
		// <scalar parameter>.GetFloat64()
		if s, ok := x.Fun.(*ast.SelectorExpr); ok && len(x.Args) == 0 {
			if id, ok := s.X.(*ast.Ident); ok {
				if i, ok := m.scal[id.Name]; ok {
					switch s.Sel.Name {
					case "GetFloat64":
						return fmt.Sprintf("(EArg %d)", i), nil
					case "GetFloat32":
						return fmt.Sprintf("(EArg32 %d)", i), nil
					}
				}
			}
		}
		return "", bad("%s: call %s outside the grammar", pos(e), name)
	}
	return "", bad("%s: expression outside the grammar", pos(e))
}

// closure body: local definitions, the sum-over-j loop, one return
func (m *method) closure(fl *ast.FuncLit, outer map[string]value) ([]string, error) {
	env := map[string]value{}
	for k, v := range outer {
		env[k] = v
	}
	if len(fl.Type.Params.List) != 0 {
		return nil, bad("%s: closure with parameters", pos(fl))
	}
	for _, st := range fl.Body.List {
		switch s := st.(type) {
		case *ast.AssignStmt:
			if s.Tok != token.DEFINE || len(s.Lhs) != 1 || len(s.Rhs) != 1 {
				return nil, bad("%s: assignment in a closure outside the grammar", pos(st))
			}
			t, err := m.expr(s.Rhs[0], env)
			if err != nil {
				return nil, err
			}
			env[s.Lhs[0].(*ast.Ident).Name] = value{kind: vExpr, text: t, epoch: m.epoch}
		case *ast.ForStmt:
			// for j := 1; j <= k; j++ { s += E }   with  s == 0.0 before
			j, ok := sumLoopHeader(s, m.ipar)
			if !ok || len(s.Body.List) != 1 {
				return nil, bad("%s: loop outside the sum pattern", pos(st))
			}
			as, ok := s.Body.List[0].(*ast.AssignStmt)
			if !ok || as.Tok != token.ADD_ASSIGN || len(as.Lhs) != 1 || len(as.Rhs) != 1 {
				return nil, bad("%s: loop body outside the sum pattern", pos(st))
			}
			acc, ok := as.Lhs[0].(*ast.Ident)
			if !ok || env[acc.Name].kind != vExpr || env[acc.Name].text != "(EZ (0)%Z)" {
				return nil, bad("%s: sum accumulator is not a local initialised with 0.0", pos(st))
			}
			env2 := map[string]value{}
			for k, v := range env {
				env2[k] = v
			}
			env2[j] = value{kind: vLoopJ}
			delete(env2, acc.Name)
			b, err := m.expr(as.Rhs[0], env2)
			if err != nil {
				return nil, err
			}
			env[acc.Name] = value{kind: vExpr, text: fmt.Sprintf("(ESumK %s)", b), epoch: m.epoch}
		case *ast.ReturnStmt:
			var rs []string
			for _, r := range s.Results {
				t, err := m.expr(r, env)
				if err != nil {
					return nil, err
				}
				rs = append(rs, t)
			}
			return rs, nil
		default:
			return nil, bad("%s: statement in a closure outside the grammar", pos(st))
		}
	}
	return nil, bad("%s: closure without return", pos(fl))
}

func sumLoopHeader(s *ast.ForStmt, ipar string) (string, bool) {
	in, ok := s.Init.(*ast.AssignStmt)
	if !ok || in.Tok != token.DEFINE || len(in.Lhs) != 1 || len(in.Rhs) != 1 {
		return "", false
	}
	j, ok := in.Lhs[0].(*ast.Ident)
	if !ok {
		return "", false
	}
	if l, ok := in.Rhs[0].(*ast.BasicLit); !ok || l.Value != "1" {
		return "", false
	}
	c, ok := s.Cond.(*ast.BinaryExpr)
	if !ok || c.Op != token.LEQ {
		return "", false
	}
	if x, ok := c.X.(*ast.Ident); !ok || x.Name != j.Name {
		return "", false
	}
	if y, ok := c.Y.(*ast.Ident); !ok || y.Name != ipar || ipar == "" {
		return "", false
	}
	p, ok := s.Post.(*ast.IncDecStmt)
	if !ok || p.Tok != token.INC {
		return "", false
	}
	if x, ok := p.X.(*ast.Ident); !ok || x.Name != j.Name {
		return "", false
	}
	return j.Name, true
}

// ------------------------------------------------------------------ table methods

type entry struct {
	recv, meth string
	path       []string
	comb       string
	opds       []int
	v0         string
	fs         []string
}

func (e entry) coq() string {
	var o []string
	for _, i := range e.opds {
		o = append(o, fmt.Sprintf("%d", i))
	}
	return fmt.Sprintf("  mkEntry %q %q [%s] %s [%s]\n    %s\n    [%s]", e.recv, e.meth, strings.Join(e.path, "; "), e.comb,
		strings.Join(o, "; "), e.v0, strings.Join(e.fs, ";\n     "))
}

func isCombCall(m *method, st ast.Stmt) (*ast.CallExpr, string, bool) {
	r, ok := st.(*ast.ReturnStmt)
	if !ok || len(r.Results) != 1 {
		return nil, "", false
	}
	c, ok := r.Results[0].(*ast.CallExpr)
	if !ok {
		return nil, "", false
	}
	s, ok := c.Fun.(*ast.SelectorExpr)
	if !ok {
		return nil, "", false
	}
	x, ok := s.X.(*ast.Ident)
	if !ok || x.Name != m.rname {
		return nil, "", false
	}
	if _, ok := combs[s.Sel.Name]; !ok {
		return nil, "", false
	}
	return c, s.Sel.Name, true
}

func containsCombCall(m *method, b *ast.BlockStmt) bool {
	found := false
	ast.Inspect(b, func(n ast.Node) bool {
		if st, ok := n.(ast.Stmt); ok {
			if _, _, ok := isCombCall(m, st); ok {
				found = true
			}
		}
		return true
	})
	return found
}

// returns (entries, every path returned)
func (m *method) table(stmts []ast.Stmt, path []string) ([]entry, bool, error) {
	var out []entry
	for _, st := range stmts {
		if call, cname, ok := isCombCall(m, st); ok {
			cb := combs[cname]
			want := cb.nop + 1 + map[bool]int{true: 2, false: map[int]int{1: 2, 2: 5}[cb.nop]}[cb.lazy]
			if len(call.Args) != want {
				return nil, false, bad("%s: %s with %d arguments", pos(st), cname, len(call.Args))
			}
			e := entry{recv: m.recv, meth: m.name, path: append([]string{}, path...), comb: cb.coq}
			for i := 0; i < cb.nop; i++ {
				id, ok := call.Args[i].(*ast.Ident)
				if !ok {
					return nil, false, bad("%s: combinator operand is not a parameter", pos(st))
				}
				k, ok := m.scal[id.Name]
				if !ok {
					return nil, false, bad("%s: combinator operand %s is not a scalar parameter", pos(st), id.Name)
				}
				e.opds = append(e.opds, k)
			}
			v0, err := m.expr(call.Args[cb.nop], m.env)
			if err != nil {
				return nil, false, err
			}
			e.v0 = v0
			if cb.lazy {
				wantRes := []int{1, 1}
				if cb.nop == 2 {
					wantRes = []int{2, 3}
				}
				for k := 0; k < 2; k++ {
					id, ok := call.Args[cb.nop+1+k].(*ast.Ident)
					if !ok || m.env[id.Name].kind != vClosure {
						return nil, false, bad("%s: lazy coefficient argument is not a local closure", pos(st))
					}
					rs, err := m.closure(m.env[id.Name].fl, m.env)
					if err != nil {
						return nil, false, err
					}
					if len(rs) != wantRes[k] {
						return nil, false, bad("%s: closure %s returns %d values", pos(st), id.Name, len(rs))
					}
					e.fs = append(e.fs, rs...)
				}
			} else {
				for _, a := range call.Args[cb.nop+1:] {
					t, err := m.expr(a, m.env)
					if err != nil {
						return nil, false, err
					}
					e.fs = append(e.fs, t)
				}
			}
			out = append(out, e)
			return out, true, nil
		}
		switch s := st.(type) {
		case *ast.AssignStmt:
			if s.Tok == token.DEFINE && len(s.Lhs) == 1 && len(s.Rhs) == 1 {
				name := s.Lhs[0].(*ast.Ident).Name
				if fl, ok := s.Rhs[0].(*ast.FuncLit); ok {
					m.env[name] = value{kind: vClosure, fl: fl}
					continue
				}
				t, err := m.expr(s.Rhs[0], m.env)
				if err != nil {
					return nil, false, err
				}
				m.env[name] = value{kind: vExpr, text: t, epoch: m.epoch}
				continue
			}
			if s.Tok == token.DEFINE && len(s.Lhs) == 2 && len(s.Rhs) == 1 {
				if c, ok := s.Rhs[0].(*ast.CallExpr); ok && selName(c.Fun) == "math.Lgamma" && len(c.Args) == 1 {
					a, err := m.expr(c.Args[0], m.env)
					if err != nil {
						return nil, false, err
					}
					m.env[s.Lhs[0].(*ast.Ident).Name] = value{kind: vExpr, text: fmt.Sprintf("(E1 FLgamma %s)", a), epoch: m.epoch}
					m.env[s.Lhs[1].(*ast.Ident).Name] = value{kind: vLgSign, text: a}
					continue
				}
			}
			return nil, false, bad("%s: assignment outside the grammar", pos(st))
		case *ast.IfStmt:
			if s.Init != nil {
				return nil, false, bad("%s: if with init", pos(st))
			}
			c, ok := s.Cond.(*ast.BinaryExpr)
			if !ok {
				return nil, false, bad("%s: condition outside the grammar", pos(st))
			}
			// <scalar parameter>.GetOrder() >= 1
			if call, ok := c.X.(*ast.CallExpr); ok && c.Op == token.GEQ {
				if sel, ok := call.Fun.(*ast.SelectorExpr); ok && sel.Sel.Name == "GetOrder" {
					id, _ := sel.X.(*ast.Ident)
					l, _ := c.Y.(*ast.BasicLit)
					if id != nil && l != nil && l.Value == "1" {
						if k, ok := m.scal[id.Name]; ok {
							saved := m.clone()
							e1, r1, err := m.table(s.Body.List, append(append([]string{}, path...), fmt.Sprintf("PcOrderGe1 %d true", k)))
							if err != nil {
								return nil, false, err
							}
							m.env = saved
							var e2 []entry
							r2 := false
							if eb, ok := s.Else.(*ast.BlockStmt); ok {
								saved2 := m.clone()
								e2, r2, err = m.table(eb.List, append(append([]string{}, path...), fmt.Sprintf("PcOrderGe1 %d false", k)))
								if err != nil {
									return nil, false, err
								}
								m.env = saved2
							}
							if !(r1 && r2) {
								return nil, false, bad("%s: a branch on GetOrder that does not return in both arms", pos(st))
							}
							out = append(out, e1...)
							out = append(out, e2...)
							return out, true, nil
						}
					}
				}
			}
			// s == -1  with  s the sign of math.Lgamma
			if id, ok := c.X.(*ast.Ident); ok && c.Op == token.EQL && m.env[id.Name].kind == vLgSign && s.Else == nil {
				z, ok := intLit(c.Y)
				if !ok {
					return nil, false, bad("%s: Lgamma sign compared with a non-literal", pos(st))
				}
				for _, b := range s.Body.List {
					as, ok := b.(*ast.AssignStmt)
					if !ok || as.Tok != token.ASSIGN || len(as.Lhs) != 1 || len(as.Rhs) != 1 {
						return nil, false, bad("%s: body of the Lgamma sign test outside the grammar", pos(b))
					}
					name := as.Lhs[0].(*ast.Ident).Name
					old, ok := m.env[name]
					if !ok || old.kind != vExpr {
						return nil, false, bad("%s: assignment to %s", pos(b), name)
					}
					t, err := m.expr(as.Rhs[0], m.env)
					if err != nil {
						return nil, false, err
					}
					m.env[name] = value{kind: vExpr, epoch: m.epoch,
						text: fmt.Sprintf("(EIfLgSign %s (%s)%%Z %s %s)", m.env[id.Name].text, z, t, old.text)}
				}
				continue
			}
			return nil, false, bad("%s: condition outside the grammar", pos(st))
		default:
			return nil, false, bad("%s: statement outside the grammar of table methods", pos(st))
		}
	}
	return out, false, nil
}

// ------------------------------------------------------------------ composite methods

func (m *method) sopd(e ast.Expr) (string, error) {
	switch x := e.(type) {
	case *ast.Ident:
		if x.Name == m.rname {
			return "SRecv", nil
		}
		if i, ok := m.scal[x.Name]; ok {
			return fmt.Sprintf("(SArg %d)", i), nil
		}
		if i, ok := m.tmps[x.Name]; ok && !m.tmpArr[x.Name] {
			return fmt.Sprintf("(STmp %d)", i), nil
		}
		if v, ok := m.env[x.Name]; ok && v.text == "SLoc" {
			return "SLoc", nil
		}
	case *ast.IndexExpr:
		if id, ok := x.X.(*ast.Ident); ok && m.tmpArr[id.Name] {
			if l, ok := x.Index.(*ast.BasicLit); ok && l.Kind == token.INT {
				return fmt.Sprintf("(STmp %s)", l.Value), nil
			}
		}
	case *ast.CallExpr:
		if id, ok := x.Fun.(*ast.Ident); ok && (id.Name == "ConstFloat64" || id.Name == "ConstFloat32") && len(x.Args) == 1 {
			t, err := m.expr(x.Args[0], m.env)
			if err != nil {
				return "", err
			}
			return fmt.Sprintf("(SConst %s)", t), nil
		}
	}
	return "", bad("%s: operand outside the grammar", pos(e))
}

func (m *method) bcond(e ast.Expr) (string, error) {
	switch x := e.(type) {
	case *ast.ParenExpr:
		return m.bcond(x.X)
	case *ast.BinaryExpr:
		op := map[token.Token]string{token.LSS: "BLt", token.LEQ: "BLe", token.GTR: "BGt", token.GEQ: "BGe"}[x.Op]
		if op == "" {
			return "", bad("%s: comparison %s", pos(e), x.Op)
		}
		a, err := m.expr(x.X, m.env)
		if err != nil {
			return "", err
		}
		b, err := m.expr(x.Y, m.env)
		if err != nil {
			return "", err
		}
		return fmt.Sprintf("(%s %s %s)", op, a, b), nil
	case *ast.CallExpr:
		if selName(x.Fun) == "math.IsInf" && len(x.Args) == 2 {
			if z, ok := intLit(x.Args[1]); ok {
				a, err := m.expr(x.Args[0], m.env)
				if err != nil {
					return "", err
				}
				return fmt.Sprintf("(BIsInf %s (%s)%%Z)", a, z), nil
			}
		}
		if s, ok := x.Fun.(*ast.SelectorExpr); ok && (s.Sel.Name == "Greater" || s.Sel.Name == "GREATER") && len(x.Args) == 1 {
			a, err := m.sopd(s.X)
			if err != nil {
				return "", err
			}
			b, err := m.sopd(x.Args[0])
			if err != nil {
				return "", err
			}
			return fmt.Sprintf("(BGreater %s %s)", a, b), nil
		}
	}
	return "", bad("%s: condition outside the grammar", pos(e))
}

func (m *method) call(c *ast.CallExpr) (string, error) {
	s, ok := c.Fun.(*ast.SelectorExpr)
	if !ok {
		return "", bad("%s: call outside the grammar", pos(c))
	}
	r, err := m.sopd(s.X)
	if err != nil {
		return "", err
	}
	var as []string
	for _, a := range c.Args {
		t, err := m.sopd(a)
		if err != nil {
			return "", err
		}
		as = append(as, t)
	}
	m.epoch++
	return fmt.Sprintf("SCall %s %q [%s]", r, s.Sel.Name, strings.Join(as, "; ")), nil
}

func (m *method) block(stmts []ast.Stmt) ([]string, error) {
	var out []string
	for k, st := range stmts {
		switch s := st.(type) {
		case *ast.ExprStmt:
			c, ok := s.X.(*ast.CallExpr)
			if !ok {
				return nil, bad("%s: expression statement", pos(st))
			}
			t, err := m.call(c)
			if err != nil {
				return nil, err
			}
			out = append(out, t)
		case *ast.ReturnStmt:
			if len(s.Results) != 1 {
				return nil, bad("%s: return", pos(st))
			}
			if id, ok := s.Results[0].(*ast.Ident); ok && id.Name == m.rname {
				out = append(out, "SReturn")
				return out, nil
			}
			if c, ok := s.Results[0].(*ast.CallExpr); ok {
				t, err := m.call(c)
				if err != nil {
					return nil, err
				}
				if !strings.HasPrefix(t, "SCall SRecv ") {
					return nil, bad("%s: return of a call on something else than the receiver", pos(st))
				}
				out = append(out, t, "SReturn")
				return out, nil
			}
			return nil, bad("%s: return value outside the grammar", pos(st))
		case *ast.IfStmt:
			t, err := m.ifstmt(s)
			if err != nil {
				return nil, err
			}
			out = append(out, t)
		case *ast.SwitchStmt:
			t, err := m.switchSign(s)
			if err != nil {
				return nil, err
			}
			out = append(out, t)
		case *ast.AssignStmt:
			// a, b = b, a
			if s.Tok == token.ASSIGN && len(s.Lhs) == 2 && len(s.Rhs) == 2 {
				n := func(e ast.Expr) int {
					if id, ok := e.(*ast.Ident); ok {
						if i, ok := m.scal[id.Name]; ok {
							return i
						}
					}
					return -1
				}
				if n(s.Lhs[0]) == 0 && n(s.Lhs[1]) == 1 && n(s.Rhs[0]) == 1 && n(s.Rhs[1]) == 0 {
					out = append(out, "SSwap")
					m.epoch++
					continue
				}
			}
			if s.Tok == token.DEFINE && len(s.Lhs) == 1 && len(s.Rhs) == 1 {
				name := s.Lhs[0].(*ast.Ident).Name
				// t := NewScalar(c.Type(), 0.0)
				if c, ok := s.Rhs[0].(*ast.CallExpr); ok {
					if id, ok := c.Fun.(*ast.Ident); ok && id.Name == "NewScalar" && len(c.Args) == 2 {
						tc, ok1 := c.Args[0].(*ast.CallExpr)
						z, ok2 := c.Args[1].(*ast.BasicLit)
						if ok1 && ok2 && selName(tc.Fun) == m.rname+".Type" && (z.Value == "0.0" || z.Value == "0") && !m.hasLocal {
							m.hasLocal = true
							m.env[name] = value{kind: vExpr, text: "SLoc", epoch: -1}
							body, err := m.block(stmts[k+1:])
							if err != nil {
								return nil, err
							}
							delete(m.env, name)
							out = append(out, fmt.Sprintf("SWithLocal [%s]", strings.Join(body, "; ")))
							return out, nil
						}
					}
				}
				t, err := m.expr(s.Rhs[0], m.env)
				if err != nil {
					return nil, err
				}
				m.env[name] = value{kind: vExpr, text: t, epoch: m.epoch}
				continue
			}
			return nil, bad("%s: assignment outside the grammar", pos(st))
		default:
			return nil, bad("%s: statement outside the grammar of composite methods (%T)", pos(st), st)
		}
	}
	return out, nil
}

func (m *method) ifstmt(s *ast.IfStmt) (string, error) {
	if s.Init != nil {
		return "", bad("%s: if with init", pos(s))
	}
	c, err := m.bcond(s.Cond)
	if err != nil {
		return "", err
	}
	e0 := m.epoch
	saved := m.clone()
	th, err := m.block(s.Body.List)
	if err != nil {
		return "", err
	}
	e1 := m.epoch
	m.env = saved
	m.epoch = e0
	var el []string
	switch e := s.Else.(type) {
	case nil:
	case *ast.BlockStmt:
		saved2 := m.clone()
		el, err = m.block(e.List)
		if err != nil {
			return "", err
		}
		m.env = saved2
	case *ast.IfStmt:
		t, err := m.ifstmt(e)
		if err != nil {
			return "", err
		}
		el = []string{t}
	}
	if e1 > m.epoch {
		m.epoch = e1
	}
	if e1 != e0 || m.epoch != e0 {
		m.epoch++ // after a branch that called a method every earlier float local is stale
	}
	return fmt.Sprintf("SIf %s [%s] [%s]", c, strings.Join(th, "; "), strings.Join(el, "; ")), nil
}

func (m *method) switchSign(s *ast.SwitchStmt) (string, error) {
	if s.Init != nil || s.Tag == nil {
		return "", bad("%s: switch outside the grammar", pos(s))
	}
	c, ok := s.Tag.(*ast.CallExpr)
	if !ok || len(c.Args) != 0 {
		return "", bad("%s: switch tag", pos(s))
	}
	sel, ok := c.Fun.(*ast.SelectorExpr)
	if !ok || (sel.Sel.Name != "Sign" && sel.Sel.Name != "SIGN") {
		return "", bad("%s: switch tag is not a Sign() call", pos(s))
	}
	a, err := m.sopd(sel.X)
	if err != nil {
		return "", err
	}
	arms := map[string]string{}
	e0 := m.epoch
	emax := e0
	for _, cc := range s.Body.List {
		cl := cc.(*ast.CaseClause)
		if len(cl.List) != 1 {
			return "", bad("%s: case list", pos(cl))
		}
		z, ok := intLit(cl.List[0])
		if !ok || (z != "-1" && z != "0" && z != "1") || arms[z] != "" {
			return "", bad("%s: case label", pos(cl))
		}
		m.epoch = e0
		b, err := m.block(cl.Body)
		if err != nil {
			return "", err
		}
		if m.epoch > emax {
			emax = m.epoch
		}
		arms[z] = "[" + strings.Join(b, "; ") + "]"
	}
	m.epoch = emax + 1
	if len(arms) != 3 {
		return "", bad("%s: switch on Sign() without the three cases -1, 0, 1", pos(s))
	}
	return fmt.Sprintf("SSwitchSign %s %s %s %s", a, arms["-1"], arms["0"], arms["1"]), nil
}

// ------------------------------------------------------------------ driver

type untied struct {
	Recv string `json:"recv"`
	Meth string `json:"method"`
	Why  string `json:"why"`
}

func typeText(e ast.Expr) string {
	switch x := e.(type) {
	case *ast.Ident:
		return x.Name
	case *ast.StarExpr:
		return "*" + typeText(x.X)
	case *ast.ArrayType:
		if l, ok := x.Len.(*ast.BasicLit); ok {
			return "[" + l.Value + "]" + typeText(x.Elt)
		}
		return "[]" + typeText(x.Elt)
	}
	return "?"
}

func newMethod(fd *ast.FuncDecl) *method {
	if fd.Recv == nil || len(fd.Recv.List) != 1 || len(fd.Recv.List[0].Names) != 1 {
		return nil
	}
	rt := typeText(fd.Recv.List[0].Type)
	if rt != "*Real64" && rt != "*Real32" {
		return nil
	}
	m := &method{recv: rt[1:], name: fd.Name.Name, rname: fd.Recv.List[0].Names[0].Name,
		scal: map[string]int{}, tmps: map[string]int{}, tmpArr: map[string]bool{}, env: map[string]value{},
		vecs: map[string]int{}, isMat: map[string]bool{}, csts: map[string]int{}}
	for _, p := range fd.Type.Params.List {
		t := typeText(p.Type)
		for _, n := range p.Names {
			switch {
			case n.Name == "t" && (t == "Scalar" || t == rt):
				m.tmps[n.Name] = m.ntmp
				m.ntmp++
			case t == "ConstScalar" || t == rt:
				m.scal[n.Name] = m.nscal
				m.nscal++
			case t == "Scalar":
				m.tmps[n.Name] = m.ntmp
				m.ntmp++
			case strings.HasSuffix(t, "]Scalar") && strings.HasPrefix(t, "["):
				m.tmps[n.Name] = 0
				m.tmpArr[n.Name] = true
				fmt.Sscanf(t, "[%d]", &m.ntmp)
			case t == "ConstVector" || t == "ConstMatrix":
				m.vecs[n.Name] = m.nvec
				m.isMat[n.Name] = t == "ConstMatrix"
				m.nvec++
			case t == "ConstFloat64" && m.nvec > 0:
				m.csts[n.Name] = m.ncst
				m.ncst++
			case t == "float64" && m.fpar == "":
				m.fpar = n.Name
			case t == "int" && m.ipar == "":
				m.ipar = n.Name
			default:
				m.other = append(m.other, n.Name+" "+t)
			}
		}
	}
	return m
}

func main() {
	repo := flag.String("repo", "/repo", "path of the library")
	outp := flag.String("out", "", "Coq file to write")
	rep := flag.String("report", "", "JSON report to write")
	flag.Parse()
	files := []string{"scalar_real64_math.go", "scalar_real32_math.go", "scalar_real64_math_concrete.go", "scalar_real32_math_concrete.go"}
	var entries []entry
	var bodies []string
	var loops []string
	var preds []string
	var unt []untied
	nmeth := 0
	parseErr := ""
	for _, f := range files {
		af, err := parser.ParseFile(fset, filepath.Join(*repo, f), nil, 0)
		if err != nil {
			parseErr += err.Error() + "\n"
			continue
		}
		for _, d := range af.Decls {
			fd, ok := d.(*ast.FuncDecl)
			if !ok || fd.Body == nil {
				continue
			}
			m := newMethod(fd)
			if m == nil {
				continue
			}
			nmeth++
			if len(m.other) > 0 {
				unt = append(unt, untied{m.recv, m.name, "parameter outside the grammar: " + strings.Join(m.other, ", ")})
				continue
			}
			if fd.Type.Results == nil || len(fd.Type.Results.List) != 1 ||
				(typeText(fd.Type.Results.List[0].Type) != "Scalar" && typeText(fd.Type.Results.List[0].Type) != "*"+m.recv) {
				pr, err := m.predicate(fd)
				if err != nil {
					unt = append(unt, untied{m.recv, m.name, "predicate outside the grammar (" + err.Error() + "): not used by the operations of this property"})
					continue
				}
				preds = append(preds, pr)
				continue
			}
			if m.nvec > 0 {
				l, err := m.loop(fd)
				if err != nil {
					unt = append(unt, untied{m.recv, m.name, err.Error()})
					continue
				}
				loops = append(loops, l)
				continue
			}
			if containsCombCall(m, fd.Body) {
				es, ret, err := m.table(fd.Body.List, nil)
				if err == nil && !ret {
					err = bad("%s: a path does not end in a combinator call", pos(fd))
				}
				if err != nil {
					unt = append(unt, untied{m.recv, m.name, err.Error()})
					continue
				}
				entries = append(entries, es...)
				continue
			}
			b, err := m.block(fd.Body.List)
			if err != nil {
				unt = append(unt, untied{m.recv, m.name, err.Error()})
				continue
			}
			bodies = append(bodies, fmt.Sprintf("  mkBody %q %q %d %d\n    [%s]", m.recv, m.name, m.nscal, m.ntmp, strings.Join(b, ";\n     ")))
		}
	}
	var sb strings.Builder
	sb.WriteString("(* GENERATED by /verif/go2coq_c01 from " + strings.Join(files, ", ") + " of the library.  Do not edit:\n")
	sb.WriteString("   the file is rewritten by ./check C01 whenever the source changes.  Data only; the language is\n")
	sb.WriteString("   C01/ModelOpsLang.v, the theorems about it are C01/ProofsGen.v. *)\n")
	sb.WriteString("From Coq Require Import ZArith QArith List String.\nFrom ADV Require Import C01.ModelOpsLang.\nImport ListNotations.\n")
	sb.WriteString("Local Open Scope nat_scope.\nLocal Open Scope string_scope.\n\n")
	var es []string
	for _, e := range entries {
		es = append(es, e.coq())
	}
	sb.WriteString("Definition gen_table : list entry := [\n" + strings.Join(es, ";\n") + "\n].\n\n")
	sb.WriteString("Definition gen_bodies : list cbody := [\n" + strings.Join(bodies, ";\n") + "\n].\n\n")
	sb.WriteString("Definition gen_loops : list lbody := [\n" + strings.Join(loops, ";\n") + "\n].\n\n")
	sb.WriteString("Definition gen_preds : list pred := [\n" + strings.Join(preds, ";\n") + "\n].\n\n")
	var us []string
	for _, u := range unt {
		us = append(us, fmt.Sprintf("  mkUntied %q %q %q", u.Recv, u.Meth, strings.Replace(u.Why, "\"", "'", -1)))
	}
	sb.WriteString("Definition gen_untied : list untied := [\n" + strings.Join(us, ";\n") + "\n].\n")
	if *outp != "" {
		if err := os.WriteFile(*outp, []byte(sb.String()), 0644); err != nil {
			fmt.Fprintln(os.Stderr, err)
			os.Exit(2)
		}
	}
	report := map[string]interface{}{
		"ok": parseErr == "" && len(entries) > 0, "parse_errors": parseErr, "files": files, "methods": nmeth,
		"combinator_call_sites": len(entries), "composite_bodies": len(bodies), "loop_bodies": len(loops), "predicates": len(preds), "hand_tied_only": unt,
		"hand_tied_only_count": len(unt),
	}
	if *rep != "" {
		b, _ := json.MarshalIndent(report, "", " ")
		os.WriteFile(*rep, b, 0644)
	}
	fmt.Printf("go2coq_c01: %d methods, %d combinator call sites, %d composite bodies, %d loop bodies, %d predicates, %d outside the grammar\n",
		nmeth, len(entries), len(bodies), len(loops), len(preds), len(unt))
	if parseErr != "" {
		fmt.Fprint(os.Stderr, parseErr)
		os.Exit(1)
	}
}
