module go2coq_c01

go 1.14
