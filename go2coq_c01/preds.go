// preds.go — translation of the predicates Greater / Smaller / Sign (and the concrete twins GREATER SMALLER
// SIGN): `return <float comparison>` resp. a chain `if <float comparison> { return <int> }` .. `return <int>`,
// with the RECEIVER as operand 0 and the parameter as operand 1.  coq/C01/ProofsLoop.v proves that their
// denotation is the comparison the model uses (cmpv / sign_of / ModelOpsLang.ceval BGreater).
package main

import (
	"fmt"
	"go/ast"
	"strings"
)

func (m *method) predicate(fd *ast.FuncDecl) (string, error) {
	// operands: receiver = 0, ConstScalar parameters shifted by one
	sc := map[string]int{m.rname: 0}
	for k, v := range m.scal {
		sc[k] = v + 1
	}
	saved := m.scal
	m.scal = sc
	defer func() { m.scal = saved }()
	if m.fpar != "" || m.ipar != "" || m.ntmp != 0 {
		return "", bad("%s: predicate with parameters outside the grammar", pos(fd))
	}
	stmts := fd.Body.List
	if len(stmts) == 0 {
		return "", bad("%s: empty predicate", pos(fd))
	}
	last, ok := stmts[len(stmts)-1].(*ast.ReturnStmt)
	if !ok || len(last.Results) != 1 {
		return "", bad("%s: predicate does not end in a return", pos(fd))
	}
	res := typeText(fd.Type.Results.List[0].Type)
	if res == "bool" {
		if len(stmts) != 1 {
			return "", bad("%s: bool predicate with local definitions", pos(fd))
		}
		c, err := m.bcond(last.Results[0])
		if err != nil {
			return "", err
		}
		return fmt.Sprintf("  mkPred %q %q (PBool %s)", m.recv, m.name, c), nil
	}
	if res != "int" {
		return "", bad("%s: result type %s", pos(fd), res)
	}
	d, ok := intLit(last.Results[0])
	if !ok {
		return "", bad("%s: default result", pos(last))
	}
	var arms []string
	for _, st := range stmts[:len(stmts)-1] {
		is, ok := st.(*ast.IfStmt)
		if !ok || is.Init != nil || is.Else != nil || len(is.Body.List) != 1 {
			return "", bad("%s: statement outside the grammar of int predicates", pos(st))
		}
		rs, ok := is.Body.List[0].(*ast.ReturnStmt)
		if !ok || len(rs.Results) != 1 {
			return "", bad("%s: arm is not a return", pos(is))
		}
		z, ok := intLit(rs.Results[0])
		if !ok {
			return "", bad("%s: arm result", pos(rs))
		}
		c, err := m.bcond(is.Cond)
		if err != nil {
			return "", err
		}
		arms = append(arms, fmt.Sprintf("(%s, (%s)%%Z)", c, z))
	}
	return fmt.Sprintf("  mkPred %q %q (PInt [%s] (%s)%%Z)", m.recv, m.name, strings.Join(arms, "; "), d), nil
}
