// loops.go — translation of the reductions over vectors / matrices
// (SmoothMax LogSmoothMax Vmean VdotV Vnorm Mtrace Mnorm) into the record
// [lbody] of coq/C01/ModelOpsLang.v: guards, the local, the prologue, ONE
// loop whose body is a straight line of method calls (Mnorm: the
// `if i == 0 && j == 0 { .. } else { .. }` split), the epilogue.
// coq/C01/ProofsLoop.v proves, for every carrier and every vector, that the
// denotation of each is the model's do_smoothmax .. do_mnorm.
package main

import (
	"fmt"
	"go/ast"
	"go/token"
	"strings"
)

type loopCtx struct {
	kind   string // index | iterator | diag | rowmajor
	i, j   string // loop variables
	it     string // iterator variable
	itVec  string // the vector the iterator runs over
	bound  string // the vector whose Dim() bounds an index loop
	dimN   string // n, m := a.Dims()
	dimM   string
	dimVec string
}

func identName(e ast.Expr) string {
	if id, ok := e.(*ast.Ident); ok {
		return id.Name
	}
	return ""
}

// <vec>.Dim()
func (m *method) dimOf(e ast.Expr) string {
	if c, ok := e.(*ast.CallExpr); ok && len(c.Args) == 0 {
		if s, ok := c.Fun.(*ast.SelectorExpr); ok && s.Sel.Name == "Dim" {
			if _, ok := m.vecs[identName(s.X)]; ok {
				return identName(s.X)
			}
		}
	}
	return ""
}

// operands that only exist in loop methods; falls back on sopd
func (m *method) lsopd(e ast.Expr, lc *loopCtx) (string, error) {
	switch x := e.(type) {
	case *ast.Ident:
		if i, ok := m.csts[x.Name]; ok {
			return fmt.Sprintf("(SArg %d)", m.nvec+i), nil
		}
	case *ast.CallExpr:
		if s, ok := x.Fun.(*ast.SelectorExpr); ok {
			recv := identName(s.X)
			if vi, ok := m.vecs[recv]; ok && s.Sel.Name == "ConstAt" {
				if lc == nil || lc.kind == "" {
					return "", bad("%s: element access outside the loop", pos(e))
				}
				okAcc := false
				switch lc.kind {
				case "index":
					okAcc = !m.isMat[recv] && len(x.Args) == 1 && identName(x.Args[0]) == lc.i
				case "diag":
					okAcc = m.isMat[recv] && recv == lc.dimVec && len(x.Args) == 2 && identName(x.Args[0]) == lc.i && identName(x.Args[1]) == lc.i
				case "rowmajor":
					okAcc = m.isMat[recv] && recv == lc.dimVec && len(x.Args) == 2 && identName(x.Args[0]) == lc.i && identName(x.Args[1]) == lc.j
				}
				if !okAcc {
					return "", bad("%s: element access does not follow the loop (%s)", pos(e), lc.kind)
				}
				return fmt.Sprintf("(SArg %d)", vi), nil
			}
			if lc != nil && lc.kind == "iterator" && recv == lc.it && s.Sel.Name == "GetConst" && len(x.Args) == 0 {
				return fmt.Sprintf("(SArg %d)", m.vecs[lc.itVec]), nil
			}
		}
		// ConstFloat64(float64(a.Dim()))
		if id, ok := x.Fun.(*ast.Ident); ok && (id.Name == "ConstFloat64" || id.Name == "ConstFloat32") && len(x.Args) == 1 {
			if c, ok := x.Args[0].(*ast.CallExpr); ok && len(c.Args) == 1 {
				if f := identName(c.Fun); f == "float64" || f == "float32" {
					if v := m.dimOf(c.Args[0]); v != "" {
						if m.vecs[v] != 0 {
							return "", bad("%s: Dim() of a vector other than the first", pos(e))
						}
						return fmt.Sprintf("(SArg %d)", m.nvec+m.ncst), nil
					}
				}
			}
		}
	}
	return m.sopd(e)
}

func (m *method) lcall(c *ast.CallExpr, lc *loopCtx) (string, error) {
	s, ok := c.Fun.(*ast.SelectorExpr)
	if !ok {
		return "", bad("%s: call outside the grammar", pos(c))
	}
	r, err := m.sopd(s.X)
	if err != nil {
		return "", err
	}
	var as []string
	if s.Sel.Name == "SetFloat64" && len(c.Args) == 1 {
		t, err := m.expr(c.Args[0], m.env)
		if err != nil {
			return "", err
		}
		as = append(as, fmt.Sprintf("(SConst %s)", t))
	} else {
		for _, a := range c.Args {
			t, err := m.lsopd(a, lc)
			if err != nil {
				return "", err
			}
			as = append(as, t)
		}
	}
	return fmt.Sprintf("SCall %s %q [%s]", r, s.Sel.Name, strings.Join(as, "; ")), nil
}

func (m *method) lline(stmts []ast.Stmt, lc *loopCtx) ([]string, error) {
	var out []string
	for _, st := range stmts {
		es, ok := st.(*ast.ExprStmt)
		if !ok {
			return nil, bad("%s: statement outside the grammar of loop bodies (%T)", pos(st), st)
		}
		c, ok := es.X.(*ast.CallExpr)
		if !ok {
			return nil, bad("%s: expression statement", pos(st))
		}
		t, err := m.lcall(c, lc)
		if err != nil {
			return nil, err
		}
		out = append(out, t)
	}
	return out, nil
}

func isPanicBlock(b *ast.BlockStmt) bool {
	if len(b.List) != 1 {
		return false
	}
	es, ok := b.List[0].(*ast.ExprStmt)
	if !ok {
		return false
	}
	c, ok := es.X.(*ast.CallExpr)
	return ok && identName(c.Fun) == "panic"
}

func isReturnNil(b *ast.BlockStmt) bool {
	if len(b.List) != 1 {
		return false
	}
	rs, ok := b.List[0].(*ast.ReturnStmt)
	return ok && len(rs.Results) == 1 && identName(rs.Results[0]) == "nil"
}

func isZero(e ast.Expr) bool {
	l, ok := e.(*ast.BasicLit)
	return ok && l.Kind == token.INT && l.Value == "0"
}

// i := 0; i < <bound>; i++   -> (i, bound expression)
func countingHeader(f *ast.ForStmt) (string, ast.Expr, bool) {
	as, ok := f.Init.(*ast.AssignStmt)
	if !ok || as.Tok != token.DEFINE || len(as.Lhs) != 1 || len(as.Rhs) != 1 || !isZero(as.Rhs[0]) {
		return "", nil, false
	}
	i := identName(as.Lhs[0])
	c, ok := f.Cond.(*ast.BinaryExpr)
	if !ok || c.Op != token.LSS || identName(c.X) != i || i == "" {
		return "", nil, false
	}
	p, ok := f.Post.(*ast.IncDecStmt)
	if !ok || p.Tok != token.INC || identName(p.X) != i {
		return "", nil, false
	}
	return i, c.Y, true
}

func (m *method) guard(s *ast.IfStmt, lc *loopCtx) (string, error) {
	if s.Init != nil || s.Else != nil {
		return "", bad("%s: guard with init / else", pos(s))
	}
	switch c := s.Cond.(type) {
	case *ast.BinaryExpr:
		switch c.Op {
		case token.NEQ:
			a, b := m.dimOf(c.X), m.dimOf(c.Y)
			if a != "" && b != "" && a != b && m.nvec == 2 && isPanicBlock(s.Body) {
				return "dim-mismatch-panics", nil
			}
			if lc.dimN != "" && identName(c.X) == lc.dimN && identName(c.Y) == lc.dimM && isPanicBlock(s.Body) {
				return "not-square-panics", nil
			}
		case token.EQL:
			if lc.dimN != "" && identName(c.X) == lc.dimN && isZero(c.Y) && isReturnNil(s.Body) {
				return "n-zero-returns-nil", nil
			}
		case token.LOR:
			l, ok1 := c.X.(*ast.BinaryExpr)
			r, ok2 := c.Y.(*ast.BinaryExpr)
			if ok1 && ok2 && l.Op == token.EQL && r.Op == token.EQL && lc.dimN != "" &&
				identName(l.X) == lc.dimN && isZero(l.Y) && identName(r.X) == lc.dimM && isZero(r.Y) && isReturnNil(s.Body) {
				return "empty-returns-nil", nil
			}
		}
	}
	return "", bad("%s: guard outside the grammar", pos(s))
}

func coqStrList(l []string) string {
	var q []string
	for _, s := range l {
		q = append(q, fmt.Sprintf("%q", s))
	}
	return "[" + strings.Join(q, "; ") + "]"
}

func (m *method) loop(fd *ast.FuncDecl) (string, error) {
	lc := &loopCtx{}
	var guards, pre, first, body, post []string
	local := ""
	split := false
	seenLoop := false
	returned := false
	for _, st := range fd.Body.List {
		if returned {
			return "", bad("%s: statement after return", pos(st))
		}
		switch s := st.(type) {
		case *ast.AssignStmt:
			if seenLoop || s.Tok != token.DEFINE {
				return "", bad("%s: assignment outside the grammar", pos(st))
			}
			// n, m := a.Dims()
			if len(s.Lhs) == 2 && len(s.Rhs) == 1 {
				if c, ok := s.Rhs[0].(*ast.CallExpr); ok && len(c.Args) == 0 {
					if sel, ok := c.Fun.(*ast.SelectorExpr); ok && sel.Sel.Name == "Dims" && m.isMat[identName(sel.X)] && lc.dimN == "" {
						lc.dimN, lc.dimM, lc.dimVec = identName(s.Lhs[0]), identName(s.Lhs[1]), identName(sel.X)
						continue
					}
				}
			}
			// t := NullReal64()   |   t := NewScalar(r.Type(), 0.0)
			if len(s.Lhs) == 1 && len(s.Rhs) == 1 && local == "" {
				name := identName(s.Lhs[0])
				if c, ok := s.Rhs[0].(*ast.CallExpr); ok {
					if identName(c.Fun) == "Null"+m.recv && len(c.Args) == 0 {
						local = "NullReal"
					}
					if identName(c.Fun) == "NewScalar" && len(c.Args) == 2 {
						tc, ok1 := c.Args[0].(*ast.CallExpr)
						z, ok2 := c.Args[1].(*ast.BasicLit)
						if ok1 && ok2 && selName(tc.Fun) == m.rname+".Type" && len(tc.Args) == 0 && (z.Value == "0.0" || z.Value == "0") {
							local = "NewScalar"
						}
					}
				}
				if local != "" && name != "" {
					m.env[name] = value{kind: vExpr, text: "SLoc", epoch: -1}
					continue
				}
			}
			return "", bad("%s: definition outside the grammar", pos(st))
		case *ast.IfStmt:
			if seenLoop || len(pre) > 0 || local != "" {
				return "", bad("%s: test after the first write", pos(st))
			}
			g, err := m.guard(s, lc)
			if err != nil {
				return "", err
			}
			guards = append(guards, g)
		case *ast.ExprStmt:
			c, ok := s.X.(*ast.CallExpr)
			if !ok {
				return "", bad("%s: expression statement", pos(st))
			}
			t, err := m.lcall(c, nil)
			if err != nil {
				return "", err
			}
			if seenLoop {
				post = append(post, t)
			} else {
				pre = append(pre, t)
			}
		case *ast.ForStmt:
			if seenLoop {
				return "", bad("%s: second loop", pos(st))
			}
			seenLoop = true
			inner := s.Body.List
			if i, bound, ok := countingHeader(s); ok {
				lc.i = i
				if v := m.dimOf(bound); v != "" && m.vecs[v] == 0 && !m.isMat[v] {
					lc.kind, lc.bound = "index", v
				} else if lc.dimN != "" && identName(bound) == lc.dimN {
					lc.kind = "diag"
					if len(inner) == 1 {
						if f2, ok := inner[0].(*ast.ForStmt); ok {
							j, b2, ok := countingHeader(f2)
							if !ok || identName(b2) != lc.dimM || j == i {
								return "", bad("%s: inner loop header", pos(f2))
							}
							lc.kind, lc.j = "rowmajor", j
							inner = f2.Body.List
						}
					}
				} else {
					return "", bad("%s: loop bound outside the grammar", pos(s))
				}
			} else {
				// for it := a.ConstIterator(); it.Ok(); it.Next()
				as, ok := s.Init.(*ast.AssignStmt)
				if !ok || as.Tok != token.DEFINE || len(as.Lhs) != 1 || len(as.Rhs) != 1 {
					return "", bad("%s: loop header", pos(s))
				}
				c, ok := as.Rhs[0].(*ast.CallExpr)
				if !ok || len(c.Args) != 0 {
					return "", bad("%s: loop header", pos(s))
				}
				sel, ok := c.Fun.(*ast.SelectorExpr)
				if !ok || sel.Sel.Name != "ConstIterator" {
					return "", bad("%s: loop header", pos(s))
				}
				if vi, ok := m.vecs[identName(sel.X)]; !ok || vi != 0 || m.isMat[identName(sel.X)] || m.nvec != 1 {
					return "", bad("%s: iterator over something else than the vector parameter", pos(s))
				}
				lc.it, lc.itVec = identName(as.Lhs[0]), identName(sel.X)
				cc, ok1 := s.Cond.(*ast.CallExpr)
				var pc *ast.CallExpr
				if ps, ok := s.Post.(*ast.ExprStmt); ok {
					pc, _ = ps.X.(*ast.CallExpr)
				}
				if !ok1 || pc == nil || selName(cc.Fun) != lc.it+".Ok" || selName(pc.Fun) != lc.it+".Next" || len(cc.Args) != 0 || len(pc.Args) != 0 {
					return "", bad("%s: iterator loop header", pos(s))
				}
				lc.kind = "iterator"
			}
			// if i == 0 && j == 0 { first } else { rest }
			if len(inner) == 1 {
				if is, ok := inner[0].(*ast.IfStmt); ok {
					c, ok := is.Cond.(*ast.BinaryExpr)
					el, ok2 := is.Else.(*ast.BlockStmt)
					if !ok || !ok2 || is.Init != nil || c.Op != token.LAND || lc.kind != "rowmajor" {
						return "", bad("%s: test inside the loop", pos(is))
					}
					l, ok1 := c.X.(*ast.BinaryExpr)
					r, ok2 := c.Y.(*ast.BinaryExpr)
					if !ok1 || !ok2 || l.Op != token.EQL || r.Op != token.EQL || identName(l.X) != lc.i || !isZero(l.Y) ||
						identName(r.X) != lc.j || !isZero(r.Y) {
						return "", bad("%s: test inside the loop is not i == 0 && j == 0", pos(is))
					}
					var err error
					if first, err = m.lline(is.Body.List, lc); err != nil {
						return "", err
					}
					if body, err = m.lline(el.List, lc); err != nil {
						return "", err
					}
					split = true
					continue
				}
			}
			var err error
			if body, err = m.lline(inner, lc); err != nil {
				return "", err
			}
		case *ast.ReturnStmt:
			if !seenLoop || len(s.Results) != 1 {
				return "", bad("%s: return", pos(st))
			}
			returned = true
			if identName(s.Results[0]) == m.rname {
				continue
			}
			c, ok := s.Results[0].(*ast.CallExpr)
			if !ok {
				return "", bad("%s: return value outside the grammar", pos(st))
			}
			t, err := m.lcall(c, nil)
			if err != nil {
				return "", err
			}
			if !strings.HasPrefix(t, "SCall SRecv ") {
				return "", bad("%s: return of a call on something else than the receiver", pos(st))
			}
			post = append(post, t)
		default:
			return "", bad("%s: statement outside the grammar of loop methods (%T)", pos(st), st)
		}
	}
	if !seenLoop || !returned {
		return "", bad("%s: no loop / no return", pos(fd))
	}
	// every vector parameter must be visited by the loop
	all := strings.Join(body, " ") + " " + strings.Join(first, " ")
	for v, i := range m.vecs {
		if !strings.Contains(all, fmt.Sprintf("(SArg %d)", i)) {
			return "", bad("%s: the loop never reads the elements of %s", pos(fd), v)
		}
	}
	j := func(l []string) string { return "[" + strings.Join(l, ";\n      ") + "]" }
	bs := "false"
	if split {
		bs = "true"
	}
	return fmt.Sprintf("  mkLoop %q %q %d %d %d %q %s %q\n    %s\n    %s %s\n    %s\n    %s",
		m.recv, m.name, m.nvec, m.ncst, m.ntmp, lc.kind, coqStrList(guards), local, j(pre), bs, j(first), j(body), j(post)), nil
}
