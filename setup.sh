#!/bin/sh
# MANIFEST.setup_cmd: build the framework from files on disk only (offline).
set -e
cd "$(dirname "$0")"
export GOFLAGS=-mod=mod GOPROXY=off GOSUMDB=off GOTOOLCHAIN=local
mkdir -p runs/bin evidence
python3 - <<'PY'
import sys
sys.path.insert(0, "lib")
import vlib
if hasattr(vlib, "regen_all"):
    vlib.regen_all()
ok, log = vlib.coq_make(None, timeout=3000)
bad = [t for t, v in ok.items() if not v]
print(log[-3000:])
print("coq targets built: %d, failed: %s" % (sum(ok.values()), bad))
# a failing proof on the unchanged tree is reported by the per-property checks; setup itself only fails
# when nothing could be built at all
sys.exit(0 if sum(ok.values()) > 0 else 1)
PY
