module go2coq_c02

go 1.14
