// go2coq_c02 — regenerates, from the Go source of /repo, the BODIES of the scalar methods that work on caller-supplied
// scratch scalars or overwrite the receiver step by step:
//
//	LogAdd LogSub Log1pExp Sigmoid Logistic SmoothMax LogSmoothMax Vmean    (scalar_<type>_math.go, 9 receiver types)
//	LOGADD LOGSUB                                                           (scalar_<type>_math_concrete.go)
//
// as terms of the statement language of coq/C02/Bodies.v (method calls on the receiver / the scratch scalars / a local
// temporary, if - else-if chains, `a, b = b, a`, early return, the loop over the vector operand), and writes a Coq file
// in which every regenerated body must be EQUAL BY REFLEXIVITY to the expected program of its receiver type
// (Bodies.P_LogAdd, P_Sigmoid tc, ...).  coq/C02/ProofsBodies.v proves that the interpreter run on the expected programs
// is the state-passing model the theorems are about.
//
// Only the Go standard library (go/parser, go/ast).  The accepted grammar is exactly what these methods use today;
// any other construct is reported as "outside the grammar" (ok=false in the report), so the loss of the tie is loud.
package main

import (
	"encoding/json"
	"flag"
	"fmt"
	"go/ast"
	"go/parser"
	"go/token"
	"os"
	"path/filepath"
	"strings"
)

type tinfo struct {
	file  string // scalar_<file>_math.go
	recv  string // Go receiver type name
	coq   string // ty constructor
	cnst  string // Go name of the constant type
	ccoq  string // its ty constructor
}

var types = []tinfo{
	{"float64", "Float64", "TFloat64", "ConstFloat64", "TCFloat64"},
	{"float32", "Float32", "TFloat32", "ConstFloat32", "TCFloat32"},
	{"real64", "Real64", "TReal64", "ConstFloat64", "TCFloat64"},
	{"real32", "Real32", "TReal32", "ConstFloat32", "TCFloat32"},
	{"int8", "Int8", "TInt8", "ConstInt8", "TCInt8"},
	{"int16", "Int16", "TInt16", "ConstInt16", "TCInt16"},
	{"int32", "Int32", "TInt32", "ConstInt32", "TCInt32"},
	{"int64", "Int64", "TInt64", "ConstInt64", "TCInt64"},
	{"int", "Int", "TInt", "ConstInt", "TCInt"},
}

var constCoq = map[string]string{"ConstFloat64": "TCFloat64", "ConstFloat32": "TCFloat32", "ConstInt8": "TCInt8", "ConstInt16": "TCInt16",
	"ConstInt32": "TCInt32", "ConstInt64": "TCInt64", "ConstInt": "TCInt"}

// expected program of a method for a receiver type
var expected = map[string]string{
	"LogAdd": "P_LogAdd", "LogSub": "P_LogSub", "LOGADD": "P_LogAdd", "LOGSUB": "P_LogSub", "Log1pExp": "P_Log1pExp",
	"Sigmoid": "P_Sigmoid %s", "Logistic": "P_Logistic %s", "SmoothMax": "P_SmoothMax", "LogSmoothMax": "P_LogSmoothMax", "Vmean": "P_Vmean %s",
}
var generic = []string{"LogAdd", "LogSub", "Log1pExp", "Sigmoid", "Logistic", "SmoothMax", "LogSmoothMax", "Vmean"}
var concrete = []string{"LOGADD", "LOGSUB"}

type unsupported struct{ msg string }

func bad(fset *token.FileSet, n ast.Node, format string, a ...interface{}) {
	p := fset.Position(n.Pos())
	panic(unsupported{fmt.Sprintf("%s:%d: ", filepath.Base(p.Filename), p.Line) + fmt.Sprintf(format, a...)})
}

// translation context of one method
type ctx struct {
	fset   *token.FileSet
	recv   string            // name of the receiver variable
	scal   map[string]string // scalar parameter / local name -> arg term (AA, AB, AD t0, AD Dtmp)
	tarr   string            // name of the scratch array parameter (t [2]Scalar / t [3]Scalar)
	vec    string            // name of the vector parameter
	alpha  string
	floats map[string]string // v := a.GetFloat64()  ->  arg term of a
	inLoop bool
}

func (c *ctx) dreg(e ast.Expr) string {
	switch x := e.(type) {
	case *ast.Ident:
		if x.Name == c.recv {
			return "Dc"
		}
		if a, ok := c.scal[x.Name]; ok && strings.HasPrefix(a, "AD ") {
			a = strings.TrimPrefix(a, "AD ")
			if strings.HasPrefix(a, "(") {
				a = strings.TrimSuffix(strings.TrimPrefix(a, "("), ")")
			}
			return a
		}
	case *ast.IndexExpr:
		if id, ok := x.X.(*ast.Ident); ok && id.Name == c.tarr {
			if lit, ok := x.Index.(*ast.BasicLit); ok && (lit.Value == "0" || lit.Value == "1" || lit.Value == "2") {
				return "Dt K" + lit.Value
			}
		}
	}
	bad(c.fset, e, "receiver of a call is not the method's receiver, a scratch scalar or a local temporary")
	return ""
}
func paren(s string) string {
	if strings.Contains(s, " ") {
		return "(" + s + ")"
	}
	return s
}
func isFloatLit(e ast.Expr, vals ...string) bool {
	if l, ok := e.(*ast.BasicLit); ok {
		for _, v := range vals {
			if l.Value == v {
				return true
			}
		}
	}
	return false
}
func selCall(e ast.Expr) (recv ast.Expr, name string, args []ast.Expr, ok bool) {
	call, ok1 := e.(*ast.CallExpr)
	if !ok1 {
		return nil, "", nil, false
	}
	sel, ok2 := call.Fun.(*ast.SelectorExpr)
	if !ok2 {
		return nil, "", nil, false
	}
	return sel.X, sel.Sel.Name, call.Args, true
}

func (c *ctx) arg(e ast.Expr) string {
	switch x := e.(type) {
	case *ast.Ident:
		if x.Name == c.recv {
			return "AD Dc"
		}
		if x.Name == c.alpha && c.alpha != "" {
			return "AAlpha"
		}
		if a, ok := c.scal[x.Name]; ok {
			return a
		}
	case *ast.IndexExpr:
		return "AD (" + c.dreg(e) + ")"
	case *ast.CallExpr:
		// x.ConstAt(i)
		if rv, name, args, ok := selCall(e); ok && name == "ConstAt" && len(args) == 1 {
			if id, ok := rv.(*ast.Ident); ok && id.Name == c.vec && c.inLoop {
				if ix, ok := args[0].(*ast.Ident); ok && ix.Name == "i" {
					return "AX"
				}
			}
		}
		// ConstFloat64(1.0)  /  ConstFloat64(float64(a.Dim()))
		if id, ok := x.Fun.(*ast.Ident); ok && len(x.Args) == 1 {
			if cq, ok := constCoq[id.Name]; ok {
				if isFloatLit(x.Args[0], "1.0") {
					return "AOne " + cq
				}
				if conv, ok := x.Args[0].(*ast.CallExpr); ok && len(conv.Args) == 1 {
					if f, ok := conv.Fun.(*ast.Ident); ok && f.Name == "float64" {
						if rv, name, args, ok := selCall(conv.Args[0]); ok && name == "Dim" && len(args) == 0 {
							if v, ok := rv.(*ast.Ident); ok && v.Name == c.vec {
								return "ADim " + cq
							}
						}
					}
				}
			}
		}
	}
	bad(c.fset, e, "operand outside the grammar")
	return ""
}

var methCoq = map[string]string{"Add": "MAr OAdd", "Sub": "MAr OSub", "Mul": "MAr OMul", "Div": "MAr ODiv", "Neg": "MNeg",
	"Exp": "MFn FExp", "Log": "MFn FLog", "Log1p": "MFn FLog1p", "Set": "MSet",
	"ADD": "MAr OAdd", "SUB": "MAr OSub", "MUL": "MAr OMul", "DIV": "MAr ODiv", "NEG": "MNeg",
	"EXP": "MFn FExp", "LOG": "MFn FLog", "LOG1P": "MFn FLog1p", "SET": "MSet"}
var arity = map[string]int{"MAr OAdd": 2, "MAr OSub": 2, "MAr OMul": 2, "MAr ODiv": 2, "MNeg": 1, "MFn FExp": 1, "MFn FLog": 1, "MFn FLog1p": 1, "MSet": 1}

// d.M(args)  ->  ICall d m [args]
func (c *ctx) call(e ast.Expr) string {
	rv, name, args, ok := selCall(e)
	if !ok {
		bad(c.fset, e, "statement is not a method call")
	}
	d := c.dreg(rv)
	switch name {
	case "Reset":
		if len(args) != 0 {
			bad(c.fset, e, "Reset with arguments")
		}
		return fmt.Sprintf("ICall %s MReset []", paren(d))
	case "SetFloat64":
		// only x.SetFloat64(math.Inf(-1))
		if len(args) == 1 {
			if r2, n2, a2, ok := selCall(args[0]); ok && n2 == "Inf" && len(a2) == 1 {
				if id, ok := r2.(*ast.Ident); ok && id.Name == "math" {
					if u, ok := a2[0].(*ast.UnaryExpr); ok && u.Op == token.SUB && isFloatLit(u.X, "1") {
						return fmt.Sprintf("ICall %s MSetNegInf []", paren(d))
					}
				}
			}
		}
		bad(c.fset, e, "SetFloat64 of something other than math.Inf(-1)")
	case "LogAdd", "LOGADD":
		if len(args) != 3 {
			bad(c.fset, e, "LogAdd arity")
		}
		return fmt.Sprintf("ICall %s MLogAdd [%s; %s; %s]", paren(d), c.arg(args[0]), c.arg(args[1]), c.arg(args[2]))
	}
	m, ok := methCoq[name]
	if !ok {
		bad(c.fset, e, "method %s outside the grammar", name)
	}
	if len(args) != arity[m] {
		bad(c.fset, e, "arity of %s", name)
	}
	as := make([]string, len(args))
	for i, a := range args {
		as[i] = c.arg(a)
	}
	return fmt.Sprintf("ICall %s (%s) [%s]", paren(d), m, strings.Join(as, "; "))
}

// float expression that is the GetFloat64() of a scalar operand (directly or through a local)
func (c *ctx) floatOf(e ast.Expr) string {
	if id, ok := e.(*ast.Ident); ok {
		if a, ok := c.floats[id.Name]; ok {
			return a
		}
	}
	if rv, name, args, ok := selCall(e); ok && name == "GetFloat64" && len(args) == 0 {
		return c.arg(rv)
	}
	bad(c.fset, e, "float expression outside the grammar")
	return ""
}

var litCoq = map[string]string{"-37.0": "Lm37", "18.0": "L18", "33.3": "L33_3"}

func (c *ctx) cond(e ast.Expr) string {
	switch x := e.(type) {
	case *ast.CallExpr:
		if rv, name, args, ok := selCall(e); ok {
			if (name == "Greater" || name == "GREATER") && len(args) == 1 && c.arg(rv) == "AA" && c.arg(args[0]) == "AB" {
				return "CGreater"
			}
			if id, ok := rv.(*ast.Ident); ok && id.Name == "math" && name == "IsInf" && len(args) == 2 {
				s := ""
				if isFloatLit(args[1], "0") {
					s = "0"
				} else if u, ok := args[1].(*ast.UnaryExpr); ok && u.Op == token.SUB && isFloatLit(u.X, "1") {
					s = "(-1)"
				} else if isFloatLit(args[1], "1") {
					s = "1"
				} else {
					bad(c.fset, e, "sign argument of math.IsInf")
				}
				return fmt.Sprintf("CIsInf %s %s", paren(c.floatOf(args[0])), s)
			}
		}
	case *ast.BinaryExpr:
		if x.Op == token.LEQ {
			lit := ""
			if u, ok := x.Y.(*ast.UnaryExpr); ok && u.Op == token.SUB {
				if l, ok := u.X.(*ast.BasicLit); ok {
					lit = "-" + l.Value
				}
			} else if l, ok := x.Y.(*ast.BasicLit); ok {
				lit = l.Value
			}
			if lc, ok := litCoq[lit]; ok {
				return fmt.Sprintf("CLe %s %s", paren(c.floatOf(x.X)), lc)
			}
			bad(c.fset, e, "threshold %q is not one of -37.0, 18.0, 33.3", lit)
		}
		if x.Op == token.GEQ && isFloatLit(x.Y, "0") {
			return fmt.Sprintf("CGe0 %s", paren(c.floatOf(x.X)))
		}
	}
	bad(c.fset, e, "condition outside the grammar")
	return ""
}

// a statement that is "simple" (no nested control flow); returns zero or more simple instructions
func (c *ctx) simple(s ast.Stmt) []string {
	switch x := s.(type) {
	case *ast.ExprStmt:
		return []string{c.call(x.X)}
	case *ast.ReturnStmt:
		if len(x.Results) != 1 {
			bad(c.fset, s, "return of %d values", len(x.Results))
		}
		if id, ok := x.Results[0].(*ast.Ident); ok && id.Name == c.recv {
			return []string{"IRet"}
		}
		// return r.Div(r, ...)
		if rv, _, _, ok := selCall(x.Results[0]); ok && c.dreg(rv) == "Dc" {
			return []string{c.call(x.Results[0]), "IRet"}
		}
		bad(c.fset, s, "return value is not the receiver")
	case *ast.AssignStmt:
		// a, b = b, a
		if x.Tok == token.ASSIGN && len(x.Lhs) == 2 && len(x.Rhs) == 2 {
			l0, l1 := c.arg(x.Lhs[0]), c.arg(x.Lhs[1])
			r0, r1 := c.arg(x.Rhs[0]), c.arg(x.Rhs[1])
			if l0 == "AA" && l1 == "AB" && r0 == "AB" && r1 == "AA" {
				return []string{"ISwapAB"}
			}
		}
		if x.Tok == token.DEFINE && len(x.Lhs) == 1 && len(x.Rhs) == 1 {
			name := x.Lhs[0].(*ast.Ident).Name
			// t := NewScalar(c.Type(), 0.0)
			if call, ok := x.Rhs[0].(*ast.CallExpr); ok {
				if f, ok := call.Fun.(*ast.Ident); ok && f.Name == "NewScalar" && len(call.Args) == 2 && isFloatLit(call.Args[1], "0.0") {
					if rv, n, a, ok := selCall(call.Args[0]); ok && n == "Type" && len(a) == 0 && c.dreg(rv) == "Dc" {
						c.scal[name] = "AD Dtmp"
						return []string{"INewTmp"}
					}
				}
			}
			// v := a.GetFloat64()
			if rv, n, a, ok := selCall(x.Rhs[0]); ok && n == "GetFloat64" && len(a) == 0 {
				c.floats[name] = c.arg(rv)
				return nil
			}
		}
		bad(c.fset, s, "assignment outside the grammar")
	}
	bad(c.fset, s, "statement outside the grammar (nested control flow?)")
	return nil
}
func (c *ctx) block(b *ast.BlockStmt) string {
	var out []string
	for _, s := range b.List {
		out = append(out, c.simple(s)...)
	}
	return "[" + strings.Join(out, "; ") + "]"
}

func (c *ctx) stmt(s ast.Stmt) []string {
	switch x := s.(type) {
	case *ast.IfStmt:
		var arms []string
		dflt := "[]"
		cur := x
		for {
			if cur.Init != nil {
				bad(c.fset, cur, "if with an init statement")
			}
			arms = append(arms, fmt.Sprintf("(%s, %s)", c.cond(cur.Cond), c.block(cur.Body)))
			if cur.Else == nil {
				break
			}
			if nx, ok := cur.Else.(*ast.IfStmt); ok {
				cur = nx
				continue
			}
			dflt = c.block(cur.Else.(*ast.BlockStmt))
			break
		}
		return []string{fmt.Sprintf("SChain [%s] %s", strings.Join(arms, "; "), dflt)}
	case *ast.ForStmt:
		// for i := 0; i < x.Dim(); i++ { ... }
		okHdr := false
		if as, ok := x.Init.(*ast.AssignStmt); ok && as.Tok == token.DEFINE && len(as.Lhs) == 1 && as.Lhs[0].(*ast.Ident).Name == "i" && isFloatLit(as.Rhs[0], "0") {
			if be, ok := x.Cond.(*ast.BinaryExpr); ok && be.Op == token.LSS {
				if id, ok := be.X.(*ast.Ident); ok && id.Name == "i" {
					if rv, n, a, ok := selCall(be.Y); ok && n == "Dim" && len(a) == 0 {
						if v, ok := rv.(*ast.Ident); ok && v.Name == c.vec {
							if inc, ok := x.Post.(*ast.IncDecStmt); ok && inc.Tok == token.INC {
								okHdr = true
							}
						}
					}
				}
			}
		}
		if !okHdr || c.inLoop {
			bad(c.fset, s, "loop header is not `for i := 0; i < x.Dim(); i++`")
		}
		c.inLoop = true
		b := c.block(x.Body)
		c.inLoop = false
		return []string{"SFor " + b}
	}
	var out []string
	for _, i := range c.simple(s) {
		out = append(out, "SS ("+i+")")
	}
	return out
}

func translate(fset *token.FileSet, fd *ast.FuncDecl) (body string, err error) {
	self := recvTypeName(fd)
	defer func() {
		if r := recover(); r != nil {
			if u, ok := r.(unsupported); ok {
				err = fmt.Errorf("%s", u.msg)
				return
			}
			panic(r)
		}
	}()
	c := &ctx{fset: fset, scal: map[string]string{}, floats: map[string]string{}}
	c.recv = fd.Recv.List[0].Names[0].Name
	// parameters: a, b scalars -> AA, AB (in this order); t Scalar / t *T -> the scratch t[0]; t [k]Scalar; x / a ConstVector; alpha
	nsc := 0
	for _, f := range fd.Type.Params.List {
		tstr := typeString(f.Type)
		for _, n := range f.Names {
			switch {
			case tstr == "ConstVector":
				c.vec = n.Name
			case tstr == "ConstFloat64":
				c.alpha = n.Name
			case strings.HasPrefix(tstr, "[") && strings.HasSuffix(tstr, "]Scalar"):
				c.tarr = n.Name
			case n.Name == "t" && (tstr == "Scalar" || tstr == "*"+self || tstr == self):
				c.scal[n.Name] = "AD (Dt K0)"
			case tstr == "ConstScalar" || tstr == "*"+self || tstr == self:
				if nsc == 0 {
					c.scal[n.Name] = "AA"
				} else if nsc == 1 {
					c.scal[n.Name] = "AB"
				} else {
					bad(fset, f, "more than two scalar operands")
				}
				nsc++
			default:
				bad(fset, f, "parameter type %s outside the grammar", tstr)
			}
		}
	}
	var out []string
	for _, s := range fd.Body.List {
		out = append(out, c.stmt(s)...)
	}
	return "[ " + strings.Join(out, ";\n    ") + " ]", nil
}

// ---------------------------------------------------------------- value expressions of the elementary methods

var mathFn = map[string]string{"Exp": "FExp", "Log": "FLog", "Log1p": "FLog1p", "Sin": "FSin", "Cos": "FCos", "Tan": "FTan",
	"Sinh": "FSinh", "Cosh": "FCosh", "Tanh": "FTanh", "Erf": "FErf", "Erfc": "FErfc", "Gamma": "FGamma", "Sqrt": "FSqrt"}

// index of the value argument of the derivative helpers of the Real types
var helperValueIndex = map[string]int{"monadic": 1, "monadicLazy": 1, "realMonadic": 1, "realMonadicLazy": 1,
	"dyadic": 2, "dyadicLazy": 2, "realDyadic": 2, "realDyadicLazy": 2}

type vctx struct {
	fset    *token.FileSet
	recv    string
	opnd    []string          // scalar parameters in order
	env     map[string]string // float local -> vexpr
	pending string            // argument of the last c.SetFloat64(..)
	paths   []string
}

func (c *vctx) opndIndex(e ast.Expr) int {
	if id, ok := e.(*ast.Ident); ok {
		for i, n := range c.opnd {
			if n == id.Name {
				return i
			}
		}
	}
	return -1
}
func (c *vctx) vexpr(e ast.Expr) string {
	switch x := e.(type) {
	case *ast.ParenExpr:
		return c.vexpr(x.X)
	case *ast.Ident:
		if v, ok := c.env[x.Name]; ok {
			return v
		}
	case *ast.BasicLit:
		if x.Value == "0.5" {
			return "VHalf"
		}
	case *ast.UnaryExpr:
		if x.Op == token.SUB {
			return "VNegE " + paren(c.vexpr(x.X))
		}
	case *ast.BinaryExpr:
		op := map[token.Token]string{token.ADD: "OAdd", token.SUB: "OSub", token.MUL: "OMul", token.QUO: "ODiv"}[x.Op]
		if op != "" {
			return fmt.Sprintf("VArE %s %s %s", op, paren(c.vexpr(x.X)), paren(c.vexpr(x.Y)))
		}
	case *ast.CallExpr:
		if rv, name, args, ok := selCall(e); ok {
			if name == "GetFloat64" && len(args) == 0 {
				switch c.opndIndex(rv) {
				case 0:
					return "VX"
				case 1:
					return "VY"
				}
			}
			if id, ok := rv.(*ast.Ident); ok {
				if id.Name == "math" && name == "Pow" && len(args) == 2 {
					return fmt.Sprintf("VPowE %s %s", paren(c.vexpr(args[0])), paren(c.vexpr(args[1])))
				}
				if f, ok := mathFn[name]; ok && id.Name == "math" && len(args) == 1 {
					return fmt.Sprintf("VFnE %s %s", f, paren(c.vexpr(args[0])))
				}
				if id.Name == "special" && name == "LogErfc" && len(args) == 1 {
					return fmt.Sprintf("VFnE FLogErfc %s", paren(c.vexpr(args[0])))
				}
			}
		}
	}
	bad(c.fset, e, "value expression outside the grammar")
	return ""
}
func (c *vctx) walk(list []ast.Stmt, guards []string) (returned bool) {
	for _, s := range list {
		switch x := s.(type) {
		case *ast.AssignStmt:
			if len(x.Lhs) == 1 && len(x.Rhs) == 1 && (x.Tok == token.DEFINE || x.Tok == token.ASSIGN) {
				if _, isFn := x.Rhs[0].(*ast.FuncLit); isFn {
					continue // f1, f2: derivative closures, not part of the value
				}
				c.env[x.Lhs[0].(*ast.Ident).Name] = c.vexpr(x.Rhs[0])
				continue
			}
			bad(c.fset, s, "assignment outside the grammar")
		case *ast.ExprStmt:
			if rv, name, args, ok := selCall(x.X); ok && name == "SetFloat64" && len(args) == 1 {
				if id, ok := rv.(*ast.Ident); ok && id.Name == c.recv {
					c.pending = c.vexpr(args[0])
					continue
				}
			}
			bad(c.fset, s, "statement outside the grammar")
		case *ast.ReturnStmt:
			if len(x.Results) != 1 {
				bad(c.fset, s, "return of %d values", len(x.Results))
			}
			val := ""
			if id, ok := x.Results[0].(*ast.Ident); ok && id.Name == c.recv && c.pending != "" {
				val = c.pending
			} else if rv, name, args, ok := selCall(x.Results[0]); ok {
				if id, ok := rv.(*ast.Ident); ok && id.Name == c.recv {
					if idx, ok := helperValueIndex[name]; ok && len(args) > idx {
						// the operands handed to the helper must be the method's operands, in order
						for i := 0; i < idx; i++ {
							if c.opndIndex(args[i]) != i {
								bad(c.fset, s, "helper %s is not called on the method's operands", name)
							}
						}
						val = c.vexpr(args[idx])
					} else if name == "Pow" && len(args) == 2 && c.opndIndex(args[0]) == 0 {
						// return c.Pow(a, ConstFloat64(0.5))
						if call, ok := args[1].(*ast.CallExpr); ok && len(call.Args) == 1 && isFloatLit(call.Args[0], "0.5") {
							if f, ok := call.Fun.(*ast.Ident); ok && f.Name == "ConstFloat64" {
								val = "VPowE VX VHalf"
							}
						}
					}
				}
			}
			if val == "" {
				bad(c.fset, s, "return outside the grammar")
			}
			c.paths = append(c.paths, fmt.Sprintf("([%s], %s)", strings.Join(guards, "; "), val))
			return true
		case *ast.IfStmt:
			// if k.GetOrder() >= 1 { ... } else { ... }
			okc := false
			if be, ok := x.Cond.(*ast.BinaryExpr); ok && be.Op == token.GEQ && isFloatLit(be.Y, "1") {
				if rv, name, args, ok := selCall(be.X); ok && name == "GetOrder" && len(args) == 0 && c.opndIndex(rv) == 1 {
					okc = true
				}
			}
			els, isBlock := x.Else.(*ast.BlockStmt)
			if !okc || x.Init != nil || !isBlock {
				bad(c.fset, s, "branch outside the grammar")
			}
			saved := map[string]string{}
			for k, v := range c.env {
				saved[k] = v
			}
			r1 := c.walk(x.Body.List, append(append([]string{}, guards...), "GOrdY true"))
			c.env = saved
			r2 := c.walk(els.List, append(append([]string{}, guards...), "GOrdY false"))
			if !r1 || !r2 {
				bad(c.fset, s, "a branch does not return")
			}
			return true
		default:
			bad(c.fset, s, "statement outside the grammar")
		}
	}
	return false
}
func valuePaths(fset *token.FileSet, fd *ast.FuncDecl) (out string, err error) {
	defer func() {
		if r := recover(); r != nil {
			if u, ok := r.(unsupported); ok {
				err = fmt.Errorf("%s", u.msg)
				return
			}
			panic(r)
		}
	}()
	c := &vctx{fset: fset, env: map[string]string{}, recv: fd.Recv.List[0].Names[0].Name}
	for _, f := range fd.Type.Params.List {
		for _, n := range f.Names {
			c.opnd = append(c.opnd, n.Name)
		}
	}
	if !c.walk(fd.Body.List, nil) {
		bad(fset, fd, "method does not end in a return")
	}
	return "[" + strings.Join(c.paths, "; ") + "]", nil
}

var valueGeneric = []string{"Pow", "Sqrt", "Exp", "Log", "Log1p", "Sin", "Sinh", "Cos", "Cosh", "Tan", "Tanh", "Erf", "Erfc", "LogErfc", "Gamma"}
var valueConcrete = []string{"POW", "SQRT", "EXP", "LOG", "LOG1P"}

func expectedValue(name string, real bool) string {
	switch name {
	case "Pow", "POW":
		if real {
			return "V_Pow_real"
		}
		return "V_Pow_bare"
	case "Sqrt":
		return "V_Sqrt"
	case "SQRT":
		if real {
			return "V_SQRT_real"
		}
		return "V_SQRT_bare"
	case "LogErfc":
		return "V_un FLogErfc"
	case "EXP":
		return "V_un FExp"
	case "LOG":
		return "V_un FLog"
	case "LOG1P":
		return "V_un FLog1p"
	}
	return "V_un " + mathFn[name]
}

func typeString(e ast.Expr) string {
	switch x := e.(type) {
	case *ast.Ident:
		return x.Name
	case *ast.StarExpr:
		return "*" + typeString(x.X)
	case *ast.ArrayType:
		l := ""
		if b, ok := x.Len.(*ast.BasicLit); ok {
			l = b.Value
		}
		return "[" + l + "]" + typeString(x.Elt)
	}
	return "?"
}

func recvTypeName(fd *ast.FuncDecl) string {
	if fd.Recv == nil || len(fd.Recv.List) != 1 {
		return ""
	}
	return strings.TrimPrefix(typeString(fd.Recv.List[0].Type), "*")
}

func main() {
	repo := flag.String("repo", "/repo", "library source tree")
	out := flag.String("out", "gen_bodies.v", "Coq file to write")
	report := flag.String("report", "gen_bodies.json", "JSON report")
	flag.Parse()
	fset := token.NewFileSet()
	var defs, goals []string
	var errs []string
	translated := 0
	valued := 0
	for _, t := range types {
		for _, variant := range []struct {
			suffix string
			names  []string
		}{{"_math.go", generic}, {"_math_concrete.go", concrete}} {
			path := filepath.Join(*repo, "scalar_"+t.file+variant.suffix)
			f, err := parser.ParseFile(fset, path, nil, 0)
			if err != nil {
				errs = append(errs, fmt.Sprintf("%s: %v", filepath.Base(path), err))
				continue
			}
			found := map[string]*ast.FuncDecl{}
			for _, d := range f.Decls {
				if fd, ok := d.(*ast.FuncDecl); ok && recvTypeName(fd) == t.recv && fd.Body != nil {
					found[fd.Name.Name] = fd
				}
			}
			for _, name := range variant.names {
				fd, ok := found[name]
				if !ok {
					errs = append(errs, fmt.Sprintf("%s: method %s.%s not found", filepath.Base(path), t.recv, name))
					continue
				}
				body, err := translate(fset, fd)
				if err != nil {
					errs = append(errs, fmt.Sprintf("%s.%s: outside the grammar: %v", t.recv, name, err))
					continue
				}
				id := fmt.Sprintf("gen_%s_%s", name, t.recv)
				defs = append(defs, fmt.Sprintf("Definition %s : body :=\n  %s.", id, body))
				exp := expected[name]
				if strings.Contains(exp, "%s") {
					exp = fmt.Sprintf(exp, t.coq)
				}
				goals = append(goals, fmt.Sprintf("Goal %s = %s. Proof. reflexivity. Qed.   (* %s *)", id, exp, filepath.Base(path)))
				translated++
			}
			vnames := valueGeneric
			if variant.suffix == "_math_concrete.go" {
				vnames = valueConcrete
			}
			for _, name := range vnames {
				fd, ok := found[name]
				if !ok {
					errs = append(errs, fmt.Sprintf("%s: method %s.%s not found", filepath.Base(path), t.recv, name))
					continue
				}
				ps, err := valuePaths(fset, fd)
				if err != nil {
					errs = append(errs, fmt.Sprintf("%s.%s: value paths outside the grammar: %v", t.recv, name, err))
					continue
				}
				id := fmt.Sprintf("val_%s_%s", name, t.recv)
				defs = append(defs, fmt.Sprintf("Definition %s : vpaths := %s.", id, ps))
				goals = append(goals, fmt.Sprintf("Goal %s = %s. Proof. reflexivity. Qed.   (* %s *)", id, expectedValue(name, strings.HasPrefix(t.recv, "Real")), filepath.Base(path)))
				valued++
			}
		}
	}
	var sb strings.Builder
	sb.WriteString("(* GENERATED by go2coq_c02 from " + *repo + " — do not edit.  Every regenerated body must be the expected program of\n   coq/C02/Bodies.v for its receiver type; a failing `reflexivity` names the method and the file. *)\n")
	sb.WriteString("From Coq Require Import ZArith List.\nFrom ADV Require Import C02.Model C02.ModelSt C02.Bodies C02.Values.\nImport ListNotations.\nOpen Scope Z_scope.\n\n")
	sb.WriteString(strings.Join(defs, "\n") + "\n\n" + strings.Join(goals, "\n") + "\n")
	sb.WriteString("Definition M : list nat := [].\nPrint M.\n")
	if err := os.WriteFile(*out, []byte(sb.String()), 0644); err != nil {
		fmt.Fprintln(os.Stderr, err)
		os.Exit(2)
	}
	rep := map[string]interface{}{"ok": len(errs) == 0, "bodies_translated": translated, "expected": len(types) * (len(generic) + len(concrete)),
		"value_path_tables": valued, "value_path_tables_expected": len(types) * (len(valueGeneric) + len(valueConcrete)),
		"value_methods": append(append([]string{}, valueGeneric...), valueConcrete...),
		"errors": errs, "methods": append(append([]string{}, generic...), concrete...), "receiver_types": len(types)}
	b, _ := json.MarshalIndent(rep, "", " ")
	os.WriteFile(*report, b, 0644)
	fmt.Printf("go2coq_c02: %d bodies and %d value-path tables translated, %d errors\n", translated, valued, len(errs))
	for _, e := range errs {
		fmt.Println("  " + e)
	}
}
