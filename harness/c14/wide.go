// C14 harness, round 4: mixtures (statistics/generic/mixture.go through the scalar and vector wrappers),
// multivariate skew normal and the matrix families (inverse Wishart, normal-inverse-Wishart).  One WCase is
// one evaluation; its Coq proposition is about coq/C14/{MixModel,SkewModel,IWModel}.v (Corr2.v dispatches).
package main

import (
	"fmt"
	"math"
	"strings"

	. "adharness/common"

	ad "github.com/pbenner/autodiff"
	st "github.com/pbenner/autodiff/statistics"
	sd "github.com/pbenner/autodiff/statistics/scalarDistribution"
	vd "github.com/pbenner/autodiff/statistics/vectorDistribution"
)

type WCase struct {
	Kind string `json:"kind"` // Mix | VMix | Skew | IW | NIW
	// ---- mixtures
	W      []float64 `json:"w,omitempty"`
	Comp   []string  `json:"comp,omitempty"`
	Ps     []Params  `json:"ps,omitempty"`
	NEdist int       `json:"nedist,omitempty"` // emission distributions handed to the wrapper's constructor
	D      int       `json:"d,omitempty"`      // VMix: dimension of the ScalarIid components
	States []int     `json:"states,omitempty"`
	J      int       `json:"j,omitempty"`
	XS     float64   `json:"xs,omitempty"` // scalar evaluation point
	XV     []float64 `json:"xv,omitempty"` // vector evaluation point
	// logged: the components' own LogPdf at the point
	CompObs []Outcome `json:"compobs,omitempty"`
	// ---- skew normal / matrix families (skew.go, iw.go)
	Xi    []float64   `json:"xi,omitempty"`
	Omega [][]float64 `json:"omega,omitempty"`
	Alpha []float64   `json:"alpha,omitempty"`
	Scale []float64   `json:"scale,omitempty"`
	SInv  [][]float64 `json:"sinv,omitempty"`
	SDet  float64     `json:"sdet,omitempty"`
	Nu    float64     `json:"nu,omitempty"`
	Kappa float64     `json:"kappa,omitempty"`
	S     [][]float64 `json:"s,omitempty"`
	XM    [][]float64 `json:"xm,omitempty"`
	XInv  [][]float64 `json:"xinv,omitempty"`
	XDet  float64     `json:"xdet,omitempty"`
	PInv  [][]float64 `json:"pinv,omitempty"` // NIW: inverse / determinant of sigma / kappa as the inner normal has them
	PDet  float64     `json:"pdet,omitempty"`
	Mlg   float64     `json:"mlg,omitempty"`
	LE    [][2]float64 `json:"le,omitempty"` // logged (argument, value) pairs of special.LogErfc
	Clone bool        `json:"clone,omitempty"`
	Pdf   bool        `json:"pdf,omitempty"` // skew normal / matrix families: the Pdf method instead of LogPdf
	// ---- parameter layout of composite distributions (param.go)
	Level   int    `json:"level,omitempty"` // 0 scalar, 1 vector, 2 matrix
	NR      int    `json:"nr,omitempty"`
	Tree    *PTree `json:"tree,omitempty"`   // spec handed to the constructors (W = weights)
	Target  *PTree `json:"target,omitempty"` // what p was assembled from (W = log-weights)
	Mode    string `json:"mode,omitempty"`   // set | roundtrip | roundtrip-clone
	PV      []XF   `json:"pv,omitempty"`
	BadLeaf bool   `json:"badleaf,omitempty"`
	Extra   int    `json:"extra,omitempty"`
	Short   bool   `json:"short,omitempty"`
	Pre     *PTree `json:"pre,omitempty"` // logged
	Post    *PTree `json:"post,omitempty"`
	G0      []XF   `json:"g0,omitempty"`
	G1      []XF   `json:"g1,omitempty"`
	PUsed   []XF   `json:"pused,omitempty"`
	hadDiff float64 // hunt: (tr(S X^-1) - sum_i S_ii X^-1_ii) / 2
}

// ---------------------------------------------------------------------------- mixtures

var mixFams = []string{"FNormal", "FExponential", "FLaplace", "FGamma", "FCauchy", "FPareto", "FPowerLaw", "FGPareto", "FPoisson"}
var mixHalfLine = []string{"FExponential", "FGamma", "FPareto", "FPowerLaw"}

func mixBuild(t ad.ScalarType, c *WCase) (interface{}, []interface{}, error) {
	w := vecOf(t, c.W)
	var comps []interface{}
	if c.Kind == "Mix" {
		var ed []st.ScalarPdf
		for i, name := range c.Comp {
			d, err := famByName(name).New(t, c.Ps[i])
			if err != nil || d == nil {
				return nil, nil, fmt.Errorf("component ctor")
			}
			ed = append(ed, d.(st.ScalarPdf))
			comps = append(comps, d)
		}
		m, err := sd.NewMixture(w, ed[:c.NEdist])
		if err != nil {
			return nil, comps, err
		}
		return m, comps, nil
	}
	var ed []st.VectorPdf
	for i, name := range c.Comp {
		d, err := famByName(name).New(t, c.Ps[i])
		if err != nil || d == nil {
			return nil, nil, fmt.Errorf("component ctor")
		}
		v, err := vd.NewScalarIid(d.(st.ScalarPdf), c.D)
		if err != nil {
			return nil, nil, err
		}
		ed = append(ed, v)
		comps = append(comps, v)
	}
	m, err := vd.NewMixture(w, ed[:c.NEdist])
	if err != nil {
		return nil, comps, err
	}
	return m, comps, nil
}

func compCall(c *WCase, d interface{}, r ad.Scalar) (out Outcome) {
	defer func() {
		if e := recover(); e != nil {
			out = Outcome{"panic", 0}
		}
	}()
	var err error
	if c.Kind == "Mix" {
		err = d.(st.ScalarPdf).LogPdf(r, ad.ConstFloat64(c.XS))
	} else {
		err = d.(st.VectorPdf).LogPdf(r, vecOf(ad.Float64Type, c.XV))
	}
	if err != nil {
		return Outcome{"err", 0}
	}
	return classify(r.GetFloat64())
}

type mixI interface {
	GetParameters() ad.Vector
}

func mixCall(c *WCase, m interface{}, fn string, r ad.Scalar) (out Outcome) {
	defer func() {
		if e := recover(); e != nil {
			out = Outcome{"panic", 0}
		}
	}()
	var err error
	switch mm := m.(type) {
	case *sd.Mixture:
		x := ad.ConstFloat64(c.XS)
		switch fn {
		case "LogPdf":
			err = mm.LogPdf(r, x)
		case "Posterior":
			err = mm.Posterior(r, x, c.States)
		case "Likelihood":
			err = mm.Likelihood(r, x, c.States)
		case "LogWeights":
			r.Set(mm.Mixture.GetParameters().At(c.J))
		}
	case *vd.Mixture:
		x := vecOf(ad.Float64Type, c.XV)
		switch fn {
		case "LogPdf":
			err = mm.LogPdf(r, x)
		case "Posterior":
			err = mm.Posterior(r, x, c.States)
		case "Likelihood":
			err = mm.Likelihood(r, x, c.States)
		case "LogWeights":
			r.Set(mm.Mixture.GetParameters().At(c.J))
		}
	}
	if err != nil {
		return Outcome{"err", 0}
	}
	return classify(r.GetFloat64())
}

// Float64 / Real64 parameters x two previous contents of the result register x (original, clone)
func mixEvalAll(c *WCase, fn string) (Outcome, string) {
	var first Outcome
	incons := ""
	k := 0
	for _, t := range []ad.ScalarType{ad.Float64Type, ad.Real64Type} {
		for _, r0 := range []float64{0.0, 7.25} {
			var o Outcome
			func() {
				defer func() {
					if e := recover(); e != nil {
						o = Outcome{"panic", 0}
					}
				}()
				m, comps, err := mixBuild(t, c)
				if k == 0 {
					c.CompObs = nil
					for _, d := range comps {
						c.CompObs = append(c.CompObs, compCall(c, d, ad.NewReal64(1.5)))
					}
				}
				if err != nil || m == nil {
					o = Outcome{"ctorerr", 0}
					return
				}
				if r0 != 0 { // the clone must answer like the original
					switch mm := m.(type) {
					case *sd.Mixture:
						m = mm.Clone()
					case *vd.Mixture:
						m = mm.Clone()
					}
				}
				o = mixCall(c, m, fn, ad.NewScalar(ad.Real64Type, r0))
			}()
			if k == 0 {
				first = o
			} else if !sameOutcome(first, o) {
				incons = "mixture outcome depends on parameter scalar type, on the previous content of the result register or on original vs clone"
			}
			k++
		}
	}
	return first, incons
}

func genMixCase(k int, r *Rng) (WCase, string) {
	c := WCase{Kind: "Mix"}
	if k%3 == 2 {
		c.Kind = "VMix"
		c.D = 1 + (k/3)%2
	}
	n := 1 + r.Intn(4)
	fams := mixFams
	allOut := r.Intn(6) == 0 // every component returns -Inf
	if allOut {
		fams = mixHalfLine
	}
	for i := 0; i < n; i++ {
		f := famByName(fams[r.Intn(len(fams))])
		if c.Kind == "VMix" && f.Discrete {
			f = famByName("FNormal")
		}
		c.Comp = append(c.Comp, f.Name)
		c.Ps = append(c.Ps, f.Valid(r))
		w := float64(r.Range(1, 24)) / 8 // unnormalised dyadic weights
		if r.Intn(6) == 0 {
			w = 0
		}
		c.W = append(c.W, w)
	}
	c.NEdist = n
	switch r.Intn(24) {
	case 0:
		c.W[r.Intn(n)] = -0.125 // rejected
	case 1:
		for i := range c.W { // accepted: every stored log-weight is NaN (F-C14-MIXTURE-ZERO-WEIGHTS)
			c.W[i] = 0
		}
	case 2:
		c.W = append(c.W, 1) // numbers of weights and emission distributions differ
	}
	i0 := r.Intn(n)
	c.XS = famByName(c.Comp[i0]).X(r, c.Ps[i0])
	if allOut {
		c.XS = -float64(r.Range(1, 32)) / 8
	}
	if c.Kind == "VMix" {
		for i := 0; i < c.D; i++ {
			c.XV = append(c.XV, c.XS+float64(i)/4)
		}
		if r.Intn(12) == 0 {
			c.XV = append(c.XV, 1) // dimension error of every component
		}
	}
	fn := "LogPdf"
	switch r.Intn(10) {
	case 0, 1:
		fn = "Posterior"
	case 2:
		fn = "Likelihood"
	case 3:
		fn = "LogWeights"
		c.J = r.Intn(len(c.W))
	}
	if fn == "Posterior" || fn == "Likelihood" {
		ns := 1 + r.Intn(3)
		for i := 0; i < ns; i++ {
			c.States = append(c.States, r.Intn(len(c.W)))
		}
		if r.Intn(8) == 0 {
			c.States = append(c.States, []int{-1, len(c.W), len(c.W) + 2}[r.Intn(3)])
		}
		if r.Intn(8) == 0 {
			c.States = nil
		}
	}
	return c, fn
}

func resCoq(o Outcome) string {
	switch o.Kind {
	case "val":
		return "Val (Fin " + RL(o.V) + ")"
	case "ninf":
		return "Val NInf"
	case "pinf":
		return "Val PInf"
	case "nan":
		return "Val NaN"
	case "err":
		return "ErrInt"
	}
	return "Panic"
}

func zlist(xs []int) string {
	s := make([]string, len(xs))
	for i, x := range xs {
		s[i] = fmt.Sprintf("(%d)%%Z", x)
	}
	return "[" + strings.Join(s, "; ") + "]"
}

func mixCaseCoq(c WCase, fn string, o Outcome) string {
	comps := make([]string, 0, len(c.CompObs))
	for i := 0; i < c.NEdist && i < len(c.CompObs); i++ {
		comps = append(comps, resCoq(c.CompObs[i]))
	}
	g := "MLogPdf"
	switch fn {
	case "Posterior":
		g = "(MPosterior " + zlist(c.States) + ")"
	case "Likelihood":
		g = "(MLikelihood " + zlist(c.States) + ")"
	case "LogWeights":
		g = fmt.Sprintf("(MLogWeights %d)", c.J)
	}
	obs := obsCoq(&Fam{}, o)
	if o.Kind == "err" {
		// the first failing step in the order of the loop: a state out of range, or a component's own error
		obs = "OErrInt"
		if fn == "Posterior" || fn == "Likelihood" {
			for _, j := range c.States {
				if j < 0 || j >= len(c.W) {
					obs = "OErrDim"
					break
				}
				if j < len(c.CompObs) && c.CompObs[j].Kind == "err" {
					break
				}
			}
		}
	}
	return fmt.Sprintf("(agrees (mix_eval %s [%s] %s) %s)", RList(c.W), strings.Join(comps, "; "), g, obs)
}

// ---- property oracle (hunt): ln sum_j (w_j / W) p_j from the reference densities of hunt.go ---------------
func refMix(c WCase, fn string) (float64, bool) {
	W := 0.0
	for _, w := range c.W {
		if w < 0 {
			return 0, false
		}
		W += w
	}
	if W == 0 || len(c.W) != len(c.Comp) {
		return 0, false
	}
	lp := make([]float64, len(c.Comp))
	for j, name := range c.Comp {
		f := famByName(name)
		if c.Kind == "Mix" {
			if f.Discrete && !isInt(c.XS) {
				return 0, false
			}
			lp[j] = refLogPdf(name, c.Ps[j], c.XS)
		} else {
			if len(c.XV) != c.D {
				return 0, false
			}
			for _, x := range c.XV {
				lp[j] += refLogPdf(name, c.Ps[j], x)
			}
		}
		if math.IsNaN(lp[j]) {
			return 0, false
		}
	}
	lse := func(idx []int, withP bool) float64 {
		m := math.Inf(-1)
		ts := make([]float64, len(idx))
		for k, j := range idx {
			ts[k] = math.Log(c.W[j] / W)
			if withP {
				ts[k] += lp[j]
			}
			m = math.Max(m, ts[k])
		}
		if math.IsInf(m, -1) {
			return m
		}
		s := 0.0
		for _, t := range ts {
			s += math.Exp(t - m)
		}
		return m + math.Log(s)
	}
	all := make([]int, len(c.W))
	for j := range all {
		all[j] = j
	}
	switch fn {
	case "LogPdf":
		return lse(all, true), true
	case "LogWeights":
		return math.Log(c.W[c.J] / W), true
	}
	for _, j := range c.States {
		if j < 0 || j >= len(c.W) {
			return 0, false
		}
	}
	num := lse(c.States, true)
	den := lse(all, true)
	if fn == "Likelihood" {
		den = lse(c.States, false)
	}
	if math.IsInf(den, -1) {
		return 0, false // conditional probability given an event of probability zero: undefined
	}
	return num - den, true
}

func wFailure(c WCase, kind, fn, obs, exp string) Failure {
	cc := c
	return Failure{Fam: "W" + c.Kind, Kind: kind, Fn: fn, P: Params{}, X: 0, Observed: obs, Expected: exp, W: &cc}
}

func mixCheck(c WCase, fn string, report func(Failure), tried *int) {
	*tried++
	o, inc := mixEvalAll(&c, fn)
	if inc != "" {
		report(wFailure(c, "consistency", fn, inc, "identical outcomes"))
	}
	ref, ok := refMix(c, fn)
	allZero := len(c.W) > 0
	for _, w := range c.W {
		if w != 0 {
			allZero = false
		}
	}
	if allZero && o.Kind != "ctorerr" {
		report(wFailure(c, "ctor-accepts-invalid", "New", "accepted", "error (all weights are zero)"))
		return
	}
	if !ok || o.Kind == "ctorerr" {
		return
	}
	v := num(o)
	if !(v == ref || (!math.IsInf(ref, 0) && math.Abs(v-ref) <= 1e-9*math.Max(1, math.Abs(ref)))) {
		kind := "formula"
		if math.IsInf(ref, -1) {
			kind = "support"
		}
		report(wFailure(c, kind, fn, fmt.Sprintf("%s %v", o.Kind, o.V), fmt.Sprintf("%v", ref)))
	}
}

func wideHunt(o Opts, report func(Failure), tried *int) {
	rng := NewRng(o.Seed*1000003 + 271)
	for k := 0; k < 12*o.N/4+24; k++ {
		c, fn := genMixCase(k, rng.Split())
		mixCheck(c, fn, report, tried)
	}
	skewHunt(o, report, tried)
	iwHunt(o, report, tried)
	parHunt(o, report, tried)
}

// one case of the wide stream: mixtures, skew normal, matrix families in turn
func genWCase(k int, r *Rng) Case {
	var w WCase
	fn := "LogPdf"
	switch k % 4 {
	case 0, 1:
		w, fn = genMixCase(k/4*2+k%4, r)
	case 2:
		w = genSkewCase(k/4, r)
	default:
		w = genIWCase(k/4, r)
	}
	if (w.Kind == "Skew" || w.Kind == "IW" || w.Kind == "NIW") && (k/4)%3 == 2 {
		w.Pdf, fn = true, "Pdf" // round 6: the Pdf methods of the skew normal and the matrix families
	}
	o, inc := wEvalAll(&w, fn)
	valid := "valid-params:"
	if o.Kind == "ctorerr" {
		valid = "invalid-params:"
	}
	return Case{Fam: "W" + w.Kind, Fn: fn, Obs: o, Incons: inc, Class: valid + o.Kind, W: &w}
}

// ---- dispatch ------------------------------------------------------------------------------------------
func wEvalAll(c *WCase, fn string) (Outcome, string) {
	switch c.Kind {
	case "Mix", "VMix":
		return mixEvalAll(c, fn)
	case "Skew":
		return skewEvalAll(c)
	case "Par":
		return parEvalAll(c)
	}
	return iwEvalAll(c)
}
func wCaseCoq(c WCase, fn string, o Outcome) string {
	switch c.Kind {
	case "Mix", "VMix":
		return mixCaseCoq(c, fn, o)
	case "Skew":
		return skewCaseCoq(c, o)
	case "Par":
		return parCaseCoq(c, o)
	}
	return iwCaseCoq(c, o)
}
func wCheck(c WCase, fn string, report func(Failure), tried *int) {
	switch c.Kind {
	case "Mix", "VMix":
		mixCheck(c, fn, report, tried)
	case "Skew":
		skewCheck(c, report, tried)
	case "Par":
		parCheck(c, report, tried)
	default:
		iwCheck(c, report, tried)
	}
}
