// C14 mutator histories of the vector / matrix families whose constructors cache an inverse,
// a determinant or a normaliser computed from a matrix parameter (vector normal, multivariate t,
// skew normal, inverse Wishart, normal-inverse-Wishart).  Hunt only (property oracle on the
// implementation): after any sequence of SetParameters / Clone / GetParameters->SetParameters the
// object must be indistinguishable from a fresh twin built from the parameters it reports (exported
// fields), copies set aside at a Clone must not move, and neither scribbling on the vector that was
// handed to SetParameters nor on the vector GetParameters returned may change the distribution
// (its cached inverse / determinant / normaliser would no longer belong to its parameters).
package main

import (
	"fmt"

	. "adharness/common"

	ad "github.com/pbenner/autodiff"
	md "github.com/pbenner/autodiff/statistics/matrixDistribution"
	vd "github.com/pbenner/autodiff/statistics/vectorDistribution"
)

type vhObj interface {
	GetParameters() ad.Vector
	SetParameters(ad.Vector) error
}

type vhFam struct {
	name  string
	newR  func(r *Rng, t ad.ScalarType, n int) (vhObj, error)
	setv  func(r *Rng, n int) []float64             // a fresh valid parameter vector in SetParameters layout
	twin  func(o vhObj) (vhObj, error)              // fresh object from the reported (exported) parameters
	clone func(o vhObj) vhObj
	probe func(o vhObj, n int) []Outcome
	getset bool
}

func flat(a [][]float64) []float64 {
	var r []float64
	for _, row := range a {
		r = append(r, row...)
	}
	return r
}

func gVec(r *Rng, n int) []float64 {
	v := make([]float64, n)
	for i := range v {
		v[i] = gLoc(r)
	}
	return v
}
func gPosVec(r *Rng, n int) []float64 {
	v := make([]float64, n)
	for i := range v {
		v[i] = float64(r.Range(1, 16)) / 4
	}
	return v
}

var vhXs = [][]float64{{0.5, -1.25, 2, 0.75}, {-2, 0.25, 1.5, -0.5}, {3.5, 3, -3, 1}}

func vprobe(lp func(r ad.Scalar, x ad.Vector) error, n int) []Outcome {
	var out []Outcome
	for _, x := range vhXs {
		o := func() (o Outcome) {
			defer func() {
				if e := recover(); e != nil {
					o = Outcome{"panic", 0}
				}
			}()
			r := ad.NewReal64(0.75)
			if err := lp(r, vecOf(ad.Float64Type, x[:n])); err != nil {
				return Outcome{"err", 0}
			}
			return classify(r.GetFloat64())
		}()
		out = append(out, o)
	}
	return out
}

var vhMs = [][][]float64{{{2, 0.5, 0.25}, {0.5, 1.5, -0.25}, {0.25, -0.25, 1}}, {{1, -0.5, 0}, {-0.5, 3, 0.5}, {0, 0.5, 2}}}

func sub(a [][]float64, n int) [][]float64 {
	r := make([][]float64, n)
	for i := range r {
		r[i] = a[i][:n]
	}
	return r
}

var vhFams []vhFam

func init() {
	// (filled here so that the method values above can be replaced by plain closures)
	vhFams = []vhFam{
		{name: "VNormal", getset: true,
			newR: func(r *Rng, t ad.ScalarType, n int) (vhObj, error) {
				return vd.NewNormalDistribution(vecOf(t, gVec(r, n)), matOf(t, gSPD(r, n)))
			},
			setv: func(r *Rng, n int) []float64 { return append(gVec(r, n), flat(gSPD(r, n))...) },
			twin: func(o vhObj) (vhObj, error) {
				d := o.(*vd.NormalDistribution)
				return vd.NewNormalDistribution(d.Mu.CloneVector(), d.Sigma.CloneMatrix())
			},
			clone: func(o vhObj) vhObj { return o.(*vd.NormalDistribution).Clone() },
			probe: func(o vhObj, n int) []Outcome {
				d := o.(*vd.NormalDistribution)
				return vprobe(func(r ad.Scalar, x ad.Vector) error { return d.LogPdf(r, x) }, n)
			}},
		{name: "VT", getset: false, // GetParameters omits nu: F-C14-T-PARAMS
			newR: func(r *Rng, t ad.ScalarType, n int) (vhObj, error) {
				return vd.NewTDistribution(sc(t, float64(r.Range(1, 12))/2), vecOf(t, gVec(r, n)), matOf(t, gSPD(r, n)))
			},
			setv: func(r *Rng, n int) []float64 {
				return append(append([]float64{float64(r.Range(1, 12)) / 2}, gVec(r, n)...), flat(gSPD(r, n))...)
			},
			twin: func(o vhObj) (vhObj, error) {
				d := o.(*vd.TDistribution)
				return vd.NewTDistribution(d.Nu.CloneScalar(), d.Mu.CloneVector(), d.Sigma.CloneMatrix())
			},
			clone: func(o vhObj) vhObj { return o.(*vd.TDistribution).Clone() },
			probe: func(o vhObj, n int) []Outcome {
				d := o.(*vd.TDistribution)
				return vprobe(func(r ad.Scalar, x ad.Vector) error { return d.LogPdf(r, x) }, n)
			}},
		{name: "VSkewNormal", getset: true,
			newR: func(r *Rng, t ad.ScalarType, n int) (vhObj, error) {
				return vd.NewSkewNormalDistribution(vecOf(t, gVec(r, n)), matOf(t, gSPD(r, n)), vecOf(t, gVec(r, n)), vecOf(t, gPosVec(r, n)))
			},
			setv: func(r *Rng, n int) []float64 {
				return append(append(append(gVec(r, n), flat(gSPD(r, n))...), gVec(r, n)...), gPosVec(r, n)...)
			},
			twin: func(o vhObj) (vhObj, error) {
				d := o.(*vd.SkewNormalDistribution)
				return vd.NewSkewNormalDistribution(d.Xi.CloneVector(), d.Omega.CloneMatrix(), d.Alpha.CloneVector(), d.Scale.CloneVector())
			},
			clone: func(o vhObj) vhObj { return o.(*vd.SkewNormalDistribution).Clone() },
			probe: func(o vhObj, n int) []Outcome {
				d := o.(*vd.SkewNormalDistribution)
				return vprobe(func(r ad.Scalar, x ad.Vector) error { return d.LogPdf(r, x) }, n)
			}},
		{name: "MInverseWishart", getset: true,
			newR: func(r *Rng, t ad.ScalarType, n int) (vhObj, error) {
				return md.NewInverseWishartDistribution(sc(t, float64(n)+float64(r.Range(0, 12))/2), matOf(t, gSPD(r, n)))
			},
			setv: func(r *Rng, n int) []float64 {
				return append(flat(gSPD(r, n)), float64(n)+float64(r.Range(0, 12))/2)
			},
			twin: func(o vhObj) (vhObj, error) {
				d := o.(*md.InverseWishartDistribution)
				return md.NewInverseWishartDistribution(d.Nu.CloneScalar(), d.S.CloneMatrix())
			},
			clone: func(o vhObj) vhObj { return o.(*md.InverseWishartDistribution).Clone() },
			probe: func(o vhObj, n int) []Outcome {
				d := o.(*md.InverseWishartDistribution)
				var out []Outcome
				for _, m := range vhMs {
					o := func() (o Outcome) {
						defer func() {
							if e := recover(); e != nil {
								o = Outcome{"panic", 0}
							}
						}()
						r := ad.NewReal64(0.75)
						if err := d.LogPdf(r, matOf(ad.Float64Type, sub(m, n))); err != nil {
							return Outcome{"err", 0}
						}
						return classify(r.GetFloat64())
					}()
					out = append(out, o)
				}
				return out
			}},
		{name: "MNormalIWishart", getset: true,
			newR: func(r *Rng, t ad.ScalarType, n int) (vhObj, error) {
				return md.NewNormalIWishartDistribution(sc(t, float64(r.Range(1, 8))/2), sc(t, float64(n)+float64(r.Range(0, 12))/2),
					vecOf(t, gVec(r, n)), matOf(t, gSPD(r, n)))
			},
			setv: func(r *Rng, n int) []float64 {
				return append(append([]float64{float64(r.Range(1, 8)) / 2, float64(n) + float64(r.Range(0, 12))/2}, gVec(r, n)...), flat(gSPD(r, n))...)
			},
			twin: func(o vhObj) (vhObj, error) {
				d := o.(*md.NormalIWishartDistribution)
				return md.NewNormalIWishartDistribution(d.Kappa.CloneScalar(), d.Nu.CloneScalar(), d.Mu.CloneVector(), d.S.CloneMatrix())
			},
			clone: func(o vhObj) vhObj { return o.(*md.NormalIWishartDistribution).Clone() },
			probe: func(o vhObj, n int) []Outcome {
				d := o.(*md.NormalIWishartDistribution)
				var out []Outcome
				for i, m := range vhMs {
					o := func() (o Outcome) {
						defer func() {
							if e := recover(); e != nil {
								o = Outcome{"panic", 0}
							}
						}()
						r := ad.NewReal64(0.75)
						if err := d.LogPdf(r, vecOf(ad.Float64Type, vhXs[i][:n]), matOf(ad.Float64Type, sub(m, n))); err != nil {
							return Outcome{"err", 0}
						}
						return classify(r.GetFloat64())
					}()
					out = append(out, o)
				}
				return out
			}},
	}
}

type vhOp struct {
	K string
	P []float64
}

func (o vhOp) String() string {
	switch o.K {
	case "set":
		return fmt.Sprintf("SetParameters(%v)", o.P)
	case "setmod":
		return fmt.Sprintf("p := %v; SetParameters(p); p[i] += 1 for all i", o.P)
	case "getmod":
		return "p := GetParameters(); p[i] += 1 for all i"
	case "clone":
		return "d = d.Clone() (original kept aside)"
	case "clonekeep":
		return "d.Clone() kept aside"
	case "getset":
		return "SetParameters(GetParameters())"
	}
	return o.K
}

func scribble(v ad.Vector) {
	for i := 0; i < v.Dim(); i++ {
		v.At(i).SetFloat64(v.At(i).GetFloat64() + 1)
	}
}

type vhKept struct {
	o    vhObj
	vals []Outcome
	what string
}

// runs one history; returns the failures (kind, observed, expected)
func vhRun(f *vhFam, t ad.ScalarType, n int, seed uint64, ops []vhOp) (fails [][3]string) {
	defer func() {
		if e := recover(); e != nil {
			fails = append(fails, [3]string{"history-panic", fmt.Sprintf("panic: %v", e), "no panic"})
		}
	}()
	o, err := f.newR(NewRng(seed), t, n)
	if err != nil || o == nil {
		return nil
	}
	var kept []vhKept
	diff := func(a, b []Outcome) (int, bool) { return outcomesAgree(a, b, 0) }
	for _, op := range ops {
		switch op.K {
		case "set", "setmod":
			v := vecOf(t, op.P)
			err := o.SetParameters(v)
			if !sameBits(floatsOf(v), op.P) {
				fails = append(fails, [3]string{"history-set-arg", fmt.Sprintf("argument after the call %v", floatsOf(v)), fmt.Sprintf("%v", op.P)})
			}
			if op.K == "setmod" && err == nil {
				before := f.probe(o, n)
				scribble(v)
				if i, ok := diff(f.probe(o, n), before); !ok {
					fails = append(fails, [3]string{"history-arg-alias", fmt.Sprintf("LogPdf at probe %d changed when the caller modified the vector it had passed to SetParameters", i), "unchanged: " + fmt.Sprint(before[i])})
				}
			}
		case "getmod":
			before := f.probe(o, n)
			p := o.GetParameters()
			scribble(p)
			if i, ok := diff(f.probe(o, n), before); !ok {
				fails = append(fails, [3]string{"history-get-alias", fmt.Sprintf("LogPdf at probe %d changed when the caller modified the vector GetParameters returned", i), "unchanged: " + fmt.Sprint(before[i])})
			}
		case "clone":
			c := f.clone(o)
			kept = append(kept, vhKept{o, f.probe(o, n), "the original (its clone was mutated)"})
			o = c
		case "clonekeep":
			c := f.clone(o)
			kept = append(kept, vhKept{c, f.probe(o, n), "a clone (its original was mutated)"})
		case "getset":
			o.SetParameters(o.GetParameters())
		}
	}
	tw, err := f.twin(o)
	if err != nil || tw == nil {
		fails = append(fails, [3]string{"history-twin", "the constructor rejects the reported parameters", "accepted"})
		return
	}
	a, b := f.probe(o, n), f.probe(tw, n)
	if i, ok := diff(a, b); !ok {
		fails = append(fails, [3]string{"history-twin", fmt.Sprintf("%s %v at probe %d after the history", a[i].Kind, a[i].V, i),
			fmt.Sprintf("%s %v = fresh distribution with the reported parameters", b[i].Kind, b[i].V)})
	}
	for _, k := range kept {
		if i, ok := diff(f.probe(k.o, n), k.vals); !ok {
			fails = append(fails, [3]string{"history-alias", fmt.Sprintf("LogPdf at probe %d of %s moved", i, k.what), fmt.Sprint(k.vals[i])})
		}
	}
	return
}

func vhistHunt(o Opts, report func(Failure), tried *int) {
	if o.N == 0 {
		return
	}
	rng := NewRng(o.Seed*1000003 + 911)
	rounds := 6 + o.N/4
	for round := 0; round < rounds; round++ {
		for fi := range vhFams {
			f := &vhFams[fi]
			r := rng.Split()
			n := 1 + round%3
			t := ad.Real64Type
			if round%2 == 1 {
				t = ad.Float64Type
			}
			var ops []vhOp
			for k, m := 0, r.Range(1, 4); k < m; k++ {
				switch r.Intn(7) {
				case 0, 1:
					ops = append(ops, vhOp{"set", f.setv(r, n)})
				case 2:
					ops = append(ops, vhOp{"setmod", f.setv(r, n)})
				case 3:
					ops = append(ops, vhOp{K: "getmod"})
				case 4:
					ops = append(ops, vhOp{K: "clone"})
				case 5:
					ops = append(ops, vhOp{K: "clonekeep"})
				case 6:
					if f.getset {
						ops = append(ops, vhOp{K: "getset"})
					}
				}
			}
			seed := r.U64()
			*tried++
			seen := map[string]bool{}
			for _, fl := range vhRun(f, t, n, seed, ops) {
				if seen[fl[0]] {
					continue
				}
				seen[fl[0]] = true
				cur, best := ops, fl
				for changed := true; changed; {
					changed = false
					for i := range cur {
						cand := append(append([]vhOp{}, cur[:i]...), cur[i+1:]...)
						for _, g := range vhRun(f, t, n, seed, cand) {
							if g[0] == fl[0] {
								cur, best, changed = cand, g, true
								break
							}
						}
						if changed {
							break
						}
					}
				}
				hs := ""
				for i, op := range cur {
					if i > 0 {
						hs += "; "
					}
					hs += op.String()
				}
				report(Failure{Fam: f.name, Kind: best[0], Fn: "LogPdf", P: Params{[]float64{float64(n)}, nil}, X: 0,
					Observed: best[1], Expected: best[2] + fmt.Sprintf(" [dimension %d, %v parameters, history: %s]", n, t, hs)})
			}
		}
	}
}
