// C14 harness: runs LogPdf / LogCdf / Cdf / Pdf of every scalar distribution family of
// /repo on generated (parameters, evaluation point) pairs and writes, per case,
// a Coq proposition about the R model (coq/C14/Model.v) to be certified by
// Coq-Interval (coq/C14/Corr.v).  `--extra hunt` runs the property oracle on
// the implementation instead (hunt.go).
package main

import (
	"encoding/json"
	"fmt"
	"math"
	"math/big"
	"os"
	"path/filepath"
	"sort"
	"strings"

	. "adharness/common"

	ad "github.com/pbenner/autodiff"
	"github.com/pbenner/autodiff/special"
)

type Case struct {
	Fam    string       `json:"fam"`
	Fn     string       `json:"fn"`
	P      Params       `json:"p"`
	X      float64      `json:"x"`
	Obs    Outcome      `json:"obs"`
	Incons string       `json:"incons,omitempty"`
	Class  string       `json:"class"`
	V      *VCase       `json:"v,omitempty"` // vector families (vector.go)
	Ops    []HOp        `json:"ops,omitempty"` // mutator history between constructor and method (hist.go)
	FP     *Params      `json:"fp,omitempty"`  // parameters reported after the history
	W      *WCase       `json:"w,omitempty"`   // mixtures, skew normal, matrix families (wide.go)
}

func specialGammaP(a, x float64) float64 { return special.GammaP(a, x) }

// ---- Coq real literals --------------------------------------------------------

// exact rational m/d of a finite float64
func ratOf(x float64) (*big.Int, *big.Int) {
	r := new(big.Rat)
	r.SetFloat64(x)
	return r.Num(), r.Denom()
}

// RL prints a finite float64 as an exact Coq real literal
func RL(x float64) string {
	if x == math.Trunc(x) && math.Abs(x) < 1e15 {
		k := int64(x)
		if k < 0 {
			return fmt.Sprintf("(%d)", k)
		}
		return fmt.Sprintf("%d", k)
	}
	m, d := ratOf(x)
	return fmt.Sprintf("(%s / %s)", m.String(), d.String())
}

// RX prints an evaluation point; discrete families get IZR k / IZR k + 1/2 forms
func RX(x float64, discrete bool) string {
	if !discrete {
		return RL(x)
	}
	fl := math.Floor(x)
	if fl == x {
		return fmt.Sprintf("(IZR (%d))", int64(x))
	}
	if x-fl == 0.5 {
		return fmt.Sprintf("(IZR (%d) + 1 / 2)", int64(fl))
	}
	return RL(x)
}

func RList(xs []float64) string {
	s := make([]string, len(xs))
	for i, x := range xs {
		s[i] = RL(x)
	}
	return "[" + strings.Join(s, "; ") + "]"
}
func ZList64(xs []int64) string {
	s := make([]string, len(xs))
	for i, x := range xs {
		s[i] = fmt.Sprintf("(%d)%%Z", x)
	}
	return "[" + strings.Join(s, "; ") + "]"
}

const tolBits = 32

func obsCoq(f *Fam, o Outcome) string {
	switch o.Kind {
	case "val":
		t := math.Ceil(math.Max(1, math.Abs(o.V)))
		return fmt.Sprintf("(OVal %s (%s / %d))", RL(o.V), RL(t), int64(1)<<tolBits)
	case "pinf":
		return "OPInf"
	case "ninf":
		return "ONInf"
	case "nan":
		return "ONaN"
	case "err":
		if f.ErrKind != "" {
			return f.ErrKind
		}
		return "OErrInt"
	case "panic":
		return "OPanic"
	case "ctorerr":
		return "OCtorErr"
	}
	return "OPanic"
}

// the proposition certified for one case
func caseCoq(f *Fam, c Case) string {
	if c.V != nil {
		return vcaseCoq(c.Fam, *c.V, c.Obs)
	}
	if c.W != nil {
		if c.W.Kind == "Par" {
			return "@P" + wCaseCoq(*c.W, c.Fn, c.Obs)
		}
		return "@W" + wCaseCoq(*c.W, c.Fn, c.Obs)
	}
	var hyps []string
	seen := map[string]bool{}
	hp := c.P // the parameters the special functions are called with: after a history, the final ones
	if c.FP != nil {
		hp = *c.FP
	}
	if c.Obs.Kind != "ctorerr" {
		if f.Lg != nil {
			for _, a := range f.Lg(hp, c.X, sfFn(c.Fn)) {
				v := lgammaGo(a)
				if math.IsNaN(v) || math.IsInf(v, 0) || math.IsNaN(a) {
					continue
				}
				h := fmt.Sprintf("at1 lgam %s %s", RL(a), RL(v))
				if !seen[h] {
					seen[h] = true
					hyps = append(hyps, h)
				}
			}
		}
		if f.Gp != nil {
			for _, ab := range f.Gp(hp, c.X, sfFn(c.Fn)) {
				v := special.GammaP(ab[0], ab[1])
				if math.IsNaN(v) || math.IsInf(v, 0) {
					continue
				}
				hyps = append(hyps, fmt.Sprintf("at2 gamP %s %s %s", RL(ab[0]), RL(ab[1]), RL(v)))
			}
		}
		if f.Le != nil {
			for _, a := range f.Le(hp, c.X, sfFn(c.Fn)) {
				v := special.LogErfc(a)
				if math.IsNaN(v) || math.IsInf(v, 0) {
					continue
				}
				// the argument is irrational in the R model (division by sqrt 2): the logged
				// value is assumed on a 2^-40 neighbourhood of the binary64 argument
				hyps = append(hyps, fmt.Sprintf("near1 lerfc %s (%s / %d) %s (%s / %d)", RL(a),
					RL(math.Ceil(math.Max(1, math.Abs(a)))), int64(1)<<40, RL(v),
					RL(math.Ceil(math.Max(1, math.Abs(v)))), int64(1)<<40))
			}
		}
	}
	var sb strings.Builder
	if c.Ops != nil {
		sb.WriteString("@H")
	}
	sb.WriteString("(forall lgam lerfc gamP, ")
	for _, h := range hyps {
		sb.WriteString(h + " -> ")
	}
	if c.Ops != nil {
		sb.WriteString(fmt.Sprintf("agrees (heval lgam lerfc gamP %s %s %s %s %s %s) %s)",
			f.Name, c.Fn, RList(c.P.Ps), ZList64(c.P.Zs), opsCoq(c.Ops), RX(c.X, f.Discrete), obsCoq(f, c.Obs)))
		return sb.String()
	}
	sb.WriteString(fmt.Sprintf("agrees (eval lgam lerfc gamP %s %s %s %s %s) %s)",
		f.Name, c.Fn, RList(c.P.Ps), ZList64(c.P.Zs), RX(c.X, f.Discrete), obsCoq(f, c.Obs)))
	return sb.String()
}

const shardHeader = "From Coq Require Import Reals ZArith List. Import ListNotations.\nFrom ADV Require Import C14.ER C14.Model C14.VModel C14.SModel C14.Corr C14.CorrH C14.MixModel C14.SkewModel C14.IWModel C14.Corr2 C14.MixParam C14.CorrP.\nOpen Scope R_scope.\nGoal True.\n"

// shards of `per` cases for props[0:split) and of `per2` cases for props[split:) (the vector cases, whose
// certificates are slower); the case index printed on a mismatch is the global index
func writeShards(dir, stem string, props []string, per int, splits ...int) (int, error) {
	if err := os.MkdirAll(dir, 0755); err != nil {
		return 0, err
	}
	split, per2 := len(props), per
	if len(splits) == 2 {
		split, per2 = splits[0], splits[1]
	}
	n := 0
	for start := 0; start < len(props); {
		end := start + per
		if start >= split {
			end = start + per2
		} else if end > split {
			end = split
		}
		if end > len(props) {
			end = len(props)
		}
		var sb strings.Builder
		sb.WriteString(shardHeader)
		for i := start; i < end; i++ {
			tac, pr := "chk", props[i]
			if strings.HasPrefix(pr, "@H") { // mutator history: CorrH.solve_hcase
				tac, pr = "chkh", pr[2:]
			} else if strings.HasPrefix(pr, "@W") { // mixtures, skew normal, matrix families: Corr2.solve_wide
				tac, pr = "chkw", pr[2:]
			} else if strings.HasPrefix(pr, "@P") { // parameter layout of composite distributions: CorrP.pcheck
				tac, pr = "chkp", pr[2:]
			}
			sb.WriteString(fmt.Sprintf("%s %d%%nat %s.\n", tac, i, pr))
		}
		sb.WriteString("exact I. Qed.\n")
		if err := os.WriteFile(filepath.Join(dir, fmt.Sprintf("%s_%d.v", stem, n)), []byte(sb.String()), 0644); err != nil {
			return n, err
		}
		n++
		start = end
	}
	return n, nil
}

func famByName(name string) *Fam {
	for i := range families {
		if families[i].Name == name {
			return &families[i]
		}
	}
	return nil
}

// class of an evaluation for the histogram / non-triviality rule
func classOf(o Outcome, valid bool) string {
	if !valid {
		return "invalid-params:" + o.Kind
	}
	return "valid-params:" + o.Kind
}

func genCase(f *Fam, r *Rng) Case {
	valid := f.Invalid == nil || r.Intn(7) != 0
	var p Params
	if valid {
		p = f.Valid(r)
	} else {
		p = f.Invalid(r)
	}
	fn := f.Fns[r.Intn(len(f.Fns))]
	if fn != "LogPdf" && r.Intn(3) == 0 { // LogPdf is the centre of the property
		fn = "LogPdf"
	}
	x := f.X(r, p)
	if !valid {
		// invalid stream: only the constructor's verdict is compared (several constructors
		// accept invalid parameters; what the methods then return is not part of the model's claim)
		fn, x = "Ctor", 0
	}
	if f.Gp != nil && valid {
		for _, ab := range f.Gp(p, x, sfFn(fn)) {
			if v := special.GammaP(ab[0], ab[1]); math.IsNaN(v) || math.IsInf(v, 0) {
				fn = "LogPdf" // special.GammaP itself fails here (C13's business): no logged value to tie to
			}
		}
	}
	if valid && !f.Discrete && (fn == "LogPdf" || fn == "Pdf") {
		// exp overflow in binary64 (not modelled over R: LogPdf is -Inf / NaN where the exact value is finite):
		// strictly inside the support a finite LogPdf is expected, the point is redrawn otherwise
		for try := 0; try < 8 && overflowed(f, p, x); try++ {
			x = f.X(r, p)
		}
		if overflowed(f, p, x) {
			fn = "Ctor"
		}
	}
	o, inc := evalAll(f, p, fn, x)
	return Case{Fam: f.Name, Fn: fn, P: p, X: x, Obs: o, Incons: inc, Class: classOf(o, valid)}
}

// LogPdf does not return a finite value at a point strictly inside the support
func overflowed(f *Fam, p Params, x float64) bool {
	lo, hi := support(f.Name, p)
	if !(x > lo && x < hi) {
		return false
	}
	d, err := f.New(ad.Real64Type, p)
	if err != nil || d == nil {
		return false
	}
	return call(d, "LogPdf", ad.NewReal64(0.5), x).Kind != "val"
}

func rerun(c Case) (Case, *Fam) {
	if c.V != nil {
		c.Obs, c.Incons = vecEvalAll(c.Fam, c.V)
		return c, nil
	}
	if c.W != nil {
		c.Obs, c.Incons = wEvalAll(c.W, c.Fn)
		return c, nil
	}
	f := famByName(c.Fam)
	if f == nil {
		Die("unknown family %s", c.Fam)
	}
	if c.Ops != nil {
		h := runHist(f, ad.Real64Type, c.P, c.Ops, nil)
		switch h.status {
		case "ok":
			fp := finalParams(f, h)
			c.Obs, c.FP, c.Ops = call(h.d, c.Fn, ad.NewReal64(0.5), c.X), &fp, h.done
		case "panic":
			c.Obs = Outcome{"panic", 0}
		default:
			c.Obs = Outcome{"ctorerr", 0}
		}
		return c, f
	}
	c.Obs, c.Incons = evalAll(f, c.P, c.Fn, c.X)
	return c, f
}

func main() {
	o := ParseFlags()
	if o.Extra == "hunt" {
		hunt(o)
		return
	}
	if o.Extra == "inventory" {
		inventory(o.Replay, o.Out)
		return
	}
	if o.Replay != "" {
		b, err := os.ReadFile(o.Replay)
		if err != nil {
			Die("%v", err)
		}
		var rp struct {
			Case Case `json:"case"`
		}
		if err := json.Unmarshal(b, &rp); err != nil {
			Die("%v", err)
		}
		c, f := rerun(rp.Case)
		writeShards(o.Out, "replay", []string{caseCoq(f, c)}, 100)
		jb, _ := json.Marshal(c)
		os.WriteFile(filepath.Join(o.Out, "replay_case.json"), jb, 0644)
		return
	}
	var cases []Case
	var props []string
	hist := map[string]int{}
	nontriv := map[string]bool{}
	var incons []Case
	add := func(c Case, f *Fam, tag string) {
		cases = append(cases, c)
		props = append(props, caseCoq(f, c))
		hist["family:"+c.Fam]++
		hist["method:"+c.Fn]++
		hist["outcome:"+c.Class]++
		if tag != "" {
			hist[tag]++
		}
		if c.Incons != "" {
			incons = append(incons, c)
		}
		if strings.HasPrefix(c.Class, "valid-params:") {
			nontriv[fmt.Sprintf("%s/%s/%v/%v/%v", c.Fam, c.Fn, c.P.Ps, c.P.Zs, c.X)] = true
		}
	}
	// committed corpus first (o.Extra = path of corpus.jsonl)
	if corpus, err := os.ReadFile(o.Extra); err == nil {
		for _, line := range strings.Split(string(corpus), "\n") {
			line = strings.TrimSpace(line)
			if line == "" || strings.HasPrefix(line, "#") {
				continue
			}
			var c Case
			if err := json.Unmarshal([]byte(line), &c); err != nil {
				Die("corpus: %v", err)
			}
			c, f := rerun(c)
			c.Class = "valid-params:" + c.Obs.Kind
			add(c, f, "corpus")
		}
	}
	rng := NewRng(o.Seed)
	for k := 0; len(cases) < o.N+hist["corpus"]; k++ {
		f := &families[k%len(families)]
		add(genCase(f, rng.Split()), f, "")
	}
	// mutator histories (hist.go): constructor, 1-4 mutators with changing values, one method call
	hr := NewRng(o.Seed*1000003 + 31)
	nh := o.N / 4
	for k, tries := 0, 0; k < nh && tries < 20*nh; tries++ {
		f := &families[tries%len(families)]
		if f.Name == "FDelta" {
			continue
		}
		c, ok := genHistCase(f, hr.Split(), tries)
		if !ok {
			continue
		}
		add(c, f, "history")
		for _, op := range c.Ops {
			hist["history-op:"+op.K]++
		}
		k++
	}
	// vector families: d = 1..4 in turn (odd and even), Float64 and Real64 parameters
	nScalar := len(props)
	nv := o.N / 6
	vr := NewRng(o.Seed + 15485863)
	vr7 := NewRng(o.Seed + 32452843)
	for k := 0; k < nv+nv/3; k++ {
		var fam string
		var vc VCase
		if k < nv {
			fam, vc = genVCase(k, vr.Split())
		} else { // round 7: VectorId over blocks of different dimensions
			fam, vc = genVVIdCase(k-nv, vr7.Split())
			hist[fmt.Sprintf("vectorid-layout:%v", vc.Dims)]++
		}
		obs, inc := vecEvalAll(fam, &vc)
		c := Case{Fam: fam, Fn: "LogPdf", Obs: obs, Incons: inc, Class: "valid-params:" + obs.Kind, V: &vc}
		if vc.Pdf {
			c.Fn = "Pdf"
		}
		hist["method:"+c.Fn]++
		cases = append(cases, c)
		props = append(props, caseCoq(nil, c))
		hist["family:"+fam]++
		hist[fmt.Sprintf("vector-dim:%d", len(vc.X))]++
		hist["outcome:"+c.Class]++
		if inc != "" {
			incons = append(incons, c)
		}
		nontriv[fmt.Sprintf("%s/%v", fam, vc)] = true
	}
	// mixtures / skew normal / matrix families (wide.go)
	wr := NewRng(o.Seed*1000003 + 77)
	for k := 0; k < o.N/4; k++ {
		c := genWCase(k, wr.Split())
		cases = append(cases, c)
		props = append(props, caseCoq(nil, c))
		hist["family:"+c.Fam]++
		hist["method:"+c.Fn]++
		hist["outcome:"+c.Class]++
		if c.Incons != "" {
			incons = append(incons, c)
		}
		if c.Obs.Kind != "ctorerr" {
			nontriv[fmt.Sprintf("%s/%s/%v", c.Fam, c.Fn, *c.W)] = true
		}
	}
	// parameter layout of mixtures / products (param.go): K != parameters per component, heterogeneous, nested
	pr := NewRng(o.Seed*1000003 + 191)
	for k := 0; k < o.N/4; k++ {
		w := genParCase(k, pr.Split())
		obs, inc := wEvalAll(&w, "SetParameters")
		c := Case{Fam: "WPar", Fn: "SetParameters", Obs: obs, Incons: inc, Class: "valid-params:" + w.Mode + ":" + obs.Kind, W: &w}
		cases = append(cases, c)
		props = append(props, caseCoq(nil, c))
		hist["family:"+c.Fam]++
		hist["method:"+c.Fn]++
		hist["outcome:"+c.Class]++
		hist[fmt.Sprintf("param-level:%d", w.Level)]++
		hist[fmt.Sprintf("param-K:%d", len(w.Tree.W))]++
		if inc != "" {
			incons = append(incons, c)
		}
		if obs.Kind != "ctorerr" {
			nontriv[fmt.Sprintf("WPar/%d/%s/%v", w.Level, treeCoq(w.Tree), w.PV)] = true
		}
	}
	per := 40
	nsh, err := writeShards(o.Out, "cases", props, per, nScalar, 11)
	if err != nil {
		Die("%v", err)
	}
	fj, _ := os.Create(filepath.Join(o.Out, "cases.jsonl"))
	enc := json.NewEncoder(fj)
	for _, c := range cases {
		enc.Encode(c)
	}
	fj.Close()
	keys := make([]string, 0, len(hist))
	for k := range hist {
		keys = append(keys, k)
	}
	sort.Strings(keys)
	samples := []Case{}
	for i := 0; i < len(cases) && len(samples) < 3; i += len(cases)/3 + 1 {
		samples = append(samples, cases[i])
	}
	meta := map[string]interface{}{
		"name": "cases", "evaluations": len(cases), "distinct_nontrivial": len(nontriv),
		"rule": "one evaluation = constructor + LogPdf/LogCdf/Cdf/Pdf of one of 18 scalar families (+2 wrappers) at dyadic parameters " +
			"(grid k/8 in (0,8], near-boundary 1/64, 1/1024, 1023/1024, integer/half-integer shapes, xi in {0, +-2^-10..2}) and a dyadic " +
			"evaluation point inside / exactly on / just inside / just outside / outside the support (discrete: integers -3..n+3 and half-integers); " +
			"1 in 7 parameter vectors is invalid (constructor error kind compared); run with Float64 and Real64 parameters and two previous " +
			"contents of the result register (all four must agree bit for bit); non-trivial iff the constructor accepted the parameters " +
			"(formula, guard or special-value path exercised); distinct = distinct (family, method, parameters, point); " +
			"wide stream (n/4 cases, wide.go): scalar / vector mixtures of 1-4 components with unnormalised dyadic weights incl. zeros, negative, all-zero " +
			"and miscounted weights, LogPdf / Posterior / Likelihood / stored log-weights, every component -Inf in 1 of 6; skew normal d = 1..3 (negative / zero " +
			"scales, alpha = 0, dimension errors); inverse Wishart / normal-inverse-Wishart d = 1..3 (non-PD S or X, nu outside the textbook range, clones); " +
			"parameter-layout stream (n/4 cases, param.go): scalar / vector / matrix mixtures over 13 leaf families (1-3 parameters), ScalarIid / ScalarId / VectorIid / VectorId " +
			"components, nested mixtures to depth 2, K = 1..4 in the shapes 3 x Normal, 2 x GEV, Laplace + Exponential + Gamma, K = 1, nested, 2 x 2, random; one SetParameters per case: " +
			"an assembled vector (valid; one refused window; one entry too many; too short; weights only), the vector GetParameters() returned, or a clone of it; " +
			"round 6: the Pdf method of every scalar family (also after mutator histories), of the multivariate t / normal (d = 1..4), the skew normal and the " +
			"(normal-)inverse Wishart is one of the sampled methods; points strictly inside the support where LogPdf overflows in binary64 are redrawn",
		"samples": samples, "histogram": hist, "shards": nsh, "per_shard": per,
		"extra": map[string]interface{}{"inconsistent": incons, "tolerance": fmt.Sprintf("2^-%d * max(1,|value|)", tolBits)},
	}
	b, _ := json.MarshalIndent(meta, "", " ")
	os.WriteFile(filepath.Join(o.Out, "cases.meta.json"), b, 0644)
}
