// C14 harness: table of the scalar distribution families of
// statistics/scalarDistribution, their constructors, parameter / evaluation
// point generators and the arguments at which each method calls the special
// functions (whose values are logged, not certified: C13's business).
package main

import (
	"math"

	. "adharness/common"

	ad "github.com/pbenner/autodiff"
	"github.com/pbenner/autodiff/special"
	st "github.com/pbenner/autodiff/statistics"
	sd "github.com/pbenner/autodiff/statistics/scalarDistribution"
)

type Params struct {
	Ps []float64 `json:"ps"`
	Zs []int64   `json:"zs"`
}

type Fam struct {
	Name     string   // Coq constructor of Model.fam
	Fns      []string // methods offered: LogPdf, LogCdf, Cdf, Pdf
	Discrete bool
	ErrKind  string // obs constructor for a returned error
	New      func(t ad.ScalarType, p Params) (interface{}, error)
	Valid    func(r *Rng) Params
	Invalid  func(r *Rng) Params
	X        func(r *Rng, p Params) float64
	// arguments passed to lgamma / gammaP by the method (as the Go code computes them)
	Lg func(p Params, x float64, fn string) []float64
	Gp func(p Params, x float64, fn string) [][2]float64
	Le func(p Params, x float64, fn string) []float64
}

func sc(t ad.ScalarType, v float64) ad.Scalar { return ad.NewScalar(t, v) }

// ---- dyadic grids -----------------------------------------------------------

// positive shape/scale/rate: multiples of 1/8 in (0, 8], with near-boundary values
func gPos(r *Rng) float64 {
	switch r.Intn(10) {
	case 0:
		return 1.0 / 64
	case 1:
		return 1.0 / 1024
	case 2:
		return 1
	case 3:
		return float64(r.Range(1, 8)) / 2 // integer and half-integer shapes
	}
	return float64(r.Range(1, 64)) / 8
}

// location: multiples of 1/8 in [-4, 4]
func gLoc(r *Rng) float64 { return float64(r.Range(-32, 32)) / 8 }

// probability strictly inside (0,1): multiples of 1/16 and near-boundary values
func gProb(r *Rng) float64 {
	switch r.Intn(8) {
	case 0:
		return 1.0 / 1024
	case 1:
		return 1023.0 / 1024
	}
	return float64(r.Range(1, 15)) / 16
}

// non-positive value for an invalid positive parameter
func gNonPos(r *Rng) float64 {
	if r.Intn(3) == 0 {
		return 0
	}
	return -float64(r.Range(1, 32)) / 8
}

// continuous evaluation point relative to an interval [lo, hi] of the support (either may be infinite)
func gXcont(r *Rng, lo, hi float64) float64 {
	k := r.Intn(10)
	step := float64(r.Range(1, 96)) / 16
	switch {
	case k == 0 && !math.IsInf(lo, 0): // on the lower boundary
		return lo
	case k == 1 && !math.IsInf(hi, 0): // on the upper boundary
		return hi
	case k == 2 && !math.IsInf(lo, 0): // outside, below
		return lo - step
	case k == 3 && !math.IsInf(hi, 0): // outside, above
		return hi + step
	case k == 4 && !math.IsInf(lo, 0): // just inside
		return lo + 1.0/1024
	case k == 5 && !math.IsInf(lo, 0): // just outside
		return lo - 1.0/1024
	}
	if math.IsInf(lo, -1) && math.IsInf(hi, 1) {
		return float64(r.Range(-128, 128)) / 16
	}
	if math.IsInf(hi, 1) {
		return lo + step
	}
	if math.IsInf(lo, -1) {
		return hi - step
	}
	// bounded: a dyadic fraction of the interval (exact when hi-lo is a short dyadic)
	return lo + (hi-lo)*float64(r.Range(1, 15))/16
}

// discrete evaluation point: integers in [-3, hi+3], half-integers as the non-integer stream
func gXdisc(r *Rng, hi int) float64 {
	k := r.Intn(10)
	switch k {
	case 0:
		return float64(r.Range(-3, -1))
	case 1:
		return float64(r.Range(-3, hi)) + 0.5
	case 2:
		return 0
	case 3:
		return float64(hi)
	case 4:
		return float64(hi + r.Range(1, 3))
	}
	return float64(r.Range(0, hi))
}

func p1(a float64) Params                { return Params{[]float64{a}, nil} }
func p2(a, b float64) Params             { return Params{[]float64{a, b}, nil} }
func p3(a, b, c float64) Params          { return Params{[]float64{a, b, c}, nil} }
func noLg(Params, float64, string) []float64 { return nil }

var families = []Fam{
	{Name: "FNormal", Fns: []string{"LogPdf", "LogCdf", "Cdf"},
		New: func(t ad.ScalarType, p Params) (interface{}, error) {
			return nilIfErr(sd.NewNormalDistribution(sc(t, p.Ps[0]), sc(t, p.Ps[1])))
		},
		Valid:   func(r *Rng) Params { return p2(gLoc(r), gPos(r)) },
		Invalid: func(r *Rng) Params { return p2(gLoc(r), gNonPos(r)) },
		X:       func(r *Rng, p Params) float64 { return gXcont(r, math.Inf(-1), math.Inf(1)) },
		Le: func(p Params, x float64, fn string) []float64 {
			if fn == "LogPdf" {
				return nil
			}
			t := p.Ps[1] * math.Sqrt(2.0)
			return []float64{-((x - p.Ps[0]) / t)}
		}},
	{Name: "FExponential", Fns: []string{"LogPdf", "LogCdf", "Cdf", "Pdf"},
		New: func(t ad.ScalarType, p Params) (interface{}, error) {
			return nilIfErr(sd.NewExponentialDistribution(sc(t, p.Ps[0])))
		},
		Valid:   func(r *Rng) Params { return p1(gPos(r)) },
		Invalid: func(r *Rng) Params { return p1(gNonPos(r)) },
		X:       func(r *Rng, p Params) float64 { return gXcont(r, 0, math.Inf(1)) }},
	{Name: "FLaplace", Fns: []string{"LogPdf", "LogCdf", "Cdf", "Pdf"},
		New: func(t ad.ScalarType, p Params) (interface{}, error) {
			return nilIfErr(sd.NewLaplaceDistribution(sc(t, p.Ps[0]), sc(t, p.Ps[1])))
		},
		Valid:   func(r *Rng) Params { return p2(gLoc(r), gPos(r)) },
		Invalid: func(r *Rng) Params { return p2(gLoc(r), gNonPos(r)) },
		X: func(r *Rng, p Params) float64 {
			if r.Intn(5) == 0 {
				return p.Ps[0]
			}
			return gXcont(r, math.Inf(-1), math.Inf(1))
		}},
	{Name: "FPareto", Fns: []string{"LogPdf", "LogCdf", "Cdf", "Pdf"},
		New: func(t ad.ScalarType, p Params) (interface{}, error) {
			return nilIfErr(sd.NewParetoDistribution(sc(t, p.Ps[0]), sc(t, p.Ps[1])))
		},
		Valid: func(r *Rng) Params { return p2(gPos(r), gPos(r)) },
		Invalid: func(r *Rng) Params {
			if r.Bool() {
				return p2(gNonPos(r), gPos(r))
			}
			return p2(gPos(r), gNonPos(r))
		},
		X: func(r *Rng, p Params) float64 { return gXcont(r, p.Ps[0], math.Inf(1)) }},
	{Name: "FGPareto", Fns: []string{"LogPdf", "LogCdf", "Cdf", "Pdf"},
		New: func(t ad.ScalarType, p Params) (interface{}, error) {
			return nilIfErr(sd.NewGParetoDistribution(sc(t, p.Ps[0]), sc(t, p.Ps[1]), sc(t, p.Ps[2])))
		},
		Valid:   func(r *Rng) Params { return p3(gLoc(r), gPos(r), gXi(r)) },
		Invalid: func(r *Rng) Params { return p3(gLoc(r), gNonPos(r), gXi(r)) },
		X: func(r *Rng, p Params) float64 {
			if p.Ps[2] < 0 {
				return gXcont(r, p.Ps[0], p.Ps[0]-p.Ps[1]/p.Ps[2])
			}
			return gXcont(r, p.Ps[0], math.Inf(1))
		}},
	{Name: "FGev", Fns: []string{"LogPdf", "LogCdf", "Cdf", "Pdf"},
		New: func(t ad.ScalarType, p Params) (interface{}, error) {
			return nilIfErr(sd.NewGevDistribution(sc(t, p.Ps[0]), sc(t, p.Ps[1]), sc(t, p.Ps[2])))
		},
		Valid:   func(r *Rng) Params { return p3(gLoc(r), gPos(r), gXi(r)) },
		Invalid: func(r *Rng) Params { return p3(gLoc(r), gNonPos(r), gXi(r)) },
		X: func(r *Rng, p Params) float64 {
			mu, sigma, xi := p.Ps[0], p.Ps[1], p.Ps[2]
			if xi != 0 && math.Abs(xi) < 0.125 {
				// t^(-1/xi) overflows binary64 towards the end of the support: stay near mu,
				// or go on / beyond the end point
				end := mu - sigma/xi
				switch r.Intn(6) {
				case 0:
					return end
				case 1:
					if xi > 0 {
						return end - float64(r.Range(1, 64))/16
					}
					return end + float64(r.Range(1, 64))/16
				}
				return mu + sigma*float64(r.Range(-64, 64))/16
			}
			switch {
			case xi > 0:
				return gXcont(r, mu-sigma/xi, math.Inf(1))
			case xi < 0:
				return gXcont(r, math.Inf(-1), mu-sigma/xi)
			}
			return gXcont(r, math.Inf(-1), math.Inf(1))
		}},
	{Name: "FGamma", Fns: []string{"LogPdf", "LogCdf", "Cdf", "Pdf"},
		New: func(t ad.ScalarType, p Params) (interface{}, error) {
			return nilIfErr(sd.NewGammaDistribution(sc(t, p.Ps[0]), sc(t, p.Ps[1])))
		},
		Valid: func(r *Rng) Params { return p2(gPos(r), gPos(r)) },
		Invalid: func(r *Rng) Params {
			if r.Bool() {
				return p2(gNonPos(r), gPos(r))
			}
			return p2(gPos(r), gNonPos(r))
		},
		X: func(r *Rng, p Params) float64 { return gXcont(r, 0, math.Inf(1)) },
		Lg: func(p Params, x float64, fn string) []float64 {
			if fn != "LogPdf" {
				return nil
			}
			return []float64{p.Ps[0]}
		},
		Gp: func(p Params, x float64, fn string) [][2]float64 {
			if fn == "LogPdf" || x <= 0 { // Cdf / LogCdf return 0 / -Inf for x <= 0 without calling GammaP
				return nil
			}
			return [][2]float64{{p.Ps[0], x * p.Ps[1]}}
		}},
	{Name: "FBeta", Fns: []string{"LogPdf", "Pdf"}, ErrKind: "OErrNaN",
		New: func(t ad.ScalarType, p Params) (interface{}, error) {
			return nilIfErr(sd.NewBetaDistribution(sc(t, p.Ps[0]), sc(t, p.Ps[1]), p.Zs[0] == 1))
		},
		Valid: func(r *Rng) Params {
			p := p2(gPos(r), gPos(r))
			p.Zs = []int64{int64(r.Intn(2))}
			return p
		},
		Invalid: func(r *Rng) Params {
			p := p2(gNonPos(r), gPos(r))
			if r.Bool() {
				p = p2(gPos(r), gNonPos(r))
			}
			p.Zs = []int64{int64(r.Intn(2))}
			return p
		},
		X: func(r *Rng, p Params) float64 {
			if p.Zs[0] == 1 { // log scale: x = log theta <= 0
				return gXcont(r, math.Inf(-1), 0)
			}
			return gXcont(r, 0, 1)
		},
		Lg: func(p Params, x float64, fn string) []float64 {
			return []float64{p.Ps[0] + p.Ps[1], p.Ps[0], p.Ps[1]}
		}},
	{Name: "FBinomial", Fns: []string{"LogPdf", "Pdf"}, Discrete: true,
		New: func(t ad.ScalarType, p Params) (interface{}, error) {
			return nilIfErr(sd.NewBinomialDistribution(sc(t, p.Ps[0]), int(p.Zs[0])))
		},
		Valid: func(r *Rng) Params {
			th := gProb(r)
			switch r.Intn(12) {
			case 0:
				th = 0
			case 1:
				th = 1
			}
			return Params{[]float64{th}, []int64{int64(r.Range(0, 12))}}
		},
		Invalid: func(r *Rng) Params {
			switch r.Intn(3) {
			case 0:
				return Params{[]float64{-float64(r.Range(1, 8)) / 8}, []int64{int64(r.Range(0, 12))}}
			case 1:
				return Params{[]float64{1 + float64(r.Range(1, 8))/8}, []int64{int64(r.Range(0, 12))}}
			}
			return Params{[]float64{gProb(r)}, []int64{-int64(r.Range(1, 5))}}
		},
		X: func(r *Rng, p Params) float64 { return gXdisc(r, int(p.Zs[0])) },
		Lg: func(p Params, x float64, fn string) []float64 {
			n := float64(p.Zs[0])
			return []float64{n + 1, x + 1, n + 1 - x}
		}},
	{Name: "FCategorical", Fns: []string{"LogPdf", "LogCdf", "Cdf", "Pdf"}, Discrete: true, ErrKind: "OErrInt",
		New: func(t ad.ScalarType, p Params) (interface{}, error) {
			v := ad.NullDenseVector(t, len(p.Ps))
			for i, x := range p.Ps {
				v.At(i).SetFloat64(x)
			}
			return nilIfErr(sd.NewCategoricalDistribution(v))
		},
		Valid: func(r *Rng) Params {
			// probabilities k_i/16 summing to one (a zero entry now and then)
			n := r.Range(1, 5)
			ks := make([]int, n)
			left := 16
			for i := 0; i < n-1; i++ {
				ks[i] = r.Intn(left/2 + 1)
				left -= ks[i]
			}
			ks[n-1] = left
			ps := make([]float64, n)
			for i := range ps {
				ps[i] = float64(ks[i]) / 16
			}
			return Params{ps, nil}
		},
		Invalid: func(r *Rng) Params {
			if r.Intn(4) == 0 {
				return Params{[]float64{}, nil}
			}
			n := r.Range(1, 4)
			ps := make([]float64, n)
			for i := range ps {
				ps[i] = float64(r.Range(1, 8)) / 16
			}
			ps[r.Intn(n)] = -float64(r.Range(1, 8)) / 16
			return Params{ps, nil}
		},
		X: func(r *Rng, p Params) float64 { return gXdisc(r, len(p.Ps)-1) }},
	{Name: "FCauchy", Fns: []string{"LogPdf", "Pdf"},
		New: func(t ad.ScalarType, p Params) (interface{}, error) {
			return nilIfErr(sd.NewCauchyDistribution(sc(t, p.Ps[0]), sc(t, p.Ps[1])))
		},
		Valid:   func(r *Rng) Params { return p2(gLoc(r), gPos(r)) },
		Invalid: func(r *Rng) Params { return p2(gLoc(r), gNonPos(r)) },
		X:       func(r *Rng, p Params) float64 { return gXcont(r, math.Inf(-1), math.Inf(1)) }},
	{Name: "FChiSquared", Fns: []string{"LogPdf", "LogCdf", "Cdf", "Pdf"},
		New: func(t ad.ScalarType, p Params) (interface{}, error) {
			return nilIfErr(sd.NewChiSquaredDistribution(t, p.Ps[0]))
		},
		Valid:   func(r *Rng) Params { return p1(float64(r.Range(1, 24)) / 2) },
		Invalid: func(r *Rng) Params { return p1(gNonPos(r)) },
		X:       func(r *Rng, p Params) float64 { return gXcont(r, 0, math.Inf(1)) },
		Lg: func(p Params, x float64, fn string) []float64 {
			if fn != "LogPdf" {
				return nil
			}
			return []float64{p.Ps[0] / 2}
		},
		Gp: func(p Params, x float64, fn string) [][2]float64 {
			if fn == "LogPdf" || x <= 0 {
				return nil
			}
			return [][2]float64{{p.Ps[0] / 2, x / 2}}
		}},
	{Name: "FDelta", Fns: []string{"LogPdf", "Pdf"},
		New: func(t ad.ScalarType, p Params) (interface{}, error) {
			return nilIfErr(sd.NewDeltaDistribution(sc(t, p.Ps[0])))
		},
		Valid: func(r *Rng) Params { return p1(gLoc(r)) },
		X: func(r *Rng, p Params) float64 {
			if r.Bool() {
				return p.Ps[0]
			}
			return gXcont(r, p.Ps[0], math.Inf(1))
		}},
	{Name: "FGenGamma", Fns: []string{"LogPdf", "Pdf"},
		New: func(t ad.ScalarType, p Params) (interface{}, error) {
			return nilIfErr(sd.NewGeneralizedGammaDistribution(sc(t, p.Ps[0]), sc(t, p.Ps[1]), sc(t, p.Ps[2])))
		},
		// p a power of two so that d/p is exact in binary64 and in R
		Valid: func(r *Rng) Params {
			return p3(gPos(r), gPos(r), []float64{0.25, 0.5, 1, 2, 4}[r.Intn(5)])
		},
		Invalid: func(r *Rng) Params {
			switch r.Intn(3) {
			case 0:
				return p3(gNonPos(r), gPos(r), 2)
			case 1:
				return p3(gPos(r), gNonPos(r), 2)
			}
			return p3(gPos(r), gPos(r), gNonPos(r))
		},
		X: func(r *Rng, p Params) float64 { return gXcont(r, 0, math.Inf(1)) },
		Lg: func(p Params, x float64, fn string) []float64 {
			return []float64{p.Ps[1] / p.Ps[2]}
		}},
	{Name: "FGeometric", Fns: []string{"LogPdf", "Pdf"}, Discrete: true, ErrKind: "OErrInt",
		New: func(t ad.ScalarType, p Params) (interface{}, error) {
			return nilIfErr(sd.NewGeometricDistribution(sc(t, p.Ps[0])))
		},
		Valid: func(r *Rng) Params {
			if r.Intn(12) == 0 {
				return p1(1)
			}
			return p1(gProb(r))
		},
		Invalid: func(r *Rng) Params {
			if r.Bool() {
				return p1(gNonPos(r))
			}
			return p1(1 + float64(r.Range(1, 8))/8)
		},
		X: func(r *Rng, p Params) float64 { return gXdisc(r, 12) }},
	{Name: "FNegBinomial", Fns: []string{"LogPdf", "Pdf"}, Discrete: true,
		New: func(t ad.ScalarType, p Params) (interface{}, error) {
			return nilIfErr(sd.NewNegativeBinomialDistribution(sc(t, p.Ps[0]), sc(t, p.Ps[1])))
		},
		// round 7: the boundary value the constructor accepts: p = 0 (point mass at 0, the `0^0 = 1` branch of LogPdf).
		// p = 1 (p^k (1-p)^r identically 0) is an INVALID parameter since the guard became `p >= 1.0` (was F-C14-NEGBIN-P1)
		Valid: func(r *Rng) Params {
			switch r.Intn(12) {
			case 0, 1:
				return p2(gPos(r), 0)
			}
			return p2(gPos(r), gProb(r))
		},
		Invalid: func(r *Rng) Params {
			switch r.Intn(4) {
			case 0:
				return p2(gNonPos(r), gProb(r))
			case 1:
				return p2(gPos(r), -float64(r.Range(1, 8))/8)
			case 2:
				return p2(gPos(r), 1)
			}
			return p2(gPos(r), 1+float64(r.Range(1, 8))/8)
		},
		X: func(r *Rng, p Params) float64 { return gXdisc(r, 12) },
		Lg: func(p Params, x float64, fn string) []float64 {
			return []float64{p.Ps[0], p.Ps[0] + x, x + 1}
		}},
	{Name: "FPoisson", Fns: []string{"LogPdf", "Pdf"}, Discrete: true, ErrKind: "OErrInt",
		New: func(t ad.ScalarType, p Params) (interface{}, error) {
			return nilIfErr(sd.NewPoissonDistribution(sc(t, p.Ps[0])))
		},
		Valid:   func(r *Rng) Params { return p1(gPos(r)) },
		Invalid: func(r *Rng) Params { return p1(gNonPos(r)) },
		X:       func(r *Rng, p Params) float64 { return gXdisc(r, 12) },
		Lg: func(p Params, x float64, fn string) []float64 {
			return []float64{x + 1}
		}},
	{Name: "FPowerLaw", Fns: []string{"LogPdf", "LogCdf", "Cdf", "Pdf"},
		New: func(t ad.ScalarType, p Params) (interface{}, error) {
			return nilIfErr(sd.NewPowerLawDistribution(sc(t, p.Ps[0]), sc(t, p.Ps[1])))
		},
		Valid: func(r *Rng) Params { return p2(1+gPos(r), gPos(r)) },
		Invalid: func(r *Rng) Params {
			switch r.Intn(4) {
			case 0:
				return p2(gNonPos(r), gPos(r))
			case 1:
				return p2(float64(r.Range(1, 8))/8, gPos(r)) // 0 < alpha <= 1: not normalisable
			case 2:
				return p2(1+gPos(r), -gPos(r)) // negative x_min
			}
			return p2(1+gPos(r), 0)
		},
		X: func(r *Rng, p Params) float64 { return gXcont(r, p.Ps[1], math.Inf(1)) }},
	{Name: "FTransNormal", Fns: []string{"LogPdf", "Pdf"},
		New: func(t ad.ScalarType, p Params) (interface{}, error) {
			d, err := sd.NewNormalDistribution(sc(t, p.Ps[0]), sc(t, p.Ps[1]))
			if err != nil {
				return nil, err
			}
			return nilIfErr(sd.NewPdfTranslation(d, p.Ps[2]))
		},
		Valid:   func(r *Rng) Params { return p3(gLoc(r), gPos(r), gLoc(r)) },
		Invalid: func(r *Rng) Params { return p3(gLoc(r), gNonPos(r), gLoc(r)) },
		X:       func(r *Rng, p Params) float64 { return gXcont(r, math.Inf(-1), math.Inf(1)) }},
	{Name: "FLogTransNormal", Fns: []string{"LogPdf", "Pdf"},
		New: func(t ad.ScalarType, p Params) (interface{}, error) {
			d, err := sd.NewNormalDistribution(sc(t, p.Ps[0]), sc(t, p.Ps[1]))
			if err != nil {
				return nil, err
			}
			return nilIfErr(sd.NewPdfLogTransform(d, p.Ps[2]))
		},
		Valid:   func(r *Rng) Params { return p3(gLoc(r), gPos(r), float64(r.Range(1, 16))/8) },
		Invalid: func(r *Rng) Params { return p3(gLoc(r), gNonPos(r), 1) },
		X:       func(r *Rng, p Params) float64 { return gXcont(r, 0, math.Inf(1)) }},
}

// shape parameter xi: zero, positive and negative powers of two (so sigma/xi is exact) and a few others
func gXi(r *Rng) float64 {
	switch r.Intn(8) {
	case 0:
		return 0
	case 1:
		return -1.0 / 1024
	case 2:
		return 1.0 / 1024
	}
	v := []float64{0.125, 0.25, 0.5, 1, 2}[r.Intn(5)]
	if r.Bool() {
		return -v
	}
	return v
}

func nilIfErr(d interface{}, err error) (interface{}, error) {
	if err != nil {
		return nil, err
	}
	return d, nil
}

// ---- calling a method -------------------------------------------------------

type Outcome struct {
	Kind string  `json:"kind"` // val | pinf | ninf | nan | err | panic | ctorerr | nosuch
	V    float64 `json:"v"`
}

func classify(v float64) Outcome {
	switch {
	case math.IsNaN(v):
		return Outcome{"nan", 0}
	case math.IsInf(v, 1):
		return Outcome{"pinf", 0}
	case math.IsInf(v, -1):
		return Outcome{"ninf", 0}
	}
	return Outcome{"val", v}
}

// call runs d.<fn>(r, x) with r preset to r0 and returns the outcome and r (for derivative slots)
func call(d interface{}, fn string, r ad.Scalar, x float64) (out Outcome) {
	defer func() {
		if e := recover(); e != nil {
			out = Outcome{"panic", 0}
		}
	}()
	var err error
	cx := ad.ConstFloat64(x)
	if fn == "Ctor" {
		return Outcome{"val", 0}
	}
	switch fn {
	case "LogPdf":
		err = d.(st.ScalarPdf).LogPdf(r, cx)
	case "LogCdf":
		switch dd := d.(type) {
		case *sd.LaplaceDistribution:
			v := ad.NullDenseVector(ad.Float64Type, 1)
			v.At(0).SetFloat64(x)
			err = dd.LogCdf(r, v)
		case interface {
			LogCdf(ad.Scalar, ad.ConstScalar) error
		}:
			err = dd.LogCdf(r, cx)
		default:
			return Outcome{"nosuch", 0}
		}
	case "Pdf":
		switch dd := d.(type) {
		case interface {
			Pdf(ad.Scalar, ad.ConstScalar) error
		}:
			err = dd.Pdf(r, cx)
		default:
			return Outcome{"nosuch", 0}
		}
	case "Cdf":
		switch dd := d.(type) {
		case *sd.LaplaceDistribution:
			v := ad.NullDenseVector(ad.Float64Type, 1)
			v.At(0).SetFloat64(x)
			err = dd.Cdf(r, v)
		case interface {
			Cdf(ad.Scalar, ad.ConstScalar) error
		}:
			err = dd.Cdf(r, cx)
		default:
			return Outcome{"nosuch", 0}
		}
	}
	if err != nil {
		return Outcome{"err", 0}
	}
	return classify(r.GetFloat64())
}

// the method whose special-function calls fn makes (Pdf runs LogPdf)
func sfFn(fn string) string {
	if fn == "Pdf" {
		return "LogPdf"
	}
	return fn
}

func sameOutcome(a, b Outcome) bool {
	return a.Kind == b.Kind && math.Float64bits(a.V) == math.Float64bits(b.V)
}

// evalAll: constructor + method with Float64 and Real64 parameters and two
// different previous contents of the result register; all four must agree bit for bit.
func evalAll(f *Fam, p Params, fn string, x float64) (Outcome, string) {
	var first Outcome
	incons := ""
	k := 0
	for _, t := range []ad.ScalarType{ad.Float64Type, ad.Real64Type} {
		for _, r0 := range []float64{0.0, 7.25} {
			var o Outcome
			func() {
				defer func() {
					if e := recover(); e != nil {
						o = Outcome{"panic", 0}
					}
				}()
				d, err := f.New(t, p)
				if err != nil || d == nil {
					o = Outcome{"ctorerr", 0}
					return
				}
				o = call(d, fn, ad.NewScalar(ad.Real64Type, r0), x)
			}()
			if k == 0 {
				first = o
			} else if !sameOutcome(first, o) {
				incons = "outcome depends on parameter scalar type or on the previous content of the result register"
			}
			k++
		}
	}
	return first, incons
}

func lgammaGo(x float64) float64 {
	v, s := math.Lgamma(x)
	if s == -1 {
		return math.NaN()
	}
	return v
}

var _ = special.LogErfc

// constructors on caller-supplied scalars (hunt: derivative slots)
func famNewScalars(name string, v []ad.MagicScalar, p Params) (interface{}, error) {
	switch name {
	case "FNormal":
		return nilIfErr(sd.NewNormalDistribution(v[0], v[1]))
	case "FTransNormal":
		d, err := sd.NewNormalDistribution(v[0], v[1])
		if err != nil {
			return nil, err
		}
		return nilIfErr(sd.NewPdfTranslation(d, p.Ps[2]))
	case "FLogTransNormal":
		d, err := sd.NewNormalDistribution(v[0], v[1])
		if err != nil {
			return nil, err
		}
		return nilIfErr(sd.NewPdfLogTransform(d, p.Ps[2]))
	case "FExponential":
		return nilIfErr(sd.NewExponentialDistribution(v[0]))
	case "FLaplace":
		return nilIfErr(sd.NewLaplaceDistribution(v[0], v[1]))
	case "FPareto":
		return nilIfErr(sd.NewParetoDistribution(v[0], v[1]))
	case "FGPareto":
		return nilIfErr(sd.NewGParetoDistribution(v[0], v[1], v[2]))
	case "FGev":
		return nilIfErr(sd.NewGevDistribution(v[0], v[1], v[2]))
	case "FGamma":
		return nilIfErr(sd.NewGammaDistribution(v[0], v[1]))
	case "FBeta":
		return nilIfErr(sd.NewBetaDistribution(v[0], v[1], p.Zs[0] == 1))
	case "FCauchy":
		return nilIfErr(sd.NewCauchyDistribution(v[0], v[1]))
	case "FGenGamma":
		return nilIfErr(sd.NewGeneralizedGammaDistribution(v[0], v[1], v[2]))
	case "FGeometric":
		return nilIfErr(sd.NewGeometricDistribution(v[0]))
	case "FNegBinomial":
		return nilIfErr(sd.NewNegativeBinomialDistribution(v[0], v[1]))
	case "FPoisson":
		return nilIfErr(sd.NewPoissonDistribution(v[0]))
	case "FPowerLaw":
		return nilIfErr(sd.NewPowerLawDistribution(v[0], v[1]))
	}
	return nil, nil
}
