// C14 hunt: property-level oracle on the IMPLEMENTATION, independent of the Coq
// model: textbook log-densities coded here, numerical quadrature / summation of
// exp(LogPdf) over the support, CDF consistency (range, monotone, derivative =
// density, limits), derivative slots against central differences, constructor
// verdicts against the textbook validity predicate, parameter / clone round
// trips.  It is a search; the decision is the theorems + certified correspondence.
package main

import (
	"encoding/json"
	"fmt"
	"math"
	"os"
	"path/filepath"

	. "adharness/common"

	ad "github.com/pbenner/autodiff"
	st "github.com/pbenner/autodiff/statistics"
)

type Failure struct {
	Fam      string  `json:"fam"`
	Kind     string  `json:"kind"` // formula support norm cdf-range cdf-mono cdf-deriv cdf-limits deriv-slot ctor-accepts-invalid ctor-rejects-valid roundtrip consistency
	Fn       string  `json:"fn"`
	P        Params  `json:"p"`
	X        float64 `json:"x"`
	Observed string  `json:"observed"`
	Expected string  `json:"expected"`
	V        *VCase  `json:"v,omitempty"`
	Ops      []HOp   `json:"ops,omitempty"`
	W        *WCase  `json:"w,omitempty"`
}

func mkF(fam, kind, fn string, p Params, x float64, obs, exp string) Failure {
	return Failure{Fam: fam, Kind: kind, Fn: fn, P: p, X: x, Observed: obs, Expected: exp}
}

func xlogy(x, y float64) float64 {
	if x == 0 {
		return 0
	}
	return x * math.Log(y)
}
func lg(x float64) float64 { v, _ := math.Lgamma(x); return v }
func isInt(x float64) bool { return math.Floor(x) == x }

var ninf = math.Inf(-1)

// textbook validity of a parameter vector
func refValid(fam string, p Params) bool {
	a := p.Ps
	switch fam {
	case "FNormal", "FLaplace", "FCauchy", "FTransNormal", "FLogTransNormal":
		return a[1] > 0
	case "FExponential", "FPoisson":
		return a[0] > 0
	case "FPareto", "FGamma", "FBeta":
		return a[0] > 0 && a[1] > 0
	case "FGPareto", "FGev":
		return a[1] > 0
	case "FBinomial":
		return a[0] >= 0 && a[0] <= 1 && p.Zs[0] >= 0
	case "FCategorical":
		s := 0.0
		for _, t := range a {
			if t < 0 {
				return false
			}
			s += t
		}
		return len(a) > 0 && math.Abs(s-1) < 1e-12
	case "FChiSquared":
		return a[0] > 0
	case "FGenGamma":
		return a[0] > 0 && a[1] > 0 && a[2] > 0
	case "FGeometric":
		return a[0] > 0 && a[0] <= 1
	case "FNegBinomial":
		return a[0] > 0 && a[1] >= 0 && a[1] < 1
	case "FPowerLaw":
		return a[0] > 1 && a[1] > 0
	}
	return true
}

// textbook log-density / log-mass (independent of the library)
func refLogPdf(fam string, p Params, x float64) float64 {
	a := p.Ps
	switch fam {
	case "FNormal":
		z := (x - a[0]) / a[1]
		return -0.5*math.Log(2*math.Pi) - math.Log(a[1]) - 0.5*z*z
	case "FTransNormal":
		z := (x + a[2] - a[0]) / a[1]
		return -0.5*math.Log(2*math.Pi) - math.Log(a[1]) - 0.5*z*z
	case "FLogTransNormal":
		if x < 0 {
			return ninf
		}
		y := math.Log(x + a[2])
		z := (y - a[0]) / a[1]
		return -0.5*math.Log(2*math.Pi) - math.Log(a[1]) - 0.5*z*z - y
	case "FExponential":
		if x < 0 {
			return ninf
		}
		return math.Log(a[0]) - a[0]*x
	case "FLaplace":
		return -math.Log(2*a[1]) - math.Abs(x-a[0])/a[1]
	case "FPareto":
		if x < a[0] {
			return ninf
		}
		return math.Log(a[1]) + a[1]*math.Log(a[0]) - (a[1]+1)*math.Log(x)
	case "FGPareto":
		mu, s, xi := a[0], a[1], a[2]
		z := (x - mu) / s
		if z < 0 || (xi < 0 && x > mu-s/xi) {
			return ninf
		}
		if xi == 0 {
			return -z - math.Log(s)
		}
		return -(1/xi+1)*math.Log1p(xi*z) - math.Log(s)
	case "FGev":
		mu, s, xi := a[0], a[1], a[2]
		z := (x - mu) / s
		if xi == 0 {
			return -z - math.Exp(-z) - math.Log(s)
		}
		t := 1 + xi*z
		if t <= 0 {
			return ninf
		}
		return -(1+1/xi)*math.Log(t) - math.Pow(t, -1/xi) - math.Log(s)
	case "FGamma":
		if x <= 0 {
			return ninf
		}
		return a[0]*math.Log(a[1]) - lg(a[0]) + (a[0]-1)*math.Log(x) - a[1]*x
	case "FBeta":
		th := x
		if p.Zs[0] == 1 {
			if x > 0 {
				return ninf
			}
			th = math.Exp(x)
		}
		if th < 0 || th > 1 {
			return ninf
		}
		return lg(a[0]+a[1]) - lg(a[0]) - lg(a[1]) + xlogy(a[0]-1, th) + xlogy(a[1]-1, 1-th)
	case "FBinomial":
		n := float64(p.Zs[0])
		if !isInt(x) || x < 0 || x > n {
			return ninf
		}
		return lg(n+1) - lg(x+1) - lg(n-x+1) + xlogy(x, a[0]) + xlogy(n-x, 1-a[0])
	case "FCategorical":
		if !isInt(x) || x < 0 || int(x) >= len(a) {
			return ninf
		}
		return math.Log(a[int(x)])
	case "FCauchy":
		z := (x - a[0]) / a[1]
		return -math.Log(math.Pi*a[1]) - math.Log(1+z*z)
	case "FChiSquared":
		if x < 0 || (x == 0 && a[0] > 2) {
			return ninf
		}
		return -(a[0]/2)*math.Log(2) - lg(a[0]/2) + xlogy(a[0]/2-1, x) - x/2
	case "FGenGamma":
		if x <= 0 {
			return ninf
		}
		return math.Log(a[2]) - a[1]*math.Log(a[0]) - lg(a[1]/a[2]) + (a[1]-1)*math.Log(x) - math.Pow(x/a[0], a[2])
	case "FGeometric":
		if !isInt(x) || x < 0 {
			return ninf
		}
		return xlogy(x, 1-a[0]) + math.Log(a[0])
	case "FNegBinomial":
		if !isInt(x) || x < 0 {
			return ninf
		}
		return lg(a[0]+x) - lg(x+1) - lg(a[0]) + xlogy(x, a[1]) + xlogy(a[0], 1-a[1])
	case "FPoisson":
		if !isInt(x) || x < 0 {
			return ninf
		}
		return xlogy(x, a[0]) - a[0] - lg(x+1)
	case "FPowerLaw":
		if x < a[1] {
			return ninf
		}
		return math.Log(a[0]-1) - math.Log(a[1]) - a[0]*math.Log(x/a[1])
	case "FDelta":
		if x == a[0] {
			return 0
		}
		return ninf
	}
	return math.NaN()
}

// support [lo, hi] used for quadrature (continuous) / summation (discrete)
func support(fam string, p Params) (float64, float64) {
	a := p.Ps
	switch fam {
	case "FExponential", "FGamma", "FChiSquared", "FGenGamma":
		return 0, math.Inf(1)
	case "FLogTransNormal":
		return math.Max(0, -a[2]), math.Inf(1)
	case "FPareto":
		return a[0], math.Inf(1)
	case "FPowerLaw":
		return a[1], math.Inf(1)
	case "FGPareto":
		if a[2] < 0 {
			return a[0], a[0] - a[1]/a[2]
		}
		return a[0], math.Inf(1)
	case "FGev":
		if a[2] > 0 {
			return a[0] - a[1]/a[2], math.Inf(1)
		}
		if a[2] < 0 {
			return math.Inf(-1), a[0] - a[1]/a[2]
		}
	case "FBeta":
		if p.Zs[0] == 1 {
			return math.Inf(-1), 0
		}
		return 0, 1
	}
	return math.Inf(-1), math.Inf(1)
}

func centre(fam string, p Params) float64 {
	switch fam {
	case "FNormal", "FLaplace", "FCauchy", "FGev":
		return p.Ps[0]
	case "FTransNormal":
		return p.Ps[0] - p.Ps[2]
	}
	return 0
}

// midpoint rule for the integral of f over [lo, hi] after a rational change of variable
func quad(f func(float64) float64, lo, hi, c float64, n int) float64 {
	s := 0.0
	for i := 0; i < n; i++ {
		t := (float64(i) + 0.5) / float64(n)
		var x, w float64
		switch {
		case !math.IsInf(lo, 0) && !math.IsInf(hi, 0):
			x, w = lo+(hi-lo)*t, hi-lo
		case !math.IsInf(lo, 0):
			x, w = lo+t/(1-t), 1/((1-t)*(1-t))
		case !math.IsInf(hi, 0):
			x, w = hi-t/(1-t), 1/((1-t)*(1-t))
		default:
			u := 2*t - 1
			x, w = c+u/(1-u*u), 2*(1+u*u)/((1-u*u)*(1-u*u))
		}
		v := f(x)
		if v != 0 {
			s += v * w
		}
	}
	return s / float64(n)
}

func hasFn(f *Fam, fn string) bool {
	for _, g := range f.Fns {
		if g == fn {
			return true
		}
	}
	return false
}

func logpdfGo(d interface{}, x float64) Outcome {
	return call(d, "LogPdf", ad.NewReal64(3.5), x)
}

func hunt(o Opts) {
	var fails []Failure
	seen := map[string]bool{}
	tried := 0
	report := func(f Failure) {
		k := f.Fam + "/" + f.Kind + "/" + f.Fn
		if seen[k] && len(fails) > 200 {
			return
		}
		seen[k] = true
		fails = append(fails, f)
	}
	num := func(o Outcome) float64 {
		switch o.Kind {
		case "val":
			return o.V
		case "ninf":
			return ninf
		case "pinf":
			return math.Inf(1)
		}
		return math.NaN()
	}
	close := func(a, b, rel float64) bool {
		if math.IsInf(b, 0) || math.IsInf(a, 0) {
			return a == b
		}
		return math.Abs(a-b) <= rel*math.Max(1, math.Abs(b))
	}
	checkPoint := func(f *Fam, p Params, x float64) {
		tried++
		d, err := f.New(ad.Real64Type, p)
		if err != nil || d == nil {
			return
		}
		obs, inc := evalAll(f, p, "LogPdf", x)
		if inc != "" {
			report(mkF(f.Name, "consistency", "LogPdf", p, x, inc, "identical outcomes"))
		}
		if hasFn(f, "Pdf") {
			// the Pdf method is `LogPdf; r.Exp(r)`: same error, else the exponential of what LogPdf returned
			po, pinc := evalAll(f, p, "Pdf", x)
			if pinc != "" {
				report(mkF(f.Name, "consistency", "Pdf", p, x, pinc, "identical outcomes"))
			}
			if ok, exp := pdfAgrees(obs, po); !ok {
				report(mkF(f.Name, "pdf-exp", "Pdf", p, x, fmt.Sprintf("%s %v", po.Kind, po.V), exp))
			}
		}
		ref := refLogPdf(f.Name, p, x)
		if math.IsNaN(ref) {
			return
		}
		if obs.Kind == "err" && f.Discrete && !isInt(x) {
			return // rejecting a non-integer with an error is a loud failure: accepted
		}
		v := num(obs)
		if math.IsInf(ref, -1) {
			if !(obs.Kind == "ninf") {
				report(mkF(f.Name, "support", "LogPdf", p, x, fmt.Sprintf("%s %v", obs.Kind, obs.V), "-Inf outside the support"))
			}
			return
		}
		if !close(v, ref, 1e-9) {
			report(mkF(f.Name, "formula", "LogPdf", p, x, fmt.Sprintf("%s %v", obs.Kind, obs.V), fmt.Sprintf("%v", ref)))
		}
	}
	// replayed cases first (cases the correspondence flagged, or a replay file)
	if o.Replay != "" {
		if b, err := os.ReadFile(o.Replay); err == nil {
			var rp struct {
				Cases []Case `json:"cases"`
			}
			json.Unmarshal(b, &rp)
			for _, c := range rp.Cases {
				if c.V != nil {
					vecCheck(c.Fam, *c.V, report, &tried)
					continue
				}
				if c.W != nil {
					wCheck(*c.W, c.Fn, report, &tried)
					continue
				}
				f := famByName(c.Fam)
				if f == nil || f.Name == "FDelta" {
					continue
				}
				if c.Ops != nil {
					histCheck(f, ad.Real64Type, c.P, c.Ops, NewRng(o.Seed+5), report, &tried)
					histCheck(f, ad.Float64Type, c.P, c.Ops, NewRng(o.Seed+5), report, &tried)
					continue
				}
				if c.Fn == "Ctor" && f.Name != "FCategorical" {
					// regression cases for constructor guards (e.g. negative binomial (2.5, 1), was F-C14-NEGBIN-P1):
					// acceptance must agree with the textbook parameter domain
					d, err := func() (d interface{}, err error) {
						defer func() {
							if e := recover(); e != nil {
								err = fmt.Errorf("panic")
							}
						}()
						return f.New(ad.Real64Type, c.P)
					}()
					tried++
					acc, val := err == nil && d != nil, refValid(f.Name, c.P)
					if acc && !val {
						report(mkF(f.Name, "ctor-accepts-invalid", "New", c.P, 0, "accepted", "error"))
					}
					if !acc && val {
						report(mkF(f.Name, "ctor-rejects-valid", "New", c.P, 0, "error", "accepted"))
					}
				}
				checkPoint(f, c.P, c.X)
				if c.Fn != "LogPdf" && c.Fn != "Ctor" && c.Fn != "Pdf" {
					cdfChecks(f, c.P, report, &tried, []float64{c.X})
				}
			}
		}
	}
	rng := NewRng(o.Seed + 104729)
	for round := 0; round < o.N; round++ {
		for i := range families {
			f := &families[i]
			r := rng.Split()
			// constructor verdicts
			for _, p := range []Params{f.Valid(r), func() Params {
				if f.Invalid != nil {
					return f.Invalid(r)
				}
				return f.Valid(r)
			}()} {
				tried++
				d, err := func() (d interface{}, err error) {
					defer func() {
						if e := recover(); e != nil {
							err = fmt.Errorf("panic")
						}
					}()
					return f.New(ad.Real64Type, p)
				}()
				acc := err == nil && d != nil
				val := refValid(f.Name, p)
				if acc && !val {
					report(mkF(f.Name, "ctor-accepts-invalid", "New", p, 0, "accepted", "error"))
				}
				if !acc && val {
					report(mkF(f.Name, "ctor-rejects-valid", "New", p, 0, "error", "accepted"))
				}
			}
			p := f.Valid(r)
			if !refValid(f.Name, p) {
				continue
			}
			for k := 0; k < 6; k++ {
				checkPoint(f, p, f.X(r, p))
			}
			if round%4 == 0 {
				normCheck(f, p, report, &tried)
				derivCheck(f, p, f.X(r, p), report, &tried)
				roundTrip(f, p, f.X(r, p), report, &tried)
				if len(f.Fns) > 1 {
					cdfChecks(f, p, report, &tried, nil)
				}
			}
		}
	}
	vecHunt(o, report, &tried)
	histHunt(o, report, &tried)
	vhistHunt(o, report, &tried)
	wideHunt(o, report, &tried)
	// unnormalised categorical weights: the textbook family needs sum theta = 1
	if f := famByName("FCategorical"); f != nil {
		p := Params{[]float64{0.25, 0.5, 4}, nil}
		if d, err := f.New(ad.Real64Type, p); err == nil && d != nil {
			report(mkF(f.Name, "ctor-accepts-invalid", "New", p, 0, "accepted", "error (weights do not sum to one)"))
		}
	}
	res := map[string]interface{}{"found": len(fails) > 0, "failures": fails, "tried": tried}
	b, _ := json.MarshalIndent(res, "", " ")
	os.MkdirAll(o.Out, 0755)
	os.WriteFile(filepath.Join(o.Out, "hunt.json"), b, 0644)
}

// exp(LogPdf) integrates / sums to one
func normCheck(f *Fam, p Params, report func(Failure), tried *int) {
	if f.Name == "FDelta" {
		return
	}
	// integrable-singularity shapes make the midpoint rule useless: skip them here
	for _, a := range p.Ps {
		if (f.Name == "FGamma" || f.Name == "FBeta" || f.Name == "FChiSquared" || f.Name == "FGenGamma" || f.Name == "FPareto" || f.Name == "FPowerLaw") && a < 1.5 {
			return
		}
		if (f.Name == "FPareto" || f.Name == "FPowerLaw") && a < 2.5 { // heavy tail: the midpoint rule converges too slowly
			return
		}
	}
	if (f.Name == "FGev" || f.Name == "FGPareto") && (math.Abs(p.Ps[2]) > 0.5 || p.Ps[1] < 0.1) {
		return
	}
	if p.Ps[len(p.Ps)-1] < 0.1 && !f.Discrete || (len(p.Ps) > 1 && p.Ps[1] < 0.1 && !f.Discrete) {
		return
	}
	d, err := f.New(ad.Real64Type, p)
	if err != nil || d == nil {
		return
	}
	*tried++
	pdf := func(x float64) float64 {
		o := logpdfGo(d, x)
		switch o.Kind {
		case "val":
			if f.Name == "FBeta" && p.Zs[0] == 1 {
				// log-scale beta: LogPdf(x) is the log-density of theta at theta = exp(x); mass is over theta
				return math.Exp(o.V + x)
			}
			return math.Exp(o.V)
		case "ninf":
			return 0
		}
		return math.NaN()
	}
	var total float64
	if f.Discrete {
		hi := 4000
		if f.Name == "FBinomial" {
			hi = int(p.Zs[0])
		}
		if f.Name == "FCategorical" {
			hi = len(p.Ps) - 1
		}
		if f.Name == "FGeometric" && p.Ps[0] < 0.01 || f.Name == "FNegBinomial" && p.Ps[1] > 0.99 && p.Ps[1] < 1 {
			return
		}
		for k := 0; k <= hi; k++ {
			total += pdf(float64(k))
		}
	} else {
		lo, hi := support(f.Name, p)
		total = quad(pdf, lo, hi, centre(f.Name, p), 40000)
	}
	if !(math.Abs(total-1) < 2e-3) {
		report(mkF(f.Name, "norm", "LogPdf", p, 0, fmt.Sprintf("total mass %v", total), "1"))
	}
}

// derivative slots (Real64 parameters as variables) against central differences
func derivCheck(f *Fam, p Params, x float64, report func(Failure), tried *int) {
	if f.Name == "FCategorical" || f.Name == "FChiSquared" || f.Name == "FDelta" || f.Name == "FBinomial" {
		return // parameters stored transformed / not differentiable through the constructor
	}
	ref := refLogPdf(f.Name, p, x)
	if math.IsInf(ref, 0) || math.IsNaN(ref) {
		return
	}
	for _, a := range p.Ps {
		if a != 0 && math.Abs(a) < 1.0/16 {
			return // near-boundary shapes: a central difference is not a usable reference
		}
	}
	n := len(p.Ps)
	if f.Name == "FTransNormal" || f.Name == "FLogTransNormal" {
		n = 2
	}
	vars := make([]ad.MagicScalar, n)
	for i := 0; i < n; i++ {
		vars[i] = ad.NewReal64(p.Ps[i])
	}
	ad.Variables(1, vars...)
	d, err := newWithScalars(f, vars, p)
	if err != nil || d == nil {
		return
	}
	*tried++
	r := ad.NewReal64(0.0)
	if o := call(d, "LogPdf", r, x); o.Kind != "val" {
		return
	}
	for i := 0; i < n; i++ {
		h := 1e-6 * math.Max(1, math.Abs(p.Ps[i]))
		pp, pm := clonePs(p), clonePs(p)
		pp.Ps[i] += h
		pm.Ps[i] -= h
		if !refValid(f.Name, pp) || !refValid(f.Name, pm) {
			continue
		}
		dp, e1 := f.New(ad.Float64Type, pp)
		dm, e2 := f.New(ad.Float64Type, pm)
		if e1 != nil || e2 != nil {
			continue
		}
		op, om := logpdfGo(dp, x), logpdfGo(dm, x)
		if op.Kind != "val" || om.Kind != "val" {
			continue
		}
		cd := (op.V - om.V) / (2 * h)
		if math.Abs(cd) > 1e4 {
			continue // next to a pole of the log-density: the central difference is not a reference
		}
		got := r.GetDerivative(i)
		if !(math.Abs(got-cd) <= 1e-4*math.Max(1, math.Abs(cd))) {
			report(mkF(f.Name, "deriv-slot", "LogPdf", p, x, fmt.Sprintf("d/dparam[%d] = %v", i, got), fmt.Sprintf("%v (central difference)", cd)))
		}
	}
}

func clonePs(p Params) Params {
	q := Params{append([]float64{}, p.Ps...), append([]int64{}, p.Zs...)}
	return q
}

// GetParameters -> SetParameters and Clone reproduce the distribution
func roundTrip(f *Fam, p Params, x float64, report func(Failure), tried *int) {
	d, err := f.New(ad.Real64Type, p)
	if err != nil || d == nil {
		return
	}
	pdf, ok := d.(st.ScalarPdf)
	if !ok {
		return
	}
	*tried++
	before := logpdfGo(d, x)
	func() {
		defer func() {
			if e := recover(); e != nil {
				report(mkF(f.Name, "roundtrip", "SetParameters", p, x, fmt.Sprintf("panic %v", e), "no panic"))
			}
		}()
		c := pdf.CloneScalarPdf()
		if o := logpdfGo(c, x); !sameOutcome(before, o) {
			report(mkF(f.Name, "roundtrip", "Clone", p, x, fmt.Sprintf("%v", o), fmt.Sprintf("%v", before)))
		}
		if f.Name == "FTransNormal" || f.Name == "FLogTransNormal" {
			return
		}
		ps := pdf.GetParameters().CloneVector()
		if err := c.SetParameters(ps); err != nil {
			report(mkF(f.Name, "roundtrip", "SetParameters", p, x, "error " + err.Error(), "nil"))
			return
		}
		o := logpdfGo(c, x)
		a, b := num(before2(before)), num(before2(o))
		if !(a == b || math.Abs(a-b) <= 1e-12*math.Max(1, math.Abs(a)) || (math.IsNaN(a) && math.IsNaN(b))) {
			report(mkF(f.Name, "roundtrip", "SetParameters(GetParameters)", p, x, fmt.Sprintf("%v", o), fmt.Sprintf("%v", before)))
		}
	}()
}
func before2(o Outcome) Outcome { return o }
func num(o Outcome) float64 {
	switch o.Kind {
	case "val":
		return o.V
	case "ninf":
		return ninf
	case "pinf":
		return math.Inf(1)
	}
	return math.NaN()
}

// Cdf: values in [0,1], monotone, derivative = density, limits 0 and 1; LogCdf = ln Cdf
func cdfChecks(f *Fam, p Params, report func(Failure), tried *int, extra []float64) {
	d, err := f.New(ad.Real64Type, p)
	if err != nil || d == nil {
		return
	}
	if o := call(d, "Cdf", ad.NewReal64(0), 1.0); o.Kind == "nosuch" {
		return
	}
	*tried++
	cdf := func(x float64) float64 { return num(call(d, "Cdf", ad.NewReal64(0.25), x)) }
	lcdf := func(x float64) float64 { return num(call(d, "LogCdf", ad.NewReal64(0.25), x)) }
	lo, hi := support(f.Name, p)
	c := centre(f.Name, p)
	scale := 1.0
	if len(p.Ps) > 1 && !f.Discrete {
		scale = math.Max(p.Ps[1], 1.0/64)
	}
	var xs []float64
	if f.Discrete {
		for k := -2; k <= len(p.Ps)+1; k++ {
			xs = append(xs, float64(k))
		}
	} else {
		a, b := lo, hi
		if math.IsInf(a, -1) {
			a = c - 8*scale
			if !math.IsInf(hi, 0) {
				a = hi - 8*scale
			}
		}
		if math.IsInf(b, 1) {
			b = a + 16*scale
		}
		for k := -3; k <= 35; k++ {
			xs = append(xs, a+(b-a)*float64(k)/32)
		}
	}
	xs = append(xs, extra...)
	prev := math.Inf(-1)
	prevx := 0.0
	for i, x := range xs {
		v := cdf(x)
		if math.IsNaN(v) || v < -1e-12 || v > 1+1e-12 {
			report(mkF(f.Name, "cdf-range", "Cdf", p, x, fmt.Sprintf("%v", v), "a value in [0,1]"))
			continue
		}
		if lv := lcdf(x); !(lv == math.Log(v) || (lv < -700 && v < 1e-300) || math.Abs(lv-math.Log(v)) <= 1e-9*math.Max(1, math.Abs(lv))) {
			report(mkF(f.Name, "cdf-log", "LogCdf", p, x, fmt.Sprintf("%v", lv), fmt.Sprintf("ln Cdf = %v", math.Log(v))))
		}
		if i < len(xs)-len(extra) && i > 0 && v < prev-1e-12 {
			// witness point: the earlier (larger-valued) point
			report(mkF(f.Name, "cdf-mono", "Cdf", p, prevx, fmt.Sprintf("Cdf(%v)=%v > Cdf(%v)=%v", prevx, prev, x, v), "non-decreasing"))
		}
		if i < len(xs)-len(extra) {
			prev, prevx = v, x
		}
		if f.Discrete {
			// discrete analogue of "the density is the derivative": Cdf(x) = sum of the masses at 0..floor(x)
			s := 0.0
			for k := 0; float64(k) <= x && k < 64; k++ {
				if m := num(logpdfGo(d, float64(k))); !math.IsNaN(m) {
					s += math.Exp(m)
				}
			}
			if !(math.Abs(v-s) <= 1e-9) {
				report(mkF(f.Name, "cdf-sum", "Cdf", p, x, fmt.Sprintf("%v", v), fmt.Sprintf("sum of the masses up to x = %v", s)))
			}
		}
		if !f.Discrete {
			ref := refLogPdf(f.Name, p, x)
			if !math.IsInf(ref, 0) && !math.IsNaN(ref) && x-1e-5*scale > lo && x+1e-5*scale < hi {
				h := 1e-5 * scale
				dd := (cdf(x+h) - cdf(x-h)) / (2 * h)
				pd := math.Exp(num(logpdfGo(d, x)))
				if !(math.Abs(dd-pd) <= 1e-4*math.Max(1e-3/scale, pd)) {
					report(mkF(f.Name, "cdf-deriv", "Cdf", p, x, fmt.Sprintf("dCdf/dx = %v", dd), fmt.Sprintf("pdf = %v", pd)))
				}
			}
		}
	}
	if !f.Discrete {
		left, right := c-1e6*scale, c+1e6*scale
		if !math.IsInf(lo, 0) {
			left = lo - 3*scale
		}
		if !math.IsInf(hi, 0) {
			right = hi + 3*scale
		}
		if math.IsInf(hi, 1) && !math.IsInf(lo, 0) {
			right = lo + 1e9*scale
		}
		if math.IsInf(lo, -1) && !math.IsInf(hi, 0) {
			left = hi - 1e6*scale
		}
		if v := cdf(left); !(math.Abs(v) < 1e-3) {
			report(mkF(f.Name, "cdf-limits", "Cdf", p, left, fmt.Sprintf("%v", v), "0 at the left end"))
		}
		// heavy tails (Cauchy-like shapes) approach 1 slowly: 1e-2 is enough to see a wrong limit
		if v := cdf(right); !(math.Abs(v-1) < 1e-2) && !(f.Name == "FPareto" && p.Ps[1] < 0.5) && !(f.Name == "FPowerLaw" && p.Ps[0] < 1.5) && !((f.Name == "FGPareto" || f.Name == "FGev") && p.Ps[2] > 1) {
			report(mkF(f.Name, "cdf-limits", "Cdf", p, right, fmt.Sprintf("%v", v), "1 at the right end"))
		}
	}
}

// constructors called with caller-supplied (variable) scalars, for the derivative check
func newWithScalars(f *Fam, v []ad.MagicScalar, p Params) (interface{}, error) {
	return famNewScalars(f.Name, v, p)
}
