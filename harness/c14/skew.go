// C14 harness: multivariate skew normal (statistics/vectorDistribution/skewnormal.go): cases for
// coq/C14/SkewModel.v (inverse / determinant of kappa = diag(s) omega diag(s) and the value of special.LogErfc
// are logged data) and the independent oracle of the hunt.
package main

import (
	"fmt"
	"math"

	. "adharness/common"

	ad "github.com/pbenner/autodiff"
	"github.com/pbenner/autodiff/special"
	vd "github.com/pbenner/autodiff/statistics/vectorDistribution"
)

func skewNew(t ad.ScalarType, c *WCase) (*vd.SkewNormalDistribution, error) {
	d, err := vd.NewSkewNormalDistribution(vecOf(t, c.Xi), matOf(t, c.Omega), vecOf(t, c.Alpha), vecOf(t, c.Scale))
	if err != nil {
		return nil, err
	}
	c.SInv, c.SDet = matrixTo(d.Normal1.SigmaInv), d.Normal1.SigmaDet.GetFloat64()
	return d, nil
}

func skewEvalAll(c *WCase) (Outcome, string) {
	var first Outcome
	incons := ""
	k := 0
	c.SInv, c.SDet = nil, 0
	for _, t := range []ad.ScalarType{ad.Float64Type, ad.Real64Type} {
		for _, r0 := range []float64{0.0, 7.25} {
			var o Outcome
			func() {
				defer func() {
					if e := recover(); e != nil {
						o = Outcome{"panic", 0}
					}
				}()
				d, err := skewNew(t, c)
				if err != nil || d == nil {
					o = Outcome{"ctorerr", 0}
					return
				}
				p := d
				if r0 != 0 {
					p = d.Clone()
				}
				r := ad.NewScalar(ad.Real64Type, r0)
				method := p.LogPdf
				if c.Pdf {
					method = p.Pdf
				}
				if err := method(r, vecOf(ad.Float64Type, c.XV)); err != nil {
					o = Outcome{"err", 0}
					return
				}
				o = classify(r.GetFloat64())
			}()
			if k == 0 {
				first = o
			} else if !sameOutcome(first, o) {
				incons = "skew normal outcome depends on parameter scalar type, on the previous content of the result register or on original vs clone"
			}
			k++
		}
	}
	return first, incons
}

// t = alpha . ((x - xi) / scale) in the order of the code
func skewT(c *WCase) float64 {
	t := 0.0
	for i := range c.Xi {
		if i < len(c.XV) && i < len(c.Alpha) && i < len(c.Scale) {
			t += c.Alpha[i] * ((c.XV[i] - c.Xi[i]) / c.Scale[i])
		}
	}
	return t
}

func genSkewCase(k int, r *Rng) WCase {
	d := 1 + k%3
	c := WCase{Kind: "Skew"}
	for i := 0; i < d; i++ {
		c.Xi = append(c.Xi, gLoc(r))
		c.XV = append(c.XV, float64(r.Range(-32, 32))/8)
		c.Alpha = append(c.Alpha, float64(r.Range(-8, 8))/4)
		s := []float64{0.5, 1, 1.5, 2, 3}[r.Intn(5)]
		if r.Intn(8) == 0 {
			s = -s
		}
		c.Scale = append(c.Scale, s)
	}
	c.Omega = gSPD(r, d)
	switch r.Intn(16) {
	case 0:
		c.Scale[r.Intn(d)] = 0 // kappa singular
	case 1:
		c.Alpha = c.Alpha[:d-1] // dimensions do not match
	case 2:
		c.XV = append(c.XV, 1) // dimension error of LogPdf
	case 3:
		for i := range c.Alpha {
			c.Alpha[i] = 0 // the plain normal
		}
	}
	return c
}

func skewCaseCoq(c WCase, o Outcome) string {
	hyp := ""
	if o.Kind != "ctorerr" && len(c.XV) >= len(c.Xi) {
		a := -(skewT(&c) / (1 * math.Sqrt2))
		v := special.LogErfc(a)
		if !math.IsNaN(v) && !math.IsInf(v, 0) && !math.IsNaN(a) && !math.IsInf(a, 0) {
			hyp = fmt.Sprintf("near1 lerfc %s (%s / %d) %s (%s / %d) -> ", RL(a),
				RL(math.Ceil(math.Max(1, math.Abs(a)))), int64(1)<<40, RL(v),
				RL(math.Ceil(math.Max(1, math.Abs(v)))), int64(1)<<40)
		}
	}
	obs := obsCoq(&Fam{}, o)
	if o.Kind == "err" {
		obs = "OErrDim"
	}
	wrap := ""
	if c.Pdf {
		wrap = "pdf_of ("
	}
	return fmt.Sprintf("(forall lerfc, %sagrees (%sskew_eval lerfc %s %s %s %s %s %s %s%s) %s)", hyp, wrap,
		RList(c.Xi), RMat(c.Omega), RList(c.Alpha), RList(c.Scale), RMat(c.SInv), RL(c.SDet), RList(c.XV), wclose(wrap), obs)
}

// ln (2 phi_K(x - xi) Phi(alpha . diag(s)^-1 (x - xi))) with the own Gauss-Jordan inverse of K
func refSkew(c WCase) (float64, bool) {
	d := len(c.Xi)
	if len(c.XV) != d || len(c.Alpha) != d || len(c.Scale) != d {
		return 0, false
	}
	kap := make([][]float64, d)
	for i := range kap {
		kap[i] = make([]float64, d)
		for j := range kap[i] {
			kap[i][j] = c.Scale[i] * c.Scale[j] * c.Omega[i][j]
		}
	}
	inv, det := gaussInvDet(kap)
	if inv == nil || det <= 0 {
		return 0, false
	}
	q := 0.0
	for i := 0; i < d; i++ {
		for j := 0; j < d; j++ {
			q += (c.XV[i] - c.Xi[i]) * inv[i][j] * (c.XV[j] - c.Xi[j])
		}
	}
	t := skewT(&c)
	if t < -20 {
		return 0, false // Phi underflows in the plain formula
	}
	return math.Log(2) - 0.5*(float64(d)*math.Log(2*math.Pi)+math.Log(det)) - 0.5*q + math.Log(0.5*math.Erfc(-t/math.Sqrt2)), true
}

func skewCheck(c WCase, report func(Failure), tried *int) {
	*tried++
	{ // the Pdf method against the LogPdf method
		cl, cp := c, c
		cl.Pdf, cp.Pdf = false, true
		lo, _ := skewEvalAll(&cl)
		po, inc := skewEvalAll(&cp)
		if inc != "" {
			report(wFailure(cp, "consistency", "Pdf", inc, "identical outcomes"))
		}
		if ok, exp := pdfAgrees(lo, po); !ok {
			report(wFailure(cp, "pdf-exp", "Pdf", fmt.Sprintf("%s %v", po.Kind, po.V), exp))
		}
	}
	c.Pdf = false
	o, inc := skewEvalAll(&c)
	if inc != "" {
		report(wFailure(c, "consistency", "LogPdf", inc, "identical outcomes"))
	}
	ref, ok := refSkew(c)
	if o.Kind == "ctorerr" {
		if ok {
			report(wFailure(c, "ctor-rejects-valid", "New", "error", "accepted"))
		}
		return
	}
	if !ok {
		return
	}
	v := num(o)
	if !(math.Abs(v-ref) <= 1e-9*math.Max(1, math.Abs(ref))) {
		report(wFailure(c, "formula", "LogPdf", fmt.Sprintf("%s %v", o.Kind, o.V), fmt.Sprintf("%v", ref)))
	}
	// d = 1 with alpha = 0 is the scalar normal with sigma = |s| sqrt(omega)
	if len(c.Xi) == 1 && c.Alpha[0] == 0 {
		sg := math.Abs(c.Scale[0]) * math.Sqrt(c.Omega[0][0])
		want := -0.5*math.Log(2*math.Pi) - math.Log(sg) - (c.XV[0]-c.Xi[0])*(c.XV[0]-c.Xi[0])/(2*sg*sg)
		if !(math.Abs(v-want) <= 1e-9*math.Max(1, math.Abs(want))) {
			report(wFailure(c, "cross-family", "LogPdf", fmt.Sprintf("%v", v), fmt.Sprintf("scalar normal: %v", want)))
		}
	}
}

func skewHunt(o Opts, report func(Failure), tried *int) {
	rng := NewRng(o.Seed*1000003 + 313)
	for k := 0; k < 6*o.N/4+12; k++ {
		skewCheck(genSkewCase(k, rng.Split()), report, tried)
	}
}
