// C14 harness, round 5: parameter LAYOUT of the composite distributions — scalar / vector / matrix Mixture,
// ScalarId / VectorId (products), ScalarIid / VectorIid (transparent) — coq/C14/MixParam.v.
//
// One case = a distribution tree (spec), built with Float64 and with Real64 parameters; its GetParameters(),
// one SetParameters(p) (p explicit, or the vector GetParameters() returned, or a clone of it), the outcome
// (nil / error / panic, the harness recovers), the tree read back from the object (stored log-weights of every
// mixture node, GetParameters() of every leaf) and GetParameters() after.  The Coq proposition replays
// MixParam.tree_set on the logged tree (CorrP.pcheck, exact rationals, vm_compute).
//
// The hunt's oracle is independent of the Coq model: p is ASSEMBLED from per-leaf windows by the generator, so
// "leaf i reads back its own window" needs no cursor arithmetic; LogPdf after the call is compared with a
// reference built from fresh leaf objects on the windows (own log-sum-exp); a round trip must change nothing
// bit for bit; the argument vector must not be modified.
package main

import (
	"encoding/json"
	"fmt"
	"math"
	"strings"

	. "adharness/common"

	ad "github.com/pbenner/autodiff"
	st "github.com/pbenner/autodiff/statistics"
	md "github.com/pbenner/autodiff/statistics/matrixDistribution"
	sd "github.com/pbenner/autodiff/statistics/scalarDistribution"
	vd "github.com/pbenner/autodiff/statistics/vectorDistribution"
)

// XF: a float64 that survives JSON (encoding/json refuses Inf / NaN)
type XF float64

func (x XF) MarshalJSON() ([]byte, error) {
	f := float64(x)
	switch {
	case math.IsNaN(f):
		return []byte(`"nan"`), nil
	case math.IsInf(f, 1):
		return []byte(`"inf"`), nil
	case math.IsInf(f, -1):
		return []byte(`"-inf"`), nil
	}
	return json.Marshal(f)
}
func (x *XF) UnmarshalJSON(b []byte) error {
	switch string(b) {
	case `"nan"`:
		*x = XF(math.NaN())
	case `"inf"`:
		*x = XF(math.Inf(1))
	case `"-inf"`:
		*x = XF(math.Inf(-1))
	default:
		var f float64
		if err := json.Unmarshal(b, &f); err != nil {
			return err
		}
		*x = XF(f)
	}
	return nil
}
func xfs(v []float64) []XF {
	r := make([]XF, len(v))
	for i, x := range v {
		r[i] = XF(x)
	}
	return r
}
func unxf(v []XF) []float64 {
	r := make([]float64, len(v))
	for i, x := range v {
		r[i] = float64(x)
	}
	return r
}

// PTree: K = leaf | iid | prod | mix.  In a spec W holds the weights handed to NewMixture; in an observed tree
// and in a target tree it holds the stored log-weights.
type PTree struct {
	K  string   `json:"k"`
	F  string   `json:"f,omitempty"` // leaf: Coq constructor of CorrP.lfam
	Ps []XF     `json:"ps,omitempty"`
	W  []XF     `json:"w,omitempty"`
	Cs []*PTree `json:"cs,omitempty"`
}

type leafFam struct {
	name, fam string // CorrP.lfam constructor, families.go name
	arity     int
	gen       func(r *Rng) []float64
	discrete  bool
}

var leafFams = []leafFam{
	{"LNormal", "FNormal", 2, func(r *Rng) []float64 { return []float64{gLoc(r), gPos(r)} }, false},
	{"LLaplace", "FLaplace", 2, func(r *Rng) []float64 { return []float64{gLoc(r), gPos(r)} }, false},
	{"LExponential", "FExponential", 1, func(r *Rng) []float64 { return []float64{gPos(r)} }, false},
	{"LGamma", "FGamma", 2, func(r *Rng) []float64 { return []float64{gPos(r), gPos(r)} }, false},
	{"LGev", "FGev", 3, func(r *Rng) []float64 { return []float64{gLoc(r), gPos(r), float64(r.Range(-8, 8)) / 8} }, false},
	{"LGPareto", "FGPareto", 3, func(r *Rng) []float64 { return []float64{gLoc(r), gPos(r), float64(r.Range(-8, 8)) / 8} }, false},
	{"LCauchy", "FCauchy", 2, func(r *Rng) []float64 { return []float64{gLoc(r), gPos(r)} }, false},
	{"LPareto", "FPareto", 2, func(r *Rng) []float64 { return []float64{gPos(r), gPos(r)} }, false},
	{"LPowerLaw", "FPowerLaw", 2, func(r *Rng) []float64 { return []float64{1 + gPos(r), gPos(r)} }, false},
	{"LPoisson", "FPoisson", 1, func(r *Rng) []float64 { return []float64{gPos(r)} }, true},
	{"LGeometric", "FGeometric", 1, func(r *Rng) []float64 { return []float64{gProb(r)} }, true},
	{"LGenGamma", "FGenGamma", 3, func(r *Rng) []float64 { return []float64{gPos(r), gPos(r), gPos(r)} }, false},
	{"LChiSquared", "FChiSquared", 1, func(r *Rng) []float64 { return []float64{gPos(r)} }, false},
}

func leafByName(n string) *leafFam {
	for i := range leafFams {
		if leafFams[i].name == n {
			return &leafFams[i]
		}
	}
	Die("unknown leaf family %s", n)
	return nil
}

// ---- building the Go objects ------------------------------------------------------------------------------
// level 0 = scalar, 1 = vector (dimension d), 2 = matrix (nr x d)

func buildScalar(t ad.ScalarType, n *PTree) (st.ScalarPdf, error) {
	switch n.K {
	case "leaf":
		d, err := famByName(leafByName(n.F).fam).New(t, Params{Ps: unxf(n.Ps)})
		if err != nil || d == nil {
			return nil, fmt.Errorf("leaf ctor")
		}
		return d.(st.ScalarPdf), nil
	case "mix":
		var ed []st.ScalarPdf
		for _, c := range n.Cs {
			e, err := buildScalar(t, c)
			if err != nil {
				return nil, err
			}
			ed = append(ed, e)
		}
		return sd.NewMixture(vecOf(t, unxf(n.W)), ed)
	}
	return nil, fmt.Errorf("no scalar node %s", n.K)
}

func buildVector(t ad.ScalarType, n *PTree, d int) (st.VectorPdf, error) {
	switch n.K {
	case "iid":
		e, err := buildScalar(t, n.Cs[0])
		if err != nil {
			return nil, err
		}
		return vd.NewScalarIid(e, d)
	case "prod":
		var ed []st.ScalarPdf
		for _, c := range n.Cs {
			e, err := buildScalar(t, c)
			if err != nil {
				return nil, err
			}
			ed = append(ed, e)
		}
		return vd.NewScalarId(ed...)
	case "mix":
		var ed []st.VectorPdf
		for _, c := range n.Cs {
			e, err := buildVector(t, c, d)
			if err != nil {
				return nil, err
			}
			ed = append(ed, e)
		}
		return vd.NewMixture(vecOf(t, unxf(n.W)), ed)
	}
	return nil, fmt.Errorf("no vector node %s", n.K)
}

func buildMatrix(t ad.ScalarType, n *PTree, nr, d int) (st.MatrixPdf, error) {
	switch n.K {
	case "iid":
		e, err := buildVector(t, n.Cs[0], d)
		if err != nil {
			return nil, err
		}
		return md.NewVectorIid(e, nr)
	case "prod":
		var ed []st.VectorPdf
		for _, c := range n.Cs {
			e, err := buildVector(t, c, d)
			if err != nil {
				return nil, err
			}
			ed = append(ed, e)
		}
		return md.NewVectorId(ed...)
	case "mix":
		var ed []st.MatrixPdf
		for _, c := range n.Cs {
			e, err := buildMatrix(t, c, nr, d)
			if err != nil {
				return nil, err
			}
			ed = append(ed, e)
		}
		return md.NewMixture(vecOf(t, unxf(n.W)), ed)
	}
	return nil, fmt.Errorf("no matrix node %s", n.K)
}

func (c *WCase) parBuild(t ad.ScalarType) (st.BasicDistribution, error) {
	switch c.Level {
	case 0:
		return buildScalar(t, c.Tree)
	case 1:
		return buildVector(t, c.Tree, c.D)
	}
	return buildMatrix(t, c.Tree, c.NR, c.D)
}

// the tree as the object holds it now (spec gives the leaf families)
func observe(o interface{}, spec *PTree) *PTree {
	r := &PTree{K: spec.K, F: spec.F}
	sub := func(i int, e interface{}) {
		if i < len(spec.Cs) {
			r.Cs = append(r.Cs, observe(e, spec.Cs[i]))
		}
	}
	switch m := o.(type) {
	case *sd.Mixture:
		r.W = xfs(floatsOf(m.Mixture.GetParameters()))
		for i, e := range m.Edist {
			sub(i, e)
		}
	case *vd.Mixture:
		r.W = xfs(floatsOf(m.Mixture.GetParameters()))
		for i, e := range m.Edist {
			sub(i, e)
		}
	case *md.Mixture:
		r.W = xfs(floatsOf(m.Mixture.GetParameters()))
		for i, e := range m.Edist {
			sub(i, e)
		}
	case *vd.ScalarIid:
		sub(0, m.Distribution)
	case *md.VectorIid:
		sub(0, m.Distribution)
	case *vd.ScalarId:
		for i, e := range m.Distributions {
			sub(i, e)
		}
	case *md.VectorId:
		for i, e := range m.Distributions {
			sub(i, e)
		}
	default:
		r.Ps = xfs(floatsOf(o.(st.BasicDistribution).GetParameters()))
	}
	return r
}

// flattened parameter vector of a tree whose W are log-weights (harness-side: concatenation, no cursor)
func flatten(n *PTree) []float64 {
	switch n.K {
	case "leaf":
		return unxf(n.Ps)
	}
	r := unxf(n.W)
	for _, c := range n.Cs {
		r = append(r, flatten(c)...)
	}
	return r
}

func sameTree(a, b *PTree) bool {
	if a.K != b.K || a.F != b.F || !sameBits(unxf(a.Ps), unxf(b.Ps)) || !sameBits(unxf(a.W), unxf(b.W)) || len(a.Cs) != len(b.Cs) {
		return false
	}
	for i := range a.Cs {
		if !sameTree(a.Cs[i], b.Cs[i]) {
			return false
		}
	}
	return true
}

// ---- evaluation points and LogPdf --------------------------------------------------------------------------
func (c *WCase) parPoint() (ad.ConstScalar, ad.Vector, ad.Matrix) {
	x := c.XS
	switch c.Level {
	case 0:
		return ad.ConstFloat64(x), nil, nil
	case 1:
		v := make([]float64, c.D)
		for i := range v {
			v[i] = x + float64(i)
		}
		return nil, vecOf(ad.Float64Type, v), nil
	}
	m := ad.NullDenseMatrix(ad.Float64Type, c.NR, c.D)
	for i := 0; i < c.NR; i++ {
		for j := 0; j < c.D; j++ {
			m.At(i, j).SetFloat64(x + float64(i+j))
		}
	}
	return nil, nil, m
}

func (c *WCase) parLogPdf(o st.BasicDistribution) (out Outcome) {
	defer func() {
		if e := recover(); e != nil {
			out = Outcome{"panic", 0}
		}
	}()
	r := ad.NewReal64(2.5)
	xs, xv, xm := c.parPoint()
	var err error
	switch d := o.(type) {
	case st.ScalarPdf:
		err = d.LogPdf(r, xs)
	case st.VectorPdf:
		err = d.LogPdf(r, xv)
	case st.MatrixPdf:
		err = d.LogPdf(r, xm)
	}
	if err != nil {
		return Outcome{"err", 0}
	}
	return classify(r.GetFloat64())
}

// reference log-density of a TARGET tree (W = log-weights) from fresh leaf objects
func refLeaf(n *PTree, x float64) float64 {
	d, err := famByName(leafByName(n.F).fam).New(ad.Float64Type, Params{Ps: unxf(n.Ps)})
	if err != nil || d == nil {
		return math.NaN()
	}
	return num(call(d, "LogPdf", ad.NewReal64(0.5), x))
}
func lse(ts []float64) float64 {
	m := math.Inf(-1)
	for _, t := range ts {
		if math.IsNaN(t) {
			return math.NaN()
		}
		m = math.Max(m, t)
	}
	if math.IsInf(m, 0) {
		return m
	}
	s := 0.0
	for _, t := range ts {
		s += math.Exp(t - m)
	}
	return m + math.Log(s)
}
func refTree(n *PTree, level int, x float64, d, nr int) float64 {
	if n.K == "mix" {
		ts := make([]float64, len(n.Cs))
		for j, c := range n.Cs {
			ts[j] = float64(n.W[j]) + refTree(c, level, x, d, nr)
		}
		return lse(ts)
	}
	switch level {
	case 0:
		return refLeaf(n, x)
	case 1:
		s := 0.0
		for i := 0; i < d; i++ {
			if n.K == "iid" {
				s += refTree(n.Cs[0], 0, x+float64(i), d, nr)
			} else {
				s += refTree(n.Cs[i], 0, x+float64(i), d, nr)
			}
		}
		return s
	}
	s := 0.0
	for i := 0; i < nr; i++ {
		if n.K == "iid" {
			s += refTree(n.Cs[0], 1, x+float64(i), d, nr)
		} else {
			s += refTree(n.Cs[i], 1, x+float64(i), d, nr)
		}
	}
	return s
}

// ---- one run ---------------------------------------------------------------------------------------------
type parRun struct {
	kind           string // val (nil) | err | panic | ctorerr
	pre, post      *PTree
	g0, g1, p, pAf []float64
	lp0, lp1       Outcome
	alias          string
}

func (c *WCase) parRun(t ad.ScalarType) (r parRun) {
	o, err := c.parBuild(t)
	if err != nil || o == nil {
		r.kind = "ctorerr"
		return
	}
	r.pre = observe(o, c.Tree)
	r.g0 = floatsOf(o.GetParameters())
	r.lp0 = c.parLogPdf(o)
	var p ad.Vector
	switch c.Mode {
	case "roundtrip":
		p = o.GetParameters()
	case "roundtrip-clone":
		p = o.GetParameters().CloneVector()
	default:
		p = vecOf(t, unxf(c.PV))
	}
	r.p = floatsOf(p)
	r.kind = "val"
	func() {
		defer func() {
			if e := recover(); e != nil {
				r.kind = "panic"
			}
		}()
		if err := o.SetParameters(p); err != nil {
			r.kind = "err"
		}
	}()
	r.pAf = floatsOf(p)
	r.post = observe(o, c.Tree)
	func() {
		defer func() {
			if e := recover(); e != nil {
				r.g1 = nil
			}
		}()
		r.g1 = floatsOf(o.GetParameters())
	}()
	r.lp1 = c.parLogPdf(o)
	// the vector GetParameters() returns is the caller's: writing to it must not reach the distribution
	func() {
		defer func() { recover() }()
		g := o.GetParameters()
		for i := 0; i < g.Dim(); i++ {
			g.At(i).SetFloat64(g.At(i).GetFloat64() - 1.5)
		}
		if lp := c.parLogPdf(o); !sameOutcome(lp, r.lp1) {
			r.alias = fmt.Sprintf("LogPdf %v -> %v after writing to the vector GetParameters() returned", r.lp1, lp)
		}
	}()
	return
}

func sameRun(a, b parRun) bool {
	if a.kind != b.kind {
		return false
	}
	if a.kind == "ctorerr" {
		return true
	}
	return sameTree(a.pre, b.pre) && sameTree(a.post, b.post) && sameBits(a.g0, b.g0) && sameBits(a.g1, b.g1) &&
		sameBits(a.p, b.p) && sameOutcome(a.lp0, b.lp0) && sameOutcome(a.lp1, b.lp1)
}

// Float64 and Real64 parameters must agree bit for bit; the first run is logged into the case
func parEvalAll(c *WCase) (Outcome, string) {
	a := c.parRun(ad.Float64Type)
	b := c.parRun(ad.Real64Type)
	incons := ""
	if !sameRun(a, b) {
		incons = "parameter layout / outcome of SetParameters depends on the scalar type of the parameters"
	}
	c.Pre, c.Post, c.G0, c.G1, c.PUsed = a.pre, a.post, xfs(a.g0), xfs(a.g1), xfs(a.p)
	return Outcome{a.kind, 0}, incons
}

// ---- Coq ---------------------------------------------------------------------------------------------------
func qxCoq(x float64) string {
	switch {
	case math.IsNaN(x):
		return "QNaN"
	case math.IsInf(x, 1):
		return "QPInf"
	case math.IsInf(x, -1):
		return "QNInf"
	}
	m, d := ratOf(x)
	return fmt.Sprintf("(qf (%s) %s)", m.String(), d.String())
}
func qxList(xs []XF) string {
	s := make([]string, len(xs))
	for i, x := range xs {
		s[i] = qxCoq(float64(x))
	}
	return "[" + strings.Join(s, "; ") + "]"
}
func treeCoq(n *PTree) string {
	cs := make([]string, len(n.Cs))
	for i, c := range n.Cs {
		cs[i] = treeCoq(c)
	}
	l := "[" + strings.Join(cs, "; ") + "]"
	switch n.K {
	case "leaf":
		return fmt.Sprintf("(PLeaf %s %s)", n.F, qxList(n.Ps))
	case "iid":
		return fmt.Sprintf("(PIid %s)", cs[0])
	case "prod":
		return fmt.Sprintf("(PProd %s)", l)
	}
	return fmt.Sprintf("(PMix %s %s)", qxList(n.W), l)
}

func parCaseCoq(c WCase, o Outcome) string {
	if o.Kind == "ctorerr" || c.Pre == nil || c.Post == nil {
		return "(true = true)" // nothing to replay: the spec was refused by a constructor (generator bug; counted as trivial)
	}
	kind := map[string]int{"val": 0, "err": 1, "panic": 2}[o.Kind]
	return fmt.Sprintf("(pcheck %s %s %s %d %s %s)", treeCoq(c.Pre), qxList(c.G0), qxList(c.PUsed), kind, treeCoq(c.Post), qxList(c.G1))
}

// ---- generator ---------------------------------------------------------------------------------------------
func genLeaf(r *Rng, lf *leafFam) *PTree {
	return &PTree{K: "leaf", F: lf.name, Ps: xfs(lf.gen(r))}
}
func genWeights(r *Rng, k int) []XF {
	w := make([]XF, k)
	for i := range w {
		w[i] = XF(float64(r.Range(1, 16)) / 4)
		if k > 1 && r.Intn(9) == 0 {
			w[i] = 0 // stored as -Inf
		}
	}
	allZero := true
	for _, x := range w {
		if x != 0 {
			allZero = false
		}
	}
	if allZero {
		w[0] = 1
	}
	return w
}

// scalar-level tree: a leaf, or (depth permitting) a mixture
func genScalarTree(r *Rng, depth int, pick func() *leafFam) *PTree {
	if depth > 0 && r.Intn(3) == 0 {
		k := 1 + r.Intn(3)
		n := &PTree{K: "mix", W: genWeights(r, k)}
		for i := 0; i < k; i++ {
			n.Cs = append(n.Cs, genScalarTree(r, depth-1, pick))
		}
		return n
	}
	return genLeaf(r, pick())
}
func genVectorTree(r *Rng, depth, d int, pick func() *leafFam) *PTree {
	switch r.Intn(4) {
	case 0:
		if depth > 0 {
			k := 1 + r.Intn(3)
			n := &PTree{K: "mix", W: genWeights(r, k)}
			for i := 0; i < k; i++ {
				n.Cs = append(n.Cs, genVectorTree(r, depth-1, d, pick))
			}
			return n
		}
		fallthrough
	case 1:
		n := &PTree{K: "prod"}
		for i := 0; i < d; i++ {
			n.Cs = append(n.Cs, genScalarTree(r, depth, pick))
		}
		return n
	}
	return &PTree{K: "iid", Cs: []*PTree{genScalarTree(r, depth, pick)}}
}
func genMatrixTree(r *Rng, depth, nr, d int, pick func() *leafFam) *PTree {
	switch r.Intn(4) {
	case 0:
		if depth > 0 {
			k := 1 + r.Intn(3)
			n := &PTree{K: "mix", W: genWeights(r, k)}
			for i := 0; i < k; i++ {
				n.Cs = append(n.Cs, genMatrixTree(r, depth-1, nr, d, pick))
			}
			return n
		}
		fallthrough
	case 1:
		n := &PTree{K: "prod"}
		for i := 0; i < nr; i++ {
			n.Cs = append(n.Cs, genVectorTree(r, depth, d, pick))
		}
		return n
	}
	return &PTree{K: "iid", Cs: []*PTree{genVectorTree(r, depth, d, pick)}}
}

// a target of the same shape: new log-weights (arbitrary dyadics: SetParameters stores them as they come) and
// new valid leaf parameters
func genTarget(r *Rng, n *PTree) *PTree {
	u := &PTree{K: n.K, F: n.F}
	if n.K == "leaf" {
		u.Ps = xfs(leafByName(n.F).gen(r))
		return u
	}
	for range n.W {
		u.W = append(u.W, XF(-float64(r.Range(1, 64))/16))
	}
	for _, c := range n.Cs {
		u.Cs = append(u.Cs, genTarget(r, c))
	}
	return u
}

func leaves(n *PTree, acc *[]*PTree) {
	if n.K == "leaf" {
		*acc = append(*acc, n)
	}
	for _, c := range n.Cs {
		leaves(c, acc)
	}
}
func hasDiscrete(n *PTree) bool {
	var ls []*PTree
	leaves(n, &ls)
	for _, l := range ls {
		if leafByName(l.F).discrete {
			return true
		}
	}
	return false
}

// the top node of a case is always a mixture; shapes in turn: 3 x Normal, 2 x GEV, Laplace + Exponential + Gamma,
// K = 1, nested, random heterogeneous, and the old blind spot (2 x 2 parameters) for comparison
func genParCase(k int, r *Rng) WCase {
	c := WCase{Kind: "Par", Level: k % 3, D: 1 + (k/3)%3, NR: 2}
	if c.Level == 2 {
		c.D = 1 + (k/3)%2 // NewVectorIid wants nr % d == 0
	}
	anyLeaf := func() *leafFam { return &leafFams[r.Intn(len(leafFams))] }
	fixed := func(names ...string) func() *leafFam {
		i := 0
		return func() *leafFam { i++; return leafByName(names[(i-1)%len(names)]) }
	}
	comp := func(pick func() *leafFam, depth int) *PTree {
		switch c.Level {
		case 0:
			return genScalarTree(r, depth, pick)
		case 1:
			return genVectorTree(r, depth, c.D, pick)
		}
		return genMatrixTree(r, depth, c.NR, c.D, pick)
	}
	mk := func(kc int, pick func() *leafFam, depth int) *PTree {
		n := &PTree{K: "mix", W: genWeights(r, kc)}
		for i := 0; i < kc; i++ {
			n.Cs = append(n.Cs, comp(pick, depth))
		}
		return n
	}
	switch (k / 3) % 8 {
	case 0:
		c.Tree = mk(3, fixed("LNormal"), 0)
	case 1:
		c.Tree = mk(2, fixed("LGev"), 0)
	case 2:
		c.Tree = mk(3, fixed("LLaplace", "LExponential", "LGamma"), 0)
	case 3:
		c.Tree = mk(1, anyLeaf, 0)
	case 4:
		c.Tree = mk(2+r.Intn(2), anyLeaf, 2) // nested
	case 5:
		c.Tree = mk(2, fixed("LNormal", "LLaplace"), 0)
	default:
		c.Tree = mk(1+r.Intn(4), anyLeaf, 1)
	}
	c.XS = float64(r.Range(1, 6))
	if !hasDiscrete(c.Tree) && r.Intn(2) == 0 {
		c.XS += float64(r.Range(0, 7)) / 8
	}
	switch r.Intn(8) {
	case 0:
		c.Mode = "roundtrip"
	case 1:
		c.Mode = "roundtrip-clone"
	default:
		c.Mode = "set"
		c.Target = genTarget(r, c.Tree)
		c.PV = xfs(flatten(c.Target))
		switch r.Intn(12) {
		case 0, 4: // one leaf refuses its window: everything after it must be left alone
			var ls []*PTree
			leaves(c.Target, &ls)
			l := ls[r.Intn(len(ls))]
			lf := leafByName(l.F)
			bad := map[string]int{"LNormal": 1, "LLaplace": 1, "LCauchy": 1, "LGev": 1, "LGPareto": 1}[lf.name]
			l.Ps[bad] = XF(gNonPos(r))
			c.PV = xfs(flatten(c.Target))
			c.BadLeaf = true
		case 1: // entries left over: a mixture ignores them
			c.PV = append(c.PV, XF(gLoc(r)))
			c.Extra = 1
		case 2: // too short: the cursor runs out
			if cut := 1 + r.Intn(2); cut < len(c.PV) {
				c.PV = c.PV[:len(c.PV)-cut]
				c.Short = true
			}
		case 3: // weights only
			c.PV = c.PV[:len(c.Tree.W)]
			c.Short = true
		}
	}
	return c
}

// ---- property oracle (hunt) ----------------------------------------------------------------------------------
func parFailure(c WCase, kind, obs, exp string) Failure {
	cc := c
	return Failure{Fam: "WPar", Kind: kind, Fn: "SetParameters", P: Params{}, X: c.XS, Observed: obs, Expected: exp, W: &cc}
}

func closeTo(a, b float64) bool {
	if math.IsNaN(a) || math.IsNaN(b) {
		return math.IsNaN(a) && math.IsNaN(b)
	}
	if math.IsInf(a, 0) || math.IsInf(b, 0) {
		return a == b
	}
	return math.Abs(a-b) <= 1e-9*math.Max(1, math.Abs(b))
}

func parCheck(c WCase, report func(Failure), tried *int) {
	*tried++
	for _, t := range []ad.ScalarType{ad.Float64Type, ad.Real64Type} {
		r := c.parRun(t)
		if r.kind == "ctorerr" {
			return
		}
		tname := "float64"
		if t == ad.Real64Type {
			tname = "real64"
		}
		tn := "[" + tname + " parameters] "
		if !sameBits(r.p, r.pAf) {
			report(parFailure(c, "param-arg", tn+fmt.Sprintf("argument vector after the call: %v", r.pAf), fmt.Sprintf("unchanged: %v", r.p)))
		}
		if !sameBits(r.g0, flatten(r.pre)) {
			report(parFailure(c, "param-get", tn+fmt.Sprintf("GetParameters() = %v", r.g0), fmt.Sprintf("log-weights then every component's parameters in order: %v", flatten(r.pre))))
		}
		switch {
		case c.Mode != "set":
			if r.kind != "val" {
				report(parFailure(c, "param-roundtrip", tn+"SetParameters(GetParameters()) -> "+r.kind, "nil"))
			}
			if !sameTree(r.pre, r.post) || !sameBits(r.g0, r.g1) {
				report(parFailure(c, "param-roundtrip", tn+fmt.Sprintf("parameters after SetParameters(GetParameters()): %v", flatten(r.post)), fmt.Sprintf("unchanged: %v", r.g0)))
			}
			if !sameOutcome(r.lp0, r.lp1) {
				report(parFailure(c, "param-roundtrip", tn+fmt.Sprintf("LogPdf after SetParameters(GetParameters()): %v", r.lp1), fmt.Sprintf("unchanged: %v", r.lp0)))
			}
		case c.Short:
			// too few entries: what happens is the model's business (panic half-way is what the code does)
		case c.BadLeaf:
			// first refused window at offset off: everything before it is new, everything from it on is old
			want := flatten(c.Target)
			var ls []*PTree
			off := -1
			var walk func(n *PTree, pos int) int
			walk = func(n *PTree, pos int) int {
				if n.K == "leaf" {
					ps := unxf(n.Ps)
					if d, err := famByName(leafByName(n.F).fam).New(ad.Float64Type, Params{Ps: ps}); (err != nil || d == nil) && off < 0 {
						off = pos
					}
					return pos + len(ps)
				}
				pos += len(n.W)
				for _, ch := range n.Cs {
					pos = walk(ch, pos)
				}
				return pos
			}
			walk(c.Target, 0)
			_ = ls
			if off < 0 {
				return
			}
			exp := append(append([]float64{}, want[:off]...), r.g0[off:]...)
			if r.kind != "err" {
				report(parFailure(c, "param-window", tn+"SetParameters with an invalid window -> "+r.kind, "error"))
			}
			if !sameBits(flatten(r.post), exp) {
				report(parFailure(c, "param-window", tn+fmt.Sprintf("parameters after the refused call: %v", flatten(r.post)), fmt.Sprintf("%v", exp)))
			}
		default:
			want := flatten(c.Target)
			if r.kind != "val" {
				report(parFailure(c, "param-window", tn+"SetParameters(valid vector) -> "+r.kind, "nil"))
				continue
			}
			if !sameBits(flatten(r.post), want) || !sameBits(r.g1, want) {
				report(parFailure(c, "param-window", tn+fmt.Sprintf("each component's parameters after SetParameters(p): %v (GetParameters: %v)", flatten(r.post), r.g1),
					fmt.Sprintf("its own window of p: %v", want)))
				continue
			}
			ref := refTree(c.Target, c.Level, c.XS, c.D, c.NR)
			if got := num(r.lp1); r.lp1.Kind != "err" && r.lp1.Kind != "panic" && !closeTo(got, ref) {
				report(parFailure(c, "param-logpdf", tn+fmt.Sprintf("LogPdf after SetParameters(p): %v", r.lp1), fmt.Sprintf("%v (fresh components on the windows of p)", ref)))
			}
		}
		if r.alias != "" {
			// the kind carries the scalar type: the known finding is about Real64 (shared *Real64 entries) only
			report(parFailure(c, "param-get-alias:"+tname, tn+r.alias, "unchanged"))
		}
	}
	if c.Level == 0 && c.Mode != "set" {
		parConfigTrip(c, report)
	}
}

// ExportConfig -> JSON -> ImportConfig into a fresh scalar mixture reproduces the distribution
func parConfigTrip(c WCase, report func(Failure)) {
	defer func() {
		if e := recover(); e != nil {
			report(parFailure(c, "param-config", fmt.Sprintf("ImportConfig(ExportConfig()) panics: %v", e), "no panic"))
		}
	}()
	o, err := c.parBuild(ad.Real64Type)
	if err != nil {
		return
	}
	for _, w := range c.Tree.W {
		if w == 0 {
			return
		}
	}
	cfg, ok := jsonTrip(o.ExportConfig())
	if !ok {
		return // Inf / NaN do not survive JSON
	}
	m := &sd.Mixture{}
	if err := m.ImportConfig(cfg, ad.Real64Type); err != nil {
		kind := "param-config"
		var ls []*PTree
		leaves(c.Tree, &ls)
		for _, l := range ls {
			if l.F == "LChiSquared" && strings.Contains(err.Error(), "unknown distribution: scalar:chi-squared distribution") {
				kind = "param-config-unregistered" // F-C14-CHISQ-REGISTRY
			}
		}
		report(parFailure(c, kind, "ImportConfig(ExportConfig()) error: "+err.Error(), "nil"))
		return
	}
	a, b := c.parLogPdf(o), c.parLogPdf(m)
	if a.Kind != b.Kind || !closeTo(num(a), num(b)) {
		report(parFailure(c, "param-config", fmt.Sprintf("LogPdf of the re-imported mixture: %v", b), fmt.Sprintf("%v", a)))
	}
	var la, lb []*PTree
	leaves(observe(o, c.Tree), &la)
	leaves(observe(m, c.Tree), &lb)
	if len(la) != len(lb) {
		report(parFailure(c, "param-config", fmt.Sprintf("%d leaves after ImportConfig(ExportConfig())", len(lb)), fmt.Sprint(len(la))))
		return
	}
	for i := range la {
		if !sameBits(unxf(la[i].Ps), unxf(lb[i].Ps)) {
			report(parFailure(c, "param-config", fmt.Sprintf("leaf %d after ImportConfig(ExportConfig()): %v", i, unxf(lb[i].Ps)), fmt.Sprint(unxf(la[i].Ps))))
		}
	}
}

func parHunt(o Opts, report func(Failure), tried *int) {
	rng := NewRng(o.Seed*1000003 + 523)
	for k := 0; k < 24*o.N/4+72; k++ {
		parCheck(genParCase(k, rng.Split()), report, tried)
	}
}
