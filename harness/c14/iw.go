// C14 harness: inverse Wishart / normal-inverse-Wishart (statistics/matrixDistribution), dimensions 1..3: cases
// for coq/C14/IWModel.v (|S|, X^-1, |X|, the inverse / determinant of sigma/kappa and special.Mlgamma are logged
// data) and the independent oracle of the hunt.
package main

import (
	"fmt"
	"math"

	. "adharness/common"

	ad "github.com/pbenner/autodiff"
	"github.com/pbenner/autodiff/algorithm/determinant"
	"github.com/pbenner/autodiff/algorithm/matrixInverse"
	"github.com/pbenner/autodiff/special"
	md "github.com/pbenner/autodiff/statistics/matrixDistribution"
	vd "github.com/pbenner/autodiff/statistics/vectorDistribution"
)

// logs X^-1, |X| (as LogPdf obtains them) and, for the NIW, the inner normal's view of sigma/kappa
func iwLog(t ad.ScalarType, c *WCase) {
	c.XInv, c.XDet, c.PInv, c.PDet = nil, 0, nil, 0
	func() {
		defer func() { recover() }()
		x := matOf(t, c.XM)
		xi, e1 := matrixInverse.Run(x, matrixInverse.PositiveDefinite{true})
		xd, e2 := determinant.Run(x, determinant.PositiveDefinite{true})
		if e1 == nil && e2 == nil {
			c.XInv, c.XDet = matrixTo(xi), xd.GetFloat64()
		}
	}()
	if c.Kind == "NIW" {
		func() {
			defer func() { recover() }()
			n := len(c.XM)
			sp := ad.NullDenseMatrix(t, n, n)
			r1 := ad.NullScalar(t)
			sp.MmulS(matOf(t, c.XM), r1.Div(ad.ConstFloat64(1.0), sc(t, c.Kappa)))
			if nrm, err := vd.NewNormalDistribution(vecOf(t, c.Xi), sp); err == nil {
				c.PInv, c.PDet = matrixTo(nrm.SigmaInv), nrm.SigmaDet.GetFloat64()
			}
		}()
	}
	c.Mlg = special.Mlgamma(c.Nu/2, len(c.S))
}

func iwEvalAll(c *WCase) (Outcome, string) {
	var first Outcome
	incons := ""
	k := 0
	c.SDet = 0
	iwLog(ad.Real64Type, c)
	for _, t := range []ad.ScalarType{ad.Float64Type, ad.Real64Type} {
		for _, r0 := range []float64{0.0, 7.25} {
			var o Outcome
			func() {
				defer func() {
					if e := recover(); e != nil {
						o = Outcome{"panic", 0}
					}
				}()
				r := ad.NewScalar(ad.Real64Type, r0)
				var err error
				if c.Kind == "IW" {
					d, e := md.NewInverseWishartDistribution(sc(t, c.Nu), matOf(t, c.S))
					if e != nil || d == nil {
						o = Outcome{"ctorerr", 0}
						return
					}
					c.SDet = d.SDet.GetFloat64()
					if r0 != 0 {
						d = d.Clone()
					}
					if c.Pdf {
						err = d.Pdf(r, matOf(ad.Float64Type, c.XM))
					} else {
						err = d.LogPdf(r, matOf(ad.Float64Type, c.XM))
					}
				} else {
					d, e := md.NewNormalIWishartDistribution(sc(t, c.Kappa), sc(t, c.Nu), vecOf(t, c.Xi), matOf(t, c.S))
					if e != nil || d == nil {
						o = Outcome{"ctorerr", 0}
						return
					}
					c.SDet = d.SDet.GetFloat64()
					if c.Clone {
						d = d.Clone()
					}
					if c.Pdf {
						err = d.Pdf(r, vecOf(ad.Float64Type, c.XV), matOf(ad.Float64Type, c.XM))
					} else {
						err = d.LogPdf(r, vecOf(ad.Float64Type, c.XV), matOf(ad.Float64Type, c.XM))
					}
				}
				if err != nil {
					o = Outcome{"err", 0}
					return
				}
				o = classify(r.GetFloat64())
			}()
			if k == 0 {
				first = o
			} else if !sameOutcome(first, o) {
				incons = "matrix family outcome depends on parameter scalar type, on the previous content of the result register or on original vs clone"
			}
			k++
		}
	}
	return first, incons
}

func genIWCase(k int, r *Rng) WCase {
	d := 1 + (k/2)%3
	c := WCase{Kind: "IW"}
	if k%2 == 1 {
		c.Kind = "NIW"
	}
	c.Nu = float64(d-1) + []float64{0.5, 1, 2, 3.5, 5}[r.Intn(5)]
	c.S = gSPD(r, d)
	c.XM = gSPD(r, d)
	if c.Kind == "NIW" {
		c.Kappa = []float64{0.5, 1, 2, 4}[r.Intn(4)]
		for i := 0; i < d; i++ {
			c.Xi = append(c.Xi, gLoc(r))
			c.XV = append(c.XV, float64(r.Range(-16, 16))/8)
		}
		c.Clone = r.Intn(6) == 0 // F-C14-NIW-CLONE: LogPdf of a clone panics
	}
	switch r.Intn(14) {
	case 0:
		c.S[0][0] = -c.S[0][0] // not positive definite: constructor error
	case 1:
		c.XM[d-1][d-1] = -c.XM[d-1][d-1] // LogPdf error
	case 2:
		c.Nu = float64(d-1) - 0.5 // outside the textbook range, accepted (F-C14-IW-NU)
		if c.Nu == 0 {
			c.Nu = -0.5
		}
	}
	return c
}

func iwCaseCoq(c WCase, o Outcome) string {
	hyp := ""
	if o.Kind != "ctorerr" && !math.IsNaN(c.Mlg) && !math.IsInf(c.Mlg, 0) {
		hyp = fmt.Sprintf("at1 (mlgam %d%%nat) %s %s -> ", len(c.S), RL(c.Nu/2), RL(c.Mlg))
	}
	obs := obsCoq(&Fam{}, o)
	if o.Kind == "err" {
		obs = "OErrDim"
	}
	wrap := ""
	if c.Pdf {
		wrap = "pdf_of ("
	}
	if c.Kind == "IW" {
		return fmt.Sprintf("(forall mlgam, %sagrees (%siw_eval mlgam %s %s %s %s %s%s) %s)", hyp, wrap,
			RL(c.Nu), RMat(c.S), RL(c.SDet), RMat(c.XInv), RL(c.XDet), wclose(wrap), obs)
	}
	cl := "false"
	if c.Clone {
		cl = "true"
	}
	return fmt.Sprintf("(forall mlgam, %sagrees (%sniw_eval mlgam %s %s %s %s %s %s %s %s %s %s %s%s) %s)", hyp, wrap, cl,
		RL(c.Kappa), RL(c.Nu), RList(c.Xi), RMat(c.S), RL(c.SDet), RList(c.XV), RMat(c.PInv), RL(c.PDet),
		RMat(c.XInv), RL(c.XDet), wclose(wrap), obs)
}

// textbook log-density with own Gauss-Jordan inverses / determinants and math.Lgamma
func refIW(c *WCase) (float64, bool) {
	d := len(c.S)
	if c.Nu <= float64(d-1) {
		return 0, false
	}
	_, sdet := gaussInvDet(c.S)
	xinv, xdet := gaussInvDet(c.XM)
	if xinv == nil || !(sdet > 0) || !(xdet > 0) {
		return 0, false
	}
	// positive definite: leading minors through the determinant of the leading blocks
	for m := 1; m < d; m++ {
		sub := func(a [][]float64) [][]float64 {
			b := make([][]float64, m)
			for i := range b {
				b[i] = a[i][:m]
			}
			return b
		}
		if _, dd := gaussInvDet(sub(c.S)); !(dd > 0) {
			return 0, false
		}
		if _, dd := gaussInvDet(sub(c.XM)); !(dd > 0) {
			return 0, false
		}
	}
	tr, trHad := 0.0, 0.0
	for i := 0; i < d; i++ {
		for k := 0; k < d; k++ {
			tr += c.S[i][k] * xinv[k][i]
		}
		trHad += c.S[i][i] * xinv[i][i] // what an element-wise product in place of the matrix product gives
	}
	c.hadDiff = (tr - trHad) / 2
	fd := float64(d)
	mlg := fd * (fd - 1) / 4 * math.Log(math.Pi)
	for i := 1; i <= d; i++ {
		mlg += lg(c.Nu/2 + (1-float64(i))/2)
	}
	v := c.Nu/2*math.Log(sdet) - c.Nu*fd/2*math.Log(2) - mlg - (c.Nu+fd+1)/2*math.Log(xdet) - tr/2
	if c.Kind == "NIW" {
		q := 0.0
		for i := 0; i < d; i++ {
			for j := 0; j < d; j++ {
				q += (c.XV[i] - c.Xi[i]) * (xinv[i][j] * c.Kappa) * (c.XV[j] - c.Xi[j])
			}
		}
		v += -0.5*(fd*math.Log(2*math.Pi)+math.Log(xdet)-fd*math.Log(c.Kappa)) - 0.5*q
	}
	return v, true
}

func iwCheck(c WCase, report func(Failure), tried *int) {
	*tried++
	{ // the Pdf method against the LogPdf method
		cl, cp := c, c
		cl.Pdf, cp.Pdf = false, true
		lo, _ := iwEvalAll(&cl)
		po, inc := iwEvalAll(&cp)
		if inc != "" {
			report(wFailure(cp, "consistency", "Pdf", inc, "identical outcomes"))
		}
		if ok, exp := pdfAgrees(lo, po); !ok {
			report(wFailure(cp, "pdf-exp", "Pdf", fmt.Sprintf("%s %v", po.Kind, po.V), exp))
		}
	}
	c.Pdf = false
	o, inc := iwEvalAll(&c)
	if inc != "" {
		report(wFailure(c, "consistency", "LogPdf", inc, "identical outcomes"))
	}
	if o.Kind != "ctorerr" && c.Nu <= float64(len(c.S)-1) {
		report(wFailure(c, "ctor-accepts-invalid", "New", "accepted", "error (nu <= d - 1)"))
		return
	}
	ref, ok := refIW(&c)
	if o.Kind == "ctorerr" {
		if ok {
			report(wFailure(c, "ctor-rejects-valid", "New", "error", "accepted"))
		}
		return
	}
	if !ok {
		return
	}
	if o.Kind == "panic" && c.Clone {
		f := wFailure(c, "history-panic", "LogPdf", "panic", "Clone then LogPdf: the value of the original")
		f.Fam = "MNormalIWishart" // the known finding F-C14-NIW-CLONE is filed under this name (vhist.go)
		report(f)
		return
	}
	v := num(o)
	if !(math.Abs(v-ref) <= 1e-9*math.Max(1, math.Abs(ref))) {
		exp := fmt.Sprintf("%v", ref)
		if math.Abs(v-(ref+c.hadDiff)) <= 1e-9*math.Max(1, math.Abs(ref)) {
			exp += " (observed = the formula with the hadamard product S o X^-1 in place of S X^-1 under the trace)"
		}
		report(wFailure(c, "formula", "LogPdf", fmt.Sprintf("%s %v", o.Kind, o.V), exp))
	}
}

func iwHunt(o Opts, report func(Failure), tried *int) {
	rng := NewRng(o.Seed*1000003 + 419)
	for k := 0; k < 6*o.N/4+12; k++ {
		iwCheck(genIWCase(k, rng.Split()), report, tried)
	}
}
