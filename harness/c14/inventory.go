// C14 mutator inventory (`--extra inventory --replay <library root>`): go/ast walk over
// statistics/{scalar,vector,matrix}Distribution listing, for every struct type, its fields and every
// method that writes the receiver (`*recv = ...`, `recv.f = ...`, `recv.f.M(...)` for a method M that is
// not known to be read-only), with the writes in SOURCE ORDER and the receiver fields they read.  The
// state model coq/C14/SModel.v covers exactly the mutators of the committed inventory
// (corpus/C14/mutators.json); props/c14.py reports any difference as a lost tie.
package main

import (
	"encoding/json"
	"fmt"
	"go/ast"
	"go/parser"
	"go/token"
	"os"
	"path/filepath"
	"sort"
	"strings"
)

type invMethod struct {
	Name   string   `json:"name"`
	Writes []string `json:"writes"`
}
type invType struct {
	Pkg     string      `json:"pkg"`
	Type    string      `json:"type"`
	Fields  []string    `json:"fields"`
	Methods []invMethod `json:"methods"`
}

func invExpr(e ast.Expr) string {
	switch e := e.(type) {
	case *ast.Ident:
		return e.Name
	case *ast.StarExpr:
		return "*" + invExpr(e.X)
	case *ast.SelectorExpr:
		return invExpr(e.X) + "." + e.Sel.Name
	case *ast.ArrayType:
		return "[]" + invExpr(e.Elt)
	case *ast.IndexExpr:
		return invExpr(e.X) + "[]"
	case *ast.CallExpr:
		return invExpr(e.Fun) + "()"
	case *ast.ParenExpr:
		return invExpr(e.X)
	}
	return fmt.Sprintf("%T", e)
}

// selector path rooted at the receiver variable
func invRecvPath(e ast.Expr, rn string) (string, bool) {
	switch e := e.(type) {
	case *ast.Ident:
		if e.Name == rn {
			return "", true
		}
	case *ast.SelectorExpr:
		if p, ok := invRecvPath(e.X, rn); ok {
			if p == "" {
				return e.Sel.Name, true
			}
			return p + "." + e.Sel.Name, true
		}
	case *ast.IndexExpr:
		if p, ok := invRecvPath(e.X, rn); ok {
			return p + "[]", true
		}
	case *ast.StarExpr:
		if p, ok := invRecvPath(e.X, rn); ok {
			return "*" + p, true
		}
	case *ast.ParenExpr:
		return invRecvPath(e.X, rn)
	}
	return "", false
}

// methods of scalars / vectors / matrices / distributions that do not modify their receiver
var invReadOnly = map[string]bool{"GetFloat64": true, "GetValue": true, "Type": true, "CloneScalar": true, "CloneVector": true,
	"CloneMatrix": true, "Dim": true, "Dims": true, "At": true, "ConstAt": true, "GetOrder": true, "GetN": true,
	"GetDerivative": true, "String": true, "LogPdf": true, "Pdf": true, "Cdf": true, "LogCdf": true, "Clone": true,
	"CloneScalarPdf": true, "CloneVectorPdf": true, "CloneMatrixPdf": true, "GetParameters": true, "ScalarType": true,
	"ElementType": true, "ExportConfig": true, "NComponents": true, "NStates": true, "NEDists": true, "Slice": true,
	"ConstSlice": true, "T": true, "Row": true, "Col": true, "Diag": true, "AsVector": true, "AsMatrix": true,
	"AppendVector": true, "GetInt": true, "Mean": true, "Variance": true, "LogH": true,
	"ConstRow": true, "ConstCol": true, "Likelihood": true, "Posterior": true, "PosteriorMarginals": true, "Viterbi": true, "GetBasicMixture": true, "GetBasicHmm": true}

func invWrites(b *ast.BlockStmt, rn string) []string {
	var out []string
	if b == nil || rn == "" {
		return nil
	}
	reads := func(args []ast.Expr) string {
		var rs []string
		for _, a := range args {
			ast.Inspect(a, func(n ast.Node) bool {
				if e, ok := n.(ast.Expr); ok {
					if p, ok := invRecvPath(e, rn); ok && p != "" {
						rs = append(rs, p)
						return false
					}
				}
				return true
			})
		}
		return strings.Join(rs, ",")
	}
	ast.Inspect(b, func(n ast.Node) bool {
		switch n := n.(type) {
		case *ast.AssignStmt:
			for _, l := range n.Lhs {
				if p, ok := invRecvPath(l, rn); ok && p != "" {
					out = append(out, p+" = ...("+reads(n.Rhs)+")")
				}
			}
		case *ast.CallExpr:
			if se, ok := n.Fun.(*ast.SelectorExpr); ok {
				if p, ok := invRecvPath(se.X, rn); ok && p != "" && !invReadOnly[se.Sel.Name] {
					out = append(out, p+"."+se.Sel.Name+"("+reads(n.Args)+")")
				}
			}
		}
		return true
	})
	return out
}

// ---- shapes of the Pdf / Cdf methods (round 6) ----------------------------------------------------------
// A method `func (d *T) Pdf(r Scalar, x ...) error` is an exp-wrapper of M when its body is exactly
//     if err := d.M(r, x...); err != nil { return err }
//     r.Exp(r)
//     return nil
// with the method's own parameters passed on in order.  The table of all Pdf / Cdf methods of the three packages is
// re-generated from the source on every run as a Coq definition (gen_shapes.v) and compared inside Coq with the table
// the model is proved about (coq/C14/CorrS.v: eval f Pdf = pdf_of (eval f LogPdf), ...).
type invShape struct {
	Pkg, Type, Method, Shape string
}

func invShapeOf(fd *ast.FuncDecl) string {
	if fd.Body == nil || fd.Recv == nil || len(fd.Recv.List[0].Names) == 0 {
		return "SOther"
	}
	rn := fd.Recv.List[0].Names[0].Name
	var params []string
	for _, f := range fd.Type.Params.List {
		for _, n := range f.Names {
			params = append(params, n.Name)
		}
	}
	st := fd.Body.List
	if len(st) != 3 || len(params) < 2 {
		return "SOther"
	}
	ifs, ok := st[0].(*ast.IfStmt)
	if !ok || ifs.Else != nil || ifs.Init == nil {
		return "SOther"
	}
	as, ok := ifs.Init.(*ast.AssignStmt)
	if !ok || as.Tok != token.DEFINE || len(as.Lhs) != 1 || len(as.Rhs) != 1 || invExpr(as.Lhs[0]) != "err" {
		return "SOther"
	}
	call, ok := as.Rhs[0].(*ast.CallExpr)
	if !ok {
		return "SOther"
	}
	sel, ok := call.Fun.(*ast.SelectorExpr)
	if !ok || invExpr(sel.X) != rn || len(call.Args) != len(params) {
		return "SOther"
	}
	for i, a := range call.Args {
		if invExpr(a) != params[i] {
			return "SOther"
		}
	}
	if be, ok := ifs.Cond.(*ast.BinaryExpr); !ok || be.Op != token.NEQ || invExpr(be.X) != "err" || invExpr(be.Y) != "nil" {
		return "SOther"
	}
	if len(ifs.Body.List) != 1 {
		return "SOther"
	}
	if rs, ok := ifs.Body.List[0].(*ast.ReturnStmt); !ok || len(rs.Results) != 1 || invExpr(rs.Results[0]) != "err" {
		return "SOther"
	}
	es, ok := st[1].(*ast.ExprStmt)
	if !ok {
		return "SOther"
	}
	ec, ok := es.X.(*ast.CallExpr)
	if !ok || invExpr(ec.Fun) != params[0]+".Exp" || len(ec.Args) != 1 || invExpr(ec.Args[0]) != params[0] {
		return "SOther"
	}
	if rs, ok := st[2].(*ast.ReturnStmt); !ok || len(rs.Results) != 1 || invExpr(rs.Results[0]) != "nil" {
		return "SOther"
	}
	return "SExpOf \"" + sel.Sel.Name + "\""
}

func writeShapes(outdir string, shapes []invShape) {
	var sb strings.Builder
	sb.WriteString("(* generated from the library source by harness/c14 (inventory.go) on every run: the shape of every Pdf / Cdf method *)\n")
	sb.WriteString("From Coq Require Import String List. Import ListNotations.\nFrom ADV Require Import C14.CorrS.\nOpen Scope string_scope.\n")
	sb.WriteString("Definition gen_shapes : list (string * string * string * shape) := [\n")
	for i, s := range shapes {
		sep := ";"
		if i == len(shapes)-1 {
			sep = ""
		}
		sb.WriteString(fmt.Sprintf("  (\"%s\", \"%s\", \"%s\", %s)%s\n", s.Pkg, s.Type, s.Method, s.Shape, sep))
	}
	sb.WriteString("].\nGoal True.\ntryif (assert (gen_shapes = model_shapes) by (vm_compute; reflexivity)) then idtac else idtac \"MISMATCH 0%nat\".\nexact I. Qed.\n")
	os.WriteFile(filepath.Join(outdir, "gen_shapes.v"), []byte(sb.String()), 0644)
	b, _ := json.MarshalIndent(shapes, "", " ")
	os.WriteFile(filepath.Join(outdir, "gen_shapes.json"), b, 0644)
}

func inventory(root, outdir string) {
	var all []invType
	var shapes []invShape
	for _, pkg := range []string{"scalarDistribution", "vectorDistribution", "matrixDistribution"} {
		fset := token.NewFileSet()
		pkgs, err := parser.ParseDir(fset, filepath.Join(root, "statistics", pkg),
			func(fi os.FileInfo) bool { return !strings.HasSuffix(fi.Name(), "_test.go") && !strings.HasPrefix(fi.Name(), "verif_") }, 0)
		if err != nil {
			fmt.Fprintln(os.Stderr, err)
			os.Exit(1)
		}
		for _, p := range pkgs {
			types := map[string]*invType{}
			var fnames []string
			for fn := range p.Files {
				fnames = append(fnames, fn)
			}
			sort.Strings(fnames)
			for _, fn := range fnames {
				for _, d := range p.Files[fn].Decls {
					gd, ok := d.(*ast.GenDecl)
					if !ok {
						continue
					}
					for _, s := range gd.Specs {
						ts, ok := s.(*ast.TypeSpec)
						if !ok {
							continue
						}
						st, ok := ts.Type.(*ast.StructType)
						if !ok {
							continue
						}
						t := &invType{Pkg: pkg, Type: ts.Name.Name, Fields: []string{}, Methods: []invMethod{}}
						for _, fl := range st.Fields.List {
							if len(fl.Names) == 0 {
								t.Fields = append(t.Fields, "<embedded> "+invExpr(fl.Type))
							}
							for _, n := range fl.Names {
								t.Fields = append(t.Fields, n.Name+" "+invExpr(fl.Type))
							}
						}
						types[t.Type] = t
					}
				}
			}
			for _, fn := range fnames {
				for _, d := range p.Files[fn].Decls {
					fd, ok := d.(*ast.FuncDecl)
					if !ok || fd.Recv == nil || len(fd.Recv.List) == 0 {
						continue
					}
					rt := fd.Recv.List[0].Type
					ptr := false
					if s, ok := rt.(*ast.StarExpr); ok {
						rt, ptr = s.X, true
					}
					t := types[invExpr(rt)]
					if t == nil || len(fd.Recv.List[0].Names) == 0 {
						continue
					}
					if fd.Name.Name == "Pdf" || fd.Name.Name == "Cdf" {
						shapes = append(shapes, invShape{pkg, t.Type, fd.Name.Name, invShapeOf(fd)})
					}
					w := invWrites(fd.Body, fd.Recv.List[0].Names[0].Name)
					if len(w) == 0 {
						continue
					}
					name := fd.Name.Name
					if !ptr {
						name += " (value receiver)"
					}
					t.Methods = append(t.Methods, invMethod{name, w})
				}
			}
			var names []string
			for n := range types {
				names = append(names, n)
			}
			sort.Strings(names)
			for _, n := range names {
				all = append(all, *types[n])
			}
		}
	}
	sort.Slice(shapes, func(i, j int) bool {
		a, b := shapes[i], shapes[j]
		if a.Pkg != b.Pkg {
			return a.Pkg < b.Pkg
		}
		if a.Type != b.Type {
			return a.Type < b.Type
		}
		return a.Method < b.Method
	})
	b, _ := json.MarshalIndent(map[string]interface{}{"types": all}, "", " ")
	os.MkdirAll(outdir, 0755)
	writeShapes(outdir, shapes)
	os.WriteFile(filepath.Join(outdir, "inventory.json"), b, 0644)
}
