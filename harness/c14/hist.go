// C14 mutator histories: a distribution is constructed, then driven through a random
// sequence of its exported mutators with CHANGING values (SetParameters, ImportConfig,
// Clone, GetParameters->SetParameters, ExportConfig->ImportConfig, binomial SetN) and
// finally evaluated.  Two ties:
//   - correspondence: the case `agrees (heval .. fam fn ps zs ops x) observed` is certified
//     against the state model coq/C14/SModel.v (constructor, transitions, method);
//   - property oracle (hunt): the object after the history must be indistinguishable,
//     bit for bit, from a freshly constructed twin with the parameters the object
//     reports; objects set aside at a Clone must not change when the other copy is
//     mutated; SetParameters must not modify its argument; GetParameters must
//     report what SetParameters was given.
package main

import (
	"bytes"
	"fmt"
	"math"
	"strings"

	. "adharness/common"

	ad "github.com/pbenner/autodiff"
	st "github.com/pbenner/autodiff/statistics"
	sd "github.com/pbenner/autodiff/statistics/scalarDistribution"
)

type HOp struct {
	K string    `json:"k"` // set | imp | clone | getset | expimp | setn
	P []float64 `json:"p,omitempty"`
	N int64     `json:"n,omitempty"` // setn: n; clone: 0 continue with the clone, 1 continue with the original
}

func (o HOp) String() string {
	switch o.K {
	case "set":
		return fmt.Sprintf("SetParameters(%v)", o.P)
	case "imp":
		return fmt.Sprintf("ImportConfig(%v)", o.P)
	case "clone":
		if o.N == 1 {
			return "Clone(kept aside)"
		}
		return "Clone(continued)"
	case "getset":
		return "SetParameters(GetParameters())"
	case "expimp":
		return "ImportConfig(ExportConfig())"
	case "setn":
		return fmt.Sprintf("SetN(%d)", o.N)
	}
	return o.K
}

func opsString(ops []HOp) string {
	s := make([]string, len(ops))
	for i, o := range ops {
		s[i] = o.String()
	}
	return strings.Join(s, "; ")
}

// Coq list of SModel.hop (a clone that is only set aside is no transition of the object)
func opsCoq(ops []HOp) string {
	var s []string
	for _, o := range ops {
		switch o.K {
		case "set":
			s = append(s, "HSet "+RList(o.P))
		case "imp":
			s = append(s, "HImp "+RList(o.P))
		case "clone":
			if o.N == 0 {
				s = append(s, "HClone")
			}
		case "getset":
			s = append(s, "HGetSet")
		case "expimp":
			s = append(s, "HExpImp")
		case "setn":
			s = append(s, fmt.Sprintf("HSetN (%d)%%Z", o.N))
		}
	}
	return "[" + strings.Join(s, "; ") + "]"
}

func floatsOf(v ad.ConstVector) []float64 {
	r := make([]float64, v.Dim())
	for i := range r {
		r[i] = v.ConstAt(i).GetFloat64()
	}
	return r
}

func sameBits(a, b []float64) bool {
	if len(a) != len(b) {
		return false
	}
	for i := range a {
		if math.Float64bits(a[i]) != math.Float64bits(b[i]) {
			return false
		}
	}
	return true
}

// the configuration goes through JSON as it does in every use of the library
// (GetParametersAsFloats panics on a []float64 that was not read back: C18's F-CONFIG-PANIC)
func jsonTrip(c st.ConfigDistribution) (st.ConfigDistribution, bool) {
	var buf bytes.Buffer
	if err := c.WriteJson(&buf); err != nil {
		return c, false
	}
	var r st.ConfigDistribution
	if err := r.ReadJson(&buf); err != nil {
		return c, false
	}
	return r, true
}

type snap struct {
	d    st.ScalarPdf
	vals []Outcome
	what string
}

type histRun struct {
	f      *Fam
	t      ad.ScalarType
	d      st.ScalarPdf
	c      float64 // constant of the wrappers
	kept   []snap
	probs  []Failure
	status string   // ok | ctorerr | panic
	xs     []float64 // probe points of the snapshots
	done   []HOp    // the operations actually executed
}

// every method the family offers at every probe point
func (h *histRun) probe(d interface{}) []Outcome {
	var r []Outcome
	for _, fn := range h.f.Fns {
		for _, x := range h.xs {
			r = append(r, call(d, fn, ad.NewReal64(1.25), x))
		}
	}
	return r
}

func inexactRoundTrip(f *Fam) bool { return f.Name == "FBinomial" || f.Name == "FCategorical" }

func outcomesAgree(a, b []Outcome, tol float64) (int, bool) {
	for i := range a {
		if sameOutcome(a[i], b[i]) {
			continue
		}
		if tol > 0 && a[i].Kind == "val" && b[i].Kind == "val" && math.Abs(a[i].V-b[i].V) <= tol*math.Max(1, math.Abs(b[i].V)) {
			continue
		}
		return i, false
	}
	return 0, true
}

func (h *histRun) fail(kind, fn string, p Params, x float64, obs, exp string) {
	h.probs = append(h.probs, Failure{Fam: h.f.Name, Kind: kind, Fn: fn, P: p, X: x, Observed: obs, Expected: exp})
}

func (h *histRun) apply(p0 Params, op HOp) {
	defer func() {
		if e := recover(); e != nil {
			h.status = "panic"
		}
	}()
	switch op.K {
	case "set":
		v := vecOf(h.t, op.P)
		err := h.d.SetParameters(v)
		if !sameBits(floatsOf(v), op.P) {
			h.fail("history-set-arg", "SetParameters", p0, 0, fmt.Sprintf("argument vector after the call: %v", floatsOf(v)), fmt.Sprintf("unchanged: %v", op.P))
		}
		if err == nil {
			got := floatsOf(h.d.GetParameters())
			ok := len(got) == len(op.P)
			for i := 0; ok && i < len(got); i++ {
				if math.Float64bits(got[i]) != math.Float64bits(op.P[i]) &&
					!(inexactRoundTrip(h.f) && math.Abs(got[i]-op.P[i]) <= 1e-12*math.Max(1, math.Abs(op.P[i]))) {
					ok = false
				}
			}
			if !ok {
				h.fail("history-get-after-set", "GetParameters", p0, 0, fmt.Sprintf("%v", got), fmt.Sprintf("%v", op.P))
			}
		}
	case "imp":
		cfg, ok := jsonTrip(st.NewConfigDistribution("history", op.P))
		if !ok {
			return
		}
		h.d.ImportConfig(cfg, h.t)
	case "clone":
		c := h.d.CloneScalarPdf()
		if c == nil || isNilPdf(c) {
			h.status = "panic"
			return
		}
		if op.N == 0 {
			h.kept = append(h.kept, snap{h.d, h.probe(h.d), "the original (its clone was mutated)"})
			h.d = c
		} else {
			h.kept = append(h.kept, snap{c, h.probe(c), "a clone (its original was mutated)"})
		}
	case "getset":
		p := h.d.GetParameters()
		h.d.SetParameters(p)
	case "expimp":
		cfg, ok := jsonTrip(h.d.ExportConfig())
		if !ok {
			return
		}
		h.d.ImportConfig(cfg, h.t)
	case "setn":
		if b, ok := h.d.(*sd.BinomialDistribution); ok {
			b.SetN(int(op.N))
		} else {
			return
		}
	}
	h.done = append(h.done, op)
}

func isNilPdf(c st.ScalarPdf) bool {
	defer func() { recover() }()
	c.ScalarType()
	return false
}

// the parameters the object reports through its public getters, in the parametrisation of its constructor
func reported(f *Fam, d st.ScalarPdf, c float64) Params {
	p := floatsOf(d.GetParameters())
	switch f.Name {
	case "FBinomial":
		return Params{[]float64{math.Exp(p[0])}, []int64{int64(d.(*sd.BinomialDistribution).GetN())}}
	case "FCategorical":
		q := make([]float64, len(p))
		for i := range p {
			q[i] = math.Exp(p[i])
		}
		return Params{q, nil}
	case "FBeta":
		z := int64(0)
		if p[2] == 1.0 {
			z = 1
		}
		return Params{p[:2], []int64{z}}
	case "FTransNormal", "FLogTransNormal":
		return Params{[]float64{p[0], p[1], c}, nil}
	}
	return Params{p, nil}
}

func runHist(f *Fam, t ad.ScalarType, p Params, ops []HOp, xs []float64) *histRun {
	h := &histRun{f: f, t: t, status: "ok", xs: xs}
	func() {
		defer func() {
			if e := recover(); e != nil {
				h.status = "panic"
			}
		}()
		d, err := f.New(t, p)
		if err != nil || d == nil {
			h.status = "ctorerr"
			return
		}
		h.d = d.(st.ScalarPdf)
	}()
	if len(p.Ps) > 2 {
		h.c = p.Ps[2]
	}
	for _, op := range ops {
		if h.status != "ok" {
			break
		}
		h.apply(p, op)
	}
	return h
}

// property oracle on one history (independent of the Coq model)
func (h *histRun) check(p Params, ops []HOp) []Failure {
	fails := append([]Failure{}, h.probs...)
	if h.status == "panic" {
		fails = append(fails, Failure{Fam: h.f.Name, Kind: "history-panic", Fn: "history", P: p, Observed: "panic", Expected: "no panic"})
	}
	if h.status != "ok" {
		return fails
	}
	func() {
		defer func() {
			if e := recover(); e != nil {
				fails = append(fails, Failure{Fam: h.f.Name, Kind: "history-panic", Fn: "twin", P: p, Observed: fmt.Sprintf("panic %v", e), Expected: "no panic"})
			}
		}()
		rp := reported(h.f, h.d, h.c)
		tw, err := h.f.New(h.t, rp)
		if err != nil || tw == nil {
			fails = append(fails, Failure{Fam: h.f.Name, Kind: "history-twin", Fn: "New", P: p, Observed: fmt.Sprintf("constructor rejects the reported parameters %v %v", rp.Ps, rp.Zs), Expected: "accepted"})
			return
		}
		tol := 0.0
		if inexactRoundTrip(h.f) {
			tol = 1e-9 // log/exp of the stored log-probabilities
		}
		a, b := h.probe(h.d), h.probe(tw)
		if i, ok := outcomesAgree(a, b, tol); !ok {
			fn, x := h.f.Fns[i/len(h.xs)], h.xs[i%len(h.xs)]
			fails = append(fails, Failure{Fam: h.f.Name, Kind: "history-twin", Fn: fn, P: p, X: x,
				Observed: fmt.Sprintf("%s %v after the history", a[i].Kind, a[i].V),
				Expected: fmt.Sprintf("%s %v = fresh distribution with the reported parameters %v %v", b[i].Kind, b[i].V, rp.Ps, rp.Zs)})
		}
		for _, k := range h.kept {
			now := h.probe(k.d)
			if i, ok := outcomesAgree(now, k.vals, 0); !ok {
				fn, x := h.f.Fns[i/len(h.xs)], h.xs[i%len(h.xs)]
				fails = append(fails, Failure{Fam: h.f.Name, Kind: "history-alias", Fn: fn, P: p, X: x,
					Observed: fmt.Sprintf("%s %v on %s", now[i].Kind, now[i].V, k.what),
					Expected: fmt.Sprintf("%s %v as before the other copy was mutated", k.vals[i].Kind, k.vals[i].V)})
			}
		}
	}()
	return fails
}

// ---- generators -----------------------------------------------------------------

// parameter vector in the parametrisation of GetParameters / SetParameters
func setVec(f *Fam, p Params) ([]float64, bool) {
	switch f.Name {
	case "FBinomial":
		if p.Ps[0] <= 0 || p.Ps[0] >= 1 {
			return nil, false
		}
		return []float64{math.Log(p.Ps[0]), float64(p.Zs[0])}, true
	case "FCategorical":
		q := make([]float64, len(p.Ps))
		for i, x := range p.Ps {
			if x <= 0 {
				return nil, false
			}
			q[i] = math.Log(x)
		}
		return q, true
	case "FBeta":
		return []float64{p.Ps[0], p.Ps[1], float64(p.Zs[0])}, true
	case "FTransNormal", "FLogTransNormal":
		return p.Ps[:2], true
	}
	return p.Ps, true
}

// parameter vector of a configuration (constructor parametrisation)
func impVec(f *Fam, p Params) ([]float64, bool) {
	switch f.Name {
	case "FBinomial":
		return []float64{p.Ps[0], float64(p.Zs[0])}, true
	case "FBeta":
		return []float64{p.Ps[0], p.Ps[1], float64(p.Zs[0])}, true
	case "FTransNormal", "FLogTransNormal":
		return nil, false // the wrappers' configuration nests the inner one
	}
	return p.Ps, true
}

func genOps(f *Fam, r *Rng, p Params, n int) []HOp {
	var ops []HOp
	catLen := len(p.Ps)
	for len(ops) < n {
		k := r.Intn(10)
		if f.Name == "FBinomial" && r.Intn(3) == 0 {
			k = 9
		}
		if (f.Name == "FBinomial" || f.Name == "FCategorical") && r.Intn(4) == 0 {
			k = 5
		}
		q := f.Valid(r)
		if f.Invalid != nil && r.Intn(6) == 0 && f.Name != "FCategorical" {
			q = f.Invalid(r) // a refused update must leave the state alone
		}
		switch {
		case k <= 2:
			if f.Name == "FCategorical" && len(q.Ps) != catLen {
				continue // Theta.Set panics on a dimension mismatch: not part of the histories
			}
			if v, ok := setVec(f, q); ok {
				ops = append(ops, HOp{K: "set", P: v})
			}
		case k <= 4:
			if v, ok := impVec(f, q); ok && f.Name != "FChiSquared" {
				ops = append(ops, HOp{K: "imp", P: v})
				if f.Name == "FCategorical" && len(q.Ps) > 0 {
					catLen = len(q.Ps) // (an accepted import replaces Theta)
					for _, x := range q.Ps {
						if x < 0 {
							catLen = -1
						}
					}
				}
			}
		case k == 5:
			ops = append(ops, HOp{K: "clone", N: int64(r.Intn(2))})
			// the in-place mutators right after a Clone: storage shared between the copies shows here
			if f.Name == "FBinomial" && r.Bool() {
				ops = append(ops, HOp{K: "setn", N: int64(r.Range(0, 12))})
			}
			if f.Name == "FCategorical" && r.Bool() {
				if v, ok := setVec(f, f.Valid(r)); ok && len(v) == catLen {
					ops = append(ops, HOp{K: "set", P: v})
				}
			}
		case k == 6:
			ops = append(ops, HOp{K: "getset"})
		case k == 7 || k == 8:
			if f.Name == "FChiSquared" {
				continue // not in the registry of configurable distributions
			}
			ops = append(ops, HOp{K: "expimp"})
		case k == 9:
			if f.Name == "FBinomial" {
				nn := int64(r.Range(0, 12))
				if r.Intn(8) == 0 {
					nn = -int64(r.Range(1, 3))
				}
				ops = append(ops, HOp{K: "setn", N: nn})
			}
		}
		if catLen < 0 {
			catLen = len(p.Ps)
		}
	}
	return ops
}

// final parameters as the Go run sees them, for the logged special-function arguments
func finalParams(f *Fam, h *histRun) Params {
	p := floatsOf(h.d.GetParameters())
	switch f.Name {
	case "FBinomial":
		return Params{[]float64{math.Exp(p[0])}, []int64{int64(h.d.(*sd.BinomialDistribution).GetN())}}
	case "FBeta":
		return Params{p[:2], []int64{int64(p[2])}}
	case "FTransNormal", "FLogTransNormal":
		return Params{[]float64{p[0], p[1], h.c}, nil}
	}
	return Params{p, nil}
}

// one correspondence case: history on the implementation, observed outcome of fn at x
func genHistCase(f *Fam, r *Rng, k int) (Case, bool) {
	p := f.Valid(r)
	t := ad.Float64Type
	if k%2 == 1 {
		t = ad.Real64Type
	}
	ops := genOps(f, r, p, r.Range(1, 4))
	fn := f.Fns[r.Intn(len(f.Fns))]
	h := runHist(f, t, p, ops, nil)
	if h.status != "ok" {
		return Case{}, false
	}
	fp := finalParams(f, h)
	x := f.X(r, fp)
	if f.Name == "FCategorical" {
		x = gXdisc(r, len(fp.Ps)-1)
	}
	if f.Gp != nil {
		for _, ab := range f.Gp(fp, x, sfFn(fn)) {
			if v := specialGammaP(ab[0], ab[1]); math.IsNaN(v) || math.IsInf(v, 0) {
				fn = "LogPdf"
			}
		}
	}
	obs := call(h.d, fn, ad.NewReal64(0.5), x)
	for try := 0; try < 6 && (fn == "LogPdf" || fn == "Pdf") && !f.Discrete; try++ {
		// exp overflow in binary64 (not modelled over R): strictly inside the support a finite LogPdf is expected
		if lo, hi := support(f.Name, fp); !(x > lo && x < hi) {
			break
		}
		if call(h.d, "LogPdf", ad.NewReal64(0.5), x).Kind == "val" {
			break
		}
		x = f.X(r, fp)
		obs = call(h.d, fn, ad.NewReal64(0.5), x)
	}
	if lo, hi := support(f.Name, fp); fn == "Pdf" && !f.Discrete && x > lo && x < hi && call(h.d, "LogPdf", ad.NewReal64(0.5), x).Kind != "val" {
		return Case{}, false
	}
	return Case{Fam: f.Name, Fn: fn, P: p, X: x, Obs: obs, Class: "history:" + obs.Kind, Ops: h.done, FP: &fp}, true
}

// hunt: random histories, longer and over every family, decided by the twin / alias / argument oracles
func histHunt(o Opts, report func(Failure), tried *int) {
	rng := NewRng(o.Seed*1000003 + 77)
	rounds := 12 + o.N/2
	if o.N == 0 { // replay: only the replayed history is decided
		rounds = 0
	}
	for round := 0; round < rounds; round++ {
		for i := range families {
			f := &families[i]
			r := rng.Split()
			p := f.Valid(r)
			t := ad.Real64Type
			if round%2 == 1 {
				t = ad.Float64Type
			}
			ops := genOps(f, r, p, r.Range(1, 6))
			histCheck(f, t, p, ops, r, report, tried)
			if f.Name == "FBinomial" || f.Name == "FCategorical" { // the families with in-place mutators: three more
				for e := 0; e < 3; e++ {
					p = f.Valid(r)
					histCheck(f, t, p, genOps(f, r, p, r.Range(2, 6)), r, report, tried)
				}
			}
		}
	}
}

func histProbes(f *Fam, r *Rng, p Params) []float64 {
	xs := []float64{f.X(r, p), f.X(r, p)}
	if f.Discrete {
		xs = append(xs, 0, 1, 2, 5)
	} else {
		xs = append(xs, 0.75, 1.5, -0.25)
	}
	return xs
}

func histCheck(f *Fam, t ad.ScalarType, p Params, ops []HOp, r *Rng, report func(Failure), tried *int) {
	*tried++
	xs := histProbes(f, r, p)
	run := func(ops []HOp) []Failure {
		h := runHist(f, t, p, ops, xs)
		return h.check(p, ops)
	}
	fails := run(ops)
	seen := map[string]bool{}
	for _, fl := range fails {
		if seen[fl.Kind] {
			continue
		}
		seen[fl.Kind] = true
		// shrink: drop operations while a failure of the same kind persists
		cur := ops
		best := fl
		for changed := true; changed; {
			changed = false
			for i := range cur {
				cand := append(append([]HOp{}, cur[:i]...), cur[i+1:]...)
				for _, g := range run(cand) {
					if g.Kind == fl.Kind {
						cur, best, changed = cand, g, true
						break
					}
				}
				if changed {
					break
				}
			}
		}
		best.Ops = cur
		best.Expected += " [history: " + opsString(cur) + "]"
		report(best)
	}
}
