// C14 harness, vector families (statistics/vectorDistribution: t.go, normal.go, scalarIid.go,
// scalarId.go): case generation for the certified correspondence (coq/C14/VModel.v) and the
// independent oracle used by the hunt.
package main

import (
	"fmt"
	"math"
	"strings"

	. "adharness/common"

	ad "github.com/pbenner/autodiff"
	st "github.com/pbenner/autodiff/statistics"
	sd "github.com/pbenner/autodiff/statistics/scalarDistribution"
	vd "github.com/pbenner/autodiff/statistics/vectorDistribution"
)

// VCase: one evaluation of a vector family
type VCase struct {
	Nu    float64     `json:"nu,omitempty"`
	Mu    []float64   `json:"mu,omitempty"`
	Sigma [][]float64 `json:"sigma,omitempty"`
	Comp  []string    `json:"comp,omitempty"` // scalar component families (VIid: one, VId: one per component)
	Ps    []Params    `json:"ps,omitempty"`
	N     int         `json:"n"` // dimension given to NewScalarIid
	Dims  []int       `json:"dims,omitempty"` // VVId: dimension of each ScalarIid block of the VectorId
	X     []float64   `json:"x"`
	// logged from the library (exported fields SigmaInv / SigmaDet)
	SInv [][]float64 `json:"sinv,omitempty"`
	SDet float64     `json:"sdet,omitempty"`
	Pdf  bool        `json:"pdf,omitempty"` // the Pdf method (VT, VNormal) instead of LogPdf
}

func vecOf(t ad.ScalarType, xs []float64) ad.Vector {
	v := ad.NullDenseVector(t, len(xs))
	for i, x := range xs {
		v.At(i).SetFloat64(x)
	}
	return v
}
func matOf(t ad.ScalarType, a [][]float64) ad.Matrix {
	n := len(a)
	m := ad.NullDenseMatrix(t, n, n)
	for i := range a {
		for j := range a[i] {
			m.At(i, j).SetFloat64(a[i][j])
		}
	}
	return m
}
func matrixTo(m ad.Matrix) [][]float64 {
	n, k := m.Dims()
	a := make([][]float64, n)
	for i := 0; i < n; i++ {
		a[i] = make([]float64, k)
		for j := 0; j < k; j++ {
			a[i][j] = m.At(i, j).GetFloat64()
		}
	}
	return a
}

// builds the distribution with parameters of scalar type t; fills SInv / SDet
func vecNew(fam string, t ad.ScalarType, c *VCase) (st.VectorPdf, error) {
	switch fam {
	case "VT":
		d, err := vd.NewTDistribution(sc(t, c.Nu), vecOf(t, c.Mu), matOf(t, c.Sigma))
		if err != nil {
			return nil, err
		}
		c.SInv, c.SDet = matrixTo(d.SigmaInv), d.SigmaDet.GetFloat64()
		return d, nil
	case "VNormal":
		d, err := vd.NewNormalDistribution(vecOf(t, c.Mu), matOf(t, c.Sigma))
		if err != nil {
			return nil, err
		}
		c.SInv, c.SDet = matrixTo(d.SigmaInv), d.SigmaDet.GetFloat64()
		return d, nil
	case "VIid":
		f := famByName(c.Comp[0])
		s, err := f.New(t, c.Ps[0])
		if err != nil || s == nil {
			return nil, fmt.Errorf("ctor")
		}
		return vd.NewScalarIid(s.(st.ScalarPdf), c.N)
	case "VId":
		var ds []st.ScalarPdf
		for i, name := range c.Comp {
			s, err := famByName(name).New(t, c.Ps[i])
			if err != nil || s == nil {
				return nil, fmt.Errorf("ctor")
			}
			ds = append(ds, s.(st.ScalarPdf))
		}
		return vd.NewScalarId(ds...)
	case "VVId": // round 7: vectorDistribution.VectorId over ScalarIid blocks of different dimensions
		var ds []st.VectorPdf
		for i, name := range c.Comp {
			s, err := famByName(name).New(t, c.Ps[i])
			if err != nil || s == nil {
				return nil, fmt.Errorf("ctor")
			}
			b, err := vd.NewScalarIid(s.(st.ScalarPdf), c.Dims[i])
			if err != nil {
				return nil, err
			}
			ds = append(ds, b)
		}
		return vd.NewVectorId(ds...)
	}
	return nil, fmt.Errorf("unknown vector family")
}

func vecCall(d st.VectorPdf, r ad.Scalar, x []float64, pdf ...bool) (out Outcome) {
	defer func() {
		if e := recover(); e != nil {
			out = Outcome{"panic", 0}
		}
	}()
	if len(pdf) > 0 && pdf[0] {
		p, ok := d.(interface {
			Pdf(ad.Scalar, ad.ConstVector) error
		})
		if !ok {
			return Outcome{"nosuch", 0}
		}
		if err := p.Pdf(r, vecOf(ad.Float64Type, x)); err != nil {
			return Outcome{"err", 0}
		}
		return classify(r.GetFloat64())
	}
	if err := d.LogPdf(r, vecOf(ad.Float64Type, x)); err != nil {
		return Outcome{"err", 0}
	}
	return classify(r.GetFloat64())
}

// Float64 and Real64 parameters x two previous contents of the result register: all four must agree
func vecEvalAll(fam string, c *VCase) (Outcome, string) {
	var first Outcome
	incons := ""
	k := 0
	for _, t := range []ad.ScalarType{ad.Float64Type, ad.Real64Type} {
		for _, r0 := range []float64{0.0, 7.25} {
			var o Outcome
			func() {
				defer func() {
					if e := recover(); e != nil {
						o = Outcome{"panic", 0}
					}
				}()
				d, err := vecNew(fam, t, c)
				if err != nil || d == nil {
					o = Outcome{"ctorerr", 0}
					return
				}
				o = vecCall(d, ad.NewScalar(ad.Real64Type, r0), c.X, c.Pdf)
			}()
			if k == 0 {
				first = o
			} else if !sameOutcome(first, o) {
				incons = "outcome depends on parameter scalar type or on the previous content of the result register"
			}
			k++
		}
	}
	return first, incons
}

// ---- generators -------------------------------------------------------------------

// SPD matrix L L^T with dyadic entries
func gSPD(r *Rng, n int) [][]float64 {
	l := make([][]float64, n)
	for i := range l {
		l[i] = make([]float64, n)
		for j := 0; j < i; j++ {
			l[i][j] = float64(r.Range(-4, 4)) / 4
		}
		l[i][i] = []float64{0.5, 1, 1.5, 2}[r.Intn(4)]
	}
	a := make([][]float64, n)
	for i := range a {
		a[i] = make([]float64, n)
		for j := range a[i] {
			for k := 0; k < n; k++ {
				a[i][j] += l[i][k] * l[j][k]
			}
		}
	}
	return a
}

var iidFams = []string{"FNormal", "FExponential", "FLaplace", "FGamma", "FPoisson", "FCauchy", "FPareto"}

func genVCase(k int, r *Rng) (string, VCase) {
	d := 1 + (k/4)%4 // dimensions 1..4 in turn: odd and even
	switch k % 4 {
	case 0, 1:
		c := VCase{N: d}
		for i := 0; i < d; i++ {
			c.Mu = append(c.Mu, gLoc(r))
			c.X = append(c.X, float64(r.Range(-64, 64))/8)
		}
		c.Sigma = gSPD(r, d)
		if k%4 == 0 {
			c.Nu = []float64{0.5, 1, 1.5, 2, 2.5, 3, 4.5, 7, 10}[r.Intn(9)]
			c.Pdf = (k/16)%3 == 1 // round 6: the Pdf method, every dimension in turn
			return "VT", c
		}
		if r.Intn(8) == 0 { // dimension guard of LogPdf
			c.X = append(c.X, 1)
		}
		c.Pdf = (k/16)%3 == 2
		return "VNormal", c
	case 2:
		d = 1 + (k/4)%3 // products: 1..3 components (the certificate of a product grows quickly with d)
		f := famByName(iidFams[r.Intn(len(iidFams))])
		c := VCase{N: d, Comp: []string{f.Name}}
		p := f.Valid(r)
		c.Ps = []Params{p}
		for i := 0; i < d; i++ {
			c.X = append(c.X, f.X(r, p))
		}
		switch r.Intn(10) {
		case 0: // dimension guard
			c.X = append(c.X, f.X(r, p))
		case 1: // "any dimension"
			c.N = -1
		}
		return "VIid", c
	}
	d = 1 + (k/4)%3
	c := VCase{N: d}
	for i := 0; i < d; i++ {
		f := famByName(iidFams[r.Intn(len(iidFams))])
		p := f.Valid(r)
		c.Comp = append(c.Comp, f.Name)
		c.Ps = append(c.Ps, p)
		c.X = append(c.X, f.X(r, p))
	}
	if r.Intn(10) == 0 {
		c.X = c.X[:len(c.X)-1]
	}
	return "VId", c
}

// round 7: block layouts of VectorId — mixed dimensions, larger before smaller and the other way round
var vvidLayouts = [][]int{{2, 1, 1}, {1, 2}, {3, 1}, {1, 1, 2}, {2, 2}, {1, 3}, {2, 1}, {1, 2, 1}, {1}, {2}, {1, 1}, {3}}

func genVVIdCase(k int, r *Rng) (string, VCase) {
	lay := vvidLayouts[k%len(vvidLayouts)]
	c := VCase{Dims: append([]int{}, lay...)}
	for _, m := range lay {
		f := famByName(iidFams[r.Intn(len(iidFams))])
		p := f.Valid(r)
		c.Comp = append(c.Comp, f.Name)
		c.Ps = append(c.Ps, p)
		for i := 0; i < m; i++ {
			c.X = append(c.X, f.X(r, p))
		}
		c.N += m
	}
	switch r.Intn(12) {
	case 0: // dimension guard: one entry too few / too many
		c.X = c.X[:len(c.X)-1]
	case 1:
		c.X = append(c.X, 1)
	}
	return "VVId", c
}

// the component (index into Comp) that owns coordinate i of x under the running-offset layout; -1 beyond the end
func vvidOwner(c VCase, i int) int {
	j := 0
	for k, m := range c.Dims {
		if i < j+m {
			return k
		}
		j += m
	}
	return -1
}

// ---- Coq proposition ------------------------------------------------------------

func RMat(a [][]float64) string {
	s := make([]string, len(a))
	for i := range a {
		s[i] = RList(a[i])
	}
	return "[" + strings.Join(s, "; ") + "]"
}

func vcaseCoq(fam string, c VCase, o Outcome) string {
	var hyps []string
	seen := map[string]bool{}
	addLg := func(a float64) {
		v := lgammaGo(a)
		if math.IsNaN(v) || math.IsInf(v, 0) || math.IsNaN(a) {
			return
		}
		h := fmt.Sprintf("at1 lgam %s %s", RL(a), RL(v))
		if !seen[h] {
			seen[h] = true
			hyps = append(hyps, h)
		}
	}
	vf := fam
	errKind := "OErrDim"
	var pss, zss []string
	switch fam {
	case "VT":
		// the arguments of the two Lgamma calls as the textbook has them: nu/2 + d/2 and nu/2
		addLg(c.Nu/2 + float64(len(c.Mu))/2.0)
		addLg(c.Nu / 2)
	case "VIid", "VId", "VVId":
		for i, name := range c.Comp {
			f := famByName(name)
			if f.Lg != nil {
				for _, x := range c.X {
					for _, a := range f.Lg(c.Ps[i], x, "LogPdf") {
						addLg(a)
					}
				}
			}
			pss = append(pss, RList(c.Ps[i].Ps))
			zss = append(zss, ZList64(c.Ps[i].Zs))
		}
		if fam == "VIid" {
			vf = "(VIid " + c.Comp[0] + ")"
			if c.N == -1 || len(c.X) == c.N {
				errKind = "OErrInt"
			}
		} else if fam == "VVId" {
			cs := make([]string, len(c.Comp))
			tot := 0
			for i := range c.Comp {
				cs[i] = fmt.Sprintf("(%s, %d%%nat)", c.Comp[i], c.Dims[i])
				tot += c.Dims[i]
			}
			vf = "(VVId [" + strings.Join(cs, "; ") + "])"
			if len(c.X) == tot {
				errKind = "OErrInt"
			}
		} else {
			vf = "(VId [" + strings.Join(c.Comp, "; ") + "])"
			if len(c.X) == len(c.Comp) {
				errKind = "OErrInt"
			}
		}
	}
	obs := ""
	if o.Kind == "err" {
		obs = errKind
	} else {
		obs = obsCoq(&Fam{}, o)
	}
	// evaluation points of discrete components are printed as IZR k / IZR k + 1/2
	xl := make([]string, len(c.X))
	for i, x := range c.X {
		disc := false
		if fam == "VIid" {
			disc = famByName(c.Comp[0]).Discrete
		} else if fam == "VId" && i < len(c.Comp) {
			disc = famByName(c.Comp[i]).Discrete
		} else if fam == "VVId" {
			if k := vvidOwner(c, i); k >= 0 {
				disc = famByName(c.Comp[k]).Discrete
			}
		}
		xl[i] = RX(x, disc)
	}
	xs := "[" + strings.Join(xl, "; ") + "]"
	var sb strings.Builder
	sb.WriteString("(forall lgam lerfc gamP, ")
	for _, h := range hyps {
		sb.WriteString(h + " -> ")
	}
	wrap := ""
	if c.Pdf {
		wrap = "pdf_of (" // Model.pdf_of: LogPdf, then r.Exp(r)
	}
	sb.WriteString(fmt.Sprintf("agrees (%sveval lgam lerfc gamP %s %s %s %s %s [%s] [%s] (%d)%%Z %s%s) %s)",
		wrap, vf, RL(c.Nu), RList(c.Mu), RMat(c.SInv), RL(c.SDet), strings.Join(pss, "; "), strings.Join(zss, "; "),
		c.N, xs, wclose(wrap), obs))
	return sb.String()
}

// ---- independent oracle (hunt) ----------------------------------------------------

// determinant and inverse by Gauss-Jordan elimination with partial pivoting (own code)
func gaussInvDet(a [][]float64) ([][]float64, float64) {
	n := len(a)
	m := make([][]float64, n)
	for i := range m {
		m[i] = make([]float64, 2*n)
		copy(m[i], a[i])
		m[i][n+i] = 1
	}
	det := 1.0
	for c := 0; c < n; c++ {
		p := c
		for i := c + 1; i < n; i++ {
			if math.Abs(m[i][c]) > math.Abs(m[p][c]) {
				p = i
			}
		}
		if m[p][c] == 0 {
			return nil, 0
		}
		if p != c {
			m[p], m[c] = m[c], m[p]
			det = -det
		}
		det *= m[c][c]
		pv := m[c][c]
		for j := range m[c] {
			m[c][j] /= pv
		}
		for i := 0; i < n; i++ {
			if i != c {
				f := m[i][c]
				for j := range m[i] {
					m[i][j] -= f * m[c][j]
				}
			}
		}
	}
	inv := make([][]float64, n)
	for i := range inv {
		inv[i] = m[i][n:]
	}
	return inv, det
}

func refVecLogPdf(fam string, c VCase) float64 {
	switch fam {
	case "VT", "VNormal":
		d := len(c.Mu)
		if len(c.X) != d {
			return math.NaN()
		}
		inv, det := gaussInvDet(c.Sigma)
		q := 0.0
		for i := 0; i < d; i++ {
			for j := 0; j < d; j++ {
				q += (c.X[i] - c.Mu[i]) * inv[i][j] * (c.X[j] - c.Mu[j])
			}
		}
		fd := float64(d)
		if fam == "VNormal" {
			return -0.5*(fd*math.Log(2*math.Pi)+math.Log(det)) - 0.5*q
		}
		return lg((c.Nu+fd)/2) - lg(c.Nu/2) - 0.5*math.Log(det) - fd/2*math.Log(c.Nu*math.Pi) -
			(c.Nu+fd)/2*math.Log1p(q/c.Nu)
	case "VIid", "VId":
		n := len(c.Comp)
		if fam == "VIid" {
			n = c.N
			if n == -1 {
				n = len(c.X) // "any dimension": the product over all components of x
			}
		}
		if len(c.X) != n {
			return math.NaN()
		}
		s := 0.0
		for i, x := range c.X {
			k := i
			if fam == "VIid" {
				k = 0
			}
			if famByName(c.Comp[k]).Discrete && !isInt(x) {
				return math.NaN()
			}
			s += refLogPdf(c.Comp[k], c.Ps[k], x)
		}
		return s
	case "VVId": // the sum over the blocks of the sums over the coordinates of each block
		tot := 0
		for _, m := range c.Dims {
			tot += m
		}
		if len(c.X) != tot {
			return math.NaN()
		}
		s := 0.0
		for i, x := range c.X {
			k := vvidOwner(c, i)
			if famByName(c.Comp[k]).Discrete && !isInt(x) {
				return math.NaN()
			}
			s += refLogPdf(c.Comp[k], c.Ps[k], x)
		}
		return s
	}
	return math.NaN()
}

func vecFailure(fam, kind string, c VCase, obs, exp string) Failure {
	cc := c
	fn := "LogPdf"
	if c.Pdf {
		fn = "Pdf"
	}
	return Failure{Fam: fam, Kind: kind, Fn: fn, P: Params{}, X: 0, Observed: obs, Expected: exp, V: &cc}
}

func wclose(wrap string) string {
	if wrap != "" {
		return ")"
	}
	return ""
}

// Pdf is `LogPdf; r.Exp(r)`: the same error / panic, else the exponential of the value LogPdf left in r
func pdfAgrees(lo, po Outcome) (bool, string) {
	switch lo.Kind {
	case "err", "panic", "ctorerr", "nosuch":
		return po.Kind == lo.Kind, lo.Kind
	}
	want := math.Exp(num(lo))
	exp := fmt.Sprintf("exp(LogPdf) = %v", want)
	if po.Kind == "err" || po.Kind == "panic" || po.Kind == "nosuch" || po.Kind == "ctorerr" {
		return false, exp
	}
	got := num(po)
	if math.IsNaN(want) {
		return math.IsNaN(got), exp
	}
	return got == want || math.Abs(got-want) <= 1e-12*math.Max(1, math.Abs(want)), exp
}

func vecCheck(fam string, c VCase, report func(Failure), tried *int) {
	*tried++
	if fam == "VT" || fam == "VNormal" {
		// the Pdf method against the LogPdf method (whatever the case asked for)
		cl, cp := c, c
		cl.Pdf, cp.Pdf = false, true
		lo, _ := vecEvalAll(fam, &cl)
		po, inc := vecEvalAll(fam, &cp)
		if inc != "" {
			report(vecFailure(fam, "consistency", cp, inc, "identical outcomes"))
		}
		if ok, exp := pdfAgrees(lo, po); !ok {
			report(vecFailure(fam, "pdf-exp", cp, fmt.Sprintf("%s %v", po.Kind, po.V), exp))
		}
	}
	c.Pdf = false
	o, inc := vecEvalAll(fam, &c)
	if inc != "" {
		report(vecFailure(fam, "consistency", c, inc, "identical outcomes"))
	}
	if o.Kind == "ctorerr" {
		return
	}
	ref := refVecLogPdf(fam, c)
	if math.IsNaN(ref) {
		if o.Kind != "err" {
			report(vecFailure(fam, "support", c, fmt.Sprintf("%s %v", o.Kind, o.V), "an error (dimension mismatch / non-integer)"))
		}
		return
	}
	v := num(o)
	ok := v == ref || (!math.IsInf(ref, 0) && math.Abs(v-ref) <= 1e-9*math.Max(1, math.Abs(ref)))
	if !ok {
		report(vecFailure(fam, "formula", c, fmt.Sprintf("%s %v", o.Kind, o.V), fmt.Sprintf("%v", ref)))
	}
	// GetParameters -> SetParameters and Clone reproduce the distribution
	if fam == "VT" || fam == "VNormal" {
		func() {
			defer func() {
				if e := recover(); e != nil {
					report(vecFailure(fam, "roundtrip", c, fmt.Sprintf("SetParameters(GetParameters()) panics: %v", e), "no panic"))
				}
			}()
			cc := c
			d, err := vecNew(fam, ad.Real64Type, &cc)
			if err != nil {
				return
			}
			cl := d.CloneVectorPdf()
			if oc := vecCall(cl, ad.NewReal64(0), c.X); !sameOutcome(oc, o) {
				report(vecFailure(fam, "roundtrip", c, fmt.Sprintf("Clone: %v", oc), fmt.Sprintf("%v", o)))
			}
			if err := cl.SetParameters(d.GetParameters().CloneVector()); err != nil {
				report(vecFailure(fam, "roundtrip", c, "SetParameters(GetParameters()) error: "+err.Error(), "nil"))
				return
			}
			if oc := vecCall(cl, ad.NewReal64(0), c.X); !(math.Abs(num(oc)-v) <= 1e-9*math.Max(1, math.Abs(v))) {
				report(vecFailure(fam, "roundtrip", c, fmt.Sprintf("after SetParameters(GetParameters()): %v", oc), fmt.Sprintf("%v", o)))
			}
		}()
	}
	// d = 1: the vector normal is the scalar normal
	if fam == "VNormal" && len(c.Mu) == 1 && len(c.X) == 1 && c.Sigma[0][0] > 0 {
		if s, err := sd.NewNormalDistribution(sc(ad.Real64Type, c.Mu[0]), sc(ad.Real64Type, math.Sqrt(c.Sigma[0][0]))); err == nil {
			so := call(s, "LogPdf", ad.NewReal64(0), c.X[0])
			if !(math.Abs(num(so)-v) <= 1e-12*math.Max(1, math.Abs(v))) {
				report(vecFailure(fam, "cross-family", c, fmt.Sprintf("%v", v), fmt.Sprintf("scalar normal: %v", num(so))))
			}
		}
	}
}

func vecHunt(o Opts, report func(Failure), tried *int) {
	rng := NewRng(o.Seed + 7919)
	for k := 0; k < 16*o.N/4+16; k++ {
		fam, c := genVCase(k, rng.Split())
		vecCheck(fam, c, report, tried)
	}
	rng = NewRng(o.Seed + 104729)
	for k := 0; k < 8*o.N/4+24; k++ {
		fam, c := genVVIdCase(k, rng.Split())
		vecCheck(fam, c, report, tried)
	}
}

var _ = Die
