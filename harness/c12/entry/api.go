//go:build verif

// Package entry drives every algorithm entry point of
// github.com/pbenner/autodiff/algorithm/* (all Run* functions, under all
// combinations of their option structs) and the statistics distribution
// constructors, and snapshots the full observable state of every caller
// visible object before and after the call (property C12: copies are
// independent and read-only inputs are left unchanged).
package entry

import (
	"encoding/json"
	"fmt"
	"math"
	"sort"
	"strings"

	"adharness/common"
)

// Obj is one caller-visible object with its flat state snapshot before and
// after the call.
type Obj struct {
	Name         string    `json:"name"`
	Role         string    `json:"role"` // "input" | "insitu" | "output-arg"
	Before       []float64 `json:"-"`    // observable state
	After        []float64 `json:"-"`
	RepBefore    []float64 `json:"-"` // representation: private sparse map / index keys, iterator sequence (empty for dense objects)
	RepAfter     []float64 `json:"-"`
	BeforeHex    []string  `json:"before"`
	AfterHex     []string  `json:"after"`
	RepBeforeHex []string  `json:"rep_before"`
	RepAfterHex  []string  `json:"rep_after"`
}

// Case is one executed entry point call.
type Case struct {
	Entry      string
	ID         int
	Opts       string
	OptMask    int
	Modelled   bool
	Outcome    string // "ok" | "error" | "panic"
	Msg        string // error / panic text (diagnostics only, not part of the Coq term)
	Objs       []Obj
	Spec       json.RawMessage
	Changed    []string // input objects whose OBSERVABLE state changed
	RepChanged []string // input objects whose representation changed while the observable state did not
}

// ToJSON fills the hex fields of all objects and marshals the case.
func (c Case) ToJSON() ([]byte, error) {
	for i := range c.Objs {
		c.Objs[i].BeforeHex = hexList(c.Objs[i].Before)
		c.Objs[i].AfterHex = hexList(c.Objs[i].After)
		c.Objs[i].RepBeforeHex = hexList(c.Objs[i].RepBefore)
		c.Objs[i].RepAfterHex = hexList(c.Objs[i].RepAfter)
	}
	return json.Marshal(c)
}

func hexList(xs []float64) []string {
	r := make([]string, len(xs))
	for i, x := range xs {
		r[i] = fmt.Sprintf("%x", x)
	}
	return r
}

// ---------------------------------------------------------------- entry table

// Stable ids of the entry points.
//
//	  1 adam.Run                    2 adam.RunGradient
//	  3 backSubstitution.Run        4 bfgs.Run
//	  5 blahut.Run                  6 blahut.RunNaive
//	  7 cholesky.Run                8 determinant.Run
//	  9 eigensystem.Run            10 gaussJordan.Run
//	 11 givensRotation.Run         12 gradientDescent.Run
//	 13 gramSchmidt.Run            14 hessenbergReduction.Run
//	 15 householder.Run            16 householderBidiagonalization.Run
//	 17 householderTridiagonalization.Run
//	 18 lineSearch.Run             19 matrixInverse.Run
//	 20 msqrt.Run                  21 msqrtInv.Run
//	 22 newton.RunRoot             23 newton.RunCrit
//	 24 newton.RunMin              25 qrAlgorithm.Run
//	 26 rprop.Run                  27 rprop.RunGradient
//	 28 saga.Run                   29 svd.Run
//	100.. distribution constructors (see dist.go)
type entryDef struct {
	id       int
	name     string
	modelled bool
	masks    func() []int
	optStr   func(mask int) string
	gen      func(r *common.Rng, mask int) *Spec
	build    func(b *bld) // registers objects and sets b.run (and b.post)
}

var entryTable []*entryDef
var entryByID = map[int]*entryDef{}

func register(e *entryDef) {
	if _, dup := entryByID[e.id]; dup {
		panic(fmt.Sprintf("duplicate entry id %d", e.id))
	}
	entryTable = append(entryTable, e)
	entryByID[e.id] = e
	sort.SliceStable(entryTable, func(i, j int) bool { return entryTable[i].id < entryTable[j].id })
}

// EntryNames lists all entry points covered, in id order.
func EntryNames() []string {
	r := make([]string, len(entryTable))
	for i, e := range entryTable {
		r[i] = e.name
	}
	return r
}

// EntryID returns the stable id of an entry point name (0 if unknown).
func EntryID(name string) int {
	for _, e := range entryTable {
		if e.name == name {
			return e.id
		}
	}
	return 0
}

// NumCombos is the number of (entry point, option combination) pairs.
func NumCombos() int {
	n := 0
	for _, e := range entryTable {
		n += len(e.masks())
	}
	return n
}

// CombosPerEntry returns, in id order, the number of option combinations of
// each entry point.
func CombosPerEntry() []int {
	r := make([]int, len(entryTable))
	for i, e := range entryTable {
		r[i] = len(e.masks())
	}
	return r
}

var timeouts int
var timeoutSpecs []string

// TimeoutSpecs returns the specs (JSON) of the cases skipped because of a timeout.
func TimeoutSpecs() []string { return timeoutSpecs }

// Timeouts returns the number of cases skipped so far because the library
// call did not return within the time limit.
func Timeouts() int { return timeouts }

// Generate produces about n cases.  The first NumCombos() slots walk through
// all (entry, option combination) pairs, interleaved round-robin over the
// entry points (so that every entry point is reached early); each entry
// point's list of combinations starts at an rng-chosen rotation.  When n
// exceeds NumCombos() the walk continues cyclically with fresh inputs.
// Cases whose call timed out are skipped (see Timeouts).
func Generate(rng *common.Rng, n int) []Case {
	type cursor struct {
		e     *entryDef
		masks []int
		pos   int
	}
	cur := make([]*cursor, len(entryTable))
	for i, e := range entryTable {
		m := e.masks()
		rot := rng.Intn(len(m))
		mm := append(append([]int{}, m[rot:]...), m[:rot]...)
		cur[i] = &cursor{e: e, masks: mm}
	}
	total := NumCombos()
	var out []Case
	slots := 0
	// phase A: every combination once, round robin with drop-out
	for slots < n && slots < total {
		for _, c := range cur {
			if slots >= n {
				break
			}
			if c.pos >= len(c.masks) {
				continue
			}
			mask := c.masks[c.pos]
			c.pos++
			slots++
			if cs, ok := runOne(c.e, rng.Split(), mask); ok {
				out = append(out, cs)
			}
		}
	}
	// phase B: cyclic continuation
	for slots < n {
		for _, c := range cur {
			if slots >= n {
				break
			}
			mask := c.masks[c.pos%len(c.masks)]
			c.pos++
			slots++
			if cs, ok := runOne(c.e, rng.Split(), mask); ok {
				out = append(out, cs)
			}
		}
	}
	return out
}

// GenerateEntry produces n cases of one entry point (cycling over its option
// combinations); used by targeted hunts.
func GenerateEntry(rng *common.Rng, name string, n int) []Case {
	var out []Case
	for _, e := range entryTable {
		if e.name != name {
			continue
		}
		m := e.masks()
		for i := 0; i < n; i++ {
			if cs, ok := runOne(e, rng.Split(), m[i%len(m)]); ok {
				out = append(out, cs)
			}
		}
	}
	return out
}

func runOne(e *entryDef, rng *common.Rng, mask int) (Case, bool) {
	spec := e.gen(rng, mask)
	spec.ID = e.id
	spec.Mask = mask
	touchSparse(spec, rng)
	c, err := execute(spec)
	if err != nil {
		return Case{}, false
	}
	return c, true
}

// Replay re-runs exactly the case described by spec.
func Replay(raw json.RawMessage) (Case, error) {
	var s Spec
	if err := json.Unmarshal(raw, &s); err != nil {
		return Case{}, err
	}
	return execute(&s)
}

// ---------------------------------------------------------------- Coq

// Coq prints the case as
//
//	mkE <ID>%nat <OptMask>%nat <modelled> [ (<writable>, [before], [after]); ... ]
func (c Case) Coq() string {
	var sb strings.Builder
	fmt.Fprintf(&sb, "mkE %d%%nat %d%%nat %s [", c.ID, c.OptMask, common.B(c.Modelled))
	for i, o := range c.Objs {
		if i > 0 {
			sb.WriteString("; ")
		}
		fmt.Fprintf(&sb, "(%s, %s, %s)", common.B(o.Role != "input"), common.FList(o.Before), common.FList(o.After))
	}
	sb.WriteString("]")
	return sb.String()
}

func sameBits(a, b []float64) bool {
	if len(a) != len(b) {
		return false
	}
	for i := range a {
		if math.Float64bits(a[i]) != math.Float64bits(b[i]) {
			return false
		}
	}
	return true
}

// ---------------------------------------------------------------- Shrink

// Shrink tries to find a smaller case that still has a changed input object:
// fewer options, smaller dimension, simpler values.  Candidates are produced
// by modifying the spec and replaying it.
func Shrink(c Case) Case {
	// shrink on the observable changes; when there are none, on the
	// representation changes
	useRep := false
	if len(c.Changed) == 0 {
		if len(c.RepChanged) == 0 {
			return c
		}
		useRep = true
	}
	changedOf := func(x Case) []string {
		if useRep {
			if len(x.Changed) > 0 {
				return nil
			}
			return x.RepChanged
		}
		return x.Changed
	}
	best := c
	var bs Spec
	if json.Unmarshal(c.Spec, &bs) != nil {
		return c
	}
	e := entryByID[bs.ID]
	if e == nil {
		return c
	}
	// the shrunk case must keep the outcome and the first changed object of
	// the original, and must not introduce additional non-finite values in it
	target := changedOf(c)[0]
	nonFinite := func(cs Case) int {
		k := 0
		for _, o := range cs.Objs {
			if o.Name != target {
				continue
			}
			for _, l := range [][]float64{o.Before, o.After} {
				for _, x := range l {
					if math.IsNaN(x) || math.IsInf(x, 0) {
						k++
					}
				}
			}
		}
		return k
	}
	nf0 := nonFinite(c)
	try := func(s *Spec) bool {
		raw, err := json.Marshal(s)
		if err != nil {
			return false
		}
		nc, err := Replay(raw)
		if err != nil || nc.Outcome != c.Outcome {
			return false
		}
		keeps := false
		for _, n := range changedOf(nc) {
			keeps = keeps || n == target
		}
		if !keeps || nonFinite(nc) > nf0 {
			return false
		}
		best = nc
		bs = *s.clone()
		return true
	}
	valid := map[int]bool{}
	for _, m := range e.masks() {
		valid[m] = true
	}
	for round := 0; round < 4; round++ {
		progress := false
		// 1. fewer options: clear single bits (only masks the entry enumerates)
		for bit := 0; bit < 24; bit++ {
			if bs.Mask&(1<<uint(bit)) == 0 {
				continue
			}
			s := bs.clone()
			s.Mask &^= 1 << uint(bit)
			if !valid[s.Mask] {
				continue
			}
			if try(s) {
				progress = true
			}
		}
		// 2. simpler container kind
		if bs.Kind != 0 {
			s := bs.clone()
			s.Kind = 0
			if try(s) {
				progress = true
			}
		}
		// 3. smaller dimension: regenerate with the entry's generator at a
		// smaller size (deterministic sub-seeds)
		for n := 1; n < bs.N; n++ {
			found := false
			for k := 0; k < 6 && !found; k++ {
				r := common.NewRng(uint64(1000*n + k))
				s := genWithDim(e, r, bs.Mask, n, bs.Kind)
				if s == nil {
					continue
				}
				if try(s) {
					progress, found = true, true
				}
			}
			if found {
				break
			}
		}
		// 4. simpler values: round every value to an integer / to 0 or 1
		for _, name := range bs.valNames() {
			vs := bs.vals(name)
			for i := range vs {
				for _, cand := range []float64{0, 1, math.Round(vs[i])} {
					if math.Float64bits(cand) == math.Float64bits(vs[i]) || (cand == 0 && vs[i] == 0) {
						continue
					}
					if math.Abs(cand) >= math.Abs(vs[i]) && cand != math.Round(vs[i]) {
						continue
					}
					s := bs.clone()
					w := append([]float64{}, vs...)
					w[i] = cand
					s.setVals(name, w)
					if try(s) {
						progress = true
						vs = bs.vals(name)
						break
					}
				}
			}
		}
		if !progress {
			break
		}
	}
	return best
}

// forcedDim is consulted by the generators (via dimOf) while Shrink
// regenerates a spec at a smaller size.
var forcedDim, forcedKind = 0, -1

func genWithDim(e *entryDef, r *common.Rng, mask, n, kind int) (s *Spec) {
	defer func() {
		forcedDim, forcedKind = 0, -1
		if recover() != nil {
			s = nil
		}
	}()
	forcedDim, forcedKind = n, kind
	s = e.gen(r, mask)
	s.ID = e.id
	s.Mask = mask
	touchSparse(s, r)
	return s
}

// sparse main input matrices: half of the time the caller has touched one
// (zero) entry, which is then an explicitly stored zero
func touchSparse(s *Spec, r *common.Rng) {
	if s.Kind != 2 {
		return
	}
	t := -1
	if r.Bool() && s.N*s.M > 0 {
		t = r.Intn(s.N * s.M)
	}
	s.setInts("mtouch", t)
}
