//go:build verif

package entry

import (
	"reflect"
	"sort"
	"strings"
)

// Footprint of an object = every piece of storage it can reach: the address
// range of every pointer target, slice backing array (up to its capacity) and
// map header reachable through fields (exported or not), elements and
// interface values.  The walk stays inside the types of the library (and
// unnamed composites of them); it does not descend into reflect.Type values,
// functions, channels or foreign packages.

type span struct{ lo, hi uintptr }

// Footprint is a list of address ranges in walk order.
type Footprint []span

func footprintOf(x interface{}) Footprint {
	if x == nil {
		return nil
	}
	w := &fpWalker{seen: map[fpKey]bool{}}
	w.walk(reflect.ValueOf(x), 0)
	return w.out
}

type fpKey struct {
	p uintptr
	t reflect.Type
}

type fpWalker struct {
	out  Footprint
	seen map[fpKey]bool
}

func walkable(t reflect.Type) bool {
	p := t.PkgPath()
	return p == "" || strings.HasPrefix(p, "github.com/pbenner/autodiff") || strings.HasPrefix(p, "adharness")
}

// pointerful reports whether values of type t can reach storage.
func pointerful(t reflect.Type) bool {
	switch t.Kind() {
	case reflect.Ptr, reflect.Interface, reflect.Slice, reflect.Map:
		return true
	case reflect.Struct:
		if !walkable(t) {
			return false
		}
		for i := 0; i < t.NumField(); i++ {
			if pointerful(t.Field(i).Type) {
				return true
			}
		}
	case reflect.Array:
		return pointerful(t.Elem())
	}
	return false
}

func (w *fpWalker) add(lo uintptr, size uintptr) {
	if lo != 0 && size > 0 {
		w.out = append(w.out, span{lo, lo + size})
	}
}

func (w *fpWalker) walk(v reflect.Value, depth int) {
	if !v.IsValid() || depth > 64 {
		return
	}
	t := v.Type()
	switch v.Kind() {
	case reflect.Interface:
		if !v.IsNil() {
			w.walk(v.Elem(), depth+1)
		}
	case reflect.Ptr:
		if v.IsNil() || !walkable(t.Elem()) {
			return
		}
		p := v.Pointer()
		w.add(p, t.Elem().Size())
		k := fpKey{p, t}
		if w.seen[k] {
			return
		}
		w.seen[k] = true
		w.walk(v.Elem(), depth+1)
	case reflect.Slice:
		if v.IsNil() || v.Cap() == 0 || !walkable(t) {
			return
		}
		p := v.Pointer()
		w.add(p, uintptr(v.Cap())*t.Elem().Size())
		if pointerful(t.Elem()) {
			k := fpKey{p, t}
			if w.seen[k] {
				return
			}
			w.seen[k] = true
			for i := 0; i < v.Len(); i++ {
				w.walk(v.Index(i), depth+1)
			}
		}
	case reflect.Map:
		if v.IsNil() || !walkable(t) {
			return
		}
		p := v.Pointer()
		w.add(p, 1)
		k := fpKey{p, t}
		if w.seen[k] {
			return
		}
		w.seen[k] = true
		if !pointerful(t.Elem()) && !pointerful(t.Key()) {
			return
		}
		keys := v.MapKeys()
		if t.Key().Kind() == reflect.Int {
			sort.Slice(keys, func(i, j int) bool { return keys[i].Int() < keys[j].Int() })
		}
		for _, key := range keys {
			w.walk(v.MapIndex(key), depth+1)
		}
	case reflect.Struct:
		if !walkable(t) {
			return
		}
		for i := 0; i < v.NumField(); i++ {
			if pointerful(t.Field(i).Type) {
				w.walk(v.Field(i), depth+1)
			}
		}
	case reflect.Array:
		if pointerful(t.Elem()) {
			for i := 0; i < v.Len(); i++ {
				w.walk(v.Index(i), depth+1)
			}
		}
	}
}

func (a Footprint) overlaps(b Footprint) bool {
	for _, x := range a {
		for _, y := range b {
			if x.lo < y.hi && y.lo < x.hi {
				return true
			}
		}
	}
	return false
}

// components labels the spans of several footprints: two spans get the same
// label iff they are connected by a chain of overlapping spans.  Labels are
// numbered in order of first occurrence (footprint by footprint, span by span).
func components(fps []Footprint) [][]int {
	type item struct {
		s    span
		f, i int
	}
	var all []item
	for f, fp := range fps {
		for i, s := range fp {
			all = append(all, item{s, f, i})
		}
	}
	idx := make([]int, len(all))
	for i := range idx {
		idx[i] = i
	}
	sort.SliceStable(idx, func(a, b int) bool { return all[idx[a]].s.lo < all[idx[b]].s.lo })
	comp := make([]int, len(all)) // provisional component per item
	nc := 0
	var hi uintptr
	for k, id := range idx {
		if k == 0 || all[id].s.lo >= hi {
			nc++
			hi = all[id].s.hi
		} else if all[id].s.hi > hi {
			hi = all[id].s.hi
		}
		comp[id] = nc - 1
	}
	// renumber in order of first occurrence
	ren := map[int]int{}
	out := make([][]int, len(fps))
	pos := 0
	for f, fp := range fps {
		out[f] = make([]int, len(fp))
		for i := range fp {
			c := comp[pos]
			if _, ok := ren[c]; !ok {
				ren[c] = len(ren)
			}
			out[f][i] = ren[c]
			pos++
		}
	}
	return out
}
