//go:build verif

package entry

import (
	"encoding/json"
	"fmt"
	"math"
	"reflect"
	"strings"

	"adharness/common"
)

// Stream O (round 6): the caller's OPTION LIST is an input too.  Every entry
// point takes `args ...interface{}`; a caller who writes Run(x, opts...) hands
// over the backing array of his slice, including the capacity behind len(opts).
//
// One case = one (entry point, option combination):
//   call 1   the options live in a caller-held slice with `spare` unused cells
//            behind len (filled with sentinels); the whole capacity window is
//            keyed (shallow identity of every element) before and after;
//   ref      the same call with a literal option list (len == cap), fresh
//            inputs of the same values: its result is the reference;
//   call 2   when every option is a plain value (no pointer / func): a second
//            call with THE SAME slice on fresh inputs; its result must equal
//            the reference bit for bit, and so must the result of call 1.

type sentinel struct{ Cell int }

// ForeignOption is an option no entry point consumes: entry points ignore it, forward it to the
// algorithms they call, or reject it (panic "Invalid optional argument").
type ForeignOption struct{ Tag int }

// hold is called by every builder on its option list.
func (b *bld) hold(args []interface{}) []interface{} {
	if b.holdMode != 0 && b.s.int1("foreign", 0) == 1 {
		args = append(append([]interface{}{}, args...), ForeignOption{77})
	}
	switch b.holdMode {
	case 1:
		h := make([]interface{}, len(args), len(args)+b.spare)
		copy(h, args)
		w := h[:cap(h)]
		for i := len(args); i < cap(h); i++ {
			w[i] = sentinel{i}
		}
		b.held = h
		return h
	case 2:
		h := make([]interface{}, len(args))
		copy(h, args)
		b.held = h
		return h
	case 3:
		b.held = b.reuse
		return b.reuse
	}
	return args
}

// shallow identity of an option value: plain data by value, references by address
func keyOf(v reflect.Value, depth int) string {
	if !v.IsValid() {
		return "nil"
	}
	if depth > 6 {
		return "..."
	}
	switch v.Kind() {
	case reflect.Bool:
		return fmt.Sprint(v.Bool())
	case reflect.Int, reflect.Int8, reflect.Int16, reflect.Int32, reflect.Int64:
		return fmt.Sprint(v.Int())
	case reflect.Uint, reflect.Uint8, reflect.Uint16, reflect.Uint32, reflect.Uint64, reflect.Uintptr:
		return fmt.Sprint(v.Uint())
	case reflect.Float32, reflect.Float64:
		return fmt.Sprintf("%x", math.Float64bits(v.Float()))
	case reflect.String:
		return fmt.Sprintf("%q", v.String())
	case reflect.Ptr, reflect.Func, reflect.Map, reflect.Chan, reflect.UnsafePointer:
		if v.IsNil() {
			return v.Kind().String() + ":nil"
		}
		return fmt.Sprintf("%s@%x", v.Kind(), v.Pointer())
	case reflect.Slice:
		if v.IsNil() {
			return "slice:nil"
		}
		return fmt.Sprintf("slice@%x/%d/%d", v.Pointer(), v.Len(), v.Cap())
	case reflect.Interface:
		if v.IsNil() {
			return "iface:nil"
		}
		return v.Elem().Type().String() + "(" + keyOf(v.Elem(), depth+1) + ")"
	case reflect.Struct:
		parts := make([]string, v.NumField())
		for i := range parts {
			parts[i] = keyOf(v.Field(i), depth+1)
		}
		return v.Type().String() + "{" + strings.Join(parts, ",") + "}"
	case reflect.Array:
		parts := make([]string, v.Len())
		for i := range parts {
			parts[i] = keyOf(v.Index(i), depth+1)
		}
		return "[" + strings.Join(parts, ",") + "]"
	}
	return v.Kind().String()
}

func optKey(x interface{}) string {
	if x == nil {
		return "nil"
	}
	v := reflect.ValueOf(x)
	return v.Type().String() + ":" + keyOf(v, 0)
}

// plain data only (a slice of plain data counts: the callee may only read it, stream E watches it)
func pureVal(v reflect.Value, depth int) bool {
	if !v.IsValid() || depth > 6 {
		return false
	}
	switch v.Kind() {
	case reflect.Bool, reflect.Int, reflect.Int8, reflect.Int16, reflect.Int32, reflect.Int64,
		reflect.Uint, reflect.Uint8, reflect.Uint16, reflect.Uint32, reflect.Uint64,
		reflect.Float32, reflect.Float64, reflect.String:
		return true
	case reflect.Slice, reflect.Array:
		switch v.Type().Elem().Kind() {
		case reflect.Bool, reflect.Int, reflect.Float64, reflect.Float32, reflect.Int64:
			return true
		}
		return false
	case reflect.Struct:
		for i := 0; i < v.NumField(); i++ {
			if !pureVal(v.Field(i), depth+1) {
				return false
			}
		}
		return true
	}
	return false
}

func allPure(args []interface{}) bool {
	for _, a := range args {
		if a == nil || !pureVal(reflect.ValueOf(a), 0) {
			return false
		}
	}
	return true
}

// OptCase is one executed case of stream O.
type OptCase struct {
	Entry    string          `json:"entry"`
	ID       int             `json:"id"`
	Opts     string          `json:"opts"`
	OptMask  int             `json:"mask"`
	Spare    int             `json:"spare"`
	Len      int             `json:"len"`
	Pure     bool            `json:"pure"`
	Outcomes []string        `json:"outcomes"` // call 1, reference, call 2
	KeysB    []string        `json:"window_before"`
	KeysA    []string        `json:"window_after"`
	KeysA2   []string        `json:"window_after_second_call"`
	W0       []int           `json:"-"`
	W1       []int           `json:"-"`
	W2       []int           `json:"-"`
	RRef     []float64       `json:"-"`
	R1       []float64       `json:"-"`
	R2       []float64       `json:"-"`
	RRefHex  []string        `json:"result_literal_options,omitempty"`
	R1Hex    []string        `json:"result_held_slice,omitempty"`
	R2Hex    []string        `json:"result_second_call_same_slice,omitempty"`
	Spec     json.RawMessage `json:"spec"`
	Changed  []string        `json:"changed"`
}

func snapRet(out []float64, x interface{}) []float64 {
	if isNil(x) {
		return append(out, -1)
	}
	switch v := x.(type) {
	case []float64:
		out = append(out, float64(len(v)))
		return append(out, v...)
	}
	if sn := snapAny(x); sn != nil {
		return append(out, sn()...)
	}
	return append(out, -3)
}

// result of a call: outcome, returned objects, final state of every writable object
func resultOf(b *bld, outcome string) []float64 {
	code := map[string]float64{"ok": 0, "error": 1, "panic": 2}[outcome]
	r := []float64{code}
	for _, x := range b.rets {
		r = snapRet(r, x)
	}
	for _, t := range b.objs {
		if t.role != "input" {
			r = append(r, t.snap()...)
		}
	}
	return r
}

func buildFor(e *entryDef, s *Spec, mode, spare int, reuse []interface{}) (b *bld, err error) {
	b = &bld{s: s.clone(), holdMode: mode, spare: spare, reuse: reuse}
	defer func() {
		if r := recover(); r != nil {
			err = fmt.Errorf("building inputs of %s failed: %v", e.name, r)
		}
	}()
	e.build(b)
	if b.run == nil {
		err = fmt.Errorf("%s: no call", e.name)
	}
	return
}

func windowKeys(h []interface{}) []string {
	w := h[:cap(h)]
	r := make([]string, len(w))
	for i, x := range w {
		r[i] = optKey(x)
	}
	return r
}

// ExecOpts runs one case of stream O.
func ExecOpts(s *Spec, spare int) (OptCase, error) {
	e := entryByID[s.ID]
	if e == nil {
		return OptCase{}, fmt.Errorf("unknown entry id %d", s.ID)
	}
	raw, _ := json.Marshal(struct {
		*Spec
		Spare int `json:"spare"`
	}{s, spare})
	c := OptCase{Entry: e.name, ID: e.id, Opts: e.optStr(s.Mask), OptMask: s.Mask, Spare: spare, Spec: raw}
	if s.Kind != 0 {
		c.Opts += fmt.Sprintf(" [kind=%s]", kindName(s.Kind))
	}
	if s.int1("foreign", 0) == 1 {
		c.Opts += " +ForeignOption"
	}
	// call 1: held slice with spare capacity
	b1, err := buildFor(e, s, 1, spare, nil)
	if err != nil {
		return OptCase{}, err
	}
	held := b1.held
	if held == nil && cap(held) == 0 {
		// the builder passes no option list (entry point without variadic options)
		return OptCase{}, fmt.Errorf("%s: no option list", e.name)
	}
	c.Len = len(held)
	c.Pure = allPure(held)
	c.KeysB = windowKeys(held)
	o1, _ := guarded(b1.run)
	if o1 == "timeout" {
		timeouts++
		return OptCase{}, fmt.Errorf("%s: timeout", e.name)
	}
	c.KeysA = windowKeys(held)
	c.R1 = resultOf(b1, o1)
	// reference: literal option list
	b2, err := buildFor(e, s, 2, 0, nil)
	if err != nil {
		return OptCase{}, err
	}
	o2, _ := guarded(b2.run)
	if o2 == "timeout" {
		timeouts++
		return OptCase{}, fmt.Errorf("%s: timeout", e.name)
	}
	c.RRef = resultOf(b2, o2)
	c.Outcomes = []string{o1, o2}
	// call 2: the same slice again (plain-value options only)
	c.R2, c.KeysA2 = c.RRef, c.KeysA
	if c.Pure {
		b3, err := buildFor(e, s, 3, 0, held)
		if err != nil {
			return OptCase{}, err
		}
		o3, _ := guarded(b3.run)
		if o3 == "timeout" {
			timeouts++
			return OptCase{}, fmt.Errorf("%s: timeout", e.name)
		}
		c.R2 = resultOf(b3, o3)
		c.KeysA2 = windowKeys(held)
		c.Outcomes = append(c.Outcomes, o3)
	}
	// keys -> small integers
	dict := map[string]int{}
	num := func(ks []string) []int {
		r := make([]int, len(ks))
		for i, k := range ks {
			if _, ok := dict[k]; !ok {
				dict[k] = len(dict)
			}
			r[i] = dict[k]
		}
		return r
	}
	c.W0, c.W1, c.W2 = num(c.KeysB), num(c.KeysA), num(c.KeysA2)
	for i := range c.KeysB {
		if c.KeysB[i] != c.KeysA[i] {
			where := "capacity window behind len"
			if i < c.Len {
				where = "element"
			}
			c.Changed = append(c.Changed, fmt.Sprintf("opts[%d] (%s): %s -> %s", i, where, c.KeysB[i], c.KeysA[i]))
		} else if c.KeysB[i] != c.KeysA2[i] {
			c.Changed = append(c.Changed, fmt.Sprintf("opts[%d] after the second call: %s -> %s", i, c.KeysB[i], c.KeysA2[i]))
		}
	}
	if !sameBits(c.RRef, c.R1) {
		c.Changed = append(c.Changed, "result with the held slice differs from the result with literal options")
	}
	if !sameBits(c.RRef, c.R2) {
		c.Changed = append(c.Changed, "result of the second call with the same slice differs from the result with literal options")
	}
	if len(c.Changed) > 0 {
		c.RRefHex, c.R1Hex, c.R2Hex = hexList(c.RRef), hexList(c.R1), hexList(c.R2)
	}
	return c, nil
}

// Bad reports whether the Go-side oracle saw the option list or the results change.
func (c OptCase) Bad() bool { return len(c.Changed) > 0 }

// Coq prints  mkO id mask spare len [w0] [w1] [w2] [digest ref] [digest r1] [digest r2]
func (c OptCase) Coq() string {
	return fmt.Sprintf("mkO %d (%d)%%Z %d %d %s %s %s %s %s %s", c.ID, c.OptMask, c.Spare, c.Len,
		natList(c.W0), natList(c.W1), natList(c.W2),
		common.FList(digest(c.RRef)), common.FList(digest(c.R1)), common.FList(digest(c.R2)))
}

// OptEntryNames: the entry points that take an option list.
func OptEntryNames() []string {
	var r []string
	for _, e := range entryTable {
		if e.id < 100 && e.takesOpts() {
			r = append(r, e.name)
		}
	}
	return r
}

var takesOptsCache = map[int]bool{}

// an entry takes options iff its builder calls hold()
func (e *entryDef) takesOpts() bool {
	if v, ok := takesOptsCache[e.id]; ok {
		return v
	}
	r := common.NewRng(uint64(7 + e.id))
	s := e.gen(r, e.masks()[0])
	s.ID, s.Mask = e.id, e.masks()[0]
	touchSparse(s, r)
	b, err := buildFor(e, s, 1, 1, nil)
	v := err == nil && cap(b.held) > 0
	takesOptsCache[e.id] = v
	return v
}

var pureMaskCache = map[int][]int{}

// the option combinations of an entry point whose option values are all plain data
func (e *entryDef) pureMasks() []int {
	if v, ok := pureMaskCache[e.id]; ok {
		return v
	}
	var pm []int
	for _, m := range e.masks() {
		r := common.NewRng(uint64(11 + e.id))
		s := genWithDim(e, r, m, 0, -1)
		if s == nil {
			continue
		}
		if b, err := buildFor(e, s, 1, 1, nil); err == nil && allPure(b.held) {
			pm = append(pm, m)
		}
	}
	pureMaskCache[e.id] = pm
	return pm
}

// GenerateOpts: n cases; walks round robin over the entry points, every entry point's option combinations from an
// rng-chosen rotation (so that a quick run reaches every entry point with several combinations and successive
// seeds cover all of them); spare capacity 1..3.
func GenerateOpts(rng *common.Rng, n int) []OptCase {
	type cursor struct {
		e     *entryDef
		masks []int
		pos   int
		rot   int
	}
	var cur []*cursor
	for _, e := range entryTable {
		if e.id >= 100 || !e.takesOpts() {
			continue
		}
		m := e.masks()
		rot := rng.Intn(len(m))
		cur = append(cur, &cursor{e: e, rot: rot, masks: append(append([]int{}, m[rot:]...), m[:rot]...)})
	}
	var out []OptCase
	for slots := 0; slots < n; {
		for _, c := range cur {
			if slots >= n {
				break
			}
			mask := c.masks[c.pos%len(c.masks)]
			// every second case: a combination whose options are all plain values, so that the second call
			// with the same slice is reached for every entry point
			if pm := c.e.pureMasks(); c.pos%2 == 0 && len(pm) > 0 {
				mask = pm[(c.pos/2+c.rot)%len(pm)]
			}
			c.pos++
			slots++
			r := rng.Split()
			s := c.e.gen(r, mask)
			s.ID, s.Mask = c.e.id, mask
			touchSparse(s, r)
			// every third case: one more option at the end that the entry point does not consume itself
			if c.pos%3 == 0 {
				s.setInts("foreign", 1)
			}
			if oc, err := ExecOpts(s, 1+r.Intn(3)); err == nil {
				out = append(out, oc)
			}
		}
	}
	return out
}

// ReplayOpts re-runs exactly the case described by raw.
func ReplayOpts(raw json.RawMessage) (OptCase, error) {
	var s struct {
		Spec
		Spare int `json:"spare"`
	}
	if err := json.Unmarshal(raw, &s); err != nil {
		return OptCase{}, err
	}
	if s.Spare <= 0 {
		s.Spare = 1
	}
	return ExecOpts(&s.Spec, s.Spare)
}

// ShrinkOpts: fewer options, smaller dimension (regenerated), while the case stays bad.
func ShrinkOpts(c OptCase) OptCase {
	var s struct {
		Spec
		Spare int `json:"spare"`
	}
	if json.Unmarshal(c.Spec, &s) != nil {
		return c
	}
	e := entryByID[s.ID]
	if e == nil {
		return c
	}
	best, bs := c, s.Spec.clone()
	valid := map[int]bool{}
	for _, m := range e.masks() {
		valid[m] = true
	}
	try := func(sp *Spec) bool {
		nc, err := ExecOpts(sp, s.Spare)
		if err == nil && nc.Bad() {
			best, bs = nc, sp.clone()
			return true
		}
		return false
	}
	for round := 0; round < 3; round++ {
		progress := false
		for bit := 0; bit < 24; bit++ {
			if bs.Mask&(1<<uint(bit)) == 0 {
				continue
			}
			sp := bs.clone()
			sp.Mask &^= 1 << uint(bit)
			if valid[sp.Mask] && try(sp) {
				progress = true
			}
		}
		if bs.Kind != 0 {
			sp := bs.clone()
			sp.Kind = 0
			if try(sp) {
				progress = true
			}
		}
		if bs.int1("foreign", 0) == 1 {
			sp := bs.clone()
			sp.setInts("foreign", 0)
			if try(sp) {
				progress = true
			}
		}
		for n := 1; n < bs.N; n++ {
			found := false
			for k := 0; k < 4 && !found; k++ {
				sp := genWithDim(e, common.NewRng(uint64(1000*n+k)), bs.Mask, n, bs.Kind)
				if sp != nil {
					sp.setInts("foreign", bs.int1("foreign", 0))
				}
				if sp != nil && try(sp) {
					progress, found = true, true
				}
			}
			if found {
				break
			}
		}
		if !progress {
			break
		}
	}
	return best
}
