//go:build verif

package entry

import (
	"math"

	. "github.com/pbenner/autodiff"
)

// Flat snapshots of the full observable state.  Integers are stored as exact
// float64.  Markers: a nil object is the single value -1.

func snapScalar(out []float64, s ConstScalar) []float64 {
	if isNil(s) {
		return append(out, -1)
	}
	order, n := s.GetOrder(), s.GetN()
	out = append(out, s.GetFloat64(), float64(order), float64(n))
	for i := 0; i < n; i++ {
		out = append(out, s.GetDerivative(i))
	}
	if order >= 2 {
		for i := 0; i < n; i++ {
			for j := 0; j < n; j++ {
				out = append(out, s.GetHessian(i, j))
			}
		}
	}
	return out
}

func isNil(x interface{}) bool {
	if x == nil {
		return true
	}
	switch v := x.(type) {
	case *Real64:
		return v == nil
	case *Real32:
		return v == nil
	case *SparseFloat64Vector:
		return v == nil
	case *SparseReal64Vector:
		return v == nil
	case *DenseFloat64Matrix:
		return v == nil
	case *DenseReal64Matrix:
		return v == nil
	case *SparseFloat64Matrix:
		return v == nil
	}
	return false
}

// element snapshot: plain float containers give just the value
func snapElem(out []float64, plain bool, s ConstScalar) []float64 {
	if plain {
		return append(out, s.GetFloat64())
	}
	return snapScalar(out, s)
}

func plainType(t ScalarType) bool {
	return t != Real64Type && t != Real32Type
}

// safely evaluate f (sparse containers may hold nil placeholders)
func safeElem(out []float64, plain bool, f func() ConstScalar) (r []float64) {
	defer func() {
		if recover() != nil {
			r = append(out, math.Inf(-1), -2) // marker: element not readable
		}
	}()
	return snapElem(out, plain, f())
}

// private state of a sparse vector (map entries sorted by key, index keys, n)
func snapSparsePrivate(out []float64, v interface{}) []float64 {
	st := VerifC11Dump(v)
	if !st.Sparse {
		return out
	}
	out = append(out, float64(st.N), float64(len(st.Entries)))
	for _, e := range st.Entries {
		nilf := 0.0
		if e.Nil {
			nilf = 1
		}
		out = append(out, float64(e.Key), nilf, e.Value)
	}
	out = append(out, float64(len(st.Index)))
	for _, k := range st.Index {
		out = append(out, float64(k))
	}
	return out
}

// snapVector: OBSERVABLE state of a vector: Dim, then every element (read via
// ConstAt; for sparse vectors from a clone, never from the object itself).
func snapVector(out []float64, v ConstVector) []float64 {
	if isNil(v) {
		return append(out, -1)
	}
	n := v.Dim()
	out = append(out, float64(n))
	plain := plainType(v.ElementType())
	src := v
	if st := VerifC11Dump(v); st.Sparse {
		src = nil
		func() {
			defer func() { recover() }()
			src = v.CloneConstVector()
		}()
		if src == nil {
			return append(out, math.Inf(-1), -3)
		}
	}
	for i := 0; i < n; i++ {
		i := i
		out = safeElem(out, plain, func() ConstScalar { return src.ConstAt(i) })
	}
	return out
}

// repVector: REPRESENTATION of a sparse vector (empty for dense vectors):
// private map entries / index keys / n from the hooks, and the ConstIterator
// (index, value) sequence of a clone.
func repVector(v ConstVector) []float64 {
	if isNil(v) {
		return nil
	}
	var out []float64
	switch w := v.(type) {
	case SparseConstFloat64Vector:
		idx, val := w.GetSparseIndices(), w.GetSparseValues()
		out = append(out, float64(len(idx)))
		for _, k := range idx {
			out = append(out, float64(k))
		}
		out = append(out, float64(len(val)))
		out = append(out, val...)
		return out
	}
	if st := VerifC11Dump(v); !st.Sparse {
		return nil
	}
	plain := plainType(v.ElementType())
	out = snapSparsePrivate(out, v)
	func() {
		defer func() {
			if recover() != nil {
				out = append(out, math.Inf(-1), -3)
			}
		}()
		c := v.CloneConstVector()
		cnt := 0
		pos := len(out)
		out = append(out, 0)
		for it := c.ConstIterator(); it.Ok(); it.Next() {
			out = append(out, float64(it.Index()))
			out = snapElem(out, plain, it.GetConst())
			cnt++
		}
		out[pos] = float64(cnt)
	}()
	return out
}

func b2f(b bool) float64 {
	if b {
		return 1
	}
	return 0
}

// snapMatrix: OBSERVABLE state of a matrix: rows, cols, header fields, raw
// storage of dense matrices, then every element row-major (sparse: from a
// clone).
func snapMatrix(out []float64, m ConstMatrix) []float64 {
	if isNil(m) {
		return append(out, -1)
	}
	rows, cols := m.Dims()
	out = append(out, float64(rows), float64(cols))
	plain := plainType(m.ElementType())
	sparse := false
	if h, ok := VerifC10Header(m); ok {
		sparse = h.Sparse
		out = append(out, b2f(h.Sparse), float64(h.Len), float64(h.Rows), float64(h.Cols),
			float64(h.RowOffset), float64(h.RowMax), float64(h.ColOffset), float64(h.ColMax), b2f(h.Transposed))
		if !h.Sparse {
			st := VerifC10Storage(m)
			out = append(out, float64(len(st)))
			out = append(out, st...)
		}
	}
	src := m
	if sparse {
		// read the elements from a clone, never from the sparse object itself
		func() {
			defer func() {
				if recover() != nil {
					src = nil
				}
			}()
			src = m.CloneConstMatrix()
		}()
		if src == nil {
			return append(out, math.Inf(-1), -3)
		}
	}
	for i := 0; i < rows; i++ {
		for j := 0; j < cols; j++ {
			i, j := i, j
			out = safeElem(out, plain, func() ConstScalar { return src.ConstAt(i, j) })
		}
	}
	return out
}

// repMatrix: REPRESENTATION of a sparse matrix (empty for dense matrices):
// stored (index, value) pairs and the private map / index keys of the
// underlying sparse vector.
func repMatrix(m ConstMatrix) []float64 {
	if isNil(m) {
		return nil
	}
	h, ok := VerifC10Header(m)
	if !ok || !h.Sparse {
		return nil
	}
	var out []float64
	idx, val, n := VerifC10SparseStorage(m)
	out = append(out, float64(n), float64(len(idx)))
	for i, k := range idx {
		out = append(out, float64(k), val[i])
	}
	if inner, ok := VerifC11MatValues(m); ok {
		out = snapSparsePrivate(out, inner)
	}
	return out
}

func snapRows(out []float64, rows [][]float64) []float64 {
	out = append(out, float64(len(rows)))
	for _, r := range rows {
		out = append(out, float64(len(r)))
		out = append(out, r...)
	}
	return out
}
