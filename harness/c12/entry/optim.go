//go:build verif

package entry

import (
	"fmt"
	"math"

	. "github.com/pbenner/autodiff"
	"github.com/pbenner/autodiff/algorithm/adam"
	"github.com/pbenner/autodiff/algorithm/bfgs"
	"github.com/pbenner/autodiff/algorithm/blahut"
	"github.com/pbenner/autodiff/algorithm/gradientDescent"
	"github.com/pbenner/autodiff/algorithm/lineSearch"
	"github.com/pbenner/autodiff/algorithm/newton"
	"github.com/pbenner/autodiff/algorithm/rprop"
	"github.com/pbenner/autodiff/algorithm/saga"

	"adharness/common"
)

// ---------------------------------------------------------------- objectives

// objective data: f(x) = sum_i c_i (x_i - t_i)^2  (+ a Rosenbrock-like
// coupling when mode = 1).  c and t are caller-owned vectors (tracked as
// inputs: the library must not touch what the closure captured).
type objData struct {
	c, t   DenseFloat64Vector
	mode   int
	budget int
}

func (o *objData) scalar(x ConstVector) (MagicScalar, error) {
	if o.budget <= 0 {
		return nil, fmt.Errorf("evaluation budget exhausted")
	}
	o.budget--
	r, u := NullReal64(), NullReal64()
	n := x.Dim()
	for i := 0; i < n; i++ {
		u.Sub(x.ConstAt(i), o.t.ConstAt(i))
		u.Mul(u, u)
		u.Mul(u, o.c.ConstAt(i))
		r.Add(r, u)
	}
	if o.mode == 1 {
		for i := 0; i+1 < n; i++ {
			u.Mul(x.ConstAt(i), x.ConstAt(i))
			u.Sub(x.ConstAt(i+1), u)
			u.Mul(u, u)
			u.Mul(u, ConstFloat64(0.125))
			r.Add(r, u)
		}
	}
	return r, nil
}

// gradient form (dense)
func (o *objData) gradient(x, g DenseFloat64Vector) error {
	if o.budget <= 0 {
		return fmt.Errorf("evaluation budget exhausted")
	}
	o.budget--
	n := len(x)
	for i := 0; i < n; i++ {
		g[i] = 2 * o.c[i] * (x[i] - o.t[i])
	}
	if o.mode == 1 {
		for i := 0; i+1 < n; i++ {
			d := x[i+1] - x[i]*x[i]
			g[i+1] += 0.25 * d
			g[i] += -0.5 * d * x[i]
		}
	}
	return nil
}

// root form: y_i = c_i (x_i - t_i) + (x_i - t_i)^3/8 + (x_{i+1} - t_{i+1})/4
func (o *objData) root(x ConstVector) (MagicVector, error) {
	if o.budget <= 0 {
		return nil, fmt.Errorf("evaluation budget exhausted")
	}
	o.budget--
	n := x.Dim()
	y := NullDenseReal64Vector(n)
	u, w := NullReal64(), NullReal64()
	for i := 0; i < n; i++ {
		u.Sub(x.ConstAt(i), o.t.ConstAt(i))
		w.Mul(u, u)
		w.Mul(w, u)
		w.Mul(w, ConstFloat64(0.125))
		u.Mul(u, o.c.ConstAt(i))
		u.Add(u, w)
		if o.mode == 1 && i+1 < n {
			w.Sub(x.ConstAt(i+1), o.t.ConstAt(i+1))
			w.Mul(w, ConstFloat64(0.25))
			u.Add(u, w)
		}
		y.At(i).Set(u)
	}
	return y, nil
}

func genObjective(r *common.Rng, s *Spec, n int) {
	s.setVals("f.c", rposvec(r, n))
	s.setVals("f.t", rvec(r, n))
	s.setVals("x0", rvec(r, n))
	s.setInts("fmode", r.Intn(2))
	s.setInts("hookstop", r.Intn(4)) // 0: hook never stops
	s.setInts("vars", r.Intn(2))
	s.setInts("touch", r.Intn(n+1)-1)
	s.setInts("eps", r.Intn(2))
	s.setInts("iter", r.Range(3, 12))
	zeroTouched(s, "x0")
}

// a sparse start vector whose caller touched an absent entry: that entry is
// an explicitly stored zero
func zeroTouched(s *Spec, name string) {
	if t := s.int1("touch", -1); s.Kind == 2 && t >= 0 {
		v := s.vals(name)
		if t < len(v) {
			v[t] = 0
			s.setVals(name, v)
		}
	}
}

func (b *bld) objective(budget int) *objData {
	o := &objData{c: NewDenseFloat64Vector(b.s.vals("f.c")), t: NewDenseFloat64Vector(b.s.vals("f.t")),
		mode: b.s.int1("fmode", 0), budget: budget}
	b.vec("f.c", "input", o.c)
	b.vec("f.t", "input", o.t)
	return o
}

// x0 in the container kind of the spec.  Real vectors optionally carry
// derivative state (Variables(1)); sparse vectors optionally carry an
// explicitly stored zero (the caller touched an absent entry with At).
func (b *bld) startVec(name string, kinds ...int) Vector {
	k := b.s.Kind
	v := mkVec(k, b.s.vals(name))
	switch k {
	case 1:
		if b.s.int1("vars", 0) == 1 {
			v.(DenseReal64Vector).Variables(1)
		}
	case 2:
		if t := b.s.int1("touch", -1); t >= 0 && t < v.Dim() {
			v.At(t)
		}
	}
	b.vec(name, "input", v)
	return v
}

type hookCounter struct{ calls, stop int }

func (h *hookCounter) hit() bool {
	h.calls++
	return h.stop > 0 && h.calls >= h.stop
}

func readVec(v ConstVector) float64 {
	s := 0.0
	if v == nil {
		return s
	}
	for i := 0; i < v.Dim(); i++ {
		s += v.ConstAt(i).GetFloat64()
	}
	return s
}

func boxed(x ConstVector) bool {
	for i := 0; i < x.Dim(); i++ {
		if math.Abs(x.ConstAt(i).GetFloat64()) > 50 {
			return false
		}
	}
	return true
}

var sink float64

func init() {
	// ------------------------------------------------------------ 1 adam.Run
	register(&entryDef{id: 1, name: "adam.Run", modelled: true,
		masks:  func() []int { return masksPlain(5) },
		optStr: func(m int) string { return presOpts(m, 0, "Hook", "Constraints", "StepSize", "Beta1+Beta2", "Epsilon") },
		gen: func(r *common.Rng, mask int) *Spec {
			n := dimOf(r, 1, 4)
			s := newSpec(kindOf(r, 0, 1, 2), n, 1)
			genObjective(r, s, n)
			return s
		},
		build: func(b *bld) {
			o := b.objective(2000)
			x0 := b.startVec("x0")
			h := &hookCounter{stop: b.s.int1("hookstop", 0)}
			args := []interface{}{adam.MaxIterations{Value: b.s.int1("iter", 5)}}
			if b.bit(0) {
				args = append(args, adam.Hook{Value: func(x, g ConstVector, y ConstScalar) bool {
					sink = readVec(x) + readVec(g)
					return h.hit()
				}})
			}
			if b.bit(1) {
				args = append(args, adam.Constraints{Value: func(x Vector) bool { return boxed(x) }})
			}
			if b.bit(2) {
				args = append(args, adam.StepSize{Value: 0.0625})
			}
			if b.bit(3) {
				args = append(args, adam.Beta1{Value: 0.75}, adam.Beta2{Value: 0.875})
			}
			if b.bit(4) {
				args = append(args, adam.Epsilon{Value: 1e-4})
			}
			f := func(x ConstVector) (MagicScalar, error) { return o.scalar(x) }
			args = b.hold(args)
			b.run = func() error { r, err := adam.Run(f, x0, args...); b.ret(r); return err }
		}})

	// ------------------------------------------------------------ 2 adam.RunGradient
	register(&entryDef{id: 2, name: "adam.RunGradient", modelled: false,
		masks:  func() []int { return masksPlain(4) },
		optStr: func(m int) string { return presOpts(m, 0, "Hook", "ConstConstraints", "Beta1+Beta2", "Epsilon") },
		gen: func(r *common.Rng, mask int) *Spec {
			n := dimOf(r, 1, 4)
			s := newSpec(0, n, 1)
			genObjective(r, s, n)
			return s
		},
		build: func(b *bld) {
			b.s.Kind = 0
			o := b.objective(2000)
			x0 := b.startVec("x0")
			h := &hookCounter{stop: b.s.int1("hookstop", 0)}
			args := []interface{}{adam.MaxIterations{Value: b.s.int1("iter", 5)}}
			if b.bit(0) {
				args = append(args, adam.Hook{Value: func(x, g ConstVector, y ConstScalar) bool {
					sink = readVec(x) + readVec(g)
					return h.hit()
				}})
			}
			if b.bit(1) {
				args = append(args, adam.ConstConstraints{Value: boxed})
			}
			if b.bit(2) {
				args = append(args, adam.Beta1{Value: 0.75}, adam.Beta2{Value: 0.875})
			}
			if b.bit(3) {
				args = append(args, adam.Epsilon{Value: 1e-4})
			}
			f := adam.DenseGradientF(o.gradient)
			args = b.hold(args)
			b.run = func() error { r, err := adam.RunGradient(f, x0, args...); b.ret(r); return err }
		}})

	// ------------------------------------------------------------ 4 bfgs.Run
	register(&entryDef{id: 4, name: "bfgs.Run", modelled: true,
		masks:  func() []int { return masksPlain(4) },
		optStr: func(m int) string { return presOpts(m, 0, "Hessian", "Hook", "Epsilon", "Constraints") },
		gen: func(r *common.Rng, mask int) *Spec {
			n := dimOf(r, 1, 4)
			s := newSpec(kindOf(r, 0, 1, 2), n, 1)
			genObjective(r, s, n)
			s.setVals("Hessian", rspd(r, n))
			return s
		},
		build: func(b *bld) {
			n := b.s.N
			o := b.objective(3000)
			x0 := b.startVec("x0")
			h := &hookCounter{stop: b.s.int1("hookstop", 0)}
			args := []interface{}{bfgs.MaxIterations{Value: b.s.int1("iter", 5)}}
			if b.bit(0) {
				hn := n + b.s.int1("hdim", 0) // round 7: dimension mismatch regime (edge.go)
				H := b.inMat(b.s.Kind, hn, hn, "Hessian")
				b.mat("Hessian.Value", "input", H)
				args = append(args, bfgs.Hessian{Value: H})
			}
			if b.bit(1) {
				args = append(args, bfgs.Hook{Value: func(x, g ConstVector, y ConstScalar) bool {
					sink = readVec(x) + readVec(g) + y.GetFloat64()
					return h.hit()
				}})
			}
			if b.bit(2) {
				args = append(args, bfgs.Epsilon{Value: 1e-4})
			}
			if b.bit(3) {
				args = append(args, bfgs.Constraints{Value: func(x Vector) bool { return boxed(x) }})
			}
			f := bfgs.Objective(func(x ConstVector) (MagicScalar, error) { return o.scalar(x) })
			args = b.hold(args)
			b.run = func() error { r, err := bfgs.Run(f, x0, args...); b.ret(r); return err }
		}})

	// ------------------------------------------------------------ 5 blahut.Run
	genBlahut := func(r *common.Rng, kinds ...int) *Spec {
		n := dimOf(r, 1, 4)
		m := r.Range(1, 3)
		s := newSpec(kindOf(r, kinds...), n, m)
		s.setVals("channel", rstoch(r, n, m))
		s.setVals("p_init", rstoch(r, 1, n))
		s.setInts("steps", r.Range(0, 5))
		s.setInts("hookstop", r.Intn(4))
		return s
	}
	register(&entryDef{id: 5, name: "blahut.Run", modelled: false,
		masks:  func() []int { return masksPlain(2) },
		optStr: func(m int) string { return presOpts(m, 0, "Hook", "Lambda") },
		gen:    func(r *common.Rng, mask int) *Spec { return genBlahut(r, 0, 1, 2) },
		build: func(b *bld) {
			n, m, k := b.s.N, b.s.M, b.s.Kind
			ch := b.inMat(k, n, m, "channel")
			p := mkVec(k, b.s.vals("p_init"))
			b.mat("channel", "input", ch)
			b.vec("p_init", "input", p)
			h := &hookCounter{stop: b.s.int1("hookstop", 0)}
			var args []interface{}
			if b.bit(0) {
				args = append(args, blahut.Hook{Value: func(p Vector, J Scalar) bool {
					sink = readVec(p) + J.GetFloat64()
					return h.hit()
				}})
			}
			if b.bit(1) {
				args = append(args, blahut.Lambda{Value: 0.75})
			}
			steps := b.s.int1("steps", 1)
			args = b.hold(args)
			b.run = func() error { r := blahut.Run(ch, p, steps, args...); b.ret(r); return nil }
		}})

	// ------------------------------------------------------------ 6 blahut.RunNaive
	register(&entryDef{id: 6, name: "blahut.RunNaive", modelled: false,
		masks:  func() []int { return masksPlain(2) },
		optStr: func(m int) string { return presOpts(m, 0, "HookNaive", "Lambda") },
		gen:    func(r *common.Rng, mask int) *Spec { return genBlahut(r, 0) },
		build: func(b *bld) {
			n, m := b.s.N, b.s.M
			v := b.s.vals("channel")
			ch := make([][]float64, n)
			for i := range ch {
				ch[i] = cp(v[i*m : (i+1)*m])
			}
			p := b.s.vals("p_init")
			b.track("channel", "input", func() []float64 { return snapRows(nil, ch) })
			b.f64s("p_init", "input", p)
			h := &hookCounter{stop: b.s.int1("hookstop", 0)}
			var args []interface{}
			if b.bit(0) {
				args = append(args, blahut.HookNaive{Value: func(p []float64, J float64) bool {
					sink = J
					return h.hit()
				}})
			}
			if b.bit(1) {
				args = append(args, blahut.Lambda{Value: 0.75})
			}
			steps := b.s.int1("steps", 1)
			args = b.hold(args)
			b.run = func() error { r := blahut.RunNaive(ch, p, steps, args...); b.ret(r); return nil }
		}})

	// ------------------------------------------------------------ 12 gradientDescent.Run
	register(&entryDef{id: 12, name: "gradientDescent.Run", modelled: true,
		masks:  func() []int { return masksPlain(2) },
		optStr: func(m int) string { return presOpts(m, 0, "Hook", "Epsilon") },
		gen: func(r *common.Rng, mask int) *Spec {
			n := dimOf(r, 1, 4)
			s := newSpec(kindOf(r, 0, 1, 2), n, 1)
			genObjective(r, s, n)
			return s
		},
		build: func(b *bld) {
			o := b.objective(400)
			x0 := b.startVec("x0")
			h := &hookCounter{stop: b.s.int1("hookstop", 0)}
			var args []interface{}
			if b.bit(0) {
				args = append(args, gradientDescent.Hook{Value: func(g []float64, x ConstVector, y ConstScalar) bool {
					sink = readVec(x) + y.GetFloat64()
					return h.hit()
				}})
			}
			if b.bit(1) {
				args = append(args, gradientDescent.Epsilon{Value: 1e-3})
			}
			f := func(x ConstVector) (MagicScalar, error) { return o.scalar(x) }
			args = b.hold(args)
			b.run = func() error { r, err := gradientDescent.Run(f, x0, 0.0625, args...); b.ret(r); return err }
		}})

	// ------------------------------------------------------------ 18 lineSearch.Run
	register(&entryDef{id: 18, name: "lineSearch.Run", modelled: true,
		masks:  func() []int { return masksPlain(3) },
		optStr: func(m int) string { return presOpts(m, 0, "Parameters", "Constraints", "Hook") },
		gen: func(r *common.Rng, mask int) *Spec {
			s := newSpec(kindOf(r, 0, 1), 1, 1)
			s.setVals("f.c", []float64{rpos(r)})
			s.setVals("f.t", []float64{rpos(r)})
			s.setInts("fmode", 0)
			s.setInts("hookstop", r.Intn(4))
			return s
		},
		build: func(b *bld) {
			o := b.objective(500)
			h := &hookCounter{stop: b.s.int1("hookstop", 0)}
			var args []interface{}
			if b.bit(0) {
				args = append(args, lineSearch.Parameters{Alpha1: 0.5, MaxEval: 10})
			}
			if b.bit(1) {
				args = append(args, lineSearch.Constraints{Value: func(x ConstScalar) bool { return x.GetFloat64() <= 2 }})
			}
			if b.bit(2) {
				args = append(args, lineSearch.Hook{Value: func(a, y, g ConstScalar) bool {
					sink = a.GetFloat64() + y.GetFloat64() + g.GetFloat64()
					return h.hit()
				}})
			}
			f := func(alpha ConstScalar) (MagicScalar, error) {
				if o.budget <= 0 {
					return nil, fmt.Errorf("evaluation budget exhausted")
				}
				o.budget--
				r := NullReal64()
				r.Sub(alpha, o.t.ConstAt(0))
				r.Mul(r, r)
				r.Mul(r, o.c.ConstAt(0))
				return r, nil
			}
			t := scalarType(b.s.Kind)
			args = b.hold(args)
			b.run = func() error { r, err := lineSearch.Run(f, t, args...); b.ret(r); return err }
		}})

	// ------------------------------------------------------------ 22..24 newton.Run*
	// bits: 0 Hook, 1 Constraints, 2..3 HessianModification (0 default, 1 LDL,
	// 2 Eigenvalue), 4 InSitu passed, 5 T1+T2, 6 Inverse{Id,A,B}
	newtonMasks := func() []int {
		var r []int
		for o := 0; o < 4; o++ {
			for hm := 0; hm < 3; hm++ {
				base := o | hm<<2
				r = append(r, base, base|1<<4, base|1<<4|1<<5, base|1<<4|1<<6, base|1<<4|1<<5|1<<6)
			}
		}
		return r
	}
	newtonStr := func(m int) string {
		hm := []string{"", "HessianModification=LDL", "HessianModification=Eigenvalue", "HessianModification=?"}[(m>>2)&3]
		return join(presOpts(m, 0, "Hook", "Constraints"), hm, inSituStr(m, 4, "T1+T2", "Inverse{Id,A,B}"))
	}
	newtonGen := func(r *common.Rng, mask int) *Spec {
		n := dimOf(r, 1, 4)
		s := newSpec(kindOf(r, 0, 1, 2), n, 1)
		genObjective(r, s, n)
		return s
	}
	newtonArgs := func(b *bld, which int) []interface{} {
		n := b.s.N
		h := &hookCounter{stop: b.s.int1("hookstop", 0)}
		args := []interface{}{newton.MaxIterations{Value: b.s.int1("iter", 5)}}
		if b.s.int1("eps", 0) == 1 {
			args = append(args, newton.Epsilon{Value: 1e-6})
		}
		if b.bit(0) {
			switch which {
			case 0:
				args = append(args, newton.HookRoot{Value: func(x ConstVector, J ConstMatrix, y ConstVector) bool {
					sink = readVec(x) + readVec(y) + J.ConstAt(0, 0).GetFloat64()
					return h.hit()
				}})
			case 1:
				args = append(args, newton.HookCrit{Value: func(x ConstVector, J ConstMatrix, y ConstVector) bool {
					sink = readVec(x) + readVec(y) + J.ConstAt(0, 0).GetFloat64()
					return h.hit()
				}})
			default:
				args = append(args, newton.HookMin{Value: func(x, g ConstVector, H ConstMatrix, y ConstScalar) bool {
					sink = readVec(x) + readVec(g) + H.ConstAt(0, 0).GetFloat64()
					return h.hit()
				}})
			}
		}
		if b.bit(1) {
			args = append(args, newton.Constraints{Value: func(x Vector) bool { return boxed(x) }})
		}
		switch (b.s.Mask >> 2) & 3 {
		case 1:
			args = append(args, newton.HessianModification{Value: "LDL"})
		case 2:
			args = append(args, newton.HessianModification{Value: "Eigenvalue"})
		}
		if b.bit(4) {
			is := b.persist(&newton.InSitu{}).(*newton.InSitu)
			if b.bit(5) && !b.later() {
				t1, t2 := bufVec(0, n), bufScalar(0)
				b.vec("InSitu.T1", "insitu", t1)
				b.sca("InSitu.T2", "insitu", t2)
				is.T1, is.T2 = t1, t2
			}
			if b.bit(6) && !b.later() {
				id, a, bb := bufMat(0, n, n), bufMat(0, n, n), bufVec(0, n)
				b.mat("InSitu.Inverse.Id", "insitu", id)
				b.mat("InSitu.Inverse.A", "insitu", a)
				b.vec("InSitu.Inverse.B", "insitu", bb)
				is.Inverse.Id, is.Inverse.A, is.Inverse.B = id, a, bb
			}
			args = append(args, is)
		}
		return args
	}
	register(&entryDef{id: 22, name: "newton.RunRoot", modelled: true, masks: newtonMasks, optStr: newtonStr, gen: newtonGen,
		build: func(b *bld) {
			o := b.objective(500)
			x := b.startVec("x0")
			args := newtonArgs(b, 0)
			f := func(x ConstVector) (MagicVector, error) { return o.root(x) }
			args = b.hold(args)
			b.run = func() error { r, err := newton.RunRoot(f, x, args...); b.ret(r); return err }
		}})
	register(&entryDef{id: 23, name: "newton.RunCrit", modelled: true, masks: newtonMasks, optStr: newtonStr, gen: newtonGen,
		build: func(b *bld) {
			o := b.objective(500)
			x := b.startVec("x0")
			args := newtonArgs(b, 1)
			f := func(x ConstVector) (MagicScalar, error) { return o.scalar(x) }
			args = b.hold(args)
			b.run = func() error { r, err := newton.RunCrit(f, x, args...); b.ret(r); return err }
		}})
	register(&entryDef{id: 24, name: "newton.RunMin", modelled: true, masks: newtonMasks, optStr: newtonStr, gen: newtonGen,
		build: func(b *bld) {
			o := b.objective(2000)
			x := b.startVec("x0")
			args := newtonArgs(b, 2)
			f := func(x ConstVector) (MagicScalar, error) { return o.scalar(x) }
			args = b.hold(args)
			b.run = func() error { r, err := newton.RunMin(f, x, args...); b.ret(r); return err }
		}})

	// ------------------------------------------------------------ 26 rprop.Run
	register(&entryDef{id: 26, name: "rprop.Run", modelled: true,
		masks:  func() []int { return masksPlain(3) },
		optStr: func(m int) string { return presOpts(m, 0, "Hook", "Epsilon", "Constraints") },
		gen: func(r *common.Rng, mask int) *Spec {
			n := dimOf(r, 1, 4)
			s := newSpec(kindOf(r, 0, 1, 2), n, 1)
			genObjective(r, s, n)
			return s
		},
		build: func(b *bld) {
			o := b.objective(1 << 40) // rprop retries forever on objective errors: never fail
			x0 := b.startVec("x0")
			eta := []float64{1.25, 0.5}
			b.f64s("eta", "input", eta)
			h := &hookCounter{stop: b.s.int1("hookstop", 0)}
			args := []interface{}{rprop.MaxIterations{Value: b.s.int1("iter", 5)}}
			if b.bit(0) {
				args = append(args, rprop.Hook{Value: func(g, st []float64, x ConstVector, y ConstScalar) bool {
					sink = readVec(x)
					return h.hit()
				}})
			}
			if b.bit(1) {
				args = append(args, rprop.Epsilon{Value: 1e-4})
			}
			if b.bit(2) {
				args = append(args, rprop.Constraints{Value: func(x Vector) bool { return boxed(x) }})
			}
			f := func(x ConstVector) (MagicScalar, error) { return o.scalar(x) }
			args = b.hold(args)
			b.run = func() error { r, err := rprop.Run(f, x0, 0.125, eta, args...); b.ret(r); return err }
		}})

	// ------------------------------------------------------------ 27 rprop.RunGradient
	register(&entryDef{id: 27, name: "rprop.RunGradient", modelled: false,
		masks:  func() []int { return masksPlain(3) },
		optStr: func(m int) string { return presOpts(m, 0, "Hook", "Epsilon", "ConstConstraints") },
		gen: func(r *common.Rng, mask int) *Spec {
			n := dimOf(r, 1, 4)
			s := newSpec(0, n, 1)
			genObjective(r, s, n)
			return s
		},
		build: func(b *bld) {
			b.s.Kind = 0
			o := b.objective(1 << 40)
			x0 := b.startVec("x0")
			eta := []float64{1.25, 0.5}
			b.f64s("eta", "input", eta)
			h := &hookCounter{stop: b.s.int1("hookstop", 0)}
			args := []interface{}{rprop.MaxIterations{Value: b.s.int1("iter", 5)}}
			if b.bit(0) {
				args = append(args, rprop.Hook{Value: func(g, st []float64, x ConstVector, y ConstScalar) bool {
					sink = readVec(x)
					return h.hit()
				}})
			}
			if b.bit(1) {
				args = append(args, rprop.Epsilon{Value: 1e-4})
			}
			if b.bit(2) {
				args = append(args, rprop.ConstConstraints{Value: boxed})
			}
			f := rprop.DenseGradientF(o.gradient)
			args = b.hold(args)
			b.run = func() error { r, err := rprop.RunGradient(f, x0, 0.125, eta, args...); b.ret(r); return err }
		}})

	// ------------------------------------------------------------ 28 saga.Run
	// bits: 0..1 objective type (0 Objective1Dense, 1 Objective2Dense,
	// 2 Objective1Sparse, 3 Objective2Sparse), 2..4 regularisation (0 none,
	// 1 L1, 2 L2, 3 Tikhonov, 4 ProximalOperator, 5 JitUpdate), 5 Hook,
	// 6 InSitu passed, 7 InSitu.T1
	register(&entryDef{id: 28, name: "saga.Run", modelled: false,
		masks: func() []int {
			var r []int
			for obj := 0; obj < 4; obj++ {
				for reg := 0; reg < 6; reg++ {
					if reg == 5 && obj != 2 {
						continue
					}
					for hook := 0; hook < 2; hook++ {
						base := obj | reg<<2 | hook<<5
						r = append(r, base, base|1<<6, base|1<<6|1<<7)
					}
				}
			}
			return r
		},
		optStr: func(m int) string {
			obj := []string{"Objective1Dense", "Objective2Dense", "Objective1Sparse", "Objective2Sparse"}[m&3]
			reg := []string{"", "L1Regularization", "L2Regularization", "TikhonovRegularization", "ProximalOperator", "JitUpdate", "?", "?"}[(m>>2)&7]
			return join(obj, reg, presOpts(m, 5, "Hook"), inSituStr(m, 6, "T1"))
		},
		gen: func(r *common.Rng, mask int) *Spec {
			d := dimOf(r, 1, 4)
			n := r.Range(1, 4)
			s := newSpec(kindOf(r, 0, 1, 2), d, n)
			data := rmat(r, n, d)
			for i := range data {
				if r.Intn(3) == 0 {
					data[i] = 0
				}
			}
			s.setVals("data", data)
			s.setVals("y", rvec(r, n))
			s.setVals("x", rvec(r, d))
			s.Seed = int64(r.Intn(1000))
			s.setInts("hookstop", r.Intn(4))
			s.setInts("vars", r.Intn(2))
			s.setInts("touch", r.Intn(d+1)-1)
			s.setInts("eps", r.Intn(2))
			s.setInts("iter", r.Range(1, 6))
			zeroTouched(s, "x")
			return s
		},
		build: func(b *bld) {
			d, n := b.s.N, b.s.M
			data, y := b.s.vals("data"), b.s.vals("y")
			x := b.startVec("x")
			yv := NewDenseFloat64Vector(y)
			b.vec("y", "input", yv)
			objType := b.s.Mask & 3
			reg := (b.s.Mask >> 2) & 7
			dense := make([]DenseFloat64Vector, n)
			sparse := make([]SparseConstFloat64Vector, n)
			for i := 0; i < n; i++ {
				row := cp(data[i*d : (i+1)*d])
				if objType < 2 {
					dense[i] = NewDenseFloat64Vector(row)
					b.vec(fmt.Sprintf("data[%d]", i), "input", dense[i])
				} else {
					idx, val := []int{}, []float64{}
					for j, v := range row {
						if v != 0 {
							idx = append(idx, j)
							val = append(val, v)
						}
					}
					sparse[i] = NewSparseConstFloat64Vector(idx, val, d)
					b.vec(fmt.Sprintf("data[%d]", i), "input", sparse[i])
				}
			}
			budget := 2000
			resid := func(i int, theta DenseFloat64Vector) (float64, error) {
				if budget <= 0 {
					return 0, fmt.Errorf("evaluation budget exhausted")
				}
				budget--
				if i < 0 || i >= n {
					return 0, fmt.Errorf("index out of bounds")
				}
				w := -yv[i]
				for j := 0; j < d; j++ {
					w += data[i*d+j] * theta[j]
				}
				return w, nil
			}
			var f interface{}
			switch objType {
			case 0:
				f = saga.Objective1Dense(func(i int, th DenseFloat64Vector) (float64, float64, DenseFloat64Vector, error) {
					w, err := resid(i, th)
					if err != nil {
						return 0, 0, nil, err
					}
					return 0.5 * w * w, w, dense[i], nil
				})
			case 1:
				f = saga.Objective2Dense(func(i int, th DenseFloat64Vector) (float64, DenseFloat64Vector, error) {
					w, err := resid(i, th)
					if err != nil {
						return 0, nil, err
					}
					g := NullDenseFloat64Vector(d)
					for j := 0; j < d; j++ {
						g[j] = w * dense[i][j]
					}
					return 0.5 * w * w, g, nil
				})
			case 2:
				f = saga.Objective1Sparse(func(i int, th DenseFloat64Vector) (float64, float64, SparseConstFloat64Vector, error) {
					w, err := resid(i, th)
					if err != nil {
						return 0, 0, SparseConstFloat64Vector{}, err
					}
					return 0.5 * w * w, w, sparse[i], nil
				})
			default:
				f = saga.Objective2Sparse(func(i int, th DenseFloat64Vector) (float64, SparseConstFloat64Vector, error) {
					w, err := resid(i, th)
					if err != nil {
						return 0, SparseConstFloat64Vector{}, err
					}
					idx := append([]int{}, sparse[i].GetSparseIndices()...)
					val := append([]float64{}, sparse[i].GetSparseValues()...)
					for j := range val {
						val[j] *= w
					}
					return 0.5 * w * w, NewSparseConstFloat64Vector(idx, val, d), nil
				})
			}
			args := []interface{}{saga.MaxIterations{Value: b.s.int1("iter", 3)}, saga.Gamma{Value: 0.0625}, saga.Seed{Value: b.s.Seed}}
			if b.s.int1("eps", 0) == 1 {
				args = append(args, saga.Epsilon{Value: 1e-4})
			}
			switch reg {
			case 1:
				args = append(args, saga.L1Regularization{Value: 0.25})
			case 2:
				args = append(args, saga.L2Regularization{Value: 0.25})
			case 3:
				args = append(args, saga.TikhonovRegularization{Value: 0.25})
			case 4:
				op := &saga.ProximalOperatorL1{Lambda: 0.25}
				b.track("ProximalOperator.Value.Lambda", "input", func() []float64 { return []float64{op.GetLambda()} })
				args = append(args, saga.ProximalOperator{Value: op})
			case 5:
				op := &saga.JitUpdateL1{Lambda: 0.25}
				b.track("JitUpdate.Value.Lambda", "input", func() []float64 { return []float64{op.GetLambda()} })
				args = append(args, saga.JitUpdate{Value: op})
			}
			h := &hookCounter{stop: b.s.int1("hookstop", 0)}
			if b.bit(5) {
				args = append(args, saga.Hook{Value: func(x ConstVector, a, l ConstScalar, i int) bool {
					sink = readVec(x)
					return h.hit()
				}})
			}
			if b.bit(6) {
				is := b.persist(&saga.InSitu{}).(*saga.InSitu)
				if b.bit(7) && !b.later() {
					t1 := NewDenseFloat64Vector(make([]float64, d))
					for i := range t1 {
						t1[i] = 0.25 + float64(i)
					}
					b.vec("InSitu.T1", "insitu", t1)
					is.T1 = t1
				}
				args = append(args, is)
			}
			args = b.hold(args)
			b.run = func() error { r, _, err := saga.Run(f, n, x, args...); b.ret(r); return err }
		}})
}
