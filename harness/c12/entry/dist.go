//go:build verif

package entry

import (
	"fmt"
	"math"

	. "github.com/pbenner/autodiff"
	. "github.com/pbenner/autodiff/statistics"
	md "github.com/pbenner/autodiff/statistics/matrixDistribution"
	sd "github.com/pbenner/autodiff/statistics/scalarDistribution"
	vd "github.com/pbenner/autodiff/statistics/vectorDistribution"

	"adharness/common"
)

// Distribution constructors (ids 100+).  Option bit 0: parameters are Real64
// scalars (carrying derivative state) instead of Float64.  Further bits are
// constructor flags (beta: bit 1 = logScale).
//
// Objects: the constructor arguments (role "input"), then
//   "logpdf-after-mutating-args": LogPdf values right after construction vs.
//        after every constructor argument was overwritten with 3x+1;
//   "getparameters-mutation": LogPdf values before/after overwriting the
//        vector returned by GetParameters() (role "insitu" where the type
//        hands out its internal parameter vector by design).

type distCtx struct {
	b        *bld
	real     bool
	kind     int
	t        ScalarType
	mutators []func()
	scalars  []MagicScalar
}

func mut(v float64) float64 { return 3*v + 1 }

// scalar constructor argument
func (d *distCtx) S(name string) Scalar {
	v := d.b.s.vals(name)[0]
	var x Scalar
	if d.real {
		r := NewReal64(v)
		d.scalars = append(d.scalars, r)
		x = r
	} else {
		x = NewFloat64(v)
	}
	d.b.sca(name, "input", x)
	d.mutators = append(d.mutators, func() { x.SetFloat64(mut(x.GetFloat64())) })
	return x
}

// vector constructor argument
func (d *distCtx) V(name string) Vector {
	x := mkVec(d.kind, d.b.s.vals(name))
	if d.real {
		x.(DenseReal64Vector).Variables(1)
	}
	d.b.vec(name, "input", x)
	d.mutators = append(d.mutators, func() {
		for i := 0; i < x.Dim(); i++ {
			x.At(i).SetFloat64(mut(x.ConstAt(i).GetFloat64()))
		}
	})
	return x
}

// matrix constructor argument
func (d *distCtx) M(name string, rows, cols int) Matrix {
	x := mkMat(d.kind, rows, cols, d.b.s.vals(name))
	d.b.mat(name, "input", x)
	d.mutators = append(d.mutators, func() {
		for i := 0; i < rows; i++ {
			for j := 0; j < cols; j++ {
				x.At(i, j).SetFloat64(mut(x.ConstAt(i, j).GetFloat64()))
			}
		}
	})
	return x
}

// distribution-valued constructor argument: observable state = GetParameters()
func (d *distCtx) P(name string, p BasicDistribution) {
	d.b.track(name, "input", func() (r []float64) {
		defer func() {
			if recover() != nil {
				r = []float64{math.Inf(-1), -4}
			}
		}()
		return snapVector(nil, p.GetParameters())
	})
	d.mutators = append(d.mutators, func() {
		defer func() { recover() }()
		q := p.GetParameters().CloneVector()
		for i := 0; i < q.Dim(); i++ {
			q.At(i).SetFloat64(mut(q.ConstAt(i).GetFloat64()))
		}
		p.SetParameters(q)
	})
}

func (d *distCtx) finish() {
	if d.real && len(d.scalars) > 0 {
		Variables(1, d.scalars...)
	}
}

// component distributions for the composite constructors
func (d *distCtx) scalarNormal(name string) ScalarPdf {
	v := d.b.s.vals(name)
	var mu, sigma Scalar
	if d.real {
		mu, sigma = NewReal64(v[0]), NewReal64(v[1])
	} else {
		mu, sigma = NewFloat64(v[0]), NewFloat64(v[1])
	}
	p, err := sd.NewNormalDistribution(mu, sigma)
	if err != nil {
		panic(err)
	}
	d.P(name, p)
	return p
}

func (d *distCtx) vectorNormal(name string, n int) VectorPdf {
	v := d.b.s.vals(name)
	mu := mkVec(d.kind, v[:n])
	sigma := mkMat(d.kind, n, n, v[n:n+n*n])
	p, err := vd.NewNormalDistribution(mu, sigma)
	if err != nil {
		panic(err)
	}
	d.P(name, p)
	return p
}

// LogPdf values (with derivative state) at the evaluation points of the spec
func (d *distCtx) eval(pdf interface{}) []float64 {
	xs := d.b.s.vals("x")
	var out []float64
	one := func(f func(r Scalar) error) {
		defer func() {
			if recover() != nil {
				out = append(out, math.Inf(-1), -5)
			}
		}()
		r := NullScalar(d.t)
		if err := f(r); err != nil {
			out = append(out, math.Inf(1), -6)
			return
		}
		out = snapScalar(out, r)
	}
	switch p := pdf.(type) {
	case interface {
		LogPdf(r Scalar, mu Vector, sigma Matrix) error
		Dim() int
	}:
		// normal inverse Wishart: a point is (mu, sigma)
		n := p.Dim()
		for i := 0; i+n+n*n <= len(xs); i += n + n*n {
			mu := NewDenseFloat64Vector(cp(xs[i : i+n]))
			sg := NewDenseFloat64Matrix(cp(xs[i+n:i+n+n*n]), n, n)
			one(func(r Scalar) error { return p.LogPdf(r, mu, sg) })
		}
	case ScalarPdf:
		for _, x := range xs {
			x := x
			one(func(r Scalar) error { return p.LogPdf(r, ConstFloat64(x)) })
		}
	case VectorPdf:
		n := p.Dim()
		if n <= 0 {
			n = d.b.s.int1("xdim", 1)
		}
		for i := 0; i+n <= len(xs); i += n {
			x := NewDenseFloat64Vector(cp(xs[i : i+n]))
			one(func(r Scalar) error { return p.LogPdf(r, x) })
		}
	case MatrixPdf:
		rows, cols := p.Dims()
		if rows <= 0 || cols <= 0 {
			rows, cols = d.b.s.int1("xrows", 1), d.b.s.int1("xcols", 1)
		}
		n := rows * cols
		for i := 0; i+n <= len(xs); i += n {
			x := NewDenseFloat64Matrix(cp(xs[i:i+n]), rows, cols)
			one(func(r Scalar) error { return p.LogPdf(r, x) })
		}
	}
	return out
}

type distDef struct {
	id        int
	name      string
	nflags    int  // additional constructor flag bits after the Real64 bit
	internals bool // GetParameters hands out internals by design
	noGetPar  bool // do not run the GetParameters mutation
	gen       func(r *common.Rng, s *Spec)
	setup     func(d *distCtx) func() (interface{}, error)
}

func registerDist(dd distDef) {
	register(&entryDef{id: dd.id, name: dd.name, modelled: false,
		masks: func() []int { return masksPlain(1 + dd.nflags) },
		optStr: func(m int) string {
			s := "Float64"
			if m&1 != 0 {
				s = "Real64"
			}
			if dd.nflags > 0 {
				s += fmt.Sprintf(",flags=%d", m>>1)
			}
			return s
		},
		gen: func(r *common.Rng, mask int) *Spec {
			s := newSpec(0, 1, 1)
			dd.gen(r, s)
			return s
		},
		build: func(b *bld) {
			d := &distCtx{b: b, real: b.bit(0), t: Float64Type}
			if d.real {
				d.kind, d.t = 1, Real64Type
			}
			ctor := dd.setup(d)
			d.finish()
			var pdf interface{}
			var lp0 []float64
			b.run = func() error {
				p, err := ctor()
				if err != nil {
					return err
				}
				pdf = p
				lp0 = d.eval(pdf)
				return nil
			}
			b.post = func() []Obj {
				if pdf == nil {
					return nil
				}
				var objs []Obj
				for _, m := range d.mutators {
					m()
				}
				lp1 := d.eval(pdf)
				objs = append(objs, Obj{Name: "logpdf-after-mutating-args", Role: "input", Before: lp0, After: lp1})
				if bd, ok := pdf.(BasicDistribution); ok && !dd.noGetPar {
					role := "input"
					if dd.internals {
						role = "insitu"
					}
					done := false
					func() {
						defer func() { recover() }()
						p := bd.GetParameters()
						if p == nil {
							return
						}
						for i := 0; i < p.Dim(); i++ {
							p.At(i).SetFloat64(mut(p.ConstAt(i).GetFloat64()))
						}
						done = true
					}()
					if done {
						lp2 := d.eval(pdf)
						objs = append(objs, Obj{Name: "getparameters-mutation", Role: role, Before: lp1, After: lp2})
					}
				}
				return objs
			}
		}})
}

func prob(r *common.Rng) float64 { return float64(r.Range(1, 7)) / 8 }

func init() {
	sv := func(s *Spec, name string, v ...float64) { s.setVals(name, v) }
	posPts := func(r *common.Rng) []float64 { return []float64{rpos(r), rpos(r) + 1, 0.5} }
	anyPts := func(r *common.Rng) []float64 { return []float64{rv(r), rv(r), 0.25} }
	cntPts := func(r *common.Rng) []float64 { return []float64{float64(r.Intn(4)), float64(r.Intn(4)), 1} }

	registerDist(distDef{id: 100, name: "scalarDistribution.NewBetaDistribution", nflags: 1,
		gen: func(r *common.Rng, s *Spec) {
			sv(s, "alpha", rpos(r))
			sv(s, "beta", rpos(r))
			sv(s, "x", prob(r), prob(r), 0.5)
		},
		setup: func(d *distCtx) func() (interface{}, error) {
			a, bb := d.S("alpha"), d.S("beta")
			ls := d.b.bit(1)
			return func() (interface{}, error) {
				p, err := sd.NewBetaDistribution(a, bb, ls)
				if err != nil {
					return nil, err
				}
				return p, nil
			}
		}})
	registerDist(distDef{id: 101, name: "scalarDistribution.NewBinomialDistribution",
		gen: func(r *common.Rng, s *Spec) {
			sv(s, "theta", prob(r))
			s.setInts("n", r.Range(1, 5))
			sv(s, "x", cntPts(r)...)
		},
		setup: func(d *distCtx) func() (interface{}, error) {
			th := d.S("theta")
			n := d.b.s.int1("n", 3)
			return func() (interface{}, error) {
				p, err := sd.NewBinomialDistribution(th, n)
				if err != nil {
					return nil, err
				}
				return p, nil
			}
		}})
	registerDist(distDef{id: 102, name: "scalarDistribution.NewCategoricalDistribution", internals: true,
		gen: func(r *common.Rng, s *Spec) {
			n := dimOf(r, 1, 4)
			s.N = n
			s.setVals("theta", rstoch(r, 1, n))
			sv(s, "x", float64(r.Intn(n)), float64(r.Intn(n)), 0)
		},
		setup: func(d *distCtx) func() (interface{}, error) {
			th := d.V("theta")
			return func() (interface{}, error) {
				p, err := sd.NewCategoricalDistribution(th)
				if err != nil {
					return nil, err
				}
				return p, nil
			}
		}})
	two := func(id int, name, n1, n2 string, g1, g2 func(*common.Rng) float64, pts func(*common.Rng) []float64,
		ctor func(a, b Scalar) (interface{}, error)) {
		registerDist(distDef{id: id, name: name,
			gen: func(r *common.Rng, s *Spec) {
				sv(s, n1, g1(r))
				sv(s, n2, g2(r))
				sv(s, "x", pts(r)...)
			},
			setup: func(d *distCtx) func() (interface{}, error) {
				a, bb := d.S(n1), d.S(n2)
				return func() (interface{}, error) { return ctor(a, bb) }
			}})
	}
	one := func(id int, name, n1 string, g1 func(*common.Rng) float64, pts func(*common.Rng) []float64,
		ctor func(a Scalar) (interface{}, error)) {
		registerDist(distDef{id: id, name: name,
			gen: func(r *common.Rng, s *Spec) {
				sv(s, n1, g1(r))
				sv(s, "x", pts(r)...)
			},
			setup: func(d *distCtx) func() (interface{}, error) {
				a := d.S(n1)
				return func() (interface{}, error) { return ctor(a) }
			}})
	}
	three := func(id int, name, n1, n2, n3 string, g1, g2, g3 func(*common.Rng) float64, pts func(*common.Rng) []float64,
		ctor func(a, b, c Scalar) (interface{}, error)) {
		registerDist(distDef{id: id, name: name,
			gen: func(r *common.Rng, s *Spec) {
				sv(s, n1, g1(r))
				sv(s, n2, g2(r))
				sv(s, n3, g3(r))
				sv(s, "x", pts(r)...)
			},
			setup: func(d *distCtx) func() (interface{}, error) {
				a, bb, c := d.S(n1), d.S(n2), d.S(n3)
				return func() (interface{}, error) { return ctor(a, bb, c) }
			}})
	}
	// wrap typed constructor results so that a nil pointer does not become a
	// non-nil interface
	w := func(p interface{}, err error) (interface{}, error) {
		if err != nil {
			return nil, err
		}
		return p, nil
	}
	xiGen := func(r *common.Rng) float64 {
		v := rv(r) / 4
		if v == 0 {
			v = 0.125
		}
		return v
	}
	alphaGen := func(r *common.Rng) float64 { return 1 + rpos(r) }

	two(103, "scalarDistribution.NewCauchyDistribution", "mu", "sigma", rv, rpos, anyPts,
		func(a, b Scalar) (interface{}, error) { return w(sd.NewCauchyDistribution(a, b)) })
	one(104, "scalarDistribution.NewDeltaDistribution", "x0", rv, anyPts,
		func(a Scalar) (interface{}, error) { return w(sd.NewDeltaDistribution(a)) })
	one(105, "scalarDistribution.NewExponentialDistribution", "lambda", rpos, posPts,
		func(a Scalar) (interface{}, error) { return w(sd.NewExponentialDistribution(a)) })
	two(106, "scalarDistribution.NewGammaDistribution", "alpha", "beta", rpos, rpos, posPts,
		func(a, b Scalar) (interface{}, error) { return w(sd.NewGammaDistribution(a, b)) })
	three(107, "scalarDistribution.NewGeneralizedGammaDistribution", "a", "d", "p", rpos, rpos, rpos, posPts,
		func(a, b, c Scalar) (interface{}, error) { return w(sd.NewGeneralizedGammaDistribution(a, b, c)) })
	one(108, "scalarDistribution.NewGeometricDistribution", "p", prob, cntPts,
		func(a Scalar) (interface{}, error) { return w(sd.NewGeometricDistribution(a)) })
	three(109, "scalarDistribution.NewGevDistribution", "mu", "sigma", "xi", rv, rpos, xiGen, anyPts,
		func(a, b, c Scalar) (interface{}, error) { return w(sd.NewGevDistribution(a, b, c)) })
	three(110, "scalarDistribution.NewGParetoDistribution", "mu", "sigma", "xi", rv, rpos, xiGen,
		func(r *common.Rng) []float64 { return []float64{3.5, 4, 5.25} },
		func(a, b, c Scalar) (interface{}, error) { return w(sd.NewGParetoDistribution(a, b, c)) })
	two(111, "scalarDistribution.NewLaplaceDistribution", "mu", "sigma", rv, rpos, anyPts,
		func(a, b Scalar) (interface{}, error) { return w(sd.NewLaplaceDistribution(a, b)) })
	two(113, "scalarDistribution.NewNegativeBinomialDistribution", "r", "p", rpos, prob, cntPts,
		func(a, b Scalar) (interface{}, error) { return w(sd.NewNegativeBinomialDistribution(a, b)) })
	two(114, "scalarDistribution.NewNormalDistribution", "mu", "sigma", rv, rpos, anyPts,
		func(a, b Scalar) (interface{}, error) { return w(sd.NewNormalDistribution(a, b)) })
	two(115, "scalarDistribution.NewParetoDistribution", "lambda", "kappa", rpos, rpos,
		func(r *common.Rng) []float64 { return []float64{3.5, 4, 5.25} },
		func(a, b Scalar) (interface{}, error) { return w(sd.NewParetoDistribution(a, b)) })
	one(118, "scalarDistribution.NewPoissonDistribution", "lambda", rpos, cntPts,
		func(a Scalar) (interface{}, error) { return w(sd.NewPoissonDistribution(a)) })
	two(119, "scalarDistribution.NewPowerLawDistribution", "alpha", "xmin", alphaGen, rpos,
		func(r *common.Rng) []float64 { return []float64{3.5, 4, 5.25} },
		func(a, b Scalar) (interface{}, error) { return w(sd.NewPowerLawDistribution(a, b)) })

	genNormalComp := func(r *common.Rng, s *Spec, name string) { sv(s, name, rv(r), rpos(r)) }
	registerDist(distDef{id: 112, name: "scalarDistribution.NewMixture",
		gen: func(r *common.Rng, s *Spec) {
			sv(s, "weights", prob(r), prob(r))
			genNormalComp(r, s, "edist[0]")
			genNormalComp(r, s, "edist[1]")
			sv(s, "x", anyPts(r)...)
		},
		setup: func(d *distCtx) func() (interface{}, error) {
			wv := d.V("weights")
			e := []ScalarPdf{d.scalarNormal("edist[0]"), d.scalarNormal("edist[1]")}
			return func() (interface{}, error) { return w(sd.NewMixture(wv, e)) }
		}})
	registerDist(distDef{id: 116, name: "scalarDistribution.NewPdfLogTransform",
		gen: func(r *common.Rng, s *Spec) {
			genNormalComp(r, s, "scalarPdf")
			sv(s, "x", posPts(r)...)
		},
		setup: func(d *distCtx) func() (interface{}, error) {
			c := d.scalarNormal("scalarPdf")
			return func() (interface{}, error) { return w(sd.NewPdfLogTransform(c, 0.5)) }
		}})
	registerDist(distDef{id: 117, name: "scalarDistribution.NewPdfTranslation",
		gen: func(r *common.Rng, s *Spec) {
			genNormalComp(r, s, "scalarPdf")
			sv(s, "x", anyPts(r)...)
		},
		setup: func(d *distCtx) func() (interface{}, error) {
			c := d.scalarNormal("scalarPdf")
			return func() (interface{}, error) { return w(sd.NewPdfTranslation(c, 0.5)) }
		}})

	// ------------------------------------------------------------ vector distributions
	registerDist(distDef{id: 130, name: "vectorDistribution.NewLogisticRegression", internals: true,
		gen: func(r *common.Rng, s *Spec) {
			n := dimOf(r, 1, 3)
			s.N = n
			s.setVals("theta", rvec(r, n+1))
			s.setVals("x", rvec(r, 2*n))
		},
		setup: func(d *distCtx) func() (interface{}, error) {
			th := d.V("theta")
			return func() (interface{}, error) { return w(vd.NewLogisticRegression(th)) }
		}})
	genVNormal := func(r *common.Rng, s *Spec, name string, n int) {
		s.setVals(name, append(rvec(r, n), rspd(r, n)...))
	}
	registerDist(distDef{id: 131, name: "vectorDistribution.NewMixture",
		gen: func(r *common.Rng, s *Spec) {
			n := dimOf(r, 1, 3)
			s.N = n
			sv(s, "weights", prob(r), prob(r))
			genVNormal(r, s, "edist[0]", n)
			genVNormal(r, s, "edist[1]", n)
			s.setVals("x", rvec(r, 2*n))
		},
		setup: func(d *distCtx) func() (interface{}, error) {
			n := d.b.s.N
			wv := d.V("weights")
			e := []VectorPdf{d.vectorNormal("edist[0]", n), d.vectorNormal("edist[1]", n)}
			return func() (interface{}, error) { return w(vd.NewMixture(wv, e)) }
		}})
	registerDist(distDef{id: 132, name: "vectorDistribution.NewNormalDistribution",
		gen: func(r *common.Rng, s *Spec) {
			n := dimOf(r, 1, 3)
			s.N = n
			s.setVals("mu", rvec(r, n))
			s.setVals("sigma", rspd(r, n))
			s.setVals("x", rvec(r, 2*n))
		},
		setup: func(d *distCtx) func() (interface{}, error) {
			n := d.b.s.N
			mu, sg := d.V("mu"), d.M("sigma", n, n)
			return func() (interface{}, error) { return w(vd.NewNormalDistribution(mu, sg)) }
		}})
	registerDist(distDef{id: 133, name: "vectorDistribution.NewScalarId",
		gen: func(r *common.Rng, s *Spec) {
			genNormalComp(r, s, "distributions[0]")
			genNormalComp(r, s, "distributions[1]")
			s.setVals("x", rvec(r, 4))
		},
		setup: func(d *distCtx) func() (interface{}, error) {
			a, bb := d.scalarNormal("distributions[0]"), d.scalarNormal("distributions[1]")
			return func() (interface{}, error) { return w(vd.NewScalarId(a, bb)) }
		}})
	registerDist(distDef{id: 134, name: "vectorDistribution.NewScalarIid",
		gen: func(r *common.Rng, s *Spec) {
			genNormalComp(r, s, "distribution")
			n := r.Range(1, 3)
			s.setInts("n", n)
			s.setVals("x", rvec(r, 2*n))
		},
		setup: func(d *distCtx) func() (interface{}, error) {
			a := d.scalarNormal("distribution")
			n := d.b.s.int1("n", 2)
			return func() (interface{}, error) { return w(vd.NewScalarIid(a, n)) }
		}})
	registerDist(distDef{id: 135, name: "vectorDistribution.NewSkewNormalDistribution",
		gen: func(r *common.Rng, s *Spec) {
			n := dimOf(r, 1, 3)
			s.N = n
			s.setVals("xi", rvec(r, n))
			s.setVals("omega", rspd(r, n))
			s.setVals("alpha", rvec(r, n))
			s.setVals("scale", rposvec(r, n))
			s.setVals("x", rvec(r, 2*n))
		},
		setup: func(d *distCtx) func() (interface{}, error) {
			n := d.b.s.N
			xi, om, al, sc := d.V("xi"), d.M("omega", n, n), d.V("alpha"), d.V("scale")
			return func() (interface{}, error) { return w(vd.NewSkewNormalDistribution(xi, om, al, sc)) }
		}})
	registerDist(distDef{id: 136, name: "vectorDistribution.NewTDistribution",
		gen: func(r *common.Rng, s *Spec) {
			n := dimOf(r, 1, 3)
			s.N = n
			sv(s, "nu", rpos(r)+1)
			s.setVals("mu", rvec(r, n))
			s.setVals("sigma", rspd(r, n))
			s.setVals("x", rvec(r, 2*n))
		},
		setup: func(d *distCtx) func() (interface{}, error) {
			n := d.b.s.N
			nu, mu, sg := d.S("nu"), d.V("mu"), d.M("sigma", n, n)
			return func() (interface{}, error) { return w(vd.NewTDistribution(nu, mu, sg)) }
		}})
	registerDist(distDef{id: 137, name: "vectorDistribution.NewVectorId",
		gen: func(r *common.Rng, s *Spec) {
			n := dimOf(r, 1, 2)
			s.N = n
			genVNormal(r, s, "distributions[0]", n)
			genVNormal(r, s, "distributions[1]", n)
			s.setVals("x", rvec(r, 4*n))
		},
		setup: func(d *distCtx) func() (interface{}, error) {
			n := d.b.s.N
			a, bb := d.vectorNormal("distributions[0]", n), d.vectorNormal("distributions[1]", n)
			return func() (interface{}, error) { return w(vd.NewVectorId(a, bb)) }
		}})
	registerDist(distDef{id: 138, name: "vectorDistribution.NewVectorIid",
		gen: func(r *common.Rng, s *Spec) {
			n := dimOf(r, 1, 2)
			s.N = n
			genVNormal(r, s, "distribution", n)
			s.setVals("x", rvec(r, 4*n))
		},
		setup: func(d *distCtx) func() (interface{}, error) {
			n := d.b.s.N
			a := d.vectorNormal("distribution", n)
			return func() (interface{}, error) { return w(vd.NewVectorIid(a, 2*n)) }
		}})
	registerDist(distDef{id: 139, name: "vectorDistribution.NewHmm",
		gen: func(r *common.Rng, s *Spec) {
			s.setVals("pi", rstoch(r, 1, 2))
			s.setVals("tr", rstoch(r, 2, 2))
			genNormalComp(r, s, "edist[0]")
			genNormalComp(r, s, "edist[1]")
			s.setInts("xdim", 3)
			s.setVals("x", rvec(r, 6))
		},
		setup: func(d *distCtx) func() (interface{}, error) {
			pi, tr := d.V("pi"), d.M("tr", 2, 2)
			sm := []int{0, 1}
			d.b.track("stateMap", "input", func() []float64 { return []float64{2, float64(sm[0]), float64(sm[1])} })
			e := []ScalarPdf{d.scalarNormal("edist[0]"), d.scalarNormal("edist[1]")}
			return func() (interface{}, error) { return w(vd.NewHmm(pi, tr, sm, e)) }
		}})

	// ------------------------------------------------------------ matrix distributions
	registerDist(distDef{id: 150, name: "matrixDistribution.NewInverseWishartDistribution",
		gen: func(r *common.Rng, s *Spec) {
			n := dimOf(r, 1, 3)
			s.N = n
			sv(s, "nu", float64(n)+rpos(r)+1)
			s.setVals("s", rspd(r, n))
			s.setVals("x", append(rspd(r, n), rspd(r, n)...))
		},
		setup: func(d *distCtx) func() (interface{}, error) {
			n := d.b.s.N
			nu, sm := d.S("nu"), d.M("s", n, n)
			return func() (interface{}, error) { return w(md.NewInverseWishartDistribution(nu, sm)) }
		}})
	registerDist(distDef{id: 151, name: "matrixDistribution.NewNormalIWishartDistribution", noGetPar: false,
		gen: func(r *common.Rng, s *Spec) {
			n := dimOf(r, 1, 3)
			s.N = n
			sv(s, "kappa", rpos(r))
			sv(s, "nu", float64(n)+rpos(r)+1)
			s.setVals("mu", rvec(r, n))
			s.setVals("lambda", rspd(r, n))
			s.setInts("xrows", n+1)
			s.setInts("xcols", n)
			x := append(rvec(r, n), rspd(r, n)...)
			s.setVals("x", x)
		},
		setup: func(d *distCtx) func() (interface{}, error) {
			n := d.b.s.N
			ka, nu, mu, la := d.S("kappa"), d.S("nu"), d.V("mu"), d.M("lambda", n, n)
			return func() (interface{}, error) { return w(md.NewNormalIWishartDistribution(ka, nu, mu, la)) }
		}})
	registerDist(distDef{id: 152, name: "matrixDistribution.NewVectorId",
		gen: func(r *common.Rng, s *Spec) {
			n := dimOf(r, 1, 2)
			s.N = n
			genVNormal(r, s, "distributions[0]", n)
			genVNormal(r, s, "distributions[1]", n)
			s.setInts("xrows", 2)
			s.setInts("xcols", n)
			s.setVals("x", rvec(r, 4*n))
		},
		setup: func(d *distCtx) func() (interface{}, error) {
			n := d.b.s.N
			a, bb := d.vectorNormal("distributions[0]", n), d.vectorNormal("distributions[1]", n)
			return func() (interface{}, error) { return w(md.NewVectorId(a, bb)) }
		}})
	registerDist(distDef{id: 153, name: "matrixDistribution.NewVectorIid",
		gen: func(r *common.Rng, s *Spec) {
			n := dimOf(r, 1, 2)
			s.N = n
			genVNormal(r, s, "distribution", n)
			s.setInts("xrows", 2)
			s.setInts("xcols", n)
			s.setVals("x", rvec(r, 4*n))
		},
		setup: func(d *distCtx) func() (interface{}, error) {
			n := d.b.s.N
			a := d.vectorNormal("distribution", n)
			return func() (interface{}, error) { return w(md.NewVectorIid(a, 2*n)) }
		}})
	registerDist(distDef{id: 154, name: "matrixDistribution.NewHmm",
		gen: func(r *common.Rng, s *Spec) {
			n := dimOf(r, 1, 2)
			s.N = n
			s.setVals("pi", rstoch(r, 1, 2))
			s.setVals("tr", rstoch(r, 2, 2))
			genVNormal(r, s, "edist[0]", n)
			genVNormal(r, s, "edist[1]", n)
			s.setInts("xrows", 3)
			s.setInts("xcols", n)
			s.setVals("x", rvec(r, 6*n))
		},
		setup: func(d *distCtx) func() (interface{}, error) {
			n := d.b.s.N
			pi, tr := d.V("pi"), d.M("tr", 2, 2)
			sm := []int{0, 1}
			d.b.track("stateMap", "input", func() []float64 { return []float64{2, float64(sm[0]), float64(sm[1])} })
			e := []VectorPdf{d.vectorNormal("edist[0]", n), d.vectorNormal("edist[1]", n)}
			return func() (interface{}, error) { return w(md.NewHmm(pi, tr, sm, e)) }
		}})
	registerDist(distDef{id: 155, name: "matrixDistribution.NewMixture",
		gen: func(r *common.Rng, s *Spec) {
			n := dimOf(r, 1, 2)
			s.N = n
			sv(s, "weights", prob(r), prob(r))
			sv(s, "nu0", float64(n)+rpos(r)+1)
			sv(s, "nu1", float64(n)+rpos(r)+1)
			s.setVals("s0", rspd(r, n))
			s.setVals("s1", rspd(r, n))
			s.setVals("x", append(rspd(r, n), rspd(r, n)...))
		},
		setup: func(d *distCtx) func() (interface{}, error) {
			n := d.b.s.N
			wv := d.V("weights")
			mk := func(nuName, sName, name string) MatrixPdf {
				nu := mkScalar(d.kind, d.b.s.vals(nuName)[0])
				p, err := md.NewInverseWishartDistribution(nu, mkMat(d.kind, n, n, d.b.s.vals(sName)))
				if err != nil {
					panic(err)
				}
				d.P(name, p)
				return p
			}
			e := []MatrixPdf{mk("nu0", "s0", "edist[0]"), mk("nu1", "s1", "edist[1]")}
			return func() (interface{}, error) { return w(md.NewMixture(wv, e)) }
		}})
}
