//go:build verif

package entry

import (
	"math"

	. "github.com/pbenner/autodiff"
	"github.com/pbenner/autodiff/statistics/generic"

	"adharness/common"
)

// Round 7: CONSTRUCTORS WITH A FLAG (ids 170..173; model: coq/C12/ModelCtor.v).
// statistics/generic: NewHmmProbabilityVector(v, isLog), NewHmmTransitionMatrix(tr, isLog),
// NewChmmTransitionMatrix(tr, constraints, isLog), NewHhmmTransitionMatrix(tr, tree, isLog)
// clone their argument, log-transform the clone when !isLog and then Normalize() it in place.
// A clone that happens on one branch of the flag only is invisible to every test that uses
// the other value.  Mask: bit 0 = isLog, bits 1.. = container kind of the argument
// (0 dense float64, 1 dense real64, 2 sparse float64).
//
// Objects: the argument (role input, before / after the constructor), then
//
//	"result-after-writing-arg"   the result read before / after every element of the argument was overwritten
//	"arg-after-writing-result"   the argument read before / after every element of the result was overwritten
//	                             and Normalize() was called on the result
//	"shared-storage"             [0] vs [1 iff the reflection walk finds storage reachable from both]
//	"both-branches-agree"        result(isLog=false on p) vs result(isLog=true on Log(p)) computed with the
//	                             library's own Log (bit-exact: the two branches differ only in who takes the log)
type ctorDef struct {
	id     int
	name   string
	matrix bool
	states int
	make   func(arg interface{}, isLog bool) (interface{}, error)
}

func ctorMasks() []int {
	var r []int
	for kind := 0; kind < 3; kind++ {
		for l := 0; l < 2; l++ {
			r = append(r, l|kind<<1)
		}
	}
	return r
}

func registerCtor(cd ctorDef) {
	register(&entryDef{id: cd.id, name: cd.name, modelled: true,
		masks: ctorMasks,
		optStr: func(m int) string {
			s := "isLog=false"
			if m&1 == 1 {
				s = "isLog=true"
			}
			return s + ",arg=" + kindName(m>>1)
		},
		gen: func(r *common.Rng, mask int) *Spec {
			n := cd.states
			if n == 0 {
				n = dimOf(r, 1, 4)
			}
			s := newSpec(0, n, n)
			var p []float64
			if cd.matrix {
				p = rstoch(r, n, n)
			} else {
				p = rstoch(r, 1, n)
			}
			// an un-normalised argument, so that Normalize() really rewrites every element
			for i := range p {
				p[i] *= 0.5
			}
			// now and then a zero probability (log = -Inf; a sparse argument does not store it)
			if r.Intn(3) == 0 && n > 1 {
				p[r.Intn(len(p))] = 0
			}
			s.setVals("p", p)
			return s
		},
		build: func(b *bld) {
			kind := b.s.Mask >> 1
			isLog := b.bit(0)
			p := b.s.vals("p")
			n := b.s.N
			mk := func(v []float64) interface{} {
				if cd.matrix {
					return mkMat(kind, n, n, v)
				}
				return mkVec(kind, v)
			}
			logOf := func(x interface{}) {
				// the library's own log transform, as the constructors apply it
				if cd.matrix {
					x.(Matrix).Map(func(s Scalar) { s.Log(s) })
				} else {
					x.(Vector).Map(func(s Scalar) { s.Log(s) })
				}
			}
			arg := mk(p)
			if isLog {
				logOf(arg)
			}
			snap := func(x interface{}) []float64 {
				// the result types embed the container: observe the container itself
				if g, ok := x.(interface{ GetMatrix() Matrix }); ok {
					x = g.GetMatrix()
				} else if g, ok := x.(interface{ GetVector() Vector }); ok {
					x = g.GetVector()
				}
				if cd.matrix {
					return snapMatrix(nil, x.(ConstMatrix))
				}
				return snapVector(nil, x.(ConstVector))
			}
			writeAll := func(x interface{}) {
				if cd.matrix {
					m := x.(Matrix)
					r, c := m.Dims()
					for i := 0; i < r; i++ {
						for j := 0; j < c; j++ {
							m.At(i, j).SetFloat64(mut(m.ConstAt(i, j).GetFloat64()) - 0.125)
						}
					}
				} else {
					v := x.(Vector)
					for i := 0; i < v.Dim(); i++ {
						v.At(i).SetFloat64(mut(v.ConstAt(i).GetFloat64()) - 0.125)
					}
				}
			}
			if cd.matrix {
				b.mat("arg", "input", arg.(Matrix))
			} else {
				b.vec("arg", "input", arg.(Vector))
			}
			var res interface{}
			b.run = func() error {
				r, err := cd.make(arg, isLog)
				if err != nil {
					return err
				}
				res = r
				b.ret(r)
				return nil
			}
			b.post = func() []Obj {
				if res == nil {
					return nil
				}
				var objs []Obj
				// the other branch of the flag on an equivalent argument
				other := mk(p)
				if !isLog {
					logOf(other)
				}
				r0 := snap(res)
				if ro, err := cd.make(other, !isLog); err == nil {
					objs = append(objs, Obj{Name: "both-branches-agree", Role: "input", Before: r0, After: snap(ro)})
				}
				// the result's own clone method: equal, and no storage in common (whole struct incl. the scratch
				// scalars t1 / t2 for the Hmm* types; the container only for Chmm / Hhmm, whose constraint list /
				// tree is shared configuration by design)
				var cl interface{}
				func() {
					defer func() { recover() }()
					switch x := res.(type) {
					case interface{ CloneProbabilityVector() generic.ProbabilityVector }:
						cl = x.CloneProbabilityVector()
					case interface{ CloneTransitionMatrix() generic.TransitionMatrix }:
						cl = x.CloneTransitionMatrix()
					}
				}()
				if cl != nil {
					objs = append(objs, Obj{Name: "clone-of-result-equals-result", Role: "input", Before: r0, After: snap(cl)})
					sh := 0.0
					a, bb := cl, res
					if cd.id >= 172 {
						a, bb = cl.(interface{ GetMatrix() Matrix }).GetMatrix(), res.(interface{ GetMatrix() Matrix }).GetMatrix()
					}
					if Overlap(a, bb) {
						sh = 1
					}
					objs = append(objs, Obj{Name: "clone-of-result-shared-storage", Role: "input", Before: []float64{0}, After: []float64{sh}})
				}
				shared := 0.0
				if Overlap(arg, res) {
					shared = 1
				}
				objs = append(objs, Obj{Name: "shared-storage", Role: "input", Before: []float64{0}, After: []float64{shared}})
				writeAll(arg)
				objs = append(objs, Obj{Name: "result-after-writing-arg", Role: "input", Before: r0, After: snap(res)})
				a1 := snap(arg)
				writeAll(res)
				if nz, ok := res.(interface{ Normalize() error }); ok {
					func() {
						defer func() { recover() }()
						nz.Normalize()
					}()
				}
				objs = append(objs, Obj{Name: "arg-after-writing-result", Role: "input", Before: a1, After: snap(arg)})
				return objs
			}
		}})
}

func init() {
	w := func(p interface{}, err error) (interface{}, error) {
		if err != nil {
			return nil, err
		}
		return p, nil
	}
	registerCtor(ctorDef{id: 170, name: "generic.NewHmmProbabilityVector",
		make: func(a interface{}, l bool) (interface{}, error) { return w(generic.NewHmmProbabilityVector(a.(Vector), l)) }})
	registerCtor(ctorDef{id: 171, name: "generic.NewHmmTransitionMatrix", matrix: true,
		make: func(a interface{}, l bool) (interface{}, error) { return w(generic.NewHmmTransitionMatrix(a.(Matrix), l)) }})
	registerCtor(ctorDef{id: 172, name: "generic.NewChmmTransitionMatrix", matrix: true,
		make: func(a interface{}, l bool) (interface{}, error) {
			return w(generic.NewChmmTransitionMatrix(a.(Matrix), nil, l))
		}})
	registerCtor(ctorDef{id: 173, name: "generic.NewHhmmTransitionMatrix", matrix: true, states: 4,
		make: func(a interface{}, l bool) (interface{}, error) {
			tree := generic.NewHmmNode(generic.NewHmmLeaf(0, 2), generic.NewHmmLeaf(2, 4))
			return w(generic.NewHhmmTransitionMatrix(a.(Matrix), tree, l))
		}})
	_ = math.Inf
}

// CtorCases: every flagged constructor under every (isLog, argument kind) combination — run on every run.
func CtorCases(rng *common.Rng) []Case {
	var out []Case
	for _, e := range entryTable {
		if e.id < 170 || e.id > 179 {
			continue
		}
		for _, m := range e.masks() {
			if c, ok := runOne(e, rng.Split(), m); ok {
				out = append(out, c)
			}
		}
	}
	return out
}
