//go:build verif

package entry

import (
	"math"

	"adharness/common"
)

// Round 7: DIRECTED DEGENERATE INPUTS.  The random generators of the entry
// points draw well conditioned matrices (the option-carried matrix of bfgs.Run,
// Hessian{B0}, was always positive definite), so fallback and error paths —
// "the matrix is singular: regularise / pivot / give up" — were reached only
// by chance.  Every run now starts with a fixed list of cases in which every
// matrix-valued input (main inputs AND option-carried ones) is degenerate:
//
//	regime 1  singular symmetric (last row and column zero)
//	regime 2  all zero
//	regime 3  rank one (every row equals the first)
//	regime 4  a NaN entry
//	regime 5  a tiny pivot (first entry 2^-1060: subnormal, inverse overflows)
//	regime 6  dimension mismatch of the option-carried matrix (bfgs only)
//
// under two option masks: all options present, and an rng-chosen one that has
// the lowest option bit (bfgs: Hessian).  The snapshot comparison is the same
// as for all stream-E cases (Corr.echeck: every input-role object bit-identical).
var edgeMatrixNames = map[string]bool{"Hessian": true, "a": true, "A": true, "matrix": true}

// entry points whose iteration need not terminate on degenerate input within
// the per-call deadline (each timed-out call keeps a core busy until exit)
var edgeSkip = map[string]bool{"eigensystem.Run": true, "qrAlgorithm.Run": true, "svd.Run": true,
	"saga.Run": true, "blahut.Run": true, "blahut.RunNaive": true}

const edgeRegimes = 6

func degenerate(s *Spec, regime int) bool {
	hit := false
	for _, name := range s.valNames() {
		if !edgeMatrixNames[name] {
			continue
		}
		v := s.vals(name)
		n := int(math.Round(math.Sqrt(float64(len(v)))))
		if n*n != len(v) || n == 0 {
			continue
		}
		switch regime {
		case 1:
			for k := 0; k < n; k++ {
				v[(n-1)*n+k] = 0
				v[k*n+n-1] = 0
			}
		case 2:
			for k := range v {
				v[k] = 0
			}
		case 3:
			for i := 1; i < n; i++ {
				for j := 0; j < n; j++ {
					v[i*n+j] = v[j]
				}
			}
			if n == 1 {
				v[0] = 0
			}
		case 4:
			v[len(v)-1] = math.NaN()
		case 5:
			v[0] = math.Ldexp(1, -1060)
		case 6:
			if name != "Hessian" {
				continue
			}
			m := n + 1
			w := make([]float64, m*m)
			for i := 0; i < m; i++ {
				w[i*m+i] = 2
			}
			v = w
			s.setInts("hdim", 1)
		}
		s.setVals(name, v)
		hit = true
	}
	return hit
}

// EdgeCases returns the directed degenerate cases (deterministic given rng).
func EdgeCases(rng *common.Rng) []Case {
	var out []Case
	for _, e := range entryTable {
		if e.id >= 100 || edgeSkip[e.name] {
			continue
		}
		masks := e.masks()
		full := 0
		for _, m := range masks {
			if m > full {
				full = m
			}
		}
		odd := []int{}
		for _, m := range masks {
			if m&1 == 1 && m != full {
				odd = append(odd, m)
			}
		}
		for regime := 1; regime <= edgeRegimes; regime++ {
			ms := []int{full}
			if len(odd) > 0 {
				ms = append(ms, odd[rng.Intn(len(odd))])
			}
			for k, mask := range ms {
				n := 2 + (regime+k)%2
				s := genWithDim(e, rng.Split(), mask, n, -1)
				if s == nil {
					s = genWithDim(e, rng.Split(), mask, 0, -1)
				}
				if s == nil || !degenerate(s, regime) {
					continue
				}
				s.setInts("edge", regime)
				if c, err := execute(s); err == nil {
					out = append(out, c)
				}
			}
		}
	}
	return out
}
