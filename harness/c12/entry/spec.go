//go:build verif

package entry

import (
	"encoding/json"
	"fmt"
	"math"
	"runtime/debug"
	"sort"
	"strconv"
	"strings"
	"time"

	. "github.com/pbenner/autodiff"

	"adharness/common"
)

// Spec is everything needed to re-run one case.
type Spec struct {
	ID   int                 `json:"id"`
	Mask int                 `json:"mask"`
	Kind int                 `json:"kind"` // 0 dense float64, 1 dense real64, 2 sparse float64 (main inputs)
	N    int                 `json:"n"`
	M    int                 `json:"m"`
	Seed int64               `json:"seed"` // seed of internal randomness (saga)
	Vals map[string][]string `json:"vals"` // input values, hex floats
	Ints map[string][]int    `json:"ints"`
}

func (s *Spec) clone() *Spec {
	c := *s
	c.Vals = map[string][]string{}
	for k, v := range s.Vals {
		c.Vals[k] = append([]string{}, v...)
	}
	c.Ints = map[string][]int{}
	for k, v := range s.Ints {
		c.Ints[k] = append([]int{}, v...)
	}
	return &c
}

func (s *Spec) valNames() []string {
	r := make([]string, 0, len(s.Vals))
	for k := range s.Vals {
		r = append(r, k)
	}
	sort.Strings(r)
	return r
}

func (s *Spec) setVals(name string, v []float64) {
	if s.Vals == nil {
		s.Vals = map[string][]string{}
	}
	h := make([]string, len(v))
	for i, x := range v {
		h[i] = strconv.FormatFloat(x, 'x', -1, 64)
	}
	s.Vals[name] = h
}

func (s *Spec) vals(name string) []float64 {
	h := s.Vals[name]
	r := make([]float64, len(h))
	for i, x := range h {
		f, err := strconv.ParseFloat(x, 64)
		if err != nil {
			f = math.NaN()
		}
		r[i] = f
	}
	return r
}

func (s *Spec) setInts(name string, v ...int) {
	if s.Ints == nil {
		s.Ints = map[string][]int{}
	}
	s.Ints[name] = v
}

func (s *Spec) ints(name string) []int { return s.Ints[name] }
func (s *Spec) int1(name string, def int) int {
	if v := s.Ints[name]; len(v) > 0 {
		return v[0]
	}
	return def
}

func newSpec(kind, n, m int) *Spec {
	return &Spec{Kind: kind, N: n, M: m, Vals: map[string][]string{}, Ints: map[string][]int{}}
}

// ---------------------------------------------------------------- random values

// dimOf draws a dimension in lo..hi (mostly 2..3), honouring Shrink's override.
func dimOf(r *common.Rng, lo, hi int) int {
	d := lo + r.Pick(weightsFor(lo, hi))
	if forcedDim > 0 {
		if forcedDim < lo {
			panic("dimension too small")
		}
		return forcedDim
	}
	return d
}

func weightsFor(lo, hi int) []int {
	w := make([]int, hi-lo+1)
	for i := range w {
		switch lo + i {
		case 2, 3:
			w[i] = 4
		default:
			w[i] = 1
		}
	}
	return w
}

// kindOf draws a container kind among the allowed ones.
func kindOf(r *common.Rng, allowed ...int) int {
	k := allowed[r.Intn(len(allowed))]
	if forcedKind >= 0 {
		for _, a := range allowed {
			if a == forcedKind {
				return a
			}
		}
	}
	return k
}

// small dyadic value k/4 in [-3,3]
func rv(r *common.Rng) float64 { return float64(r.Range(-12, 12)) / 4 }

// positive dyadic in (0,3]
func rpos(r *common.Rng) float64 { return float64(r.Range(1, 12)) / 4 }

func rvec(r *common.Rng, n int) []float64 {
	v := make([]float64, n)
	for i := range v {
		v[i] = rv(r)
	}
	return v
}

func rposvec(r *common.Rng, n int) []float64 {
	v := make([]float64, n)
	for i := range v {
		v[i] = rpos(r)
	}
	return v
}

// general n x m matrix
func rmat(r *common.Rng, n, m int) []float64 { return rvec(r, n*m) }

// symmetric positive definite: B^T B + n I  (well conditioned, exact dyadics)
func rspd(r *common.Rng, n int) []float64 {
	b := make([]float64, n*n)
	for i := range b {
		b[i] = float64(r.Range(-4, 4)) / 2
	}
	a := make([]float64, n*n)
	for i := 0; i < n; i++ {
		for j := 0; j < n; j++ {
			s := 0.0
			for k := 0; k < n; k++ {
				s += b[k*n+i] * b[k*n+j]
			}
			if i == j {
				s += float64(n)
			}
			a[i*n+j] = s
		}
	}
	return a
}

// symmetric (not necessarily definite), distinct-ish diagonal
func rsym(r *common.Rng, n int) []float64 {
	a := make([]float64, n*n)
	for i := 0; i < n; i++ {
		for j := i; j < n; j++ {
			v := rv(r)
			if i == j {
				// distinct diagonal entries: qrAlgorithm does not terminate on
				// some 2x2 blocks with equal diagonal (known finding)
				v = v/2 + float64(4*(i+1))
			}
			a[i*n+j] = v
			a[j*n+i] = v
		}
	}
	return a
}

// upper triangular with non-zero diagonal
func rupper(r *common.Rng, n int) []float64 {
	a := make([]float64, n*n)
	for i := 0; i < n; i++ {
		for j := i; j < n; j++ {
			if i == j {
				a[i*n+j] = rpos(r) + 0.5
				if r.Intn(4) == 0 {
					a[i*n+j] = -a[i*n+j]
				}
			} else {
				a[i*n+j] = rv(r)
			}
		}
	}
	return a
}

// diagonally dominant general matrix (invertible, real eigenvalues likely)
func rdom(r *common.Rng, n int) []float64 {
	a := rmat(r, n, n)
	for i := 0; i < n; i++ {
		a[i*n+i] = float64(3*n) + float64(2*i) + rpos(r)/2
	}
	return a
}

// row-stochastic n x m matrix with strictly positive entries
func rstoch(r *common.Rng, n, m int) []float64 {
	a := make([]float64, n*m)
	for i := 0; i < n; i++ {
		s := 0.0
		for j := 0; j < m; j++ {
			a[i*m+j] = float64(r.Range(1, 8))
			s += a[i*m+j]
		}
		for j := 0; j < m; j++ {
			a[i*m+j] /= s
		}
	}
	return a
}

// degenerate variants: with probability 1/8 make the matrix singular
func maybeSingular(r *common.Rng, a []float64, n int) []float64 {
	if r.Intn(8) != 0 || n < 2 {
		return a
	}
	row := r.Intn(n)
	for j := 0; j < n; j++ {
		a[row*n+j] = 0
	}
	return a
}

// ---------------------------------------------------------------- containers

func scalarType(kind int) ScalarType {
	if kind == 1 {
		return Real64Type
	}
	return Float64Type
}

func mkScalar(kind int, v float64) Scalar {
	if kind == 1 {
		return NewReal64(v)
	}
	return NewFloat64(v)
}

func cp(v []float64) []float64 { return append([]float64{}, v...) }

func mkVec(kind int, v []float64) Vector {
	switch kind {
	case 1:
		return NewDenseReal64Vector(cp(v))
	case 2:
		idx := make([]int, len(v))
		for i := range idx {
			idx[i] = i
		}
		return NewSparseFloat64Vector(idx, cp(v), len(v))
	}
	return NewDenseFloat64Vector(cp(v))
}

func mkMat(kind, rows, cols int, v []float64) Matrix {
	if len(v) != rows*cols {
		panic(fmt.Sprintf("mkMat: %d values for %dx%d", len(v), rows, cols))
	}
	switch kind {
	case 1:
		return NewDenseReal64Matrix(cp(v), rows, cols)
	case 2:
		ri, ci, vv := []int{}, []int{}, []float64{}
		for i := 0; i < rows; i++ {
			for j := 0; j < cols; j++ {
				if v[i*cols+j] != 0 {
					ri = append(ri, i)
					ci = append(ci, j)
					vv = append(vv, v[i*cols+j])
				}
			}
		}
		return NewSparseFloat64Matrix(ri, ci, vv, rows, cols)
	}
	return NewDenseFloat64Matrix(cp(v), rows, cols)
}

// buffers the caller supplies in InSitu structs: always dense, filled with
// recognisable junk so that stale reads show up
func bufMat(kind, rows, cols int) Matrix {
	v := make([]float64, rows*cols)
	for i := range v {
		v[i] = 0.5 + float64(i)
	}
	if kind == 2 {
		kind = 0
	}
	return mkMat(kind, rows, cols, v)
}

func bufVec(kind, n int) Vector {
	v := make([]float64, n)
	for i := range v {
		v[i] = 0.25 + float64(i)
	}
	if kind == 2 {
		kind = 0
	}
	return mkVec(kind, v)
}

func bufScalar(kind int) Scalar {
	if kind == 2 {
		kind = 0
	}
	return mkScalar(kind, 7.5)
}

// ---------------------------------------------------------------- builder

type tracked struct {
	name, role string
	snap       func() []float64 // observable state
	rep        func() []float64 // representation (sparse private state); may be nil
	ref        interface{}      // the object itself (storage identity in sequence mode); may be nil
}

// bld collects the objects of one call and the call itself.
type bld struct {
	s    *Spec
	objs []tracked
	run  func() error // the library call; a returned error gives outcome "error"
	post func() []Obj // optional: extra objects computed after the "after" snapshot
	seq  *seqState    // non-nil in sequence mode (seq.go): the InSitu struct persists across calls
	rets []interface{} // objects the call returned (sequence mode)
	// stream O (opts.go): how hold() hands over the option list
	holdMode int           // 0 as built, 1 caller-held slice with spare capacity, 2 literal (len == cap), 3 reuse
	spare    int
	reuse    []interface{}
	held     []interface{}
}

// persist returns the InSitu struct to pass: in sequence mode the one created
// by the first call of the sequence, otherwise the fresh one.
func (b *bld) persist(fresh interface{}) interface{} {
	if b.seq == nil {
		return fresh
	}
	if b.seq.is == nil {
		b.seq.is = fresh
	}
	return b.seq.is
}

// later is true for the second and later calls of a sequence: the caller
// leaves the buffers of the persistent InSitu struct as they are.
func (b *bld) later() bool { return b.seq != nil && b.seq.call > 0 }

// ret records what the call returned (for sequence mode).
func (b *bld) ret(xs ...interface{}) { b.rets = append(b.rets, xs...) }

// selfBuf: the caller opts into in-place work by passing the input itself as
// the work buffer (first call of a sequence whose spec says so).
func (b *bld) selfBuf() bool { return b.seq != nil && !b.later() && b.s.int1("selfbuf", 0) == 1 }

func (b *bld) bit(i int) bool { return b.s.Mask&(1<<uint(i)) != 0 }

func (b *bld) track(name, role string, snap func() []float64) {
	b.objs = append(b.objs, tracked{name: name, role: role, snap: snap})
}
func (b *bld) mat(name, role string, m ConstMatrix) {
	b.objs = append(b.objs, tracked{name, role, func() []float64 { return snapMatrix(nil, m) }, func() []float64 { return repMatrix(m) }, m})
}
func (b *bld) vec(name, role string, v ConstVector) {
	b.objs = append(b.objs, tracked{name, role, func() []float64 { return snapVector(nil, v) }, func() []float64 { return repVector(v) }, v})
}
func (b *bld) sca(name, role string, x ConstScalar) {
	b.objs = append(b.objs, tracked{name: name, role: role, snap: func() []float64 { return snapScalar(nil, x) }, ref: x})
}
func (b *bld) f64s(name, role string, p []float64) {
	b.objs = append(b.objs, tracked{name: name, role: role, ref: p, snap: func() []float64 {
		r := []float64{float64(len(p))}
		return append(r, p...)
	}})
}
func (b *bld) bools(name, role string, p []bool) {
	b.objs = append(b.objs, tracked{name: name, role: role, ref: p, snap: func() []float64 {
		r := []float64{float64(len(p))}
		for _, x := range p {
			if x {
				r = append(r, 1)
			} else {
				r = append(r, 0)
			}
		}
		return r
	}})
}

// inMat builds a main input matrix.  A sparse input optionally carries an
// explicitly stored zero: the caller touched the absent entry "mtouch" with At.
func (b *bld) inMat(kind, rows, cols int, name string) Matrix {
	v := b.s.vals(name)
	t := b.s.int1("mtouch", -1)
	if kind != 2 || t < 0 || t >= len(v) {
		return mkMat(kind, rows, cols, v)
	}
	// first zero entry at or (cyclically) after t; the values are not altered
	z := -1
	for k := 0; k < len(v); k++ {
		if v[(t+k)%len(v)] == 0 {
			z = (t + k) % len(v)
			break
		}
	}
	m := mkMat(kind, rows, cols, v)
	if z >= 0 {
		m.At(z/cols, z%cols)
	}
	return m
}

// ---------------------------------------------------------------- execution

const callTimeout = 2 * time.Second

type callResult struct {
	outcome, msg string
}

func guarded(f func() error) (string, string) {
	done := make(chan callResult, 1)
	go func() {
		defer func() {
			if r := recover(); r != nil {
				done <- callResult{"panic", fmt.Sprint(r) + panicSite()}
			}
		}()
		if err := f(); err != nil {
			done <- callResult{"error", err.Error()}
		} else {
			done <- callResult{"ok", ""}
		}
	}()
	t := time.NewTimer(callTimeout)
	defer t.Stop()
	select {
	case o := <-done:
		return o.outcome, o.msg
	case <-t.C:
		return "timeout", ""
	}
}

// panicSite returns the first source position of the panicking goroutine
// that lies in the library or in this package (diagnostics only).
func panicSite() string {
	lines := strings.Split(string(debug.Stack()), "\n")
	for _, l := range lines {
		l = strings.TrimSpace(l)
		if (strings.HasPrefix(l, "/repo/") || strings.Contains(l, "/c12/entry/")) && !strings.Contains(l, "spec.go") {
			if i := strings.Index(l, " +0x"); i > 0 {
				l = l[:i]
			}
			return " @ " + l
		}
	}
	return ""
}

// execute builds the inputs of spec, snapshots, calls, snapshots.
func execute(s *Spec) (c Case, err error) {
	e := entryByID[s.ID]
	if e == nil {
		return Case{}, fmt.Errorf("unknown entry id %d", s.ID)
	}
	b := &bld{s: s}
	func() {
		defer func() {
			if r := recover(); r != nil {
				err = fmt.Errorf("building inputs of %s failed: %v", e.name, r)
			}
		}()
		e.build(b)
	}()
	if err != nil {
		return Case{}, err
	}
	if b.run == nil {
		return Case{}, fmt.Errorf("%s: no call", e.name)
	}
	raw, jerr := json.Marshal(s)
	if jerr != nil {
		return Case{}, jerr
	}
	c = Case{Entry: e.name, ID: e.id, Opts: e.optStr(s.Mask), OptMask: s.Mask, Modelled: e.modelled, Spec: raw}
	if s.Kind != 0 {
		c.Opts += fmt.Sprintf(" [kind=%s]", kindName(s.Kind))
	}
	c.Objs = make([]Obj, len(b.objs))
	for i, t := range b.objs {
		c.Objs[i] = Obj{Name: t.name, Role: t.role, Before: t.snap()}
		if t.rep != nil {
			c.Objs[i].RepBefore = t.rep()
		}
	}
	c.Outcome, c.Msg = guarded(b.run)
	if c.Outcome == "timeout" {
		timeouts++
		timeoutSpecs = append(timeoutSpecs, string(raw))
		return Case{}, fmt.Errorf("%s: timeout", e.name)
	}
	for i, t := range b.objs {
		c.Objs[i].After = t.snap()
		if t.rep != nil {
			c.Objs[i].RepAfter = t.rep()
		}
	}
	if b.post != nil {
		var extra []Obj
		o, _ := guarded(func() error { extra = b.post(); return nil })
		if o == "timeout" {
			timeouts++
			timeoutSpecs = append(timeoutSpecs, string(raw))
			return Case{}, fmt.Errorf("%s: timeout", e.name)
		}
		c.Objs = append(c.Objs, extra...)
	}
	for _, o := range c.Objs {
		if o.Role != "input" {
			continue
		}
		if !sameBits(o.Before, o.After) {
			c.Changed = append(c.Changed, o.Name)
		} else if !sameBits(o.RepBefore, o.RepAfter) {
			c.RepChanged = append(c.RepChanged, o.Name)
		}
	}
	return c, nil
}

func kindName(k int) string {
	switch k {
	case 1:
		return "DenseReal64"
	case 2:
		return "SparseFloat64"
	}
	return "DenseFloat64"
}

// ---------------------------------------------------------------- mask helpers

// optNames -> "A=true,B=false"
func boolOpts(mask int, names ...string) string {
	s := ""
	for i, n := range names {
		if i > 0 {
			s += ","
		}
		s += n + "=" + common.B(mask&(1<<uint(i)) != 0)
	}
	return s
}

// presence options -> "Hook,Epsilon"
func presOpts(mask, shift int, names ...string) string {
	s := ""
	for i, n := range names {
		if mask&(1<<uint(shift+i)) != 0 {
			if s != "" {
				s += ","
			}
			s += n
		}
	}
	return s
}

// InSitu description: bit `shift` = struct passed, following bits = buffers
func inSituStr(mask, shift int, names ...string) string {
	if mask&(1<<uint(shift)) == 0 {
		return "InSitu=none"
	}
	return "InSitu{" + presOpts(mask, shift+1, names...) + "}"
}

func join(parts ...string) string {
	s := ""
	for _, p := range parts {
		if p == "" {
			continue
		}
		if s != "" {
			s += ","
		}
		s += p
	}
	return s
}

// all option masks over nopt bits combined with: no InSitu, or InSitu passed
// with every subset of nbuf buffers.
func masksSmall(nopt, nbuf int) []int {
	var r []int
	for o := 0; o < 1<<uint(nopt); o++ {
		r = append(r, o)
		for bsub := 0; bsub < 1<<uint(nbuf); bsub++ {
			r = append(r, o|1<<uint(nopt)|bsub<<uint(nopt+1))
		}
	}
	return r
}

// all option masks over nopt bits combined with: no InSitu, empty InSitu, all
// buffers, each single buffer.
func masksLarge(nopt, nbuf int) []int {
	var r []int
	for o := 0; o < 1<<uint(nopt); o++ {
		r = append(r, o)
		pass := 1 << uint(nopt)
		r = append(r, o|pass)
		r = append(r, o|pass|((1<<uint(nbuf))-1)<<uint(nopt+1))
		for k := 0; k < nbuf; k++ {
			r = append(r, o|pass|1<<uint(nopt+1+k))
		}
	}
	return r
}

func masksPlain(nopt int) []int {
	r := make([]int, 1<<uint(nopt))
	for i := range r {
		r[i] = i
	}
	return r
}
