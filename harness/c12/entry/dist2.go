//go:build verif

package entry

import (
	. "github.com/pbenner/autodiff"
	. "github.com/pbenner/autodiff/statistics"
	"github.com/pbenner/autodiff/statistics/generic"
	md "github.com/pbenner/autodiff/statistics/matrixDistribution"
	sd "github.com/pbenner/autodiff/statistics/scalarDistribution"
	vd "github.com/pbenner/autodiff/statistics/vectorDistribution"

	"adharness/common"
)

// Remaining constructors: chi-squared (no object arguments), constrained,
// hierarchical and shape HMMs.
func init() {
	w := func(p interface{}, err error) (interface{}, error) {
		if err != nil {
			return nil, err
		}
		return p, nil
	}
	registerDist(distDef{id: 120, name: "scalarDistribution.NewChiSquaredDistribution",
		gen: func(r *common.Rng, s *Spec) {
			s.setVals("k", []float64{float64(r.Range(1, 6))})
			s.setVals("x", []float64{rpos(r), rpos(r) + 1, 0.5})
		},
		setup: func(d *distCtx) func() (interface{}, error) {
			// k is passed by value: there is no caller-visible argument object
			k := d.b.s.vals("k")[0]
			return func() (interface{}, error) { return w(sd.NewChiSquaredDistribution(d.t, k)) }
		}})

	genHmm := func(nstates int, matrix bool) func(r *common.Rng, s *Spec) {
		return func(r *common.Rng, s *Spec) {
			n := 1
			if matrix {
				n = dimOf(r, 1, 2)
			}
			s.N = n
			s.setVals("pi", rstoch(r, 1, nstates))
			s.setVals("tr", rstoch(r, nstates, nstates))
			for i := 0; i < nstates; i++ {
				name := "edist[" + string(rune('0'+i)) + "]"
				if matrix {
					s.setVals(name, append(rvec(r, n), rspd(r, n)...))
				} else {
					s.setVals(name, []float64{rv(r), rpos(r)})
				}
			}
			if matrix {
				s.setInts("xrows", 3)
				s.setInts("xcols", n)
				s.setVals("x", rvec(r, 6*n))
			} else {
				s.setInts("xdim", 3)
				s.setVals("x", rvec(r, 6))
			}
		}
	}
	hmmArgs := func(d *distCtx, nstates int) (Vector, Matrix, []int) {
		pi, tr := d.V("pi"), d.M("tr", nstates, nstates)
		sm := make([]int, nstates)
		for i := range sm {
			sm[i] = i
		}
		d.b.track("stateMap", "input", func() []float64 {
			r := []float64{float64(len(sm))}
			for _, x := range sm {
				r = append(r, float64(x))
			}
			return r
		})
		return pi, tr, sm
	}
	scalarE := func(d *distCtx, nstates int) []ScalarPdf {
		e := make([]ScalarPdf, nstates)
		for i := range e {
			e[i] = d.scalarNormal("edist[" + string(rune('0'+i)) + "]")
		}
		return e
	}
	vectorE := func(d *distCtx, nstates int) []VectorPdf {
		e := make([]VectorPdf, nstates)
		for i := range e {
			e[i] = d.vectorNormal("edist["+string(rune('0'+i))+"]", d.b.s.N)
		}
		return e
	}
	tree4 := func() generic.HmmNode {
		return generic.NewHmmNode(generic.NewHmmLeaf(0, 2), generic.NewHmmLeaf(2, 4))
	}

	registerDist(distDef{id: 140, name: "vectorDistribution.NewConstrainedHmm", gen: genHmm(2, false),
		setup: func(d *distCtx) func() (interface{}, error) {
			pi, tr, sm := hmmArgs(d, 2)
			e := scalarE(d, 2)
			return func() (interface{}, error) { return w(vd.NewConstrainedHmm(pi, tr, sm, e, nil)) }
		}})
	registerDist(distDef{id: 141, name: "vectorDistribution.NewHierarchicalHmm", gen: genHmm(4, false),
		setup: func(d *distCtx) func() (interface{}, error) {
			pi, tr, sm := hmmArgs(d, 4)
			e := scalarE(d, 4)
			return func() (interface{}, error) { return w(vd.NewHierarchicalHmm(pi, tr, sm, e, tree4())) }
		}})
	registerDist(distDef{id: 156, name: "matrixDistribution.NewConstrainedHmm", gen: genHmm(2, true),
		setup: func(d *distCtx) func() (interface{}, error) {
			pi, tr, sm := hmmArgs(d, 2)
			e := vectorE(d, 2)
			return func() (interface{}, error) { return w(md.NewConstrainedHmm(pi, tr, sm, e, nil)) }
		}})
	registerDist(distDef{id: 157, name: "matrixDistribution.NewHierarchicalHmm", gen: genHmm(4, true),
		setup: func(d *distCtx) func() (interface{}, error) {
			pi, tr, sm := hmmArgs(d, 4)
			e := vectorE(d, 4)
			return func() (interface{}, error) { return w(md.NewHierarchicalHmm(pi, tr, sm, e, tree4())) }
		}})
	registerDist(distDef{id: 158, name: "matrixDistribution.NewShapeHmm",
		gen: func(r *common.Rng, s *Spec) {
			n := dimOf(r, 1, 2)
			s.N = n
			s.setVals("pi", rstoch(r, 1, 2))
			s.setVals("tr", rstoch(r, 2, 2))
			s.setVals("nu0", []float64{float64(n) + rpos(r) + 1})
			s.setVals("nu1", []float64{float64(n) + rpos(r) + 1})
			s.setVals("s0", rspd(r, n))
			s.setVals("s1", rspd(r, n))
			s.setInts("xrows", 2*n)
			s.setInts("xcols", n)
			s.setVals("x", append(rspd(r, n), rspd(r, n)...))
		},
		setup: func(d *distCtx) func() (interface{}, error) {
			n := d.b.s.N
			pi, tr, sm := hmmArgs(d, 2)
			mk := func(nuName, sName, name string) MatrixPdf {
				nu := mkScalar(d.kind, d.b.s.vals(nuName)[0])
				p, err := md.NewInverseWishartDistribution(nu, mkMat(d.kind, n, n, d.b.s.vals(sName)))
				if err != nil {
					panic(err)
				}
				d.P(name, p)
				return p
			}
			e := []MatrixPdf{mk("nu0", "s0", "edist[0]"), mk("nu1", "s1", "edist[1]")}
			return func() (interface{}, error) { return w(md.NewShapeHmm(pi, tr, sm, e)) }
		}})
}
