//go:build verif

package entry

import (
	"encoding/json"

	"adharness/common"
)

// placeholder, replaced below
func GenerateStatSeqs(rng *common.Rng, extra int) []SeqCase { return nil }
func StatSeqNames() []string                               { return nil }

// ReplaySeqAny re-runs an algorithm or a statistics sequence.
func ReplaySeqAny(raw json.RawMessage) (SeqCase, error) { return ReplaySeq(raw) }
