//go:build verif

package entry

import (
	"encoding/json"
	"fmt"
	"math"

	. "github.com/pbenner/autodiff"
	. "github.com/pbenner/autodiff/statistics"
	se "github.com/pbenner/autodiff/statistics/scalarEstimator"
	ve "github.com/pbenner/autodiff/statistics/vectorEstimator"
	tp "github.com/pbenner/threadpool"

	"adharness/common"
)

// Statistics sequences (stream H, ids 200+): one ESTIMATOR object is the
// persistent state; the script is
//
//	0 SetData(x1)            1 Estimate(gamma1)      2 d1 := GetEstimate()
//	3 EstimateOnData(x2, gamma2)                     4 d2 := GetEstimate()
//	5 c := Clone...Estimator()                       6 c.EstimateOnData(x3, nil)
//
// Data vectors are retained by design (SetData stores the ConstVector: role 5,
// must never be written); the gamma vectors are plain inputs (role 0: neither
// retained nor written); a returned distribution that shares storage with the
// estimator is an alias (role 4, reported), otherwise it is protected; the
// parameters of the original estimator are protected while its clone
// estimates.

type statDef struct {
	id   int
	name string
	data int // 0 real, 1 positive, 2 counts 0..3
	mk   func() (ScalarEstimator, error)
	mkv  func(n int) (VectorEstimator, error)
}

var statDefs = []statDef{
	{id: 200, name: "scalarEstimator.Normal", data: 0, mk: func() (ScalarEstimator, error) { return se.NewNormalEstimator(0, 1, 1e-8) }},
	{id: 201, name: "scalarEstimator.Exponential", data: 1, mk: func() (ScalarEstimator, error) { return se.NewExponentialEstimator(1, 1e6) }},
	{id: 202, name: "scalarEstimator.Geometric", data: 2, mk: func() (ScalarEstimator, error) { return se.NewGeometricEstimator(0.5) }},
	{id: 203, name: "scalarEstimator.Poisson", data: 2, mk: func() (ScalarEstimator, error) { return se.NewPoissonEstimator(1) }},
	{id: 204, name: "scalarEstimator.Categorical", data: 2, mk: func() (ScalarEstimator, error) {
		return se.NewCategoricalEstimator([]float64{0.25, 0.25, 0.25, 0.25})
	}},
	{id: 205, name: "scalarEstimator.NegativeBinomial", data: 2, mk: func() (ScalarEstimator, error) { return se.NewNegativeBinomialEstimator(2, 0.5) }},
	{id: 206, name: "scalarEstimator.Delta", data: 0, mk: func() (ScalarEstimator, error) { return se.NewDeltaEstimator(0) }},
	{id: 207, name: "scalarEstimator.Mixture", data: 0, mk: func() (ScalarEstimator, error) {
		a, _ := se.NewNormalEstimator(-1, 1, 1e-8)
		b, _ := se.NewNormalEstimator(1, 1, 1e-8)
		return se.NewMixtureEstimator([]float64{0.5, 0.5}, []ScalarEstimator{a, b}, 1e-6, 3)
	}},
	{id: 208, name: "scalarEstimator.LogTransform", data: 1, mk: func() (ScalarEstimator, error) {
		a, _ := se.NewNormalEstimator(0, 1, 1e-8)
		return se.NewLogTransformEstimator(a, 0.5)
	}},
	{id: 209, name: "scalarEstimator.Translation", data: 0, mk: func() (ScalarEstimator, error) {
		a, _ := se.NewNormalEstimator(0, 1, 1e-8)
		return se.NewTranslationEstimator(a, 0.5)
	}},
	{id: 220, name: "vectorEstimator.Normal", data: 0, mkv: func(n int) (VectorEstimator, error) {
		mu := make([]float64, n)
		sg := make([]float64, n*n)
		for i := 0; i < n; i++ {
			sg[i*n+i] = 1
		}
		return ve.NewNormalEstimator(mu, sg, 1e-8)
	}},
	{id: 221, name: "vectorEstimator.ScalarIid", data: 0, mkv: func(n int) (VectorEstimator, error) {
		a, _ := se.NewNormalEstimator(0, 1, 1e-8)
		return ve.NewScalarIid(a, -1)
	}},
	{id: 222, name: "vectorEstimator.ScalarId", data: 0, mkv: func(n int) (VectorEstimator, error) {
		es := make([]ScalarEstimator, n)
		for i := range es {
			es[i], _ = se.NewNormalEstimator(0, 1, 1e-8)
		}
		return ve.NewScalarId(es...)
	}},
}

var statByID = map[int]*statDef{}

func init() {
	for i := range statDefs {
		statByID[statDefs[i].id] = &statDefs[i]
	}
}

// StatSeqNames lists the estimators run as sequences.
func StatSeqNames() []string {
	var r []string
	for _, d := range statDefs {
		r = append(r, d.name)
	}
	return r
}

// StatSpec re-creates a statistics sequence.
type StatSpec struct {
	Stat  int     `json:"stat"` // id >= 200
	Var   int     `json:"var"`
	N     int     `json:"n"`    // observations per data set
	Dim   int     `json:"dim"`  // vector estimators: dimension
	Gamma int     `json:"gamma"` // bit k: call k gets a gamma vector
	Real  bool    `json:"real"`  // data as DenseReal64Vector
	Data  [][]string `json:"data"` // 3 data sets + 2 gamma vectors, hex
}

func statData(r *common.Rng, kind, n int) []float64 {
	v := make([]float64, n)
	for i := range v {
		switch kind {
		case 1:
			v[i] = rpos(r)
		case 2:
			v[i] = float64(r.Intn(4))
		default:
			v[i] = rv(r)
		}
	}
	return v
}

func hexs(v []float64) []string {
	s := &Spec{}
	s.setVals("x", v)
	return s.Vals["x"]
}
func unhex(h []string) []float64 {
	s := &Spec{Vals: map[string][]string{"x": h}}
	return s.vals("x")
}

func genStat(d *statDef, r *common.Rng, v int) *StatSpec {
	sp := &StatSpec{Stat: d.id, Var: v, N: r.Range(2, 5), Dim: 1, Gamma: r.Intn(4), Real: r.Intn(3) == 0}
	if d.mkv != nil {
		sp.Dim = r.Range(1, 3)
	}
	for k := 0; k < 3; k++ {
		sp.Data = append(sp.Data, hexs(statData(r, d.data, sp.N*sp.Dim)))
	}
	for k := 0; k < 2; k++ {
		g := make([]float64, sp.N)
		for i := range g {
			g[i] = math.Log(rpos(r) / 3)
		}
		sp.Data = append(sp.Data, hexs(g))
	}
	return sp
}

func mkData(real bool, v []float64) Vector {
	if real {
		return NewDenseReal64Vector(cp(v))
	}
	return NewDenseFloat64Vector(cp(v))
}

func snapDist(p BasicDistribution, lp func(x float64) float64) func() []float64 {
	return func() (r []float64) {
		defer func() {
			if recover() != nil {
				r = append(r, math.Inf(-1), -4)
			}
		}()
		r = snapVector(nil, p.GetParameters())
		if lp != nil {
			r = append(r, lp(0.5), lp(2))
		}
		return r
	}
}

// RunStatSeq executes a statistics sequence.
func RunStatSeq(sp *StatSpec) (SeqCase, error) {
	d := statByID[sp.Stat]
	if d == nil {
		return SeqCase{}, fmt.Errorf("unknown statistics sequence %d", sp.Stat)
	}
	raw, _ := json.Marshal(sp)
	c := SeqCase{Entry: d.name, ID: d.id, Var: sp.Var, Spec: raw, Planned: 7}
	pool := tp.ThreadPool{}
	var objs []*seqObj
	var refFps []Footprint
	var retained []Footprint
	var est, clone interface{}
	var sest ScalarEstimator
	var vest VectorEstimator
	var err error
	if d.mk != nil {
		sest, err = d.mk()
		est = sest
	} else {
		vest, err = d.mkv(sp.Dim)
		est = vest
	}
	if err != nil || est == nil {
		return SeqCase{}, fmt.Errorf("%s: constructor failed: %v", d.name, err)
	}
	k := 0
	add := func(name string, role int, ref interface{}, snap func() []float64) *seqObj {
		o := &seqObj{Name: fmt.Sprintf("%s#%d", name, k), Role: role, Born: k, snap: snap, keep: ref}
		if ref != nil {
			o.fp = footprintOf(ref)
		}
		if role == roleRetained {
			retained = append(retained, o.fp)
		}
		o.Snaps = append(o.Snaps, snap())
		objs = append(objs, o)
		return o
	}
	// data sets: scalar estimators take one vector of N observations, vector estimators N vectors of length Dim
	type dataset struct {
		flat Vector
		rows []ConstVector
	}
	mkSet := func(i int, name string) dataset {
		v := unhex(sp.Data[i])
		if d.mk != nil {
			x := mkData(sp.Real, v)
			add(name, roleRetained, x, func() []float64 { return snapVector(nil, x) })
			return dataset{flat: x}
		}
		ds := dataset{}
		for j := 0; j < sp.N; j++ {
			x := mkData(sp.Real, v[j*sp.Dim:(j+1)*sp.Dim])
			add(fmt.Sprintf("%s[%d]", name, j), roleRetained, x, func() []float64 { return snapVector(nil, x) })
			ds.rows = append(ds.rows, x)
		}
		return ds
	}
	mkGamma := func(i int, name string, on bool) ConstVector {
		if !on {
			return nil
		}
		g := NewDenseFloat64Vector(unhex(sp.Data[i]))
		add(name, roleInput, g, func() []float64 { return snapVector(nil, g) })
		return g
	}
	withoutRetained := func(fp Footprint) Footprint {
		var r Footprint
		for _, s := range fp {
			keep := true
			for _, rf := range retained {
				if (Footprint{s}).overlaps(rf) {
					keep = false
					break
				}
			}
			if keep {
				r = append(r, s)
			}
		}
		return r
	}
	step := func(opt string, target interface{}, f func() ([]interface{}, error)) bool {
		var rets []interface{}
		outcome, msg := guarded(func() error {
			var e error
			rets, e = f()
			return e
		})
		if outcome == "timeout" {
			timeouts++
			c.Timeout = true
			return false
		}
		c.Outcomes = append(c.Outcomes, outcome)
		c.Msgs = append(c.Msgs, msg)
		c.Opts = append(c.Opts, opt)
		after := withoutRetained(footprintOf(target))
		refFps = append(refFps, after)
		for _, o := range objs {
			if o.Born <= k {
				o.Snaps = append(o.Snaps, o.snap())
			}
		}
		kk := k
		k = kk + 1
		for i, x := range rets {
			if isNil(x) || x == nil {
				continue
			}
			var sn func() []float64
			switch p := x.(type) {
			case ScalarPdf:
				sn = snapDist(p, func(t float64) float64 {
					r := NullFloat64()
					if p.LogPdf(r, ConstFloat64(t)) != nil {
						return math.Inf(-1)
					}
					return r.GetFloat64()
				})
			case BasicDistribution:
				sn = snapDist(p, nil)
			case BasicEstimator:
				sn = func() []float64 { return snapVector(nil, p.GetParameters()) }
			default:
				continue
			}
			o := add(fmt.Sprintf("ret%d", i), roleReturned, x, sn)
			o.Name = fmt.Sprintf("ret%d#%d", i, kk)
			o.fp = withoutRetained(o.fp)
			if o.fp.overlaps(after) {
				o.Role = roleAlias
				c.Aliases = append(c.Aliases, fmt.Sprintf("%s step %d (%s) ret%d", d.name, kk, opt, i))
			}
		}
		return true
	}
	g := func(kbit int) bool { return sp.Gamma&(1<<uint(kbit)) != 0 }
	ok := true
	// 0 SetData
	x1 := mkSet(0, "x1")
	ok = ok && step("SetData", est, func() ([]interface{}, error) {
		if sest != nil {
			return nil, sest.SetData(x1.flat, sp.N)
		}
		return nil, vest.SetData(x1.rows, sp.N)
	})
	// 1 Estimate
	if ok {
		g1 := mkGamma(3, "gamma1", g(0))
		ok = step("Estimate", est, func() ([]interface{}, error) {
			return nil, est.(BasicEstimator).Estimate(g1, pool)
		})
	}
	getEst := func(e interface{}) ([]interface{}, error) {
		if s, y := e.(ScalarEstimator); y {
			p, err := s.GetEstimate()
			return []interface{}{p}, err
		}
		p, err := e.(VectorEstimator).GetEstimate()
		return []interface{}{p}, err
	}
	// 2 GetEstimate
	if ok {
		ok = step("GetEstimate", est, func() ([]interface{}, error) { return getEst(est) })
	}
	// 3 EstimateOnData
	if ok {
		x2 := mkSet(1, "x2")
		g2 := mkGamma(4, "gamma2", g(1))
		ok = step("EstimateOnData", est, func() ([]interface{}, error) {
			if sest != nil {
				return nil, sest.EstimateOnData(x2.flat, g2, pool)
			}
			return nil, vest.EstimateOnData(x2.rows, g2, pool)
		})
	}
	// 4 GetEstimate
	if ok {
		ok = step("GetEstimate", est, func() ([]interface{}, error) { return getEst(est) })
	}
	// 5 Clone
	if ok {
		ok = step("CloneEstimator", est, func() ([]interface{}, error) {
			if sest != nil {
				clone = sest.CloneScalarEstimator()
			} else {
				clone = vest.CloneVectorEstimator()
			}
			return []interface{}{clone}, nil
		})
	}
	// 6 the clone estimates: the original's parameters are protected; the clone itself is now the
	// caller's working object
	if ok && clone != nil {
		for _, o := range objs {
			if o.keep == clone && o.Role == roleReturned {
				o.Role = roleBuffer
			}
		}
		x3 := mkSet(2, "x3")
		e0 := est.(BasicEstimator)
		add("original.parameters", roleInput, nil, func() (r []float64) {
			defer func() {
				if recover() != nil {
					r = []float64{math.Inf(-1), -4}
				}
			}()
			return snapVector(nil, e0.GetParameters())
		})
		step("clone.EstimateOnData", clone, func() ([]interface{}, error) {
			if s, y := clone.(ScalarEstimator); y {
				return nil, s.EstimateOnData(x3.flat, nil, pool)
			}
			return nil, clone.(VectorEstimator).EstimateOnData(x3.rows, nil, pool)
		})
	}
	if len(refFps) == 0 {
		return SeqCase{}, fmt.Errorf("%s: no call completed", d.name)
	}
	finishSeq(&c, objs, refFps)
	return c, nil
}

// GenerateStatSeqs: every estimator once per gamma pattern (directed), then
// `extra` rng-chosen ones.
func GenerateStatSeqs(rng *common.Rng, extra int) []SeqCase {
	var out []SeqCase
	v := 0
	for i := range statDefs {
		for gpat := 0; gpat < 4; gpat++ {
			sp := genStat(&statDefs[i], rng.Split(), v)
			sp.Gamma = gpat
			if c, err := RunStatSeq(sp); err == nil {
				out = append(out, c)
			}
			v++
		}
	}
	for i := 0; i < extra; i++ {
		sp := genStat(&statDefs[i%len(statDefs)], rng.Split(), 1000+i)
		if c, err := RunStatSeq(sp); err == nil {
			out = append(out, c)
		}
	}
	return out
}

// ReplaySeqAny re-runs an algorithm or a statistics sequence.
func ReplaySeqAny(raw json.RawMessage) (SeqCase, error) {
	var head struct {
		Stat int `json:"stat"`
	}
	json.Unmarshal(raw, &head)
	if head.Stat >= 200 {
		var sp StatSpec
		if err := json.Unmarshal(raw, &sp); err != nil {
			return SeqCase{}, err
		}
		return RunStatSeq(&sp)
	}
	return ReplaySeq(raw)
}
