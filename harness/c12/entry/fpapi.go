//go:build verif

package entry

// Labels (round 5, streams A/I of the main harness): the storage labels of several objects.  Two spans of the
// footprints get the same label iff they are connected by overlapping address ranges; per object the labels
// are deduplicated.  Objects whose label lists are disjoint share no storage.
func Labels(objs []interface{}) [][]int {
	fps := make([]Footprint, len(objs))
	for i, o := range objs {
		fps[i] = footprintOf(o)
	}
	comp := components(fps)
	out := make([][]int, len(objs))
	for i, c := range comp {
		seen := map[int]bool{}
		for _, l := range c {
			if !seen[l] {
				seen[l] = true
				out[i] = append(out[i], l)
			}
		}
	}
	return out
}

// Overlap reports whether two objects reach a common piece of storage.
func Overlap(a, b interface{}) bool { return footprintOf(a).overlaps(footprintOf(b)) }
