//go:build verif

// Smoke test of package adharness/c12/entry: generates cases, prints
// per-entry counts and outcomes, checks determinism and replay.
//
//	go run -tags verif ./c12/entry/cmd [-n 400] [-seed 1] [-v] [-shrink]
package main

import (
	"flag"
	"fmt"
	"hash/fnv"
	"os"
	"sort"
	"strings"
	"time"

	"adharness/c12/entry"
	"adharness/common"
)

func coqText(cs []entry.Case) string {
	var sb strings.Builder
	for _, c := range cs {
		sb.WriteString(c.Coq())
		sb.WriteString("\n")
	}
	return sb.String()
}

func main() {
	n := flag.Int("n", 400, "number of cases")
	seed := flag.Uint64("seed", 1, "seed")
	verbose := flag.Bool("v", false, "print every case with a changed input")
	shrink := flag.Bool("shrink", false, "shrink cases with a changed input (one per entry/object)")
	only := flag.String("entry", "", "restrict to one entry point (uses GenerateEntry)")
	msgs := flag.Bool("msgs", false, "print the distinct error / panic messages per entry")
	flag.Parse()

	gen := func() []entry.Case {
		if *only != "" {
			return entry.GenerateEntry(common.NewRng(*seed), *only, *n)
		}
		return entry.Generate(common.NewRng(*seed), *n)
	}
	t0 := time.Now()
	cs := gen()
	dt := time.Since(t0)
	txt := coqText(cs)

	names := entry.EntryNames()
	combos := entry.CombosPerEntry()
	fmt.Printf("entries: %d, option combinations: %d, cases: %d, timeouts: %d, generation: %.2fs\n",
		len(names), entry.NumCombos(), len(cs), entry.Timeouts(), dt.Seconds())

	type stat struct {
		n, ok, err, pan, changed, rep int
		masks                         map[int]bool
	}
	st := map[string]*stat{}
	for _, c := range cs {
		s := st[c.Entry]
		if s == nil {
			s = &stat{masks: map[int]bool{}}
			st[c.Entry] = s
		}
		s.n++
		s.masks[c.OptMask] = true
		switch c.Outcome {
		case "ok":
			s.ok++
		case "error":
			s.err++
		case "panic":
			s.pan++
		}
		if len(c.Changed) > 0 {
			s.changed++
		}
		if len(c.RepChanged) > 0 {
			s.rep++
		}
	}
	fmt.Printf("%-52s %6s %6s %5s %5s %5s %7s %7s\n", "entry", "combos", "cases", "ok", "err", "panic", "changed", "repchg")
	totalChanged, totalRep := 0, 0
	for i, nm := range names {
		s := st[nm]
		if s == nil {
			s = &stat{}
		}
		totalChanged += s.changed
		totalRep += s.rep
		fmt.Printf("%-52s %6d %6d %5d %5d %5d %7d %7d\n", nm, combos[i], s.n, s.ok, s.err, s.pan, s.changed, s.rep)
	}
	avg := 0
	if len(cs) > 0 {
		avg = len(txt) / len(cs)
	}
	hh := fnv.New64a()
	hh.Write([]byte(txt))
	fmt.Printf("cases with only a representation change of an input: %d\n", totalRep)
	fmt.Printf("cases with a changed input: %d; Coq text: %d bytes (%d per case), fnv64a %016x\n", totalChanged, len(txt), avg, hh.Sum64())

	fail := false
	// determinism
	if *only == "" {
		cs2 := gen()
		if coqText(cs2) != txt {
			fmt.Println("FAIL: two runs with the same seed differ")
			fail = true
		} else {
			fmt.Println("determinism: ok")
		}
	}
	// replay
	bad := 0
	for _, c := range cs {
		r, err := entry.Replay(c.Spec)
		if err != nil || r.Coq() != c.Coq() || r.Outcome != c.Outcome || strings.Join(r.RepChanged, ",") != strings.Join(c.RepChanged, ",") {
			bad++
			if bad <= 5 {
				fmt.Printf("  replay mismatch: %s mask=%d err=%v\n", c.Entry, c.OptMask, err)
			}
		}
		if _, err := c.ToJSON(); err != nil {
			fmt.Printf("  ToJSON failed: %s: %v\n", c.Entry, err)
			bad++
		}
	}
	if bad > 0 {
		fmt.Printf("FAIL: %d cases not reproduced by Replay\n", bad)
		fail = true
	} else {
		fmt.Println("replay: ok")
	}

	if *msgs {
		for _, t := range entry.TimeoutSpecs() {
			fmt.Printf("  TIMEOUT %s\n", t)
		}
		seen := map[string]int{}
		var keys []string
		for _, c := range cs {
			if c.Outcome == "ok" {
				continue
			}
			m := c.Msg
			if len(m) > 200 {
				m = m[:200]
			}
			k := fmt.Sprintf("%s %s: %s", c.Entry, c.Outcome, m)
			if seen[k] == 0 {
				keys = append(keys, k)
			}
			seen[k]++
		}
		sort.Strings(keys)
		for _, k := range keys {
			fmt.Printf("  %4d x %s\n", seen[k], k)
		}
	}
	// changed inputs
	if *verbose || *shrink {
		seen := map[string]bool{}
		var keys []string
		byKey := map[string]entry.Case{}
		for _, c := range cs {
			if len(c.Changed) == 0 && len(c.RepChanged) == 0 {
				continue
			}
			k := c.Entry + " / " + strings.Join(c.Changed, ",")
			if len(c.Changed) == 0 {
				k = c.Entry + " / REP " + strings.Join(c.RepChanged, ",")
			}
			if !seen[k] {
				seen[k] = true
				keys = append(keys, k)
				byKey[k] = c
			}
		}
		sort.Strings(keys)
		for _, k := range keys {
			c := byKey[k]
			if *shrink {
				c = entry.Shrink(c)
			}
			fmt.Printf("CHANGED %s  opts=[%s] mask=%d outcome=%s\n", k, c.Opts, c.OptMask, c.Outcome)
			for _, o := range c.Objs {
				mark := " "
				for _, ch := range c.Changed {
					if ch == o.Name {
						mark = "*"
					}
				}
				for _, ch := range c.RepChanged {
					if ch == o.Name {
						mark = "r"
					}
				}
				if mark == "r" {
					fmt.Printf("  r %-28s %-10s rep before=%v\n    %-39s rep after =%v\n", o.Name, o.Role, o.RepBefore, "", o.RepAfter)
					continue
				}
				if mark == "*" || *verbose {
					fmt.Printf("  %s %-28s %-10s before=%v\n    %-39s after =%v\n", mark, o.Name, o.Role, o.Before, "", o.After)
				}
			}
			fmt.Printf("  spec=%s\n", string(c.Spec))
		}
	}
	if fail {
		os.Exit(1)
	}
}
