//go:build verif

package entry

import (
	. "github.com/pbenner/autodiff"
	"github.com/pbenner/autodiff/algorithm/backSubstitution"
	"github.com/pbenner/autodiff/algorithm/cholesky"
	"github.com/pbenner/autodiff/algorithm/determinant"
	"github.com/pbenner/autodiff/algorithm/eigensystem"
	"github.com/pbenner/autodiff/algorithm/gaussJordan"
	"github.com/pbenner/autodiff/algorithm/givensRotation"
	"github.com/pbenner/autodiff/algorithm/gramSchmidt"
	"github.com/pbenner/autodiff/algorithm/hessenbergReduction"
	"github.com/pbenner/autodiff/algorithm/householder"
	"github.com/pbenner/autodiff/algorithm/householderBidiagonalization"
	"github.com/pbenner/autodiff/algorithm/householderTridiagonalization"
	"github.com/pbenner/autodiff/algorithm/matrixInverse"
	"github.com/pbenner/autodiff/algorithm/msqrt"
	"github.com/pbenner/autodiff/algorithm/msqrtInv"
	"github.com/pbenner/autodiff/algorithm/qrAlgorithm"
	"github.com/pbenner/autodiff/algorithm/svd"

	"adharness/common"
)

// helpers to supply (and track) InSitu buffers
func (b *bld) bufM(on bool, name string, rows, cols int) Matrix {
	if !on {
		return nil
	}
	m := bufMat(b.s.Kind, rows, cols)
	b.mat(name, "insitu", m)
	return m
}
func (b *bld) bufV(on bool, name string, n int) Vector {
	if !on {
		return nil
	}
	v := bufVec(b.s.Kind, n)
	b.vec(name, "insitu", v)
	return v
}
// setters for InSitu fields: the second and later calls of a sequence leave the
// persistent struct as the previous call left it
func (b *bld) setM(p *Matrix, on bool, name string, rows, cols int) {
	if !b.later() {
		*p = b.bufM(on, name, rows, cols)
	}
}
func (b *bld) setV(p *Vector, on bool, name string, n int) {
	if !b.later() {
		*p = b.bufV(on, name, n)
	}
}
func (b *bld) setS(p *Scalar, on bool, name string) {
	if !b.later() {
		*p = b.bufS(on, name)
	}
}

func (b *bld) bufS(on bool, name string) Scalar {
	if !on {
		return nil
	}
	x := bufScalar(b.s.Kind)
	b.sca(name, "insitu", x)
	return x
}

func init() {
	// ------------------------------------------------------------ 3 backSubstitution.Run
	register(&entryDef{id: 3, name: "backSubstitution.Run", modelled: true,
		masks: func() []int { return masksSmall(1, 3) },
		optStr: func(m int) string {
			return join(boolOpts(m, "b=nil"), inSituStr(m, 1, "A", "X", "T"))
		},
		gen: func(r *common.Rng, mask int) *Spec {
			n := dimOf(r, 1, 4)
			s := newSpec(kindOf(r, 0, 1, 2), n, n)
			a := rupper(r, n)
			if r.Intn(8) == 0 {
				a[(n-1)*n+(n-1)] = 0
			}
			s.setVals("A", a)
			s.setVals("b", rvec(r, n))
			return s
		},
		build: func(b *bld) {
			n, k := b.s.N, b.s.Kind
			A := b.inMat(k, n, n, "A")
			b.mat("A", "input", A)
			var bv Vector
			if !b.bit(0) {
				bv = mkVec(k, b.s.vals("b"))
				b.vec("b", "input", bv)
			}
			var args []interface{}
			if b.bit(1) {
				is := b.persist(&backSubstitution.InSitu{}).(*backSubstitution.InSitu)
				b.setM(&is.A, b.bit(2), "InSitu.A", n, n)
				b.setV(&is.X, b.bit(3), "InSitu.X", n)
				b.setS(&is.T, b.bit(4), "InSitu.T")
				args = append(args, is)
			}
			args = b.hold(args)
			b.run = func() error { x, err := backSubstitution.Run(A, bv, args...); b.ret(x); return err }
		}})

	// ------------------------------------------------------------ 7 cholesky.Run
	register(&entryDef{id: 7, name: "cholesky.Run", modelled: true,
		masks: func() []int { return masksSmall(2, 4) },
		optStr: func(m int) string {
			return join(boolOpts(m, "LDL", "ForcePD"), inSituStr(m, 2, "L", "D", "S", "T"))
		},
		gen: func(r *common.Rng, mask int) *Spec {
			n := dimOf(r, 1, 4)
			s := newSpec(kindOf(r, 0, 1, 2), n, n)
			a := rspd(r, n)
			if r.Intn(6) == 0 {
				a = rsym(r, n) // possibly indefinite
				a[0] = -a[0]
			}
			s.setVals("a", a)
			return s
		},
		build: func(b *bld) {
			n, k := b.s.N, b.s.Kind
			a := b.inMat(k, n, n, "a")
			b.mat("a", "input", a)
			args := []interface{}{cholesky.LDL{Value: b.bit(0)}, cholesky.ForcePD{Value: b.bit(1)}}
			if b.bit(2) {
				is := b.persist(&cholesky.InSitu{}).(*cholesky.InSitu)
				b.setM(&is.L, b.bit(3), "InSitu.L", n, n)
				b.setM(&is.D, b.bit(4), "InSitu.D", n, n)
				b.setS(&is.S, b.bit(5), "InSitu.S")
				b.setS(&is.T, b.bit(6), "InSitu.T")
				args = append(args, is)
			}
			args = b.hold(args)
			b.run = func() error { l, d, err := cholesky.Run(a, args...); b.ret(l, d); return err }
		}})

	// ------------------------------------------------------------ 8 determinant.Run
	register(&entryDef{id: 8, name: "determinant.Run", modelled: true,
		masks: func() []int { return masksSmall(2, 3) },
		optStr: func(m int) string {
			return join(boolOpts(m, "PositiveDefinite", "LogScale"), inSituStr(m, 2, "Cholesky.L", "Cholesky.S", "Cholesky.T"))
		},
		gen: func(r *common.Rng, mask int) *Spec {
			n := dimOf(r, 1, 4)
			s := newSpec(kindOf(r, 0, 1, 2), n, n)
			if mask&1 != 0 {
				s.setVals("a", rspd(r, n))
			} else {
				s.setVals("a", maybeSingular(r, rmat(r, n, n), n))
			}
			return s
		},
		build: func(b *bld) {
			n, k := b.s.N, b.s.Kind
			a := b.inMat(k, n, n, "a")
			b.mat("a", "input", a)
			args := []interface{}{determinant.PositiveDefinite{Value: b.bit(0)}, determinant.LogScale{Value: b.bit(1)}}
			if b.bit(2) {
				is := b.persist(&determinant.InSitu{}).(*determinant.InSitu)
				b.setM(&is.Cholesky.L, b.bit(3), "InSitu.Cholesky.L", n, n)
				b.setS(&is.Cholesky.S, b.bit(4), "InSitu.Cholesky.S")
				b.setS(&is.Cholesky.T, b.bit(5), "InSitu.Cholesky.T")
				args = append(args, is)
			}
			args = b.hold(args)
			b.run = func() error { d, err := determinant.Run(a, args...); b.ret(d); return err }
		}})

	// ------------------------------------------------------------ 9 eigensystem.Run
	register(&entryDef{id: 9, name: "eigensystem.Run", modelled: false,
		masks: func() []int { return masksSmall(2, 3) },
		optStr: func(m int) string {
			return join(boolOpts(m, "ComputeEigenvectors", "Symmetric"), inSituStr(m, 2, "Eigenvalues", "Eigenvectors", "QrAlgorithm{H,U,T1,T2,T3,T4,S}"))
		},
		gen: func(r *common.Rng, mask int) *Spec {
			n := dimOf(r, 1, 4)
			s := newSpec(kindOf(r, 0, 1), n, n)
			if mask&2 != 0 || r.Bool() {
				s.setVals("a", rsym(r, n))
			} else {
				s.setVals("a", rdom(r, n))
			}
			return s
		},
		build: func(b *bld) {
			n, k := b.s.N, b.s.Kind
			a := b.inMat(k, n, n, "a")
			b.mat("a", "input", a)
			args := []interface{}{eigensystem.ComputeEigenvectors{Value: b.bit(0)}, eigensystem.Symmetric{Value: b.bit(1)}}
			if b.bit(1) {
				args = append(args, qrAlgorithm.Symmetric{Value: true})
			}
			if b.bit(2) {
				is := b.persist(&eigensystem.InSitu{}).(*eigensystem.InSitu)
				b.setV(&is.Eigenvalues, b.bit(3), "InSitu.Eigenvalues", n)
				b.setM(&is.Eigenvectors, b.bit(4), "InSitu.Eigenvectors", n, n)
				if b.bit(5) {
					q := &is.QrAlgorithm
					q.InitializeH = true
					b.setM(&q.H, true, "InSitu.QrAlgorithm.H", n, n)
					b.setM(&q.U, true, "InSitu.QrAlgorithm.U", n, n)
					b.setS(&q.T1, true, "InSitu.QrAlgorithm.T1")
					b.setS(&q.T2, true, "InSitu.QrAlgorithm.T2")
					b.setS(&q.T3, true, "InSitu.QrAlgorithm.T3")
					b.setV(&q.T4, true, "InSitu.QrAlgorithm.T4", n)
					b.setS(&q.S, true, "InSitu.QrAlgorithm.S")
				}
				args = append(args, is)
			}
			args = b.hold(args)
			b.run = func() error { ev, evec, err := eigensystem.Run(a, args...); b.ret(ev, evec); return err }
		}})

	// ------------------------------------------------------------ 10 gaussJordan.Run
	register(&entryDef{id: 10, name: "gaussJordan.Run", modelled: true,
		masks:  func() []int { return masksPlain(2) },
		optStr: func(m int) string { return join(presOpts(m, 0, "Submatrix"), boolOpts(m>>1, "UpperTriangular")) },
		gen: func(r *common.Rng, mask int) *Spec {
			n := dimOf(r, 1, 4)
			s := newSpec(kindOf(r, 0, 1, 2), n, n)
			if mask&2 != 0 {
				s.setVals("a", rupper(r, n))
			} else {
				s.setVals("a", maybeSingular(r, rdom(r, n), n))
			}
			x := make([]float64, n*n)
			for i := 0; i < n; i++ {
				x[i*n+i] = 1
			}
			if r.Intn(3) == 0 {
				x = rmat(r, n, n)
			}
			s.setVals("x", x)
			s.setVals("b", rvec(r, n))
			sub := make([]int, n)
			any := false
			for i := range sub {
				if r.Intn(3) != 0 {
					sub[i] = 1
					any = true
				}
			}
			if !any {
				sub[r.Intn(n)] = 1
			}
			s.setInts("sub", sub...)
			return s
		},
		build: func(b *bld) {
			n, k := b.s.N, b.s.Kind
			a := b.inMat(k, n, n, "a")
			x := b.inMat(k, n, n, "x")
			bv := mkVec(k, b.s.vals("b"))
			b.mat("a", "output-arg", a)
			b.mat("x", "output-arg", x)
			b.vec("b", "output-arg", bv)
			var args []interface{}
			if b.bit(0) {
				sub := intsToBools(b.s.ints("sub"), n)
				b.bools("Submatrix.Value", "input", sub)
				args = append(args, gaussJordan.Submatrix{Value: sub})
			}
			args = append(args, gaussJordan.UpperTriangular{Value: b.bit(1)})
			args = b.hold(args)
			b.run = func() error { return gaussJordan.Run(a, x, bv, args...) }
		}})

	// ------------------------------------------------------------ 11 givensRotation.Run
	register(&entryDef{id: 11, name: "givensRotation.Run", modelled: false,
		masks:  func() []int { return []int{0} },
		optStr: func(m int) string { return "" },
		gen: func(r *common.Rng, mask int) *Spec {
			s := newSpec(kindOf(r, 0, 1), 1, 1)
			a, bb := rv(r), rv(r)
			if r.Intn(5) == 0 {
				bb = 0
			}
			s.setVals("ab", []float64{a, bb})
			return s
		},
		build: func(b *bld) {
			k := b.s.Kind
			v := b.s.vals("ab")
			a, bb := mkScalar(k, v[0]), mkScalar(k, v[1])
			if k == 1 {
				Variables(1, a.(*Real64), bb.(*Real64))
			}
			c, s := bufScalar(k), bufScalar(k)
			b.sca("a", "input", a)
			b.sca("b", "input", bb)
			b.sca("c", "output-arg", c)
			b.sca("s", "output-arg", s)
			b.run = func() error { givensRotation.Run(a, bb, c, s); return nil }
		}})

	// ------------------------------------------------------------ 13 gramSchmidt.Run
	register(&entryDef{id: 13, name: "gramSchmidt.Run", modelled: true,
		masks:  func() []int { return []int{0, 1, 1 | 2, 1 | 4, 1 | 2 | 4} },
		optStr: func(m int) string { return inSituStr(m, 0, "Q", "R") },
		gen: func(r *common.Rng, mask int) *Spec {
			n := dimOf(r, 1, 4)
			m := 1 + r.Intn(n)
			s := newSpec(kindOf(r, 0, 1, 2), n, m)
			a := rmat(r, n, m)
			for j := 0; j < m; j++ {
				a[j*m+j] += 4
			}
			s.setVals("a", a)
			return s
		},
		build: func(b *bld) {
			n, m, k := b.s.N, b.s.M, b.s.Kind
			a := b.inMat(k, n, m, "a")
			b.mat("a", "input", a)
			var args []interface{}
			if b.bit(0) {
				is := b.persist(&gramSchmidt.InSitu{}).(*gramSchmidt.InSitu)
				b.setM(&is.Q, b.bit(1), "InSitu.Q", n, m)
				b.setM(&is.R, b.bit(2), "InSitu.R", n, m)
				args = append(args, *is) // gramSchmidt takes its InSitu by value
			}
			args = b.hold(args)
			b.run = func() error { q, r, err := gramSchmidt.Run(a, args...); b.ret(q, r); return err }
		}})

	// ------------------------------------------------------------ 14 hessenbergReduction.Run
	hessNames := []string{"H", "U", "X", "Beta", "Nu", "T1", "T2", "T3", "T4"}
	register(&entryDef{id: 14, name: "hessenbergReduction.Run", modelled: false,
		masks: func() []int { return masksLarge(2, 9) },
		optStr: func(m int) string {
			return join(boolOpts(m, "ComputeU", "SetZero"), inSituStr(m, 2, hessNames...))
		},
		gen: func(r *common.Rng, mask int) *Spec {
			n := dimOf(r, 1, 4)
			s := newSpec(kindOf(r, 0, 1), n, n)
			s.setVals("a", rmat(r, n, n))
			return s
		},
		build: func(b *bld) {
			n, k := b.s.N, b.s.Kind
			a := b.inMat(k, n, n, "a")
			b.mat("a", "input", a)
			args := []interface{}{hessenbergReduction.ComputeU{Value: b.bit(0)}, hessenbergReduction.SetZero{Value: b.bit(1)}}
			if b.bit(2) {
				is := b.persist(&hessenbergReduction.InSitu{}).(*hessenbergReduction.InSitu)
				b.setM(&is.H, b.bit(3), "InSitu.H", n, n)
				if b.selfBuf() {
					is.H = a
				}
				b.setM(&is.U, b.bit(4), "InSitu.U", n, n)
				b.setV(&is.X, b.bit(5), "InSitu.X", n)
				b.setS(&is.Beta, b.bit(6), "InSitu.Beta")
				b.setV(&is.Nu, b.bit(7), "InSitu.Nu", n)
				b.setS(&is.T1, b.bit(8), "InSitu.T1")
				b.setS(&is.T2, b.bit(9), "InSitu.T2")
				b.setS(&is.T3, b.bit(10), "InSitu.T3")
				b.setV(&is.T4, b.bit(11), "InSitu.T4", n)
				args = append(args, is)
			}
			args = b.hold(args)
			b.run = func() error { h, u, err := hessenbergReduction.Run(a, args...); b.ret(h, u); return err }
		}})

	// ------------------------------------------------------------ 15 householder.Run
	register(&entryDef{id: 15, name: "householder.Run", modelled: false,
		masks:  func() []int { return []int{0} },
		optStr: func(m int) string { return "" },
		gen: func(r *common.Rng, mask int) *Spec {
			n := dimOf(r, 1, 4)
			s := newSpec(kindOf(r, 0, 1, 2), n, 1)
			x := rvec(r, n)
			if r.Intn(4) == 0 {
				for i := 1; i < n; i++ {
					x[i] = 0
				}
			}
			s.setVals("x", x)
			return s
		},
		build: func(b *bld) {
			n, k := b.s.N, b.s.Kind
			x := mkVec(k, b.s.vals("x"))
			b.vec("x", "input", x)
			beta := bufScalar(k)
			nu := bufVec(k, n)
			t1, t2, t3 := bufScalar(k), bufScalar(k), bufScalar(k)
			b.sca("beta", "output-arg", beta)
			b.vec("nu", "output-arg", nu)
			b.sca("t1", "output-arg", t1)
			b.sca("t2", "output-arg", t2)
			b.sca("t3", "output-arg", t3)
			b.run = func() error { householder.Run(x, beta, nu, t1, t2, t3); return nil }
		}})

	// ------------------------------------------------------------ 16 householderBidiagonalization.Run
	hbNames := []string{"A", "U", "V", "X", "Beta", "Nu", "C1", "T1", "T2", "T3", "T4"}
	register(&entryDef{id: 16, name: "householderBidiagonalization.Run", modelled: false,
		masks: func() []int { return masksLarge(3, 11) },
		optStr: func(m int) string {
			return join(boolOpts(m, "ComputeU", "ComputeV"), presOpts(m, 2, "Epsilon"), inSituStr(m, 3, hbNames...))
		},
		gen: func(r *common.Rng, mask int) *Spec {
			m := dimOf(r, 1, 4)
			n := 1 + r.Intn(m)
			s := newSpec(kindOf(r, 0, 1), m, n)
			s.setVals("a", rmat(r, m, n))
			return s
		},
		build: func(b *bld) {
			m, n, k := b.s.N, b.s.M, b.s.Kind
			a := b.inMat(k, m, n, "a")
			b.mat("a", "input", a)
			args := []interface{}{householderBidiagonalization.ComputeU{Value: b.bit(0)}, householderBidiagonalization.ComputeV{Value: b.bit(1)}}
			if b.bit(2) {
				args = append(args, householderBidiagonalization.Epsilon{Value: 1e-12})
			}
			if b.bit(3) {
				is := b.persist(&householderBidiagonalization.InSitu{}).(*householderBidiagonalization.InSitu)
				b.setM(&is.A, b.bit(4), "InSitu.A", m, n)
				b.setM(&is.U, b.bit(5), "InSitu.U", m, m)
				b.setM(&is.V, b.bit(6), "InSitu.V", n, n)
				b.setV(&is.X, b.bit(7), "InSitu.X", m)
				b.setS(&is.Beta, b.bit(8), "InSitu.Beta")
				b.setV(&is.Nu, b.bit(9), "InSitu.Nu", m)
				b.setS(&is.C1, b.bit(10), "InSitu.C1")
				b.setS(&is.T1, b.bit(11), "InSitu.T1")
				b.setS(&is.T2, b.bit(12), "InSitu.T2")
				b.setS(&is.T3, b.bit(13), "InSitu.T3")
				b.setV(&is.T4, b.bit(14), "InSitu.T4", m)
				args = append(args, is)
			}
			args = b.hold(args)
			b.run = func() error { h, u, v, err := householderBidiagonalization.Run(a, args...); b.ret(h, u, v); return err }
		}})

	// ------------------------------------------------------------ 17 householderTridiagonalization.Run
	register(&entryDef{id: 17, name: "householderTridiagonalization.Run", modelled: false,
		masks: func() []int { return masksLarge(2, 11) },
		optStr: func(m int) string {
			return join(boolOpts(m, "ComputeU"), presOpts(m, 1, "Epsilon"), inSituStr(m, 2, hbNames...))
		},
		gen: func(r *common.Rng, mask int) *Spec {
			n := dimOf(r, 1, 4)
			s := newSpec(kindOf(r, 0, 1), n, n)
			s.setVals("a", rsym(r, n))
			return s
		},
		build: func(b *bld) {
			n, k := b.s.N, b.s.Kind
			a := b.inMat(k, n, n, "a")
			b.mat("a", "input", a)
			args := []interface{}{householderTridiagonalization.ComputeU{Value: b.bit(0)}}
			if b.bit(1) {
				args = append(args, householderTridiagonalization.Epsilon{Value: 1e-12})
			}
			if b.bit(2) {
				is := b.persist(&householderTridiagonalization.InSitu{}).(*householderTridiagonalization.InSitu)
				b.setM(&is.A, b.bit(3), "InSitu.A", n, n)
				b.setM(&is.U, b.bit(4), "InSitu.U", n, n)
				b.setM(&is.V, b.bit(5), "InSitu.V", n, n)
				b.setV(&is.X, b.bit(6), "InSitu.X", n)
				b.setS(&is.Beta, b.bit(7), "InSitu.Beta")
				b.setV(&is.Nu, b.bit(8), "InSitu.Nu", n)
				b.setS(&is.C1, b.bit(9), "InSitu.C1")
				b.setS(&is.T1, b.bit(10), "InSitu.T1")
				b.setS(&is.T2, b.bit(11), "InSitu.T2")
				b.setS(&is.T3, b.bit(12), "InSitu.T3")
				b.setV(&is.T4, b.bit(13), "InSitu.T4", n)
				args = append(args, is)
			}
			args = b.hold(args)
			b.run = func() error { h, u, err := householderTridiagonalization.Run(a, args...); b.ret(h, u); return err }
		}})

	// ------------------------------------------------------------ 19 matrixInverse.Run
	register(&entryDef{id: 19, name: "matrixInverse.Run", modelled: true,
		masks: func() []int { return masksSmall(3, 4) },
		optStr: func(m int) string {
			return join(boolOpts(m, "PositiveDefinite", "UpperTriangular"), presOpts(m, 2, "Submatrix"), inSituStr(m, 3, "Id", "A", "B", "Cholesky{L,S,T}"))
		},
		gen: func(r *common.Rng, mask int) *Spec {
			n := dimOf(r, 1, 4)
			s := newSpec(kindOf(r, 0, 1, 2), n, n)
			switch {
			case mask&1 != 0:
				s.setVals("matrix", rspd(r, n))
			case mask&2 != 0:
				s.setVals("matrix", rupper(r, n))
			default:
				s.setVals("matrix", maybeSingular(r, rdom(r, n), n))
			}
			sub := make([]int, n)
			for i := range sub {
				if r.Intn(3) != 0 {
					sub[i] = 1
				}
			}
			sub[r.Intn(n)] = 1
			s.setInts("sub", sub...)
			return s
		},
		build: func(b *bld) {
			n, k := b.s.N, b.s.Kind
			a := b.inMat(k, n, n, "matrix")
			b.mat("matrix", "input", a)
			args := []interface{}{matrixInverse.PositiveDefinite{Value: b.bit(0)}, matrixInverse.UpperTriangular{Value: b.bit(1)}}
			if b.bit(2) {
				sub := intsToBools(b.s.ints("sub"), n)
				b.bools("Submatrix.Value", "input", sub)
				args = append(args, gaussJordan.Submatrix{Value: sub})
			}
			if b.bit(3) {
				is := b.persist(&matrixInverse.InSitu{}).(*matrixInverse.InSitu)
				b.setM(&is.Id, b.bit(4), "InSitu.Id", n, n)
				b.setM(&is.A, b.bit(5), "InSitu.A", n, n)
				b.setV(&is.B, b.bit(6), "InSitu.B", n)
				if b.bit(7) {
					b.setM(&is.Cholesky.L, true, "InSitu.Cholesky.L", n, n)
					b.setS(&is.Cholesky.S, true, "InSitu.Cholesky.S")
					b.setS(&is.Cholesky.T, true, "InSitu.Cholesky.T")
				}
				args = append(args, is)
			}
			args = b.hold(args)
			b.run = func() error { r, err := matrixInverse.Run(a, args...); b.ret(r); return err }
		}})

	// ------------------------------------------------------------ 20/21 msqrt.Run, msqrtInv.Run
	for _, e := range []struct {
		id   int
		name string
		f    func(Matrix, ...interface{}) (Matrix, error)
	}{{20, "msqrt.Run", msqrt.Run}, {21, "msqrtInv.Run", msqrtInv.Run}} {
		e := e
		register(&entryDef{id: e.id, name: e.name, modelled: false,
			masks:  func() []int { return []int{0} },
			optStr: func(m int) string { return "" },
			gen: func(r *common.Rng, mask int) *Spec {
				n := dimOf(r, 1, 3)
				s := newSpec(kindOf(r, 0, 1), n, n)
				a := rspd(r, n)
				if r.Intn(8) == 0 {
					// identity: converges immediately
					for i := range a {
						a[i] = 0
					}
					for i := 0; i < n; i++ {
						a[i*n+i] = 1
					}
				}
				s.setVals("matrix", a)
				return s
			},
			build: func(b *bld) {
				n, k := b.s.N, b.s.Kind
				a := b.inMat(k, n, n, "matrix")
				b.mat("matrix", "input", a)
				args := b.hold(nil)
				b.run = func() error { r, err := e.f(a, args...); b.ret(r); return err }
			}})
	}

	// ------------------------------------------------------------ 25 qrAlgorithm.Run
	// bits: 0 ComputeU, 1 Symmetric, 2 InSitu passed, 3 InitializeH,
	// 4..17 H,U,T1,T2,T3,S,Beta,Nu,X,T,T4,C,Y,Z, 18 Hessenberg{X,Beta,Nu,T4}, 19 Householder{X,Beta,Nu,C1,T1,T2,T3,T4}
	qrNames := []string{"InitializeH", "H", "U", "T1", "T2", "T3", "S", "Beta", "Nu", "X", "T", "T4", "C", "Y", "Z", "Hessenberg{X,Beta,Nu,T4}", "Householder{X,Beta,Nu,C1,T1,T2,T3,T4}"}
	register(&entryDef{id: 25, name: "qrAlgorithm.Run", modelled: false,
		masks: func() []int {
			var r []int
			for o := 0; o < 4; o++ {
				pass := 1 << 2
				r = append(r, o, o|pass)
				r = append(r, o|pass|1<<3|((1<<14)-1)<<4) // everything top level, H initialised from a
				r = append(r, o|pass|1<<3|1<<4)           // H, initialised from a
				r = append(r, o|pass|1<<4)                // H pre-filled by the caller
				for k := 5; k <= 17; k++ {
					r = append(r, o|pass|1<<uint(k))
				}
				r = append(r, o|pass|1<<18, o|pass|1<<19)
			}
			return r
		},
		optStr: func(m int) string {
			return join(boolOpts(m, "ComputeU", "Symmetric"), inSituStr(m, 2, qrNames...))
		},
		gen: func(r *common.Rng, mask int) *Spec {
			n := dimOf(r, 1, 4)
			s := newSpec(kindOf(r, 0, 1), n, n)
			if mask&2 != 0 || r.Bool() {
				s.setVals("a", rsym(r, n))
			} else {
				s.setVals("a", rdom(r, n))
			}
			s.setInts("eps", r.Intn(2))
			return s
		},
		build: func(b *bld) {
			n, k := b.s.N, b.s.Kind
			a := b.inMat(k, n, n, "a")
			b.mat("a", "input", a)
			args := []interface{}{qrAlgorithm.ComputeU{Value: b.bit(0)}, qrAlgorithm.Symmetric{Value: b.bit(1)}}
			if b.s.int1("eps", 0) == 1 {
				args = append(args, qrAlgorithm.Epsilon{Value: 1e-14})
			}
			if b.bit(2) {
				is := b.persist(&qrAlgorithm.InSitu{}).(*qrAlgorithm.InSitu)
				is.InitializeH = b.bit(3)
				b.setM(&is.H, b.bit(4), "InSitu.H", n, n)
				if b.selfBuf() {
					is.H = a // opt-in: work in place on the input itself
				}
				if is.H != nil && !is.InitializeH && is.H != a {
					// caller fills H himself
					if r, c := is.H.Dims(); r == n && c == n {
						is.H.Set(mkMat(0, n, n, b.s.vals("a")))
					}
				}
				b.setM(&is.U, b.bit(5), "InSitu.U", n, n)
				b.setS(&is.T1, b.bit(6), "InSitu.T1")
				b.setS(&is.T2, b.bit(7), "InSitu.T2")
				b.setS(&is.T3, b.bit(8), "InSitu.T3")
				b.setS(&is.S, b.bit(9), "InSitu.S")
				b.setS(&is.Beta, b.bit(10), "InSitu.Beta")
				b.setV(&is.Nu, b.bit(11), "InSitu.Nu", 3)
				b.setV(&is.X, b.bit(12), "InSitu.X", 3)
				b.setS(&is.T, b.bit(13), "InSitu.T")
				b.setV(&is.T4, b.bit(14), "InSitu.T4", n)
				b.setS(&is.C, b.bit(15), "InSitu.C")
				b.setS(&is.Y, b.bit(16), "InSitu.Y")
				b.setS(&is.Z, b.bit(17), "InSitu.Z")
				if b.bit(18) {
					h := &is.Hessenberg
					b.setV(&h.X, true, "InSitu.Hessenberg.X", n)
					b.setS(&h.Beta, true, "InSitu.Hessenberg.Beta")
					b.setV(&h.Nu, true, "InSitu.Hessenberg.Nu", n)
					b.setV(&h.T4, true, "InSitu.Hessenberg.T4", n)
				}
				if b.bit(19) {
					h := &is.Householder
					b.setV(&h.X, true, "InSitu.Householder.X", n)
					b.setS(&h.Beta, true, "InSitu.Householder.Beta")
					b.setV(&h.Nu, true, "InSitu.Householder.Nu", n)
					b.setS(&h.C1, true, "InSitu.Householder.C1")
					b.setS(&h.T1, true, "InSitu.Householder.T1")
					b.setS(&h.T2, true, "InSitu.Householder.T2")
					b.setS(&h.T3, true, "InSitu.Householder.T3")
					b.setV(&h.T4, true, "InSitu.Householder.T4", n)
				}
				args = append(args, is)
			}
			args = b.hold(args)
			b.run = func() error { h, u, err := qrAlgorithm.Run(a, args...); b.ret(h, u); return err }
		}})

	// ------------------------------------------------------------ 29 svd.Run
	// bits: 0 ComputeU, 1 ComputeV, 2 InSitu passed, 3..13 A,U,V,Mu,C,S,T1..T5,
	// 14 HouseholderBidiagonalization{X,Nu,C1,T4}
	svdNames := []string{"A", "U", "V", "Mu", "C", "S", "T1", "T2", "T3", "T4", "T5", "HouseholderBidiagonalization{X,Nu,C1,T4}"}
	register(&entryDef{id: 29, name: "svd.Run", modelled: false,
		masks: func() []int {
			r := masksLarge(2, 11)
			for o := 0; o < 4; o++ {
				r = append(r, o|1<<2|1<<14)
			}
			return r
		},
		optStr: func(m int) string {
			return join(boolOpts(m, "ComputeU", "ComputeV"), inSituStr(m, 2, svdNames...))
		},
		gen: func(r *common.Rng, mask int) *Spec {
			m := dimOf(r, 1, 4)
			n := 1 + r.Intn(m)
			s := newSpec(kindOf(r, 0, 1), m, n)
			a := rmat(r, m, n)
			for j := 0; j < n; j++ {
				a[j*n+j] += float64(3 + j)
			}
			s.setVals("a", a)
			s.setInts("eps", r.Intn(2))
			return s
		},
		build: func(b *bld) {
			m, n, k := b.s.N, b.s.M, b.s.Kind
			a := b.inMat(k, m, n, "a")
			b.mat("a", "input", a)
			args := []interface{}{svd.ComputeU{Value: b.bit(0)}, svd.ComputeV{Value: b.bit(1)}}
			if b.s.int1("eps", 0) == 1 {
				args = append(args, svd.Epsilon{Value: 1e-12})
			}
			if b.bit(2) {
				is := b.persist(&svd.InSitu{}).(*svd.InSitu)
				b.setM(&is.A, b.bit(3), "InSitu.A", m, n)
				if b.selfBuf() {
					is.A = a
				}
				b.setM(&is.U, b.bit(4), "InSitu.U", m, m)
				b.setM(&is.V, b.bit(5), "InSitu.V", n, n)
				b.setS(&is.Mu, b.bit(6), "InSitu.Mu")
				b.setS(&is.C, b.bit(7), "InSitu.C")
				b.setS(&is.S, b.bit(8), "InSitu.S")
				b.setS(&is.T1, b.bit(9), "InSitu.T1")
				b.setS(&is.T2, b.bit(10), "InSitu.T2")
				b.setS(&is.T3, b.bit(11), "InSitu.T3")
				b.setS(&is.T4, b.bit(12), "InSitu.T4")
				b.setS(&is.T5, b.bit(13), "InSitu.T5")
				if b.bit(14) {
					h := &is.HouseholderBidiagonalization
					b.setV(&h.X, true, "InSitu.HouseholderBidiagonalization.X", m)
					b.setV(&h.Nu, true, "InSitu.HouseholderBidiagonalization.Nu", m)
					b.setS(&h.C1, true, "InSitu.HouseholderBidiagonalization.C1")
					b.setV(&h.T4, true, "InSitu.HouseholderBidiagonalization.T4", m)
				}
				args = append(args, is)
			}
			args = b.hold(args)
			b.run = func() error { h, u, v, err := svd.Run(a, args...); b.ret(h, u, v); return err }
		}})
}

func intsToBools(v []int, n int) []bool {
	r := make([]bool, n)
	for i := 0; i < n && i < len(v); i++ {
		r[i] = v[i] != 0
	}
	any := false
	for _, x := range r {
		any = any || x
	}
	if !any && n > 0 {
		r[0] = true
	}
	return r
}
