//go:build verif

package entry

import (
	"crypto/sha256"
	"encoding/binary"
	"encoding/json"
	"fmt"
	"math"
	"sort"
	"strings"

	. "github.com/pbenner/autodiff"

	"adharness/common"
)

// Sequences (stream H): several calls of ONE entry point that share a
// caller-owned InSitu struct.  Call 0 gets a fresh struct (empty, or with
// caller-supplied buffers, or with the input itself as work buffer), the later
// calls REUSE it with fresh inputs and other option combinations.  After every
// call
//   F1  every object the caller holds (inputs of all calls so far, option
//       slices, returned objects that do not alias the struct) is compared
//       bit-exactly with its state when the caller obtained it;
//   F2  the storage reachable from the struct (reflection walk) must not
//       meet the storage of any such object ("no retained reference").
// Every call runs under the per-call deadline of guarded(); a sequence whose
// call does not return is cut before that call and counted.

type seqState struct {
	is   interface{} // the persistent InSitu struct (pointer)
	call int
}

// role numbers of coq/C12/CorrH.v
const (
	roleInput    = 0
	roleBuffer   = 1
	roleOutArg   = 2
	roleReturned = 3
	roleAlias    = 4
	roleRetained = 5
)

type seqObj struct {
	Name  string      `json:"name"`
	Role  int         `json:"role"`
	Born  int         `json:"born"`
	IDs   []int       `json:"ids"`
	Snaps [][]float64 `json:"-"`
	Hex   [][]string  `json:"snaps,omitempty"` // only for objects that violate F1
	fp    Footprint
	snap  func() []float64
	keep  interface{}
}

// SeqSpec re-creates a sequence: the specs of its calls (same entry id).
type SeqSpec struct {
	ID    int     `json:"id"`
	Var   int     `json:"var"`
	Calls []*Spec `json:"calls"`
}

// SeqCase is one executed sequence.
type SeqCase struct {
	Entry    string          `json:"entry"`
	ID       int             `json:"id"`
	Var      int             `json:"var"`
	Opts     []string        `json:"opts"`
	Outcomes []string        `json:"outcomes"`
	Msgs     []string        `json:"msgs"`
	Refs     [][]int         `json:"refs"`
	Objs     []seqObj        `json:"objs"`
	Spec     json.RawMessage `json:"spec"`
	Changed  []string        `json:"changed"`  // F1 violations: "name@call"
	Retained []string        `json:"retained"` // F2 violations: "name@call"
	Aliases  []string        `json:"aliases"`  // returned objects that alias the struct
	Timeout  bool            `json:"timeout"`
	Planned  int             `json:"planned"`
}

func roleOf(s string) int {
	switch s {
	case "insitu":
		return roleBuffer
	case "output-arg":
		return roleOutArg
	case "retained":
		return roleRetained
	}
	return roleInput
}

func protectedRole(r int) bool { return r == roleInput || r == roleReturned || r == roleRetained }
func noRetainRole(r int) bool  { return r == roleInput || r == roleReturned }

// snapshot of a returned object
func snapAny(x interface{}) func() []float64 {
	switch v := x.(type) {
	case ConstMatrix:
		return func() []float64 { return snapMatrix(nil, v) }
	case ConstVector:
		return func() []float64 { return snapVector(nil, v) }
	case ConstScalar:
		return func() []float64 { return snapScalar(nil, v) }
	}
	return nil
}

// RunSeq executes a sequence.
func RunSeq(sp *SeqSpec) (SeqCase, error) {
	e := entryByID[sp.ID]
	if e == nil {
		return SeqCase{}, fmt.Errorf("unknown entry id %d", sp.ID)
	}
	raw, _ := json.Marshal(sp)
	c := SeqCase{Entry: e.name, ID: e.id, Var: sp.Var, Spec: raw, Planned: len(sp.Calls)}
	st := &seqState{}
	var objs []*seqObj
	var refFps []Footprint
	var keep []interface{}
	for k, cs := range sp.Calls {
		cs.ID = e.id
		st.call = k
		b := &bld{s: cs, seq: st}
		var berr error
		func() {
			defer func() {
				if r := recover(); r != nil {
					berr = fmt.Errorf("building inputs of %s (call %d) failed: %v", e.name, k, r)
				}
			}()
			e.build(b)
		}()
		if berr != nil || b.run == nil {
			if k == 0 {
				return SeqCase{}, berr
			}
			c.Planned = k
			break
		}
		// what the struct references before the call: objects the caller placed there himself
		var before Footprint
		if st.is != nil {
			before = footprintOf(st.is)
		}
		first := len(objs)
		for _, t := range b.objs {
			o := &seqObj{Name: fmt.Sprintf("%s#%d", t.name, k), Role: roleOf(t.role), Born: k, snap: t.snap, keep: t.ref}
			if t.ref != nil {
				o.fp = footprintOf(t.ref)
			}
			if o.Role == roleInput && len(o.fp) > 0 && o.fp.overlaps(before) {
				o.Role = roleBuffer // the caller passed this object as work buffer himself
			}
			o.Snaps = append(o.Snaps, t.snap())
			objs = append(objs, o)
		}
		_ = first
		outcome, msg := guarded(b.run)
		if outcome == "timeout" {
			// the call is still running on the struct and its inputs: cut the sequence before it
			timeouts++
			timeoutSpecs = append(timeoutSpecs, string(raw))
			c.Timeout = true
			objs = objs[:first]
			break
		}
		c.Outcomes = append(c.Outcomes, outcome)
		c.Msgs = append(c.Msgs, msg)
		c.Opts = append(c.Opts, e.optStr(cs.Mask))
		// after the call
		var after Footprint
		if st.is != nil {
			after = footprintOf(st.is)
			keep = append(keep, st.is)
		}
		refFps = append(refFps, after)
		for _, o := range objs {
			if o.Born <= k {
				o.Snaps = append(o.Snaps, o.snap())
			}
		}
		// returned objects
		for i, x := range b.rets {
			if isNil(x) {
				continue
			}
			sn := snapAny(x)
			if sn == nil {
				continue
			}
			o := &seqObj{Name: fmt.Sprintf("ret%d#%d", i, k), Role: roleReturned, Born: k + 1, snap: sn, keep: x, fp: footprintOf(x)}
			if o.fp.overlaps(after) {
				o.Role = roleAlias
				c.Aliases = append(c.Aliases, fmt.Sprintf("%s ret%d", e.name, i))
			}
			o.Snaps = append(o.Snaps, sn())
			objs = append(objs, o)
		}
	}
	if len(refFps) == 0 {
		return SeqCase{}, fmt.Errorf("%s: no call of the sequence completed", e.name)
	}
	_ = keep
	finishSeq(&c, objs, refFps)
	return c, nil
}

// finishSeq: the Go-side oracle (F1, F2) and the storage ids of the report.
func finishSeq(c *SeqCase, objs []*seqObj, refFps []Footprint) {
	n := len(refFps)
	// drop objects born after the last completed call (cannot happen except through the cut above)
	var live []*seqObj
	for _, o := range objs {
		if o.Born <= n {
			live = append(live, o)
		}
	}
	objs = live
	// the Go-side oracle (the decision is hcheck in Coq on the same data)
	for _, o := range objs {
		if protectedRole(o.Role) {
			for j := 1; j < len(o.Snaps); j++ {
				if !sameBits(o.Snaps[0], o.Snaps[j]) {
					c.Changed = append(c.Changed, fmt.Sprintf("%s@%d", o.Name, o.Born+j-1))
					o.Hex = [][]string{hexList(o.Snaps[0]), hexList(o.Snaps[j])}
					break
				}
			}
		}
		if noRetainRole(o.Role) {
			from := o.Born
			if o.Role == roleReturned {
				from = o.Born - 1
			}
			for k := from; k < n; k++ {
				if k >= 0 && o.fp.overlaps(refFps[k]) {
					c.Retained = append(c.Retained, fmt.Sprintf("%s@%d", o.Name, k))
					break
				}
			}
		}
	}
	// storage ids: connected components of overlapping address ranges
	fps := make([]Footprint, 0, len(objs)+n)
	for _, o := range objs {
		fps = append(fps, o.fp)
	}
	fps = append(fps, refFps...)
	lab := components(fps)
	owners := map[int]map[int]bool{}
	for f, ls := range lab {
		for _, l := range ls {
			if owners[l] == nil {
				owners[l] = map[int]bool{}
			}
			owners[l][f] = true
		}
	}
	inObj := map[int]bool{}
	ren := map[int]int{}
	id := func(l int) int {
		if _, ok := ren[l]; !ok {
			ren[l] = len(ren)
		}
		return ren[l]
	}
	for f, o := range objs {
		seen := map[int]bool{}
		private := false
		for _, l := range lab[f] {
			if seen[l] {
				continue
			}
			seen[l] = true
			inObj[l] = true
			if len(owners[l]) > 1 {
				o.IDs = append(o.IDs, id(l))
			} else if !private {
				private = true
				o.IDs = append(o.IDs, id(l))
			}
		}
	}
	for k := 0; k < n; k++ {
		seen := map[int]bool{}
		var r []int
		for _, l := range lab[len(objs)+k] {
			if seen[l] || !inObj[l] {
				continue
			}
			seen[l] = true
			r = append(r, id(l))
		}
		sort.Ints(r)
		c.Refs = append(c.Refs, r)
	}
	for _, o := range objs {
		c.Objs = append(c.Objs, *o)
	}
}

// digest of a snapshot: length and 2 x 52 bits of the SHA-256 of the bit patterns
func digest(xs []float64) []float64 {
	h := sha256.New()
	var buf [8]byte
	for _, x := range xs {
		binary.LittleEndian.PutUint64(buf[:], math.Float64bits(x))
		h.Write(buf[:])
	}
	s := h.Sum(nil)
	a := binary.LittleEndian.Uint64(s[0:8]) >> 12
	b := binary.LittleEndian.Uint64(s[8:16]) >> 12
	return []float64{float64(len(xs)), float64(a), float64(b)}
}

// Coq prints  mkH <id> <var> [refs...] [mkHO role born [ids] [snaps...]; ...]
func (c SeqCase) Coq() string {
	var sb strings.Builder
	fmt.Fprintf(&sb, "mkH %d %d [", c.ID, c.Var)
	for k, r := range c.Refs {
		if k > 0 {
			sb.WriteString("; ")
		}
		sb.WriteString(natList(r))
	}
	sb.WriteString("] [")
	for i, o := range c.Objs {
		if i > 0 {
			sb.WriteString(";\n  ")
		}
		fmt.Fprintf(&sb, "mkHO %d %d %s [", o.Role, o.Born, natList(o.IDs))
		if protectedRole(o.Role) {
			for j, s := range o.Snaps {
				if j > 0 {
					sb.WriteString("; ")
				}
				sb.WriteString(common.FList(digest(s)))
			}
		}
		sb.WriteString("]")
	}
	sb.WriteString("]")
	return sb.String()
}

func natList(xs []int) string {
	s := make([]string, len(xs))
	for i, x := range xs {
		s[i] = fmt.Sprint(x)
	}
	return "[" + strings.Join(s, "; ") + "]"
}

// Bad reports whether the Go-side oracle found a violation.
func (c SeqCase) Bad() bool { return len(c.Changed) > 0 || len(c.Retained) > 0 }

// ---------------------------------------------------------------- generation

// seqDef: which bits of an entry's option mask say "InSitu passed" and which
// are per-call options.
type seqDef struct {
	id      int
	isBit   int
	optBits []int
	self    bool  // the entry supports the input itself as work buffer (H / A)
	optVals []int // explicit list of per-call option settings (overrides optBits)
	skip    func(mask int) bool
}

var seqDefs = []seqDef{
	{id: 3, isBit: 1, optBits: []int{0}},
	{id: 7, isBit: 2, optBits: []int{0, 1}},
	{id: 8, isBit: 2, optBits: []int{0, 1}},
	{id: 9, isBit: 2, optBits: []int{0, 1}},
	{id: 13, isBit: 0},
	{id: 14, isBit: 2, optBits: []int{0, 1}, self: true},
	{id: 16, isBit: 3, optBits: []int{0, 1}},
	{id: 17, isBit: 2, optBits: []int{0}},
	{id: 19, isBit: 3, optBits: []int{0, 1, 2}, optVals: []int{0, 1, 2, 4, 5}},
	{id: 22, isBit: 4, optVals: []int{0, 1 << 2, 2 << 2}},
	{id: 23, isBit: 4, optVals: []int{0, 1 << 2, 2 << 2}},
	{id: 24, isBit: 4, optVals: []int{0, 1 << 2, 2 << 2}},
	{id: 25, isBit: 2, optBits: []int{0, 1, 3}, self: true},
	{id: 28, isBit: 6, optVals: []int{0, 1, 2, 1 << 2}, skip: func(m int) bool { return (m>>2)&7 >= 4 }},
	{id: 29, isBit: 2, optBits: []int{0, 1}, self: true},
}

func (d *seqDef) opts() []int {
	if d.optVals != nil {
		return d.optVals
	}
	r := []int{}
	for s := 0; s < 1<<uint(len(d.optBits)); s++ {
		m := 0
		for i, b := range d.optBits {
			if s&(1<<uint(i)) != 0 {
				m |= 1 << uint(b)
			}
		}
		r = append(r, m)
	}
	return r
}

// SeqEntryNames lists the entry points run as sequences.
func SeqEntryNames() []string {
	var r []string
	for _, d := range seqDefs {
		r = append(r, entryByID[d.id].name)
	}
	return r
}

// first-call masks of an entry that pass an InSitu struct
func (d *seqDef) firstMasks() []int {
	var r []int
	for _, m := range entryByID[d.id].masks() {
		if m&(1<<uint(d.isBit)) != 0 && (d.skip == nil || !d.skip(m)) {
			r = append(r, m)
		}
	}
	return r
}

// genSeq draws the call specs: all calls have the dimension and container
// kind of the first one (as newton.go's reuse of its QR struct); with
// probability 1/6 the last call has another dimension (the reused buffers no
// longer fit: the call must fail or reallocate, never write an old input).
func genSeq(d *seqDef, r *common.Rng, v int, masks []int, selfbuf bool) *SeqSpec {
	e := entryByID[d.id]
	sp := &SeqSpec{ID: d.id, Var: v}
	var n0, m0, k0 = 0, 0, -1
	for k, m := range masks {
		var s *Spec
		if k == 0 {
			s = e.gen(r.Split(), m)
			n0, m0, k0 = s.N, s.M, s.Kind
		} else {
			dim := n0
			if k == len(masks)-1 && r.Intn(6) == 0 {
				dim = 0
			}
			for try := 0; try < 12; try++ {
				s = genLike(e, r.Split(), m, dim, k0)
				if s != nil && (dim == 0 || (s.N == n0 && s.M == m0)) {
					break
				}
			}
			if s == nil {
				s = e.gen(r.Split(), m)
			}
		}
		s.ID = e.id
		s.Mask = m
		touchSparse(s, r)
		if k == 0 && selfbuf {
			s.setInts("selfbuf", 1)
		}
		sp.Calls = append(sp.Calls, s)
	}
	return sp
}

func genLike(e *entryDef, r *common.Rng, mask, n, kind int) (s *Spec) {
	defer func() {
		forcedDim, forcedKind = 0, -1
		if recover() != nil {
			s = nil
		}
	}()
	forcedDim, forcedKind = n, kind
	return e.gen(r, mask)
}

// GenerateSeqs: the DIRECTED part walks, for every entry point with an InSitu
// struct, through all ordered pairs (options of call 0, options of call 1) on
// an initially EMPTY struct (the callee stores what it allocates in the
// caller's struct), third call with rng-chosen options; then `extra` sequences
// with caller-supplied buffers / the input itself as buffer and rng-chosen
// options.
func GenerateSeqs(rng *common.Rng, extra int) []SeqCase {
	var out []SeqCase
	run := func(sp *SeqSpec) {
		if c, err := RunSeq(sp); err == nil {
			out = append(out, c)
		}
	}
	v := 0
	for i := range seqDefs {
		d := &seqDefs[i]
		os := d.opts()
		pass := 1 << uint(d.isBit)
		for _, o0 := range os {
			for _, o1 := range os {
				o2 := os[rng.Intn(len(os))]
				run(genSeq(d, rng.Split(), v, []int{pass | o0, pass | o1, pass | o2}, false))
				v++
			}
		}
	}
	for i := 0; i < extra; i++ {
		d := &seqDefs[i%len(seqDefs)]
		os := d.opts()
		pass := 1 << uint(d.isBit)
		fm := d.firstMasks()
		m0 := fm[rng.Intn(len(fm))]
		self := d.self && rng.Intn(3) == 0
		ncall := 2 + rng.Intn(3)
		ms := []int{m0}
		for k := 1; k < ncall; k++ {
			ms = append(ms, pass|os[rng.Intn(len(os))])
		}
		run(genSeq(d, rng.Split(), 1000+i, ms, self))
	}
	return out
}

// ReplaySeq re-runs exactly the sequence described by raw.
func ReplaySeq(raw json.RawMessage) (SeqCase, error) {
	var sp SeqSpec
	if err := json.Unmarshal(raw, &sp); err != nil {
		return SeqCase{}, err
	}
	return RunSeq(&sp)
}

// ShrinkSeq: fewest calls that still violate (drop trailing calls, then the
// middle call of a three-call sequence).
func ShrinkSeq(c SeqCase) SeqCase {
	var sp SeqSpec
	if json.Unmarshal(c.Spec, &sp) != nil {
		return c
	}
	best := c
	try := func(calls []*Spec) bool {
		s2 := SeqSpec{ID: sp.ID, Var: sp.Var}
		for _, x := range calls {
			s2.Calls = append(s2.Calls, x.clone())
		}
		nc, err := RunSeq(&s2)
		if err == nil && nc.Bad() {
			best = nc
			sp = s2
			return true
		}
		return false
	}
	for len(sp.Calls) > 1 && try(sp.Calls[:len(sp.Calls)-1]) {
	}
	if len(sp.Calls) == 3 {
		try([]*Spec{sp.Calls[0], sp.Calls[2]})
	}
	return best
}
