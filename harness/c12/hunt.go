// Property-level oracles on the IMPLEMENTATION (independent of the Coq models), search and shrinking.
//   S: after every operation only the registers of the receiver (its vector's elements, the new
//      objects) may differ bit-wise from before; a Clone / As-conversion consists of new objects only
//      and observes like its source.
//   M: only the storage of the receiver may change; a Clone has a new storage with equal content
//      and header; mutating every cell of the copy leaves the source as it was and vice versa.
//   V: Clone of a sparse vector: writing every position of one side leaves the other's reads unchanged.
//   E: every object with role "input" is bit-identical after the call.
package main

import (
	"os"
	"encoding/json"
	"fmt"
	"math"
	"path/filepath"
	"sort"
	"strings"

	"adharness/c12/entry"
	. "adharness/common"

	ad "github.com/pbenner/autodiff"
)

// ---------------------------------------------------------------- S oracle
func (w *sworld) allowed(o *SOp, before int) map[int]bool {
	a := map[int]bool{}
	switch o.K {
	case "Ins":
		a[o.C] = true
	case "Vec2", "VecS", "VSet", "VReset":
		for _, k := range w.ids[o.R] {
			a[k] = true
		}
	}
	for k := before; k < len(w.regs); k++ {
		a[k] = true
	}
	return a
}

func obsEq(a, b []float64) bool {
	if len(a) != len(b) {
		return false
	}
	for i := range a {
		if !feq(a[i], b[i]) {
			return false
		}
	}
	return true
}

// oracleS runs the operations and returns the first violation of frame / clone freshness
func oracleS(ops []SOp) (string, int) {
	w := newSWorld()
	for i := range ops {
		o := &ops[i]
		before := len(w.regs)
		nvecs := len(w.vecs)
		var srcObs [][]float64
		if o.K == "Clone" || o.K == "Conv" {
			if o.T >= len(w.vecs) {
				return "", -1
			}
			for _, k := range w.ids[o.T] {
				srcObs = append(srcObs, obsReg(w.regs[k]))
			}
		}
		if !validS(w, o) {
			return "", -1
		}
		ob := w.step(o)
		if ob.Kind == 1 {
			return "", -1
		}
		al := w.allowed(o, before)
		for k := range ob.Regs {
			if !al[k] {
				return fmt.Sprintf("frame: %s changed register %d which is neither its receiver nor a new object (slots %v)", o.K+o.Ins+o.Op, k, ob.Slots), i
			}
		}
		// structural: no two live scalars share the backing array of Derivative, Hessian or a Hessian row
		if msg := w.sharing(); msg != "" {
			return fmt.Sprintf("%s after %s", msg, o.K+o.Ins+o.Op), i
		}
		for t := range ob.Vecs {
			if t < nvecs {
				return fmt.Sprintf("frame: %s changed the element objects of existing vector %d", o.K, t), i
			}
		}
		if o.K == "Clone" || o.K == "Conv" {
			ids := w.ids[len(w.vecs)-1]
			for j, k := range ids {
				if k < before {
					return fmt.Sprintf("clone: element %d of the copy is the existing object %d (shared)", j, k), i
				}
				got := obsReg(w.regs[k])
				want := srcObs[j]
				if o.K == "Conv" && o.Kind == K32 {
					for x := range want {
						want[x] = float64(float32(want[x]))
					}
				}
				if !obsEq(got, want) {
					return fmt.Sprintf("clone: element %d of the copy observes differently from the source", j), i
				}
			}
		}
	}
	return "", -1
}

// validS: the operation refers to existing handles / registers (needed while shrinking)
func validS(w *sworld, o *SOp) bool {
	nv, nr := len(w.vecs), len(w.regs)
	okO := func(x Opd) bool { return x.Reg < nr }
	switch o.K {
	case "New":
		return true
	case "Clone", "Conv":
		return o.T < nv
	case "Slice":
		return o.T < nv && o.I <= o.J && o.J <= len(w.ids[o.T])
	case "Append":
		return o.T < nv && o.U < nv && kindOfVec(w.vecs[o.T]) == kindOfVec(w.vecs[o.U])
	case "Vec2":
		return o.R < nv && o.T < nv && o.U < nv
	case "VecS":
		return o.R < nv && o.T < nv && okO(o.B)
	case "VSet":
		return o.R < nv && o.T < nv
	case "VReset":
		return o.R < nv
	case "Ins":
		if o.C >= nr || !okO(o.A) || !okO(o.B) {
			return false
		}
		for _, x := range o.Xs {
			if x.Reg < 0 || x.Reg >= nr {
				return false
			}
		}
		for _, x := range o.Ys {
			if x.Reg < 0 || x.Reg >= nr {
				return false
			}
		}
		if (o.Ins == "Vmean" || o.Ins == "Mtrace" || o.Ins == "VdotV") && len(o.Xs) == 0 {
			return false
		}
		if o.Ins == "VdotV" && len(o.Xs) != len(o.Ys) {
			return false
		}
		return true
	}
	return false
}

func shrinkS(ops []SOp) []SOp {
	msg, at := oracleS(ops)
	if msg == "" {
		return ops
	}
	ops = ops[:at+1]
	for changed := true; changed; {
		changed = false
		for i := len(ops) - 2; i >= 0; i-- {
			cand := append(append([]SOp{}, ops[:i]...), ops[i+1:]...)
			// dropping an allocating op shifts ids: only try when the oracle still fails
			if m, a := oracleS(cand); m != "" {
				ops = cand[:a+1]
				changed = true
				break
			}
		}
	}
	return ops
}

// ---------------------------------------------------------------- M oracle
func oracleM(typ int, ops []MOp) (string, int) {
	w := newMWorld(typ)
	for i := range ops {
		o := &ops[i]
		if !validM(w, o) {
			return "", -1
		}
		nst := len(w.keep)
		recv := -1
		switch o.K {
		case "SetAt", "Reset", "SetIdentity", "Set", "Swap", "SwapRows", "SwapCols":
			recv = w.matloc[o.T]
		case "Ew", "MdotM":
			recv = w.matloc[o.R]
		}
		var srcElems []float64
		var srcHdr []int64
		if o.K == "Clone" {
			srcElems = elemsM(w.mats[o.T])
			srcHdr = hdrOf(w.mats[o.T])
		}
		ob := w.step(o)
		if ob.Kind == 1 {
			return "", -1
		}
		for l := range ob.Stores {
			if l != recv && l < nst {
				return fmt.Sprintf("frame: %s changed storage %d which is not its receiver's", o.K, l), i
			}
		}
		if o.K == "Clone" {
			c := w.mats[len(w.mats)-1]
			if w.matloc[len(w.mats)-1] < nst {
				return "clone: the copy shares the storage of an existing matrix", i
			}
			if !int64sEq(hdrOf(c), srcHdr) {
				return "clone: dimensions / view shape of the copy differ from the source", i
			}
			if !obsEq(elemsM(c), srcElems) {
				return "clone: elements of the copy differ from the source", i
			}
			// mutate every reachable cell of the copy, diff the source; then the other way round
			src := w.mats[o.T]
			rows, cols := c.Dims()
			for a := 0; a < rows; a++ {
				for b := 0; b < cols; b++ {
					old := c.ConstAt(a, b).GetFloat64()
					c.At(a, b).SetFloat64(old + 77)
					if !obsEq(elemsM(src), srcElems) {
						return fmt.Sprintf("clone: writing element (%d,%d) of the copy is visible through the source", a, b), i
					}
					c.At(a, b).SetFloat64(old)
				}
			}
			for a := 0; a < rows; a++ {
				for b := 0; b < cols; b++ {
					old := src.ConstAt(a, b).GetFloat64()
					src.At(a, b).SetFloat64(old + 77)
					if !obsEq(elemsM(c), srcElems) {
						return fmt.Sprintf("clone: writing element (%d,%d) of the source is visible through the copy", a, b), i
					}
					src.At(a, b).SetFloat64(old)
				}
			}
		}
	}
	return "", -1
}
func elemsM(m ad.ConstMatrix) []float64 {
	rows, cols := m.Dims()
	r := []float64{float64(rows), float64(cols)}
	for a := 0; a < rows; a++ {
		for b := 0; b < cols; b++ {
			r = append(r, m.ConstAt(a, b).GetFloat64())
		}
	}
	return r
}
func validM(w *mworld, o *MOp) bool {
	n := len(w.mats)
	in := func(t int) bool { return t >= 0 && t < n }
	switch o.K {
	case "New":
		return len(o.Vals) == o.Rows*o.Cols && o.Rows > 0 && o.Cols > 0
	case "Clone", "Reset", "SetIdentity":
		return in(o.T)
	case "View":
		if !in(o.T) {
			return false
		}
		if o.View == "T" {
			return true
		}
		r, c := w.mats[o.T].Dims()
		return 0 <= o.A[0] && o.A[0] <= o.A[1] && o.A[1] <= r && 0 <= o.A[2] && o.A[2] <= o.A[3] && o.A[3] <= c
	case "SetAt":
		if !in(o.T) {
			return false
		}
		r, c := w.mats[o.T].Dims()
		return o.I < r && o.J < c
	case "Set":
		return in(o.T) && in(o.U)
	case "Ew", "MdotM":
		return in(o.R) && in(o.T) && in(o.U)
	case "Swap":
		if !in(o.T) {
			return false
		}
		r, c := w.mats[o.T].Dims()
		return o.A[0] < r && o.A[1] < c && o.A[2] < r && o.A[3] < c
	case "SwapRows", "SwapCols":
		if !in(o.T) {
			return false
		}
		r, c := w.mats[o.T].Dims()
		return r == c && o.I < r && o.J < r
	}
	return false
}
func shrinkM(typ int, ops []MOp) []MOp {
	msg, at := oracleM(typ, ops)
	if msg == "" {
		return ops
	}
	ops = ops[:at+1]
	for changed := true; changed; {
		changed = false
		for i := len(ops) - 2; i >= 0; i-- {
			cand := append(append([]MOp{}, ops[:i]...), ops[i+1:]...)
			if m, a := oracleM(typ, cand); m != "" {
				ops = cand[:a+1]
				changed = true
				break
			}
		}
	}
	return ops
}

// ---------------------------------------------------------------- V oracle
// Clone of a sparse vector, then write every position of one side and compare the reads of the other.
func readsOf(v ad.ConstVector) []float64 {
	r := []float64{float64(v.Dim())}
	for i := 0; i < v.Dim(); i++ {
		r = append(r, v.ConstAt(i).GetFloat64())
	}
	return r
}
func oracleV(tn string, ops []Op) (string, int) {
	w := &World{Type: tn}
	for i, o := range ops {
		if o.Op != "New" && (o.T < 0 || o.T >= len(w.V)) {
			return "", -1
		}
		if (o.Op == "SetV" || o.Op == "SETV" || o.Op == "AppendV" || o.Op == "Joint") && o.U >= len(w.V) {
			return "", -1
		}
		var others [][]float64
		recv := o.T
		for _, v := range w.V {
			others = append(others, readsOf(v))
		}
		k, _ := w.execOne(o)
		if k == K_PANIC {
			return "", -1
		}
		mutates := map[string]bool{"SetAt": true, "SetV": true, "SETV": true, "Reset": true, "ReverseOrder": true, "Swap": true,
			"Permute": true, "Sort": true, "MapMul": true, "MapAdd": true, "MapSetMul": true}
		for t := range others {
			if t == recv && mutates[o.Op] {
				continue
			}
			if !obsEq(readsOf(w.V[t]), others[t]) {
				// sharing through Slice / AppendVector is the known finding C11-SLICEWT, not a copy
				return fmt.Sprintf("readonly: %s on vector %d changed what vector %d reads", o.Op, recv, t), i
			}
		}
		if o.Op == "Clone" {
			src, c := w.V[o.T], w.V[len(w.V)-1]
			want := readsOf(src)
			if !obsEq(readsOf(c), want) {
				return "clone: the copy reads differently from the source", i
			}
			for p := 0; p < c.Dim(); p++ {
				old := c.ConstAt(p).GetFloat64()
				c.At(p).SetFloat64(old + 5)
				if !obsEq(readsOf(src), want) {
					return fmt.Sprintf("clone: writing position %d of the copy is visible through the source", p), i
				}
				c.At(p).SetFloat64(old)
			}
			for p := 0; p < src.Dim(); p++ {
				old := src.ConstAt(p).GetFloat64()
				src.At(p).SetFloat64(old + 5)
				if !obsEq(readsOf(c), want) {
					return fmt.Sprintf("clone: writing position %d of the source is visible through the copy", p), i
				}
				src.At(p).SetFloat64(old)
			}
			return "", -1 // the probing created entries: stop this history here
		}
	}
	return "", -1
}

// ---------------------------------------------------------------- E stream
const hdrE = "From Coq Require Import ZArith List Bool Floats.\nFrom ADV Require Import C12.Corr.\nImport ListNotations.\n"

func runEntryStream(o Opts, r *Rng, n int) {
	w := NewCaseWriter(o.Out, "ecases", hdrE, "emism", 40)
	w.Type = "ecase"
	w.Rule = "E: an algorithm entry point or distribution constructor called with an option combination; non-trivial iff the call returned without panic and at least one input-role object is non-empty"
	// round 7: the directed degenerate inputs (entry/edge.go) run first on every run
	cases := entry.EdgeCases(r.Split())
	w.Extra["directed_degenerate_cases"] = len(cases)
	for _, c := range cases {
		w.Count("E:edge:" + c.Entry)
	}
	// round 7: the constructors with a flag (entry/ctor.go), every (flag, argument kind) combination on every run
	cc := entry.CtorCases(r.Split())
	w.Extra["flagged_constructor_cases"] = len(cc)
	cases = append(cases, cc...)
	cases = append(cases, entry.Generate(r, n)...)
	w.Extra["entry_points"] = entry.EntryNames()
	w.Extra["option_combinations_total"] = entry.NumCombos()
	nrep := 0
	for _, c := range cases {
		w.Count("E:" + c.Entry)
		w.Count("E:outcome:" + c.Outcome)
		if c.Modelled {
			w.Count("E:modelled")
		} else {
			w.Count("E:unmodelled(supporting runtime check)")
		}
		if len(c.RepChanged) > 0 {
			nrep++
			w.Count("E:representation-only change of an input (sparse skip()/At insertions)")
		}
		js, _ := c.ToJSON()
		w.Add(c.Coq(), map[string]interface{}{"stream": "E", "entry": c.Entry, "opts": c.Opts, "outcome": c.Outcome,
			"changed": c.Changed, "spec": c.Spec, "full": json.RawMessage(js)},
			fmt.Sprintf("%s|%s", c.Entry, c.Opts), c.Outcome != "panic")
	}
	if err := w.Flush(); err != nil {
		Die("flush: %v", err)
	}
	runCtorStream(o, cases)
}

// ---------------------------------------------------------------- stream K (round 7): ModelCtor against the flagged constructors
const hdrK = "From Coq Require Import ZArith List Bool Floats.\nFrom ADV Require Import C12.ModelCtor C12.CorrK.\nImport ListNotations.\n"

// runCtorStream turns the stream-E cases of the constructors with a flag (ids 170..179) and of bfgs.Run with the
// option-carried Hessian{B0} into cases for CorrK.kcheck (the model predicts the ownership structure).
func runCtorStream(o Opts, cases []entry.Case) {
	w := NewCaseWriter(o.Out, "kcases", hdrK, "kmism", 40)
	w.Type = "kcase"
	w.Rule = "K: a constructor with a flag (both values, every argument kind) or bfgs.Run with Hessian{B0}; non-trivial iff the call returned a result (constructors) / the option was present (bfgs)"
	for _, c := range cases {
		obj := map[string]*entry.Obj{}
		for i := range c.Objs {
			obj[c.Objs[i].Name] = &c.Objs[i]
		}
		var term string
		nontrivial := false
		switch {
		case c.ID >= 170 && c.ID <= 179:
			a := obj["arg"]
			if a == nil {
				continue
			}
			r1, a2, sh := obj["result-after-writing-arg"], obj["arg-after-writing-result"], obj["shared-storage"]
			if r1 == nil || a2 == nil || sh == nil {
				// the constructor returned an error: only the argument is compared
				term = fmt.Sprintf("mkK %d%%nat %s false %s %s [] [] [] [] false", c.ID, B(c.OptMask&1 == 1), FList(a.Before), FList(a.After))
			} else {
				nontrivial = true
				term = fmt.Sprintf("mkK %d%%nat %s true %s %s %s %s %s %s %s", c.ID, B(c.OptMask&1 == 1), FList(a.Before), FList(a.After),
					FList(r1.Before), FList(r1.After), FList(a2.Before), FList(a2.After), B(len(sh.After) > 0 && sh.After[0] != 0))
			}
		case c.ID == 4 && obj["Hessian.Value"] != nil:
			a := obj["Hessian.Value"]
			nontrivial = true
			// flag: the call failed (singular / mismatching B0)
			term = fmt.Sprintf("mkK 4%%nat %s false %s %s [] [] [] [] false", B(c.Outcome != "ok"), FList(a.Before), FList(a.After))
		default:
			continue
		}
		w.Count("K:" + c.Entry)
		w.Count("K:outcome:" + c.Outcome)
		js, _ := c.ToJSON()
		w.Add(term, map[string]interface{}{"stream": "E", "entry": c.Entry, "opts": c.Opts, "outcome": c.Outcome,
			"changed": c.Changed, "spec": c.Spec, "full": json.RawMessage(js)}, fmt.Sprintf("%s|%s|%s", c.Entry, c.Opts, c.Outcome), nontrivial)
	}
	if err := w.Flush(); err != nil {
		Die("flush: %v", err)
	}
}

// ---------------------------------------------------------------- stream H: sequences sharing an InSitu struct
const hdrH = "From Coq Require Import ZArith List Bool Floats.\nFrom ADV Require Import C12.CorrH.\nImport ListNotations.\n"

func seqRaw(c entry.SeqCase) map[string]interface{} {
	return map[string]interface{}{"stream": "H", "entry": c.Entry, "opts": c.Opts, "outcomes": c.Outcomes, "msgs": c.Msgs,
		"changed": c.Changed, "retained": c.Retained, "aliases": c.Aliases, "spec": c.Spec}
}

func runSeqStream(o Opts, r *Rng, extra int) {
	w := NewCaseWriter(o.Out, "hcases", hdrH, "hmism", 40)
	w.Type = "hcase"
	w.Rule = "H: 2-4 calls of one entry point sharing a caller-owned InSitu struct, fresh inputs per call; non-trivial iff at least two calls completed and the struct reached storage after the first"
	// the committed corpus (past failures / seeded regressions) runs first
	var cases []entry.SeqCase
	ncorpus := 0
	if b, err := os.ReadFile(filepath.Join("corpus", "C12", "seq_corpus.json")); err == nil {
		var cs []struct {
			Spec json.RawMessage `json:"spec"`
		}
		if json.Unmarshal(b, &cs) == nil {
			for _, x := range cs {
				if c, err := entry.ReplaySeqAny(x.Spec); err == nil {
					cases = append(cases, c)
					ncorpus++
				}
			}
		}
	}
	w.Extra["corpus_sequences_run"] = ncorpus
	cases = append(cases, entry.GenerateSeqs(r, extra)...)
	cases = append(cases, entry.GenerateStatSeqs(r.Split(), extra/2)...)
	w.Extra["sequence_entry_points"] = entry.SeqEntryNames()
	w.Extra["statistics_sequences"] = entry.StatSeqNames()
	aliases := map[string]bool{}
	for _, c := range cases {
		w.Count("H:" + c.Entry)
		w.Count(fmt.Sprintf("H:calls=%d", len(c.Refs)))
		for _, oc := range c.Outcomes {
			w.Count("H:outcome:" + oc)
		}
		if c.Timeout {
			w.Count("H:cut-by-deadline")
		}
		for _, a := range c.Aliases {
			aliases[a] = true
		}
		for _, ob := range c.Objs {
			w.Count(fmt.Sprintf("H:object-role-%d", ob.Role))
		}
		key := c.Entry + "|" + strings.Join(c.Opts, "|")
		w.Add(c.Coq(), seqRaw(c), key, len(c.Refs) >= 2)
	}
	al := []string{}
	for a := range aliases {
		al = append(al, a)
	}
	sortStrings(al)
	w.Extra["returned_objects_that_alias_the_callers_InSitu_or_estimator"] = al
	w.Extra["calls_cut_by_deadline"] = entry.Timeouts()
	if err := w.Flush(); err != nil {
		Die("flush: %v", err)
	}
}

// ---------------------------------------------------------------- stream O: the caller's option list
const hdrO = "From Coq Require Import ZArith List Bool Floats.\nFrom ADV Require Import C12.CorrO.\nImport ListNotations.\n"

func optRaw(c entry.OptCase) map[string]interface{} {
	js, _ := json.Marshal(c)
	return map[string]interface{}{"stream": "O", "entry": c.Entry, "opts": c.Opts, "changed": c.Changed, "spec": c.Spec, "full": json.RawMessage(js)}
}

func runOptStream(o Opts, r *Rng, n int) {
	w := NewCaseWriter(o.Out, "ocases", hdrO, "omism", 60)
	w.Type = "ocase"
	w.Rule = "O: an algorithm entry point called with its options in a caller-held slice with 1-3 spare cells (sentinels) behind len, once more with a literal list, and (plain-value options) a second time with the same slice; non-trivial iff the call returned without panic and the list is non-empty"
	// the committed corpus (witnesses of the mutation trials: the inputs on which seeded in-place filters / appends /
	// stores showed) runs first
	var cases []entry.OptCase
	ncorpus := 0
	if b, err := os.ReadFile(filepath.Join("corpus", "C12", "opt_corpus.json")); err == nil {
		var cs []struct {
			Spec json.RawMessage `json:"spec"`
		}
		if json.Unmarshal(b, &cs) == nil {
			for _, x := range cs {
				if c, err := entry.ReplayOpts(x.Spec); err == nil {
					cases = append(cases, c)
					ncorpus++
				}
			}
		}
	}
	w.Extra["corpus_option_lists_run"] = ncorpus
	cases = append(cases, entry.GenerateOpts(r, n)...)
	w.Extra["option_list_entry_points"] = entry.OptEntryNames()
	npure := 0
	for _, c := range cases {
		w.Count("O:" + c.Entry)
		w.Count("O:outcome:" + c.Outcomes[0])
		w.Count(fmt.Sprintf("O:spare=%d", c.Spare))
		if c.Pure {
			npure++
			w.Count("O:second call with the same slice")
		}
		w.Add(c.Coq(), optRaw(c), fmt.Sprintf("%s|%s|%d", c.Entry, c.Opts, c.Spare), c.Outcomes[0] != "panic" && c.Len > 0)
	}
	if err := w.Flush(); err != nil {
		Die("flush: %v", err)
	}
}

func optFinding(c entry.OptCase) Finding {
	// the failure class (dedupe key of the hunt): which parts changed; the details are in case.changed
	kinds := []string{}
	for _, k := range []string{"(element)", "(capacity window behind len)", "after the second call", "result with the held slice", "result of the second call"} {
		for _, ch := range c.Changed {
			if strings.Contains(ch, k) {
				kinds = append(kinds, strings.Trim(k, "()"))
				break
			}
		}
	}
	first := ""
	if len(c.Changed) > 0 {
		first = c.Changed[0]
	}
	return Finding{"O", c.Entry, fmt.Sprintf("the caller's option list is not left as it was [%s], e.g. %s (options %s, len %d + %d spare cells)",
		strings.Join(kinds, "; "), first, c.Opts, c.Len, c.Spare), optRaw(c), 0}
}

// ---------------------------------------------------------------- hunt driver
func hunt(o Opts) int {
	rng := NewRng(o.Seed*7919 + 13)
	var finds []Finding
	seen := map[string]bool{}
	add := func(f Finding) {
		fail := f.Failure
		if i := strings.Index(fail, "]"); f.Stream == "O" && i > 0 {
			fail = fail[:i] // failure class only: one finding per entry point and kind of change
		}
		k := f.Stream + "|" + f.Site + "|" + stripDigits(fail)
		if !seen[k] {
			seen[k] = true
			finds = append(finds, f)
		}
	}
	// 1. cases handed over by the driver (mismatching correspondence cases)
	if o.Replay != "" {
		var in struct {
			Cases []json.RawMessage `json:"cases"`
		}
		if b, err := readFile(o.Replay); err == nil {
			json.Unmarshal(b, &in)
		}
		for _, raw := range in.Cases {
			var head struct {
				Stream string `json:"stream"`
			}
			json.Unmarshal(raw, &head)
			if head.Stream == "O" {
				var c struct {
					Spec json.RawMessage `json:"spec"`
				}
				json.Unmarshal(raw, &c)
				if oc, err := entry.ReplayOpts(c.Spec); err == nil && oc.Bad() {
					add(optFinding(entry.ShrinkOpts(oc)))
				}
				continue
			}
			if f := replayCase(head.Stream, raw, o.Out); f != nil {
				add(*f)
			}
		}
	}
	// 2. fresh search
	for i := 0; i < o.N; i++ {
		r := rng.Split()
		obs, _ := genSHistory(r, 24)
		ops := make([]SOp, len(obs))
		for j := range obs {
			ops[j] = obs[j].Op
		}
		if msg, _ := oracleS(ops); msg != "" {
			sh := shrinkS(ops)
			m2, at := oracleS(sh)
			add(Finding{"S", "dense vector / scalar", m2, map[string]interface{}{"stream": "S", "ops": sh}, at})
		}
		mc, _, _ := genMHistory(rng.Split(), 24)
		if msg, _ := oracleM(mc.Typ, mc.Ops); msg != "" {
			sh := shrinkM(mc.Typ, mc.Ops)
			m2, at := oracleM(mc.Typ, sh)
			add(Finding{"M", "dense matrix (" + mtypes[mc.Typ].name + ")", m2, map[string]interface{}{"stream": "M", "typ": mc.Typ, "real": mc.Real, "ops": sh}, at})
		}
		vc, _, _ := genVHistory(rng.Split(), 24)
		if msg, at := oracleV(vc.Type, vc.Ops); msg != "" {
			add(Finding{"V", "sparse vector", msg, map[string]interface{}{"stream": "V", "type": vc.Type, "ops": vc.Ops[:at+1]}, at})
		}
	}
	// J: fresh cases of the jet stream under other seeds
	for k := 0; k < 3; k++ {
		sd := o.Seed*31 + uint64(k) + 1
		for i := 0; i < 2*len(jEntries); i++ {
			if jc := regenJ(sd, i); jc.Bad != "" {
				add(Finding{"J", "Real containers of jets: " + jc.Entry, jc.Bad,
					map[string]interface{}{"stream": "J", "entry": jc.Entry, "k32": jc.K32, "fams": jc.Fams, "seed": sd, "index": i}, 0})
			}
		}
	}
	// A, I (round 5): fresh cases of the conversion / iterator-clone streams under other seeds
	for k := 0; k < 2; k++ {
		sd := o.Seed*37 + uint64(k) + 5
		for i := 0; i < len(samePairs); i++ {
			if ac := regenA(sd, i); ac.Bad != "" {
				add(Finding{"C", "As-conversion: " + strings.Join(ac.Pairs, ", "), ac.Bad, ac.raw(), ac.At})
			}
		}
		for i := 0; i < 3*len(iterKinds); i++ {
			if ic := regenI(sd, i); ic.Bad != "" {
				add(Finding{"I", "iterator clone: " + ic.Kind, ic.Bad, ic.raw(), ic.At})
			}
		}
	}
	// slice capacity: Append on a sub-slice with spare capacity (not in the model, see ModelS.v)
	if f := appendCapacityProbe(); f != nil {
		add(*f)
	}
	// round 7: the directed degenerate inputs and the constructors with a flag first
	ecs := append(entry.EdgeCases(rng.Split()), entry.CtorCases(rng.Split())...)
	ecs = append(ecs, entry.Generate(rng.Split(), o.N*2+entry.NumCombos())...)
	for _, c := range ecs {
		if len(c.Changed) > 0 {
			sc := entry.Shrink(c)
			js, _ := sc.ToJSON()
			add(Finding{"E", sc.Entry, fmt.Sprintf("input object %v changed (options %s)", sc.Changed, optClass(sc.Opts)),
				map[string]interface{}{"stream": "E", "entry": sc.Entry, "opts": sc.Opts, "changed": sc.Changed, "spec": sc.Spec, "full": json.RawMessage(js)}, 0})
		}
	}
	hs := entry.GenerateSeqs(rng.Split(), o.N)
	hs = append(hs, entry.GenerateStatSeqs(rng.Split(), o.N/2)...)
	for _, c := range hs {
		if c.Bad() {
			sc := entry.ShrinkSeq(c)
			add(seqFinding(sc))
		}
	}
	for _, c := range entry.GenerateOpts(rng.Split(), o.N*4+2*len(entry.OptEntryNames())) {
		if c.Bad() {
			add(optFinding(entry.ShrinkOpts(c)))
		}
	}
	writeJSON(filepath.Join(o.Out, "hunt.json"), map[string]interface{}{"found": len(finds) > 0, "findings": finds})
	fmt.Printf("hunt: %d distinct findings\n", len(finds))
	return 0
}

func sortStrings(a []string) { sort.Strings(a) }

func seqFinding(sc entry.SeqCase) Finding {
	what := ""
	if len(sc.Retained) > 0 {
		what = fmt.Sprintf("the caller's InSitu struct / the estimator retains a reference to %v (object@call)", sc.Retained)
	}
	if len(sc.Changed) > 0 {
		if what != "" {
			what += "; "
		}
		what += fmt.Sprintf("object(s) the caller holds changed in a LATER call: %v (object@call)", sc.Changed)
	}
	raw := seqRaw(sc)
	raw["objs"] = sc.Objs
	return Finding{"H", sc.Entry, fmt.Sprintf("%s (options per call %v)", what, sc.Opts), raw, 0}
}

// optClass: the option string without buffer details that do not matter for the site of a finding
func optClass(s string) string { return s }

func replayCase(stream string, raw json.RawMessage, out string) *Finding {
	switch stream {
	case "C":
		var c struct {
			Seed  uint64 `json:"seed"`
			Index int    `json:"index"`
		}
		json.Unmarshal(raw, &c)
		ac := regenA(c.Seed, c.Index)
		w := NewCaseWriter(out, "replay_c", hdrA, "amism", 10)
		w.Type = "acase"
		w.Add(ac.Coq(), nil, "replay", true)
		w.Flush()
		if ac.Bad != "" {
			return &Finding{"C", "As-conversion: " + strings.Join(ac.Pairs, ", "), ac.Bad, ac.raw(), ac.At}
		}
		return nil
	case "I":
		var c struct {
			Seed  uint64 `json:"seed"`
			Index int    `json:"index"`
		}
		json.Unmarshal(raw, &c)
		ic := regenI(c.Seed, c.Index)
		w := NewCaseWriter(out, "replay_i", hdrA, "imism", 10)
		w.Type = "icase"
		w.Add(ic.Coq(), nil, "replay", true)
		w.Flush()
		if ic.Bad != "" {
			return &Finding{"I", "iterator clone: " + ic.Kind, ic.Bad, ic.raw(), ic.At}
		}
		return nil
	case "J":
		var c struct {
			Seed  uint64 `json:"seed"`
			Index int    `json:"index"`
		}
		json.Unmarshal(raw, &c)
		jc := regenJ(c.Seed, c.Index)
		w := NewCaseWriter(out, "replay_j", hdrJ, "jmism", 10)
		w.Type = "jcase"
		w.Add(jc.Coq(), nil, "replay", true)
		w.Flush()
		if jc.Bad != "" {
			return &Finding{"J", "Real containers of jets: " + jc.Entry, jc.Bad,
				map[string]interface{}{"stream": "J", "entry": jc.Entry, "k32": jc.K32, "fams": jc.Fams, "seed": c.Seed, "index": c.Index}, 0}
		}
		return nil
	case "S":
		var c struct {
			Ops []SOp `json:"ops"`
		}
		json.Unmarshal(raw, &c)
		if msg, at := oracleS(c.Ops); msg != "" {
			sh := shrinkS(c.Ops)
			m2, a2 := oracleS(sh)
			_ = at
			return &Finding{"S", "dense vector / scalar", m2, map[string]interface{}{"stream": "S", "ops": sh}, a2}
		}
		// also emit the correspondence file for the replayed history
		obs := replayS(c.Ops)
		w := NewCaseWriter(out, "replay_s", hdr, "smism2", 10)
		w.Type = "scase2"
		w.Add(sCaseCoq(obs), nil, "replay", true)
		w.Flush()
	case "M":
		var c struct {
			Typ  *int  `json:"typ"`
			Real bool  `json:"real"`
			Ops  []MOp `json:"ops"`
		}
		json.Unmarshal(raw, &c)
		typ := 0
		if c.Typ != nil && *c.Typ >= 0 && *c.Typ < len(mtypes) {
			typ = *c.Typ
		} else if c.Real {
			typ = 1
		}
		c.Real = mtypes[typ].real
		if msg, _ := oracleM(typ, c.Ops); msg != "" {
			sh := shrinkM(typ, c.Ops)
			m2, a2 := oracleM(typ, sh)
			return &Finding{"M", "dense matrix (" + mtypes[typ].name + ")", m2, map[string]interface{}{"stream": "M", "typ": typ, "real": c.Real, "ops": sh}, a2}
		}
		obs := replayM(typ, c.Ops)
		w := NewCaseWriter(out, "replay_m", hdrZ, "mmism", 10)
		w.Type = "mcase"
		w.Add(MCase{Real: c.Real, Ops: c.Ops, Obs: obs}.Coq(), nil, "replay", true)
		w.Flush()
	case "V":
		var c struct {
			Type string `json:"type"`
			Ops  []Op   `json:"ops"`
		}
		json.Unmarshal(raw, &c)
		if c.Type == "" {
			c.Type = "float64"
		}
		if msg, at := oracleV(c.Type, c.Ops); msg != "" {
			return &Finding{"V", "sparse vector", msg, map[string]interface{}{"stream": "V", "type": c.Type, "ops": c.Ops[:at+1]}, at}
		}
	case "E":
		var c struct {
			Spec json.RawMessage `json:"spec"`
		}
		json.Unmarshal(raw, &c)
		ec, err := entry.Replay(c.Spec)
		if err == nil && len(ec.Changed) > 0 {
			js, _ := ec.ToJSON()
			return &Finding{"E", ec.Entry, fmt.Sprintf("input object %v changed (options %s)", ec.Changed, ec.Opts),
				map[string]interface{}{"stream": "E", "entry": ec.Entry, "opts": ec.Opts, "changed": ec.Changed, "spec": ec.Spec, "full": json.RawMessage(js)}, 0}
		}
	case "H":
		var c struct {
			Spec json.RawMessage `json:"spec"`
		}
		json.Unmarshal(raw, &c)
		hc, err := entry.ReplaySeqAny(c.Spec)
		if err == nil && hc.Bad() {
			f := seqFinding(entry.ShrinkSeq(hc))
			return &f
		}
	case "A":
		return appendCapacityProbe()
	case "O":
		var c struct {
			Spec json.RawMessage `json:"spec"`
		}
		json.Unmarshal(raw, &c)
		oc, err := entry.ReplayOpts(c.Spec)
		if err == nil {
			w := NewCaseWriter(out, "replay_o", hdrO, "omism", 10)
			w.Type = "ocase"
			w.Add(oc.Coq(), nil, "replay", true)
			w.Flush()
			if oc.Bad() {
				f := optFinding(oc)
				return &f
			}
		}
	}
	return nil
}

// appendCapacityProbe: v.Slice(0,k).AppendScalar / AppendVector with spare capacity writes into the
// parent's backing array although Append* returns a new vector and its receiver is read-only.
func appendCapacityProbe() *Finding {
	v := ad.NewDenseFloat64Vector([]float64{1, 2, 3, 4})
	s := v.Slice(0, 2)
	before := readsOf(v)
	s.AppendScalar(ad.NewFloat64(9))
	after := readsOf(v)
	if !obsEq(before, after) {
		return &Finding{"A", "vector_dense_*.go AppendScalar/AppendVector on a Slice",
			fmt.Sprintf("append-into-parent: v=[1,2,3,4]; v.Slice(0,2).AppendScalar(9) changed v from %v to %v", before[1:], after[1:]),
			map[string]interface{}{"stream": "A"}, 0}
	}
	w := ad.NewDenseReal64Vector([]float64{1, 2, 3, 4})
	t := w.Slice(0, 2)
	bw := readsOf(w)
	t.AppendVector(ad.NewDenseReal64Vector([]float64{9}))
	if aw := readsOf(w); !obsEq(bw, aw) {
		return &Finding{"A", "vector_dense_*.go AppendScalar/AppendVector on a Slice",
			fmt.Sprintf("append-into-parent: w=[1,2,3,4]; w.Slice(0,2).AppendVector([9]) changed w from %v to %v", bw[1:], aw[1:]),
			map[string]interface{}{"stream": "A"}, 0}
	}
	return nil
}

var _ = math.Abs

func readFile(p string) ([]byte, error) { return os.ReadFile(p) }

// stripDigits: failure class without the concrete indices (dedupe key)
func stripDigits(s string) string {
	b := make([]byte, 0, len(s))
	for i := 0; i < len(s); i++ {
		if s[i] < '0' || s[i] > '9' {
			b = append(b, s[i])
		}
	}
	return string(b)
}
