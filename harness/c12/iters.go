// Stream I (round 5): CLONES OF ITERATORS — plain iterators and JOINT iterators of all 36 container types
// ({Dense,Sparse} x 9 element types x {Vector,Matrix}; the second operand runs through the 18 types of the same shape).
//
// A case is a history on fixed containers a, b: new plain iterators (Iterator / ConstIterator / IteratorFrom), new joint
// iterators (JointIterator / ConstJointIterator / typed JOINT_ITERATOR), Next on any live iterator, Clone of any live
// iterator by one of its three clone methods (typed Clone(), Clone[Joint]Iterator, CloneConst[Joint]Iterator).  After
// every step EVERY live iterator is observed (Ok, Index, elements): advancing one copy must not advance, skip or
// re-read either operand cursor of another.  Decided by coq/C12/CorrA.v (icheck) against coq/C12/ModelIt.v.
// Property-level oracle for the hunt (independent of the model): every iterator must read like a FRESH, never cloned
// iterator on the same operands advanced as often as its own lineage was.
package main

import (
	"fmt"
	"math"
	"reflect"
	"strings"

	. "adharness/common"

	ad "github.com/pbenner/autodiff"
)

var iterKinds []ctype

func init() {
	for _, mat := range []bool{false, true} {
		for _, sp := range []bool{false, true} {
			for e := range eltNames {
				iterKinds = append(iterKinds, ctype{Elt: e, Sparse: sp, Mat: mat})
			}
		}
	}
}

type iobsT struct {
	Ok   bool
	Idx  int
	Has1 bool
	V1   float64
	V2   float64
}

func (o iobsT) coq() string {
	v1 := "None"
	if o.Has1 {
		v1 = "Some (" + F(o.V1) + ")"
	}
	return fmt.Sprintf("(%s, (%d)%%Z, %s, %s)", B(o.Ok), o.Idx, v1, F(o.V2))
}
func (o iobsT) eq(p iobsT) bool {
	feq := func(x, y float64) bool { return math.Float64bits(x) == math.Float64bits(y) || (x == 0 && y == 0) }
	return o.Ok == p.Ok && o.Idx == p.Idx && o.Has1 == p.Has1 && feq(o.V1, p.V1) && feq(o.V2, p.V2)
}

type itw struct {
	v      reflect.Value
	joint  bool
	mat    bool
	cols   int
	fresh  func() *itw // a new iterator built like the root of this one's lineage
	nexts  int         // Next() calls in the lineage
	parent int
}

func unwrap(v reflect.Value) reflect.Value {
	for v.Kind() == reflect.Interface && !v.IsNil() {
		v = v.Elem()
	}
	return v
}
func (w *itw) call(name string, args ...reflect.Value) []reflect.Value {
	m := w.v.MethodByName(name)
	if !m.IsValid() {
		panic("no method " + name + " on " + w.v.Type().String())
	}
	return m.Call(args)
}
func (w *itw) ok() bool { return w.call("Ok")[0].Bool() }
func (w *itw) next()    { w.call("Next") }
func (w *itw) index() int {
	r := w.call("Index")
	if w.mat {
		i, j := int(r[0].Int()), int(r[1].Int())
		if i < 0 || j < 0 {
			return -1
		}
		return i*w.cols + j
	}
	return int(r[0].Int())
}
func scalarOf(v reflect.Value) (bool, float64) {
	// "no element" is a nil interface, or (dense Real joint iterators: GetConst returns GET()'s typed nil) an interface
	// holding a nil pointer
	for v.Kind() == reflect.Interface {
		if v.IsNil() {
			return false, 0
		}
		v = v.Elem()
	}
	if v.Kind() == reflect.Ptr && v.IsNil() {
		return false, 0
	}
	s, ok := v.Interface().(ad.ConstScalar)
	if !ok || s == nil {
		return false, 0
	}
	return true, s.GetFloat64()
}
func (w *itw) observe() iobsT {
	o := iobsT{Ok: w.ok()}
	if !w.joint {
		if !o.Ok {
			return o
		}
		o.Idx = w.index()
		o.Has1, o.V1 = scalarOf(w.call("GetConst")[0])
		return o
	}
	o.Idx = w.index()
	r := w.call("GetConst")
	o.Has1, o.V1 = scalarOf(r[0])
	_, o.V2 = scalarOf(r[1])
	return o
}

var cloneNames = [][]string{{"Clone", "CloneIterator", "CloneConstIterator"}, {"Clone", "CloneJointIterator", "CloneConstJointIterator"}}

func (w *itw) clone(method int, self int) (*itw, string) {
	names := cloneNames[0]
	if w.joint {
		names = cloneNames[1]
	}
	name := names[method%3]
	if !w.v.MethodByName(name).IsValid() {
		name = "Clone"
	}
	r := unwrap(w.call(name)[0])
	return &itw{v: r, joint: w.joint, mat: w.mat, cols: w.cols, fresh: w.fresh, nexts: w.nexts, parent: self}, name
}

type ICase struct {
	Seed  uint64   `json:"seed"`
	Index int      `json:"index"`
	Kind  string   `json:"kind"`
	Steps []string `json:"-"`
	Descs []string `json:"descs"`
	Bad   string   `json:"bad"`
	At    int      `json:"at"`
	NCl   int      `json:"nclones"`
	NJ    int      `json:"njoint_clones"`
	// the joint iterators' receiver is a dense matrix of an integer element type (its Ok() reads the second operand's
	// element converted to that type)
	IntRecv bool `json:"int_receiver"`
}

func (c *ICase) Coq() string { return fmt.Sprintf("mkIC %s %s", B(c.IntRecv), List(c.Steps)) }
func (c *ICase) raw() map[string]interface{} {
	return map[string]interface{}{"stream": "I", "seed": c.Seed, "index": c.Index, "kind": c.Kind, "bad": c.Bad, "at": c.At, "descs": c.Descs}
}

func iBase(seed uint64) *Rng { return NewRng(seed*1000003 + 23) }
func regenI(seed uint64, index int) *ICase {
	base := iBase(seed)
	var r *Rng
	for i := 0; i <= index; i++ {
		r = base.Split()
	}
	return genICase(r, seed, index)
}

func readAll(x interface{}, rows, cols int) []float64 {
	out := []float64{}
	if m, ok := x.(ad.ConstMatrix); ok {
		for i := 0; i < rows; i++ {
			for j := 0; j < cols; j++ {
				out = append(out, m.ConstAt(i, j).GetFloat64())
			}
		}
		return out
	}
	v := x.(ad.ConstVector)
	for i := 0; i < v.Dim(); i++ {
		out = append(out, v.ConstAt(i).GetFloat64())
	}
	return out
}

func genICase(r *Rng, seed uint64, index int) *ICase {
	ta := iterKinds[index%len(iterKinds)]
	rot := (index/len(iterKinds))*5 + index + int(seed%18)
	tb := ctype{Elt: rot % 9, Sparse: (rot/9)%2 == 1, Mat: ta.Mat}
	c := &ICase{Seed: seed, Index: index, Kind: ta.String() + " x " + tb.String(), IntRecv: ta.Mat && !ta.Sparse && ta.Elt < 5}
	rows, cols := 1, r.Range(3, 6)
	if ta.Mat {
		rows, cols = r.Range(1, 2), r.Range(2, 3)
	}
	fill := func(t ctype) interface{} {
		x := newContainer(t, rows, cols)
		nz := 0
		for p := 0; p < rows*cols; p++ {
			if r.Intn(3) > 0 || (p == rows*cols-1 && nz == 0) {
				v := aval(r, t, false)
				if m, ok := x.(ad.Matrix); ok {
					m.At(p/cols, p%cols).SetFloat64(v)
				} else {
					x.(ad.Vector).At(p).SetFloat64(v)
				}
				nz++
			}
		}
		return x
	}
	objs := []interface{}{fill(ta), fill(tb)}
	types := []ctype{ta, tb}
	vals := [][]float64{readAll(objs[0], rows, cols), readAll(objs[1], rows, cols)}
	var its []*itw

	observeAll := func() []iobsT {
		out := make([]iobsT, len(its))
		for k, it := range its {
			out[k] = it.observe()
		}
		return out
	}
	record := func(op, desc string, tgt int) {
		var obs []iobsT
		if aGuard(func() { obs = observeAll() }) {
			if c.Bad == "" {
				c.Bad, c.At = desc+": panic while reading the iterators", len(c.Steps)
			}
			return
		}
		xs := make([]string, len(obs))
		for i, o := range obs {
			xs[i] = o.coq()
		}
		c.Steps = append(c.Steps, fmt.Sprintf("mkIO (%s) %s", op, List(xs)))
		c.Descs = append(c.Descs, desc)
		// oracle: each iterator reads like a fresh one advanced as often
		if c.Bad == "" {
			for k, it := range its {
				var ref iobsT
				p := aGuard(func() {
					f := it.fresh()
					for n := 0; n < it.nexts; n++ {
						f.next()
					}
					ref = f.observe()
				})
				if p {
					continue
				}
				if !ref.eq(obs[k]) {
					c.Bad = fmt.Sprintf("%s: iterator #%d (from #%d, %d Next in its lineage) reads %+v, a fresh iterator advanced as often reads %+v (%s)",
						desc, k, it.parent, it.nexts, obs[k], ref, c.Kind)
					c.At = len(c.Steps) - 1
					break
				}
			}
		}
	}
	newPlain := func(k int) {
		t := types[k]
		from := 0
		how := r.Intn(4)
		build := func() *itw {
			var v interface{}
			if t.Mat {
				m := objs[k].(ad.Matrix)
				switch how {
				case 0:
					v = m.Iterator()
				case 1:
					v = m.ConstIterator()
				case 2:
					v = m.IteratorFrom(from/cols, from%cols)
				default:
					v = m.ConstIteratorFrom(from/cols, from%cols)
				}
			} else {
				x := objs[k].(ad.Vector)
				switch how {
				case 0:
					v = x.Iterator()
				case 1:
					v = x.ConstIterator()
				case 2:
					v = x.IteratorFrom(from)
				default:
					v = x.ConstIteratorFrom(from)
				}
			}
			return &itw{v: unwrap(reflect.ValueOf(v)), mat: t.Mat, cols: cols, parent: -1}
		}
		if how >= 2 {
			from = r.Intn(rows * cols)
		}
		it := build()
		it.fresh = build
		its = append(its, it)
		record(fmt.Sprintf("RNew %s %s (%d)%%Z", B(!t.Mat && !t.Sparse), FList(vals[k]), from), "new plain iterator on "+t.String(), -1)
	}
	newJoint := func() {
		how := r.Intn(3)
		build := func() *itw {
			var v interface{}
			if ta.Mat {
				if how == 2 {
					v = reflect.ValueOf(objs[0]).MethodByName("JOINT_ITERATOR").Call([]reflect.Value{reflect.ValueOf(objs[1])})[0].Interface()
				} else {
					v = objs[0].(ad.Matrix).JointIterator(objs[1].(ad.ConstMatrix))
				}
			} else {
				switch how {
				case 0:
					v = objs[0].(ad.Vector).JointIterator(objs[1].(ad.ConstVector))
				case 1:
					v = objs[0].(ad.Vector).ConstJointIterator(objs[1].(ad.ConstVector))
				default:
					v = reflect.ValueOf(objs[0]).MethodByName("JOINT_ITERATOR").Call([]reflect.Value{reflect.ValueOf(objs[1])})[0].Interface()
				}
			}
			return &itw{v: unwrap(reflect.ValueOf(v)), joint: true, mat: ta.Mat, cols: cols, parent: -1}
		}
		it := build()
		it.fresh = build
		its = append(its, it)
		record(fmt.Sprintf("RNewJ %s %s %s %s %s", B(ta.Mat && !ta.Sparse), B(!ta.Mat && !ta.Sparse), FList(vals[0]), B(!tb.Mat && !tb.Sparse), FList(vals[1])),
			"new joint iterator", -1)
	}
	doNext := func(k int) {
		p := aGuard(func() { its[k].next() })
		its[k].nexts++
		if p && c.Bad == "" {
			c.Bad, c.At = fmt.Sprintf("Next on iterator #%d panicked (%s)", k, c.Kind), len(c.Steps)
		}
		record(fmt.Sprintf("RNext %d", k), fmt.Sprintf("Next #%d", k), k)
	}
	doClone := func(k int) {
		var cl *itw
		var name string
		p := aGuard(func() { cl, name = its[k].clone(r.Intn(3), k) })
		if p || cl == nil {
			if c.Bad == "" {
				c.Bad, c.At = fmt.Sprintf("Clone of iterator #%d panicked (%s)", k, c.Kind), len(c.Steps)
			}
			return
		}
		its = append(its, cl)
		c.NCl++
		if cl.joint {
			c.NJ++
		}
		record(fmt.Sprintf("RClone %d", k), fmt.Sprintf("%s #%d", name, k), -1)
	}
	alive := func(k int) bool {
		ok := false
		aGuard(func() { ok = its[k].ok() })
		return ok
	}
	// directed prefix: joint iterator, a few steps, clone, advance the SOURCE, clone the clone, advance the CLONE
	aGuard(func() {
		newJoint()
		for n := r.Intn(3); n > 0; n-- {
			doNext(0)
		}
		doClone(0)
		for n := 1 + r.Intn(2); n > 0 && alive(0); n-- {
			doNext(0)
		}
		doClone(1)
		for n := 1 + r.Intn(2); n > 0 && alive(1); n-- {
			doNext(1)
		}
		newPlain(r.Intn(2))
		doClone(len(its) - 1)
		total := 14 + r.Intn(6)
		for n := 0; n < total; n++ {
			switch x := r.Intn(10); {
			case x < 6:
				// Next on a live iterator (a finished sparse iterator must not be advanced: AVL iterator at its end)
				var live []int
				for k := range its {
					if alive(k) {
						live = append(live, k)
					}
				}
				if len(live) == 0 {
					if len(its) < 9 {
						newJoint()
					}
					continue
				}
				doNext(live[r.Intn(len(live))])
			case x < 8 && len(its) < 9:
				doClone(r.Intn(len(its)))
			case x == 8 && len(its) < 9:
				newPlain(r.Intn(2))
			case len(its) < 9:
				newJoint()
			}
		}
	})
	return c
}

func runIterStream(o Opts, n int) {
	w := NewCaseWriter(o.Out, "icases", hdrA, "imism", 20)
	w.Type = "icase"
	w.Rule = "I: history on plain and joint iterators of one of the 36 container types (second operand: the 18 types of the shape in rotation): joint iterator, Next, clone, advance the source, clone the clone, advance the clone, then >= 14 random steps; every live iterator observed after every step; non-trivial = at least 2 joint clones and >= 16 steps"
	base := iBase(o.Seed)
	for i := 0; i < n; i++ {
		c := genICase(base.Split(), o.Seed, i)
		w.CountN("I:kind:"+strings.SplitN(c.Kind, " x ", 2)[0], 1)
		for _, d := range c.Descs {
			w.CountN("I:op:"+strings.Fields(d)[0], 1)
		}
		w.CountN("I:joint-clones", c.NJ)
		w.Add(c.Coq(), c.raw(), c.Kind+fmt.Sprint(len(c.Steps)), c.NJ >= 2 && len(c.Steps) >= 16)
	}
	if err := w.Flush(); err != nil {
		Die("flush: %v", err)
	}
}
