// Stream C (round 5; the Coq side calls it stream A: coq/C12/CorrA.v): As-CONVERSIONS between representations are deep copies at the granularity of scalar cells.
//
// Every conversion entry point of the library — the 36 typed functions As{Dense,Sparse}<T>{Vector,Matrix}(x) and the
// generic As{Dense,Sparse}[Magic]{Vector,Matrix}(t, x) for every t — is paired with every source container type of the
// same shape (18 per shape): 1440 (from x to) pairs.  The table is checked against the library source with go/ast
// (enumConversions): a conversion function of /repo that the table does not reach is reported.
//
// A case is a HISTORY: a source with non-zero entries (sparse ones also with stored zeros), the conversion, then
// mutations addressed at either side (element writes, Reset, in-place arithmetic r.Op(r, x), Set, iterator write
// loops), a second source/conversion pair, more mutations.  After every step all containers are observed (every
// position, value and derivatives), the stored positions of the sparse ones are read (reflection on the unexported
// map) and the storage each container reaches is labelled (reflection walk).  Decided by coq/C12/CorrA.v against
// coq/C12/ModelConv.v.  A case is a pure function of (seed, index): regenA for replay and hunt.
package main

import (
	"fmt"
	"go/ast"
	"go/parser"
	"go/token"
	"math"
	"os"
	"reflect"
	"sort"
	"strings"

	"adharness/c12/entry"
	. "adharness/common"

	ad "github.com/pbenner/autodiff"
)

const hdrA = "From Coq Require Import ZArith List Bool Floats.\nFrom ADV Require Import C12.ModelConv C12.ModelIt C12.CorrA.\nImport ListNotations.\n"

type ctype struct {
	Elt    int  `json:"elt"`
	Sparse bool `json:"sparse"`
	Mat    bool `json:"mat"`
	Const  bool `json:"const"` // immutable sparse vector (SparseConst<T>Vector): conversion target only
}

func (t ctype) kind() int {
	if t.Const {
		return 3
	}
	if t.Sparse {
		return 2
	}
	if t.Mat {
		return 1
	}
	return 0
}
func (t ctype) String() string {
	if t.Const {
		return "SparseConst" + eltNames[t.Elt] + "Vector"
	}
	s := "Dense"
	if t.Sparse {
		s = "Sparse"
	}
	sh := "Vector"
	if t.Mat {
		sh = "Matrix"
	}
	return s + eltNames[t.Elt] + sh
}
func (t ctype) real() bool { return t.Elt >= 7 }

type convSpec struct {
	Generic int   `json:"generic"` // 0 typed, 1 generic As..(t, x), 2 generic Magic
	To      ctype `json:"to"`
}

func (c convSpec) name() string {
	s := "Dense"
	if c.To.Sparse {
		s = "Sparse"
	}
	sh := "Vector"
	if c.To.Mat {
		sh = "Matrix"
	}
	switch c.Generic {
	case 3:
		return "As" + c.To.String()
	case 1:
		return "As" + s + sh + "(" + eltNames[c.To.Elt] + ")"
	case 2:
		return "As" + s + "Magic" + sh + "(" + eltNames[c.To.Elt] + ")"
	}
	return "As" + c.To.String()
}

// the library function behind a spec (as it is named in the source)
func (c convSpec) funcName() string {
	s := "Dense"
	if c.To.Sparse {
		s = "Sparse"
	}
	sh := "Vector"
	if c.To.Mat {
		sh = "Matrix"
	}
	switch c.Generic {
	case 3:
		return "As" + c.To.String()
	case 1:
		return "As" + s + sh
	case 2:
		return "As" + s + "Magic" + sh
	}
	return "As" + c.To.String()
}

func (c convSpec) apply(src interface{}) interface{} {
	t := eltTypes[c.To.Elt]
	if c.To.Mat {
		m := src.(ad.ConstMatrix)
		switch {
		case c.Generic == 1 && c.To.Sparse:
			return ad.AsSparseMatrix(t, m)
		case c.Generic == 1:
			return ad.AsDenseMatrix(t, m)
		case c.Generic == 2 && c.To.Sparse:
			return ad.AsSparseMagicMatrix(t, m)
		case c.Generic == 2:
			return ad.AsDenseMagicMatrix(t, m)
		}
		return convMatTyped[c.funcName()](m)
	}
	v := src.(ad.ConstVector)
	if c.Generic == 3 {
		return convVecConst[c.funcName()](v)
	}
	switch {
	case c.Generic == 1 && c.To.Sparse:
		return ad.AsSparseVector(t, v)
	case c.Generic == 1:
		return ad.AsDenseVector(t, v)
	case c.Generic == 2 && c.To.Sparse:
		return ad.AsSparseMagicVector(t, v)
	case c.Generic == 2:
		return ad.AsDenseMagicVector(t, v)
	}
	return convVecTyped[c.funcName()](v)
}

type convPair struct {
	From ctype    `json:"from"`
	Conv convSpec `json:"conv"`
}

func (p convPair) String() string { return p.From.String() + "->" + p.Conv.name() }

var allPairs, samePairs, realPairs []convPair

func init() {
	defer func() {
		// immutable sparse vectors as conversion targets
		for e := 0; e < 7; e++ {
			cs := convSpec{3, ctype{Elt: e, Sparse: true, Const: true}}
			for _, fsp := range []bool{false, true} {
				for fe := range eltNames {
					p := convPair{ctype{Elt: fe, Sparse: fsp}, cs}
					allPairs = append(allPairs, p)
					if fe == e {
						samePairs = append(samePairs, p)
					}
				}
			}
		}
	}()
	for _, mat := range []bool{false, true} {
		for _, sp := range []bool{false, true} {
			for e := range eltNames {
				for g := 0; g <= 2; g++ {
					if g == 2 && e < 7 {
						continue
					}
					cs := convSpec{g, ctype{Elt: e, Sparse: sp, Mat: mat}}
					for _, fsp := range []bool{false, true} {
						for fe := range eltNames {
							p := convPair{ctype{Elt: fe, Sparse: fsp, Mat: mat}, cs}
							allPairs = append(allPairs, p)
							if fe == e {
								samePairs = append(samePairs, p)
							}
							if fe >= 7 && e >= 7 {
								realPairs = append(realPairs, p)
							}
						}
					}
				}
			}
		}
	}
}

// ---- containers
func newContainer(t ctype, r, c int) interface{} {
	et := eltTypes[t.Elt]
	switch {
	case t.Mat && t.Sparse:
		return ad.NullSparseMatrix(et, r, c)
	case t.Mat:
		return ad.NullDenseMatrix(et, r, c)
	case t.Sparse:
		return ad.NullSparseVector(et, r*c)
	}
	return ad.NullDenseVector(et, r*c)
}

type aworld struct {
	r, c, w int
	objs    []interface{}
	types   []ctype
}

func (w *aworld) dim() int { return w.r * w.c }
func (w *aworld) at(k, p int) ad.Scalar {
	if m, ok := w.objs[k].(ad.Matrix); ok {
		return m.At(p/w.c, p%w.c)
	}
	return w.objs[k].(ad.Vector).At(p)
}
func (w *aworld) constAt(k, p int) ad.ConstScalar {
	if m, ok := w.objs[k].(ad.ConstMatrix); ok {
		return m.ConstAt(p/w.c, p%w.c)
	}
	return w.objs[k].(ad.ConstVector).ConstAt(p)
}
func aslots(s ad.ConstScalar, width int) []float64 {
	r := []float64{s.GetFloat64()}
	for k := 0; k+1 < width; k++ {
		if s.GetOrder() >= 1 && k < s.GetN() {
			r = append(r, s.GetDerivative(k))
		} else {
			r = append(r, 0)
		}
	}
	return r
}
func (w *aworld) observe(k int) [][]float64 {
	out := make([][]float64, w.dim())
	for p := range out {
		out[p] = aslots(w.constAt(k, p), w.w)
	}
	return out
}

// stored positions of a sparse container (nil for a dense one): keys of the unexported map
func storedPositions(x interface{}) []int {
	rv := reflect.ValueOf(x)
	if rv.Kind() == reflect.Ptr {
		rv = rv.Elem()
	}
	if rv.Kind() != reflect.Struct {
		return nil
	}
	f := rv.FieldByName("values")
	if !f.IsValid() {
		return nil
	}
	if f.Kind() == reflect.Ptr && !f.IsNil() {
		f = f.Elem().FieldByName("values")
	}
	if !f.IsValid() || f.Kind() != reflect.Map {
		return nil
	}
	out := []int{}
	for _, k := range f.MapKeys() {
		out = append(out, int(k.Int()))
	}
	sort.Ints(out)
	return out
}

// ---- history
type aStep struct {
	Op    string // Coq term of the cop
	Desc  string // human readable
	Chg   []int  // changed / new containers
	Obs   [][][]float64
	St    [][]int
	Ids   [][]int
	Tgt   int // container addressed (-1: none)
	Panic bool
}

type ACase struct {
	Seed    uint64   `json:"seed"`
	Index   int      `json:"index"`
	Pairs   []string `json:"pairs"`
	W       int      `json:"w"`
	Steps   []aStep  `json:"-"`
	Descs   []string `json:"descs"`
	Bad     string   `json:"bad"`
	At      int      `json:"at"`
	NMut    int      `json:"nmut"`
	NonZero bool     `json:"nonzero"` // a converted source had non-zero entries
}

func aSlotsCoq(s []float64) string {
	xs := make([]string, len(s))
	for i, x := range s {
		xs[i] = F(x)
	}
	return List(xs)
}
func aObsCoq(o [][]float64) string {
	xs := make([]string, len(o))
	for i, s := range o {
		xs[i] = aSlotsCoq(s)
	}
	return List(xs)
}
func aNatList(xs []int) string {
	s := make([]string, len(xs))
	for i, x := range xs {
		s[i] = fmt.Sprint(x)
	}
	return List(s)
}
func (c *ACase) Coq() string {
	steps := make([]string, len(c.Steps))
	for i, s := range c.Steps {
		chg := make([]string, len(s.Chg))
		for j, k := range s.Chg {
			chg[j] = fmt.Sprintf("(%d, (%s, %s))", k, aObsCoq(s.Obs[j]), aNatList(s.St[j]))
		}
		ids := make([]string, len(s.Ids))
		for j, l := range s.Ids {
			ids[j] = aNatList(l)
		}
		steps[i] = fmt.Sprintf("mkAO (%s) %s %s", s.Op, List(chg), List(ids))
	}
	return fmt.Sprintf("mkA %d %s", c.W, List(steps))
}

func aBitsEq(a, b [][]float64) bool {
	if len(a) != len(b) {
		return false
	}
	for i := range a {
		for j := range a[i] {
			if math.Float64bits(a[i][j]) != math.Float64bits(b[i][j]) {
				return false
			}
		}
	}
	return true
}

// observation equality up to the sign of zero (a dropped stored -0.0 reads 0.0)
func aObsEq(a, b [][]float64) bool {
	if len(a) != len(b) {
		return false
	}
	for i := range a {
		for j := range a[i] {
			x, y := a[i][j], b[i][j]
			if math.Float64bits(x) != math.Float64bits(y) && !(x == 0 && y == 0) {
				return false
			}
		}
	}
	return true
}
func aIntsEq(a, b []int) bool {
	if len(a) != len(b) {
		return false
	}
	for i := range a {
		if a[i] != b[i] {
			return false
		}
	}
	return true
}

type arun struct {
	w     *aworld
	c     *ACase
	prevO [][][]float64
	prevS [][]int
}

// record a step: observe everything, list what changed, run the property-level oracle
func (a *arun) record(op, desc string, tgt int, convSrc int, withIds bool, panicked bool) {
	w := a.w
	st := aStep{Op: op, Desc: desc, Tgt: tgt, Panic: panicked}
	for k := range w.objs {
		o := w.observe(k)
		s := storedPositions(w.objs[k])
		isNew := k >= len(a.prevO)
		if isNew || !aBitsEq(o, a.prevO[k]) || !aIntsEq(s, a.prevS[k]) {
			st.Chg = append(st.Chg, k)
			st.Obs = append(st.Obs, o)
			if s == nil {
				s = []int{}
			}
			st.St = append(st.St, s)
		}
		// property oracle (independent of the Coq model)
		if a.c.Bad == "" {
			switch {
			case isNew && convSrc >= 0 && !aObsEq(o, a.prevO[convSrc]):
				a.c.Bad = fmt.Sprintf("%s: the result does not observe like its source", desc)
			case !isNew && k != tgt && !aObsEq(o, a.prevO[k]):
				if tgt >= 0 {
					a.c.Bad = fmt.Sprintf("%s on container #%d (%s) changed what container #%d (%s) reads", desc, tgt, w.types[tgt], k, w.types[k])
				} else {
					a.c.Bad = fmt.Sprintf("%s changed what container #%d (%s) reads", desc, k, w.types[k])
				}
			}
			if a.c.Bad != "" {
				a.c.At = len(a.c.Steps)
			}
		}
		if isNew {
			a.prevO = append(a.prevO, o)
			a.prevS = append(a.prevS, s)
		} else {
			a.prevO[k], a.prevS[k] = o, s
		}
	}
	if withIds {
		st.Ids = entry.Labels(w.objs)
		if a.c.Bad == "" {
			seen := map[int]int{}
			for k, l := range st.Ids {
				for _, x := range l {
					if j, ok := seen[x]; ok && j != k {
						a.c.Bad = fmt.Sprintf("%s: containers #%d (%s) and #%d (%s) reach the same storage", desc, j, w.types[j], k, w.types[k])
						a.c.At = len(a.c.Steps)
					}
					seen[x] = k
				}
			}
		}
	}
	a.c.Steps = append(a.c.Steps, st)
	a.c.Descs = append(a.c.Descs, desc)
}

func aGuard(f func()) (panicked bool) {
	defer func() {
		if r := recover(); r != nil {
			panicked = true
			if os.Getenv("C12_DEBUG") != "" {
				fmt.Fprintln(os.Stderr, "panic:", r)
			}
		}
	}()
	f()
	return false
}

func (a *arun) havocTerm(k int) string {
	s := storedPositions(a.w.objs[k])
	if s == nil {
		s = []int{}
	}
	return fmt.Sprintf("OHavoc %d %s %s", k, aNatList(s), aObsCoq(a.w.observe(k)))
}

// a value admissible for every element type (small integer) or a quarter for the float / real types
func aval(r *Rng, t ctype, intOnly bool) float64 {
	v := float64(r.Range(1, 3))
	if r.Bool() {
		v = -v
	}
	if !intOnly && t.Elt >= 5 && r.Intn(3) == 0 {
		v += 0.25 * float64(r.Range(1, 3))
	}
	return v
}

func (a *arun) setJet(s ad.Scalar, r *Rng) {
	if a.w.w < 3 {
		return
	}
	if ms, ok := s.(ad.MagicScalar); ok && r.Intn(3) > 0 {
		ms.Alloc(2, 1)
		ms.SetDerivative(r.Intn(2), float64(r.Range(1, 3)))
	}
}

// a new container of type t with non-zero entries; sparse ones also get stored zeros
func (a *arun) newSource(r *Rng, t ctype, intOnly bool) int {
	w := a.w
	obj := newContainer(t, w.r, w.c)
	w.objs = append(w.objs, obj)
	w.types = append(w.types, t)
	k := len(w.objs) - 1
	nz := 0
	for p := 0; p < w.dim(); p++ {
		switch x := r.Intn(6); {
		case x <= 2 || (p == w.dim()-1 && nz == 0):
			s := w.at(k, p)
			s.SetFloat64(aval(r, t, intOnly))
			a.setJet(s, r)
			nz++
		case x == 3 && t.Sparse:
			w.at(k, p) // a stored zero
		case x == 4 && t.Sparse && t.Elt >= 5 && !intOnly:
			w.at(k, p).SetFloat64(math.Copysign(0, -1)) // a stored -0.0
		}
	}
	s := storedPositions(obj)
	if s == nil {
		s = []int{}
	}
	a.record(fmt.Sprintf("ONew %d %d %s %s", t.kind(), w.dim(), aNatList(s), aObsCoq(w.observe(k))), "new "+t.String(), -1, -1, false, false)
	return k
}

func (a *arun) convert(src int, cs convSpec) int {
	w := a.w
	var res interface{}
	p := aGuard(func() { res = cs.apply(w.objs[src]) })
	from := w.types[src]
	desc := from.String() + "->" + cs.name()
	if p || res == nil {
		a.c.Bad = desc + ": panic"
		a.c.At = len(a.c.Steps)
		return -1
	}
	w.objs = append(w.objs, res)
	w.types = append(w.types, cs.To)
	same := from == cs.To
	iter := cs.To.Const || (!cs.To.Sparse && !cs.To.Mat && cs.To.Elt < 7)
	a.record(fmt.Sprintf("OConv %d %s %s %d", cs.To.kind(), B(same), B(iter), src), desc, -1, src, true, false)
	a.c.Pairs = append(a.c.Pairs, desc)
	return len(w.objs) - 1
}

var mutNames = []string{"At.SetFloat64", "At.SetFloat64(0)", "Reset", "addInPlace", "mulSInPlace", "Set", "iterWrite", "At.Set(scalar)", "subInPlace", "walk"}

// one mutation addressed at container k (operand: another container of the same shape)
func (a *arun) mutate(r *Rng, k int, withIds bool) {
	w := a.w
	t := w.types[k]
	m := r.Intn(len(mutNames))
	// operand candidates: same shape, not k
	var cand []int
	for j := range w.objs {
		if j != k && w.types[j].Mat == t.Mat {
			cand = append(cand, j)
		}
	}
	if len(cand) == 0 && (m == 3 || m == 5 || m == 8) {
		m = 0
	}
	y := -1
	if len(cand) > 0 {
		y = cand[r.Intn(len(cand))]
	}
	p := r.Intn(w.dim())
	desc := mutNames[m]
	// a sparse operand is first walked by its own iterator (reported as a mutation of THAT container: the stored
	// nulls disappear, the observation stays) so that reading it as an operand leaves also its representation alone
	if y >= 0 && (m == 3 || m == 5 || m == 8) && w.types[y].Sparse {
		a.walk(y)
	}
	panicked := aGuard(func() {
		switch m {
		case 0:
			s := w.at(k, p)
			s.SetFloat64(aval(r, t, false))
			a.setJet(s, r)
		case 1:
			w.at(k, p).SetFloat64(0)
		case 2:
			if t.Mat {
				w.objs[k].(ad.Matrix).Reset()
			} else {
				w.objs[k].(ad.Vector).Reset()
			}
		case 3:
			if t.Mat {
				x := w.objs[k].(ad.Matrix)
				x.MaddM(x, w.objs[y].(ad.ConstMatrix))
			} else {
				x := w.objs[k].(ad.Vector)
				x.VaddV(x, w.objs[y].(ad.ConstVector))
			}
		case 4:
			c := ad.ConstFloat64(float64(r.Range(-2, 2)))
			if t.Mat {
				x := w.objs[k].(ad.Matrix)
				x.MmulS(x, c)
			} else {
				x := w.objs[k].(ad.Vector)
				x.VmulS(x, c)
			}
		case 5:
			if t.Mat {
				w.objs[k].(ad.Matrix).Set(w.objs[y].(ad.ConstMatrix))
			} else {
				w.objs[k].(ad.Vector).Set(w.objs[y].(ad.ConstVector))
			}
		case 6:
			if t.Mat {
				for it := w.objs[k].(ad.Matrix).Iterator(); it.Ok(); it.Next() {
					s := it.Get()
					s.SetFloat64(s.GetFloat64() + 1)
				}
			} else {
				for it := w.objs[k].(ad.Vector).Iterator(); it.Ok(); it.Next() {
					s := it.Get()
					s.SetFloat64(s.GetFloat64() + 1)
				}
			}
		case 7:
			w.at(k, p).Set(ad.ConstFloat64(aval(r, t, false)))
		case 8:
			if t.Mat {
				x := w.objs[k].(ad.Matrix)
				x.MsubM(x, w.objs[y].(ad.ConstMatrix))
			} else {
				x := w.objs[k].(ad.Vector)
				x.VsubV(x, w.objs[y].(ad.ConstVector))
			}
		case 9:
			walkObj(w.objs[k])
		}
	})
	if y >= 0 && (m == 3 || m == 5 || m == 8) {
		desc += fmt.Sprintf("(#%d)", y)
	}
	a.record(a.havocTerm(k), desc, k, -1, withIds, panicked)
	a.c.NMut++
}

func walkObj(x interface{}) {
	if m, ok := x.(ad.ConstMatrix); ok {
		for it := m.ConstIterator(); it.Ok(); it.Next() {
		}
		return
	}
	for it := x.(ad.ConstVector).ConstIterator(); it.Ok(); it.Next() {
	}
}
func (a *arun) walk(k int) {
	aGuard(func() { walkObj(a.w.objs[k]) })
	a.record(a.havocTerm(k), "walk", k, -1, false, false)
}

func aBase(seed uint64) *Rng { return NewRng(seed*1000003 + 17) }

func regenA(seed uint64, index int) *ACase {
	base := aBase(seed)
	var r *Rng
	for i := 0; i <= index; i++ {
		r = base.Split()
	}
	return genACase(r, seed, index)
}

func genACase(r *Rng, seed uint64, index int) *ACase {
	c := &ACase{Seed: seed, Index: index}
	prim := samePairs[index%len(samePairs)]
	// the secondary pair walks through ALL (from x to) pairs; with a Real primary it is a Real pair every other time so
	// that derivatives are carried
	rot := (index*7 + int(seed%1440)*13) % len(allPairs)
	sec := allPairs[rot]
	if prim.From.real() && (index/len(samePairs))%2 == 0 {
		sec = realPairs[(index*5+int(seed%97))%len(realPairs)]
	}
	width := 1
	if prim.From.real() && prim.Conv.To.real() && sec.From.real() && sec.Conv.To.real() {
		width = 3
	}
	c.W = width
	w := &aworld{r: r.Range(1, 2), c: r.Range(2, 3), w: width}
	a := &arun{w: w, c: c}
	// segment 1: the same-element-type pair
	s1 := a.newSource(r, prim.From, false)
	c.NonZero = true
	r1 := a.convert(s1, prim.Conv)
	if r1 < 0 {
		return c
	}
	n1 := 7 + r.Intn(3)
	for i := 0; i < n1; i++ {
		k := []int{s1, r1}[i%2]
		if w.types[k].Const {
			k = s1
		}
		a.mutate(r, k, i%3 == 2)
	}
	// segment 2: another pair (any element types: integer values), and a chain conversion of the first result
	s2 := a.newSource(r, sec.From, sec.From.Elt != sec.Conv.To.Elt)
	r2 := a.convert(s2, sec.Conv)
	if r2 < 0 {
		return c
	}
	n2 := 13 + r.Intn(4)
	for i := 0; i < n2; i++ {
		k := []int{r2, s2, r1, s1}[r.Pick([]int{4, 4, 2, 2})]
		if w.types[k].Const {
			k = []int{s2, s2, s1, s1}[r.Intn(4)]
		}
		a.mutate(r, k, i%3 == 2 || i == n2-1)
	}
	return c
}

func (c *ACase) raw() map[string]interface{} {
	return map[string]interface{}{"stream": "C", "seed": c.Seed, "index": c.Index, "pairs": c.Pairs, "bad": c.Bad, "at": c.At, "descs": c.Descs}
}

// ---- the conversion functions of the library, from its source (go/ast)
func enumConversions(repo string) (funcs []string, views []string, err error) {
	fset := token.NewFileSet()
	pkgs, err := parser.ParseDir(fset, repo, func(fi os.FileInfo) bool { return !strings.HasSuffix(fi.Name(), "_test.go") }, 0)
	if err != nil {
		return nil, nil, err
	}
	seenV := map[string]bool{}
	for _, pkg := range pkgs {
		for _, f := range pkg.Files {
			for _, d := range f.Decls {
				fd, ok := d.(*ast.FuncDecl)
				if !ok || !strings.HasPrefix(fd.Name.Name, "As") {
					continue
				}
				if fd.Recv != nil {
					// methods AsVector / AsMatrix / AsConstVector ...: reshaping reference views (share the storage by design)
					if !seenV[fd.Name.Name] {
						seenV[fd.Name.Name] = true
						views = append(views, fd.Name.Name)
					}
					continue
				}
				funcs = append(funcs, fd.Name.Name)
			}
		}
	}
	sort.Strings(funcs)
	sort.Strings(views)
	return funcs, views, nil
}

func coveredConversions() map[string]bool {
	m := map[string]bool{}
	for _, p := range allPairs {
		m[p.Conv.funcName()] = true
	}
	return m
}

func runConvStream(o Opts, n int) {
	w := NewCaseWriter(o.Out, "ccases", hdrA, "amism", 10)
	w.Type = "acase"
	w.Rule = "C: history = source with non-zero entries (sparse: also stored zeros), As-conversion (all 160 same-element-type (from x to) pairs in rotation, typed and generic entry points), mutations of BOTH sides, a second source/conversion of the 1440 pairs in rotation, >= 20 mutations in all; non-trivial = both conversions returned and >= 20 mutations"
	base := aBase(o.Seed)
	if n < len(samePairs) {
		n = len(samePairs) // every same-element-type pair on every run
	}
	for i := 0; i < n; i++ {
		c := genACase(base.Split(), o.Seed, i)
		for _, p := range c.Pairs {
			w.CountN("C:pair:"+p, 1)
		}
		for _, d := range c.Descs {
			w.CountN("C:op:"+strings.SplitN(d, "(", 2)[0], 1)
		}
		if c.W == 3 {
			w.CountN("C:with-derivatives", 1)
		}
		w.Add(c.Coq(), c.raw(), strings.Join(c.Pairs, ",")+fmt.Sprint(len(c.Steps)), len(c.Pairs) == 2 && c.NMut >= 20)
	}
	// the conversion functions of the library source against the table
	repo := os.Getenv("C12_REPO")
	if repo == "" {
		repo = "/repo"
	}
	funcs, views, err := enumConversions(repo)
	cov := coveredConversions()
	unc := []string{}
	for _, f := range funcs {
		if !cov[f] {
			unc = append(unc, f)
		}
	}
	if err != nil {
		unc = append(unc, "go/parser: "+err.Error())
	}
	w.Extra["conversion_functions_in_source"] = funcs
	w.Extra["conversion_functions_uncovered"] = unc
	w.Extra["reshaping_view_methods_not_copies"] = views
	w.Extra["conversion_pairs_total"] = len(allPairs)
	if err := w.Flush(); err != nil {
		Die("flush: %v", err)
	}
}
