// C12 harness: copies are independent, read-only inputs stay unchanged.
// Streams (see coq/C12/Corr.v): S scalars / dense vectors of magic scalars, M dense matrices,
// J (round 3, coq/C12/CorrJ.v) entry points of the Real containers on operands holding jets at order 2,
// C (round 5, coq/C12/CorrA.v) As-conversions between representations, I (round 5) clones of plain and joint iterators,
// V sparse vectors, E algorithm entry points and distribution constructors, H (coq/C12/CorrH.v) HISTORIES:
// sequences of calls of one entry point sharing a caller-owned InSitu struct, and of one estimator,
// O (round 6, coq/C12/CorrO.v) option lists passed from a caller-held slice with spare capacity.
//
//	c12 --seed S --n N --out DIR [--tier quick|thorough]        correspondence cases
//	c12 --extra hunt  --seed S --n N --out DIR                   property-level search on the implementation
//	c12 --replay FILE --out DIR                                  re-execute one reported case
package main

import (
	"encoding/json"
	"fmt"
	"os"
	"path/filepath"
	"strings"

	. "adharness/common"
)

const hdr = "From Coq Require Import ZArith List Bool Floats.\nFrom ADV Require Import C01.Model C12.ModelS C12.Corr C12.ModelId C12.CorrI.\nImport ListNotations.\n"
const hdrZ = "From Coq Require Import ZArith List Bool.\nFrom ADV Require Import C10.Model C11.Model C12.ModelM C12.CorrZ.\nImport ListNotations.\nOpen Scope Z_scope.\n"

type Finding struct {
	Stream  string      `json:"stream"`
	Site    string      `json:"site"`
	Failure string      `json:"failure"`
	Case    interface{} `json:"case"`
	At      int         `json:"at"`
}

func writeJSON(path string, v interface{}) {
	b, _ := json.MarshalIndent(v, "", " ")
	os.WriteFile(path, b, 0644)
}

func main() {
	o := ParseFlags()
	os.MkdirAll(o.Out, 0755)
	switch {
	case o.Replay != "" && o.Extra != "hunt":
		os.Exit(replay(o))
	case o.Extra == "hunt":
		os.Exit(hunt(o))
	case o.Extra == "o": // only the round-6 stream (debugging aid)
		runOptStream(o, NewRng(o.Seed), o.N)
		return
	case o.Extra == "e": // only stream E (debugging aid)
		runEntryStream(o, NewRng(o.Seed), o.N)
		return
	case o.Extra == "ci": // only the round-5 streams (debugging aid)
		runConvStream(o, o.N)
		runIterStream(o, o.N)
		return
	}
	rng := NewRng(o.Seed)
	nS, nM, nV, nE := o.N, o.N, o.N/2, o.N
	// ---- S
	{
		w := NewCaseWriter(o.Out, "scases", hdr, "smism2", 12)
		w.Type = "scase2"
		w.Rule = "S: history with a copy (Clone / As-conversion / generic Set / typed SET, 7 of 10 at order 2 with N >= 2 and off-diagonal Hessian entries) followed by >= 20 operations (typed and generic spellings, in-place arithmetic on the copy); slice identities of every register reported after every operation"
		r := rng.Split()
		for i := 0; i < nS; i++ {
			obs, hist := genSHistory(r.Split(), 20+r.Intn(8))
			for k, v := range hist {
				w.CountN(k, v)
			}
			ops := make([]SOp, len(obs))
			key := []string{}
			for j := range obs {
				ops[j] = obs[j].Op
				key = append(key, obs[j].Op.K+obs[j].Op.Ins)
			}
			w.Add(sCaseCoq(obs), map[string]interface{}{"stream": "S", "ops": ops}, strings.Join(key, ","), len(obs) >= 20)
		}
		if err := w.Flush(); err != nil {
			Die("flush: %v", err)
		}
	}
	// ---- M
	{
		w := NewCaseWriter(o.Out, "mcases", hdrZ, "mmism", 25)
		w.Type = "mcase"
		w.Rule = "M: history on a world of dense matrices of one of the 9 element types with views and clones; >= 20 operations after the first Clone"
		w.Extra["dense_matrix_element_types"] = mtypeNames()
		r := rng.Split()
		for i := 0; i < nM; i++ {
			// every dense element type separately: the first 6 histories of each type start with a clone
			// (CloneMatrix / AsDenseXMatrix / Clone) of a transposed, column-restricted view; then round robin
			typ, directed := i%len(mtypes), -1
			if i < 6*len(mtypes) {
				directed = i / len(mtypes)
			}
			c, hist, key := genMHistoryT(r.Split(), 20+r.Intn(8), typ, directed)
			for k, v := range hist {
				w.CountN(k, v)
			}
			w.Add(c.Coq(), map[string]interface{}{"stream": "M", "typ": c.Typ, "real": c.Real, "ops": c.Ops}, key, len(c.Ops) >= 20)
		}
		if err := w.Flush(); err != nil {
			Die("flush: %v", err)
		}
	}
	// ---- V
	{
		w := NewCaseWriter(o.Out, "vcases", hdrZ, "vmism", 25)
		w.Type = "vcase"
		w.Rule = "V: sparse vector history with Clone and >= 20 later operations on either side"
		r := rng.Split()
		for i := 0; i < nV; i++ {
			c, hist, key := genVHistory(r.Split(), 20+r.Intn(8))
			for k, v := range hist {
				w.CountN(k, v)
			}
			w.Add(c.Coq(), map[string]interface{}{"stream": "V", "ops": c.Ops}, key, len(c.Ops) >= 20)
		}
		if err := w.Flush(); err != nil {
			Die("flush: %v", err)
		}
	}
	// ---- J (round 3): typed containers of jets
	runJetStream(o, jRng(o.Seed), o.N)
	// ---- C (round 5): As-conversions in the cell model; I (round 5): iterator clones
	runConvStream(o, o.N)
	runIterStream(o, o.N)
	// ---- E
	runEntryStream(o, rng.Split(), nE)
	// ---- H
	runSeqStream(o, rng.Split(), o.N/4)
	// ---- O (round 6): option lists held by the caller
	runOptStream(o, rng.Split(), o.N)
	fmt.Println("done")
}

func replay(o Opts) int {
	b, err := os.ReadFile(o.Replay)
	if err != nil {
		Die("replay: %v", err)
	}
	var rp struct {
		Case json.RawMessage `json:"case"`
	}
	if err := json.Unmarshal(b, &rp); err != nil || rp.Case == nil {
		Die("replay: no case in %s", o.Replay)
	}
	var head struct {
		Stream string `json:"stream"`
	}
	json.Unmarshal(rp.Case, &head)
	f := replayCase(head.Stream, rp.Case, o.Out)
	writeJSON(filepath.Join(o.Out, "hunt.json"), map[string]interface{}{"found": f != nil, "finding": f})
	if f != nil {
		fmt.Println("property oracle:", f.Failure)
		return 1
	}
	fmt.Println("property oracle: holds")
	return 0
}
