// Stream M: histories on a world of dense matrices (Float64 or Real64 elements) with views and
// clones.  Storages are identified by the address of their backing array (hook VerifC12StorageID),
// contents and headers come from the C10 hooks (VerifC10Storage / VerifC10Header).
package main

import (
	"fmt"
	"math"
	"reflect"
	"strings"

	. "adharness/common"

	ad "github.com/pbenner/autodiff"
)

type MOp struct {
	K    string  `json:"k"` // New Clone View SetAt Reset SetIdentity Set Ew MdotM Swap SwapRows SwapCols
	Rows int     `json:"rows,omitempty"`
	Cols int     `json:"cols,omitempty"`
	Vals []int64 `json:"vals,omitempty"`
	T    int     `json:"t,omitempty"`
	U    int     `json:"u,omitempty"`
	R    int     `json:"r,omitempty"`
	View string  `json:"view,omitempty"` // Slice ConstSlice T
	A    [4]int  `json:"a,omitempty"`    // slice bounds / swap indices
	I    int     `json:"i,omitempty"`
	J    int     `json:"j,omitempty"`
	V    int64   `json:"v,omitempty"`
	F    int     `json:"f,omitempty"`
	Var  int     `json:"var,omitempty"`
}

func (o *MOp) Coq() string {
	switch o.K {
	case "New":
		return fmt.Sprintf("(MNew %d %d %s)", o.Rows, o.Cols, ZList(o.Vals))
	case "Clone":
		return fmt.Sprintf("(MClone %d)", o.T)
	case "View":
		switch o.View {
		case "T":
			return fmt.Sprintf("(MView %d VT)", o.T)
		case "Slice":
			return fmt.Sprintf("(MView %d (VSlice %d %d %d %d))", o.T, o.A[0], o.A[1], o.A[2], o.A[3])
		default:
			return fmt.Sprintf("(MView %d (VCSlice %d %d %d %d))", o.T, o.A[0], o.A[1], o.A[2], o.A[3])
		}
	case "SetAt":
		return fmt.Sprintf("(MSetAt %d %d %d %s)", o.T, o.I, o.J, Z(o.V))
	case "Reset":
		return fmt.Sprintf("(MReset %d)", o.T)
	case "SetIdentity":
		return fmt.Sprintf("(MSetIdentity %d)", o.T)
	case "Set":
		return fmt.Sprintf("(MSet %d %d)", o.T, o.U)
	case "Ew":
		return fmt.Sprintf("(MEw %d %d %d %d)", o.F, o.R, o.T, o.U)
	case "MdotM":
		return fmt.Sprintf("(MMdotM %d %d %d)", o.R, o.T, o.U)
	case "Swap":
		return fmt.Sprintf("(MSwap %d %d %d %d %d)", o.T, o.A[0], o.A[1], o.A[2], o.A[3])
	case "SwapRows":
		return fmt.Sprintf("(MSwapRows %d %d %d)", o.T, o.I, o.J)
	case "SwapCols":
		return fmt.Sprintf("(MSwapCols %d %d %d)", o.T, o.I, o.J)
	}
	panic("unknown mop " + o.K)
}

// dense matrix element types: every instantiation of the templates is exercised separately
type mtype struct {
	name  string
	real  bool
	bound int64 // |entries| up to which elementwise / dot products stay exactly representable
	mk    func(v []float64, r, c int) ad.Matrix
	as    func(m ad.ConstMatrix) ad.Matrix
	clone func(m ad.Matrix) ad.Matrix
}

func convInt(v []float64) []int {
	r := make([]int, len(v))
	for i, x := range v {
		r[i] = int(x)
	}
	return r
}
func convI8(v []float64) []int8 {
	r := make([]int8, len(v))
	for i, x := range v {
		r[i] = int8(x)
	}
	return r
}
func convI16(v []float64) []int16 {
	r := make([]int16, len(v))
	for i, x := range v {
		r[i] = int16(x)
	}
	return r
}
func convI32(v []float64) []int32 {
	r := make([]int32, len(v))
	for i, x := range v {
		r[i] = int32(x)
	}
	return r
}
func convI64(v []float64) []int64 {
	r := make([]int64, len(v))
	for i, x := range v {
		r[i] = int64(x)
	}
	return r
}
func convF32(v []float64) []float32 {
	r := make([]float32, len(v))
	for i, x := range v {
		r[i] = float32(x)
	}
	return r
}

var mtypes = []mtype{
	{"float64", false, 1000000, func(v []float64, r, c int) ad.Matrix { return ad.NewDenseFloat64Matrix(v, r, c) },
		func(m ad.ConstMatrix) ad.Matrix { return ad.AsDenseFloat64Matrix(m) }, func(m ad.Matrix) ad.Matrix { return m.(*ad.DenseFloat64Matrix).Clone() }},
	{"real64", true, 1000000, func(v []float64, r, c int) ad.Matrix { return ad.NewDenseReal64Matrix(v, r, c) },
		func(m ad.ConstMatrix) ad.Matrix { return ad.AsDenseReal64Matrix(m) }, func(m ad.Matrix) ad.Matrix { return m.(*ad.DenseReal64Matrix).Clone() }},
	{"float32", false, 2000, func(v []float64, r, c int) ad.Matrix { return ad.NewDenseFloat32Matrix(convF32(v), r, c) },
		func(m ad.ConstMatrix) ad.Matrix { return ad.AsDenseFloat32Matrix(m) }, func(m ad.Matrix) ad.Matrix { return m.(*ad.DenseFloat32Matrix).Clone() }},
	{"int", false, 1000000, func(v []float64, r, c int) ad.Matrix { return ad.NewDenseIntMatrix(convInt(v), r, c) },
		func(m ad.ConstMatrix) ad.Matrix { return ad.AsDenseIntMatrix(m) }, func(m ad.Matrix) ad.Matrix { return m.(*ad.DenseIntMatrix).Clone() }},
	{"int8", false, 5, func(v []float64, r, c int) ad.Matrix { return ad.NewDenseInt8Matrix(convI8(v), r, c) },
		func(m ad.ConstMatrix) ad.Matrix { return ad.AsDenseInt8Matrix(m) }, func(m ad.Matrix) ad.Matrix { return m.(*ad.DenseInt8Matrix).Clone() }},
	{"int16", false, 90, func(v []float64, r, c int) ad.Matrix { return ad.NewDenseInt16Matrix(convI16(v), r, c) },
		func(m ad.ConstMatrix) ad.Matrix { return ad.AsDenseInt16Matrix(m) }, func(m ad.Matrix) ad.Matrix { return m.(*ad.DenseInt16Matrix).Clone() }},
	{"int32", false, 20000, func(v []float64, r, c int) ad.Matrix { return ad.NewDenseInt32Matrix(convI32(v), r, c) },
		func(m ad.ConstMatrix) ad.Matrix { return ad.AsDenseInt32Matrix(m) }, func(m ad.Matrix) ad.Matrix { return m.(*ad.DenseInt32Matrix).Clone() }},
	{"int64", false, 1000000, func(v []float64, r, c int) ad.Matrix { return ad.NewDenseInt64Matrix(convI64(v), r, c) },
		func(m ad.ConstMatrix) ad.Matrix { return ad.AsDenseInt64Matrix(m) }, func(m ad.Matrix) ad.Matrix { return m.(*ad.DenseInt64Matrix).Clone() }},
	{"real32", true, 2000, func(v []float64, r, c int) ad.Matrix { return ad.NewDenseReal32Matrix(convF32(v), r, c) },
		func(m ad.ConstMatrix) ad.Matrix { return ad.AsDenseReal32Matrix(m) }, func(m ad.Matrix) ad.Matrix { return m.(*ad.DenseReal32Matrix).Clone() }},
}

// address of the backing array of a dense matrix of any element type (field `values`)
func storageAddr(m ad.ConstMatrix) uintptr {
	v := reflect.ValueOf(m)
	if v.Kind() != reflect.Ptr || v.IsNil() {
		return 0
	}
	f := v.Elem().FieldByName("values")
	if !f.IsValid() || f.Kind() != reflect.Slice || f.Len() == 0 {
		return 0
	}
	return f.Pointer()
}

type mworld struct {
	typ    int
	real   bool
	mats   []ad.Matrix
	loc    map[uintptr]int
	keep   []ad.Matrix // one matrix per storage (keeps the backing array alive and readable)
	last   [][]int64
	matloc []int
}

func newMWorld(typ int) *mworld {
	return &mworld{typ: typ, real: mtypes[typ].real, loc: map[uintptr]int{}}
}

func (w *mworld) exec(o *MOp) (nm ad.Matrix, panicked bool) {
	defer func() {
		if r := recover(); r != nil {
			panicked = true
			nm = nil
		}
	}()
	switch o.K {
	case "New":
		vals := make([]float64, len(o.Vals))
		for i, v := range o.Vals {
			vals[i] = float64(v)
		}
		return mtypes[w.typ].mk(vals, o.Rows, o.Cols), false
	case "Clone":
		m := w.mats[o.T]
		switch o.Var % 3 {
		case 0:
			return m.CloneMatrix(), false
		case 1:
			return mtypes[w.typ].as(m), false
		default:
			return mtypes[w.typ].clone(m), false
		}
	case "View":
		m := w.mats[o.T]
		switch o.View {
		case "T":
			return m.T(), false
		case "Slice":
			return m.Slice(o.A[0], o.A[1], o.A[2], o.A[3]), false
		default:
			return m.ConstSlice(o.A[0], o.A[1], o.A[2], o.A[3]).(ad.Matrix), false
		}
	case "SetAt":
		w.mats[o.T].At(o.I, o.J).SetFloat64(float64(o.V))
	case "Reset":
		w.mats[o.T].Reset()
	case "SetIdentity":
		w.mats[o.T].SetIdentity()
	case "Set":
		w.mats[o.T].Set(w.mats[o.U])
	case "Ew":
		r, a, b := w.mats[o.R], w.mats[o.T], w.mats[o.U]
		switch o.F {
		case 0:
			r.MaddM(a, b)
		case 1:
			r.MsubM(a, b)
		default:
			r.MmulM(a, b)
		}
	case "MdotM":
		w.mats[o.R].MdotM(w.mats[o.T], w.mats[o.U])
	case "Swap":
		w.mats[o.T].Swap(o.A[0], o.A[1], o.A[2], o.A[3])
	case "SwapRows":
		w.mats[o.T].SwapRows(o.I, o.J)
	case "SwapCols":
		w.mats[o.T].SwapColumns(o.I, o.J)
	}
	return nil, false
}

type MObs struct {
	Op     MOp
	Kind   int
	Stores map[int][]int64
	Hdrs   map[int]MHdr
}
type MHdr struct {
	Loc int
	H   []int64
}

func storageOf(m ad.Matrix) []int64 {
	fs := ad.VerifC10Storage(m)
	r := make([]int64, len(fs))
	for i, f := range fs {
		if math.IsNaN(f) || math.IsInf(f, 0) || math.Abs(f) > 1e15 || f != math.Trunc(f) {
			r[i] = -999999999999 // not an exact small integer: never equals the model
		} else {
			r[i] = int64(f)
		}
	}
	return r
}
func hdrOf(m ad.Matrix) []int64 {
	h, _ := ad.VerifC10Header(m)
	t := int64(0)
	if h.Transposed {
		t = 1
	}
	return []int64{int64(h.Rows), int64(h.Cols), int64(h.RowOffset), int64(h.RowMax), int64(h.ColOffset), int64(h.ColMax), t}
}

func (w *mworld) step(o *MOp) MObs {
	nm, p := w.exec(o)
	ob := MObs{Op: *o, Stores: map[int][]int64{}, Hdrs: map[int]MHdr{}}
	if p {
		ob.Kind = 1
		return ob
	}
	if nm != nil {
		w.mats = append(w.mats, nm)
		addr := storageAddr(nm)
		if a2, ln := ad.VerifC12StorageID(nm); ln >= 0 && a2 != addr {
			panic("storage identity: hook and reflection disagree")
		}
		l, ok := w.loc[addr]
		if !ok {
			l = len(w.keep)
			w.loc[addr] = l
			w.keep = append(w.keep, nm)
			w.last = append(w.last, nil)
		}
		w.matloc = append(w.matloc, l)
		ob.Hdrs[len(w.mats)-1] = MHdr{l, hdrOf(nm)}
	}
	for l, m := range w.keep {
		s := storageOf(m)
		if w.last[l] == nil || !int64sEq(s, w.last[l]) {
			ob.Stores[l] = s
			w.last[l] = s
		}
	}
	return ob
}
func int64sEq(a, b []int64) bool {
	if len(a) != len(b) {
		return false
	}
	for i := range a {
		if a[i] != b[i] {
			return false
		}
	}
	return true
}
func (w *mworld) maxAbs() int64 {
	m := int64(0)
	for _, s := range w.last {
		for _, x := range s {
			if x < 0 {
				x = -x
			}
			if x > m {
				m = x
			}
		}
	}
	return m
}

func (ob *MObs) Coq() string {
	var ss, hs []string
	ks := []int{}
	for k := range ob.Stores {
		ks = append(ks, k)
	}
	sortInts(ks)
	for _, k := range ks {
		ss = append(ss, fmt.Sprintf("(%d%%nat, %s)", k, ZList(ob.Stores[k])))
	}
	ks = ks[:0]
	for k := range ob.Hdrs {
		ks = append(ks, k)
	}
	sortInts(ks)
	for _, k := range ks {
		hs = append(hs, fmt.Sprintf("(%d%%nat, (%d%%nat, %s))", k, ob.Hdrs[k].Loc, ZList(ob.Hdrs[k].H)))
	}
	return fmt.Sprintf("mkMO %s %d %s %s", ob.Op.Coq(), ob.Kind, List(ss), List(hs))
}

type MCase struct {
	Typ  int
	Real bool
	Ops  []MOp
	Obs  []MObs
}

func (c MCase) Coq() string {
	s := make([]string, len(c.Obs))
	for i := range c.Obs {
		s[i] = c.Obs[i].Coq()
	}
	return fmt.Sprintf("mkMC %s [%s]", B(c.Real), strings.Join(s, ";\n   "))
}

func dimsOf(m ad.Matrix) (int, int) { return m.Dims() }

// genMHistory: typ < 0 draws the element type; directed >= 0 starts with a clone of a TRANSPOSED,
// column-restricted view (clone variant directed % 3) before the random continuation.
func genMHistory(r *Rng, n int) (MCase, map[string]int, string) { return genMHistoryT(r, n, -1, -1) }

func genMHistoryT(r *Rng, n, typ, directed int) (MCase, map[string]int, string) {
	if typ < 0 {
		typ = r.Intn(len(mtypes))
	}
	c := MCase{Typ: typ, Real: mtypes[typ].real}
	w := newMWorld(typ)
	hist := map[string]int{"M:type:" + mtypes[typ].name: 1}
	key := mtypes[typ].name
	bound := mtypes[typ].bound
	narrow := bound < 1000000
	do := func(o *MOp) bool {
		ob := w.step(o)
		c.Ops = append(c.Ops, *o)
		c.Obs = append(c.Obs, ob)
		hist["M:"+o.K]++
		if o.K == "View" {
			hist["M:View:"+o.View]++
		}
		key += "," + o.K + o.View
		if ob.Kind == 1 {
			hist["M:panic"]++
			return false
		}
		return true
	}
	newOp := func(rows, cols int) *MOp {
		vals := make([]int64, rows*cols)
		for i := range vals {
			vals[i] = int64(r.Range(-3, 3))
		}
		return &MOp{K: "New", Rows: rows, Cols: cols, Vals: vals}
	}
	n0 := r.Range(2, 4)
	m0 := n0
	if r.Intn(3) == 0 {
		m0 = r.Range(1, 4)
	}
	if directed >= 0 {
		n0, m0 = r.Range(2, 4), r.Range(3, 4)
	}
	do(newOp(n0, m0))
	if r.Bool() {
		do(newOp(n0, m0))
	}
	viewOp := func(t int) *MOp {
		rows, cols := dimsOf(w.mats[t])
		switch r.Intn(4) {
		case 0:
			return &MOp{K: "View", T: t, View: "T"}
		default:
			a := r.Intn(rows + 1)
			b := a + r.Intn(rows-a+1)
			cc := r.Intn(cols + 1)
			d := cc + r.Intn(cols-cc+1)
			if r.Intn(3) != 0 && rows > 0 && cols > 0 { // mostly non-empty
				a = r.Intn(rows)
				b = a + 1 + r.Intn(rows-a)
				cc = r.Intn(cols)
				d = cc + 1 + r.Intn(cols-cc)
			}
			v := "Slice"
			if r.Intn(3) == 0 {
				v = "ConstSlice"
			}
			return &MOp{K: "View", T: t, View: v, A: [4]int{a, b, cc, d}}
		}
	}
	// a view before the copy, so that clones of views occur
	cvar := r.Intn(3)
	src := -1
	if directed >= 0 {
		// T, then a slice of the transposed matrix that keeps all its rows but not all its columns
		// (and, every other time, a row restriction as well): the copy must hold every element of it
		hist["M:directed clone of a transposed column-restricted view"]++
		base := len(w.mats) - 1
		do(&MOp{K: "View", T: base, View: "T"})
		t := len(w.mats) - 1
		rows, cols := dimsOf(w.mats[t])
		c0 := r.Intn(cols - 1)
		c1 := c0 + 1 + r.Intn(cols-c0-1+1)
		if c0 == 0 && c1 == cols {
			c0 = 1
		}
		r0, r1 := 0, rows
		if (directed/3)%2 == 1 && rows > 1 {
			r0 = r.Intn(rows - 1)
			r1 = r0 + 1 + r.Intn(rows-r0)
		}
		do(&MOp{K: "View", T: t, View: "Slice", A: [4]int{r0, r1, c0, c1}})
		src = len(w.mats) - 1
		cvar = directed % 3
	} else if r.Bool() {
		do(viewOp(0))
	}
	if src < 0 {
		src = r.Intn(len(w.mats))
	}
	do(&MOp{K: "Clone", T: src, Var: cvar})
	cpy := len(w.mats) - 1
	sameDims := func(t int) []int {
		a, b := dimsOf(w.mats[t])
		var l []int
		for u := range w.mats {
			x, y := dimsOf(w.mats[u])
			if x == a && y == b {
				l = append(l, u)
			}
		}
		return l
	}
	for i := 0; i < n; i++ {
		t := src
		switch r.Intn(5) {
		case 0, 1:
			t = cpy
		case 2, 3:
			t = r.Intn(len(w.mats))
		}
		rows, cols := dimsOf(w.mats[t])
		arith := w.maxAbs() <= bound
		var o *MOp
		switch r.Pick([]int{25, 4, 4, 8, 10, 6, 6, 4, 4, 8, 8, 3}) {
		case 0:
			if rows == 0 || cols == 0 {
				continue
			}
			o = &MOp{K: "SetAt", T: t, I: r.Intn(rows), J: r.Intn(cols), V: int64(r.Range(-5, 5))}
		case 1:
			o = &MOp{K: "Reset", T: t}
		case 2:
			o = &MOp{K: "SetIdentity", T: t}
		case 3:
			l := sameDims(t)
			o = &MOp{K: "Set", T: t, U: l[r.Intn(len(l))]}
			if r.Intn(15) == 0 {
				o.U = r.Intn(len(w.mats)) // possibly mismatching dimensions: panic
			}
		case 4:
			if !arith {
				continue
			}
			l := sameDims(t)
			o = &MOp{K: "Ew", F: r.Intn(3), R: t, T: l[r.Intn(len(l))], U: l[r.Intn(len(l))]}
			if narrow && (w.matloc[o.T] == w.matloc[t] || w.matloc[o.U] == w.matloc[t]) && o.F == 2 {
				continue
			}
			if o.F == 2 && (w.matloc[o.T] == w.matloc[t] || w.matloc[o.U] == w.matloc[t]) && w.maxAbs() > 1000 {
				continue
			}
		case 5:
			if !arith || rows != cols {
				continue
			}
			l := sameDims(t)
			o = &MOp{K: "MdotM", R: t, T: l[r.Intn(len(l))], U: l[r.Intn(len(l))]}
			if narrow && (w.matloc[o.T] == w.matloc[t] || w.matloc[o.U] == w.matloc[t]) {
				continue
			}
			// receiver aliasing BOTH operands feeds results back into the same call: magnitudes leave the
			// exactly representable integers; one aliased operand (either branch of the aliasing test) is generated
			if w.matloc[o.T] == w.matloc[t] && w.matloc[o.U] == w.matloc[t] {
				continue
			}
			// an operand that is a (transposed / shifted) view of the receiver's storage also feeds back, bounded
			if (w.matloc[o.T] == w.matloc[t] || w.matloc[o.U] == w.matloc[t]) && w.maxAbs() > 20 {
				continue
			}
		case 6:
			if rows == 0 || cols == 0 {
				continue
			}
			o = &MOp{K: "Swap", T: t, A: [4]int{r.Intn(rows), r.Intn(cols), r.Intn(rows), r.Intn(cols)}}
		case 7:
			if rows == 0 || rows != cols {
				continue
			}
			o = &MOp{K: "SwapRows", T: t, I: r.Intn(rows), J: r.Intn(rows)}
		case 8:
			if cols == 0 || rows != cols {
				continue
			}
			o = &MOp{K: "SwapCols", T: t, I: r.Intn(cols), J: r.Intn(cols)}
		case 9:
			if len(w.mats) >= 8 {
				continue
			}
			o = viewOp(t)
		case 10:
			if len(w.mats) >= 8 {
				continue
			}
			o = &MOp{K: "Clone", T: t, Var: r.Intn(3)}
		case 11:
			if len(w.mats) >= 8 {
				continue
			}
			o = newOp(r.Range(1, 3), r.Range(1, 3))
		}
		if !do(o) {
			break
		}
	}
	return c, hist, key
}

func replayM(typ int, ops []MOp) []MObs {
	w := newMWorld(typ)
	var obs []MObs
	for i := range ops {
		ob := w.step(&ops[i])
		obs = append(obs, ob)
		if ob.Kind == 1 {
			break
		}
	}
	return obs
}

func mtypeNames() []string {
	r := make([]string, len(mtypes))
	for i, t := range mtypes {
		r[i] = t.name
	}
	return r
}
