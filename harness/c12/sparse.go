// Stream V: clone-then-mutate histories on sparse vectors, executed with the C11 executor
// (sparse_c11.go) and replayed by coq/C11/Model.v.  In-range operations only.
package main

import (
	"fmt"

	. "adharness/common"
)

type VCase struct {
	Type string `json:"type"`
	Ops  []Op   `json:"ops"`
	Outs []Out  `json:"outs,omitempty"`
}

func (c VCase) Coq() string { return coqCase(Case{Type: c.Type, Ops: c.Ops, Outs: c.Outs}) }

func smallVal(r *Rng) int64 {
	if r.Intn(5) == 0 {
		return 0
	}
	return int64(r.Range(-8, 8))
}

// genVOps: construction, a Clone, then n operations aimed at the source or the copy
func genVHistory(r *Rng, n int) (VCase, map[string]int, string) {
	types := []string{"float64", "real64", "int", "float32"}
	c := VCase{Type: types[r.Pick([]int{5, 3, 1, 1})]}
	w := &World{Type: c.Type}
	hist := map[string]int{}
	key := c.Type
	do := func(o Op) bool {
		k, p := w.execOne(o)
		_, h := w.observe()
		c.Ops = append(c.Ops, o)
		c.Outs = append(c.Outs, Out{k, p, h})
		hist["V:"+o.Op]++
		key += "," + o.Op
		return k == K_OK
	}
	dimOf := func(t int) int { return w.V[t].Dim() }
	newVec := func(n int) Op {
		ks, xs := []int64{}, []int64{}
		for i := 0; i < n; i++ {
			if r.Intn(2) == 0 {
				ks = append(ks, int64(i))
				xs = append(xs, smallVal(r))
			}
		}
		return Op{Op: "New", L: ks, L2: xs, I: int64(n)}
	}
	dim := r.Range(3, 7)
	do(newVec(dim))
	do(newVec(dim))
	// some history before the copy: stored zeros, value-less index keys
	for i := 0; i < r.Range(0, 4); i++ {
		t := r.Intn(len(w.V))
		switch r.Intn(3) {
		case 0:
			do(Op{Op: "SetAt", T: t, I: int64(r.Intn(dimOf(t))), X: smallVal(r)})
		case 1:
			do(Op{Op: "At", T: t, I: int64(r.Intn(dimOf(t)))})
		default:
			do(Op{Op: "Swap", T: t, I: int64(r.Intn(dimOf(t))), J: int64(r.Intn(dimOf(t)))})
		}
	}
	src := r.Intn(len(w.V))
	do(Op{Op: "Clone", T: src})
	cpy := len(w.V) - 1
	muls := 0
	for i := 0; i < n; i++ {
		t := src
		switch r.Intn(5) {
		case 0, 1:
			t = cpy
		case 2:
			t = r.Intn(len(w.V))
		}
		d := dimOf(t)
		if d == 0 {
			continue
		}
		var o Op
		switch r.Pick([]int{30, 6, 5, 5, 5, 4, 4, 5, 4, 6, 4, 3, 3, 3, 3}) {
		case 0:
			o = Op{Op: "SetAt", T: t, I: int64(r.Intn(d)), X: smallVal(r)}
		case 1:
			o = Op{Op: "At", T: t, I: int64(r.Intn(d))}
		case 2:
			o = Op{Op: "Reset", T: t}
		case 3:
			o = Op{Op: "Swap", T: t, I: int64(r.Intn(d)), J: int64(r.Intn(d))}
		case 4:
			o = Op{Op: "ReverseOrder", T: t}
		case 5:
			o = Op{Op: "Sort", T: t, B: r.Bool()}
		case 6:
			pi := make([]int64, d)
			for k := range pi {
				pi[k] = int64(k)
			}
			for k := d - 1; k > 0; k-- {
				j := r.Intn(k + 1)
				pi[k], pi[j] = pi[j], pi[k]
			}
			o = Op{Op: "Permute", T: t, L: pi}
		case 7:
			o = Op{Op: "Iterate", T: t} // skip() mutates the representation of t, not what it reads
		case 8:
			o = Op{Op: "IterPart", T: t, I: int64(r.Intn(3))}
		case 9: // Set from the other side / a dense operand: the operand must stay as it is
			u := -1
			var l []int64
			if r.Bool() {
				for k := 0; k < len(w.V); k++ {
					cand := r.Intn(len(w.V))
					if cand != t && dimOf(cand) == d {
						u = cand
						break
					}
				}
			}
			if u < 0 {
				l = make([]int64, d)
				for k := range l {
					l[k] = smallVal(r)
				}
			}
			o = Op{Op: "SetV", T: t, U: u, L: l}
		case 10:
			if muls >= 3 {
				continue
			}
			muls++
			o = Op{Op: "MapMul", T: t, X: int64([]int{-1, 0, 2}[r.Intn(3)])}
		case 11:
			o = Op{Op: "Clone", T: t}
		case 12:
			o = Op{Op: "ReduceSum", T: t}
		case 13:
			o = Op{Op: "ConstAt", T: t, I: int64(r.Intn(d))}
		case 14:
			u := -1
			l := make([]int64, d)
			for k := range l {
				l[k] = smallVal(r)
			}
			o = Op{Op: "Joint", T: t, U: u, L: l}
		}
		if len(w.V) >= 6 && o.Op == "Clone" {
			continue
		}
		if !do(o) {
			break
		}
	}
	return c, hist, fmt.Sprintf("%s", key)
}
