// Stream J (round 3): typed containers of JETS (Real64 / Real32 elements with value, gradient and Hessian at
// order 2, N >= 2).  One case = one copying / read-only entry point of the sparse and dense Real containers:
//   - the read-only operands' FULL observation (every slot of every position) before and after the call;
//   - which stored entries of the iterated operand survived, against the modelled nullScalar (coq/C12/ModelJ.v);
//   - a copy must observe like its source (Row/Col/As-conversions/Set/SET/Clone);
//   - SLICE IDENTITY of every live scalar (Derivative, Hessian, every Hessian row): pairwise different;
//   - >= 20 mutations of the copy (in-place arithmetic included) with the operands observed around each.
//
// Decided by coq/C12/CorrJ.v (vm_compute).  Stored entries are read by reflection (unexported map), no hook.
package main

import (
	"fmt"
	"math"
	"reflect"
	"strings"
	"unsafe"

	. "adharness/common"

	ad "github.com/pbenner/autodiff"
)

const jN = 3 // slots are observed for k, l < jN (zero beyond a scalar's own N)

type jworld struct {
	k32 bool
	n   int // N of every jet of the case (the dyadic operations demand one N)
}

func (w jworld) newScalar(v float64) ad.MagicScalar {
	if w.k32 {
		return ad.NewReal32(float32(v))
	}
	return ad.NewReal64(v)
}
func (w jworld) nullSparse(n int) ad.Vector {
	if w.k32 {
		return ad.NullSparseReal32Vector(n)
	}
	return ad.NullSparseReal64Vector(n)
}
func (w jworld) nullDenseMat(n, m int) ad.Matrix {
	if w.k32 {
		return ad.NullDenseReal32Matrix(n, m)
	}
	return ad.NullDenseReal64Matrix(n, m)
}
func (w jworld) nullSparseMat(n, m int) ad.Matrix {
	if w.k32 {
		return ad.NullSparseReal32Matrix(n, m)
	}
	return ad.NullSparseReal64Matrix(n, m)
}

// jet families; returns nil for "absent"
var jetFamilies = []string{"absent", "generic", "v0-grad", "v0-g0-Hdiag", "v0-g0-Hoffdiag", "all-zero-order2", "negzero", "v0-order1-g0", "v0-order0", "generic-order1"}

func (w jworld) jet(r *Rng, fam int) ad.MagicScalar {
	n := w.n
	nz := func() float64 { return []float64{1, -2, 0.5, 3, -1.5}[r.Intn(5)] }
	s := w.newScalar(0)
	switch fam {
	case 0:
		return nil
	case 1:
		s.SetFloat64(nz())
		s.Alloc(n, 2)
		for i := 0; i < n; i++ {
			s.SetDerivative(i, nz())
			for j := 0; j < n; j++ {
				s.SetHessian(i, j, nz())
			}
		}
	case 2:
		s.Alloc(n, 2)
		s.SetDerivative(r.Intn(n), nz())
	case 3:
		s.Alloc(n, 2)
		i := r.Intn(n)
		s.SetHessian(i, i, nz())
	case 4:
		s.Alloc(n, 2)
		i := r.Intn(n)
		j := (i + 1 + r.Intn(n-1)) % n
		v := nz()
		s.SetHessian(i, j, v)
		if r.Intn(2) == 0 {
			s.SetHessian(j, i, v)
		}
	case 5:
		s.Alloc(n, 2)
	case 6:
		s.SetFloat64(math.Copysign(0, -1))
		s.Alloc(n, 2)
	case 7:
		s.Alloc(n, 1)
	case 8:
	case 9:
		s.SetFloat64(nz())
		s.Alloc(n, 1)
		s.SetDerivative(r.Intn(n), nz())
	}
	return s
}

// slots of one scalar: value, d[k], h[k][l] for k, l < jN
func jslots(s ad.ConstScalar) []float64 {
	r := []float64{s.GetFloat64()}
	n := s.GetN()
	for k := 0; k < jN; k++ {
		if k < n {
			r = append(r, s.GetDerivative(k))
		} else {
			r = append(r, 0)
		}
	}
	for k := 0; k < jN; k++ {
		for l := 0; l < jN; l++ {
			if k < n && l < n {
				r = append(r, s.GetHessian(k, l))
			} else {
				r = append(r, 0)
			}
		}
	}
	return r
}
func obsVec(v ad.ConstVector) []float64 {
	r := []float64{float64(v.Dim())}
	for i := 0; i < v.Dim(); i++ {
		r = append(r, jslots(v.ConstAt(i))...)
	}
	return r
}
func obsMat(m ad.ConstMatrix) []float64 {
	n, k := m.Dims()
	r := []float64{float64(n), float64(k)}
	for i := 0; i < n; i++ {
		for j := 0; j < k; j++ {
			r = append(r, jslots(m.ConstAt(i, j))...)
		}
	}
	return r
}
func obsAny(x interface{}) []float64 {
	switch v := x.(type) {
	case ad.ConstMatrix:
		return obsMat(v)
	case ad.ConstVector:
		return obsVec(v)
	case ad.ConstScalar:
		return jslots(v)
	}
	panic("obsAny")
}

// stored entries of a sparse Real vector / matrix (unexported map "values"), by reflection
func storedScalars(x interface{}) map[int]ad.MagicScalar {
	out := map[int]ad.MagicScalar{}
	rv := reflect.ValueOf(x)
	if rv.Kind() != reflect.Ptr || rv.IsNil() {
		return out
	}
	f := rv.Elem().FieldByName("values")
	if !f.IsValid() {
		return out
	}
	if f.Kind() == reflect.Ptr { // sparse matrix: values is the flattened sparse vector
		if f.IsNil() {
			return out
		}
		f = f.Elem().FieldByName("values")
	}
	if f.Kind() != reflect.Map {
		return out
	}
	for _, k := range f.MapKeys() {
		e := f.MapIndex(k)
		if e.Kind() != reflect.Ptr || e.IsNil() {
			continue
		}
		p := unsafe.Pointer(e.Pointer())
		switch e.Type().Elem().Name() {
		case "Real64":
			out[int(k.Int())] = (*ad.Real64)(p)
		case "Real32":
			out[int(k.Int())] = (*ad.Real32)(p)
		}
	}
	return out
}

// every scalar object reachable from a container (dense: all elements; sparse: stored entries)
func scalarsOf(x interface{}) []ad.MagicScalar {
	var r []ad.MagicScalar
	switch v := x.(type) {
	case ad.DenseReal64Vector:
		for _, e := range v {
			r = append(r, e)
		}
	case ad.DenseReal32Vector:
		for _, e := range v {
			r = append(r, e)
		}
	case *ad.DenseReal64Matrix:
		n, m := v.Dims()
		for i := 0; i < n; i++ {
			for j := 0; j < m; j++ {
				r = append(r, v.AT(i, j))
			}
		}
	case *ad.DenseReal32Matrix:
		n, m := v.Dims()
		for i := 0; i < n; i++ {
			for j := 0; j < m; j++ {
				r = append(r, v.AT(i, j))
			}
		}
	case ad.MagicScalar:
		r = append(r, v)
	default:
		st := storedScalars(x)
		keys := []int{}
		for k := range st {
			keys = append(keys, k)
		}
		sortInts(keys)
		for _, k := range keys {
			r = append(r, st[k])
		}
	}
	return r
}

type JCase struct {
	Entry string         `json:"entry"`
	K32   bool           `json:"k32"`
	Fams  []string       `json:"fams"`
	Full  bool           `json:"full"`
	Kind  int            `json:"kind"` // 0 returned, 1 panicked
	RO    [][2][]float64 `json:"-"`
	Eq    [][2][]float64 `json:"-"`
	Null  []jnull        `json:"-"`
	Ids   []int          `json:"ids"`
	Mut   [][2][]float64 `json:"-"`
	NMut  int            `json:"nmut"`
	Bad   string         `json:"bad,omitempty"` // property-level verdict of the harness (hunt / diagnosis)
}
type jnull struct {
	Reg  RegSnap
	Kept bool
}

func pairList(ps [][2][]float64) string {
	s := make([]string, len(ps))
	for i, p := range ps {
		s[i] = "(" + FList(p[0]) + ", " + FList(p[1]) + ")"
	}
	return List(s)
}
func (c *JCase) Coq() string {
	ns := make([]string, len(c.Null))
	for i, x := range c.Null {
		ns[i] = fmt.Sprintf("(%s, %v)", coqReg(x.Reg), x.Kept)
	}
	return fmt.Sprintf("mkJ %v %d %s %s %s %s %s", c.Full, c.Kind, pairList(c.RO), pairList(c.Eq), List(ns), natList(c.Ids), pairList(c.Mut))
}

func oeqF(a, b []float64) bool {
	if len(a) != len(b) {
		return false
	}
	for i := range a {
		if !(feq(a[i], b[i]) || a[i] == 0 && b[i] == 0) {
			return false
		}
	}
	return true
}

var jEntries = []string{"ConstIterator", "String", "VaddV", "VADDV", "VsubV", "VSUBV", "Set", "SET", "Equals", "EQUALS", "CloneVector",
	"AsSparseVector", "AsDenseVector", "AsSparseOtherType", "AsSparseMatrix(dense)", "Row", "Col", "ROW", "COL", "Diag", "MDOTM", "MdotM",
	"JointIterator", "Iterator", "MatrixConstIterator", "AsDenseMatrix(sparse)", "scalar SET", "scalar Clone", "CloneMatrix"}

func call(x interface{}, name string, args ...interface{}) []reflect.Value {
	m := reflect.ValueOf(x).MethodByName(name)
	if !m.IsValid() {
		panic("no method " + name)
	}
	in := make([]reflect.Value, len(args))
	for i, a := range args {
		in[i] = reflect.ValueOf(a)
	}
	return m.Call(in)
}

// genJCase builds the operands, runs entry e and observes
func genJCase(r *Rng, e int, k32 bool) *JCase {
	w := jworld{k32, 2 + r.Intn(2)}
	c := &JCase{Entry: jEntries[e], K32: k32}
	dim := 4 + r.Intn(3)
	mkVec := func(force []int) ad.Vector {
		v := w.nullSparse(dim)
		for i := 0; i < dim; i++ {
			fam := r.Pick([]int{25, 20, 10, 15, 10, 6, 4, 4, 3, 3})
			if i < len(force) {
				fam = force[i]
			}
			c.Fams = append(c.Fams, jetFamilies[fam])
			if j := w.jet(r, fam); j != nil {
				v.At(i).Set(j)
			}
		}
		return v
	}
	// matrices: rows x cols of jets
	mkMat := func(sparse bool, n, m int) ad.Matrix {
		var a ad.Matrix
		if sparse {
			a = w.nullSparseMat(n, m)
		} else {
			a = w.nullDenseMat(n, m)
		}
		for i := 0; i < n; i++ {
			for j := 0; j < m; j++ {
				fam := r.Pick([]int{20, 25, 10, 18, 12, 5, 3, 3, 2, 2})
				if i == 0 && j == 0 {
					fam = 3 + r.Intn(2)
				}
				c.Fams = append(c.Fams, jetFamilies[fam])
				if x := w.jet(r, fam); x != nil {
					a.At(i, j).Set(x)
				}
			}
		}
		return a
	}
	var ro []interface{}      // read-only operands
	var iter interface{}      // the operand whose stored entries are tracked against nullScalar
	var results []interface{} // objects returned / written
	var eqs [][2]interface{}  // (source, copy) that must observe alike
	var before [][]float64
	var stBefore map[int]ad.MagicScalar
	var stSnap map[int]RegSnap
	prep := func() {
		for _, x := range ro {
			before = append(before, obsAny(x))
		}
		if iter != nil {
			stBefore = storedScalars(iter)
			stSnap = map[int]RegSnap{}
			for k, s := range stBefore {
				stSnap[k] = snapReg(s)
			}
		}
	}
	force := []int{3, 4, 2 + r.Intn(3)}
	if x := r.Intn(3); x > 0 {
		force[0], force[x] = force[x], force[0]
	}
	func() {
		defer func() {
			if p := recover(); p != nil {
				c.Kind = 1
				c.Bad = fmt.Sprint("panic: ", p)
			}
		}()
		switch c.Entry {
		case "ConstIterator", "Iterator", "String", "CloneVector", "AsSparseVector", "AsDenseVector", "AsSparseOtherType":
			a := mkVec(force)
			ro, iter = []interface{}{a}, a
			prep()
			switch c.Entry {
			case "ConstIterator":
				c.Full = true
				for it := a.ConstIterator(); it.Ok(); it.Next() {
					_ = it.GetConst()
				}
			case "Iterator":
				c.Full = true
				for it := a.Iterator(); it.Ok(); it.Next() {
					_ = it.Index()
				}
			case "String":
				_ = fmt.Sprint(a)
			case "CloneVector":
				b := a.CloneVector()
				results, eqs = []interface{}{b}, [][2]interface{}{{a, b}}
			case "AsSparseVector":
				var b ad.Vector
				if k32 {
					b = ad.AsSparseReal32Vector(a)
				} else {
					b = ad.AsSparseReal64Vector(a)
				}
				results, eqs = []interface{}{b}, [][2]interface{}{{a, b}}
			case "AsDenseVector":
				var b ad.Vector
				if k32 {
					b = ad.AsDenseReal32Vector(a)
				} else {
					b = ad.AsDenseReal64Vector(a)
				}
				results, eqs = []interface{}{b}, [][2]interface{}{{a, b}}
			case "AsSparseOtherType":
				var b ad.Vector
				if k32 {
					b = ad.AsSparseReal64Vector(a)
					eqs = [][2]interface{}{{a, b}}
				} else {
					b = ad.AsSparseReal32Vector(a) // rounds: only frame and identity are checked
				}
				results = []interface{}{b}
			}
		case "VaddV", "VADDV", "VsubV", "VSUBV", "Equals", "EQUALS", "JointIterator":
			fa := mkVec(force)
			fb := mkVec(nil)
			a, b := fa, fb
			if r.Intn(2) == 0 {
				a, b = fb, fa // the operand with the corner jets comes second
			}
			res := w.nullSparse(dim)
			if r.Intn(2) == 0 {
				res = mkVec(nil)
			}
			ro, iter = []interface{}{fa, fb}, fa
			prep()
			switch c.Entry {
			case "VaddV":
				res.VaddV(a, b)
				results = []interface{}{res}
			case "VsubV":
				res.VsubV(a, b)
				results = []interface{}{res}
			case "VADDV", "VSUBV":
				call(res, c.Entry, a, b)
				results = []interface{}{res}
			case "Equals":
				a.Equals(b, 1e-8)
			case "EQUALS":
				call(a, "EQUALS", b, 1e-8)
			case "JointIterator":
				for it := a.ConstJointIterator(b); it.Ok(); it.Next() {
					_ = it.Index()
				}
			}
		case "Set", "SET":
			a := mkVec(force)
			res := w.nullSparse(dim)
			if r.Intn(2) == 0 {
				res = mkVec(nil)
			}
			ro, iter = []interface{}{a}, a
			prep()
			if c.Entry == "Set" {
				res.Set(a)
			} else {
				call(res, "SET", a)
			}
			results, eqs = []interface{}{res}, [][2]interface{}{{a, res}}
		case "AsSparseMatrix(dense)", "AsDenseMatrix(sparse)", "CloneMatrix", "MatrixConstIterator":
			n, m := 2+r.Intn(2), 2+r.Intn(2)
			a := mkMat(c.Entry != "AsSparseMatrix(dense)" && (c.Entry != "CloneMatrix" || r.Intn(2) == 0), n, m)
			ro, iter = []interface{}{a}, a
			prep()
			var b ad.Matrix
			switch c.Entry {
			case "AsSparseMatrix(dense)":
				if k32 {
					b = ad.AsSparseReal32Matrix(a)
				} else {
					b = ad.AsSparseReal64Matrix(a)
				}
			case "AsDenseMatrix(sparse)":
				if k32 {
					b = ad.AsDenseReal32Matrix(a)
				} else {
					b = ad.AsDenseReal64Matrix(a)
				}
			case "CloneMatrix":
				b = a.CloneMatrix()
			case "MatrixConstIterator":
				for it := a.ConstIterator(); it.Ok(); it.Next() {
					_ = it.GetConst()
				}
			}
			if b != nil {
				results, eqs = []interface{}{b}, [][2]interface{}{{a, b}}
			}
		case "Row", "Col", "ROW", "COL", "Diag":
			n := 2 + r.Intn(2)
			m := n
			if c.Entry != "Diag" {
				m = 2 + r.Intn(2)
			}
			a := mkMat(true, n, m)
			ro, iter = []interface{}{a}, a
			prep()
			var v ad.ConstVector
			var want ad.Vector
			idx := 0 // the row / column holding the forced corner jet
			switch c.Entry {
			case "Row":
				v = a.Row(idx)
			case "Col":
				v = a.Col(idx)
			case "Diag":
				v = a.Diag()
			default:
				v = call(a, c.Entry, idx)[0].Interface().(ad.ConstVector)
			}
			// the expected content, element by element through the public API
			switch c.Entry {
			case "Row", "ROW":
				want = w.nullSparse(m)
				for j := 0; j < m; j++ {
					want.At(j).Set(a.ConstAt(idx, j))
				}
			case "Col", "COL":
				want = w.nullSparse(n)
				for i := 0; i < n; i++ {
					want.At(i).Set(a.ConstAt(i, idx))
				}
			default:
				want = w.nullSparse(n)
				for i := 0; i < n; i++ {
					want.At(i).Set(a.ConstAt(i, i))
				}
			}
			results = []interface{}{v}
			eqs = [][2]interface{}{{want, v}}
		case "MDOTM", "MdotM":
			n, k, m := 2, 2+r.Intn(2), 2
			a, b := mkMat(false, n, k), mkMat(false, k, m)
			res := w.nullDenseMat(n, m)
			ro = []interface{}{a, b}
			prep()
			// reference: the generic product on clones
			ref := w.nullDenseMat(n, m)
			ref.MdotM(a.CloneMatrix(), b.CloneMatrix())
			if c.Entry == "MDOTM" {
				call(res, "MDOTM", a, b)
			} else {
				res.MdotM(a, b)
			}
			results, eqs = []interface{}{res}, [][2]interface{}{{ref, res}}
		case "scalar SET", "scalar Clone":
			a := w.jet(r, []int{1, 3, 4}[r.Intn(3)])
			var b ad.MagicScalar
			ro = []interface{}{a}
			prep()
			if c.Entry == "scalar SET" {
				b = w.jet(r, r.Intn(3)*4+1)
				call(b, "SET", a)
			} else {
				b = a.CloneMagicScalar()
			}
			results, eqs = []interface{}{b}, [][2]interface{}{{a, b}}
		default:
			panic("unknown entry " + c.Entry)
		}
	}()
	if c.Kind == 1 {
		return c
	}
	for i, x := range ro {
		c.RO = append(c.RO, [2][]float64{before[i], obsAny(x)})
	}
	for _, p := range eqs {
		c.Eq = append(c.Eq, [2][]float64{obsAny(p[0]), obsAny(p[1])})
	}
	if iter != nil {
		after := storedScalars(iter)
		keys := []int{}
		for k := range stBefore {
			keys = append(keys, k)
		}
		sortInts(keys)
		for _, k := range keys {
			_, kept := after[k]
			c.Null = append(c.Null, jnull{stSnap[k], kept})
		}
	}
	// slice identities of everything alive
	sw := newSWorld()
	seen := map[ad.MagicScalar]bool{}
	var live []ad.MagicScalar
	for _, x := range append(append([]interface{}{}, ro...), results...) {
		for _, s := range scalarsOf(x) {
			if !seen[s] {
				seen[s] = true
				live = append(live, s)
			}
		}
	}
	for _, s := range live {
		for _, id := range sw.sliceIds(s) {
			if id != 0 {
				c.Ids = append(c.Ids, id)
			}
		}
	}
	// >= 20 mutations of the results, operands observed around each
	if len(results) > 0 {
		var targets []ad.MagicScalar
		for _, x := range results {
			targets = append(targets, scalarsOf(x)...)
		}
		for k := 0; len(targets) > 0 && k < 20+r.Intn(6); k++ {
			z := targets[r.Intn(len(targets))]
			var b0 []float64
			for _, x := range ro {
				b0 = append(b0, obsAny(x)...)
			}
			func() {
				defer func() { recover() }()
				switch k % 5 {
				case 0:
					z.Mul(z, z)
				case 1:
					z.Add(z, ad.ConstFloat64(1.5))
				case 2:
					if z.GetOrder() >= 2 && z.GetN() >= 2 {
						z.SetHessian(r.Intn(z.GetN()), r.Intn(z.GetN()), 7.25)
					} else {
						z.SetFloat64(3)
					}
				case 3:
					if z.GetOrder() >= 1 && z.GetN() >= 1 {
						z.SetDerivative(r.Intn(z.GetN()), -4.5)
					} else {
						z.Neg(z)
					}
				default:
					z.Sub(z, targets[r.Intn(len(targets))])
				}
			}()
			var a0 []float64
			for _, x := range ro {
				a0 = append(a0, obsAny(x)...)
			}
			c.Mut = append(c.Mut, [2][]float64{b0, a0})
		}
		c.NMut = len(c.Mut)
	}
	c.Bad = c.verdict()
	return c
}

// verdict: the property-level oracle of the harness (same clauses as CorrJ.jcheck except the nullScalar model)
func (c *JCase) verdict() string {
	for i, p := range c.RO {
		if !oeqF(p[0], p[1]) {
			return fmt.Sprintf("%s changed its read-only operand %d (slots %v)", c.Entry, i, diffSlots(p[0], p[1]))
		}
	}
	for i, p := range c.Eq {
		if !oeqF(p[0], p[1]) {
			return fmt.Sprintf("%s: copy %d observes differently from its source (slots %v)", c.Entry, i, diffSlots(p[0], p[1]))
		}
	}
	seen := map[int]bool{}
	for _, id := range c.Ids {
		if seen[id] {
			return fmt.Sprintf("%s: two live scalars share a backing array (slice id %d)", c.Entry, id)
		}
		seen[id] = true
	}
	for k, p := range c.Mut {
		if !oeqF(p[0], p[1]) {
			return fmt.Sprintf("%s: mutation %d of the result changed an operand (slots %v)", c.Entry, k, diffSlots(p[0], p[1]))
		}
	}
	return ""
}
func diffSlots(a, b []float64) []int {
	var r []int
	for i := range a {
		if i < len(b) && !(feq(a[i], b[i]) || a[i] == 0 && b[i] == 0) {
			r = append(r, i)
		}
	}
	return r
}

const hdrJ = "From Coq Require Import ZArith List Bool Floats.\nFrom ADV Require Import C01.Model C12.ModelJ C12.CorrJ.\nImport ListNotations.\n"

// jCaseAt: case number i of the stream for a seed (the stream is a pure function of seed and index)
func jRng(seed uint64) *Rng { return NewRng(seed*1000003 + 12) }
func regenJ(seed uint64, index int) *JCase {
	r := jRng(seed)
	var c *JCase
	for i := 0; i <= index; i++ {
		rr := r.Split()
		if i == index {
			c = genJCase(rr, i%len(jEntries), (i/len(jEntries))%3 == 2)
		}
	}
	return c
}

func runJetStream(o Opts, r *Rng, n int) {
	w := NewCaseWriter(o.Out, "jcases", hdrJ, "jmism", 12)
	w.Type = "jcase"
	w.Rule = "J: an entry point of the Real containers on operands holding jets at order 2 with N >= 2, at least one element of the corner families {value 0 & gradient 0 & Hessian diagonal-only, & Hessian off-diagonal-only, value 0 & gradient != 0}; non-trivial = returned and (a copy with >= 20 mutations, or a tracked iteration over stored entries)"
	for i := 0; i < n; i++ {
		e := i % len(jEntries)
		k32 := (i/len(jEntries))%3 == 2
		c := genJCase(r.Split(), e, k32)
		w.CountN("J:"+c.Entry, 1)
		if k32 {
			w.CountN("J:Real32", 1)
		}
		if c.Kind == 1 {
			w.CountN("J:panic", 1)
		}
		for _, f := range c.Fams {
			w.CountN("J:jet:"+f, 1)
		}
		key := fmt.Sprintf("%s/%v/%s", c.Entry, k32, strings.Join(c.Fams, ","))
		w.Add(c.Coq(), map[string]interface{}{"stream": "J", "entry": c.Entry, "k32": k32, "fams": c.Fams, "bad": c.Bad, "seed": o.Seed, "index": i, "n": n},
			key, c.Kind == 0 && (c.NMut >= 20 || len(c.Null) > 0))
	}
	if err := w.Flush(); err != nil {
		Die("flush: %v", err)
	}
}
