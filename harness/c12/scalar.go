// Stream S: histories on a world of magic scalars and dense vectors of magic scalars.
// Every Go scalar object gets a register id (allocation order, pointer -> id table), every
// vector handle the list of ids of its elements; after each operation the harness reports
// which registers / handles changed (bit-exact), see coq/C12/Corr.v.
package main

import (
	"encoding/json"
	"fmt"
	"math"
	"reflect"
	"strconv"
	"strings"

	. "adharness/common"

	ad "github.com/pbenner/autodiff"
)

// HF: float64 that survives JSON (NaN/Inf) as a hex string
type HF float64

func (h HF) MarshalJSON() ([]byte, error) { return json.Marshal(hexf(float64(h))) }
func (h *HF) UnmarshalJSON(b []byte) error {
	var s string
	if err := json.Unmarshal(b, &s); err != nil {
		return err
	}
	v, err := parsef(s)
	*h = HF(v)
	return err
}
func hexf(x float64) string {
	switch {
	case math.IsNaN(x):
		return "nan"
	case math.IsInf(x, 1):
		return "+inf"
	case math.IsInf(x, -1):
		return "-inf"
	}
	return strconv.FormatFloat(x, 'x', -1, 64)
}
func parsef(s string) (float64, error) {
	switch s {
	case "nan":
		return math.NaN(), nil
	case "+inf":
		return math.Inf(1), nil
	case "-inf":
		return math.Inf(-1), nil
	}
	return strconv.ParseFloat(s, 64)
}
func hfs(xs []float64) []HF {
	r := make([]HF, len(xs))
	for i, x := range xs {
		r[i] = HF(x)
	}
	return r
}

const (
	K64 = 0
	K32 = 1
)
const scratchT = 999 // register id standing for the NullReal temporaries allocated inside VdotV

type Opd struct {
	Reg int `json:"r"` // -1: immediate constant
	Imm HF  `json:"v"`
}

func (o Opd) Coq() string {
	if o.Reg < 0 {
		return "(Im " + F(float64(o.Imm)) + ")"
	}
	return fmt.Sprintf("(Rg %d)", o.Reg)
}

// SOp is one operation of the world (coq: sop float)
type SOp struct {
	K    string `json:"k"` // New Clone Conv Slice Append Ins Vec2 VecS VSet VReset
	Kind int    `json:"kind,omitempty"`
	Vals []HF   `json:"vals,omitempty"`
	T    int    `json:"t,omitempty"`
	U    int    `json:"u,omitempty"`
	I    int    `json:"i,omitempty"`
	J    int    `json:"j,omitempty"`
	Var  int    `json:"var,omitempty"` // which Go spelling of the call
	// Ins
	Ins string `json:"ins,omitempty"` // Add Sub Mul Div Neg Set Reset SetF SetVar Min Max Abs ABS Vmean VdotV Mtrace
	C   int    `json:"c,omitempty"`
	A   Opd    `json:"a,omitempty"`
	B   Opd    `json:"b,omitempty"`
	Xs  []Opd  `json:"xs,omitempty"`
	Ys  []Opd  `json:"ys,omitempty"`
	V   HF     `json:"v,omitempty"`
	N   int    `json:"n,omitempty"`
	O   int    `json:"o,omitempty"`
	// vector ops
	Op string `json:"op,omitempty"` // Add Sub Mul Div
	R  int    `json:"r,omitempty"`
}

var dopName = map[string]string{"Add": "OAdd", "Sub": "OSub", "Mul": "OMul", "Div": "ODiv"}

func opdList(xs []Opd) string {
	s := make([]string, len(xs))
	for i, x := range xs {
		s[i] = x.Coq()
	}
	return List(s)
}
func kindCoq(k int) string {
	if k == K32 {
		return "K32"
	}
	return "K64"
}

func (o *SOp) Coq() string {
	switch o.K {
	case "New":
		vs := make([]float64, len(o.Vals))
		for i, v := range o.Vals {
			vs[i] = float64(v)
		}
		return fmt.Sprintf("(SNew %s %s)", kindCoq(o.Kind), FList(vs))
	case "Clone":
		return fmt.Sprintf("(SClone %d)", o.T)
	case "Conv":
		return fmt.Sprintf("(SConv %s %d)", kindCoq(o.Kind), o.T)
	case "Slice":
		return fmt.Sprintf("(SSlice %d %d %d)", o.T, o.I, o.J)
	case "Append":
		return fmt.Sprintf("(SAppend %d %d)", o.T, o.U)
	case "Vec2":
		return fmt.Sprintf("(SVec2 %s %d %d %d)", dopName[o.Op], o.R, o.T, o.U)
	case "VecS":
		return fmt.Sprintf("(SVecS %s %d %d %s)", dopName[o.Op], o.R, o.T, o.B.Coq())
	case "VSet":
		return fmt.Sprintf("(SVSet %d %d)", o.R, o.T)
	case "VReset":
		return fmt.Sprintf("(SVReset %d)", o.R)
	case "Ins":
		var s string
		switch o.Ins {
		case "Add", "Sub", "Mul", "Div":
			s = fmt.Sprintf("IDy %s %d %s %s", dopName[o.Ins], o.C, o.A.Coq(), o.B.Coq())
		case "Neg":
			s = fmt.Sprintf("IMon ONeg %d %s", o.C, o.A.Coq())
		case "Set":
			s = fmt.Sprintf("ISet %d %s", o.C, o.A.Coq())
		case "Reset":
			s = fmt.Sprintf("IReset %d", o.C)
		case "SetF":
			s = fmt.Sprintf("ISetF %d %s", o.C, F(float64(o.V)))
		case "SetVar":
			s = fmt.Sprintf("ISetVar %d %d %d %d", o.C, o.I, o.N, o.O)
		case "Min":
			s = fmt.Sprintf("IMin %d %s %s", o.C, o.A.Coq(), o.B.Coq())
		case "Max":
			s = fmt.Sprintf("IMax %d %s %s", o.C, o.A.Coq(), o.B.Coq())
		case "Abs":
			s = fmt.Sprintf("IAbs %d %s", o.C, o.A.Coq())
		case "ABS":
			s = fmt.Sprintf("IABSc %d %s", o.C, o.A.Coq())
		case "LogAdd":
			s = fmt.Sprintf("ILogAdd %d %s %s %d", o.C, o.A.Coq(), o.B.Coq(), scratchT)
		case "LogSub":
			s = fmt.Sprintf("ILogSub %d %s %s %d", o.C, o.A.Coq(), o.B.Coq(), scratchT)
		case "Vmean":
			s = fmt.Sprintf("IVmean %d %s", o.C, opdList(o.Xs))
		case "VdotV":
			s = fmt.Sprintf("IVdotV %d %s %s %d", o.C, opdList(o.Xs), opdList(o.Ys), scratchT)
		case "Mtrace":
			s = fmt.Sprintf("IMtrace %d %s", o.C, opdList(o.Xs))
		default:
			panic("unknown ins " + o.Ins)
		}
		return "(SIns (" + s + "))"
	}
	panic("unknown sop " + o.K)
}

// ---------------------------------------------------------------- register snapshots
type RegSnap struct {
	Kind  int
	Val   float64
	Order int
	N     int
	D     []float64
	H     [][]float64
}

func snapReg(s ad.ConstScalar) RegSnap {
	switch v := s.(type) {
	case *ad.Real64:
		r := RegSnap{Kind: K64, Val: v.Value, Order: v.Order, N: v.N}
		r.D = append(r.D, v.Derivative...)
		for _, row := range v.Hessian {
			r.H = append(r.H, append([]float64{}, row...))
		}
		return r
	case *ad.Real32:
		r := RegSnap{Kind: K32, Val: float64(v.Value), Order: v.Order, N: v.N}
		for _, x := range v.Derivative {
			r.D = append(r.D, float64(x))
		}
		for _, row := range v.Hessian {
			rr := []float64{}
			for _, x := range row {
				rr = append(rr, float64(x))
			}
			r.H = append(r.H, rr)
		}
		return r
	}
	panic("snapReg: not a magic scalar")
}
func feq(x, y float64) bool {
	if math.IsNaN(x) || math.IsNaN(y) {
		return math.IsNaN(x) && math.IsNaN(y)
	}
	return math.Float64bits(x) == math.Float64bits(y)
}
func snapEq(a, b RegSnap) bool {
	if a.Kind != b.Kind || !feq(a.Val, b.Val) || a.Order != b.Order || a.N != b.N || len(a.D) != len(b.D) || len(a.H) != len(b.H) {
		return false
	}
	for i := range a.D {
		if !feq(a.D[i], b.D[i]) {
			return false
		}
	}
	for i := range a.H {
		if len(a.H[i]) != len(b.H[i]) {
			return false
		}
		for j := range a.H[i] {
			if !feq(a.H[i][j], b.H[i][j]) {
				return false
			}
		}
	}
	return true
}
func coqReg(r RegSnap) string {
	rows := make([]string, len(r.H))
	for i := range r.H {
		rows[i] = FList(r.H[i])
	}
	return fmt.Sprintf("(mkReg %s %s %d %d %s %s)", kindCoq(r.Kind), F(r.Val), r.Order, r.N, FList(r.D), List(rows))
}

// observable part of a register (what the property speaks about): value, order, N, guarded getters
func obsReg(s ad.ConstScalar) []float64 {
	n := s.GetN()
	r := []float64{s.GetFloat64(), float64(s.GetOrder()), float64(n)}
	for i := 0; i < n; i++ {
		r = append(r, s.GetDerivative(i))
	}
	for i := 0; i < n; i++ {
		for j := 0; j < n; j++ {
			r = append(r, s.GetHessian(i, j))
		}
	}
	return r
}

// ---------------------------------------------------------------- the world
type sworld struct {
	regs []ad.MagicScalar
	id   map[ad.MagicScalar]int
	vecs []ad.Vector
	ids  [][]int
	last []RegSnap
	// slice identities (round 3): address of a backing array -> id (1, 2, ... by first appearance); every
	// array ever seen is pinned so that the garbage collector can never hand the same address out twice
	ptr     map[uintptr]int
	pin     []interface{}
	lastIds [][]int
}

func newSWorld() *sworld { return &sworld{id: map[ad.MagicScalar]int{}, ptr: map[uintptr]int{}} }

func elemsOf(v ad.Vector) []ad.MagicScalar {
	switch x := v.(type) {
	case ad.DenseReal64Vector:
		r := make([]ad.MagicScalar, len(x))
		for i := range x {
			r[i] = x[i]
		}
		return r
	case ad.DenseReal32Vector:
		r := make([]ad.MagicScalar, len(x))
		for i := range x {
			r[i] = x[i]
		}
		return r
	}
	panic("elemsOf: unexpected vector type")
}
func kindOfVec(v ad.Vector) int {
	if _, ok := v.(ad.DenseReal32Vector); ok {
		return K32
	}
	return K64
}

// idsOf assigns ids to unknown objects in order of appearance
func (w *sworld) idsOf(v ad.Vector) []int {
	es := elemsOf(v)
	r := make([]int, len(es))
	for i, e := range es {
		k, ok := w.id[e]
		if !ok {
			k = len(w.regs)
			w.id[e] = k
			w.regs = append(w.regs, e)
		}
		r[i] = k
	}
	return r
}
func (w *sworld) opd(o Opd) ad.ConstScalar {
	if o.Reg < 0 {
		return ad.ConstFloat64(float64(o.Imm))
	}
	return w.regs[o.Reg]
}
func (w *sworld) cvec(xs []Opd) ad.ConstVector {
	// a vector holding exactly these objects (all registers of one kind)
	if len(xs) > 0 {
		if _, ok := w.regs[xs[0].Reg].(*ad.Real32); ok {
			v := ad.DenseReal32Vector{}
			for _, x := range xs {
				v = append(v, w.regs[x.Reg].(*ad.Real32))
			}
			return v
		}
	}
	v := ad.DenseReal64Vector{}
	for _, x := range xs {
		v = append(v, w.regs[x.Reg].(*ad.Real64))
	}
	return v
}

// exec runs one operation on the real library; returns the new vector (or nil) and whether it panicked
func (w *sworld) exec(o *SOp) (nv ad.Vector, panicked bool) {
	defer func() {
		if r := recover(); r != nil {
			panicked = true
			nv = nil
		}
	}()
	switch o.K {
	case "New":
		if o.Kind == K32 {
			vs := make([]float32, len(o.Vals))
			for i, v := range o.Vals {
				vs[i] = float32(v)
			}
			return ad.NewDenseReal32Vector(vs), false
		}
		vs := make([]float64, len(o.Vals))
		for i, v := range o.Vals {
			vs[i] = float64(v)
		}
		return ad.NewDenseReal64Vector(vs), false
	case "Clone":
		v := w.vecs[o.T]
		switch o.Var % 4 {
		case 0:
			return v.CloneVector(), false
		case 1:
			if x, ok := v.(ad.DenseReal64Vector); ok {
				return x.Clone(), false
			}
			return v.(ad.DenseReal32Vector).Clone(), false
		case 2: // As-conversion to the same type promises a copy
			if kindOfVec(v) == K64 {
				return ad.AsDenseReal64Vector(v), false
			}
			return ad.AsDenseReal32Vector(v), false
		default: // element-wise CloneMagicScalar into a new slice
			if x, ok := v.(ad.DenseReal64Vector); ok {
				r := make(ad.DenseReal64Vector, len(x))
				for i := range x {
					r[i] = x[i].CloneMagicScalar().(*ad.Real64)
				}
				return r, false
			}
			x := v.(ad.DenseReal32Vector)
			r := make(ad.DenseReal32Vector, len(x))
			for i := range x {
				r[i] = x[i].CloneScalar().(*ad.Real32)
			}
			return r, false
		}
	case "Conv":
		v := w.vecs[o.T]
		if o.Kind == K64 {
			return ad.AsDenseReal64Vector(v), false
		}
		return ad.AsDenseReal32Vector(v), false
	case "Slice":
		return w.vecs[o.T].Slice(o.I, o.J), false
	case "Append":
		v := w.vecs[o.T]
		// the model has no slice capacity: cut the capacity so that append must reallocate
		switch x := v.(type) {
		case ad.DenseReal64Vector:
			v = x[:len(x):len(x)]
		case ad.DenseReal32Vector:
			v = x[:len(x):len(x)]
		}
		return v.AppendVector(w.vecs[o.U]), false
	case "Vec2":
		r, a, b := w.vecs[o.R], w.vecs[o.T], w.vecs[o.U]
		if o.Var == 1 && typedVec2(o.Op, r, a, b) {
			return nil, false
		}
		switch o.Op {
		case "Add":
			r.VaddV(a, b)
		case "Sub":
			r.VsubV(a, b)
		case "Mul":
			r.VmulV(a, b)
		case "Div":
			r.VdivV(a, b)
		}
	case "VecS":
		r, a, b := w.vecs[o.R], w.vecs[o.T], w.opd(o.B)
		switch o.Op {
		case "Add":
			r.VaddS(a, b)
		case "Sub":
			r.VsubS(a, b)
		case "Mul":
			r.VmulS(a, b)
		case "Div":
			r.VdivS(a, b)
		}
	case "VSet":
		if o.Var == 1 && typedVSet(w.vecs[o.R], w.vecs[o.T]) {
			return nil, false
		}
		w.vecs[o.R].Set(w.vecs[o.T])
	case "VReset":
		w.vecs[o.R].Reset()
	case "Ins":
		c := w.regs[o.C]
		if o.Var == 1 && w.execTyped(o) {
			return nil, false
		}
		switch o.Ins {
		case "ABS": // no generic spelling: fall back to the typed call on a clone of an immediate operand
			w.execTyped(o)
		case "LogAdd":
			c.LogAdd(w.opd(o.A), w.opd(o.B), w.freshT(c))
		case "LogSub":
			c.LogSub(w.opd(o.A), w.opd(o.B), w.freshT(c))
		case "Add":
			c.Add(w.opd(o.A), w.opd(o.B))
		case "Sub":
			c.Sub(w.opd(o.A), w.opd(o.B))
		case "Mul":
			c.Mul(w.opd(o.A), w.opd(o.B))
		case "Div":
			c.Div(w.opd(o.A), w.opd(o.B))
		case "Neg":
			c.Neg(w.opd(o.A))
		case "Set":
			c.Set(w.opd(o.A))
		case "Reset":
			c.Reset()
		case "SetF":
			c.SetFloat64(float64(o.V))
		case "SetVar":
			c.SetVariable(o.I, o.N, o.O)
		case "Min":
			c.Min(w.opd(o.A), w.opd(o.B))
		case "Max":
			c.Max(w.opd(o.A), w.opd(o.B))
		case "Abs":
			c.Abs(w.opd(o.A))
		case "Vmean":
			c.Vmean(w.cvec(o.Xs))
		case "VdotV":
			c.VdotV(w.cvec(o.Xs), w.cvec(o.Ys))
		case "Mtrace":
			// a matrix whose diagonal HOLDS the element objects themselves (ToDenseRealXMatrix shares the scalars)
			n := len(o.Xs)
			var m ad.Matrix
			if _, ok := w.regs[o.Xs[0].Reg].(*ad.Real32); ok {
				v := make(ad.DenseReal32Vector, n*n)
				for i := range v {
					v[i] = ad.NewReal32(0)
				}
				for i := 0; i < n; i++ {
					v[i*n+i] = w.regs[o.Xs[i].Reg].(*ad.Real32)
				}
				m = v.ToDenseReal32Matrix(n, n)
			} else {
				v := make(ad.DenseReal64Vector, n*n)
				for i := range v {
					v[i] = ad.NewReal64(0)
				}
				for i := 0; i < n; i++ {
					v[i*n+i] = w.regs[o.Xs[i].Reg].(*ad.Real64)
				}
				m = v.ToDenseReal64Matrix(n, n)
			}
			c.Mtrace(m)
		}
	}
	return nil, false
}

type SObs struct {
	Op   SOp
	Kind int
	Regs map[int]RegSnap
	Vecs map[int][]int
	Ids  map[int][]int // registers whose slice identities are new or changed: [Derivative, Hessian, Hessian[0], ...]
	// diagnosis only (raw JSON): the individual SLOTS that changed, "reg.v", "reg.d[i]", "reg.h[i][j]", "reg.shape"
	Slots []string
}

// step: execute and report what changed
func (w *sworld) step(o *SOp) SObs {
	nv, p := w.exec(o)
	ob := SObs{Op: *o, Regs: map[int]RegSnap{}, Vecs: map[int][]int{}, Ids: map[int][]int{}}
	if p {
		ob.Kind = 1
		return ob
	}
	if nv != nil {
		w.vecs = append(w.vecs, nv)
		w.ids = append(w.ids, nil)
	}
	for t, v := range w.vecs {
		ids := w.idsOf(v)
		if w.ids[t] == nil || !intsEq(ids, w.ids[t]) || t == len(w.vecs)-1 && nv != nil {
			ob.Vecs[t] = ids
		}
		w.ids[t] = ids
		if w.ids[t] == nil {
			w.ids[t] = []int{}
		}
	}
	for k, r := range w.regs {
		s := snapReg(r)
		if k >= len(w.last) {
			w.last = append(w.last, s)
			ob.Regs[k] = s
		} else if !snapEq(s, w.last[k]) {
			ob.Slots = append(ob.Slots, slotDiff(k, w.last[k], s)...)
			w.last[k] = s
			ob.Regs[k] = s
		}
	}
	for k, r := range w.regs {
		ids := w.sliceIds(r)
		if k >= len(w.lastIds) {
			w.lastIds = append(w.lastIds, ids)
			ob.Ids[k] = ids
		} else if !intsEq(ids, w.lastIds[k]) {
			w.lastIds[k] = ids
			ob.Ids[k] = ids
		}
	}
	return ob
}

// idOf: identity of the backing array of a slice value (0: nil or zero capacity)
func (w *sworld) idOf(slice interface{}) int {
	v := reflect.ValueOf(slice)
	if v.Kind() != reflect.Slice || v.IsNil() || v.Cap() == 0 {
		return 0
	}
	p := v.Pointer()
	if k, ok := w.ptr[p]; ok {
		return k
	}
	k := len(w.ptr) + 1
	w.ptr[p] = k
	w.pin = append(w.pin, slice)
	return k
}

// sliceIds: [Derivative, Hessian (row headers), Hessian[0], ..., Hessian[n-1]] of a magic scalar
func (w *sworld) sliceIds(s ad.ConstScalar) []int {
	switch v := s.(type) {
	case *ad.Real64:
		r := []int{w.idOf(v.Derivative), w.idOf(v.Hessian)}
		for _, row := range v.Hessian {
			r = append(r, w.idOf(row))
		}
		return r
	case *ad.Real32:
		r := []int{w.idOf(v.Derivative), w.idOf(v.Hessian)}
		for _, row := range v.Hessian {
			r = append(r, w.idOf(row))
		}
		return r
	}
	return []int{0, 0}
}

// sharing: the first pair of live registers that share a backing array ("" if none)
func (w *sworld) sharing() string {
	owner := map[int]int{}
	slot := map[int]int{}
	for k := range w.lastIds {
		for j, id := range w.lastIds[k] {
			if id == 0 {
				continue
			}
			if q, ok := owner[id]; ok {
				return fmt.Sprintf("sharing: registers %d (slice %s) and %d (slice %s) have the same backing array", q, sliceName(slot[id]), k, sliceName(j))
			}
			owner[id] = k
			slot[id] = j
		}
	}
	return ""
}
func sliceName(j int) string {
	switch j {
	case 0:
		return "Derivative"
	case 1:
		return "Hessian"
	}
	return fmt.Sprintf("Hessian[%d]", j-2)
}

// slotDiff: the individual slots in which two snapshots of register k differ
func slotDiff(k int, a, b RegSnap) []string {
	var r []string
	if !feq(a.Val, b.Val) {
		r = append(r, fmt.Sprintf("%d.v", k))
	}
	if a.Order != b.Order || a.N != b.N || len(a.D) != len(b.D) || len(a.H) != len(b.H) {
		return append(r, fmt.Sprintf("%d.shape", k))
	}
	for i := range a.D {
		if !feq(a.D[i], b.D[i]) {
			r = append(r, fmt.Sprintf("%d.d[%d]", k, i))
		}
	}
	for i := range a.H {
		if len(a.H[i]) != len(b.H[i]) {
			return append(r, fmt.Sprintf("%d.shape", k))
		}
		for j := range a.H[i] {
			if !feq(a.H[i][j], b.H[i][j]) {
				r = append(r, fmt.Sprintf("%d.h[%d][%d]", k, i, j))
			}
		}
	}
	return r
}

// freshT: the temporary handed to LogAdd / LogSub (untouched by the operand-copying short cuts)
func (w *sworld) freshT(c ad.MagicScalar) ad.Scalar {
	if _, ok := c.(*ad.Real32); ok {
		return ad.NewReal32(0)
	}
	return ad.NewReal64(0)
}

// execTyped: the concrete twin of a scalar instruction (SET, MIN, MAX, ABS, LOGADD, LOGSUB, ADD, SUB, MUL, DIV, NEG);
// false when receiver and operands are not registers of one concrete type (the caller then takes the generic method)
func (w *sworld) execTyped(o *SOp) bool {
	need := 0
	switch o.Ins {
	case "Set", "Abs", "ABS", "Neg":
		need = 1
	case "Add", "Sub", "Mul", "Div", "Min", "Max", "LogAdd", "LogSub":
		need = 2
	default:
		return false
	}
	if o.A.Reg < 0 || need == 2 && o.B.Reg < 0 {
		if o.Ins == "ABS" {
			panic("ABS needs a register operand")
		}
		return false
	}
	switch c := w.regs[o.C].(type) {
	case *ad.Real64:
		a, ok := w.regs[o.A.Reg].(*ad.Real64)
		if !ok {
			if o.Ins == "ABS" {
				panic("ABS: mixed types")
			}
			return false
		}
		var b *ad.Real64
		if need == 2 {
			if b, ok = w.regs[o.B.Reg].(*ad.Real64); !ok {
				return false
			}
		}
		switch o.Ins {
		case "Set":
			c.SET(a)
		case "Abs", "ABS":
			c.ABS(a)
		case "Neg":
			c.NEG(a)
		case "Add":
			c.ADD(a, b)
		case "Sub":
			c.SUB(a, b)
		case "Mul":
			c.MUL(a, b)
		case "Div":
			c.DIV(a, b)
		case "Min":
			c.MIN(a, b)
		case "Max":
			c.MAX(a, b)
		case "LogAdd":
			c.LOGADD(a, b, ad.NewReal64(0))
		case "LogSub":
			c.LOGSUB(a, b, ad.NewReal64(0))
		}
		return true
	case *ad.Real32:
		a, ok := w.regs[o.A.Reg].(*ad.Real32)
		if !ok {
			if o.Ins == "ABS" {
				panic("ABS: mixed types")
			}
			return false
		}
		var b *ad.Real32
		if need == 2 {
			if b, ok = w.regs[o.B.Reg].(*ad.Real32); !ok {
				return false
			}
		}
		switch o.Ins {
		case "Set":
			c.SET(a)
		case "Abs", "ABS":
			c.ABS(a)
		case "Neg":
			c.NEG(a)
		case "Add":
			c.ADD(a, b)
		case "Sub":
			c.SUB(a, b)
		case "Mul":
			c.MUL(a, b)
		case "Div":
			c.DIV(a, b)
		case "Min":
			c.MIN(a, b)
		case "Max":
			c.MAX(a, b)
		case "LogAdd":
			c.LOGADD(a, b, ad.NewReal32(0))
		case "LogSub":
			c.LOGSUB(a, b, ad.NewReal32(0))
		}
		return true
	}
	return false
}

func typedVSet(r, a ad.Vector) bool {
	switch x := r.(type) {
	case ad.DenseReal64Vector:
		if y, ok := a.(ad.DenseReal64Vector); ok {
			x.SET(y)
			return true
		}
	case ad.DenseReal32Vector:
		if y, ok := a.(ad.DenseReal32Vector); ok {
			x.SET(y)
			return true
		}
	}
	return false
}
func typedVec2(op string, r, a, b ad.Vector) bool {
	switch x := r.(type) {
	case ad.DenseReal64Vector:
		y, ok1 := a.(ad.DenseReal64Vector)
		z, ok2 := b.(ad.DenseReal64Vector)
		if !ok1 || !ok2 {
			return false
		}
		switch op {
		case "Add":
			x.VADDV(y, z)
		case "Sub":
			x.VSUBV(y, z)
		case "Mul":
			x.VMULV(y, z)
		case "Div":
			x.VDIVV(y, z)
		}
		return true
	case ad.DenseReal32Vector:
		y, ok1 := a.(ad.DenseReal32Vector)
		z, ok2 := b.(ad.DenseReal32Vector)
		if !ok1 || !ok2 {
			return false
		}
		switch op {
		case "Add":
			x.VADDV(y, z)
		case "Sub":
			x.VSUBV(y, z)
		case "Mul":
			x.VMULV(y, z)
		case "Div":
			x.VDIVV(y, z)
		}
		return true
	}
	return false
}
func intsEq(a, b []int) bool {
	if len(a) != len(b) {
		return false
	}
	for i := range a {
		if a[i] != b[i] {
			return false
		}
	}
	return true
}

func (ob *SObs) Coq() string {
	var rs, vs []string
	for _, k := range sortedKeysR(ob.Regs) {
		rs = append(rs, fmt.Sprintf("(%d%%nat, %s)", k, coqReg(ob.Regs[k])))
	}
	for _, t := range sortedKeysV(ob.Vecs) {
		vs = append(vs, fmt.Sprintf("(%d%%nat, %s)", t, natList(ob.Vecs[t])))
	}
	var is []string
	for _, k := range sortedKeysV(ob.Ids) {
		is = append(is, fmt.Sprintf("(%d%%nat, %s)", k, natList(ob.Ids[k])))
	}
	return fmt.Sprintf("mkSO2 (mkSO %s %d %s %s) %s", ob.Op.Coq(), ob.Kind, List(rs), List(vs), List(is))
}
func natList(xs []int) string {
	s := make([]string, len(xs))
	for i, x := range xs {
		s[i] = strconv.Itoa(x) + "%nat"
	}
	return "[" + strings.Join(s, "; ") + "]"
}
func sortedKeysR(m map[int]RegSnap) []int {
	r := []int{}
	for k := range m {
		r = append(r, k)
	}
	sortInts(r)
	return r
}
func sortedKeysV(m map[int][]int) []int {
	r := []int{}
	for k := range m {
		r = append(r, k)
	}
	sortInts(r)
	return r
}
func sortInts(a []int) {
	for i := 1; i < len(a); i++ {
		for j := i; j > 0 && a[j] < a[j-1]; j-- {
			a[j], a[j-1] = a[j-1], a[j]
		}
	}
}

// ---------------------------------------------------------------- generation
var niceVals = []float64{0, 1, -1, 2, 0.5, -3, 1.5, 4, -0.25, 7, 1e-3, -2.5, 3, 10, 0.1, -0.1}

func genVal(r *Rng) float64 {
	switch r.Pick([]int{70, 20, 4, 2, 2, 2}) {
	case 0:
		return niceVals[r.Intn(len(niceVals))]
	case 1:
		return float64(r.Range(-50, 50)) / 8
	case 2:
		return math.Copysign(0, -1)
	case 3:
		return math.Inf(1)
	case 4:
		return math.NaN()
	default:
		return float64(float32(r.Float()*200 - 100))
	}
}

// f32ok: the value is exactly representable in float32 (so that New on a Real32 vector needs no rounding remark)
func f32(x float64) float64 { return float64(float32(x)) }

type sgen struct {
	r *Rng
	w *sworld
}

func (g *sgen) anyVec() int { return g.r.Intn(len(g.w.vecs)) }
func (g *sgen) nonEmptyVec() int {
	for k := 0; k < 20; k++ {
		t := g.anyVec()
		if len(g.w.ids[t]) > 0 {
			return t
		}
	}
	return -1
}
func (g *sgen) vecOfLen(n int, not int) int {
	c := []int{}
	for t := range g.w.vecs {
		if len(g.w.ids[t]) == n && t != not {
			c = append(c, t)
		}
	}
	if len(c) == 0 {
		return -1
	}
	return c[g.r.Intn(len(c))]
}
func (g *sgen) anyReg() int { return g.r.Intn(len(g.w.regs)) }
func (g *sgen) opd() Opd {
	if g.r.Intn(6) == 0 {
		return Opd{Reg: -1, Imm: HF(genVal(g.r))}
	}
	return Opd{Reg: g.anyReg()}
}

// sameKindReg: a register of the concrete type of register c (-1 if none after a few draws)
func (g *sgen) sameKindReg(c int) int {
	for k := 0; k < 20; k++ {
		a := g.anyReg()
		if g.w.last[a].Kind == g.w.last[c].Kind {
			return a
		}
	}
	return -1
}

// infOpd: an operand whose value is -Inf: a register of c's type, or (generic spelling only) an immediate
func (g *sgen) infOpd(c int, typed bool) *Opd {
	var cand []int
	for k := range g.w.last {
		if math.IsInf(g.w.last[k].Val, -1) && g.w.last[k].Kind == g.w.last[c].Kind && k != c {
			cand = append(cand, k)
		}
	}
	if len(cand) > 0 && (typed || g.r.Intn(3) != 0) {
		return &Opd{Reg: cand[g.r.Intn(len(cand))]}
	}
	if !typed && len(cand) == 0 && g.r.Intn(2) == 0 {
		return &Opd{Reg: -1, Imm: HF(math.Inf(-1))}
	}
	return nil
}

// next operation; focus: handle pair (src, cpy) whose elements are preferred as receivers
func (g *sgen) next(focus []int) *SOp {
	r := g.r
	w := g.w
	pickRecvVec := func() int {
		if len(focus) > 0 && r.Intn(4) != 0 {
			return focus[r.Intn(len(focus))]
		}
		return g.anyVec()
	}
	pickRecvReg := func() int {
		t := pickRecvVec()
		if len(w.ids[t]) == 0 {
			return g.anyReg()
		}
		return w.ids[t][r.Intn(len(w.ids[t]))]
	}
	for {
		switch r.Pick([]int{4, 8, 3, 4, 3, 30, 10, 6, 5, 2}) {
		case 0:
			n := r.Pick([]int{1, 4, 4, 3, 1})
			k := K64
			if r.Intn(4) == 0 {
				k = K32
			}
			vals := make([]HF, n)
			for i := range vals {
				v := genVal(r)
				if k == K32 {
					v = f32(v)
				}
				vals[i] = HF(v)
			}
			return &SOp{K: "New", Kind: k, Vals: vals}
		case 1:
			return &SOp{K: "Clone", T: pickRecvVec(), Var: r.Intn(4)}
		case 2:
			t := g.anyVec()
			k := K64
			if kindOfVec(w.vecs[t]) == K64 {
				k = K32
			}
			return &SOp{K: "Conv", Kind: k, T: t}
		case 3:
			t := g.anyVec()
			n := len(w.ids[t])
			i := r.Intn(n + 1)
			j := i + r.Intn(n-i+1)
			return &SOp{K: "Slice", T: t, I: i, J: j}
		case 4:
			t := g.anyVec()
			u := g.anyVec()
			if kindOfVec(w.vecs[t]) != kindOfVec(w.vecs[u]) {
				continue
			}
			if len(w.ids[t])+len(w.ids[u]) > 8 {
				continue
			}
			return &SOp{K: "Append", T: t, U: u}
		case 5: // scalar instruction
			if len(w.regs) == 0 {
				continue
			}
			c := pickRecvReg()
			names := []string{"Add", "Sub", "Mul", "Div", "Neg", "Set", "Reset", "SetF", "SetVar", "Min", "Max", "Abs", "Vmean", "VdotV", "Mtrace", "ABS", "LogAdd", "LogSub"}
			nm := names[r.Pick([]int{10, 8, 10, 5, 4, 10, 3, 8, 8, 4, 4, 3, 2, 3, 2, 3, 3, 3})]
			o := &SOp{K: "Ins", Ins: nm, C: c, Var: r.Intn(2)}
			switch nm {
			case "ABS":
				a := g.sameKindReg(c)
				if a < 0 {
					continue
				}
				o.A = Opd{Reg: a}
			case "LogAdd", "LogSub":
				// only the operand-copying short cuts (no libm call): one side is -Inf, the other is not NaN
				inf := g.infOpd(c, o.Var == 1)
				if inf == nil {
					// make one for later: a register outside the focus gets the value -Inf (derivatives stay allocated)
					q := g.anyReg()
					return &SOp{K: "Ins", Ins: "SetF", C: q, V: HF(math.Inf(-1))}
				}
				y := g.sameKindReg(c)
				if y < 0 || math.IsNaN(w.last[y].Val) {
					continue
				}
				if nm == "LogSub" || r.Intn(2) == 0 {
					o.A, o.B = Opd{Reg: y}, *inf
				} else {
					o.A, o.B = *inf, Opd{Reg: y}
				}
			case "Add", "Sub", "Mul", "Div", "Min", "Max":
				o.A, o.B = g.opd(), g.opd()
				if r.Intn(5) == 0 {
					o.A = Opd{Reg: c} // aliasing with the receiver is allowed and modelled
				}
			case "Neg", "Set", "Abs":
				o.A = g.opd()
			case "SetF":
				v := genVal(r)
				o.V = HF(v)
			case "SetVar":
				o.N = r.Range(1, 3)
				o.I = r.Intn(o.N)
				o.O = r.Range(0, 2)
			case "Vmean", "Mtrace":
				t := g.nonEmptyVec()
				if t < 0 {
					continue
				}
				for _, k := range w.ids[t] {
					o.Xs = append(o.Xs, Opd{Reg: k})
				}
			case "VdotV":
				t := g.nonEmptyVec()
				if t < 0 {
					continue
				}
				u := g.vecOfLen(len(w.ids[t]), -1)
				if u < 0 || kindOfVec(w.vecs[u]) != kindOfVec(w.vecs[t]) {
					continue
				}
				for _, k := range w.ids[t] {
					o.Xs = append(o.Xs, Opd{Reg: k})
				}
				for _, k := range w.ids[u] {
					o.Ys = append(o.Ys, Opd{Reg: k})
				}
			}
			return o
		case 6:
			rv := pickRecvVec()
			n := len(w.ids[rv])
			a, b := g.vecOfLen(n, -1), g.vecOfLen(n, -1)
			if r.Intn(12) == 0 { // dimension mismatch -> panic
				a = g.anyVec()
			}
			if a < 0 || b < 0 {
				continue
			}
			return &SOp{K: "Vec2", Op: []string{"Add", "Sub", "Mul", "Div"}[r.Intn(4)], R: rv, T: a, U: b, Var: r.Intn(2)}
		case 7:
			rv := pickRecvVec()
			a := g.vecOfLen(len(w.ids[rv]), -1)
			if a < 0 || len(w.regs) == 0 {
				continue
			}
			return &SOp{K: "VecS", Op: []string{"Add", "Sub", "Mul", "Div"}[r.Intn(4)], R: rv, T: a, B: g.opd()}
		case 8:
			rv := pickRecvVec()
			a := g.vecOfLen(len(w.ids[rv]), -1)
			if a < 0 {
				continue
			}
			return &SOp{K: "VSet", R: rv, T: a, Var: r.Intn(2)}
		case 9:
			return &SOp{K: "VReset", R: pickRecvVec()}
		}
	}
}

// a history: a few vectors, a copy of one of them, then >= 20 mutations aimed at either side.
// Round 3: 7 of 10 histories are DIRECTED at second-order storage: all vectors of one concrete type, every element
// a variable of N = 2..3 at ORDER 2 with non-zero OFF-DIAGONAL Hessian entries (products of different variables)
// before the copy; the copy is made through every copying entry point in turn (Clone variants, As-conversions,
// generic Set and typed SET on vectors and on elements, MIN/MAX/ABS/LOGADD/LOGSUB short cuts); the mutations
// include in-place arithmetic on the copy (z.Mul(z, z) / z.MUL(z, z)).
var sDirected int
var typedIns = map[string]bool{"Set": true, "Abs": true, "ABS": true, "Neg": true, "Add": true, "Sub": true, "Mul": true, "Div": true, "Min": true, "Max": true, "LogAdd": true, "LogSub": true}

func genSHistory(r *Rng, nops int) ([]SObs, map[string]int) {
	w := newSWorld()
	g := &sgen{r: r, w: w}
	hist := map[string]int{}
	var obs []SObs
	do := func(o *SOp) bool {
		ob := w.step(o)
		obs = append(obs, ob)
		hist["S:"+o.K]++
		if o.K == "Ins" {
			hist["S:Ins:"+o.Ins]++
			if o.Var == 1 && typedIns[o.Ins] {
				hist["S:typed:"+o.Ins]++
			}
		} else if o.Var == 1 && (o.K == "VSet" || o.K == "Vec2") {
			hist["S:typed:"+o.K]++
		}
		if ob.Kind == 1 {
			hist["S:panic"]++
			return false
		}
		return true
	}
	directed := r.Intn(10) < 7
	newVec := func(k, n int) bool {
		vals := make([]HF, n)
		for j := range vals {
			v := genVal(r)
			if directed && (math.IsNaN(v) || math.IsInf(v, 0)) {
				v = 1.5
			}
			if k == K32 {
				v = f32(v)
			}
			vals[j] = HF(v)
		}
		return do(&SOp{K: "New", Kind: k, Vals: vals})
	}
	if !directed {
		nv := r.Range(2, 3)
		for i := 0; i < nv; i++ {
			n := r.Range(1, 3)
			if i == 1 {
				n = len(w.ids[0]) // so that two-operand vector ops find partners
			}
			k := K64
			if r.Intn(5) == 0 {
				k = K32
			}
			newVec(k, n)
		}
		// give some elements derivatives before copying
		for i := 0; i < r.Range(1, 4); i++ {
			c := g.anyReg()
			n := r.Range(1, 2)
			if !do(&SOp{K: "Ins", Ins: "SetVar", C: c, I: r.Intn(n), N: n, O: r.Range(1, 2)}) {
				return obs, hist
			}
		}
		src := g.anyVec()
		if !do(&SOp{K: "Clone", T: src, Var: r.Intn(4)}) {
			return obs, hist
		}
		cpy := len(w.vecs) - 1
		for i := 0; i < nops; i++ {
			if !do(g.next([]int{src, cpy})) {
				break
			}
		}
		return obs, hist
	}
	hist["S:directed-order2"]++
	sDirected++
	k := K64
	if sDirected%3 == 0 {
		k = K32
	}
	n := r.Range(1, 3)
	N := r.Range(2, 3)
	newVec(k, n)
	newVec(k, n)
	for t := 0; t < 2; t++ {
		for j, c := range w.ids[t] {
			if !do(&SOp{K: "Ins", Ins: "SetVar", C: c, I: (j + t) % N, N: N, O: 2}) {
				return obs, hist
			}
		}
	}
	// x_j := x_j * y_j (different variables: off-diagonal Hessian 1), then x_j := x_j * x_j or + y_j*y_j now and then
	for j, c := range w.ids[0] {
		y := w.ids[1][j]
		if !do(&SOp{K: "Ins", Ins: "Mul", C: c, A: Opd{Reg: c}, B: Opd{Reg: y}, Var: r.Intn(2)}) {
			return obs, hist
		}
		if r.Intn(2) == 0 {
			if !do(&SOp{K: "Ins", Ins: "Mul", C: c, A: Opd{Reg: c}, B: Opd{Reg: c}, Var: r.Intn(2)}) {
				return obs, hist
			}
		}
	}
	src := 0
	var cpy int
	mode := sDirected % 8
	hist[fmt.Sprintf("S:copy-entry:%s", []string{"CloneVector", "Clone", "As-same-type", "CloneScalar-per-element", "As-other-type",
		"vector Set", "vector SET (typed)", "element SET (typed)"}[mode])]++
	switch mode {
	case 0, 1, 2, 3:
		if !do(&SOp{K: "Clone", T: src, Var: mode}) {
			return obs, hist
		}
		cpy = len(w.vecs) - 1
	case 4:
		if !do(&SOp{K: "Conv", Kind: 1 - k, T: src}) {
			return obs, hist
		}
		cpy = len(w.vecs) - 1
	case 5, 6:
		newVec(k, n)
		cpy = len(w.vecs) - 1
		if !do(&SOp{K: "VSet", R: cpy, T: src, Var: mode - 5}) {
			return obs, hist
		}
	default:
		newVec(k, n)
		cpy = len(w.vecs) - 1
		for j, c := range w.ids[cpy] {
			if !do(&SOp{K: "Ins", Ins: "Set", C: c, A: Opd{Reg: w.ids[src][j]}, Var: 1}) {
				return obs, hist
			}
		}
	}
	// in-place arithmetic on the copy, early
	if len(w.ids[cpy]) > 0 {
		z := w.ids[cpy][r.Intn(len(w.ids[cpy]))]
		if !do(&SOp{K: "Ins", Ins: "Mul", C: z, A: Opd{Reg: z}, B: Opd{Reg: z}, Var: r.Intn(2)}) {
			return obs, hist
		}
	}
	for i := 0; i < nops; i++ {
		if !do(g.next([]int{src, cpy})) {
			break
		}
	}
	return obs, hist
}

func sCaseCoq(obs []SObs) string {
	s := make([]string, len(obs))
	for i := range obs {
		s[i] = obs[i].Coq()
	}
	return "[" + strings.Join(s, ";\n   ") + "]"
}

// replayS re-executes a list of operations on a fresh world
func replayS(ops []SOp) []SObs {
	w := newSWorld()
	var obs []SObs
	for i := range ops {
		ob := w.step(&ops[i])
		obs = append(obs, ob)
		if ob.Kind == 1 {
			break
		}
	}
	return obs
}
