// Generators of pair evaluations (random for the regular run, exhaustive small for the hunt) and the shrinker.
package main

import (
	"math"
	"reflect"

	. "adharness/common"
)

// ---------------------------------------------------------------- plans

// Plan: the argument kinds of one pair of one receiver kind / element type
type Plan struct {
	Type, Kind string
	P          Pair
	Args       []string // scalar | dvec | svec | dmat | smat | f64 | int
}

func plan(t, kind string, p Pair) (Plan, bool) {
	recv := reflect.ValueOf(sample(t, kind))
	mc := recv.MethodByName(p.C)
	mg := recv.MethodByName(p.G)
	if !mc.IsValid() || !mg.IsValid() || mc.Type().NumIn() != mg.Type().NumIn() || mc.Type().IsVariadic() {
		return Plan{}, false
	}
	pl := Plan{Type: t, Kind: kind, P: p}
	for i := 0; i < mc.Type().NumIn(); i++ {
		at := mc.Type().In(i)
		k := kindOfType(t, at)
		if k == "" && at.Kind() == reflect.Interface {
			// interface-typed parameter of an upper-case method (JOINT_ITERATOR(b ConstVector)): same kind as the receiver
			for _, cand := range []string{kind, "scalar", "dvec", "dmat"} {
				if reflect.TypeOf(sample(t, cand)).Implements(at) {
					k = cand
					break
				}
			}
		}
		if k == "" {
			return Plan{}, false
		}
		// the generic member must accept the same object
		gt := mg.Type().In(i)
		if k != "f64" && k != "int" && !reflect.TypeOf(sample(t, k)).AssignableTo(gt) {
			return Plan{}, false
		}
		pl.Args = append(pl.Args, k)
	}
	return pl, true
}

func allPlans() (plans []Plan, skipped []string) {
	for _, t := range typeNames {
		for _, k := range kinds {
			for _, p := range pairsOf(reflect.TypeOf(sample(t, k))) {
				if pl, ok := plan(t, k, p); ok {
					plans = append(plans, pl)
				} else {
					skipped = append(skipped, t+"."+k+"."+p.G+"/"+p.C)
				}
			}
		}
	}
	return
}

// ---------------------------------------------------------------- elements

var floatPool = []float64{0, math.Copysign(0, -1), 1, -1, 0.5, 2, -3.5, 7, 1e-20, -1e-20, 1e300, math.Inf(1), math.Inf(-1), math.NaN(), 0.25, 100, -40, 20, 35}
var derivPool = []float64{0, 1, -2, 0.5, 3}

func intPool(t string) []float64 {
	lo, hi := -128.0, 127.0
	switch t {
	case "int16":
		lo, hi = -32768, 32767
	case "int32":
		lo, hi = -2147483648, 2147483647
	case "int64", "int":
		lo, hi = -9007199254740992, 9007199254740992 // stays exact in the float64 spec field
	}
	p := []float64{0, 1, -1, 2, -3, 5, 7, -8, lo, hi, 12, 100}
	if t == "int64" || t == "int" {
		p = append(p, 94906267, -94906267) // squares exceed 2^53: exact in int64, rounded in float64
	}
	return p
}

// genValue: a value representable in element type t
func genValue(r *Rng, t string) float64 {
	if isInt(t) {
		p := intPool(t)
		if r.Intn(4) == 0 {
			return p[r.Intn(len(p))]
		}
		return float64(r.Range(-6, 6))
	}
	var x float64
	switch r.Intn(4) {
	case 0:
		x = floatPool[r.Intn(len(floatPool))]
	case 1:
		x = float64(r.Range(-6, 6))
	default:
		x = math.Ldexp(float64(r.Range(-40, 40)), -r.Intn(4))
	}
	if t == "float32" || t == "real32" {
		x = float64(float32(x))
	}
	return x
}

func genDeriv(r *Rng, t string) float64 {
	x := derivPool[r.Intn(len(derivPool))]
	if r.Intn(3) == 0 {
		x = math.Ldexp(float64(r.Range(-9, 9)), -r.Intn(3))
	}
	return x
}

// genElem: order/n are the case-wide defaults for Real elements
func genElem(r *Rng, t string, order, n int, sparse bool) ESpec {
	e := ESpec{P: true}
	if sparse {
		switch r.Intn(5) {
		case 0, 1:
			e.P = false // absent
			return e
		case 2:
			e.V = 0 // explicitly stored zero
		default:
			e.V = JF(genValue(r, t))
		}
	} else {
		e.V = JF(genValue(r, t))
		if r.Intn(4) == 0 {
			e.V = 0
		}
	}
	if isReal(t) {
		e.O, e.N = order, n
		if r.Intn(10) == 0 {
			e.O = r.Intn(3)
		}
		if r.Intn(25) == 0 {
			e.N = r.Intn(3)
		}
		if e.O >= 1 {
			for i := 0; i < e.N; i++ {
				e.D = append(e.D, JF(genDeriv(r, t)))
			}
		}
		if e.O >= 2 {
			e.H = make([][]JF, e.N)
			for i := range e.H {
				e.H[i] = make([]JF, e.N)
			}
			for i := 0; i < e.N; i++ {
				for j := i; j < e.N; j++ {
					x := JF(genDeriv(r, t))
					e.H[i][j], e.H[j][i] = x, x
				}
			}
		}
	}
	return e
}

func genObj(r *Rng, t, kind string, rows, cols, order, n int) OSpec {
	o := OSpec{K: kind, Rows: rows, Cols: cols}
	cnt := 1
	switch kind {
	case "dvec", "svec":
		cnt = rows
		o.Cols = 0
	case "dmat", "smat":
		cnt = rows * cols
	case "scalar":
		o.Rows, o.Cols = 0, 0
	}
	sp := kind == "svec" || kind == "smat"
	for i := 0; i < cnt; i++ {
		o.E = append(o.E, genElem(r, t, order, n, sp))
	}
	return o
}

// shapes: dimensions of receiver and arguments for the pairs whose operands are not all of the receiver's shape
func shapes(pl Plan, r *Rng, maxn int) (rr, rc int, ar, ac []int) {
	n, m, k := r.Range(0, maxn), r.Range(0, maxn), r.Range(0, maxn)
	if r.Intn(6) > 0 {
		// avoid the empty shapes most of the time
		if n == 0 {
			n = 1
		}
		if m == 0 {
			m = 1
		}
		if k == 0 {
			k = 1
		}
	}
	ar = make([]int, len(pl.Args))
	ac = make([]int, len(pl.Args))
	rr, rc = n, m
	for i := range pl.Args {
		ar[i], ac[i] = n, m
	}
	switch pl.P.G {
	case "MdotM":
		ar[0], ac[0], ar[1], ac[1] = n, k, k, m
	case "MdotV": // r (n) = a (n x m) . b (m)
		rr = n
		ar[0], ac[0], ar[1] = n, m, m
	case "VdotM": // r (m) = a (n) . b (n x m)
		rr = m
		ar[0], ar[1], ac[1] = n, n, m
	case "Outer":
		ar[0], ar[1] = n, m
	}
	if r.Intn(14) == 0 && len(pl.Args) > 0 {
		i := r.Intn(len(pl.Args))
		ar[i]++ // dimension mismatch: both members must panic
	}
	return
}

func genCase(r *Rng, pl Plan, maxn int) PCase {
	c := PCase{Type: pl.Type, Kind: pl.Kind, G: pl.P.G, C: pl.P.C}
	order, n := 0, 0
	if isReal(pl.Type) {
		order, n = r.Intn(3), r.Intn(3)
		if order > 0 && n == 0 && r.Intn(3) > 0 {
			n = 1 + r.Intn(2)
		}
	}
	rr, rc, ar, ac := shapes(pl, r, maxn)
	c.Recv = genObj(r, pl.Type, pl.Kind, rr, rc, order, n)
	nInt := 0
	for i, k := range pl.Args {
		var o OSpec
		switch k {
		case "f64":
			o = OSpec{K: "f64", F: JF([]float64{1e-8, 0.75, 2.5, 1e-30, 0}[r.Intn(5)])}
		case "int":
			lim := rr
			if (pl.Kind == "dmat" || pl.Kind == "smat") && nInt%2 == 1 {
				lim = rc
			}
			if pl.P.G == "Col" {
				lim = rc
			}
			v := 0
			if lim > 0 {
				v = r.Intn(lim)
			}
			if pl.P.G == "Slice" {
				// (i, j) with i <= j <= dim ; matrices: (rfrom, rto, cfrom, cto)
				if nInt%2 == 1 {
					prev := c.Args[i-1].I
					v = prev + r.Intn(lim-prev+1)
				}
			}
			if r.Intn(20) == 0 {
				v = lim + r.Intn(2) // out of range
			}
			o = OSpec{K: "int", I: v}
			nInt++
		default:
			o = genObj(r, pl.Type, k, ar[i], ac[i], order, n)
		}
		c.Args = append(c.Args, o)
		c.Alias = append(c.Alias, -1)
	}
	// aliasing: an argument of the receiver's kind is the receiver / an argument is an earlier one of its kind
	for i, k := range pl.Args {
		if k == "f64" || k == "int" {
			continue
		}
		if k == pl.Kind && r.Intn(5) == 0 && sameShape(c.Recv, c.Args[i]) {
			c.Alias[i] = 0
			continue
		}
		for j := 0; j < i; j++ {
			if pl.Args[j] == k && r.Intn(6) == 0 && sameShape(c.Args[j], c.Args[i]) {
				c.Alias[i] = j + 1
				if c.Alias[j] >= 0 {
					c.Alias[i] = c.Alias[j]
				}
				break
			}
		}
	}
	// a scalar operand of a container's method is a reference into the receiver's / an earlier operand's storage
	// (r.VMULS(a, r.AT(k)), v.VDIVS(v, v.AT(0)), r.MADDS(a, a.AT(i, j))): 2 of 5 scalar slots
	if pl.Kind != "scalar" {
		for i, k := range pl.Args {
			if k != "scalar" || r.Intn(5) > 1 {
				continue
			}
			refElem(r, &c, i)
		}
	}
	// matrix operands are SLICE views (optionally transposed) of larger parents: 1 case in 3 that has a matrix operand
	viewify(r, &c)
	return c
}

// viewify: turn the matrix receiver / operands of a case into views.  Half of the time all parents have ONE common
// shape (the views then differ only in their row / column offsets and in the transposition flag): a member that
// walks the backing arrays directly instead of through index(i, j) agrees with its twin on such operands unless
// the offsets are taken into account.  Element references (Elem) are left alone: their positions name the object.
func viewify(r *Rng, c *PCase) {
	for _, e := range c.Elem {
		if e >= 0 {
			return
		}
	}
	var objs []*OSpec
	if c.Recv.K == "dmat" || c.Recv.K == "smat" {
		objs = append(objs, &c.Recv)
	}
	for i := range c.Args {
		if (c.Args[i].K == "dmat" || c.Args[i].K == "smat") && c.Alias[i] < 0 {
			objs = append(objs, &c.Args[i])
		}
	}
	if len(objs) == 0 || r.Intn(3) > 0 {
		return
	}
	common := r.Intn(2) == 0
	allT := r.Intn(3) // 0: none transposed, 1: all transposed, 2: each at random
	// common parent shape: large enough for every view in either orientation
	cr, cc := 0, 0
	for _, o := range objs {
		for _, d := range []int{o.Rows, o.Cols} {
			if d > cr {
				cr = d
			}
			if d > cc {
				cc = d
			}
		}
	}
	cr += 1 + r.Intn(2)
	cc += 1 + r.Intn(2)
	order, n := 0, 0
	if isReal(c.Type) && len(c.Recv.E) > 0 {
		order, n = c.Recv.E[0].O, c.Recv.E[0].N
	}
	for _, o := range objs {
		if !common && r.Intn(4) == 0 {
			continue // this operand stays a matrix of its own
		}
		// sparse T() builds a new matrix (and panics on a slice with entries outside it): sparse views are slices only
		t := o.K == "dmat" && (allT == 1 || (allT == 2 && r.Intn(2) == 0))
		sr, sc := o.Rows, o.Cols
		if t {
			sr, sc = sc, sr
		}
		pr, pc := cr, cc
		if !common {
			pr, pc = sr+r.Intn(3), sc+r.Intn(3)
		}
		v := &VSpec{PR: pr, PC: pc, RO: r.Intn(pr - sr + 1), CO: r.Intn(pc - sc + 1), T: t}
		p := genObj(r, c.Type, o.K, pr, pc, order, n)
		o.E, o.View = p.E, v
	}
}
func sameShape(a, b OSpec) bool { return a.Rows == b.Rows && a.Cols == b.Cols }
func isContainer(k string) bool { return k == "dvec" || k == "svec" || k == "dmat" || k == "smat" }

// refElem: make scalar argument i a reference to an element of the receiver (2 of 3) or of an earlier container
// operand; on sparse owners stored entries are preferred (3 of 4), an absent one is created by At
func refElem(r *Rng, c *PCase, i int) bool {
	var owners []int
	if isContainer(c.Recv.K) && len(c.Recv.E) > 0 {
		owners = append(owners, 0, 0)
	}
	for j := 0; j < i; j++ {
		if _, _, isE := c.elemRef(j); !isE && isContainer(c.Args[j].K) && len(c.ownerSpec(j+1).E) > 0 {
			owners = append(owners, j+1)
		}
	}
	if len(owners) == 0 {
		return false
	}
	o := owners[r.Intn(len(owners))]
	spec := c.ownerSpec(o)
	e := r.Intn(len(spec.E))
	if r.Intn(4) > 0 {
		var stored []int
		for k, x := range spec.E {
			if x.P {
				stored = append(stored, k)
			}
		}
		if len(stored) > 0 {
			e = stored[r.Intn(len(stored))]
		}
	}
	setElemRef(c, i, o, e)
	return true
}
func setElemRef(c *PCase, i, owner, e int) {
	if c.Elem == nil {
		c.Elem = make([]int, len(c.Args))
		for j := range c.Elem {
			c.Elem[j] = -1
		}
	}
	c.Alias[i], c.Elem[i] = owner, e
	el := c.ownerSpec(owner).E[e]
	el.P = true
	c.Args[i] = OSpec{K: "scalar", E: []ESpec{el}}
}

// ---------------------------------------------------------------- exhaustive small enumeration (hunt)

func smallElems(t string, sparse bool, rich bool) []ESpec {
	var vs []float64
	if isInt(t) {
		vs = []float64{0, 2, -3}
	} else {
		vs = []float64{0, 2, -3}
		if rich {
			vs = append(vs, math.Copysign(0, -1), math.Inf(-1), math.NaN(), 1e-20)
		}
	}
	var es []ESpec
	if sparse {
		es = append(es, ESpec{P: false})
	}
	for _, v := range vs {
		if !isReal(t) {
			es = append(es, ESpec{P: true, V: JF(v)})
			continue
		}
		es = append(es, ESpec{P: true, V: JF(v)})
		if v == 2 || v == 0 {
			es = append(es, ESpec{P: true, V: JF(v), O: 1, N: 1, D: []JF{1}})
			es = append(es, ESpec{P: true, V: JF(v), O: 2, N: 1, D: []JF{-2}, H: [][]JF{{3}}})
			es = append(es, ESpec{P: true, V: JF(v), O: 2, N: 2, D: []JF{0, 1}, H: [][]JF{{0, 1}, {1, 0}}})
		}
	}
	return es
}

// enumObjs: all objects of a kind with dimensions <= maxn over the small element pool
func enumObjs(t, kind string, rows, cols int, rich bool) []OSpec {
	sp := kind == "svec" || kind == "smat"
	es := smallElems(t, sp, rich)
	cnt := 1
	switch kind {
	case "dvec", "svec":
		cnt = rows
	case "dmat", "smat":
		cnt = rows * cols
	}
	out := []OSpec{{K: kind, Rows: rows, Cols: cols}}
	if kind == "scalar" {
		out[0].Rows, out[0].Cols = 0, 0
	}
	for i := 0; i < cnt; i++ {
		var nx []OSpec
		for _, o := range out {
			for _, e := range es {
				o2 := o
				o2.E = append(append([]ESpec{}, o.E...), e)
				nx = append(nx, o2)
			}
		}
		out = nx
		if len(out) > 4000 {
			out = out[:4000]
		}
	}
	return out
}

// exhaustive: every combination of small receiver / operands / alias patterns for one plan, capped
func exhaustive(pl Plan, maxn int, cap_ int, visit func(PCase) bool) {
	cnt := 0
	rich := pl.Kind == "scalar"
	for n := 0; n <= maxn; n++ {
		m := n
		if pl.Kind == "dmat" || pl.Kind == "smat" {
			m = 1
			if n == 2 {
				m = 2
			}
		}
		r := NewRng(uint64(n + 1))
		_ = r
		rr, rc := n, m
		ar := make([]int, len(pl.Args))
		ac := make([]int, len(pl.Args))
		for i := range pl.Args {
			ar[i], ac[i] = n, m
		}
		switch pl.P.G {
		case "MdotM":
			ar[0], ac[0], ar[1], ac[1] = n, n, n, m
		case "MdotV":
			ar[0], ac[0], ar[1] = n, m, m
		case "VdotM":
			rr = m
			ar[0], ar[1], ac[1] = n, n, m
		case "Outer":
			ar[0], ar[1] = n, m
		}
		recvs := enumObjs(pl.Type, pl.Kind, rr, rc, rich)
		lists := make([][]OSpec, len(pl.Args))
		for i, k := range pl.Args {
			switch k {
			case "f64":
				lists[i] = []OSpec{{K: "f64", F: 1e-8}, {K: "f64", F: 2.5}}
			case "int":
				for v := 0; v <= n; v++ {
					lists[i] = append(lists[i], OSpec{K: "int", I: v})
				}
			default:
				lists[i] = enumObjs(pl.Type, k, ar[i], ac[i], rich)
				// alias markers: the receiver / the first argument
				if k == pl.Kind {
					lists[i] = append(lists[i], OSpec{K: "alias0"})
				}
				if i > 0 && pl.Args[0] == k {
					lists[i] = append(lists[i], OSpec{K: "alias1"})
				}
				// element references: the scalar operand is recv.At(e) / arg0.At(e)
				if k == "scalar" && isContainer(pl.Kind) {
					cnt := rr
					if pl.Kind == "dmat" || pl.Kind == "smat" {
						cnt = rr * rc
					}
					var refs []OSpec
					for e := 0; e < cnt; e++ {
						refs = append(refs, OSpec{K: "elem0", I: e})
						if i > 0 && pl.Args[0] == pl.Kind {
							refs = append(refs, OSpec{K: "elem1", I: e})
						}
					}
					// references first: they are what the cap must not cut off
					lists[i] = append(refs, lists[i]...)
				}
			}
		}
		idx := make([]int, len(pl.Args))
		for _, rv := range recvs {
			for i := range idx {
				idx[i] = 0
			}
			for {
				c := PCase{Type: pl.Type, Kind: pl.Kind, G: pl.P.G, C: pl.P.C, Recv: rv}
				ok := true
				type eref struct{ i, owner, e int }
				var erefs []eref
				for i := range pl.Args {
					o := lists[i][idx[i]]
					al := -1
					switch o.K {
					case "elem0", "elem1":
						owner := 0
						if o.K == "elem1" {
							owner = 1
							if c.Alias[0] == 0 {
								ok = false // arg0 is the receiver: the same reference as elem0
							}
						}
						erefs = append(erefs, eref{i, owner, o.I})
						o = OSpec{K: "scalar", E: []ESpec{{P: true}}}
					case "alias0":
						al = 0
						o = rv
					case "alias1":
						al = 1
						if c.Alias[0] >= 0 {
							al = c.Alias[0]
						}
						o = c.Args[0]
						if !sameShape(c.Args[0], OSpec{Rows: ar[i], Cols: ac[i]}) && pl.Args[i] != "scalar" {
							ok = false
						}
					}
					c.Args = append(c.Args, o)
					c.Alias = append(c.Alias, al)
				}
				for _, er := range erefs {
					if ok {
						setElemRef(&c, er.i, er.owner, er.e)
					}
				}
				if ok {
					cnt++
					if !visit(c) || cnt >= cap_ {
						return
					}
				}
				// next combination
				j := len(idx) - 1
				for ; j >= 0; j-- {
					idx[j]++
					if idx[j] < len(lists[j]) {
						break
					}
					idx[j] = 0
				}
				if j < 0 {
					break
				}
			}
		}
	}
}

// ---------------------------------------------------------------- shrinking

func cloneCase(c PCase) PCase {
	d := c
	d.Recv = cloneObj(c.Recv)
	d.Args = make([]OSpec, len(c.Args))
	for i := range c.Args {
		d.Args[i] = cloneObj(c.Args[i])
	}
	d.Alias = append([]int{}, c.Alias...)
	if c.Elem != nil {
		d.Elem = append([]int{}, c.Elem...)
	}
	return d
}
func cloneObj(o OSpec) OSpec {
	p := o
	p.E = make([]ESpec, len(o.E))
	for i, e := range o.E {
		p.E[i] = e
		p.E[i].D = append([]JF{}, e.D...)
		p.E[i].H = nil
		for _, row := range e.H {
			p.E[i].H = append(p.E[i].H, append([]JF{}, row...))
		}
	}
	return p
}

// shrink: greedy simplification that keeps (site, class, where) of the difference
func shrink(d Diff) Diff {
	keep := func(c PCase) (Diff, bool) {
		cl, nd, _ := evalPair(c)
		if nd != nil && cl == d.Class && nd.Where == d.Where && nd.Finding == d.Finding {
			return *nd, true
		}
		return Diff{}, false
	}
	objs := func(c *PCase) []*OSpec {
		l := []*OSpec{&c.Recv}
		for i := range c.Args {
			l = append(l, &c.Args[i])
		}
		return l
	}
	for pass := 0; pass < 6; pass++ {
		changed := false
		// drop aliasing
		for i := range d.Case.Alias {
			if owner, e, isE := d.Case.elemRef(i); isE {
				// a scalar of its own with the element's value instead of the reference
				c := cloneCase(d.Case)
				el := c.ownerSpec(owner).E[e]
				el.P = true
				if !c.ownerSpec(owner).E[e].P {
					el = ESpec{P: true}
				}
				c.Args[i] = cloneObj(OSpec{K: "scalar", E: []ESpec{el}})
				c.Alias[i], c.Elem[i] = -1, -1
				if nd, ok := keep(c); ok {
					d, changed = nd, true
				}
			} else if d.Case.Alias[i] >= 0 {
				c := cloneCase(d.Case)
				if c.Alias[i] == 0 {
					c.Args[i] = cloneObj(c.Recv)
				} else {
					c.Args[i] = cloneObj(c.Args[c.Alias[i]-1])
				}
				c.Alias[i] = -1
				if nd, ok := keep(c); ok {
					d, changed = nd, true
				}
			}
		}
		// simplify elements
		n := len(objs(&d.Case))
		for oi := 0; oi < n; oi++ {
			ne := len(objs(&d.Case)[oi].E)
			for ei := 0; ei < ne; ei++ {
				cur := objs(&d.Case)[oi].E[ei]
				cands := []ESpec{{P: false}, {P: true, V: 0}, {P: true, V: 1}, {P: true, V: cur.V},
					{P: true, V: cur.V, O: 1, N: cur.N, D: cur.D}}
				if !isReal(d.Case.Type) {
					cands = cands[:3]
				}
				for _, e := range cands {
					if reflect.DeepEqual(e, cur) {
						break
					}
					if !e.P && !(objs(&d.Case)[oi].K == "svec" || objs(&d.Case)[oi].K == "smat") {
						continue
					}
					if isReal(d.Case.Type) && e.O == 0 {
						e.N, e.D, e.H = 0, nil, nil
					}
					c := cloneCase(d.Case)
					objs(&c)[oi].E[ei] = e
					if nd, ok := keep(c); ok {
						d, changed = nd, true
						break
					}
				}
			}
		}
		if !changed {
			break
		}
	}
	return d
}
