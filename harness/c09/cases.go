// Coq case files for the modelled pairs: the harness calls BOTH members on identically built states and
// records both full results; coq/C09/Corr.v replays the generic model (C01 / C03) and the concrete model
// (C09/ModelS.v, C09/ModelV.v) and compares each with what Go did.
package main

import (
	"fmt"
	"math"
	"path/filepath"
	"reflect"
	"strings"

	. "adharness/common"

	ad "github.com/pbenner/autodiff"
)

// ================================================================ magic scalars (family S)

type RegSnap struct {
	Kind  int
	Val   float64
	Order int
	N     int
	D     []float64
	H     [][]float64
}

func snapReg(s ad.ConstScalar) RegSnap {
	switch v := s.(type) {
	case *ad.Real64:
		r := RegSnap{Kind: 0, Val: v.Value, Order: v.Order, N: v.N}
		r.D = append(r.D, v.Derivative...)
		for _, row := range v.Hessian {
			r.H = append(r.H, append([]float64{}, row...))
		}
		return r
	case *ad.Real32:
		r := RegSnap{Kind: 1, Val: float64(v.Value), Order: v.Order, N: v.N}
		for _, x := range v.Derivative {
			r.D = append(r.D, float64(x))
		}
		for _, row := range v.Hessian {
			rr := []float64{}
			for _, x := range row {
				rr = append(rr, float64(x))
			}
			r.H = append(r.H, rr)
		}
		return r
	}
	panic("snapReg: not a magic scalar")
}
func coqReg(r RegSnap) string {
	rows := make([]string, len(r.H))
	for i := range r.H {
		rows[i] = FList(r.H[i])
	}
	return fmt.Sprintf("(mkReg %s %s %d %d %s %s)", []string{"K64", "K32"}[r.Kind], F(r.Val), r.Order, r.N, FList(r.D), List(rows))
}

// oracle entries (function id of coq/C09/Corr.v = ids of C01: Exp 0, Log 1, Log1p 2, Pow 14)
type orc struct{ ents []string }

func (o *orc) add1(id int, x, r float64) { o.ents = append(o.ents, fmt.Sprintf("(%d%%nat, [%s], %s)", id, F(x), F(r))) }
func (o *orc) exp(x float64) float64     { r := math.Exp(x); o.add1(0, x, r); return r }
func (o *orc) log(x float64) float64     { r := math.Log(x); o.add1(1, x, r); return r }
func (o *orc) log1p(x float64) float64   { r := math.Log1p(x); o.add1(2, x, r); return r }
func (o *orc) pow(x, y float64) float64 {
	r := math.Pow(x, y)
	o.ents = append(o.ents, fmt.Sprintf("(14%%nat, [%s; %s], %s)", F(x), F(y), F(r)))
	return r
}

type sPairDef struct {
	G, C string
	Ctor string // constructor of ModelS.spair / ppair
	Ar   int    // register operands after the receiver (a, b, t)
	Pred bool
	Eps  bool
}

var sPairs = []sPairDef{
	{"Neg", "NEG", "PNeg", 1, false, false}, {"Add", "ADD", "PAdd", 2, false, false}, {"Sub", "SUB", "PSub", 2, false, false},
	{"Mul", "MUL", "PMul", 2, false, false}, {"Div", "DIV", "PDiv", 2, false, false}, {"Pow", "POW", "PPow", 2, false, false},
	{"Sqrt", "SQRT", "PSqrt", 1, false, false}, {"Exp", "EXP", "PExp", 1, false, false}, {"Log", "LOG", "PLog", 1, false, false},
	{"Log1p", "LOG1P", "PLog1p", 1, false, false}, {"Min", "MIN", "PMin", 2, false, false}, {"Max", "MAX", "PMax", 2, false, false},
	{"Abs", "ABS", "PAbs", 1, false, false}, {"Set", "SET", "PSet", 1, false, false},
	{"LogAdd", "LOGADD", "PLogAdd", 3, false, false}, {"LogSub", "LOGSUB", "PLogSub", 3, false, false},
	{"Equals", "EQUALS", "QEquals", 1, true, true}, {"Greater", "GREATER", "QGreater", 1, true, false},
	{"Smaller", "SMALLER", "QSmaller", 1, true, false}, {"Sign", "SIGN", "QSign", 0, true, false},
}

func st32(kind int, x float64) float64 {
	if kind == 1 {
		return float64(float32(x))
	}
	return x
}

// oracleFor: the libm calls the two members make on these register values (shadow of the Go bodies)
func oracleFor(d sPairDef, kind int, v []float64) *orc {
	o := &orc{}
	x := v[1]
	switch d.G {
	case "Exp":
		o.exp(x)
	case "Log":
		o.log(x)
	case "Log1p":
		o.log1p(x)
	case "Sqrt":
		o.pow(x, 0.5)
		o.pow(x, 0.5-1)
		o.pow(x, 0.5-2)
	case "Pow":
		y := v[2]
		o.pow(x, y)
		o.pow(x, y-1)
		o.pow(x, y-2)
		o.pow(x, y-0)
		o.log(x)
	case "LogAdd":
		a, b := v[1], v[2]
		if a > b {
			a, b = b, a
		}
		if !math.IsInf(a, 0) {
			t := st32(kind, a-b)
			t = st32(kind, o.exp(t))
			o.log1p(t)
		}
	case "LogSub":
		a, b := v[1], v[2]
		if !math.IsInf(b, -1) {
			t := st32(kind, b-a)
			t = st32(kind, o.exp(t))
			t = st32(kind, -t)
			o.log1p(t)
		}
	}
	return o
}

func panicKind(msg string) int {
	switch {
	case strings.Contains(msg, "different number of partial derivatives"):
		return 1
	case strings.Contains(msg, "index out of range"):
		return 2
	}
	return 9
}

// runS: build the registers (ids 0..3 = c a b t, aliased ids share the object), call one member
func runS(t string, d sPairDef, specs []ESpec, ids []int, eps float64, conc bool) (kind int, post []RegSnap, pres string) {
	objs := map[int]ad.Scalar{}
	for i, id := range ids {
		if _, ok := objs[id]; !ok {
			objs[id] = build(t, OSpec{K: "scalar", E: []ESpec{specs[i]}}).(ad.Scalar)
		}
	}
	name := d.G
	if conc {
		name = d.C
	}
	m := reflect.ValueOf(objs[ids[0]]).MethodByName(name)
	var in []reflect.Value
	for i := 1; i <= d.Ar; i++ {
		in = append(in, reflect.ValueOf(objs[ids[i]]))
	}
	if d.Eps {
		in = append(in, reflect.ValueOf(eps))
	}
	var rets []reflect.Value
	func() {
		defer func() {
			if r := recover(); r != nil {
				kind = panicKind(fmt.Sprint(r))
			}
		}()
		rets = m.Call(in)
	}()
	seen := map[int]bool{}
	for _, id := range ids {
		if !seen[id] {
			seen[id] = true
			post = append(post, snapReg(objs[id]))
		}
	}
	if d.Pred && kind == 0 {
		switch rets[0].Kind() {
		case reflect.Bool:
			pres = "PB " + B(rets[0].Bool())
		default:
			pres = "PZ " + Z(rets[0].Int())
		}
	}
	return
}

func distinct(ids []int) []int {
	seen := map[int]bool{}
	var l []int
	for _, id := range ids {
		if !seen[id] {
			seen[id] = true
			l = append(l, id)
		}
	}
	return l
}

func regsCoq(ids []int, rs []RegSnap) string {
	s := make([]string, len(ids))
	for i := range ids {
		s[i] = fmt.Sprintf("(%d%%nat, %s)", ids[i], coqReg(rs[i]))
	}
	return List(s)
}

type SCaseRaw struct {
	Fam   string  `json:"fam"`
	Type  string  `json:"type"`
	G     string  `json:"g"`
	Specs []ESpec `json:"specs"`
	Ids   []int   `json:"ids"`
	Eps   JF      `json:"eps"`
}

func genSCase(r *Rng, w *CaseWriter, k int) {
	t := []string{"real64", "real32"}[k%2]
	d := sPairs[(k/2)%len(sPairs)]
	order, n := r.Intn(3), r.Intn(3)
	if order > 0 && n == 0 && r.Intn(3) > 0 {
		n = 1 + r.Intn(2)
	}
	specs := make([]ESpec, 1+d.Ar)
	ids := make([]int, 1+d.Ar)
	for i := range specs {
		specs[i] = genElem(r, t, order, n, false)
		if order == 0 || (i == 0 && r.Intn(2) == 0) {
			// receivers are often fresh (Order 0, N 0)
			if i == 0 {
				specs[i].O, specs[i].N, specs[i].D, specs[i].H = 0, 0, nil, nil
			}
		}
		// keep the storage invariant of the spec: Order 0 carries no slices
		if specs[i].O == 0 {
			specs[i].D, specs[i].H = nil, nil
		}
		ids[i] = i
	}
	// value classes aimed at the branch conditions
	if in(d.G, "LogAdd", "LogSub") && r.Intn(3) == 0 {
		specs[1+r.Intn(2)].V = JF([]float64{math.Inf(-1), math.Inf(1), 0}[r.Intn(3)])
	}
	if in(d.G, "Log", "Sqrt", "Pow") && r.Intn(2) == 0 {
		specs[1].V = JF(math.Abs(float64(specs[1].V)) + 0.5)
	}
	// equal values in distinct registers: the boundary of Greater/Smaller/Min/Max/LogAdd's swap
	if len(specs) >= 3 && r.Intn(4) == 0 {
		specs[2].V = specs[1].V
	}
	if len(specs) >= 2 && d.Pred && r.Intn(4) == 0 {
		specs[1].V = specs[0].V
	}
	// aliasing: receiver = operand, operand = operand
	for i := 1; i < len(ids); i++ {
		if r.Intn(5) == 0 {
			ids[i] = ids[r.Intn(i)]
		}
	}
	for i := range ids {
		specs[i] = specs[ids[i]]
	}
	eps := []float64{1e-8, 0.75, 2.5, 0}[r.Intn(4)]
	vals := make([]float64, 4)
	for i := range specs {
		vals[i] = st32(map[string]int{"real64": 0, "real32": 1}[t], float64(specs[i].V))
	}
	kind := map[string]int{"real64": 0, "real32": 1}[t]
	// pre-state as Go holds it
	_, pre, _ := runSpre(t, specs, ids)
	gk, gpost, gres := runS(t, d, specs, ids, eps, false)
	ck, cpost, cres := runS(t, d, specs, ids, eps, true)
	dids := distinct(ids)
	var args []string
	for i := 0; i < len(ids); i++ {
		args = append(args, fmt.Sprint(ids[i]))
	}
	raw := SCaseRaw{"S", t, d.G, specs, ids, JF(eps)}
	agree := gk == ck && reflect.DeepEqual(fmt.Sprint(gpost), fmt.Sprint(cpost)) && gres == cres
	key := fmt.Sprintf("S:%s:%s:%v:%d%d", t, d.G, ids, order, n)
	nontriv := order >= 1 && n >= 1
	if d.Pred {
		if gk != 0 || ck != 0 {
			return
		}
		coq := fmt.Sprintf("CP %s (%s %s) %s (%s) (%s)", regsCoq(dids, pre), d.Ctor, strings.Join(args, " "), F(eps), gres, cres)
		w.Add(coq, raw, key, true)
	} else {
		o := oracleFor(d, kind, vals)
		coq := fmt.Sprintf("CS %s (%s %s) %s %d %s %d %s", regsCoq(dids, pre), d.Ctor, strings.Join(args, " "), List(o.ents),
			gk, regsCoq(dids, gpost), ck, regsCoq(dids, cpost))
		w.Add(coq, raw, key, nontriv)
	}
	w.Count("S:" + d.G + "/" + d.C)
	w.Count("S:type:" + t)
	if !agree {
		w.Count("S:go-generic-differs-from-go-concrete")
	}
	if gk != 0 {
		w.Count("S:outcome:panic")
	}
	if len(dids) < len(ids) {
		w.Count("S:aliased")
	}
}

func runSpre(t string, specs []ESpec, ids []int) (int, []RegSnap, string) {
	objs := map[int]ad.Scalar{}
	var pre []RegSnap
	for i, id := range ids {
		if _, ok := objs[id]; !ok {
			objs[id] = build(t, OSpec{K: "scalar", E: []ESpec{specs[i]}}).(ad.Scalar)
			pre = append(pre, snapReg(objs[id]))
		}
	}
	return 0, pre, ""
}

// ================================================================ vectors over small integers (family V)

type VOp struct {
	Op string  `json:"op"` // NewS | NewD | SetAt
	H  int     `json:"h"`
	I  int64   `json:"i,omitempty"`
	X  int64   `json:"x,omitempty"`
	L  []int64 `json:"l,omitempty"`
	L2 []int64 `json:"l2,omitempty"`
}
type VCaseRaw struct {
	Fam    string `json:"fam"`
	Type   string `json:"type"`
	Sparse bool   `json:"sparse"`
	Setup  []VOp  `json:"setup"`
	G      string `json:"g"`
	R      int    `json:"r"`
	A      int    `json:"a"`
	B      int    `json:"b"`
	X      int64  `json:"x"`
}

type vPairDef struct {
	G, C string
	NV   int  // vector operands
	Sc   bool // scalar operand
	Eq   bool
}

var vPairs = []vPairDef{
	{"VaddV", "VADDV", 2, false, false}, {"VsubV", "VSUBV", 2, false, false}, {"VmulV", "VMULV", 2, false, false},
	{"VdivV", "VDIVV", 2, false, false}, {"VaddS", "VADDS", 1, true, false}, {"VsubS", "VSUBS", 1, true, false},
	{"VmulS", "VMULS", 1, true, false}, {"VdivS", "VDIVS", 1, true, false}, {"Equals", "EQUALS", 1, false, true},
	{"Set", "SET", 1, false, false},
}

func buildVWorld(t string, sparse bool, setup []VOp) []ad.Vector {
	var vs []ad.Vector
	for _, o := range setup {
		switch o.Op {
		case "NewS":
			vs = append(vs, newSparse(t, o.L, o.L2, int(o.I)))
		case "NewD":
			vs = append(vs, newDense(t, o.L))
		case "SetAt":
			vs[o.H].At(int(o.I)).SetFloat64(float64(o.X))
		}
	}
	return vs
}
func observeVWorld(vs []ad.Vector, sparse bool) int64 {
	h := int64(17)
	if sparse {
		for _, v := range vs {
			h = hashList(h, observeVec(v, true).Flat)
		}
	}
	h = hashList(h, []int64{SEP, SEP})
	if !sparse {
		for _, v := range vs {
			h = hashList(h, observeVec(v, false).Flat)
		}
	}
	return h
}

func runV(c VCaseRaw, d vPairDef, conc bool) (kind int64, payload []int64, hash int64) {
	vs := buildVWorld(c.Type, c.Sparse, c.Setup)
	payload = []int64{}
	name := d.G
	if conc {
		name = d.C
	}
	m := reflect.ValueOf(vs[c.R]).MethodByName(name)
	var in []reflect.Value
	in = append(in, reflect.ValueOf(vs[c.A]))
	if d.NV == 2 {
		in = append(in, reflect.ValueOf(vs[c.B]))
	}
	if d.Sc {
		in = append(in, reflect.ValueOf(ad.NewScalar(scalarType(c.Type), float64(c.X))))
	}
	if d.Eq {
		in = append(in, reflect.ValueOf(float64(c.X)/2))
	}
	func() {
		defer func() {
			if r := recover(); r != nil {
				kind = K_PANIC
				payload = []int64{}
			}
		}()
		rets := m.Call(in)
		if d.Eq {
			if rets[0].Bool() {
				payload = append(payload, 1)
			} else {
				payload = append(payload, 0)
			}
		}
	}()
	hash = observeVWorld(vs, c.Sparse)
	return
}

func coqVOp(sparse bool, o VOp) string {
	ref := fmt.Sprintf("(RD %d)", o.H)
	if sparse {
		ref = fmt.Sprintf("(RS %d)", o.H)
	}
	switch o.Op {
	case "NewS":
		return fmt.Sprintf("NewS %s %s %s", ZList(o.L), ZList(o.L2), Z(o.I))
	case "NewD":
		return "NewD " + ZList(o.L)
	}
	return fmt.Sprintf("SetAt %s %s %s", ref, Z(o.I), Z(o.X))
}

func genVCase(r *Rng, w *CaseWriter, k int) {
	t := typeNames[k%len(typeNames)]
	sparse := r.Intn(3) > 0
	d := vPairs[(k/len(typeNames))%len(vPairs)]
	if d.G == "Set" && !sparse && !isReal(t) {
		sparse = true // only the dense vectors of magic scalars have SET
	}
	n := r.Range(0, 6)
	if r.Intn(4) > 0 && n == 0 {
		n = r.Range(1, 6)
	}
	c := VCaseRaw{Fam: "V", Type: t, Sparse: sparse, G: d.G}
	div := in(d.G, "VdivV", "VdivS")
	var sc int64
	if d.Sc {
		sc = []int64{1, -1, 2, -2, 3, 0, 0}[r.Intn(7)]
		if !div && sc == 0 && r.Bool() {
			sc = 4
		}
	}
	if d.Eq {
		sc = []int64{1, 2, 5, 40}[r.Intn(4)] // 2*epsilon
	}
	c.X = sc
	nvec := 1 + d.NV
	handles := make([]int, nvec)
	var contents [][]int64
	// aliasing pattern first: slot i shares the vector of an earlier slot
	slot := make([]int, nvec)
	for i := range slot {
		slot[i] = i
		if i > 0 && r.Intn(5) == 0 {
			slot[i] = slot[r.Intn(i)]
		}
	}
	if d.G == "VdivV" && slot[1] == 0 && slot[2] != 0 {
		slot[1] = 1 // the receiver as dividend of another divisor would need inexact float quotients
	}
	isDivisor := func(i int) bool { return d.G == "VdivV" && slot[2] == i }
	for i := 0; i < nvec; i++ {
		handles[i] = -1
		if slot[i] != i {
			handles[i] = handles[slot[i]]
			continue
		}
		l, _ := pattern(r, n)
		dim := n
		if r.Intn(16) == 0 {
			dim = n + 1
			l = append(l, 0)
		}
		if isDivisor(i) {
			// divisors: small, some zero
			for j := range l {
				l[j] = []int64{1, -1, 2, -2, 3, 0}[r.Intn(6)]
			}
		} else if div {
			for j := range l {
				l[j] *= 6 // exact float quotients for the divisors 1, -1, 2, -2, 3
			}
		}
		if d.Eq && i == 1 && r.Bool() && len(contents) > 0 && len(contents[0]) == len(l) {
			// nearly equal vectors
			l = append([]int64{}, contents[0]...)
			if len(l) > 0 && r.Bool() {
				l[r.Intn(len(l))] += int64(r.Range(-2, 2))
			}
		}
		h := len(contents)
		handles[i] = h
		contents = append(contents, l)
		if sparse {
			var ks, xs []int64
			for j, x := range l {
				if x != 0 {
					ks = append(ks, int64(j))
					xs = append(xs, x)
				}
			}
			if ks == nil {
				ks, xs = []int64{}, []int64{}
			}
			c.Setup = append(c.Setup, VOp{Op: "NewS", H: h, L: ks, L2: xs, I: int64(dim)})
		} else {
			c.Setup = append(c.Setup, VOp{Op: "NewD", H: h, L: l})
		}
	}
	explicit := false
	if sparse {
		// explicitly stored zeros / overwritten entries
		for h, l := range contents {
			for j := range l {
				if l[j] == 0 && r.Intn(4) == 0 {
					c.Setup = append(c.Setup, VOp{Op: "SetAt", H: h, I: int64(j), X: 0})
					explicit = true
				} else if l[j] != 0 && r.Intn(10) == 0 {
					c.Setup = append(c.Setup, VOp{Op: "SetAt", H: h, I: int64(j), X: 0})
					explicit = true
				}
			}
		}
	}
	c.R, c.A = handles[0], handles[1]
	if d.NV == 2 {
		c.B = handles[2]
	}
	gk, gp, gh := runV(c, d, false)
	ck, cp, ch := runV(c, d, true)
	var ops []string
	for _, o := range c.Setup {
		ops = append(ops, coqVOp(sparse, o))
	}
	var pair string
	switch {
	case in(d.G, "VaddV", "VsubV", "VmulV"):
		pair = fmt.Sprintf("VPopV %s %d %d %d", map[string]string{"VaddV": "Add", "VsubV": "Sub", "VmulV": "Mul"}[d.G], c.R, c.A, c.B)
	case d.G == "VdivV":
		pair = fmt.Sprintf("VPdivV %d %d %d", c.R, c.A, c.B)
	case d.Sc:
		pair = fmt.Sprintf("VP%s %d %d %s", map[string]string{"VaddS": "addS", "VsubS": "subS", "VmulS": "mulS", "VdivS": "divS"}[d.G], c.R, c.A, Z(c.X))
	case d.Eq:
		pair = fmt.Sprintf("VPequals %d %d %s", c.R, c.A, Z(c.X))
	default:
		pair = fmt.Sprintf("VPset %d %d", c.R, c.A)
	}
	coq := fmt.Sprintf("CV %s %s %s (%s) (%s, %s, %s) (%s, %s, %s)", coqTy(t), B(sparse), List(ops), pair,
		Z(gk), ZList(gp), Z(gh), Z(ck), ZList(cp), Z(ch))
	stor := "dense"
	if sparse {
		stor = "sparse"
	}
	key := fmt.Sprintf("V:%s:%v:%s:%v:%d", t, sparse, d.G, c.Setup, c.X)
	aliased := c.A == c.R || (d.NV == 2 && (c.B == c.R || c.B == c.A))
	w.Add(coq, c, key, n >= 2 && (explicit || !sparse || aliased))
	w.Count("V:" + stor + ":" + d.G + "/" + d.C)
	w.Count("V:type:" + t)
	if aliased {
		w.Count("V:aliased")
	}
	if explicit {
		w.Count("V:explicit-stored-zero")
	}
	if gk != 0 || ck != 0 {
		w.Count("V:outcome:panic")
	}
	if gk != ck || gh != ch || fmt.Sprint(gp) != fmt.Sprint(cp) {
		w.Count("V:go-generic-differs-from-go-concrete")
	}
}

// pattern: a value list with one of the zero patterns the quantifier names
func nzv(r *Rng) int64 {
	x := int64(r.Range(1, 8))
	if r.Bool() {
		return -x
	}
	return x
}
func pattern(r *Rng, n int) ([]int64, string) {
	l := make([]int64, n)
	kind := []string{"allzero", "leading", "trailing", "interleaved", "full", "single", "random"}[r.Intn(7)]
	switch kind {
	case "leading":
		k := r.Range(0, n)
		for i := k; i < n; i++ {
			l[i] = nzv(r)
		}
	case "trailing":
		k := r.Range(0, n)
		for i := 0; i < k; i++ {
			l[i] = nzv(r)
		}
	case "interleaved":
		p := r.Intn(2)
		for i := 0; i < n; i++ {
			if i%2 == p {
				l[i] = nzv(r)
			}
		}
	case "full":
		for i := 0; i < n; i++ {
			l[i] = nzv(r)
		}
	case "single":
		if n > 0 {
			l[r.Intn(n)] = nzv(r)
		}
	case "random":
		for i := 0; i < n; i++ {
			if r.Intn(3) > 0 {
				l[i] = nzv(r)
			}
		}
	}
	return l, kind
}

// ================================================================ emission

const hdr = "From Coq Require Import ZArith List Bool Floats. Import ListNotations.\nFrom ADV Require Import C01.Model C11.Model C03.Model C09.ModelS C09.ModelV C09.Corr.\nOpen Scope Z_scope.\n"

const rule = "S: magic-scalar pairs (Real64/Real32; NEG..LOGSUB, SET, predicates): receiver/operands/temporary with Order 0..2, N 0..2 (occasional Order/N mismatch), values from a pool with +-0, +-Inf, NaN, tiny/huge, receiver = operand and operand = operand aliasing in 1 of 5 slots; non-trivial iff Order >= 1 and N >= 1. V: vector pairs (VaddV..VdivS, Equals, Set) on sparse (2 of 3) and dense vectors of all nine element types, n in 0..6 (1 in 16 with a dimension mismatch), zero patterns all-zero/leading/trailing/interleaved/full/single/random, explicitly stored zeros through At(i).SetFloat64(0) (1 in 4 absent positions, 1 in 10 stored ones), divisors 1,-1,2,-2,3,0, operands aliasing the receiver or each other in 1 of 5 slots; non-trivial iff n >= 2 and (explicit stored zero or dense or aliased). distinct = distinct (family, type, pair, operand specification)"

func emitCases(o Opts) {
	per := 110
	w := NewCaseWriter(o.Out, "cases", hdr, "mism", per)
	w.Type = "case"
	w.Rule = rule
	rng := NewRng(o.Seed)
	nS := 7 * o.N
	nV := 24 * o.N
	for _, c := range corpusCases() {
		c(w)
	}
	for k := 0; k < nS; k++ {
		genSCase(rng.Split(), w, k)
	}
	for k := 0; k < nV; k++ {
		genVCase(rng.Split(), w, k)
	}
	if err := w.Flush(); err != nil {
		Die("%v", err)
	}
	_ = filepath.Join
}

// witnesses of the known differences, replayed first on every run (also as Coq cases: BOTH models follow Go)
func corpusCases() []func(*CaseWriter) {
	return nil
}
