// Pairing table derived from the SOURCE of the library (go/ast on the repository the check runs against):
// a method whose name is all upper case (underscores allowed) paired with the mixed-case method of the same
// receiver type whose upper-cased name is equal once underscores are removed.
package main

import (
	"go/ast"
	"go/parser"
	"go/token"
	"os"
	"sort"
	"strings"
)

type SrcPair struct {
	G     string   `json:"g"`
	C     string   `json:"c"`
	Types []string `json:"types"`
}

func recvName(fd *ast.FuncDecl) string {
	if fd.Recv == nil || len(fd.Recv.List) == 0 {
		return ""
	}
	t := fd.Recv.List[0].Type
	if s, ok := t.(*ast.StarExpr); ok {
		t = s.X
	}
	if id, ok := t.(*ast.Ident); ok {
		return id.Name
	}
	return ""
}

// srcPairs parses the root package of the repository (non-test files, build tag independent)
func srcPairs(repo string) ([]SrcPair, []string, error) {
	fs := token.NewFileSet()
	pkgs, err := parser.ParseDir(fs, repo, func(fi os.FileInfo) bool {
		return !strings.HasSuffix(fi.Name(), "_test.go") && !strings.HasPrefix(fi.Name(), "verif_")
	}, 0)
	if err != nil {
		return nil, nil, err
	}
	meth := map[string]map[string]bool{}
	for _, p := range pkgs {
		for _, f := range p.Files {
			for _, d := range f.Decls {
				if fd, ok := d.(*ast.FuncDecl); ok {
					if r := recvName(fd); r != "" && ast.IsExported(fd.Name.Name) {
						if meth[r] == nil {
							meth[r] = map[string]bool{}
						}
						meth[r][fd.Name.Name] = true
					}
				}
			}
		}
	}
	by := map[string][]string{}
	var unpaired []string
	for r, ms := range meth {
		lo := map[string]string{}
		for n := range ms {
			if !isConcreteName(n) && !isVariantName(n) {
				lo[normName(n)] = n
			}
		}
		for n := range ms {
			if isConcreteName(n) {
				if g, ok := lo[normName(n)]; ok {
					by[g+"/"+n] = append(by[g+"/"+n], r)
				} else {
					unpaired = append(unpaired, r+"."+n)
				}
			}
		}
	}
	var out []SrcPair
	for k, ts := range by {
		sort.Strings(ts)
		gc := strings.SplitN(k, "/", 2)
		out = append(out, SrcPair{gc[0], gc[1], ts})
	}
	sort.Slice(out, func(i, j int) bool { return out[i].G+out[i].C < out[j].G+out[j].C })
	sort.Strings(unpaired)
	return out, unpaired, nil
}
