// Narrow predicates that recognise, per evaluation, the differences between generic and concrete members
// that are genuine defects of the unchanged library (reported as known findings by props/c09.py when the id
// is listed in known_findings.json / corpus/C09/known_findings_proposed.json).  Anything else is a violation.
package main

import (
	"math"
)

func elemVals(o OSpec) []float64 {
	var l []float64
	for _, e := range o.E {
		if e.P {
			l = append(l, float64(e.V))
		}
	}
	return l
}
func hasNonFinite(c PCase) bool {
	chk := func(o OSpec) bool {
		for _, v := range elemVals(o) {
			if math.IsNaN(v) || math.IsInf(v, 0) {
				return true
			}
		}
		return false
	}
	if chk(c.Recv) {
		return true
	}
	for _, a := range c.Args {
		if chk(a) {
			return true
		}
	}
	return false
}
func scalarArg(c PCase, i int) (float64, bool) {
	if i < len(c.Args) {
		if owner, e, ok := c.elemRef(i); ok {
			// a reference to an element: its value when the call starts (an absent sparse entry is created as 0)
			o := c.ownerSpec(owner)
			if e < len(o.E) {
				if !o.E[e].P {
					return 0, true
				}
				return float64(o.E[e].V), true
			}
			return 0, false
		}
		a := c.Args[i]
		if c.Alias[i] == 0 {
			a = c.Recv
		} else if c.Alias[i] > 0 {
			a = c.Args[c.Alias[i]-1]
		}
		if a.K == "scalar" && len(a.E) == 1 {
			return float64(a.E[0].V), true
		}
	}
	return 0, false
}
func nonNull(e ESpec) bool {
	if !e.P {
		return false
	}
	if float64(e.V) != 0 {
		return true
	}
	if e.O >= 1 {
		for _, d := range e.D {
			if float64(d) != 0 {
				return true
			}
		}
	}
	if e.O >= 2 {
		for _, row := range e.H {
			for _, h := range row {
				if float64(h) != 0 {
					return true
				}
			}
		}
	}
	return false
}

// supportsDiffer: receiver and first operand (two sparse vectors) hold a non-null entry at different positions
func supportsDiffer(c PCase) bool {
	if len(c.Args) == 0 || c.Alias[0] == 0 {
		return false
	}
	a, b := c.Recv, c.Args[0]
	if len(a.E) != len(b.E) {
		return false
	}
	for i := range a.E {
		if nonNull(a.E[i]) != nonNull(b.E[i]) {
			return true
		}
	}
	return false
}
func in(s string, l ...string) bool {
	for _, x := range l {
		if s == x {
			return true
		}
	}
	return false
}

// classify: finding id, "" = not a known difference
func classify(c PCase, g, k Result, class int) string {
	site := c.Kind + "." + c.G + "/" + c.C
	ec := elemClass(c.Type)
	switch {
	// scalar.Abs/ABS: F-C09-ABS was fixed by 2fc8894 (ABS switches on the argument's sign, with the Reset case): any
	// difference there is a violation again
	case site == "scalar.Sqrt/SQRT" && ec == "float":
		if x, ok := scalarArg(c, 0); ok && ((x == 0 && math.Signbit(x)) || math.IsInf(x, -1)) {
			return "F-C09-SQRT-BARE"
		}
	case site == "svec.Equals/EQUALS":
		// EQUALS returns false at the first position stored (non-null) in only one of the two vectors; Equals
		// goes on (and its iterators go on removing stored zeros): different answer or different skip() effects
		if !g.Panic && !k.Panic && toksString(k.Ret) == "false" && supportsDiffer(c) {
			return "F-C09-EQUALS-SPARSE"
		}
	// svec.VdivS/VDIVS: VDIVS is { r.VdivS(a, b); return r } since 5abb77d — F-C09-VDIVS-ZERO, F-C09-VDIVS-SELFREF and the
	// VdivS instances of F-C09-ABSENT-SIGNZERO / -NONFINITE / -META are gone: any difference there is a violation
	case ec == "int" && in(site, "dvec.MdotV/MDOTV", "dvec.VdotM/VDOTM"):
		return "F-C09-MDOTV-INT"
	}
	if c.Kind == "svec" && in(c.G, "VaddV", "VsubV", "VmulV", "VmulS", "Set") {
		if ec == "real" {
			// F-C09-ABSENT-SETORD (SET of a lower-order receiver element panicked) is gone with d9fca78
			if !k.Panic && !g.Panic {
				switch cmpToksM(g.all(), k.all(), true) {
				case 0:
					return "F-C09-ABSENT-META"
				case 1:
					return "F-C09-ABSENT-SIGNZERO"
				}
			}
		}
		if class == 1 && in(c.G, "VsubV", "VmulV", "VmulS") {
			return "F-C09-ABSENT-SIGNZERO"
		}
		if class == 2 && in(c.G, "VmulV", "VmulS") && hasNonFinite(c) && !g.Panic && !k.Panic {
			return "F-C09-ABSENT-NONFINITE"
		}
	}
	return ""
}
