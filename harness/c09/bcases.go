// Family B: bare scalar types (Float64 Float32 Int Int8 Int16 Int32 Int64), replayed by coq/C09/CorrB.v
// against C02.Model (generic member) and C09.ModelB (concrete member).
package main

import (
	"fmt"
	"math"
	"reflect"

	. "adharness/common"

	ad "github.com/pbenner/autodiff"
)

var bareTypes = []string{"float64", "float32", "int", "int8", "int16", "int32", "int64"}
var coqTyName = map[string]string{"float64": "TFloat64", "float32": "TFloat32", "int": "TInt", "int8": "TInt8",
	"int16": "TInt16", "int32": "TInt32", "int64": "TInt64"}

type bVal struct {
	F JF    `json:"f"`
	I int64 `json:"i"`
}

func intRange(t string) (int64, int64) {
	switch t {
	case "int8":
		return -128, 127
	case "int16":
		return -32768, 32767
	case "int32":
		return -2147483648, 2147483647
	}
	return math.MinInt64, math.MaxInt64
}
func genBVal(r *Rng, t string) bVal {
	if isInt(t) {
		lo, hi := intRange(t)
		switch r.Intn(6) {
		case 0:
			return bVal{I: []int64{lo, hi, lo + 1, hi - 1, 0, -1}[r.Intn(6)]}
		case 1:
			x := int64(r.U64())
			if t != "int64" && t != "int" {
				x = lo + int64(r.U64()%uint64(hi-lo+1))
			}
			return bVal{I: x}
		}
		return bVal{I: int64(r.Range(-9, 9))}
	}
	return bVal{F: JF(genValue(r, t))}
}
func buildB(t string, v bVal) ad.Scalar {
	s := ad.NullScalar(scalarType(t))
	if isInt(t) {
		s.SetInt64(v.I)
	} else {
		s.SetFloat64(float64(v.F))
	}
	return s
}
func coqSval(t string, v bVal) string {
	if isInt(t) {
		return "(VI " + Z(v.I) + ")"
	}
	return "(VF " + F(float64(v.F)) + ")"
}
func readB(t string, s ad.ConstScalar) bVal {
	if isInt(t) {
		return bVal{I: s.GetInt64()}
	}
	return bVal{F: JF(s.GetFloat64())}
}

type bPairDef struct {
	G, C, Ctor string
	Ar         int
	Pred, Eps  bool
}

var bPairs = []bPairDef{
	{"Add", "ADD", "(BArithP OAdd)", 2, false, false}, {"Sub", "SUB", "(BArithP OSub)", 2, false, false},
	{"Mul", "MUL", "(BArithP OMul)", 2, false, false}, {"Div", "DIV", "(BArithP ODiv)", 2, false, false},
	{"Neg", "NEG", "BNegP", 1, false, false}, {"Min", "MIN", "BMinP", 2, false, false}, {"Max", "MAX", "BMaxP", 2, false, false},
	{"Abs", "ABS", "BAbsP", 1, false, false}, {"Set", "SET", "BSetP", 1, false, false}, {"Pow", "POW", "BPowP", 2, false, false},
	{"Sqrt", "SQRT", "BSqrtP", 1, false, false}, {"Exp", "EXP", "BExpP", 1, false, false}, {"Log", "LOG", "BLogP", 1, false, false},
	{"Log1p", "LOG1P", "BLog1pP", 1, false, false},
	{"LogAdd", "LOGADD", "BLogAddP", 3, false, false}, {"LogSub", "LOGSUB", "BLogSubP", 3, false, false},
	{"Greater", "GREATER", "BGreaterP", 1, true, false}, {"Smaller", "SMALLER", "BSmallerP", 1, true, false},
	{"Sign", "SIGN", "BSignP", 0, true, false}, {"Equals", "EQUALS", "BEqualsP", 1, true, true},
}

type BCaseRaw struct {
	Fam   string `json:"fam"`
	Type  string `json:"type"`
	G     string `json:"g"`
	Vals  []bVal `json:"vals"`
	Alias bool   `json:"alias"`
	Eps   JF     `json:"eps"`
}

// runB: vals[0] = receiver, vals[1..] operands; alias: the first operand is the receiver
func runB(c BCaseRaw, d bPairDef, conc bool) string {
	objs := []ad.Scalar{buildB(c.Type, c.Vals[0])}
	for i := 1; i <= d.Ar; i++ {
		if i == 1 && c.Alias {
			objs = append(objs, objs[0])
		} else if i == 3 {
			objs = append(objs, ad.NullScalar(scalarType(c.Type))) // the temporary of LogAdd / LogSub
		} else {
			objs = append(objs, buildB(c.Type, c.Vals[i]))
		}
	}
	name := d.G
	if conc {
		name = d.C
	}
	m := reflect.ValueOf(objs[0]).MethodByName(name)
	var in []reflect.Value
	for i := 1; i <= d.Ar; i++ {
		in = append(in, reflect.ValueOf(objs[i]))
	}
	if d.Eps {
		in = append(in, reflect.ValueOf(float64(c.Eps)))
	}
	panicked := false
	var rets []reflect.Value
	func() {
		defer func() {
			if r := recover(); r != nil {
				panicked = true
			}
		}()
		rets = m.Call(in)
	}()
	if d.Pred {
		switch {
		case panicked:
			return "RPanic"
		case rets[0].Kind() == reflect.Bool:
			return "(RB " + B(rets[0].Bool()) + ")"
		}
		return "(RZ " + Z(rets[0].Int()) + ")"
	}
	if panicked {
		return "GPanic"
	}
	return "(GVal " + coqSval(c.Type, readB(c.Type, objs[0])) + ")"
}

func genBCase(r *Rng, w *CaseWriter, k int) {
	t := bareTypes[k%len(bareTypes)]
	d := bPairs[(k/len(bareTypes))%len(bPairs)]
	c := BCaseRaw{Fam: "B", Type: t, G: d.G, Eps: JF([]float64{1e-8, 0.75, 2.5, 0}[r.Intn(4)])}
	for i := 0; i < 3; i++ {
		c.Vals = append(c.Vals, genBVal(r, t))
	}
	if in(d.G, "Log", "Sqrt", "Pow") && !isInt(t) && r.Bool() {
		c.Vals[1].F = JF(math.Abs(float64(c.Vals[1].F)))
	}
	if d.G == "Sqrt" && !isInt(t) && r.Intn(6) == 0 {
		c.Vals[1].F = JF([]float64{math.Copysign(0, -1), math.Inf(-1), 0, math.Inf(1)}[r.Intn(4)])
	}
	if d.G == "Div" && isInt(t) && r.Intn(3) > 0 && c.Vals[2].I == 0 {
		c.Vals[2].I = 3
	}
	// equal values in distinct objects: the boundary of the comparisons (Greater/Smaller/Min/Max/Equals)
	if r.Intn(4) == 0 {
		c.Vals[1] = c.Vals[0]
	}
	if r.Intn(4) == 0 {
		c.Vals[2] = c.Vals[1]
	}
	c.Alias = d.Ar >= 1 && !d.Pred && r.Intn(5) == 0
	if c.Alias {
		c.Vals[1] = c.Vals[0]
	}
	g := runB(c, d, false)
	kc := runB(c, d, true)
	x := readB(t, buildB(t, c.Vals[1])).toF(t)
	y := readB(t, buildB(t, c.Vals[2])).toF(t)
	var ents []string
	ent := func(id int, a, b, r float64) {
		ents = append(ents, fmt.Sprintf("(%d, %s, %s, %s)", id, F(a), F(b), F(r)))
	}
	switch d.G {
	case "Exp":
		ent(1, x, 0, math.Exp(x))
	case "Log":
		ent(2, x, 0, math.Log(x))
	case "Log1p":
		ent(3, x, 0, math.Log1p(x))
	case "Pow":
		ent(22, x, y, math.Pow(x, y))
	case "Sqrt":
		ent(22, x, 0.5, math.Pow(x, 0.5))
	case "LogAdd", "LogSub":
		// the libm calls of the sequence, on the intermediate values Go itself produces (generic operations on a temporary)
		func() {
			defer func() { recover() }()
			a, b := ad.Scalar(buildB(t, c.Vals[1])), ad.Scalar(buildB(t, c.Vals[2]))
			tt := ad.NullScalar(scalarType(t))
			if d.G == "LogAdd" {
				if a.Greater(b) {
					a, b = b, a
				}
				if math.IsInf(a.GetFloat64(), 0) {
					return
				}
				tt.Sub(a, b)
			} else {
				if math.IsInf(b.GetFloat64(), -1) {
					return
				}
				tt.Sub(b, a)
			}
			x1 := tt.GetFloat64()
			ent(1, x1, 0, math.Exp(x1))
			tt.Exp(tt)
			if d.G == "LogSub" {
				tt.Neg(tt)
			}
			x2 := tt.GetFloat64()
			ent(3, x2, 0, math.Log1p(x2))
		}()
	}
	var coq string
	if d.Pred {
		// the receiver is the first operand of the predicate
		a, b := c.Vals[0], c.Vals[1]
		coq = fmt.Sprintf("CQ %s %s %s %s %s %s %s", d.Ctor, coqTyName[t], coqSval(t, a), coqSval(t, b), F(float64(c.Eps)), g, kc)
	} else {
		b := c.Vals[2]
		if d.Ar < 2 {
			b = c.Vals[1]
		}
		coq = fmt.Sprintf("CB %s %s %s %s %s %s %s %s", d.Ctor, coqTyName[t], coqSval(t, c.Vals[0]), coqSval(t, c.Vals[1]),
			coqSval(t, b), List(ents), g, kc)
	}
	w.Add(coq, c, fmt.Sprintf("B:%s:%s:%v:%v", t, d.G, c.Vals, c.Alias), !in(d.G, "Set", "Sign"))
	w.Count("B:" + d.G + "/" + d.C)
	w.Count("B:type:" + t)
	if g != kc {
		w.Count("B:go-generic-differs-from-go-concrete")
	}
	if c.Alias {
		w.Count("B:aliased")
	}
}

func (v bVal) toF(t string) float64 {
	if isInt(t) {
		return float64(v.I)
	}
	return float64(v.F)
}

const hdrB = "From Coq Require Import ZArith List Bool Floats. Import ListNotations.\nFrom ADV Require Import C02.Model C09.ModelB C09.CorrB.\nOpen Scope Z_scope.\n"

func emitBCases(o Opts) {
	w := NewCaseWriter(o.Out, "bcases", hdrB, "mism", 200)
	w.Type = "bcase"
	w.Rule = "B: bare scalar pairs (Float64 Float32 Int Int8..Int64; Add..Div Neg Min Max Abs Set Pow Sqrt Exp Log Log1p LogAdd LogSub, predicates): receiver and operands with values of the type incl. the integer range ends, +-0, +-Inf, NaN, receiver = operand in 1 of 5; non-trivial iff the pair is not Set/Sign"
	rng := NewRng(o.Seed + 31337)
	for k := 0; k < 14*o.N; k++ {
		genBCase(rng.Split(), w, k)
	}
	if err := w.Flush(); err != nil {
		Die("%v", err)
	}
}
