// C09 harness — generic and concrete-typed methods are interchangeable.
//   default      : pair table from source (go/ast) and by reflection; random pair evaluations on the
//                  implementation (generic vs CONCRETE on identically built operands, engine.go) -> oracle.json;
//                  Coq case files for the modelled pairs (scalars: coq/C09/ModelS.v over C01; vectors: ModelV.v over C11/C03)
//   --extra hunt : exhaustive small zero patterns / orders 0..2 / N <= 2 per pair, shrunk -> hunt.json
//   --replay f   : re-execute one reported pair evaluation
package main

import (
	"encoding/json"
	"flag"
	"fmt"
	"os"
	"path/filepath"
	"sort"
	"strings"

	. "adharness/common"
)

var repoPath string

type OracleOut struct {
	Plans     int            `json:"plans"`
	Skipped   []string       `json:"skipped_pairs"`
	SrcPairs  []SrcPair      `json:"source_pairs"`
	Unpaired  []string       `json:"uppercase_without_generic_twin"`
	ReflPairs map[string]int `json:"reflection_pairs"`
	OnlySrc   []string       `json:"pairs_in_source_not_exercised"`
	Evals     int            `json:"evaluations"`
	BothPanic int            `json:"both_panicked"`
	PerPair   map[string]int `json:"per_pair"`
	NonPanic  map[string]int `json:"per_pair_nonpanic"`
	Diffs     []Diff         `json:"diffs"`
	Corpus    int            `json:"corpus_witnesses"`
	Directed  int            `json:"directed_evaluations"`
	CorpusNow []string       `json:"corpus_witnesses_that_agree_now"`
	RegrOK    int            `json:"regression_witnesses_agree"`
	DiffCount map[string]int `json:"diff_count"`
	Views     int            `json:"view_evaluations"`          // evaluations with a SLICE view among receiver / operands
	ViewsOK   int            `json:"view_evaluations_nonpanic"` // ... in which not both members panicked
}

func hasView(c PCase) bool {
	if c.Recv.View != nil {
		return true
	}
	for _, a := range c.Args {
		if a.View != nil {
			return true
		}
	}
	return false
}

func writeJSON(path string, v interface{}) {
	b, _ := json.MarshalIndent(v, "", " ")
	if err := os.WriteFile(path, b, 0644); err != nil {
		Die("%v", err)
	}
}

// diffKey: one representative per (site, element class, where, class)
func diffKey(d *Diff) string {
	return fmt.Sprintf("%s|%s|%s|%d|%s", d.Site, elemClass(d.Case.Type), d.Where, d.Class, d.Finding)
}
func elemClass(t string) string {
	switch {
	case isReal(t):
		return "real"
	case isFloat(t):
		return "float"
	}
	return "int"
}

func oracleRun(o Opts, perPlan int, exh bool) OracleOut {
	plans, skipped := allPlans()
	out := OracleOut{Plans: len(plans), Skipped: skipped, ReflPairs: map[string]int{}, PerPair: map[string]int{},
		NonPanic: map[string]int{}, DiffCount: map[string]int{}}
	sp, unp, err := srcPairs(repoPath)
	if err != nil {
		Die("source pairs: %v", err)
	}
	out.SrcPairs, out.Unpaired = sp, unp
	rng := NewRng(o.Seed + 7919)
	rep := map[string]*Diff{}
	// committed witnesses of the known differences run first
	if !exh && o.Extra != "" {
		if b, err := os.ReadFile(o.Extra); err == nil {
			for _, line := range strings.Split(string(b), "\n") {
				line = strings.TrimSpace(line)
				if line == "" || strings.HasPrefix(line, "#") {
					continue
				}
				var wc struct {
					Finding string `json:"finding"`
					Case    PCase  `json:"case"`
				}
				if err := json.Unmarshal([]byte(line), &wc); err != nil {
					Die("corpus: %v", err)
				}
				out.Corpus++
				cl, d, _ := evalPair(wc.Case)
				out.Evals++
				if cl == 0 && strings.HasPrefix(wc.Finding, "REGRESSION") {
					out.RegrOK++
					continue
				}
				if cl == 0 {
					out.CorpusNow = append(out.CorpusNow, wc.Finding+" "+wc.Case.Kind+"."+wc.Case.G+"/"+wc.Case.C+" "+wc.Case.Type)
					continue
				}
				k := "corpus|" + diffKey(d)
				out.DiffCount[k]++
				if rep[k] == nil {
					rep[k] = d
				}
			}
		}
	}
	// directed evaluations: accumulation order of the products, in-place products (directed.go)
	if !exh {
		for _, dc := range directedCases() {
			cl, d, both := evalPair(dc)
			out.Evals++
			out.Directed++
			key := dc.Kind + "." + dc.G + "/" + dc.C
			out.PerPair[key]++
			if hasView(dc) {
				out.Views++
				if !both {
					out.ViewsOK++
				}
			}
			if both {
				out.BothPanic++
			} else {
				out.NonPanic[key]++
			}
			if cl != 0 {
				k := "corpus|directed|" + diffKey(d)
				out.DiffCount[k]++
				if rep[k] == nil {
					rep[k] = d
				}
			}
		}
	}
	for _, pl := range plans {
		key := pl.Kind + "." + pl.P.G + "/" + pl.P.C
		out.ReflPairs[pl.P.G+"/"+pl.P.C]++
		visit := func(c PCase) bool {
			cl, d, both := evalPair(c)
			out.Evals++
			out.PerPair[key]++
			if hasView(c) {
				out.Views++
				if !both {
					out.ViewsOK++
				}
			}
			if both {
				out.BothPanic++
			} else {
				out.NonPanic[key]++
			}
			if cl != 0 {
				k := diffKey(d)
				out.DiffCount[k]++
				if rep[k] == nil {
					rep[k] = d
				}
			}
			return true
		}
		if exh {
			exhaustive(pl, 2, perPlan, visit)
		} else {
			r := rng.Split()
			for i := 0; i < perPlan; i++ {
				visit(genCase(r, pl, 3))
			}
		}
	}
	var keys []string
	for k := range rep {
		keys = append(keys, k)
	}
	sort.Strings(keys)
	for _, k := range keys {
		if strings.HasPrefix(k, "corpus|") {
			out.Diffs = append(out.Diffs, *rep[k])
		} else {
			out.Diffs = append(out.Diffs, shrink(*rep[k]))
		}
	}
	for _, p := range sp {
		if out.ReflPairs[p.G+"/"+p.C] == 0 {
			out.OnlySrc = append(out.OnlySrc, p.G+"/"+p.C)
		}
	}
	return out
}

func main() {
	flag.StringVar(&repoPath, "repo", "/repo", "path of the library source (pair table by go/ast)")
	o := ParseFlags()
	os.MkdirAll(o.Out, 0755)
	if o.Replay != "" {
		replay(o)
		return
	}
	if o.Extra == "hunt" {
		out := oracleRun(o, o.N, true)
		writeJSON(filepath.Join(o.Out, "hunt.json"), out)
		return
	}
	per := o.N
	out := oracleRun(o, per, false)
	writeJSON(filepath.Join(o.Out, "oracle.json"), out)
	emitCases(o)
	emitBCases(o)
	emitMCases(o)
	emitICases(o)
	emitACases(o)
	emitMACases(o)
	emitMWCases(o)
}

func replay(o Opts) {
	b, err := os.ReadFile(o.Replay)
	if err != nil {
		Die("%v", err)
	}
	var rp struct {
		Case *PCase `json:"case"`
	}
	if err := json.Unmarshal(b, &rp); err != nil || rp.Case == nil {
		Die("replay file has no pair evaluation: %v", err)
	}
	cl, d, both := evalPair(*rp.Case)
	res := map[string]interface{}{"class": cl, "both_panicked": both}
	if d != nil {
		res["diff"] = d
	}
	writeJSON(filepath.Join(o.Out, "replay_result.json"), res)
	if cl != 0 {
		fmt.Printf("generic and concrete still differ (%s): %s\n  generic : %s\n  concrete: %s\n", d.Where, d.Site, d.Gen, d.Conc)
		os.Exit(1)
	}
	fmt.Println("generic and concrete agree on the replayed evaluation")
}
