// Family MA: dense matrix-scalar pairs (MaddS/MADDS .. MdivS/MDIVS) whose SCALAR operand is a reference into a matrix's
// or a dense vector's storage — r.MADDS(a, r.AT(i, j)), r.MDIVS(r, r.AT(0, 0)), r.MMULS(a, a.AT(i, j)) — all nine
// element types; replayed by coq/C09/CorrMA.v against the generic and the concrete model of coq/C09/ModelMA.v.
package main

import (
	"fmt"
	"math"
	"reflect"

	. "adharness/common"

	ad "github.com/pbenner/autodiff"
)

type MACaseRaw struct {
	Fam  string    `json:"fam"`
	Type string    `json:"type"`
	Mats []MMat    `json:"mats"`
	Vecs [][]int64 `json:"vecs"`
	G    string    `json:"g"`
	R    int       `json:"r"`
	A    int       `json:"a"`
	Ref  string    `json:"ref"` // val | mat | vec
	X    int       `json:"x"`
	I    int       `json:"i"`
	J    int       `json:"j"`
	C    int64     `json:"c"`
}

var maPairs = []mPairDef{{"MaddS", "MADDS", "ms"}, {"MsubS", "MSUBS", "ms"}, {"MmulS", "MMULS", "ms"}, {"MdivS", "MDIVS", "ms"}}

// runMA: mode 0 generic, 1 concrete, 2 concrete with a copy of the referenced value (non-triviality only)
func runMA(c MACaseRaw, d mPairDef, mode int) (kind int64, hash int64, integral bool) {
	var ms []ad.Matrix
	var vs []ad.Vector
	for _, m := range c.Mats {
		ms = append(ms, buildMat(c.Type, m))
	}
	for _, v := range c.Vecs {
		vs = append(vs, newDense(c.Type, v))
	}
	var sc ad.Scalar
	switch c.Ref {
	case "mat":
		sc = ms[c.X].At(c.I, c.J)
	case "vec":
		sc = vs[c.X].At(c.I)
	default:
		sc = ad.NewScalar(scalarType(c.Type), float64(c.C))
	}
	if mode == 2 {
		sc = sc.CloneScalar()
	}
	name := d.G
	if mode > 0 {
		name = d.C
	}
	m := reflect.ValueOf(ms[c.R]).MethodByName(name)
	func() {
		defer func() {
			if r := recover(); r != nil {
				kind = K_PANIC
			}
		}()
		m.Call([]reflect.Value{reflect.ValueOf(ms[c.A]), reflect.ValueOf(sc)})
	}()
	integral = true
	h := int64(17)
	h = hashList(h, []int64{SEP, SEP})
	for _, v := range vs {
		h = hashList(h, observeVec(v, false).Flat)
	}
	h = hashList(h, []int64{SEP, SEP, SEP})
	for k, x := range ms {
		r, cc := c.Mats[k].R, c.Mats[k].C
		f := []int64{int64(r), int64(cc), SEP}
		for i := 0; i < r; i++ {
			for j := 0; j < cc; j++ {
				f = append(f, readM(x, i, j))
				y := x.ConstAt(i, j).GetFloat64()
				if !math.IsNaN(y) && !math.IsInf(y, 0) && (y != math.Trunc(y) || math.Abs(y) > 1e6 || (y == 0 && math.Signbit(y) && d.G == "MdivS")) {
					integral = false
				}
			}
		}
		f = append(f, SEP)
		h = hashList(h, f)
	}
	hash = h
	return
}

func genMACase(r *Rng, w *CaseWriter, k int) {
	t := typeNames[k%len(typeNames)]
	d := maPairs[(k/len(typeNames))%len(maPairs)]
	flt := !isIntType(t)
	for attempt := 0; attempt < 60; attempt++ {
		c, ok := tryMACase(r, t, d, flt)
		if !ok {
			continue
		}
		gk, gh, gi := runMA(c, d, 0)
		ck, ch, ci := runMA(c, d, 1)
		if flt && d.G == "MdivS" && (!gi || !ci) {
			continue
		}
		_, kh, _ := runMA(c, d, 2)
		var ops []string
		for _, mm := range c.Mats {
			ops = append(ops, fmt.Sprintf("NewDM %s %d %d", ZList(mm.Xs), mm.R, mm.C))
		}
		for _, v := range c.Vecs {
			ops = append(ops, fmt.Sprintf("V (NewD %s)", ZList(v)))
		}
		var sarg string
		switch c.Ref {
		case "mat":
			sarg = fmt.Sprintf("MAMat %d %s %s", c.X, Z(int64(c.I)), Z(int64(c.J)))
		case "vec":
			sarg = fmt.Sprintf("MAVec %d %s", c.X, Z(int64(c.I)))
		default:
			sarg = "MAVal " + Z(c.C)
		}
		op := map[string]string{"MaddS": "SAdd", "MsubS": "SSub", "MmulS": "SMul", "MdivS": "SDiv"}[d.G]
		coq := fmt.Sprintf("CMA %s %s (Build_mapair %s %d %d (%s)) (%s, [], %s) (%s, [], %s)", coqTy(t), List(ops), op, c.R, c.A, sarg,
			Z(gk), Z(gh), Z(ck), Z(ch))
		decides := c.Ref != "val" && ck == 0 && kh != ch
		w.Add(coq, c, fmt.Sprintf("MA:%s:%s:%v:%v:%s:%d:%d:%d:%d", t, d.G, c.Mats, c.Vecs, c.Ref, c.X, c.I, c.J, c.C), decides)
		w.Count("MA:" + d.G + "/" + d.C)
		w.Count("MA:type:" + t)
		switch {
		case c.Ref == "val":
			w.Count("MA:scalar:own")
		case c.Ref == "vec":
			w.Count("MA:scalar:element-of-dense-vector")
		case c.X == c.R:
			w.Count("MA:scalar:cell-of-receiver")
		case c.X == c.A:
			w.Count("MA:scalar:cell-of-operand")
		default:
			w.Count("MA:scalar:cell-of-third-matrix")
		}
		if c.A == c.R {
			w.Count("MA:a-is-r")
		}
		if decides {
			w.Count("MA:a-copy-of-the-scalar-gives-another-result")
		}
		if gk != 0 || ck != 0 {
			w.Count("MA:outcome:panic")
		}
		if gk != ck || gh != ch {
			w.Count("MA:go-generic-differs-from-go-concrete")
		}
		return
	}
	Die("family MA: no admissible case after 60 attempts (%s %s)", t, d.G)
}

func tryMACase(r *Rng, t string, d mPairDef, flt bool) (c MACaseRaw, ok bool) {
	n, m := r.Range(1, 3), r.Range(1, 3)
	c = MACaseRaw{Fam: "MA", Type: t, G: d.G, Ref: "val"}
	full := r.Bool()
	mk := func(rows, cols, role int) MMat {
		xs := smallList(r, rows*cols, -4, 4)
		for i, x := range xs {
			if x == 0 && full {
				x = int64(r.Range(1, 4))
			}
			switch {
			case d.G == "MmulS" && (x > 3 || x < -3):
				x = x / 2
			case d.G == "MdivS" && flt && x != 0:
				a := x
				if a < 0 {
					a = -a
				}
				if role == 0 {
					x = int64(1) << uint(a%3)
				} else {
					x = int64(64) << uint(a%4)
				}
			}
			xs[i] = x
		}
		return MMat{xs, rows, cols}
	}
	c.Mats = append(c.Mats, mk(n, m, 0))
	c.R, c.A = 0, 0
	if r.Intn(4) > 0 {
		rows, cols := n, m
		if r.Intn(16) == 0 {
			cols++ // dimension mismatch
		}
		c.Mats = append(c.Mats, mk(rows, cols, 1))
		c.A = 1
	}
	third := r.Intn(6) == 0
	if third {
		c.Mats = append(c.Mats, mk(r.Range(1, 2), r.Range(1, 3), 0))
	}
	switch r.Intn(10) {
	case 0, 1:
		c.C = []int64{1, -1, 2, -2, 3, 0}[r.Intn(6)]
		if d.G == "MdivS" && flt {
			c.C = []int64{1, 2, 4}[r.Intn(3)]
		}
	case 2:
		c.Ref = "vec"
		c.Vecs = append(c.Vecs, mk(1, 3, 0).Xs)
		c.X, c.I = 0, r.Intn(3)
		if flt && d.G == "MdivS" && c.Vecs[0][c.I] == 0 {
			return c, false
		}
	default:
		c.Ref = "mat"
		switch {
		case third:
			c.X = len(c.Mats) - 1
		case c.A == c.R || r.Intn(3) > 0:
			c.X = c.R
		default:
			c.X = c.A
		}
		mm := c.Mats[c.X]
		p := r.Intn(mm.R * mm.C)
		if r.Bool() && mm.R*mm.C > 1 {
			p = r.Intn(mm.R*mm.C - 1)
		}
		c.I, c.J = p/mm.C, p%mm.C
		if flt && d.G == "MdivS" && mm.Xs[p] == 0 {
			return c, false
		}
	}
	return c, true
}

const hdrMA = "From Coq Require Import ZArith List Bool. Import ListNotations.\nFrom ADV Require Import C11.Model C03.Model C03.ModelM C09.ModelM C09.ModelVA C09.ModelMA C09.CorrMA.\nOpen Scope Z_scope.\n"

const ruleMA = "MA: MaddS/MADDS MsubS/MSUBS MmulS/MMULS MdivS/MDIVS on dense matrices (1..3 x 1..3, 1 in 16 with a dimension mismatch, a = r in 1 of 4, no zeros in half of the cases) of all nine element types; the scalar operand is (7 of 10) a REFERENCE obtained by At(i, j) into the receiver, the other operand or a third matrix, (1 of 10) an element of a dense vector, else a scalar of its own; float division on positive powers of two without a zero divisor at the start (carrier Z), integer division unrestricted. Non-trivial iff calling the CONCRETE member with a copy of the scalar instead of the reference changes the world afterwards."

func emitMACases(o Opts) {
	w := NewCaseWriter(o.Out, "macases", hdrMA, "mism", 120)
	w.Type = "macase"
	w.Rule = ruleMA
	rng := NewRng(o.Seed + 32452843)
	for k := 0; k < 8*o.N; k++ {
		genMACase(rng.Split(), w, k)
	}
	if err := w.Flush(); err != nil {
		Die("%v", err)
	}
}
