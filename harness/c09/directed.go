// Directed pair evaluations (run every time, all nine element types, before the random ones):
//   order : MdotV / VdotM / MdotM on operands whose sum depends on the order of accumulation in floating point
//           ([1, B, -B] with 1 + B == B: left to right 0, right to left 1; integers: int64 wrap-around is order
//           independent, so small values) — a concrete twin accumulating in another order than the generic member;
//   inplace: r.MdotM(r, b), r.MdotM(a, r), r.MdotM(r, r) on non-symmetric 2x2 and 3x3 matrices (the row buffer / column
//           buffer branch chosen by the storageLocation test) and with a rectangular left / right factor.
//   scalar-ref: VaddS VsubS VmulS VdivS on dense and sparse vectors, MaddS MsubS MmulS MdivS on dense matrices with the
//           SCALAR operand a reference into the receiver's own storage (r.VMULS(a, r.AT(k)), v.VDIVS(v, v.AT(0))), into
//           the other operand's, first / middle / last element, with a = r and a fresh: the generic member re-reads the
//           scalar on every iteration (it is overwritten when the loop reaches position k), so must the concrete one.
//           Values are chosen so that every position written after k depends on the NEW value of the scalar and all
//           quotients are exact in every element type (powers of two).
package main

func dElem(t string, v float64) ESpec {
	e := ESpec{P: true, V: JF(v)}
	if isReal(t) {
		e.O, e.N = 1, 2
		e.D = []JF{JF(v / 2), 1}
	}
	return e
}
func dObj(t, kind string, rows, cols int, vs []float64) OSpec {
	o := OSpec{K: kind, Rows: rows, Cols: cols}
	if kind == "dvec" || kind == "svec" {
		o.Cols = 0
	}
	for _, v := range vs {
		o.E = append(o.E, dElem(t, v))
	}
	return o
}

func directedCases() []PCase {
	var out []PCase
	for _, t := range typeNames {
		big := 1e16
		if t == "float32" || t == "real32" {
			big = 1e8
		}
		if isInt(t) {
			big = 5
		}
		line := []float64{1, big, -big}
		ones := []float64{1, 1, 1}
		rev := []float64{-big, big, 1}
		// MdotV: r (2) = a (2x3) . b (3)
		out = append(out, PCase{Type: t, Kind: "dvec", G: "MdotV", C: "MDOTV", Recv: dObj(t, "dvec", 2, 0, []float64{7, 7}),
			Args:  []OSpec{dObj(t, "dmat", 2, 3, append(append([]float64{}, line...), rev...)), dObj(t, "dvec", 3, 0, ones)},
			Alias: []int{-1, -1}})
		// VdotM: r (2) = a (3) . b (3x2)
		out = append(out, PCase{Type: t, Kind: "dvec", G: "VdotM", C: "VDOTM", Recv: dObj(t, "dvec", 2, 0, []float64{7, 7}),
			Args:  []OSpec{dObj(t, "dvec", 3, 0, ones), dObj(t, "dmat", 3, 2, []float64{1, -big, big, big, -big, 1})},
			Alias: []int{-1, -1}})
		// MdotM: r (2x2) = a (2x3) . b (3x2)
		out = append(out, PCase{Type: t, Kind: "dmat", G: "MdotM", C: "MDOTM", Recv: dObj(t, "dmat", 2, 2, []float64{7, 7, 7, 7}),
			Args: []OSpec{dObj(t, "dmat", 2, 3, append(append([]float64{}, line...), rev...)),
				dObj(t, "dmat", 3, 2, []float64{1, 1, 1, 1, 1, 1})},
			Alias: []int{-1, -1}})
		// in-place products
		sq2 := []float64{1, 2, 3, 5}
		ot2 := []float64{0, 1, -2, 4}
		sq3 := []float64{1, 2, 0, -1, 3, 1, 2, 0, 5}
		ot3 := []float64{2, 0, 1, 1, -1, 0, 0, 3, 1}
		for _, al := range [][]int{{0, -1}, {-1, 0}, {0, 0}} {
			out = append(out, PCase{Type: t, Kind: "dmat", G: "MdotM", C: "MDOTM", Recv: dObj(t, "dmat", 2, 2, sq2),
				Args: []OSpec{dObj(t, "dmat", 2, 2, ot2), dObj(t, "dmat", 2, 2, ot2)}, Alias: al})
			out = append(out, PCase{Type: t, Kind: "dmat", G: "MdotM", C: "MDOTM", Recv: dObj(t, "dmat", 3, 3, sq3),
				Args: []OSpec{dObj(t, "dmat", 3, 3, ot3), dObj(t, "dmat", 3, 3, ot3)}, Alias: al})
		}
		// a = b, r fresh
		out = append(out, PCase{Type: t, Kind: "dmat", G: "MdotM", C: "MDOTM", Recv: dObj(t, "dmat", 2, 2, sq2),
			Args: []OSpec{dObj(t, "dmat", 2, 2, ot2), dObj(t, "dmat", 2, 2, ot2)}, Alias: []int{-1, 1}})
	}
	out = append(out, scalarRefCases()...)
	out = append(out, viewCases()...)
	out = append(out, scalarInplaceCases()...)
	return out
}

// scalarInplaceCases: every pair of the magic scalars (Real64, Real32) whose operands are scalars, called IN PLACE
// (receiver = first operand, = second operand, = both) at Order 2 with N = 2 and N = 3, non-symmetric raw Hessian storage
// and derivatives that are neither 0 nor 1: the chain-rule kernels of the concrete members (realMonadic,
// realMonadicLazy, realDyadic, realDyadicLazy) are textual copies of the generic ones; a copy that computes the gradient
// before the Hessian, walks the Hessian in another order or reads a mirrored cell agrees with the generic kernel
// unless the receiver is an operand.  Operand values inside the domain of every function (0 < x < 1 for the
// inverse trigonometric / logarithmic ones is not needed: a NaN is compared as a NaN).
func scalarInplaceCases() []PCase {
	var out []PCase
	plans, _ := allPlans()
	mk := func(n int, v float64, k float64) OSpec {
		e := ESpec{P: true, V: JF(v), O: 2, N: n}
		for i := 0; i < n; i++ {
			e.D = append(e.D, JF(k*float64(i+1)+0.5))
			var row []JF
			for j := 0; j < n; j++ {
				row = append(row, JF(k*float64(3*i+j)-1.25))
			}
			e.H = append(e.H, row)
		}
		return OSpec{K: "scalar", E: []ESpec{e}}
	}
	for _, pl := range plans {
		if pl.Kind != "scalar" || !isReal(pl.Type) {
			continue
		}
		var slots []int
		ok := true
		for i, k := range pl.Args {
			switch k {
			case "scalar":
				slots = append(slots, i)
			case "f64", "int":
			default:
				ok = false
			}
		}
		if !ok || len(slots) == 0 {
			continue
		}
		for _, n := range []int{2, 3} {
			for _, v := range []float64{0.75, 2.5} {
				// alias patterns over the scalar slots: each slot the receiver or a scalar of its own, at least one the receiver
				for mask := 1; mask < 1<<uint(len(slots)); mask++ {
					c := PCase{Type: pl.Type, Kind: "scalar", G: pl.P.G, C: pl.P.C, Recv: mk(n, v, 0.75)}
					for i, k := range pl.Args {
						switch k {
						case "f64":
							c.Args = append(c.Args, OSpec{K: "f64", F: JF(0.5)})
						case "int":
							c.Args = append(c.Args, OSpec{K: "int", I: 2})
						default:
							c.Args = append(c.Args, mk(n, v/2+0.125, -0.5))
						}
						_ = i
						c.Alias = append(c.Alias, -1)
					}
					for b, i := range slots {
						if mask&(1<<uint(b)) != 0 {
							c.Alias[i] = 0
							c.Args[i] = cloneObj(c.Recv)
						}
					}
					out = append(out, c)
				}
			}
		}
	}
	return out
}

// viewCases: every dense matrix pair on SLICE views of EQUALLY SHAPED parents at different row / column offsets
// (receiver, first and second operand each at its own offset), none / all / some of them transposed, with the
// receiver also being the first / second operand (the same view object).  All elements of the three parents are
// different (the value tells parent and cell), non-zero and small (integer quotients and int8 products stay in
// range), so a member that ignores an offset, a transposition flag or the parent's row length reads or writes
// a visibly different cell; the parents are compared after the call as well.
func viewCases() []PCase {
	var out []PCase
	type pr struct{ g, c string }
	mm := []pr{{"MaddM", "MADDM"}, {"MsubM", "MSUBM"}, {"MmulM", "MMULM"}, {"MdivM", "MDIVM"}}
	ms := []pr{{"MaddS", "MADDS"}, {"MsubS", "MSUBS"}, {"MmulS", "MMULS"}, {"MdivS", "MDIVS"}}
	const PR, PC = 4, 5
	parent := func(t string, base float64, vr, vc, ro, co int, tr bool) OSpec {
		vs := make([]float64, PR*PC)
		for k := range vs {
			if t == "int8" {
				vs[k] = float64(1 + (k+int(base))%9) // products stay below 127
			} else {
				vs[k] = base + float64(k) // the value tells parent and cell
			}
		}
		o := dObj(t, "dmat", vr, vc, vs)
		o.View = &VSpec{PR: PR, PC: PC, RO: ro, CO: co, T: tr}
		return o
	}
	for _, t := range typeNames {
		for _, tp := range [][3]bool{{false, false, false}, {true, true, true}, {false, true, false}, {true, false, true}, {false, false, true}} {
			// object shape 2 x 3 (a transposed view slices 3 x 2 out of its parent)
			offs := [][2]int{{0, 0}, {1, 1}, {2, 2}}
			mk := func(k int, base float64) OSpec {
				ro, co := offs[k][0], offs[k][1]
				if tp[k] && ro+3 > PR {
					ro = PR - 3
				}
				return parent(t, base, 2, 3, ro, co, tp[k])
			}
			for _, p := range mm {
				for _, al := range [][]int{{-1, -1}, {0, -1}, {-1, 0}, {-1, 1}} {
					if (al[0] == 0 && tp[0] != tp[1]) || (al[1] == 0 && tp[0] != tp[2]) || (al[1] == 1 && tp[1] != tp[2]) {
						continue
					}
					out = append(out, PCase{Type: t, Kind: "dmat", G: p.g, C: p.c, Recv: mk(0, 1),
						Args: []OSpec{mk(1, 31), mk(2, 61)}, Alias: al})
				}
			}
			for _, p := range ms {
				for _, al := range []int{-1, 0} {
					if al == 0 && tp[0] != tp[1] {
						continue
					}
					out = append(out, PCase{Type: t, Kind: "dmat", G: p.g, C: p.c, Recv: mk(0, 1),
						Args: []OSpec{mk(1, 31), {K: "scalar", E: []ESpec{dElem(t, 2)}}}, Alias: []int{al, -1}})
				}
			}
			// Equals: equal views of different parents at different offsets would need equal cells: compare a view with itself
			// and with a view of another parent (false)
			out = append(out, PCase{Type: t, Kind: "dmat", G: "Equals", C: "EQUALS", Recv: mk(0, 1),
				Args: []OSpec{mk(1, 31), {K: "f64", F: 1e-8}}, Alias: []int{-1, -1}})
			// MdotM on views: r (2x3 view) = a (2x2 view) . b (2x3 view)
			a22 := parent(t, 1, 2, 2, 1, 2, tp[1])
			out = append(out, PCase{Type: t, Kind: "dmat", G: "MdotM", C: "MDOTM", Recv: mk(0, 1),
				Args: []OSpec{a22, mk(2, 3)}, Alias: []int{-1, -1}})
		}
	}
	return out
}

func scalarRefCases() []PCase {
	var out []PCase
	vecOps := [][2]string{{"VaddS", "VADDS"}, {"VsubS", "VSUBS"}, {"VmulS", "VMULS"}, {"VdivS", "VDIVS"}}
	matOps := [][2]string{{"MaddS", "MADDS"}, {"MsubS", "MSUBS"}, {"MmulS", "MMULS"}, {"MdivS", "MDIVS"}}
	for _, t := range typeNames {
		// r and a: powers of two (exact quotients, products below 127 for int8)
		rv := []float64{2, 4, 2, 8}
		av := []float64{8, 4, 16, 2}
		for _, kind := range []string{"dvec", "svec"} {
			for _, op := range vecOps {
				for e := 0; e < len(rv); e++ {
					for _, aIsR := range []bool{false, true} {
						for _, owner := range []int{0, 1} {
							if aIsR && owner == 1 {
								continue
							}
							c := PCase{Type: t, Kind: kind, G: op[0], C: op[1], Recv: dObj(t, kind, len(rv), 0, rv),
								Args: []OSpec{dObj(t, kind, len(av), 0, av), {}}, Alias: []int{-1, -1}}
							if aIsR {
								c.Alias[0] = 0
								c.Args[0] = dObj(t, kind, len(rv), 0, rv)
							}
							setElemRef(&c, 1, owner, e)
							out = append(out, c)
						}
					}
				}
				if kind == "svec" {
					// zero patterns: absent entries in r / a around the referenced entry, a reference to an absent entry
					for _, pat := range [][2][]float64{{{2, 0, 4, 0}, {0, 4, 8, 2}}, {{0, 2, 0, 4}, {4, 0, 0, 2}}, {{4, 2, 0, 0}, {0, 0, 2, 4}}} {
						for e := 0; e < 4; e++ {
							c := PCase{Type: t, Kind: kind, G: op[0], C: op[1], Recv: sObj(t, 4, pat[0]),
								Args: []OSpec{sObj(t, 4, pat[1]), {}}, Alias: []int{-1, -1}}
							setElemRef(&c, 1, 0, e)
							out = append(out, c)
						}
					}
				}
			}
		}
		mr := []float64{2, 4, 2, 8, 4, 2}
		ma := []float64{8, 4, 16, 2, 4, 8}
		for _, op := range matOps {
			for e := 0; e < len(mr); e++ {
				for _, aIsR := range []bool{false, true} {
					for _, owner := range []int{0, 1} {
						if aIsR && owner == 1 {
							continue
						}
						c := PCase{Type: t, Kind: "dmat", G: op[0], C: op[1], Recv: dObj(t, "dmat", 2, 3, mr),
							Args: []OSpec{dObj(t, "dmat", 2, 3, ma), {}}, Alias: []int{-1, -1}}
						if aIsR {
							c.Alias[0] = 0
							c.Args[0] = dObj(t, "dmat", 2, 3, mr)
						}
						setElemRef(&c, 1, owner, e)
						out = append(out, c)
					}
				}
			}
		}
	}
	return out
}

// sObj: a sparse vector whose zero positions are absent
func sObj(t string, n int, vs []float64) OSpec {
	o := OSpec{K: "svec", Rows: n}
	for _, v := range vs {
		if v == 0 {
			o.E = append(o.E, ESpec{P: false})
		} else {
			o.E = append(o.E, dElem(t, v))
		}
	}
	return o
}
