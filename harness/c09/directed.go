// Directed pair evaluations (run every time, all nine element types, before the random ones):
//   order : MdotV / VdotM / MdotM on operands whose sum depends on the order of accumulation in floating point
//           ([1, B, -B] with 1 + B == B: left to right 0, right to left 1; integers: int64 wrap-around is order
//           independent, so small values) — a concrete twin accumulating in another order than the generic member;
//   inplace: r.MdotM(r, b), r.MdotM(a, r), r.MdotM(r, r) on non-symmetric 2x2 and 3x3 matrices (the row buffer / column
//           buffer branch chosen by the storageLocation test) and with a rectangular left / right factor.
package main

func dElem(t string, v float64) ESpec {
	e := ESpec{P: true, V: JF(v)}
	if isReal(t) {
		e.O, e.N = 1, 2
		e.D = []JF{JF(v / 2), 1}
	}
	return e
}
func dObj(t, kind string, rows, cols int, vs []float64) OSpec {
	o := OSpec{K: kind, Rows: rows, Cols: cols}
	if kind == "dvec" {
		o.Cols = 0
	}
	for _, v := range vs {
		o.E = append(o.E, dElem(t, v))
	}
	return o
}

func directedCases() []PCase {
	var out []PCase
	for _, t := range typeNames {
		big := 1e16
		if t == "float32" || t == "real32" {
			big = 1e8
		}
		if isInt(t) {
			big = 5
		}
		line := []float64{1, big, -big}
		ones := []float64{1, 1, 1}
		rev := []float64{-big, big, 1}
		// MdotV: r (2) = a (2x3) . b (3)
		out = append(out, PCase{Type: t, Kind: "dvec", G: "MdotV", C: "MDOTV", Recv: dObj(t, "dvec", 2, 0, []float64{7, 7}),
			Args:  []OSpec{dObj(t, "dmat", 2, 3, append(append([]float64{}, line...), rev...)), dObj(t, "dvec", 3, 0, ones)},
			Alias: []int{-1, -1}})
		// VdotM: r (2) = a (3) . b (3x2)
		out = append(out, PCase{Type: t, Kind: "dvec", G: "VdotM", C: "VDOTM", Recv: dObj(t, "dvec", 2, 0, []float64{7, 7}),
			Args:  []OSpec{dObj(t, "dvec", 3, 0, ones), dObj(t, "dmat", 3, 2, []float64{1, -big, big, big, -big, 1})},
			Alias: []int{-1, -1}})
		// MdotM: r (2x2) = a (2x3) . b (3x2)
		out = append(out, PCase{Type: t, Kind: "dmat", G: "MdotM", C: "MDOTM", Recv: dObj(t, "dmat", 2, 2, []float64{7, 7, 7, 7}),
			Args: []OSpec{dObj(t, "dmat", 2, 3, append(append([]float64{}, line...), rev...)),
				dObj(t, "dmat", 3, 2, []float64{1, 1, 1, 1, 1, 1})},
			Alias: []int{-1, -1}})
		// in-place products
		sq2 := []float64{1, 2, 3, 5}
		ot2 := []float64{0, 1, -2, 4}
		sq3 := []float64{1, 2, 0, -1, 3, 1, 2, 0, 5}
		ot3 := []float64{2, 0, 1, 1, -1, 0, 0, 3, 1}
		for _, al := range [][]int{{0, -1}, {-1, 0}, {0, 0}} {
			out = append(out, PCase{Type: t, Kind: "dmat", G: "MdotM", C: "MDOTM", Recv: dObj(t, "dmat", 2, 2, sq2),
				Args: []OSpec{dObj(t, "dmat", 2, 2, ot2), dObj(t, "dmat", 2, 2, ot2)}, Alias: al})
			out = append(out, PCase{Type: t, Kind: "dmat", G: "MdotM", C: "MDOTM", Recv: dObj(t, "dmat", 3, 3, sq3),
				Args: []OSpec{dObj(t, "dmat", 3, 3, ot3), dObj(t, "dmat", 3, 3, ot3)}, Alias: al})
		}
		// a = b, r fresh
		out = append(out, PCase{Type: t, Kind: "dmat", G: "MdotM", C: "MDOTM", Recv: dObj(t, "dmat", 2, 2, sq2),
			Args: []OSpec{dObj(t, "dmat", 2, 2, ot2), dObj(t, "dmat", 2, 2, ot2)}, Alias: []int{-1, 1}})
	}
	return out
}
