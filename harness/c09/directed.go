// Directed pair evaluations (run every time, all nine element types, before the random ones):
//   order : MdotV / VdotM / MdotM on operands whose sum depends on the order of accumulation in floating point
//           ([1, B, -B] with 1 + B == B: left to right 0, right to left 1; integers: int64 wrap-around is order
//           independent, so small values) — a concrete twin accumulating in another order than the generic member;
//   inplace: r.MdotM(r, b), r.MdotM(a, r), r.MdotM(r, r) on non-symmetric 2x2 and 3x3 matrices (the row buffer / column
//           buffer branch chosen by the storageLocation test) and with a rectangular left / right factor.
//   scalar-ref: VaddS VsubS VmulS VdivS on dense and sparse vectors, MaddS MsubS MmulS MdivS on dense matrices with the
//           SCALAR operand a reference into the receiver's own storage (r.VMULS(a, r.AT(k)), v.VDIVS(v, v.AT(0))), into
//           the other operand's, first / middle / last element, with a = r and a fresh: the generic member re-reads the
//           scalar on every iteration (it is overwritten when the loop reaches position k), so must the concrete one.
//           Values are chosen so that every position written after k depends on the NEW value of the scalar and all
//           quotients are exact in every element type (powers of two).
package main

func dElem(t string, v float64) ESpec {
	e := ESpec{P: true, V: JF(v)}
	if isReal(t) {
		e.O, e.N = 1, 2
		e.D = []JF{JF(v / 2), 1}
	}
	return e
}
func dObj(t, kind string, rows, cols int, vs []float64) OSpec {
	o := OSpec{K: kind, Rows: rows, Cols: cols}
	if kind == "dvec" || kind == "svec" {
		o.Cols = 0
	}
	for _, v := range vs {
		o.E = append(o.E, dElem(t, v))
	}
	return o
}

func directedCases() []PCase {
	var out []PCase
	for _, t := range typeNames {
		big := 1e16
		if t == "float32" || t == "real32" {
			big = 1e8
		}
		if isInt(t) {
			big = 5
		}
		line := []float64{1, big, -big}
		ones := []float64{1, 1, 1}
		rev := []float64{-big, big, 1}
		// MdotV: r (2) = a (2x3) . b (3)
		out = append(out, PCase{Type: t, Kind: "dvec", G: "MdotV", C: "MDOTV", Recv: dObj(t, "dvec", 2, 0, []float64{7, 7}),
			Args:  []OSpec{dObj(t, "dmat", 2, 3, append(append([]float64{}, line...), rev...)), dObj(t, "dvec", 3, 0, ones)},
			Alias: []int{-1, -1}})
		// VdotM: r (2) = a (3) . b (3x2)
		out = append(out, PCase{Type: t, Kind: "dvec", G: "VdotM", C: "VDOTM", Recv: dObj(t, "dvec", 2, 0, []float64{7, 7}),
			Args:  []OSpec{dObj(t, "dvec", 3, 0, ones), dObj(t, "dmat", 3, 2, []float64{1, -big, big, big, -big, 1})},
			Alias: []int{-1, -1}})
		// MdotM: r (2x2) = a (2x3) . b (3x2)
		out = append(out, PCase{Type: t, Kind: "dmat", G: "MdotM", C: "MDOTM", Recv: dObj(t, "dmat", 2, 2, []float64{7, 7, 7, 7}),
			Args: []OSpec{dObj(t, "dmat", 2, 3, append(append([]float64{}, line...), rev...)),
				dObj(t, "dmat", 3, 2, []float64{1, 1, 1, 1, 1, 1})},
			Alias: []int{-1, -1}})
		// in-place products
		sq2 := []float64{1, 2, 3, 5}
		ot2 := []float64{0, 1, -2, 4}
		sq3 := []float64{1, 2, 0, -1, 3, 1, 2, 0, 5}
		ot3 := []float64{2, 0, 1, 1, -1, 0, 0, 3, 1}
		for _, al := range [][]int{{0, -1}, {-1, 0}, {0, 0}} {
			out = append(out, PCase{Type: t, Kind: "dmat", G: "MdotM", C: "MDOTM", Recv: dObj(t, "dmat", 2, 2, sq2),
				Args: []OSpec{dObj(t, "dmat", 2, 2, ot2), dObj(t, "dmat", 2, 2, ot2)}, Alias: al})
			out = append(out, PCase{Type: t, Kind: "dmat", G: "MdotM", C: "MDOTM", Recv: dObj(t, "dmat", 3, 3, sq3),
				Args: []OSpec{dObj(t, "dmat", 3, 3, ot3), dObj(t, "dmat", 3, 3, ot3)}, Alias: al})
		}
		// a = b, r fresh
		out = append(out, PCase{Type: t, Kind: "dmat", G: "MdotM", C: "MDOTM", Recv: dObj(t, "dmat", 2, 2, sq2),
			Args: []OSpec{dObj(t, "dmat", 2, 2, ot2), dObj(t, "dmat", 2, 2, ot2)}, Alias: []int{-1, 1}})
	}
	out = append(out, scalarRefCases()...)
	return out
}

func scalarRefCases() []PCase {
	var out []PCase
	vecOps := [][2]string{{"VaddS", "VADDS"}, {"VsubS", "VSUBS"}, {"VmulS", "VMULS"}, {"VdivS", "VDIVS"}}
	matOps := [][2]string{{"MaddS", "MADDS"}, {"MsubS", "MSUBS"}, {"MmulS", "MMULS"}, {"MdivS", "MDIVS"}}
	for _, t := range typeNames {
		// r and a: powers of two (exact quotients, products below 127 for int8)
		rv := []float64{2, 4, 2, 8}
		av := []float64{8, 4, 16, 2}
		for _, kind := range []string{"dvec", "svec"} {
			for _, op := range vecOps {
				for e := 0; e < len(rv); e++ {
					for _, aIsR := range []bool{false, true} {
						for _, owner := range []int{0, 1} {
							if aIsR && owner == 1 {
								continue
							}
							c := PCase{Type: t, Kind: kind, G: op[0], C: op[1], Recv: dObj(t, kind, len(rv), 0, rv),
								Args: []OSpec{dObj(t, kind, len(av), 0, av), {}}, Alias: []int{-1, -1}}
							if aIsR {
								c.Alias[0] = 0
								c.Args[0] = dObj(t, kind, len(rv), 0, rv)
							}
							setElemRef(&c, 1, owner, e)
							out = append(out, c)
						}
					}
				}
				if kind == "svec" {
					// zero patterns: absent entries in r / a around the referenced entry, a reference to an absent entry
					for _, pat := range [][2][]float64{{{2, 0, 4, 0}, {0, 4, 8, 2}}, {{0, 2, 0, 4}, {4, 0, 0, 2}}, {{4, 2, 0, 0}, {0, 0, 2, 4}}} {
						for e := 0; e < 4; e++ {
							c := PCase{Type: t, Kind: kind, G: op[0], C: op[1], Recv: sObj(t, 4, pat[0]),
								Args: []OSpec{sObj(t, 4, pat[1]), {}}, Alias: []int{-1, -1}}
							setElemRef(&c, 1, 0, e)
							out = append(out, c)
						}
					}
				}
			}
		}
		mr := []float64{2, 4, 2, 8, 4, 2}
		ma := []float64{8, 4, 16, 2, 4, 8}
		for _, op := range matOps {
			for e := 0; e < len(mr); e++ {
				for _, aIsR := range []bool{false, true} {
					for _, owner := range []int{0, 1} {
						if aIsR && owner == 1 {
							continue
						}
						c := PCase{Type: t, Kind: "dmat", G: op[0], C: op[1], Recv: dObj(t, "dmat", 2, 3, mr),
							Args: []OSpec{dObj(t, "dmat", 2, 3, ma), {}}, Alias: []int{-1, -1}}
						if aIsR {
							c.Alias[0] = 0
							c.Args[0] = dObj(t, "dmat", 2, 3, mr)
						}
						setElemRef(&c, 1, owner, e)
						out = append(out, c)
					}
				}
			}
		}
	}
	return out
}

// sObj: a sparse vector whose zero positions are absent
func sObj(t string, n int, vs []float64) OSpec {
	o := OSpec{K: "svec", Rows: n}
	for _, v := range vs {
		if v == 0 {
			o.E = append(o.E, ESpec{P: false})
		} else {
			o.E = append(o.E, dElem(t, v))
		}
	}
	return o
}
