// JSON encoding of floats that survives NaN / +-Inf / -0 (hex strings); plain numbers are accepted on input.
package main

import (
	"encoding/json"
	"math"
	"strconv"
)

type JF float64

func (f JF) MarshalJSON() ([]byte, error) {
	x := float64(f)
	if math.IsNaN(x) || math.IsInf(x, 0) || (x == 0 && math.Signbit(x)) {
		return json.Marshal(strconv.FormatFloat(x, 'x', -1, 64))
	}
	return json.Marshal(x)
}
func (f *JF) UnmarshalJSON(b []byte) error {
	var s string
	if len(b) > 0 && b[0] == '"' {
		if err := json.Unmarshal(b, &s); err != nil {
			return err
		}
		x, err := strconv.ParseFloat(s, 64)
		*f = JF(x)
		return err
	}
	var x float64
	err := json.Unmarshal(b, &x)
	*f = JF(x)
	return err
}
func toJF(xs []float64) []JF {
	r := make([]JF, len(xs))
	for i, x := range xs {
		r[i] = JF(x)
	}
	return r
}
func fromJF(xs []JF) []float64 {
	r := make([]float64, len(xs))
	for i, x := range xs {
		r[i] = float64(x)
	}
	return r
}

