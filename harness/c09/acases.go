// Coq case files of family A: vector-scalar pairs (VaddS/VADDS .. VdivS/VDIVS) whose SCALAR operand is a reference
// into a vector's own storage — r.VMULS(a, r.AT(k)), v.VDIVS(v, v.AT(0)), r.VADDS(a, a.AT(k)) — for sparse and dense
// vectors of all nine element types.  Both members are called by reflection on identically built worlds (the
// reference obtained through the library's own At(i)); coq/C09/CorrA.v replays the generic and the concrete model of
// coq/C09/ModelVA.v (scalar read again on every iteration) and compares each with what Go did.
// A third call of the CONCRETE member with a COPY of the scalar's value shows whether the case decides the
// re-reading at all (non-triviality rule).
package main

import (
	"fmt"
	"math"
	"reflect"

	. "adharness/common"

	ad "github.com/pbenner/autodiff"
)

type ACaseRaw struct {
	Fam    string `json:"fam"`
	Type   string `json:"type"`
	Sparse bool   `json:"sparse"`
	Setup  []VOp  `json:"setup"`
	G      string `json:"g"`
	R      int    `json:"r"`
	A      int    `json:"a"`
	Ref    bool   `json:"ref"` // scalar = vs[X].At(I), else a scalar of its own with value C
	X      int    `json:"x"`
	I      int    `json:"i"`
	C      int64  `json:"c"`
}

var aPairs = []vPairDef{{"VaddS", "VADDS", 1, true, false}, {"VsubS", "VSUBS", 1, true, false},
	{"VmulS", "VMULS", 1, true, false}, {"VdivS", "VDIVS", 1, true, false}}

// runA: mode 0 generic, 1 concrete, 2 concrete with a copy of the referenced value (never a Coq case: non-triviality)
func runA(c ACaseRaw, d vPairDef, mode int) (kind int64, hash int64, integral bool) {
	vs := buildVWorld(c.Type, c.Sparse, c.Setup)
	var sc ad.Scalar
	if c.Ref {
		sc = vs[c.X].At(c.I)
		if mode == 2 {
			sc = sc.CloneScalar()
		}
	} else {
		sc = ad.NewScalar(scalarType(c.Type), float64(c.C))
	}
	name := d.G
	if mode > 0 {
		name = d.C
	}
	m := reflect.ValueOf(vs[c.R]).MethodByName(name)
	in := []reflect.Value{reflect.ValueOf(vs[c.A]), reflect.ValueOf(sc)}
	func() {
		defer func() {
			if r := recover(); r != nil {
				kind = K_PANIC
			}
		}()
		m.Call(in)
	}()
	hash = observeVWorld(vs, c.Sparse)
	integral = true
	for _, v := range vs {
		for i := 0; i < v.Dim(); i++ {
			x := v.Float64At(i)
			if math.IsNaN(x) || math.IsInf(x, 0) {
				continue
			}
			if x != math.Trunc(x) || math.Abs(x) > 1e6 || (x == 0 && math.Signbit(x) && d.G == "VdivS") {
				integral = false
			}
		}
	}
	return
}

func genACase(r *Rng, w *CaseWriter, k int) {
	t := typeNames[k%len(typeNames)]
	d := aPairs[(k/len(typeNames))%len(aPairs)]
	sparse := (k/(len(typeNames)*len(aPairs)))%2 == 0
	flt := !isIntType(t)
	for attempt := 0; attempt < 40; attempt++ {
		c, explicit, ok := tryACase(r, t, d, sparse, flt)
		if !ok {
			continue
		}
		gk, gh, gi := runA(c, d, 0)
		ck, ch, ci := runA(c, d, 1)
		if flt && d.G == "VdivS" && (!gi || !ci) {
			continue // an inexact float quotient or a negative zero: outside the integer carrier of the model
		}
		_, kh, _ := runA(c, d, 2)
		var ops []string
		for _, o := range c.Setup {
			ops = append(ops, coqVOp(sparse, o))
		}
		sarg := fmt.Sprintf("AVal %s", Z(c.C))
		if c.Ref {
			sarg = fmt.Sprintf("AElem %d %s", c.X, Z(int64(c.I)))
		}
		op := map[string]string{"VaddS": "SAdd", "VsubS": "SSub", "VmulS": "SMul", "VdivS": "SDiv"}[d.G]
		coq := fmt.Sprintf("CA %s %s %s (Build_apair %s %d %d (%s)) (%s, [], %s) (%s, [], %s)", coqTy(t), B(sparse), List(ops),
			op, c.R, c.A, sarg, Z(gk), Z(gh), Z(ck), Z(ch))
		stor := "dense"
		if sparse {
			stor = "sparse"
		}
		decides := c.Ref && ck == 0 && kh != ch
		key := fmt.Sprintf("A:%s:%v:%s:%v:%v:%d:%d:%d", t, sparse, d.G, c.Setup, c.Ref, c.X, c.I, c.C)
		w.Add(coq, c, key, decides)
		w.Count("A:" + stor + ":" + d.G + "/" + d.C)
		w.Count("A:type:" + t)
		switch {
		case !c.Ref:
			w.Count("A:scalar:own")
		case c.X == c.R:
			w.Count("A:scalar:element-of-receiver")
		case c.X == c.A:
			w.Count("A:scalar:element-of-operand")
		default:
			w.Count("A:scalar:element-of-third-vector")
		}
		if c.A == c.R {
			w.Count("A:a-is-r")
		}
		if decides {
			w.Count("A:a-copy-of-the-scalar-gives-another-result")
		}
		if explicit {
			w.Count("A:explicit-stored-zero")
		}
		if gk != 0 || ck != 0 {
			w.Count("A:outcome:panic")
		}
		if gk != ck || gh != ch {
			w.Count("A:go-generic-differs-from-go-concrete")
		}
		return
	}
	Die("family A: no admissible case after 40 attempts (%s %s)", t, d.G)
}

func tryACase(r *Rng, t string, d vPairDef, sparse, flt bool) (c ACaseRaw, explicit, ok bool) {
	n := r.Range(2, 6)
	if r.Intn(8) == 0 {
		n = 1
	}
	c = ACaseRaw{Fam: "A", Type: t, Sparse: sparse, G: d.G}
	nvec := 2
	aIsR := r.Intn(4) == 0
	third := r.Intn(6) == 0
	var contents [][]int64
	full := r.Bool() // no zeros in half of the cases: every later position depends on the scalar
	mk := func(role int) []int64 {
		l, _ := pattern(r, n)
		if full {
			for j := range l {
				if l[j] == 0 {
					l[j] = nzv(r)
				}
			}
		}
		for j := range l {
			x := l[j]
			switch {
			case d.G == "VmulS":
				if x != 0 { // |x| in 1..3: a[j] * (a[k] * r[k]) stays below 128
					s := int64(1)
					if x < 0 {
						s = -1
					}
					x = s * (1 + (x*s)%3)
				}
			case d.G == "VdivS" && flt:
				// positive powers of two: exact quotients in every float type; r small, a large
				if x != 0 {
					a := x
					if a < 0 {
						a = -a
					}
					if role == 0 {
						x = int64(1) << uint(a%3) // 1 2 4
					} else {
						x = int64(64) << uint(a%4) // 64 .. 512
					}
				}
			}
			l[j] = x
		}
		return l
	}
	c.R = 0
	contents = append(contents, mk(0))
	if aIsR {
		c.A = 0
		nvec = 1
	} else {
		c.A = 1
		l := mk(1)
		if r.Intn(16) == 0 {
			l = append(l, 0) // dimension mismatch: both members panic
		}
		contents = append(contents, l)
	}
	if third {
		contents = append(contents, mk(0))
		nvec++
	}
	for h, l := range contents {
		if sparse {
			ks, xs := []int64{}, []int64{}
			for j, x := range l {
				if x != 0 {
					ks = append(ks, int64(j))
					xs = append(xs, x)
				}
			}
			c.Setup = append(c.Setup, VOp{Op: "NewS", H: h, L: ks, L2: xs, I: int64(len(l))})
		} else {
			c.Setup = append(c.Setup, VOp{Op: "NewD", H: h, L: l})
		}
	}
	if sparse {
		for h, l := range contents {
			for j := range l {
				if (l[j] == 0 && r.Intn(4) == 0) || (l[j] != 0 && r.Intn(12) == 0) {
					c.Setup = append(c.Setup, VOp{Op: "SetAt", H: h, I: int64(j), X: 0})
					contents[h][j] = 0
					explicit = true
				}
			}
		}
	}
	// the scalar operand
	if r.Intn(5) > 0 {
		c.Ref = true
		switch {
		case third:
			c.X = nvec - 1
		case aIsR || r.Intn(3) > 0:
			c.X = c.R
		default:
			c.X = c.A
		}
		m := len(contents[c.X])
		c.I = r.Intn(m)
		if r.Bool() && m > 1 {
			c.I = r.Intn(m - 1) // not the last position: the loop goes on after it has overwritten the scalar
		}
		if contents[c.X][c.I] == 0 && r.Intn(3) > 0 {
			// prefer a non-zero entry
			for j, x := range contents[c.X] {
				if x != 0 {
					c.I = j
					break
				}
			}
		}
		if flt && d.G == "VdivS" && contents[c.X][c.I] == 0 {
			return c, explicit, false // a zero divisor turns into NaN, which the integer carrier cannot divide by
		}
	} else {
		c.C = []int64{1, -1, 2, -2, 3, 0}[r.Intn(6)]
		if d.G == "VdivS" && flt {
			c.C = []int64{1, 2, 4}[r.Intn(3)]
		}
	}
	return c, explicit, true
}

const hdrA = "From Coq Require Import ZArith List Bool. Import ListNotations.\nFrom ADV Require Import C11.Model C03.Model C09.ModelV C09.ModelVA C09.CorrA.\nOpen Scope Z_scope.\n"

const ruleA = "A: VaddS/VADDS VsubS/VSUBS VmulS/VMULS VdivS/VDIVS on sparse and dense vectors of all nine element types, n in 1..6 (1 in 16 with a dimension mismatch), zero patterns as in family V (none in half of the cases), explicitly stored zeros, a = r in 1 of 4; the scalar operand is (4 of 5) a REFERENCE obtained by At(i): an element of the receiver, of the other operand or of a third vector (absent sparse entries are created), not the last position in half of the cases, else a scalar of its own; float division on positive powers of two (exact quotients, no negative zero, no zero divisor at the start: the model's carrier is Z), integer division unrestricted (a divisor that becomes 0 during the loop included). Non-trivial iff calling the CONCRETE member with a copy of the scalar instead of the reference changes the world afterwards (the case decides that the scalar is re-read)."

func emitACases(o Opts) {
	w := NewCaseWriter(o.Out, "acases", hdrA, "mism", 110)
	w.Type = "acase"
	w.Rule = ruleA
	rng := NewRng(o.Seed + 15485863)
	nA := 16 * o.N
	for k := 0; k < nA; k++ {
		genACase(rng.Split(), w, k)
	}
	if err := w.Flush(); err != nil {
		Die("%v", err)
	}
}
