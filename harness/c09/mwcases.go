// Family MW: the element-wise dense matrix pairs (MaddM/MADDM .. MdivM/MDIVM, MaddS/MADDS .. MdivS/MDIVS) on VIEWS:
// receiver and operands are parent.Slice(ro, ro+sr, co, co+sc), optionally .T(), of parents that may be SHARED (two
// overlapping views of one parent, a view and its own parent, a view of the receiver's parent at another offset);
// all nine element types; both Go members are run on identically built worlds and every cell of every PARENT is
// recorded; replayed by coq/C09/CorrMW.v against the generic and the concrete model of coq/C09/ModelMW.v, whose
// views are built by the header kernel (Slice, T, index) that coq/C10/Gen.v regenerates from the Go source.
package main

import (
	"fmt"
	"reflect"

	. "adharness/common"

	ad "github.com/pbenner/autodiff"
)

type MWView struct {
	K      int  `json:"k"` // parent
	RO, CO int  // offsets of the slice in the parent
	SR, SC int  // rows / columns of the slice (before the transposition)
	T      bool `json:"t"`
}
type MWCaseRaw struct {
	Fam     string   `json:"fam"`
	Type    string   `json:"type"`
	Parents []MMat   `json:"parents"`
	G       string   `json:"g"`
	V       []MWView `json:"v"` // receiver, a, (b)
	X       int64    `json:"x"` // scalar operand
}

var mwPairs = []mPairDef{
	{"MaddM", "MADDM", "mm"}, {"MsubM", "MSUBM", "mm"}, {"MmulM", "MMULM", "mm"}, {"MdivM", "MDIVM", "mm"},
	{"MaddS", "MADDS", "ms"}, {"MsubS", "MSUBS", "ms"}, {"MmulS", "MMULS", "ms"}, {"MdivS", "MDIVS", "ms"},
}

func runMW(c MWCaseRaw, d mPairDef, conc bool) (kind int64, after [][]int64) {
	var ps []ad.Matrix
	for _, m := range c.Parents {
		ps = append(ps, buildMat(c.Type, m))
	}
	var vs []ad.Matrix
	// the same (parent, slice, flag) twice is the SAME object (r.MADDM(r, b)), as in the other families
	for i, v := range c.V {
		same := -1
		for j := 0; j < i; j++ {
			if c.V[j] == v {
				same = j
			}
		}
		if same >= 0 {
			vs = append(vs, vs[same])
			continue
		}
		m := ps[v.K].Slice(v.RO, v.RO+v.SR, v.CO, v.CO+v.SC)
		if v.T {
			m = m.T()
		}
		vs = append(vs, m)
	}
	name := d.G
	if conc {
		name = d.C
	}
	recv := reflect.ValueOf(vs[0])
	var in []reflect.Value
	if d.Kind == "mm" {
		in = []reflect.Value{reflect.ValueOf(vs[1]), reflect.ValueOf(vs[2])}
	} else {
		in = []reflect.Value{reflect.ValueOf(vs[1]), reflect.ValueOf(ad.NewScalar(scalarType(c.Type), float64(c.X)))}
	}
	m := recv.MethodByName(name)
	func() {
		defer func() {
			if r := recover(); r != nil {
				kind = K_PANIC
			}
		}()
		m.Call(in)
	}()
	for k, p := range ps {
		var f []int64
		for i := 0; i < c.Parents[k].R; i++ {
			for j := 0; j < c.Parents[k].C; j++ {
				f = append(f, readM(p, i, j))
			}
		}
		after = append(after, f)
	}
	return
}

func genMWCase(r *Rng, w *CaseWriter, k int) {
	t := typeNames[k%len(typeNames)]
	d := mwPairs[(k/len(typeNames))%len(mwPairs)]
	div := in(d.G, "MdivM", "MdivS")
	mul := in(d.G, "MmulM", "MmulS")
	n, m := r.Range(0, 3), r.Range(0, 3)
	if r.Intn(6) > 0 {
		if n == 0 {
			n = 1 + r.Intn(3)
		}
		if m == 0 {
			m = 1 + r.Intn(3)
		}
	}
	nv := 3
	if d.Kind == "ms" {
		nv = 2
	}
	c := MWCaseRaw{Fam: "MW", Type: t, G: d.G}
	// sharing of parents between the receiver and an operand: the model is exact on Z, the implementation wraps / rounds:
	// no sharing for division (quotients of earlier results are not exact) and for int8 (sums double along a chain);
	// products of shared cells stay in {-1, 0, 1}
	share := !div && t != "int8" && r.Intn(2) == 0
	mx := n
	if m > mx {
		mx = m
	}
	common := r.Intn(2) == 0 // all parents of one shape
	cpr, cpc := mx+r.Intn(3), mx+r.Intn(3)
	addParent := func(role string) int {
		pr, pc := cpr, cpc
		if !common {
			pr, pc = mx+r.Intn(3), mx+r.Intn(3)
		}
		xs := smallList(r, pr*pc, -4, 4)
		switch {
		case role == "divisor":
			for i := range xs {
				xs[i] = []int64{1, -1, 2, -2, 3, 0}[r.Intn(6)]
			}
		case div:
			for i := range xs {
				xs[i] *= 6
			}
		case mul && share:
			for i := range xs {
				xs[i] = int64(r.Range(-1, 1))
			}
		}
		c.Parents = append(c.Parents, MMat{xs, pr, pc})
		return len(c.Parents) - 1
	}
	shared, overlapping, aliased, transposed := false, false, false, 0
	for i := 0; i < nv; i++ {
		role := ""
		if div && i == 2 {
			role = "divisor"
		}
		pk := -1
		if i > 0 && r.Intn(3) == 0 && (share || (i == 2 && !div)) {
			// a view of a parent that an earlier operand looks at (never the receiver's when sharing is off)
			lo := 0
			if !share {
				lo = 1
			}
			pk = c.V[lo+r.Intn(i-lo)].K
			if !share && pk == c.V[0].K {
				pk = -1 // (a is the receiver itself)
			} else {
				shared = true
				if pk == c.V[0].K {
					overlapping = true
				}
			}
		}
		if pk < 0 {
			pk = addParent(role)
		}
		tr := r.Intn(3) == 0
		sr, sc := n, m
		if i > 0 && r.Intn(14) == 0 {
			sr++ // dimension mismatch: both members panic before anything is written
		}
		if tr {
			sr, sc = sc, sr
			transposed++
		}
		P := c.Parents[pk]
		if sr > P.R {
			sr = P.R
		}
		if sc > P.C {
			sc = P.C
		}
		v := MWView{K: pk, RO: r.Intn(P.R - sr + 1), CO: r.Intn(P.C - sc + 1), SR: sr, SC: sc, T: tr}
		if i > 0 && !div && r.Intn(5) == 0 {
			v = c.V[0] // the receiver itself
			aliased = true
		}
		c.V = append(c.V, v)
	}
	c.X = []int64{1, -1, 2, -2, 3, 0, 0}[r.Intn(7)]
	if !div && c.X == 0 && r.Bool() {
		c.X = 4
	}
	if mul && share {
		c.X = int64(r.Range(-1, 1))
	}
	gk, ga := runMW(c, d, false)
	ck, ca := runMW(c, d, true)
	var sts []string
	for _, p := range c.Parents {
		sts = append(sts, ZList(p.Xs))
	}
	vw := func(v MWView) string {
		P := c.Parents[v.K]
		return fmt.Sprintf("(VW %d %d %d %d %d %d %d %v)", v.K, P.R, P.C, v.RO, v.CO, v.SR, v.SC, v.T)
	}
	bop := map[string]string{"MaddM": "Add", "MsubM": "Sub", "MmulM": "Mul", "MaddS": "Add", "MsubS": "Sub", "MmulS": "Mul"}[d.G]
	var op, vb string
	switch {
	case d.G == "MdivM":
		op, vb = "DivM", vw(c.V[2])
	case d.Kind == "mm":
		op, vb = "(OpM "+bop+")", vw(c.V[2])
	case d.G == "MdivS":
		op, vb = "(DivS "+Z(c.X)+")", vw(c.V[1])
	default:
		op, vb = "(OpS "+bop+" "+Z(c.X)+")", vw(c.V[1])
	}
	lists := func(a [][]int64) string {
		var s []string
		for _, l := range a {
			s = append(s, ZList(l))
		}
		return List(s)
	}
	coq := fmt.Sprintf("CW %s %s %s %s %s %s %s %s %s %s", coqTy(t), List(sts), vw(c.V[0]), vw(c.V[1]), vb, op,
		Z(gk), lists(ga), Z(ck), lists(ca))
	key := fmt.Sprintf("MW:%s:%s:%v:%v:%d", t, d.G, c.Parents, c.V, c.X)
	w.Add(coq, c, key, n*m >= 2 && (c.V[0].RO+c.V[0].CO > 0 || c.V[1].RO+c.V[1].CO > 0 || transposed > 0))
	w.Count("MW:" + d.G + "/" + d.C)
	w.Count("MW:type:" + t)
	if shared {
		w.Count("MW:operands share a parent")
	}
	if overlapping {
		w.Count("MW:an operand is a view of the receiver's parent")
	}
	if aliased {
		w.Count("MW:receiver = operand (same view object)")
	}
	if transposed > 0 {
		w.Count("MW:transposed views")
	}
	if common {
		w.Count("MW:parents of one common shape")
	}
	if gk != 0 || ck != 0 {
		w.Count("MW:outcome:panic")
	}
	if gk != ck || fmt.Sprint(ga) != fmt.Sprint(ca) {
		w.Count("MW:go-generic-differs-from-go-concrete")
	}
}

const hdrMW = "From Coq Require Import ZArith List Bool. Import ListNotations.\nFrom ADV Require Import C11.Model C03.Model C10.Gen C09.ModelMW C09.CorrMW.\nOpen Scope Z_scope.\n"
const ruleMW = "MW: element-wise dense matrix pairs (MaddM..MdivM, MaddS..MdivS) on SLICE views (1 in 3 transposed) of parents up to 5 x 5, all nine element types, object shapes 0..3 x 0..3 (1 in 14 operands with a dimension mismatch), half of the cases with parents of one common shape, operands sharing a parent / overlapping the receiver's parent / being the receiver; values as in family M (shared products in {-1,0,1}); every cell of every parent compared; non-trivial iff the receiver has at least 2 elements and some view has an offset or is transposed. distinct = distinct (type, pair, parents, views, scalar)"

func emitMWCases(o Opts) {
	w := NewCaseWriter(o.Out, "mwcases", hdrMW, "mism", 120)
	w.Type = "mwcase"
	w.Rule = ruleMW
	rng := NewRng(o.Seed + 15485863)
	for k := 0; k < 10*o.N; k++ {
		genMWCase(rng.Split(), w, k)
	}
	if err := w.Flush(); err != nil {
		Die("%v", err)
	}
}
