// World of sparse / dense vectors over small integers and its observation — the representation the models
// coq/C11/Model.v, coq/C03/Model.v and coq/C09/ModelV.v work with (copied from harness/c03, which is package main).
package main

import (
	"math"

	. "adharness/common"

	ad "github.com/pbenner/autodiff"
)

const (
	K_OK    = 0
	K_PANIC = 1
	SEP     = -7771
	HP      = 2147483647
	C_PANIC = 99991
	C_NIL   = 99992
	C_CLONE = 99993
	C_LOOP  = 99994
	NAN     = 999999937
	PINF    = 999999938
	NINF    = 999999939
)


func coqTy(name string) string {
	switch name {
	case "real64", "real32":
		return "TReal"
	case "float64", "float32":
		return "TFloat"
	}
	return "TInt"
}
func isIntType(name string) bool { return coqTy(name) == "TInt" }
func valueCap(name string) int64 {
	switch name {
	case "int8":
		return 120
	}
	return 4000
}


func ints(l []int64) []int {
	r := make([]int, len(l))
	for i, x := range l {
		r[i] = int(x)
	}
	return r
}
func f64s(l []int64) []float64 {
	r := make([]float64, len(l))
	for i, x := range l {
		r[i] = float64(x)
	}
	return r
}
func f32s(l []int64) []float32 {
	r := make([]float32, len(l))
	for i, x := range l {
		r[i] = float32(x)
	}
	return r
}

func newSparse(name string, ks []int64, xs []int64, n int) ad.Vector {
	k := ints(ks)
	switch name {
	case "float64":
		return ad.NewSparseFloat64Vector(k, f64s(xs), n)
	case "float32":
		return ad.NewSparseFloat32Vector(k, f32s(xs), n)
	case "int":
		return ad.NewSparseIntVector(k, ints(xs), n)
	case "int8":
		v := make([]int8, len(xs))
		for i, x := range xs {
			v[i] = int8(x)
		}
		return ad.NewSparseInt8Vector(k, v, n)
	case "int16":
		v := make([]int16, len(xs))
		for i, x := range xs {
			v[i] = int16(x)
		}
		return ad.NewSparseInt16Vector(k, v, n)
	case "int32":
		v := make([]int32, len(xs))
		for i, x := range xs {
			v[i] = int32(x)
		}
		return ad.NewSparseInt32Vector(k, v, n)
	case "int64":
		return ad.NewSparseInt64Vector(k, append([]int64{}, xs...), n)
	case "real32":
		return ad.NewSparseReal32Vector(k, f32s(xs), n)
	case "real64":
		return ad.NewSparseReal64Vector(k, f64s(xs), n)
	}
	Die("unknown element type %s", name)
	return nil
}

func newDense(name string, xs []int64) ad.Vector {
	switch name {
	case "float64":
		return ad.NewDenseFloat64Vector(f64s(xs))
	case "float32":
		return ad.NewDenseFloat32Vector(f32s(xs))
	case "int":
		return ad.NewDenseIntVector(ints(xs))
	case "int8":
		v := make([]int8, len(xs))
		for i, x := range xs {
			v[i] = int8(x)
		}
		return ad.NewDenseInt8Vector(v)
	case "int16":
		v := make([]int16, len(xs))
		for i, x := range xs {
			v[i] = int16(x)
		}
		return ad.NewDenseInt16Vector(v)
	case "int32":
		v := make([]int32, len(xs))
		for i, x := range xs {
			v[i] = int32(x)
		}
		return ad.NewDenseInt32Vector(v)
	case "int64":
		return ad.NewDenseInt64Vector(append([]int64{}, xs...))
	case "real32":
		return ad.NewDenseReal32Vector(f32s(xs))
	case "real64":
		return ad.NewDenseReal64Vector(f64s(xs))
	}
	Die("unknown element type %s", name)
	return nil
}

// code: a value as the integer the model works with
func code(x float64) int64 {
	switch {
	case math.IsNaN(x):
		return NAN
	case math.IsInf(x, 1):
		return PINF
	case math.IsInf(x, -1):
		return NINF
	}
	return int64(x)
}


type VecObs struct {
	Sparse bool
	N      int
	Reads  []int64
	Keys   []int64
	Vals   []int64
	Index  []int64
	Iter   []int64
	Flat   []int64
}

func readAt(v ad.Vector, i int) (x int64) {
	defer func() {
		if r := recover(); r != nil {
			x = C_PANIC
		}
	}()
	return code(v.Float64At(i))
}
func cloneIter(v ad.Vector) (seq []int64) {
	seq = []int64{}
	defer func() {
		if r := recover(); r != nil {
			seq = []int64{C_CLONE}
		}
	}()
	c := v.CloneVector()
	g := 0
	for it := c.ConstIterator(); it.Ok(); it.Next() {
		seq = append(seq, int64(it.Index()), code(it.GetConst().GetFloat64()))
		if g++; g > 10000 {
			return []int64{C_LOOP}
		}
	}
	return seq
}

func observeVec(v ad.Vector, sparse bool) VecObs {
	var o VecObs
	o.Sparse = sparse
	o.N = v.Dim()
	f := []int64{int64(o.N), SEP}
	for i := 0; i < o.N; i++ {
		x := readAt(v, i)
		o.Reads = append(o.Reads, x)
		f = append(f, x)
	}
	f = append(f, SEP)
	if sparse {
		st := ad.VerifC11Dump(v)
		for _, e := range st.Entries {
			x := code(e.Value)
			if e.Nil {
				x = C_NIL
			}
			o.Keys = append(o.Keys, int64(e.Key))
			o.Vals = append(o.Vals, x)
			f = append(f, int64(e.Key), x)
		}
		f = append(f, SEP)
		for _, k := range st.Index {
			o.Index = append(o.Index, int64(k))
			f = append(f, int64(k))
		}
		f = append(f, SEP)
		o.Iter = cloneIter(v)
		f = append(f, o.Iter...)
		f = append(f, SEP)
	}
	o.Flat = f
	return o
}

func hashList(h int64, l []int64) int64 {
	for _, x := range l {
		h = (h*1000003 + x + 12345) % HP
		if h < 0 {
			h += HP
		}
	}
	return h
}

