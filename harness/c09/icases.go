// Family I: accessor and iterator pairs (At/AT, Iterator/ITERATOR, IteratorFrom/ITERATOR_FROM with the element
// access Get/GET on every visit, JointIterator/JOINT_ITERATOR of the sparse receivers) on dense / sparse vectors
// and matrices over small integers, all nine element types; replayed by coq/C09/CorrI.v against C09.ModelI
// (generic member and concrete member modelled separately, each compared with its own Go outcome).
// Family S: the SOURCE SHAPE (go/ast) of the generic member of every accessor / iterator pair x receiver type:
// 1 = `return recv.CONCRETE(own arguments in order)`, 2 = the sparse iterator nil guard, 3 = the joint iterator
// nil guard, 4 = the same text as the concrete member, 0 = anything else; compared with C09.ModelI.expected_shape.
package main

import (
	"encoding/json"
	"fmt"
	"go/ast"
	"go/parser"
	"go/printer"
	"go/token"
	"os"
	"path/filepath"
	"reflect"
	"regexp"
	"sort"
	"strings"

	. "adharness/common"

	ad "github.com/pbenner/autodiff"
)

// ---------------------------------------------------------------- world

type IaVec struct {
	N  int     `json:"n"`
	Ks []int64 `json:"ks"`
	Xs []int64 `json:"xs"`
	Zs []int64 `json:"zs"` // explicitly stored zeros
}
type IaMat struct {
	R  int     `json:"r"`
	C  int     `json:"c"`
	Ks []int64 `json:"ks"` // linear index i*c + j
	Xs []int64 `json:"xs"`
	Zs []int64 `json:"zs"`
}
type IaRef struct {
	K string `json:"k"` // DV SV DM SM
	H int    `json:"h"`
}
type IaCase struct {
	Fam  string    `json:"fam"`
	Type string    `json:"type"`
	SV   []IaVec   `json:"sv"`
	DV   [][]int64 `json:"dv"`
	SM   []IaMat   `json:"sm"`
	DM   []MMat    `json:"dm"`
	Pair string    `json:"pair"` // at iter from joint
	X    IaRef     `json:"x"`
	B    IaRef     `json:"b"`
	I    int64     `json:"i"`
	J    int64     `json:"j"`
	D    int64     `json:"d"`
}
type iaWorld struct {
	S   []ad.Vector // sparse vectors, then the values vectors of the sparse matrices
	D   []ad.Vector
	SV  []ad.Vector
	SM  []ad.Matrix
	SMh []int
	DM  []ad.Matrix
}

func iaBuild(c IaCase) *iaWorld {
	w := &iaWorld{}
	st := scalarType(c.Type)
	for _, v := range c.SV {
		x := newSparse(c.Type, v.Ks, v.Xs, v.N)
		for _, z := range v.Zs {
			x.At(int(z)).SetFloat64(0)
		}
		w.S = append(w.S, x)
		w.SV = append(w.SV, x)
	}
	for _, v := range c.DV {
		w.D = append(w.D, newDense(c.Type, v))
	}
	for _, m := range c.SM {
		x := ad.NullSparseMatrix(st, m.R, m.C)
		for i, k := range m.Ks {
			if m.Xs[i] != 0 {
				x.At(int(k)/m.C, int(k)%m.C).SetFloat64(float64(m.Xs[i]))
			}
		}
		for _, z := range m.Zs {
			x.At(int(z)/m.C, int(z)%m.C).SetFloat64(0)
		}
		w.S = append(w.S, x.AsVector())
		w.SMh = append(w.SMh, len(w.S)-1)
		w.SM = append(w.SM, x)
	}
	for _, m := range c.DM {
		w.DM = append(w.DM, buildMat(c.Type, m))
	}
	return w
}

// obs4 of C03.ModelM
func (w *iaWorld) hash() int64 {
	h := int64(17)
	for _, v := range w.S {
		h = hashList(h, observeVec(v, true).Flat)
	}
	h = hashList(h, []int64{SEP, SEP})
	for _, v := range w.D {
		h = hashList(h, observeVec(v, false).Flat)
	}
	h = hashList(h, []int64{SEP, SEP})
	for i, m := range w.SM {
		n, c := m.Dims()
		h = hashList(h, []int64{int64(w.SMh[i]), int64(n), int64(c), SEP})
	}
	h = hashList(h, []int64{SEP})
	for _, m := range w.DM {
		n, c := m.Dims()
		f := []int64{int64(n), int64(c), SEP}
		for i := 0; i < n; i++ {
			for j := 0; j < c; j++ {
				f = append(f, readM(m, i, j))
			}
		}
		f = append(f, SEP)
		h = hashList(h, f)
	}
	return h
}
func (w *iaWorld) get(r IaRef) interface{} {
	switch r.K {
	case "DV":
		return w.D[r.H]
	case "SV":
		return w.SV[r.H]
	case "DM":
		return w.DM[r.H]
	}
	return w.SM[r.H]
}

// ---------------------------------------------------------------- running a member

const K_LOOP = 5

// element record [tag; value]: 0 = nil (nil interface from Get, T{nil} from GET), 1 = a scalar,
// 2 = a non-nil interface holding a nil scalar (Get only)
func iaElem(v reflect.Value, generic bool) []int64 {
	if v.Kind() == reflect.Interface {
		if v.IsNil() {
			return []int64{0, 0}
		}
		v = v.Elem()
	}
	nilPtr := (v.Kind() == reflect.Ptr && v.IsNil()) ||
		(v.Kind() == reflect.Struct && v.NumField() == 1 && v.Field(0).Kind() == reflect.Ptr && v.Field(0).IsNil())
	if nilPtr {
		if generic {
			return []int64{2, 0}
		}
		return []int64{0, 0}
	}
	return []int64{1, code(v.Interface().(ad.ConstScalar).GetFloat64())}
}

// for ; it.Ok(); it.Next() { it.Index(); it.<getName>() }
func iaWalk(it reflect.Value, getName string, generic bool) []int64 {
	out := []int64{}
	ok, next, index, get := it.MethodByName("Ok"), it.MethodByName("Next"), it.MethodByName("Index"), it.MethodByName(getName)
	for g := 0; ok.Call(nil)[0].Bool(); g++ {
		if g > 10000 {
			panic("iaLoop")
		}
		for _, ix := range index.Call(nil) {
			out = append(out, ix.Int())
		}
		rs := get.Call(nil)
		out = append(out, iaElem(rs[0], generic)...)
		if len(rs) > 1 { // joint iterator: s2 is never nil
			out = append(out, code(rs[1].Interface().(ad.ConstScalar).GetFloat64()))
		}
		next.Call(nil)
	}
	return out
}

func iaRun(c IaCase, conc bool) (kind int64, payload []int64, hash int64) {
	w := iaBuild(c)
	payload = []int64{}
	func() {
		defer func() {
			if r := recover(); r != nil {
				kind, payload = K_PANIC, []int64{}
				if fmt.Sprint(r) == "iaLoop" {
					kind = K_LOOP
				}
			}
		}()
		x := w.get(c.X)
		isVec := c.X.K == "DV" || c.X.K == "SV"
		rx := reflect.ValueOf(x)
		ii, jj := int(c.I), int(c.J)
		idx := []reflect.Value{reflect.ValueOf(ii)}
		if !isVec {
			idx = append(idx, reflect.ValueOf(jj))
		}
		switch c.Pair {
		case "at":
			var s ad.Scalar
			switch {
			case conc:
				s = rx.MethodByName("AT").Call(idx)[0].Interface().(ad.Scalar)
			case isVec:
				s = x.(ad.Vector).At(ii)
			default:
				s = x.(ad.Matrix).At(ii, jj)
			}
			v := s.GetFloat64()
			payload = append(payload, code(v))
			s.SetFloat64(v + float64(c.D))
		case "iter":
			switch {
			case conc:
				payload = iaWalk(rx.MethodByName("ITERATOR").Call(nil)[0], "GET", false)
			case isVec:
				payload = iaWalk(reflect.ValueOf(x.(ad.Vector).Iterator()), "Get", true)
			default:
				payload = iaWalk(reflect.ValueOf(x.(ad.Matrix).Iterator()), "Get", true)
			}
		case "from":
			switch {
			case conc:
				payload = iaWalk(rx.MethodByName("ITERATOR_FROM").Call(idx)[0], "GET", false)
			case isVec:
				payload = iaWalk(reflect.ValueOf(x.(ad.Vector).IteratorFrom(ii)), "Get", true)
			default:
				payload = iaWalk(reflect.ValueOf(x.(ad.Matrix).IteratorFrom(ii, jj)), "Get", true)
			}
		case "joint":
			b := w.get(c.B)
			switch {
			case conc:
				payload = iaWalk(rx.MethodByName("JOINT_ITERATOR").Call([]reflect.Value{reflect.ValueOf(b)})[0], "GET", false)
			case isVec:
				payload = iaWalk(reflect.ValueOf(x.(ad.Vector).JointIterator(b.(ad.Vector))), "Get", true)
			default:
				payload = iaWalk(reflect.ValueOf(x.(ad.Matrix).JointIterator(b.(ad.Matrix))), "Get", true)
			}
		}
	}()
	hash = w.hash()
	return
}

// ---------------------------------------------------------------- generation

func iaSparse(r *Rng, n int) (ks, xs, zs []int64, stored int) {
	ks, xs, zs = []int64{}, []int64{}, []int64{}
	for i := 0; i < n; i++ {
		switch r.Intn(6) {
		case 0, 1, 2:
			v := int64(r.Range(1, 4))
			if r.Bool() {
				v = -v
			}
			ks, xs = append(ks, int64(i)), append(xs, v)
			stored++
		case 3:
			zs = append(zs, int64(i))
			stored++
		}
	}
	return
}

// boundary and out-of-range positions of 0..n-1
func iaIndex(r *Rng, n int) int64 {
	switch r.Intn(7) {
	case 0:
		return -1
	case 1:
		return int64(n)
	case 2:
		return int64(n - 1)
	case 3:
		return 0
	case 4:
		return int64(n + 1)
	}
	if n <= 0 {
		return 0
	}
	return int64(r.Intn(n))
}

var iaPairs = []string{"at", "iter", "from", "joint"}
var iaKinds = []string{"DV", "SV", "DM", "SM"}

func genIaCase(r *Rng, w *CaseWriter, k int) {
	t := typeNames[k%len(typeNames)]
	pair := iaPairs[(k/len(typeNames))%len(iaPairs)]
	kind := iaKinds[(k/(len(typeNames)*len(iaPairs)))%len(iaKinds)]
	if pair == "joint" && (kind == "DV" || kind == "DM") { // dense receivers: not modelled
		kind = map[string]string{"DV": "SV", "DM": "SM"}[kind]
	}
	c := IaCase{Fam: "A", Type: t, Pair: pair, SV: []IaVec{}, DV: [][]int64{}, SM: []IaMat{}, DM: []MMat{}}
	n, rows, cols := r.Range(0, 6), r.Range(0, 3), r.Range(0, 3)
	if r.Intn(6) > 0 {
		if n == 0 {
			n = 1 + r.Intn(5)
		}
		if rows == 0 {
			rows = 1 + r.Intn(3)
		}
		if cols == 0 {
			cols = 1 + r.Intn(3)
		}
	}
	stored := 0
	addSV := func(n int) int {
		ks, xs, zs, s := iaSparse(r, n)
		stored += s
		c.SV = append(c.SV, IaVec{n, ks, xs, zs})
		return len(c.SV) - 1
	}
	addDV := func(n int) int {
		c.DV = append(c.DV, smallList(r, n, -4, 4))
		stored += n
		return len(c.DV) - 1
	}
	addSM := func(rows, cols int) int {
		ks, xs, zs, s := iaSparse(r, rows*cols)
		stored += s
		c.SM = append(c.SM, IaMat{rows, cols, ks, xs, zs})
		return len(c.SM) - 1
	}
	addDM := func(rows, cols int) int {
		c.DM = append(c.DM, MMat{smallList(r, rows*cols, -4, 4), rows, cols})
		stored += rows * cols
		return len(c.DM) - 1
	}
	switch kind {
	case "DV":
		c.X = IaRef{"DV", addDV(n)}
	case "SV":
		c.X = IaRef{"SV", addSV(n)}
	case "DM":
		c.X = IaRef{"DM", addDM(rows, cols)}
	case "SM":
		c.X = IaRef{"SM", addSM(rows, cols)}
	}
	isVec := kind == "DV" || kind == "SV"
	aliased := false
	switch pair {
	case "at", "from":
		if isVec {
			c.I = iaIndex(r, n)
		} else {
			c.I, c.J = iaIndex(r, rows), iaIndex(r, cols)
			if r.Intn(3) > 0 { // mostly one coordinate in range
				if r.Bool() {
					c.I = int64(r.Intn(rows + 1))
				} else {
					c.J = int64(r.Intn(cols + 1))
				}
			}
		}
		c.D = []int64{1, -2, 3}[r.Intn(3)]
		if pair == "from" {
			c.D = 0
		}
	case "joint":
		switch r.Intn(5) {
		case 0: // the receiver itself
			c.B, aliased = c.X, true
		case 1, 2:
			if isVec {
				m := n
				if r.Intn(4) == 0 {
					m = n + 1
				}
				c.B = IaRef{"DV", addDV(m)}
			} else {
				c.B = IaRef{"DM", addDM(rows, cols)}
			}
		default:
			if isVec {
				m := n
				if r.Intn(4) == 0 && n > 0 {
					m = n - 1
				}
				c.B = IaRef{"SV", addSV(m)}
			} else {
				c.B = IaRef{"SM", addSM(rows, cols)}
			}
		}
	}
	gk, gp, gh := iaRun(c, false)
	ck, cp, ch := iaRun(c, true)
	var ops []string
	for u, v := range c.SV {
		ops = append(ops, fmt.Sprintf("V (NewS %s %s %d)", ZList(v.Ks), ZList(v.Xs), v.N))
		for _, z := range v.Zs {
			ops = append(ops, fmt.Sprintf("V (SetAt (RS %d) %d 0)", u, z))
		}
	}
	for _, v := range c.DV {
		ops = append(ops, fmt.Sprintf("V (NewD %s)", ZList(v)))
	}
	for q, m := range c.SM {
		ops = append(ops, fmt.Sprintf("NewSM %s %s %d %d", ZList(m.Ks), ZList(m.Xs), m.R, m.C))
		for _, z := range m.Zs {
			ops = append(ops, fmt.Sprintf("MSetAt (XS %d) %d 0", q, z))
		}
	}
	for _, m := range c.DM {
		ops = append(ops, fmt.Sprintf("NewDM %s %d %d", ZList(m.Xs), m.R, m.C))
	}
	ref := func(x IaRef) string { return fmt.Sprintf("(K%s %d)", x.K, x.H) }
	var p string
	switch pair {
	case "at":
		p = fmt.Sprintf("IPat %s %s %s %s", ref(c.X), Z(c.I), Z(c.J), Z(c.D))
	case "iter":
		p = fmt.Sprintf("IPiter %s", ref(c.X))
	case "from":
		p = fmt.Sprintf("IPfrom %s %s %s", ref(c.X), Z(c.I), Z(c.J))
	case "joint":
		p = fmt.Sprintf("IPjoint %s %s", ref(c.X), ref(c.B))
	}
	coq := fmt.Sprintf("CA %s %s (%s) (%s, %s, %s) (%s, %s, %s)", coqTy(t), List(ops), p,
		Z(gk), ZList(gp), Z(gh), Z(ck), ZList(cp), Z(ch))
	key := fmt.Sprintf("A:%s:%s:%v:%v:%v:%v:%v:%v:%d:%d:%d", t, pair, c.SV, c.DV, c.SM, c.DM, c.X, c.B, c.I, c.J, c.D)
	w.Add(coq, c, key, stored >= 2)
	w.Count("A:" + pair + ":" + kind)
	w.Count("A:type:" + t)
	if aliased {
		w.Count("A:joint operand = receiver")
	}
	if gk == K_PANIC || ck == K_PANIC {
		w.Count("A:outcome:panic")
	}
	if gk == K_LOOP || ck == K_LOOP {
		w.Count("A:outcome:iterator does not terminate")
	}
	for _, v := range c.SV {
		if len(v.Zs) > 0 {
			w.Count("A:sparse operand with stored zeros")
			break
		}
	}
	if gk != ck || gh != ch || fmt.Sprint(gp) != fmt.Sprint(cp) {
		w.Count("A:go-generic-differs-from-go-concrete")
	}
}

// ---------------------------------------------------------------- family S: source shapes

var iaPairNames = [][2]string{{"At", "AT"}, {"Get", "GET"}, {"Iterator", "ITERATOR"}, {"IteratorFrom", "ITERATOR_FROM"},
	{"JointIterator", "JOINT_ITERATOR"}, {"Row", "ROW"}, {"Col", "COL"}, {"Diag", "DIAG"}, {"Slice", "SLICE"}}
var iaGenericOnly = []string{"Map", "MapSet", "Reduce", "ConstAt", "ConstIterator", "ConstIteratorFrom", "ConstJointIterator"}
var iaRecvRe = regexp.MustCompile(`^(Dense|Sparse)([A-Za-z0-9]+?)(Vector|Matrix)(Iterator|JointIterator|Joint3Iterator)?$`)

// receiver family id of C09.ModelI.expected_shape; -1 = not a container / iterator of the four families
func iaFamily(recv string) int {
	m := iaRecvRe.FindStringSubmatch(recv)
	if m == nil {
		return -1
	}
	base := 0
	if m[1] == "Sparse" {
		base = 1
	}
	if m[3] == "Matrix" {
		base += 2
	}
	switch m[4] {
	case "":
		return base
	case "Iterator":
		return 4 + base
	case "JointIterator":
		if base == 0 && strings.HasPrefix(m[2], "Real") {
			return 14 // dense Real vector joint iterator: hand-written, Get is a plain wrapper of a GET that holds the nil guard
		}
		return 8 + base
	}
	if m[1] == "Sparse" && m[3] == "Vector" {
		return 12
	}
	if m[1] == "Sparse" && m[3] == "Matrix" {
		return 13
	}
	return -1
}

func iaRecvIdent(fd *ast.FuncDecl) string {
	if len(fd.Recv.List[0].Names) == 0 {
		return ""
	}
	return fd.Recv.List[0].Names[0].Name
}
func isIdent(e ast.Expr, name string) bool {
	id, ok := e.(*ast.Ident)
	return ok && id.Name == name
}

// recv.f  or  recv.f.ptr
func iaField(e ast.Expr, recv, f string) bool {
	s, ok := e.(*ast.SelectorExpr)
	if !ok {
		return false
	}
	if s.Sel.Name == "ptr" {
		s, ok = s.X.(*ast.SelectorExpr)
		if !ok {
			return false
		}
	}
	return s.Sel.Name == f && isIdent(s.X, recv)
}
func iaRet(b *ast.BlockStmt) []ast.Expr {
	if b == nil || len(b.List) != 1 {
		return nil
	}
	if r, ok := b.List[0].(*ast.ReturnStmt); ok {
		return r.Results
	}
	return nil
}

// nil  or  (*T)(nil)
func iaNil(e ast.Expr) bool {
	if isIdent(e, "nil") {
		return true
	}
	call, ok := e.(*ast.CallExpr)
	if !ok || len(call.Args) != 1 || !isIdent(call.Args[0], "nil") {
		return false
	}
	p, ok := call.Fun.(*ast.ParenExpr)
	if !ok {
		return false
	}
	_, ok = p.X.(*ast.StarExpr)
	return ok
}

// the text of a body
func iaText(fs *token.FileSet, b *ast.BlockStmt) string {
	var sb strings.Builder
	if b == nil || printer.Fprint(&sb, fs, b) != nil {
		return ""
	}
	return strings.Join(strings.Fields(sb.String()), " ")
}

// iaShape classifies the body of the generic member [fd] whose twin is [conc]
func iaShape(fd *ast.FuncDecl, conc string) int {
	recv := iaRecvIdent(fd)
	if fd.Body == nil || len(fd.Body.List) != 1 || recv == "" {
		return 0
	}
	// 1: return recv.CONCRETE(params in order)
	if rs := iaRet(fd.Body); len(rs) == 1 {
		call, ok := rs[0].(*ast.CallExpr)
		if !ok || call.Ellipsis.IsValid() {
			return 0
		}
		sel, ok := call.Fun.(*ast.SelectorExpr)
		if !ok || sel.Sel.Name != conc || !isIdent(sel.X, recv) {
			return 0
		}
		var params []string
		for _, f := range fd.Type.Params.List {
			for _, n := range f.Names {
				params = append(params, n.Name)
			}
		}
		if len(params) != len(call.Args) {
			return 0
		}
		for i, a := range call.Args {
			if !isIdent(a, params[i]) {
				return 0
			}
		}
		return 1
	}
	ifs, ok := fd.Body.List[0].(*ast.IfStmt)
	if !ok {
		return 0
	}
	cond, ok := ifs.Cond.(*ast.BinaryExpr)
	if !ok || cond.Op != token.EQL || !iaNil(cond.Y) {
		return 0
	}
	els, _ := ifs.Else.(*ast.BlockStmt)
	thenR, elseR := iaRet(ifs.Body), iaRet(els)
	if ifs.Init != nil {
		// 2: if v := recv.GET(); v.ptr == nil { return nil } else { return v }     (v == nil for pointer scalars)
		as, ok := ifs.Init.(*ast.AssignStmt)
		if !ok || as.Tok != token.DEFINE || len(as.Lhs) != 1 || len(as.Rhs) != 1 {
			return 0
		}
		v, ok := as.Lhs[0].(*ast.Ident)
		if !ok {
			return 0
		}
		call, ok := as.Rhs[0].(*ast.CallExpr)
		if !ok || len(call.Args) != 0 {
			return 0
		}
		sel, ok := call.Fun.(*ast.SelectorExpr)
		if !ok || sel.Sel.Name != conc || !isIdent(sel.X, recv) {
			return 0
		}
		cx := cond.X
		if s, ok := cx.(*ast.SelectorExpr); ok && s.Sel.Name == "ptr" {
			cx = s.X
		}
		if !isIdent(cx, v.Name) {
			return 0
		}
		if len(thenR) == 1 && isIdent(thenR[0], "nil") && len(elseR) == 1 && isIdent(elseR[0], v.Name) {
			return 2
		}
		return 0
	}
	// 3: if recv.s1.ptr == nil { return nil, recv.s2.. } else { return recv.s1, recv.s2.. }
	if !iaField(cond.X, recv, "s1") || len(thenR) < 2 || len(thenR) != len(elseR) {
		return 0
	}
	if !isIdent(thenR[0], "nil") || !iaField(elseR[0], recv, "s1") {
		return 0
	}
	for i := 1; i < len(thenR); i++ {
		f := fmt.Sprintf("s%d", i+1)
		if !iaField(thenR[i], recv, f) || !iaField(elseR[i], recv, f) {
			return 0
		}
		if s, ok := thenR[i].(*ast.SelectorExpr); ok && s.Sel.Name == "ptr" {
			return 0
		}
	}
	return 3
}

type IaSrc struct {
	Fam   string `json:"fam"`
	Recv  string `json:"recv"`
	G     string `json:"g"`
	C     string `json:"c"`
	Shape int    `json:"shape"`
}

func emitSCases(w *CaseWriter) map[string][]string {
	fs := token.NewFileSet()
	pkgs, err := parser.ParseDir(fs, repoPath, func(fi os.FileInfo) bool {
		return !strings.HasSuffix(fi.Name(), "_test.go") && !strings.HasPrefix(fi.Name(), "verif_")
	}, 0)
	if err != nil {
		Die("source shapes: %v", err)
	}
	meth := map[string]map[string]*ast.FuncDecl{}
	for _, p := range pkgs {
		for _, f := range p.Files {
			for _, d := range f.Decls {
				if fd, ok := d.(*ast.FuncDecl); ok {
					if r := recvName(fd); r != "" {
						if meth[r] == nil {
							meth[r] = map[string]*ast.FuncDecl{}
						}
						meth[r][fd.Name.Name] = fd
					}
				}
			}
		}
	}
	var recvs []string
	for r := range meth {
		if iaFamily(r) >= 0 {
			recvs = append(recvs, r)
		}
	}
	sort.Strings(recvs)
	noPair := map[string][]string{}
	for _, r := range recvs {
		fam := iaFamily(r)
		for pid, gc := range iaPairNames {
			g, c := meth[r][gc[0]], meth[r][gc[1]]
			if g == nil || c == nil {
				continue
			}
			sh := iaShape(g, gc[1])
			if sh == 0 && iaText(fs, g.Body) != "" && iaText(fs, g.Body) == iaText(fs, c.Body) {
				sh = 4 // the generic member repeats the text of the concrete one
			}
			w.Add(fmt.Sprintf("CSrc %d %d %d", pid, fam, sh), IaSrc{"S", r, gc[0], gc[1], sh}, "S:"+r+":"+gc[0], true)
			w.Count(fmt.Sprintf("S:%s/%s shape %d", gc[0], gc[1], sh))
		}
		if fam <= 3 {
			for _, g := range iaGenericOnly {
				if meth[r][g] == nil {
					continue
				}
				twin := false
				for n := range meth[r] {
					if isConcreteName(n) && normName(n) == normName(g) {
						twin = true
					}
				}
				if !twin {
					noPair[g] = append(noPair[g], r)
				}
			}
		}
	}
	return noPair
}

const hdrI = "From Coq Require Import ZArith List Bool. Import ListNotations.\nFrom ADV Require Import C11.Model C03.Model C03.ModelM C09.ModelM C09.CorrM C09.ModelI C09.CorrI.\nOpen Scope Z_scope.\n"
const ruleI = "A: accessor / iterator pairs At/AT (value read and a write through the returned scalar), Iterator/ITERATOR and IteratorFrom/ITERATOR_FROM walked to the end with Get resp. GET on every visit, JointIterator/JOINT_ITERATOR of sparse vector and sparse matrix receivers (operand dense, sparse or the receiver itself); containers: dense / sparse vectors of length 0..6, dense / sparse matrices 0..3 x 0..3, values -4..4, sparse positions 1/2 stored non-zero, 1/6 explicitly stored zero; indices -1, 0, n-1, n, n+1 and interior; all nine element types; both members called on identically built worlds, the whole world observed afterwards; non-trivial iff the containers hold at least 2 stored elements. S: source shape (go/ast) of the generic member of every accessor / iterator pair x receiver type against the shape the model assumes. distinct = distinct (type, pair, world, operands)"

func emitICases(o Opts) {
	w := NewCaseWriter(o.Out, "icases", hdrI, "mism", 150)
	w.Type = "icase"
	w.Rule = ruleI
	noPair := emitSCases(w)
	rng := NewRng(o.Seed + 611953)
	nA := 9 * o.N
	if nA > 3000 { // thorough tier: ~450 KB of Coq text in 20 shards
		nA = 3000
	}
	for k := 0; k < nA; k++ {
		genIaCase(rng.Split(), w, k)
	}
	np := map[string]interface{}{}
	for g, rs := range noPair {
		sort.Strings(rs)
		np[g] = map[string]interface{}{"status": "no concrete twin", "receiver_types": len(rs), "example": rs[0]}
	}
	w.Extra["no_pair"] = np
	if err := w.Flush(); err != nil {
		Die("%v", err)
	}
	// the list of generic-only container methods also at top level of the meta file
	mf := filepath.Join(o.Out, "icases.meta.json")
	if b, err := os.ReadFile(mf); err == nil {
		var meta map[string]interface{}
		if json.Unmarshal(b, &meta) == nil {
			meta["no_pair"] = np
			if b2, err := json.MarshalIndent(meta, "", " "); err == nil {
				os.WriteFile(mf, b2, 0644)
			}
		}
	}
}
