// Family M: dense matrix pairs (MaddM/MADDM .. MdivS/MDIVS, Equals/EQUALS, MdotM/MDOTM, Outer/OUTER) and the dense
// matrix/vector products MdotV/MDOTV, VdotM/VDOTM over small integers, all nine element types; replayed by
// coq/C09/CorrM.v against C03.ModelM.step4 (generic member) and C09.ModelM (concrete member).
// CI cases: integer MdotV/MDOTV with products above 2^53 (F-C09-MDOTV-INT).
package main

import (
	"fmt"
	"reflect"

	. "adharness/common"

	ad "github.com/pbenner/autodiff"
)

type MMat struct {
	Xs   []int64 `json:"xs"`
	R, C int
}
type MCaseRaw struct {
	Fam  string    `json:"fam"`
	Type string    `json:"type"`
	Mats []MMat    `json:"mats"`
	Vecs [][]int64 `json:"vecs"`
	G    string    `json:"g"`
	R    int       `json:"r"`
	A    int       `json:"a"`
	B    int       `json:"b"`
	X    int64     `json:"x"`
}
type mPairDef struct {
	G, C string
	Kind string // mm (r a b matrices) | ms (r a matrices, scalar) | eq | dot | outer | mv | vm
}

var mPairs = []mPairDef{
	{"MaddM", "MADDM", "mm"}, {"MsubM", "MSUBM", "mm"}, {"MmulM", "MMULM", "mm"}, {"MdivM", "MDIVM", "mm"},
	{"MaddS", "MADDS", "ms"}, {"MsubS", "MSUBS", "ms"}, {"MmulS", "MMULS", "ms"}, {"MdivS", "MDIVS", "ms"},
	{"Equals", "EQUALS", "eq"}, {"MdotM", "MDOTM", "dot"}, {"Outer", "OUTER", "outer"},
	{"MdotV", "MDOTV", "mv"}, {"VdotM", "VDOTM", "vm"},
}

func buildMat(t string, m MMat) ad.Matrix {
	x := ad.NullDenseMatrix(scalarType(t), m.R, m.C)
	for i := 0; i < m.R; i++ {
		for j := 0; j < m.C; j++ {
			if isInt(t) {
				x.At(i, j).SetInt64(m.Xs[i*m.C+j])
			} else {
				x.At(i, j).SetFloat64(float64(m.Xs[i*m.C+j]))
			}
		}
	}
	return x
}
func readM(m ad.Matrix, i, j int) (x int64) {
	defer func() {
		if r := recover(); r != nil {
			x = C_PANIC
		}
	}()
	return code(m.ConstAt(i, j).GetFloat64())
}

func runM(c MCaseRaw, d mPairDef, conc bool) (kind int64, payload []int64, hash int64) {
	var ms []ad.Matrix
	var vs []ad.Vector
	for _, m := range c.Mats {
		ms = append(ms, buildMat(c.Type, m))
	}
	for _, v := range c.Vecs {
		vs = append(vs, newDense(c.Type, v))
	}
	payload = []int64{}
	name := d.G
	if conc {
		name = d.C
	}
	var recv reflect.Value
	var in []reflect.Value
	switch d.Kind {
	case "mm", "dot":
		recv = reflect.ValueOf(ms[c.R])
		in = []reflect.Value{reflect.ValueOf(ms[c.A]), reflect.ValueOf(ms[c.B])}
	case "ms":
		recv = reflect.ValueOf(ms[c.R])
		in = []reflect.Value{reflect.ValueOf(ms[c.A]), reflect.ValueOf(ad.NewScalar(scalarType(c.Type), float64(c.X)))}
	case "eq":
		recv = reflect.ValueOf(ms[c.A])
		in = []reflect.Value{reflect.ValueOf(ms[c.B]), reflect.ValueOf(float64(c.X) / 2)}
	case "outer":
		recv = reflect.ValueOf(ms[c.R])
		in = []reflect.Value{reflect.ValueOf(vs[c.A]), reflect.ValueOf(vs[c.B])}
	case "mv":
		recv = reflect.ValueOf(vs[c.R])
		in = []reflect.Value{reflect.ValueOf(ms[c.A]), reflect.ValueOf(vs[c.B])}
	case "vm":
		recv = reflect.ValueOf(vs[c.R])
		in = []reflect.Value{reflect.ValueOf(vs[c.A]), reflect.ValueOf(ms[c.B])}
	}
	m := recv.MethodByName(name)
	func() {
		defer func() {
			if r := recover(); r != nil {
				kind = K_PANIC
				payload = []int64{}
			}
		}()
		rets := m.Call(in)
		if d.Kind == "eq" {
			if rets[0].Bool() {
				payload = append(payload, 1)
			} else {
				payload = append(payload, 0)
			}
		}
	}()
	// obs4: obs3 (no sparse vectors) ++ [SEP;SEP] ++ (no sparse matrices) ++ [SEP] ++ dense matrices
	h := int64(17)
	h = hashList(h, []int64{SEP, SEP})
	for _, v := range vs {
		h = hashList(h, observeVec(v, false).Flat)
	}
	h = hashList(h, []int64{SEP, SEP, SEP})
	for k, x := range ms {
		r, cc := c.Mats[k].R, c.Mats[k].C
		f := []int64{int64(r), int64(cc), SEP}
		for i := 0; i < r; i++ {
			for j := 0; j < cc; j++ {
				f = append(f, readM(x, i, j))
			}
		}
		f = append(f, SEP)
		h = hashList(h, f)
	}
	hash = h
	return
}

func smallList(r *Rng, n int, lo, hi int) []int64 {
	l := make([]int64, n)
	for i := range l {
		if r.Intn(4) == 0 {
			continue
		}
		l[i] = int64(r.Range(lo, hi))
	}
	return l
}

func genMCase(r *Rng, w *CaseWriter, k int) {
	t := typeNames[k%len(typeNames)]
	d := mPairs[(k/len(typeNames))%len(mPairs)]
	n, m, q := r.Range(0, 3), r.Range(0, 3), r.Range(0, 3)
	if r.Intn(5) > 0 {
		if n == 0 {
			n = 1 + r.Intn(3)
		}
		if m == 0 {
			m = 1 + r.Intn(3)
		}
		if q == 0 {
			q = 1 + r.Intn(3)
		}
	}
	c := MCaseRaw{Fam: "M", Type: t, G: d.G}
	div := in(d.G, "MdivM", "MdivS")
	addMat := func(rows, cols int, role string) int {
		xs := smallList(r, rows*cols, -4, 4)
		switch {
		case role == "divisor":
			for i := range xs {
				xs[i] = []int64{1, -1, 2, -2, 3, 0}[r.Intn(6)]
			}
		case div:
			for i := range xs {
				xs[i] *= 6
			}
		}
		c.Mats = append(c.Mats, MMat{xs, rows, cols})
		return len(c.Mats) - 1
	}
	addVec := func(n int) int {
		c.Vecs = append(c.Vecs, smallList(r, n, -4, 4))
		return len(c.Vecs) - 1
	}
	mis := func(x int) int { // occasional dimension mismatch
		if r.Intn(14) == 0 {
			return x + 1
		}
		return x
	}
	alias := func() bool { return r.Intn(4) == 0 }
	aliased := false
	switch d.Kind {
	case "mm":
		c.R = addMat(n, m, "")
		c.A, c.B = -1, -1
		if alias() && !div {
			c.A, aliased = c.R, true
		}
		if alias() && !div {
			c.B, aliased = c.R, true
		}
		if c.A < 0 {
			c.A = addMat(mis(n), m, "")
		}
		if c.B < 0 {
			if alias() && !div && c.A != c.R {
				c.B, aliased = c.A, true
			} else {
				c.B = addMat(n, mis(m), map[bool]string{true: "divisor", false: ""}[div])
			}
		}
	case "ms":
		c.R = addMat(n, m, "")
		if alias() {
			c.A, aliased = c.R, true
		} else {
			c.A = addMat(mis(n), m, "")
		}
		c.X = []int64{1, -1, 2, -2, 3, 0, 0}[r.Intn(7)]
		if !div && c.X == 0 && r.Bool() {
			c.X = 4
		}
	case "eq":
		c.A = addMat(n, m, "")
		if alias() {
			c.B, aliased = c.A, true
		} else {
			c.B = addMat(mis(n), m, "")
			if r.Bool() && c.Mats[c.B].R == n {
				xs := append([]int64{}, c.Mats[c.A].Xs...)
				if len(xs) > 0 && r.Bool() {
					xs[r.Intn(len(xs))] += int64(r.Range(-2, 2))
				}
				c.Mats[c.B].Xs = xs
			}
		}
		c.X = []int64{1, 2, 5, 40}[r.Intn(4)]
	case "dot":
		// r (n x m) = a (n x q) . b (q x m); square shapes allow r = a, r = b, a = b
		if r.Intn(2) == 0 {
			m, q = n, n
		}
		alias = func() bool { return r.Intn(2) == 0 }
		c.R = addMat(n, m, "")
		c.A, c.B = -1, -1
		if n == m && m == q && alias() {
			c.A, aliased = c.R, true
		}
		if n == m && m == q && alias() { // r = b, also with a = r (r = a = b: column buffers computed from overwritten columns, F-MDOTM-RR)
			c.B, aliased = c.R, true
		}
		if c.A < 0 {
			c.A = addMat(n, mis(q), "")
		}
		if c.B < 0 {
			if n == q && q == m && alias() && c.A != c.R {
				c.B, aliased = c.A, true
			} else {
				c.B = addMat(q, mis(m), "")
			}
		}
	case "outer":
		c.R = addMat(n, m, "")
		c.A = addVec(mis(n))
		if n == m && alias() {
			c.B, aliased = c.A, true
		} else {
			c.B = addVec(m)
		}
	case "mv":
		c.A = addMat(n, m, "")
		c.R = addVec(mis(n))
		if n == m && r.Intn(8) == 0 {
			c.B, aliased = c.R, true
		} else {
			c.B = addVec(m)
		}
	case "vm":
		c.B = addMat(n, m, "")
		c.R = addVec(mis(m))
		if n == m && r.Intn(8) == 0 {
			c.A, aliased = c.R, true
		} else {
			c.A = addVec(n)
		}
	}
	gk, gp, gh := runM(c, d, false)
	ck, cp, ch := runM(c, d, true)
	var ops []string
	for _, mm := range c.Mats {
		ops = append(ops, fmt.Sprintf("NewDM %s %d %d", ZList(mm.Xs), mm.R, mm.C))
	}
	for _, v := range c.Vecs {
		ops = append(ops, fmt.Sprintf("V (NewD %s)", ZList(v)))
	}
	var pair string
	switch d.Kind {
	case "mm":
		if d.G == "MdivM" {
			pair = fmt.Sprintf("MPdivM %d %d %d", c.R, c.A, c.B)
		} else {
			pair = fmt.Sprintf("MPopM %s %d %d %d", map[string]string{"MaddM": "Add", "MsubM": "Sub", "MmulM": "Mul"}[d.G], c.R, c.A, c.B)
		}
	case "ms":
		pair = fmt.Sprintf("MP%s %d %d %s", map[string]string{"MaddS": "addS", "MsubS": "subS", "MmulS": "mulS", "MdivS": "divS"}[d.G], c.R, c.A, Z(c.X))
	case "eq":
		pair = fmt.Sprintf("MPequals %d %d %s", c.A, c.B, Z(c.X))
	case "dot":
		pair = fmt.Sprintf("MPdotM %d %d %d", c.R, c.A, c.B)
	case "outer":
		pair = fmt.Sprintf("MPouter %d %d %d", c.R, c.A, c.B)
	case "mv":
		pair = fmt.Sprintf("MPdotV %d %d %d", c.R, c.A, c.B)
	case "vm":
		pair = fmt.Sprintf("MPVdotM %d %d %d", c.R, c.A, c.B)
	}
	coq := fmt.Sprintf("CM %s %s (%s) (%s, %s, %s) (%s, %s, %s)", coqTy(t), List(ops), pair,
		Z(gk), ZList(gp), Z(gh), Z(ck), ZList(cp), Z(ch))
	key := fmt.Sprintf("M:%s:%s:%v:%v:%d%d%d:%d", t, d.G, c.Mats, c.Vecs, c.R, c.A, c.B, c.X)
	w.Add(coq, c, key, n*m >= 2)
	w.Count("M:" + d.G + "/" + d.C)
	w.Count("M:type:" + t)
	if aliased {
		w.Count("M:aliased")
	}
	if gk != 0 || ck != 0 {
		w.Count("M:outcome:panic")
	}
	if gk != ck || gh != ch || fmt.Sprint(gp) != fmt.Sprint(cp) {
		w.Count("M:go-generic-differs-from-go-concrete")
	}
}

// CI: integer MdotV / MDOTV on large values
type ICaseRaw struct {
	Fam  string  `json:"fam"`
	Type string  `json:"type"`
	N, M int
	A, B []int64
}

var bigPool = []int64{94906267, -94906267, 3037000500, 1 << 31, (1 << 53) + 1, -(1 << 53) - 1, 1 << 40, 3, -1, 0, 1, 67108865, 134217729, (1 << 62) + 1}

func genICase(r *Rng, w *CaseWriter, k int) {
	t := []string{"int", "int64"}[k%2]
	n, m := 1+r.Intn(2), 1+r.Intn(3)
	c := ICaseRaw{Fam: "I", Type: t, N: n, M: m}
	for i := 0; i < n*m; i++ {
		c.A = append(c.A, bigPool[r.Intn(len(bigPool))])
	}
	for j := 0; j < m; j++ {
		c.B = append(c.B, bigPool[r.Intn(len(bigPool))])
	}
	if k == 0 {
		c = ICaseRaw{Fam: "I", Type: t, N: 1, M: 1, A: []int64{94906267}, B: []int64{94906267}}
	}
	run := func(conc bool) []int64 {
		a := buildMatBig(t, c.A, c.N, c.M)
		var b, rv ad.Vector
		if t == "int" {
			b, rv = ad.NewDenseIntVector(ints(c.B)), ad.NullDenseIntVector(c.N)
		} else {
			b, rv = ad.NewDenseInt64Vector(append([]int64{}, c.B...)), ad.NullDenseInt64Vector(c.N)
		}
		name := "MdotV"
		if conc {
			name = "MDOTV"
		}
		reflect.ValueOf(rv).MethodByName(name).Call([]reflect.Value{reflect.ValueOf(a), reflect.ValueOf(b)})
		var out []int64
		for i := 0; i < c.N; i++ {
			out = append(out, rv.ConstAt(i).GetInt64())
		}
		return out
	}
	g, cc := run(false), run(true)
	coq := fmt.Sprintf("CI %d %d %s %s %s %s", c.N, c.M, ZList(c.A), ZList(c.B), ZList(g), ZList(cc))
	w.Add(coq, c, fmt.Sprintf("I:%s:%v:%v", t, c.A, c.B), true)
	w.Count("I:MdotV/MDOTV big integers")
	if fmt.Sprint(g) != fmt.Sprint(cc) {
		w.Count("I:go-generic-differs-from-go-concrete (F-C09-MDOTV-INT)")
	}
}
func buildMatBig(t string, xs []int64, n, m int) ad.Matrix {
	x := ad.NullDenseMatrix(scalarType(t), n, m)
	for i := 0; i < n; i++ {
		for j := 0; j < m; j++ {
			x.At(i, j).SetInt64(xs[i*m+j])
		}
	}
	return x
}

const hdrM = "From Coq Require Import ZArith List Bool. Import ListNotations.\nFrom ADV Require Import C11.Model C03.Model C03.ModelM C09.ModelM C09.CorrM.\nOpen Scope Z_scope.\n"
const ruleM = "M: dense matrix pairs (MaddM..MdivS, Equals, MdotM, Outer) and MdotV/VdotM on dense operands of all nine element types, shapes 0..3 x 0..3 (1 in 14 operands with a dimension mismatch), values -4..4 with 1 in 4 zero (dividends multiples of 6, divisors 1,-1,2,-2,3,0), receiver = operand and operand = operand aliasing in 1 of 4 slots (MdotM on square shapes: r = a, r = b, a = b); non-trivial iff the receiver has at least 2 elements. I: MdotV/MDOTV of Int/Int64 with values whose products exceed 2^53. distinct = distinct (type, pair, world, handles)"

func emitMCases(o Opts) {
	w := NewCaseWriter(o.Out, "mcases", hdrM, "mism", 120)
	w.Type = "mcase"
	w.Rule = ruleM
	rng := NewRng(o.Seed + 104729)
	nM := 14 * o.N
	for k := 0; k < nM; k++ {
		genMCase(rng.Split(), w, k)
	}
	for k := 0; k < o.N/2; k++ {
		genICase(rng.Split(), w, k)
	}
	if err := w.Flush(); err != nil {
		Die("%v", err)
	}
}
