// C09 engine: the property's own observable on the implementation.
// For every receiver type and every (generic, CONCRETE) method pair found by
// reflection on the type's method set, build receiver and operands from a
// declarative spec, call the generic method on one copy and the concrete
// method on an identically built second copy (same aliasing), and compare
// the full results: panic / return value / receiver / every operand
// (operands are mutated by the sparse iterators' skip()).
package main

import (
	"fmt"
	"math"
	"reflect"
	"sort"
	"strings"

	ad "github.com/pbenner/autodiff"
)

var typeNames = []string{"float64", "int", "real64", "float32", "real32", "int64", "int32", "int16", "int8"}

func scalarType(name string) ad.ScalarType {
	switch name {
	case "float64":
		return ad.Float64Type
	case "float32":
		return ad.Float32Type
	case "int":
		return ad.IntType
	case "int8":
		return ad.Int8Type
	case "int16":
		return ad.Int16Type
	case "int32":
		return ad.Int32Type
	case "int64":
		return ad.Int64Type
	case "real32":
		return ad.Real32Type
	case "real64":
		return ad.Real64Type
	}
	panic("unknown element type " + name)
}
func isReal(t string) bool  { return t == "real64" || t == "real32" }
func isFloat(t string) bool { return t == "float64" || t == "float32" }
func isInt(t string) bool   { return !isReal(t) && !isFloat(t) }

// ---------------------------------------------------------------- specs

// ESpec: one element / scalar. P = stored (sparse containers); O, N, D, H only for Real types.
type ESpec struct {
	V JF     `json:"v"`
	P bool   `json:"p"`
	O int    `json:"o,omitempty"`
	N int    `json:"n,omitempty"`
	D []JF   `json:"d,omitempty"`
	H [][]JF `json:"h,omitempty"`
}

// OSpec: an object. K: scalar | dvec | svec | dmat | smat | f64 | int
type OSpec struct {
	K   string  `json:"k"`
	Rows int    `json:"rows,omitempty"`
	Cols int    `json:"cols,omitempty"`
	E   []ESpec `json:"e,omitempty"`
	F   JF      `json:"f,omitempty"` // float64 argument
	I   int     `json:"i,omitempty"` // int argument
	// View (dmat / smat only): the object is parent.Slice(RO, RO+sr, CO, CO+sc), transposed when T, of a PR x PC parent
	// whose PR*PC elements are E (row-major); Rows x Cols are the dimensions of the object handed to the method
	// (sr, sc = Rows, Cols, swapped when T).  The parent is dumped after the call as well (cells outside the view).
	View *VSpec `json:"view,omitempty"`
}

// VSpec: a SLICE view (optionally transposed) of a parent matrix
type VSpec struct {
	PR int  `json:"pr"`
	PC int  `json:"pc"`
	RO int  `json:"ro"`
	CO int  `json:"co"`
	T  bool `json:"t,omitempty"`
}

// viewParents: the parents of the views built since the last reset (runCase dumps them after the call)
var viewParents []ad.Matrix

func buildView(t string, o OSpec) interface{} {
	v := o.View
	p := o
	p.View = nil
	p.Rows, p.Cols = v.PR, v.PC
	parent := build(t, p).(ad.Matrix)
	viewParents = append(viewParents, parent)
	sr, sc := o.Rows, o.Cols
	if v.T {
		sr, sc = sc, sr
	}
	m := parent.Slice(v.RO, v.RO+sr, v.CO, v.CO+sc)
	if v.T {
		m = m.T()
	}
	return m
}

// PCase: one pair evaluation. Alias[i] = -1 fresh object, 0 = the receiver, k>0 = argument k-1.
// Elem (optional): Elem[i] = e >= 0 makes scalar argument i a REFERENCE into the storage of the container
// Alias[i] names (0 = the receiver, k>0 = argument k-1, which must precede i): owner.At(e) of a vector,
// owner.At(e / cols, e % cols) of a matrix — r.VMULS(a, r.AT(e)); on a sparse owner At creates the entry
// when it is absent (in both copies alike).  Args[i] then only documents the element's specification.
type PCase struct {
	Type  string  `json:"type"`
	Kind  string  `json:"kind"`
	G     string  `json:"g"`
	C     string  `json:"c"`
	Recv  OSpec   `json:"recv"`
	Args  []OSpec `json:"args"`
	Alias []int   `json:"alias"`
	Elem  []int   `json:"elem,omitempty"`
}

// elemRef: is argument i a reference to an element of another object of the case
func (c PCase) elemRef(i int) (owner int, e int, ok bool) {
	if i < len(c.Elem) && c.Elem[i] >= 0 && i < len(c.Alias) && c.Alias[i] >= 0 && c.Alias[i] <= i {
		return c.Alias[i], c.Elem[i], true
	}
	return 0, 0, false
}

// ownerSpec: the specification of object o (0 = the receiver, k>0 = argument k-1) with object aliasing resolved
func (c PCase) ownerSpec(o int) OSpec {
	for g := 0; g < 8 && o > 0; g++ {
		if _, _, isElem := c.elemRef(o - 1); isElem || c.Alias[o-1] < 0 {
			return c.Args[o-1]
		}
		o = c.Alias[o-1]
	}
	return c.Recv
}

// elemOf: owner.At(e) / owner.At(e / cols, e % cols): the library's own reference to the element
func elemOf(owner interface{}, e int) interface{} {
	switch x := owner.(type) {
	case ad.Vector:
		return x.At(e)
	case ad.Matrix:
		_, cols := x.Dims()
		return x.At(e/cols, e%cols)
	}
	panic("elemOf: owner is neither a vector nor a matrix")
}

func setElem(s ad.Scalar, e ESpec, t string) {
	switch x := s.(type) {
	case *ad.Real64:
		x.Value = float64(e.V)
		x.Order, x.N = e.O, e.N
		x.Derivative, x.Hessian = nil, nil
		if e.O >= 1 {
			x.Derivative = make([]float64, e.N)
			for i := range e.D {
				x.Derivative[i] = float64(e.D[i])
			}
		}
		if e.O >= 2 {
			x.Hessian = make([][]float64, e.N)
			for i := range x.Hessian {
				x.Hessian[i] = make([]float64, e.N)
				for j := range x.Hessian[i] {
					x.Hessian[i][j] = float64(e.H[i][j])
				}
			}
		}
	case *ad.Real32:
		x.Value = float32(e.V)
		x.Order, x.N = e.O, e.N
		x.Derivative, x.Hessian = nil, nil
		if e.O >= 1 {
			x.Derivative = make([]float32, e.N)
			for i := range e.D {
				x.Derivative[i] = float32(e.D[i])
			}
		}
		if e.O >= 2 {
			x.Hessian = make([][]float32, e.N)
			for i := range x.Hessian {
				x.Hessian[i] = make([]float32, e.N)
				for j := range x.Hessian[i] {
					x.Hessian[i][j] = float32(e.H[i][j])
				}
			}
		}
	default:
		if isInt(t) {
			s.SetInt64(int64(e.V))
		} else {
			s.SetFloat64(float64(e.V))
		}
	}
}

func build(t string, o OSpec) interface{} {
	st := scalarType(t)
	if o.View != nil && (o.K == "dmat" || o.K == "smat") {
		return buildView(t, o)
	}
	switch o.K {
	case "scalar":
		s := ad.NullScalar(st)
		setElem(s, o.E[0], t)
		return s
	case "dvec":
		v := ad.NullDenseVector(st, o.Rows)
		for i := 0; i < o.Rows; i++ {
			setElem(v.At(i), o.E[i], t)
		}
		return v
	case "svec":
		v := ad.NullSparseVector(st, o.Rows)
		for i := 0; i < o.Rows; i++ {
			if o.E[i].P {
				setElem(v.At(i), o.E[i], t)
			}
		}
		return v
	case "dmat":
		m := ad.NullDenseMatrix(st, o.Rows, o.Cols)
		for i := 0; i < o.Rows; i++ {
			for j := 0; j < o.Cols; j++ {
				setElem(m.At(i, j), o.E[i*o.Cols+j], t)
			}
		}
		return m
	case "smat":
		m := ad.NullSparseMatrix(st, o.Rows, o.Cols)
		for i := 0; i < o.Rows; i++ {
			for j := 0; j < o.Cols; j++ {
				if o.E[i*o.Cols+j].P {
					setElem(m.At(i, j), o.E[i*o.Cols+j], t)
				}
			}
		}
		return m
	case "f64":
		return float64(o.F)
	case "int":
		return o.I
	}
	panic("build: unknown kind " + o.K)
}

// ---------------------------------------------------------------- dumps

// Tok: one token of a dump; floats are compared bit-exactly (NaN = NaN) and, separately, numerically.
type Tok struct {
	S    string
	F    float64
	IsF  bool
	Meta bool // Order / N of a magic scalar: representation, not a derivative value
}

func ts(s string) Tok      { return Tok{S: s} }
func tf(x float64) Tok     { return Tok{F: x, IsF: true} }
func ti(i int) Tok         { return Tok{S: fmt.Sprint(i)} }
func tm(i int) Tok         { return Tok{S: fmt.Sprint(i), Meta: true} }
func (t Tok) String() string {
	if t.IsF {
		if math.IsNaN(t.F) {
			return "nan"
		}
		return fmt.Sprintf("%x", t.F)
	}
	return t.S
}
func toksString(l []Tok) string {
	s := make([]string, len(l))
	for i, t := range l {
		s[i] = t.String()
	}
	return strings.Join(s, " ")
}

// cmpToks: 0 equal, 1 equal up to the sign of zeros, 2 different
func cmpToks(a, b []Tok) int { return cmpToksM(a, b, false) }

// cmpToksM with ignoreMeta: Order/N tokens are not compared (the guarded derivative getters still are)
func cmpToksM(a, b []Tok, ignoreMeta bool) int {
	if len(a) != len(b) {
		return 2
	}
	r := 0
	for i := range a {
		x, y := a[i], b[i]
		if ignoreMeta && x.Meta && y.Meta {
			continue
		}
		if x.IsF != y.IsF {
			return 2
		}
		if !x.IsF {
			if x.S != y.S {
				return 2
			}
			continue
		}
		if math.IsNaN(x.F) || math.IsNaN(y.F) {
			if !(math.IsNaN(x.F) && math.IsNaN(y.F)) {
				return 2
			}
			continue
		}
		if math.Float64bits(x.F) == math.Float64bits(y.F) {
			continue
		}
		if x.F == 0 && y.F == 0 {
			r = 1
			continue
		}
		return 2
	}
	return r
}

// dumpDerivs: the guarded getters over a fixed 0..dK-1 window (0 beyond N / above Order), so that two
// scalars with different Order/N but the same derivative VALUES give the same tokens; N > dK: raw too
const dK = 3

func dumpDerivs(order, n int, gd func(int) float64, gh func(int, int) float64) (out []Tok) {
	for i := 0; i < dK; i++ {
		if order >= 1 && i < n {
			out = append(out, tf(gd(i)))
		} else {
			out = append(out, tf(0))
		}
	}
	for i := 0; i < dK; i++ {
		for j := 0; j < dK; j++ {
			if order >= 2 && i < n && j < n {
				out = append(out, tf(gh(i, j)))
			} else {
				out = append(out, tf(0))
			}
		}
	}
	if n > dK {
		out = append(out, ts("N>dK"))
		for i := dK; i < n && order >= 1; i++ {
			out = append(out, tf(gd(i)))
		}
	}
	return
}

func dumpScalar(s ad.ConstScalar) (out []Tok) {
	if s == nil || (reflect.ValueOf(s).Kind() == reflect.Ptr && reflect.ValueOf(s).IsNil()) {
		return []Tok{ts("nil")}
	}
	defer func() {
		if r := recover(); r != nil {
			out = []Tok{ts("unreadable-scalar")}
		}
	}()
	switch x := s.(type) {
	case *ad.Real64:
		out = append(out, ts("R"), tf(x.Value), tm(x.Order), tm(x.N))
		out = append(out, dumpDerivs(x.Order, x.N, func(i int) float64 { return x.GetDerivative(i) },
			func(i, j int) float64 { return x.GetHessian(i, j) })...)
		return
	case *ad.Real32:
		out = append(out, ts("R"), tf(float64(x.Value)), tm(x.Order), tm(x.N))
		out = append(out, dumpDerivs(x.Order, x.N, func(i int) float64 { return x.GetDerivative(i) },
			func(i, j int) float64 { return x.GetHessian(i, j) })...)
		return
	}
	tn := reflect.TypeOf(s).Name()
	if strings.Contains(tn, "Int") {
		return []Tok{ts("I"), ts(fmt.Sprint(s.GetInt64()))}
	}
	return []Tok{ts("F"), tf(s.GetFloat64())}
}

// dumpElem: an element of a container; an absent entry of a container of magic scalars (read as the
// constant 0) is printed in the shape of a magic scalar of Order 0
func dumpElem(s ad.ConstScalar, real bool) []Tok {
	if real {
		switch s.(type) {
		case *ad.Real64, *ad.Real32:
		default:
			out := []Tok{ts("R"), tf(s.GetFloat64()), tm(0), tm(0)}
			return append(out, dumpDerivs(0, 0, nil, nil)...)
		}
	}
	return dumpScalar(s)
}
func realElems(et ad.ScalarType) bool { return et == ad.Real64Type || et == ad.Real32Type }

func dumpVector(v ad.ConstVector) (out []Tok) {
	if v == nil || (reflect.ValueOf(v).Kind() == reflect.Ptr && reflect.ValueOf(v).IsNil()) {
		return []Tok{ts("nil")}
	}
	defer func() {
		if r := recover(); r != nil {
			out = append(out, ts("unreadable-vector"))
		}
	}()
	n := v.Dim()
	out = append(out, ts("vec"), ti(n))
	real := realElems(v.ElementType())
	for i := 0; i < n; i++ {
		out = append(out, dumpElem(v.ConstAt(i), real)...)
	}
	st := ad.VerifC11Dump(v)
	if st.Sparse {
		out = append(out, ts("map"))
		es := st.Entries
		sort.Slice(es, func(i, j int) bool { return es[i].Key < es[j].Key })
		for _, e := range es {
			out = append(out, ti(e.Key))
			if e.Nil {
				out = append(out, ts("nilentry"))
			}
		}
		out = append(out, ts("index"))
		for _, k := range st.Index {
			out = append(out, ti(k))
		}
	}
	return
}

func dumpMatrix(m ad.ConstMatrix) (out []Tok) {
	if m == nil || (reflect.ValueOf(m).Kind() == reflect.Ptr && reflect.ValueOf(m).IsNil()) {
		return []Tok{ts("nil")}
	}
	defer func() {
		if r := recover(); r != nil {
			out = append(out, ts("unreadable-matrix"))
		}
	}()
	r, c := m.Dims()
	out = append(out, ts("mat"), ti(r), ti(c))
	for i := 0; i < r; i++ {
		for j := 0; j < c; j++ {
			out = append(out, dumpElem(m.ConstAt(i, j), realElems(m.ElementType()))...)
		}
	}
	if strings.Contains(reflect.TypeOf(m).String(), "Sparse") {
		ks, _, n := ad.VerifC10SparseStorage(m)
		kk := append([]int{}, ks...)
		sort.Ints(kk)
		out = append(out, ts("storage"), ti(n))
		for _, k := range kk {
			out = append(out, ti(k))
		}
	}
	return
}

// drain an iterator object (plain or joint) through reflection; conc selects GET over Get/GetConst
func dumpIterator(it reflect.Value, conc bool) (out []Tok) {
	defer func() {
		if r := recover(); r != nil {
			out = append(out, ts("iterator-panic"))
		}
	}()
	out = append(out, ts("iter"))
	ok := it.MethodByName("Ok")
	next := it.MethodByName("Next")
	index := it.MethodByName("Index")
	getName := "GetConst"
	if !it.MethodByName(getName).IsValid() {
		getName = "Get"
	}
	if conc && it.MethodByName("GET").IsValid() {
		getName = "GET"
	}
	get := it.MethodByName(getName)
	for g := 0; ok.Call(nil)[0].Bool(); g++ {
		if g > 10000 {
			out = append(out, ts("iterator-loop"))
			break
		}
		for _, ix := range index.Call(nil) {
			out = append(out, ti(int(ix.Int())))
		}
		for _, v := range get.Call(nil) {
			out = append(out, dumpAny(v, conc)...)
		}
		next.Call(nil)
	}
	return
}

var (
	tConstScalar = reflect.TypeOf((*ad.ConstScalar)(nil)).Elem()
	tConstVector = reflect.TypeOf((*ad.ConstVector)(nil)).Elem()
	tConstMatrix = reflect.TypeOf((*ad.ConstMatrix)(nil)).Elem()
)

func isNilValue(v reflect.Value) bool {
	switch v.Kind() {
	case reflect.Interface, reflect.Ptr, reflect.Slice, reflect.Map:
		return v.IsNil()
	}
	return false
}

func dumpAny(v reflect.Value, conc bool) []Tok {
	if !v.IsValid() {
		return []Tok{ts("invalid")}
	}
	if v.Kind() == reflect.Interface {
		if v.IsNil() {
			return []Tok{ts("nil")}
		}
		v = v.Elem()
	}
	switch v.Kind() {
	case reflect.Bool:
		return []Tok{ts(fmt.Sprint(v.Bool()))}
	case reflect.Int, reflect.Int8, reflect.Int16, reflect.Int32, reflect.Int64:
		return []Tok{ts(fmt.Sprint(v.Int()))}
	case reflect.Float32, reflect.Float64:
		return []Tok{tf(v.Float())}
	}
	if v.Kind() == reflect.Ptr && v.IsNil() {
		return []Tok{ts("nil")}
	}
	// bare scalar structs with a nil pointer (Float64{}): absent entry
	if v.Kind() == reflect.Struct && v.NumField() == 1 && v.Field(0).Kind() == reflect.Ptr && v.Field(0).IsNil() {
		return []Tok{ts("nil")}
	}
	t := v.Type()
	if t.Implements(tConstMatrix) {
		return dumpMatrix(v.Interface().(ad.ConstMatrix))
	}
	if t.Implements(tConstVector) {
		return dumpVector(v.Interface().(ad.ConstVector))
	}
	if t.Implements(tConstScalar) {
		return dumpScalar(v.Interface().(ad.ConstScalar))
	}
	if v.MethodByName("Ok").IsValid() && v.MethodByName("Next").IsValid() {
		return dumpIterator(v, conc)
	}
	return []Tok{ts("opaque:" + t.String())}
}

// ---------------------------------------------------------------- pair table by reflection

type Pair struct{ G, C string }

func normName(s string) string { return strings.ToUpper(strings.ReplaceAll(s, "_", "")) }
func isConcreteName(s string) bool {
	return len(s) > 1 && s == strings.ToUpper(s) && !strings.HasSuffix(s, "_")
}

// AT_, JOINT_ITERATOR_, JOINT3_ITERATOR_: upper-case VARIANTS with their own semantics (no entry creation,
// typed second iterator whose Ok() ends with the stored entries), not twins of a generic method
func isVariantName(s string) bool {
	return len(s) > 1 && s == strings.ToUpper(s) && strings.HasSuffix(s, "_")
}

// pairsOf: (generic, CONCRETE) method pairs of a type: CONCRETE is all upper case (underscores allowed),
// generic is a mixed-case method whose upper-cased name equals CONCRETE without underscores.
// A trailing underscore (JOINT_ITERATOR_) marks the typed variant and takes precedence.
func pairsOf(t reflect.Type) []Pair {
	up := map[string][]string{}
	lo := map[string]string{}
	for i := 0; i < t.NumMethod(); i++ {
		n := t.Method(i).Name
		if isConcreteName(n) {
			up[normName(n)] = append(up[normName(n)], n)
		} else if !isVariantName(n) {
			lo[normName(n)] = n
		}
	}
	var ps []Pair
	for k, cs := range up {
		g, ok := lo[k]
		if !ok {
			continue
		}
		sort.Strings(cs)
		for _, c := range cs {
			ps = append(ps, Pair{g, c})
		}
	}
	sort.Slice(ps, func(i, j int) bool { return ps[i].C < ps[j].C })
	return ps
}

var kinds = []string{"scalar", "dvec", "svec", "dmat", "smat"}

func sample(t, kind string) interface{} {
	switch kind {
	case "scalar":
		return build(t, OSpec{K: "scalar", E: []ESpec{{}}})
	case "dvec", "svec":
		return build(t, OSpec{K: kind, Rows: 0})
	}
	return build(t, OSpec{K: kind, Rows: 0, Cols: 0})
}

// kindOfType: which (kind) an argument type denotes for element type t
func kindOfType(t string, at reflect.Type) string {
	for _, k := range kinds {
		if reflect.TypeOf(sample(t, k)) == at {
			return k
		}
	}
	switch at.Kind() {
	case reflect.Float64:
		return "f64"
	case reflect.Int:
		return "int"
	}
	return ""
}

// ---------------------------------------------------------------- execution

type Result struct {
	Panic bool
	Msg   string
	Ret   []Tok
	Recv  []Tok
	Args  [][]Tok
	Par   [][]Tok // parents of the views among receiver and operands, in construction order
}

func (r Result) all() []Tok {
	out := []Tok{ts(fmt.Sprint("panic=", r.Panic)), ts("ret")}
	out = append(out, r.Ret...)
	out = append(out, ts("recv"))
	out = append(out, r.Recv...)
	for _, a := range r.Args {
		out = append(out, ts("arg"))
		out = append(out, a...)
	}
	for _, a := range r.Par {
		out = append(out, ts("parent"))
		out = append(out, a...)
	}
	return out
}

func runCase(c PCase, conc bool) (res Result) {
	viewParents = nil
	recv := build(c.Type, c.Recv)
	objs := make([]interface{}, len(c.Args))
	for i, a := range c.Args {
		owner, e, isElem := c.elemRef(i)
		switch {
		case isElem && owner == 0:
			objs[i] = elemOf(recv, e)
		case isElem:
			objs[i] = elemOf(objs[owner-1], e)
		case c.Alias[i] == 0:
			objs[i] = recv
		case c.Alias[i] > 0:
			objs[i] = objs[c.Alias[i]-1]
		default:
			objs[i] = build(c.Type, a)
		}
	}
	name := c.G
	if conc {
		name = c.C
	}
	m := reflect.ValueOf(recv).MethodByName(name)
	if !m.IsValid() {
		res.Panic = true
		res.Msg = "no method " + name
		return
	}
	in := make([]reflect.Value, len(objs))
	for i, o := range objs {
		in[i] = reflect.ValueOf(o)
	}
	var rets []reflect.Value
	func() {
		defer func() {
			if r := recover(); r != nil {
				res.Panic = true
				res.Msg = fmt.Sprint(r)
			}
		}()
		rets = m.Call(in)
	}()
	if !res.Panic {
		for _, rv := range rets {
			res.Ret = append(res.Ret, dumpAny(rv, conc)...)
		}
	}
	res.Recv = dumpAny(reflect.ValueOf(recv), conc)
	for _, o := range objs {
		res.Args = append(res.Args, dumpAny(reflect.ValueOf(o), conc))
	}
	for _, p := range viewParents {
		res.Par = append(res.Par, dumpMatrix(p))
	}
	viewParents = nil
	return
}

// Diff: outcome of one pair evaluation
type Diff struct {
	Finding string `json:"finding"` // id of the known difference this evaluation is an instance of, "" = none
	Case   PCase  `json:"case"`
	Class  int    `json:"class"` // 1 = differs only in the sign of zeros, 2 = differs
	Where  string `json:"where"`
	Gen    string `json:"generic"`
	Conc   string `json:"concrete"`
	Site   string `json:"site"`
}

func where(g, c Result) string {
	if g.Panic != c.Panic {
		return "panic"
	}
	if cmpToks(g.Ret, c.Ret) == 2 {
		return "return"
	}
	if cmpToks(g.Recv, c.Recv) == 2 {
		return "receiver"
	}
	for i := range g.Args {
		if cmpToks(g.Args[i], c.Args[i]) == 2 {
			return fmt.Sprintf("operand%d", i)
		}
	}
	for i := range g.Par {
		if i >= len(c.Par) || cmpToks(g.Par[i], c.Par[i]) == 2 {
			return fmt.Sprintf("parent%d", i)
		}
	}
	return "signzero"
}

// evalPair: run both members; class 0 = agree
func evalPair(c PCase) (int, *Diff, bool) {
	g := runCase(c, false)
	k := runCase(c, true)
	bothPanic := g.Panic && k.Panic
	if bothPanic {
		// a panic leaves the receiver in an unspecified intermediate state in both members: compare the fact only
		return 0, nil, true
	}
	cl := cmpToks(g.all(), k.all())
	if g.Panic != k.Panic {
		cl = 2
	}
	if cl == 0 {
		return 0, nil, false
	}
	d := &Diff{Case: c, Class: cl, Where: where(g, k), Gen: toksString(g.all()), Conc: toksString(k.all()),
		Site: c.Kind + "." + c.G + "/" + c.C}
	if g.Panic {
		d.Gen = "panic: " + g.Msg
	}
	if k.Panic {
		d.Conc = "panic: " + k.Msg
	}
	d.Finding = classify(c, g, k, cl)
	return cl, d, false
}
