// C15 harness, round 7:
//  (a) Mixture.Posterior / Likelihood over component SUBSETS listed in every
//      order (all orderings of all subsets for k <= 3, two non-ascending
//      orders of every subset for k = 4), complementary subsets;
//  (b) observations with exactly zero emission density for a state at an
//      INTERIOR position (n >= 3) of the float64-specialised forward
//      recursion: on fresh work matrices (kinds table / cat) and on work
//      matrices recycled from the previous record (kind bw).
package main

import (
	"fmt"
	"math"

	. "adharness/common"
)

// every ordering of the list s
func perms(s []int) [][]int {
	if len(s) <= 1 {
		return [][]int{append([]int{}, s...)}
	}
	var out [][]int
	for i := range s {
		rest := make([]int, 0, len(s)-1)
		rest = append(rest, s[:i]...)
		rest = append(rest, s[i+1:]...)
		for _, p := range perms(rest) {
			out = append(out, append([]int{s[i]}, p...))
		}
	}
	return out
}

func subsetOf(mask, k int) []int {
	s := []int{}
	for i := 0; i < k; i++ {
		if mask&(1<<uint(i)) != 0 {
			s = append(s, i)
		}
	}
	return s
}

// the complement of a duplicate-free in-range list, in DESCENDING order
func complementDesc(sel []int, k int) []int {
	in := make([]bool, k)
	for _, j := range sel {
		in[j] = true
	}
	s := []int{}
	for j := k - 1; j >= 0; j-- {
		if !in[j] {
			s = append(s, j)
		}
	}
	return s
}

func genMixSub(r *Rng, w *CaseWriter) Case {
	c := genMix(r, NewCaseWriter("", "scratch", "", "mism", 1000))
	k := r.Range(2, 4)
	if len(c.W) != k {
		// regenerate the per-component data for k components
		c.M = k
		c.W = make([]float64, k)
		for i := range c.W {
			c.W[i] = genProb(r, 10)
		}
		if c.Kind == "mixcat" || c.Kind == "mixvec" {
			nsym := len(c.Theta[0])
			c.Theta = make([][]float64, k)
			for ci := range c.Theta {
				c.Theta[ci] = make([]float64, nsym)
				for s := range c.Theta[ci] {
					c.Theta[ci][s] = genProb(r, 15)
				}
			}
		} else {
			c.P = make([]float64, k)
			for i := range c.P {
				c.P[i] = genProb(r, 15) * float64(int(1)<<uint(r.Intn(3)))
			}
		}
	}
	c.Sel = nil
	for mask := 0; mask < 1<<uint(k); mask++ {
		s := subsetOf(mask, k)
		if k <= 3 {
			c.Sel = append(c.Sel, perms(s)...)
			continue
		}
		// k = 4: descending order and one random order
		d := make([]int, len(s))
		for i := range s {
			d[i] = s[len(s)-1-i]
		}
		c.Sel = append(c.Sel, d)
		if len(s) >= 3 {
			ps := perms(s)
			c.Sel = append(c.Sel, ps[1+r.Intn(len(ps)-2)])
		}
	}
	w.Count(fmt.Sprintf("mixsub:components:%d", k))
	w.CountN("mixsub:orderings", len(c.Sel))
	return c
}

// complementary subsets: Posterior(S) + Posterior(complement of S, listed in
// descending order) = 1 on the implementation
func propMixComplement(c Case, obs MObs, total float64) string {
	if !(total > 0) {
		return ""
	}
	k := len(c.W)
	c2 := c
	c2.Sel = nil
	var idx []int
	for q, sel := range c.Sel {
		if !setsOK([][]int{sel}, k) {
			continue
		}
		c2.Sel = append(c2.Sel, complementDesc(sel, k))
		idx = append(idx, q)
	}
	if len(idx) == 0 {
		return ""
	}
	// len(Sel) parity selects the clone in kind mixvec: keep it
	if len(c2.Sel)%2 != len(c.Sel)%2 {
		c2.Sel = append(c2.Sel, []int{})
	}
	o2, err := observeMix(c2)
	if err != nil {
		return "implementation failed on the complementary subsets: " + err.Error()
	}
	for i, q := range idx {
		if o2.PErr[i] {
			return fmt.Sprintf("Posterior(%v) returned an error on valid components", c2.Sel[i])
		}
		s := expv(obs.Post[q]) + expv(o2.Post[i])
		if math.IsNaN(s) || math.Abs(s-1) > 1e-9 {
			return fmt.Sprintf("Posterior(%v) + Posterior(%v) = %g + %g, complementary component subsets must sum to one",
				c.Sel[q], c2.Sel[i], expv(obs.Post[q]), expv(o2.Post[i]))
		}
	}
	return ""
}

func shrinkMix(c Case) Case {
	if propCheck(c) == "" {
		return c
	}
	for _, sel := range c.Sel {
		x := c
		x.Sel = [][]int{sel}
		if c.Kind == "mixvec" && len(c.Sel)%2 == 0 {
			x.Sel = [][]int{sel, {}}
		}
		if propCheck(x) != "" {
			return x
		}
	}
	return c
}

// ---- (b) zero emission density at an interior position

// force, in every sequence of length >= 3, an exactly-zero emission density for
// one emission class at one interior position (the other classes keep a
// positive density there when there is more than one class)
func zeroInterior(r *Rng, c *Case, w *CaseWriter, tag string) {
	for si := range c.Seqs {
		s := &c.Seqs[si]
		if s.N < 3 || len(s.Em) == 0 {
			continue
		}
		nz := r.Range(1, 2)
		for q := 0; q < nz; q++ {
			k := r.Range(1, s.N-2)
			ci := r.Intn(len(s.Em))
			for cj := range s.Em {
				if cj != ci && s.Em[cj][k] == 0 && r.Intn(4) > 0 {
					s.Em[cj][k] = genProb(r, 0)
				}
			}
			s.Em[ci][k] = 0
			w.Count(tag + ":zero-emission-interior")
		}
	}
}

func genHmmZero(r *Rng, w *CaseWriter) Case {
	scratch := NewCaseWriter("", "scratch", "", "mism", 1000)
	for {
		c := genHmm(r, scratch)
		if c.Kind != "table" {
			continue
		}
		ok := false
		for _, s := range c.Seqs {
			if s.N >= 3 {
				ok = true
			}
		}
		if !ok {
			continue
		}
		for si := range c.Seqs {
			c.Seqs[si].Cls = nil
		}
		zeroInterior(r, &c, w, "hmm")
		return c
	}
}

func genBWZero(r *Rng, w *CaseWriter) Case {
	scratch := NewCaseWriter("", "scratch", "", "mism", 1000)
	for {
		c := genBW(r, scratch)
		long := 0
		for _, s := range c.Seqs {
			if s.N >= 3 {
				long++
			}
		}
		if long == 0 {
			continue
		}
		zeroInterior(r, &c, w, "bw")
		return c
	}
}

// ---- exhaustive mixture grid for the hunt: 3 components, weights in {0,1/4,1/2,1}
// (unnormalised), densities in {0,1/2,1}, Posterior / Likelihood on every
// ordering of every component subset

const mixGridTotal = 64 * 27

func mixGridCase(idx int) Case {
	var c Case
	c.Kind = "mixtable"
	c.M = 3
	wv := []float64{0, 0.25, 0.5, 1}
	pv := []float64{0, 0.5, 1}
	c.W = make([]float64, 3)
	c.P = make([]float64, 3)
	for i := 0; i < 3; i++ {
		c.W[i] = wv[idx%4]
		idx /= 4
	}
	for i := 0; i < 3; i++ {
		c.P[i] = pv[idx%3]
		idx /= 3
	}
	for mask := 0; mask < 8; mask++ {
		c.Sel = append(c.Sel, perms(subsetOf(mask, 3))...)
	}
	return c
}
