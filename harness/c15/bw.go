// C15 round 2: forward-backward on REUSED work matrices and one Baum-Welch step.
//
// Case kind "bw": an HMM with emission tables and a data set of several records
// of DIFFERENT lengths, processed on ONE thread in the given order.
//  (1) the hooks VerifC15Float64ForwardBackwardOn / VerifC15ForwardBackwardOn run the
//      float64-specialised and the generic recursion record after record on the
//      SAME pair of matrices (sized for the longest record + 1, pre-filled with a
//      poison value), exactly as baumWelchThread does with tmp.alpha / tmp.beta;
//  (2) generic.BaumWelchAlgorithm (public entry, maxSteps = 1, nil thread pool = one
//      thread) runs one Baum-Welch step, once as is and once with the per-thread
//      work memory poisoned before BaumWelchStep; observed are the error, the
//      likelihood, the expected-count accumulators, the re-estimated Pi / Tr / Tf and
//      the gamma vectors handed to the emission estimators.
package main

import (
	"fmt"
	"math"
	"strings"

	. "adharness/common"

	ad "github.com/pbenner/autodiff"
	"github.com/pbenner/autodiff/statistics/generic"
	tp "github.com/pbenner/threadpool"
)

// ---------------------------------------------------------------- data set

type bwData struct {
	logem [][][]float64 // [record][c][k]
	lens  []int
	offs  []int
	total int
}
type bwRec struct {
	d *bwData
	r int
}

func (r bwRec) MapIndex(k int) int { return r.d.offs[r.r] + k }
func (r bwRec) GetN() int          { return r.d.lens[r.r] }
func (r bwRec) LogPdf(s ad.Scalar, c, k int) error {
	s.SetFloat64(r.d.logem[r.r][c][k])
	return nil
}
func (d *bwData) GetRecord(i int) generic.HmmDataRecord { return bwRec{d, i} }
func (d *bwData) GetNMapped() int                       { return d.total }
func (d *bwData) GetNRecords() int                      { return len(d.lens) }
func (d *bwData) GetN() int                             { return d.total }

func newBwData(c Case) *bwData {
	d := &bwData{}
	for _, s := range c.Seqs {
		le := make([][]float64, len(s.Em))
		for ci := range s.Em {
			le[ci] = make([]float64, s.N)
			for k := 0; k < s.N; k++ {
				le[ci][k] = math.Log(s.Em[ci][k])
			}
		}
		d.logem = append(d.logem, le)
		d.offs = append(d.offs, d.total)
		d.lens = append(d.lens, s.N)
		d.total += s.N
	}
	return d
}

// ---------------------------------------------------------------- Baum-Welch core

type bwCore struct {
	h1, h2 *generic.Hmm
	data   *bwData
	poison bool
	pval   float64
	lik    float64
	err    error
	gamma  [][]float64
	accPi  []float64
	accTr  [][]float64
}

func (c *bwCore) EvaluateLogPdf(p tp.ThreadPool) error { return nil }
func (c *bwCore) GetBasicHmm() generic.BasicHmm       { return nil }
func (c *bwCore) Swap()                                {}
func (c *bwCore) Step(meta ad.ConstVector, tmp []generic.BaumWelchTmp, p tp.ThreadPool) (float64, error) {
	if c.poison {
		generic.VerifC15BaumWelchPoison(tmp, c.pval)
	}
	lik, err := c.h1.BaumWelchStep(c.h1, c.h2, c.data, meta, tmp, p)
	c.lik, c.err = lik, err
	c.accPi, c.accTr = generic.VerifC15BaumWelchAcc(tmp, 0)
	return lik, err
}
func (c *bwCore) Emissions(gamma []ad.DenseFloat64Vector, p tp.ThreadPool) error {
	c.gamma = make([][]float64, len(gamma))
	for i := range gamma {
		c.gamma[i] = append([]float64{}, []float64(gamma[i])...)
	}
	return nil
}

type BwRun struct {
	Err        bool
	Lik        float64
	Pi         []float64
	Tr, Tf     [][]float64
	Gamma      [][]float64
	AccPi      []float64
	AccTr      [][]float64
}
type BwObs struct {
	OA, OB, GA, GB [][][]float64 // per record: columns 0..n-1 [k][i] read after the record was processed
	Plain, Pois    BwRun
}

func nEdists(c Case) int {
	k := 0
	for _, s := range stateMap(c) {
		if s+1 > k {
			k = s + 1
		}
	}
	return k
}

func poisonOf(c Case) float64 {
	if c.Poison%2 == 0 {
		return math.NaN()
	}
	return 1.5 // a large probability (e^1.5) in every stale cell
}

func runBW(c Case, poison bool) (out BwRun, err error) {
	defer func() {
		if r := recover(); r != nil {
			err = fmt.Errorf("panic: %v", r)
		}
	}()
	o, e := build(c)
	if e != nil {
		return out, e
	}
	h := o.g
	m := h.M
	core := &bwCore{h1: h.Clone(), h2: h.Clone(), data: newBwData(c), poison: poison, pval: poisonOf(c)}
	nData := 0
	for _, l := range core.data.lens {
		if l > nData {
			nData = l
		}
	}
	aerr := generic.BaumWelchAlgorithm(core, nil, core.data.GetNRecords(), nData, core.data.GetNMapped(), m, nEdists(c), 0.0, 1, tp.Nil())
	out.Err = aerr != nil
	out.Lik = core.lik
	out.Gamma = core.gamma
	out.AccPi, out.AccTr = core.accPi, core.accTr
	out.Pi = make([]float64, m)
	out.Tr = make([][]float64, m)
	out.Tf = make([][]float64, m)
	for i := 0; i < m; i++ {
		out.Pi[i] = core.h1.Pi.At(i).GetFloat64()
		out.Tr[i] = make([]float64, m)
		out.Tf[i] = make([]float64, m)
		for j := 0; j < m; j++ {
			out.Tr[i][j] = core.h1.Tr.At(i, j).GetFloat64()
			out.Tf[i][j] = core.h1.Tf.At(i, j).GetFloat64()
		}
	}
	return out, nil
}

func observeBW(c Case) (obs BwObs, err error) {
	defer func() {
		if r := recover(); r != nil {
			err = fmt.Errorf("panic: %v", r)
		}
	}()
	o, e := build(c)
	if e != nil {
		return obs, e
	}
	h := o.g
	m := h.M
	d := newBwData(c)
	nmax := 0
	for _, l := range d.lens {
		if l > nmax {
			nmax = l
		}
	}
	pv := poisonOf(c)
	oa := ad.NullDenseFloat64Matrix(m, nmax+1)
	ob := ad.NullDenseFloat64Matrix(m, nmax+1)
	ga := ad.NullDenseMatrix(ad.Float64Type, m, nmax+1)
	gb := ad.NullDenseMatrix(ad.Float64Type, m, nmax+1)
	for i := 0; i < m; i++ {
		for k := 0; k <= nmax; k++ {
			oa.At(i, k).SetFloat64(pv)
			ob.At(i, k).SetFloat64(pv)
			ga.At(i, k).SetFloat64(pv)
			gb.At(i, k).SetFloat64(pv)
		}
	}
	for r := range c.Seqs {
		rec := d.GetRecord(r)
		n := rec.GetN()
		if e := h.VerifC15Float64ForwardBackwardOn(rec, oa, ob); e != nil {
			return obs, e
		}
		if e := h.VerifC15ForwardBackwardOn(rec, ga, gb); e != nil {
			return obs, e
		}
		obs.OA = append(obs.OA, matKI(oa, m, n))
		obs.OB = append(obs.OB, matKI(ob, m, n))
		obs.GA = append(obs.GA, matKI(ga, m, n))
		obs.GB = append(obs.GB, matKI(gb, m, n))
	}
	if obs.Plain, err = runBW(c, false); err != nil {
		return obs, err
	}
	if obs.Pois, err = runBW(c, true); err != nil {
		return obs, err
	}
	return obs, nil
}

func boolC(b bool) string {
	if b {
		return "true"
	}
	return "false"
}

func coqRun(r BwRun) string {
	return fmt.Sprintf("(mkBO %s (%s) %s %s %s %s)", boolC(r.Err), G(r.Lik), GL(r.Pi), GLL(r.Tr), GLL(r.Tf), GLL(r.Gamma))
}

func coqBW(c Case, obs BwObs) string {
	var recs []string
	for r, s := range c.Seqs {
		recs = append(recs, fmt.Sprintf("mkBR %d %s %s %s %s %s", s.N, QLL(s.Em), GLL(obs.OA[r]), GLL(obs.OB[r]), GLL(obs.GA[r]), GLL(obs.GB[r])))
	}
	return fmt.Sprintf("CB (mkB %d %s %s %s %s %s %d\n    [%s]\n    %s\n    %s\n    %s %s)",
		c.M, QL(c.Pi), QLL(c.Tr), NL(stateMap(c)), zl(c.Start), zl(c.Final), nEdists(c),
		strings.Join(recs, ";\n     "), coqRun(obs.Plain), coqRun(obs.Pois), GL(obs.Pois.AccPi), GLL(obs.Pois.AccTr))
}

func coqBrokenBW(c Case) string {
	return fmt.Sprintf("CB (mkB %d [] [] [] [] [] 0 [mkBR 1 [] [] [] [] []] (mkBO false GErr [] [] [] []) (mkBO false GErr [] [] [] []) [] [])", c.M)
}

// ---------------------------------------------------------------- generator

// data sets of 2-4 records of different lengths; the orders long-then-short and
// short-then-long both occur (every generated data set is also emitted reversed)
func genBW(r *Rng, w *CaseWriter) Case {
	var c Case
	c.Kind = "bw"
	m := r.Pick([]int{0, 1, 6, 5})
	c.M = m
	c.Poison = r.Intn(2) // NaN / 1.5
	ne := m
	if m > 1 && r.Intn(3) == 0 {
		ne = r.Range(1, m)
		c.Map = make([]int, m)
		for i := range c.Map {
			c.Map[i] = r.Intn(ne)
		}
		c.Map[r.Intn(m)] = ne - 1
		w.Count("bw:statemap:noninjective")
	}
	pz := []int{0, 10, 25}[r.Intn(3)]
	c.Pi = make([]float64, m)
	for {
		nz := false
		for i := range c.Pi {
			c.Pi[i] = genProb(r, pz)
			nz = nz || c.Pi[i] != 0
		}
		if nz {
			break
		}
	}
	c.Tr = make([][]float64, m)
	for i := range c.Tr {
		c.Tr[i] = make([]float64, m)
		for j := range c.Tr[i] {
			c.Tr[i][j] = genProb(r, pz)
		}
	}
	switch r.Intn(8) {
	case 0:
		c.Start = []int{r.Intn(m)}
		w.Count("bw:start")
	}
	switch r.Intn(10) {
	case 0, 1:
		c.Final = []int{r.Intn(m)}
		w.Count("bw:final:one")
	case 2:
		if m > 1 {
			c.Final = []int{0, 1}
			w.Count("bw:final:two")
		}
	}
	nrec := r.Range(2, 4)
	lens := make([]int, nrec)
	for q := range lens {
		lens[q] = r.Range(1, 5)
	}
	// make sure that two different lengths occur
	if nrec >= 2 && lens[0] == lens[1] {
		lens[0] = 1 + lens[1]%5
	}
	if r.Bool() { // longest record first
		mx := 0
		for q := range lens {
			if lens[q] > lens[mx] {
				mx = q
			}
		}
		lens[0], lens[mx] = lens[mx], lens[0]
	}
	ez := []int{0, 0, 0, 10}[r.Intn(4)]
	for q := 0; q < nrec; q++ {
		var s Seq
		s.N = lens[q]
		s.Em = make([][]float64, ne)
		for ci := range s.Em {
			s.Em[ci] = make([]float64, s.N)
			for k := range s.Em[ci] {
				s.Em[ci][k] = genProb(r, ez)
			}
		}
		c.Seqs = append(c.Seqs, s)
	}
	return c
}

func reversedBW(c Case) Case {
	x := c
	x.Seqs = make([]Seq, len(c.Seqs))
	for i := range c.Seqs {
		x.Seqs[len(c.Seqs)-1-i] = c.Seqs[i]
	}
	return x
}

func countBW(c Case, obs BwObs, w *CaseWriter) bool {
	w.Count("kind:bw")
	w.Count(fmt.Sprintf("bw:states:%d", c.M))
	w.Count(fmt.Sprintf("bw:records:%d", len(c.Seqs)))
	down := false
	for i := 1; i < len(c.Seqs); i++ {
		if c.Seqs[i].N < c.Seqs[i-1].N {
			down = true
		}
	}
	if down {
		w.Count("bw:order:long-then-short")
	} else {
		w.Count("bw:order:non-decreasing")
	}
	if obs.Plain.Err {
		w.Count("bw:outcome:error")
	} else {
		w.Count("bw:outcome:step")
	}
	return down && !obs.Plain.Err && c.M >= 2
}

func emitBW(c Case, w *CaseWriter, key string) {
	obs, err := observeBW(c)
	if err != nil {
		w.Count("outcome:error/bw")
		w.Extra["last_error"] = err.Error()
		w.Add("XC ("+coqBrokenBW(c)+")", c, key, false)
		return
	}
	nontriv := countBW(c, obs, w)
	w.Add("XC ("+coqBW(c, obs)+")", c, key, nontriv)
}

// ---------------------------------------------------------------- property oracle (hunt)

// when set, only the public Baum-Welch path (no hook-poisoned memory) is judged:
// the hunt first looks for a witness that needs no hook at all
var bwPublicOnly = false

// brute-force posterior expectations in float64 probability space
func propCheckBW(c Case) string {
	obs, err := observeBW(c)
	if err != nil {
		return "implementation failed: " + err.Error()
	}
	o, _ := build(c)
	m := c.M
	pi := make([]float64, m)
	tr := make([][]float64, m)
	tf := make([][]float64, m)
	for i := 0; i < m; i++ {
		pi[i] = expv(o.g.Pi.At(i).GetFloat64())
		tr[i] = make([]float64, m)
		tf[i] = make([]float64, m)
		for j := 0; j < m; j++ {
			tr[i][j] = expv(o.g.Tr.At(i, j).GetFloat64())
			tf[i][j] = expv(o.g.Tf.At(i, j).GetFloat64())
		}
	}
	smap := stateMap(c)
	ePi := make([]float64, m)
	eTr := make([][]float64, m)
	for i := range eTr {
		eTr[i] = make([]float64, m)
	}
	lik := 1.0
	zero := false
	totals := make([]float64, len(c.Seqs))
	for r, s := range c.Seqs {
		n := s.N
		b := &brute{m, n, pi, tr, tf, smap, s.Em}
		total := 0.0
		b.each(n, func(p []int) { total += b.weight(p) })
		totals[r] = total
		if total == 0 {
			zero = true
			continue
		}
		lik *= total
		last := n - 1
		if len(c.Final) > 0 {
			last = n - 2
		}
		b.each(n, func(p []int) {
			wt := b.weight(p) / total
			ePi[p[0]] += wt
			for k := 0; k < last; k++ {
				eTr[p[k]][p[k+1]] += wt
			}
		})
	}
	if len(c.Final) > 1 {
		if !obs.Plain.Err {
			return "Baum-Welch accepted a model with more than one final state"
		}
		return ""
	}
	for ri, run := range []BwRun{obs.Plain, obs.Pois} {
		tag := "Baum-Welch step (generic.BaumWelchAlgorithm, one thread): "
		if ri == 1 {
			if bwPublicOnly {
				break
			}
			tag = "Baum-Welch step with poisoned per-thread work memory: "
		}
		if zero {
			if !run.Err {
				return tag + "Baum-Welch step returned no error although a record has likelihood zero"
			}
			continue
		}
		if run.Err {
			return tag + "step failed although every record has positive likelihood"
		}
		if !near(expv(run.Lik), lik) {
			return tag + fmt.Sprintf("likelihood %g, enumeration gives %g", expv(run.Lik), lik)
		}
		for i := 0; i < m; i++ {
			if run.AccPi != nil && !near(expv(run.AccPi[i]), ePi[i]) {
				return tag + fmt.Sprintf("expected initial-state count of state %d = %g, posterior expectation by enumeration %g", i, expv(run.AccPi[i]), ePi[i])
			}
			for j := 0; j < m; j++ {
				if run.AccTr != nil && !near(expv(run.AccTr[i][j]), eTr[i][j]) {
					return tag + fmt.Sprintf("expected transition count %d->%d = %g, posterior expectation by enumeration %g", i, j, expv(run.AccTr[i][j]), eTr[i][j])
				}
			}
		}
		// re-estimated parameters: normalised expected counts
		npi := append([]float64{}, ePi...)
		if len(c.Start) > 0 {
			for i := range npi {
				if !member(i, c.Start) {
					npi[i] = 0
				}
			}
		}
		npi = normVec(npi)
		ntr := normRows(eTr)
		for i := 0; i < m; i++ {
			if !near(expv(run.Pi[i]), npi[i]) {
				return tag + fmt.Sprintf("re-estimated Pi[%d] = %g, normalised expected count %g", i, expv(run.Pi[i]), npi[i])
			}
			for j := 0; j < m; j++ {
				if !near(expv(run.Tr[i][j]), ntr[i][j]) {
					return tag + fmt.Sprintf("re-estimated Tr[%d][%d] = %g, normalised expected count %g", i, j, expv(run.Tr[i][j]), ntr[i][j])
				}
			}
		}
	}
	if bwPublicOnly {
		return ""
	}
	// the recursions on the shared (poisoned, then reused) work matrices
	for r, s := range c.Seqs {
		n := s.N
		b := &brute{m, n, pi, tr, tf, smap, s.Em}
		total := totals[r]
		tag := fmt.Sprintf("record %d (length %d) on work matrices reused from the records before it: ", r, n)
		for k := 0; k < n; k++ {
			al := make([]float64, m)
			b.each(k+1, func(p []int) { al[p[k]] += b.weight(p) })
			for j := 0; j < m; j++ {
				if !near(expv(obs.OA[r][k][j]), al[j]) {
					return tag + fmt.Sprintf("float64-specialised alpha(%d,%d) = %g, enumeration gives %g", j, k, expv(obs.OA[r][k][j]), al[j])
				}
				if !near(expv(obs.GA[r][k][j]), al[j]) {
					return tag + fmt.Sprintf("generic alpha(%d,%d) = %g, enumeration gives %g", j, k, expv(obs.GA[r][k][j]), al[j])
				}
			}
			ab, abg := 0.0, 0.0
			for j := 0; j < m; j++ {
				ab += expv(obs.OA[r][k][j]) * expv(obs.OB[r][k][j])
				abg += expv(obs.GA[r][k][j]) * expv(obs.GB[r][k][j])
			}
			if !(math.Abs(ab-total) <= otol*total) {
				return tag + fmt.Sprintf("float64-specialised forward-backward: sum_i alpha*beta at position %d = %g, likelihood %g", k, ab, total)
			}
			if !(math.Abs(abg-total) <= otol*total) {
				return tag + fmt.Sprintf("generic forward-backward: sum_i alpha*beta at position %d = %g, likelihood %g", k, abg, total)
			}
		}
	}
	return ""
}

func shrinkBW(c Case) Case {
	fails := func(x Case) bool { return propCheckBW(x) != "" }
	// drop records while it still fails
	for changed := true; changed && len(c.Seqs) > 1; {
		changed = false
		for i := range c.Seqs {
			x := c
			x.Seqs = append(append([]Seq{}, c.Seqs[:i]...), c.Seqs[i+1:]...)
			if fails(x) {
				c = x
				changed = true
				break
			}
		}
	}
	for _, f := range []func(x *Case){func(x *Case) { x.Start = nil }, func(x *Case) { x.Final = nil }, func(x *Case) { x.Map = nil }} {
		x := c
		f(&x)
		if x.Map == nil && c.Map != nil {
			continue // emission tables are indexed by class: keep the map
		}
		if fails(x) {
			c = x
		}
	}
	return c
}
