// C15 round 6: the classifier front-ends statistics/vectorClassifier.HmmPosterior (posterior
// probability that the hidden state at each position is one of a list of states) and
// statistics/vectorClassifier.HmmClassifier (the Viterbi path as a vector).  They wrap a
// *vectorDistribution.Hmm, so they are exercised on every case kind that is built through that
// wrapper (cat, chmm/hhmm with categorical emissions, setter histories with categorical
// emissions): for every sequence a few calls Eval(r, x) with
//
//	states   a subset of the states in any order / all states / the empty list / a repeated
//	         state / an index outside [0,m) (panic: p[States[j]])
//	r.Dim()  x.Dim(), sometimes x.Dim()+1 or x.Dim()-1 (error "r has invalid length")
//
// on the classifier itself and (plain cat kind) on its CloneVectorClassifier().
package main

import (
	"fmt"
	"math"
	"strings"

	. "adharness/common"

	ad "github.com/pbenner/autodiff"
	"github.com/pbenner/autodiff/statistics/vectorClassifier"
)

type ClsJ struct {
	States []int `json:"states"`
	Rdim   int   `json:"rdim"`
}

type ClsObs struct {
	States   []int
	Rdim     int
	PostK    int // 0 nil error, 1 error, 2 panic
	Post     []float64
	HasClone bool
	CloneK   int
	Clone    []float64
	VitK     int
	Vit      []float64
}

// one Eval call; the result vector is pre-filled with a poison value
func evalCls(rdim int, f func(r ad.Vector) error) (kind int, out []float64) {
	defer func() {
		if r := recover(); r != nil {
			kind, out = 2, nil
		}
	}()
	v := make([]float64, rdim)
	for i := range v {
		v[i] = 7.5
	}
	r := ad.NewDenseFloat64Vector(v)
	if err := f(r); err != nil {
		return 1, nil
	}
	out = make([]float64, rdim)
	for i := range out {
		out[i] = r.At(i).GetFloat64()
	}
	return 0, out
}

func observeCls(o *hmmObj, c Case, s Seq, cj ClsJ) ClsObs {
	ob := ClsObs{States: cj.States, Rdim: cj.Rdim}
	xv := make([]float64, s.N)
	for k := range xv {
		xv[k] = float64(s.X[k])
	}
	x := ad.NewDenseFloat64Vector(xv)
	pc := vectorClassifier.HmmPosterior{Hmm: o.v, States: cj.States}
	ob.PostK, ob.Post = evalCls(cj.Rdim, func(r ad.Vector) error { return pc.Eval(r, x) })
	if c.Kind == "cat" {
		ob.HasClone = true
		ob.CloneK, ob.Clone = evalCls(cj.Rdim, func(r ad.Vector) error { return pc.CloneVectorClassifier().Eval(r, x) })
	}
	vc := vectorClassifier.HmmClassifier{Hmm: o.v}
	ob.VitK, ob.Vit = evalCls(cj.Rdim, func(r ad.Vector) error { return vc.Eval(r, x) })
	if pc.Dim() != -1 || vc.Dim() != -1 {
		ob.VitK = 3 // Dim() of a sequence classifier is -1
	}
	return ob
}

// a probability (not a log-value) as a Coq gres
func P(v float64) string {
	if math.IsNaN(v) || math.IsInf(v, 0) {
		return "GNaN"
	}
	return "GVal " + Q(v)
}
func kindVals(k int, vs []float64) string {
	s := make([]string, len(vs))
	for i, v := range vs {
		s[i] = P(v)
	}
	return fmt.Sprintf("(%d, %s)", k, List(s))
}

func clsCoq(obs []ClsObs) string {
	out := make([]string, len(obs))
	for i, ob := range obs {
		clone := "None"
		if ob.HasClone {
			clone = "(Some " + kindVals(ob.CloneK, ob.Clone) + ")"
		}
		vk := ob.VitK
		vit := make([]string, len(ob.Vit))
		for j, v := range ob.Vit {
			if v != math.Trunc(v) || math.Abs(v) > 1e9 {
				vk = 3 // not an integer: matches no outcome of the model
				v = 0
			}
			vit[j] = "(" + ZI(int(v)) + ")%Z"
		}
		out[i] = fmt.Sprintf("mkCls %s %d %s %s (%d, %s)", zl(ob.States), ob.Rdim, kindVals(ob.PostK, ob.Post), clone, vk, List(vit))
	}
	return "[" + strings.Join(out, "; ") + "]"
}

// ---------------------------------------------------------------- generator

func genCls(r *Rng, w *CaseWriter, m, n int) []ClsJ {
	k := r.Range(1, 3)
	out := make([]ClsJ, 0, k)
	for q := 0; q < k; q++ {
		var cj ClsJ
		cj.Rdim = n
		switch r.Pick([]int{8, 3, 1, 2, 2}) {
		case 0: // a subset, in any order
			for i := 0; i < m; i++ {
				if r.Bool() {
					cj.States = append(cj.States, i)
				}
			}
			if len(cj.States) == 0 {
				cj.States = []int{r.Intn(m)}
			}
			if len(cj.States) > 1 && r.Bool() {
				l := cj.States
				l[0], l[len(l)-1] = l[len(l)-1], l[0]
			}
			w.Count("cls:subset")
		case 1: // all states: one at every position
			for i := m - 1; i >= 0; i-- {
				cj.States = append(cj.States, i)
			}
			w.Count("cls:all")
		case 2:
			cj.States = []int{}
			w.Count("cls:empty")
		case 3: // a repeated state (the code adds its marginal twice)
			x := r.Intn(m)
			cj.States = []int{x, r.Intn(m), x}
			w.Count("cls:repeated")
		default: // outside [0,m): index panic (unless PosteriorMarginals fails first)
			cj.States = []int{r.Intn(m), []int{m, -1, m + 1}[r.Intn(3)]}
			if r.Bool() {
				cj.States[0], cj.States[1] = cj.States[1], cj.States[0]
			}
			w.Count("cls:invalid-state")
		}
		if r.Intn(8) == 0 {
			cj.Rdim = n + 1 - 2*r.Intn(2)
			if cj.Rdim < 0 {
				cj.Rdim = n + 1
			}
			w.Count("cls:wrong-length")
		}
		out = append(out, cj)
	}
	return out
}

// ---------------------------------------------------------------- property-level oracle (hunt)

// HmmPosterior.Eval against the brute-force marginals marg[k][i] / total of the enumeration,
// HmmClassifier.Eval against the optimum of the enumeration
func propCls(tag string, c Case, s Seq, so SeqObs, b *brute, marg [][]float64, total, best float64) string {
	n, m := s.N, c.M
	for _, ob := range so.Cls {
		valid := true
		seen := map[int]bool{}
		nodup := true
		for _, x := range ob.States {
			if x < 0 || x >= m {
				valid = false
			}
			if seen[x] {
				nodup = false
			}
			seen[x] = true
		}
		what := fmt.Sprintf("HmmPosterior{States: %v}.Eval with r.Dim() = %d, x.Dim() = %d", ob.States, ob.Rdim, n)
		outs := [][2]interface{}{{ob.PostK, ob.Post}}
		if ob.HasClone {
			outs = append(outs, [2]interface{}{ob.CloneK, ob.Clone})
		}
		for oi, o := range outs {
			k, vals := o[0].(int), o[1].([]float64)
			w := what
			if oi == 1 {
				w = "clone of " + what
			}
			switch {
			case ob.Rdim != n:
				if k != 1 {
					return tag + w + ": no error for a result vector of the wrong length"
				}
			case total == 0:
				if k != 1 {
					return tag + w + ": no error although every path has probability zero"
				}
			case !valid && n > 0:
				if k != 2 {
					return tag + w + ": state index outside [0,m) accepted"
				}
			default:
				if k != 0 {
					return tag + w + fmt.Sprintf(": outcome kind %d although the likelihood is positive", k)
				}
				if !nodup {
					continue
				}
				for p := 0; p < n; p++ {
					want := 0.0
					for _, x := range ob.States {
						want += marg[p][x]
					}
					want /= total
					if math.Abs(vals[p]-want) > 1e-9 {
						return tag + w + fmt.Sprintf(": r[%d] = %g, the paths with x_%d in the listed states have posterior probability %g", p, vals[p], p, want)
					}
				}
			}
		}
		whatv := fmt.Sprintf("HmmClassifier.Eval with r.Dim() = %d, x.Dim() = %d", ob.Rdim, n)
		if ob.Rdim != n {
			if ob.VitK != 1 {
				return tag + whatv + ": no error for a result vector of the wrong length"
			}
			continue
		}
		if ob.VitK != 0 {
			return tag + whatv + fmt.Sprintf(": outcome kind %d", ob.VitK)
		}
		path := make([]int, n)
		for p, v := range ob.Vit {
			if v != math.Trunc(v) || v < 0 || v >= float64(m) {
				return tag + whatv + fmt.Sprintf(": r[%d] = %g is not a state", p, v)
			}
			path[p] = int(v)
		}
		if wv := b.weight(path); wv < best*(1-otol) {
			return tag + whatv + fmt.Sprintf(": the path %v written to r has joint probability %g, the best path has %g", path, wv, best)
		}
	}
	return ""
}
