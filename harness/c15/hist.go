// C15 round 5: SETTER HISTORIES.  Case kind "hist": an HMM (generic.Hmm on emission tables, or
// vectorDistribution.Hmm with categorical emissions for Sub "cat") is built by the constructor
// and then driven through a sequence of public calls
//
//	start   SetStartStates(states)           (valid / invalid / empty / {-1})
//	final   SetFinalStates(states)
//	params  SetParameters(log pi ++ log tr)  (different transition parameters, zeros, rows that
//	                                          are stochastic or not: SetParameters stores them raw)
//	clone   obj = obj.Clone()
//
// in any order.  After the constructor and after EVERY call the error flag and the three
// parameter tables Pi, Tr, Tf of the object are observed; after the last call all inference
// routines (LogPdf, ForwardBackward generic + float64, PosteriorMarginals, Posterior, Viterbi)
// run on sequences of every length 1..n.  The Coq side replays the history on the state
// machine of coq/C15/ModelSet.v (exact rationals) and compares every observable; Tf is derived
// state (it must follow the CURRENT Tr and final-state set).
package main

import (
	"bytes"
	"encoding/json"
	"fmt"
	"math"
	"strings"

	. "adharness/common"

	ad "github.com/pbenner/autodiff"
	stat "github.com/pbenner/autodiff/statistics"
)

type OpJ struct {
	Op     string      `json:"op"` // start | final | params | clone | config (round 6: ImportConfig(json(ExportConfig())))
	States []int       `json:"states,omitempty"`
	Pi     []float64   `json:"pi,omitempty"`
	Tr     [][]float64 `json:"tr,omitempty"`
}

type StepObs struct {
	Err    int // 0 nil error, 1 error returned, 2 panic (recovered)
	Pi     []float64
	Tr, Tf [][]float64
}

func snapObj(o *hmmObj, err int) StepObs {
	h := o.g
	m := h.M
	s := StepObs{Err: err, Pi: make([]float64, m)}
	for i := 0; i < m; i++ {
		s.Pi[i] = h.Pi.At(i).GetFloat64()
	}
	s.Tr, s.Tf = snapshot(h.Tr), snapshot(h.Tf)
	return s
}

func logParams(real bool, pi []float64, tr [][]float64) ad.Vector {
	var v []float64
	for _, x := range pi {
		v = append(v, math.Log(x))
	}
	for _, r := range tr {
		for _, x := range r {
			v = append(v, math.Log(x))
		}
	}
	return mkVec(real, v)
}

func buildHist(c Case) (*hmmObj, error) {
	b := c
	b.Kind = "table"
	if c.Sub == "cat" {
		b.Kind = "cat"
	}
	b.Start, b.Final = nil, nil
	return build(b)
}

func applyOp(o *hmmObj, c Case, op OpJ) (kind int) {
	e2k := func(e error) int {
		if e != nil {
			return 1
		}
		return 0
	}
	switch op.Op {
	case "start":
		return e2k(o.g.SetStartStates(op.States))
	case "final":
		return e2k(o.g.SetFinalStates(op.States))
	case "params":
		p := logParams(c.Real, op.Pi, op.Tr)
		if o.v != nil {
			// the wrapper: the HMM part only (no emission parameters follow)
			return e2k(o.v.SetParameters(p))
		}
		return e2k(o.g.SetParameters(p))
	case "clone":
		if o.v != nil {
			v := o.v.Clone()
			o.v, o.g = v, &v.Hmm
		} else {
			o.g = o.g.Clone()
		}
		return 0
	case "config":
		return configRoundTrip(o)
	}
	panic("unknown op " + op.Op)
}

// obj.ImportConfig(json text of obj.ExportConfig(), element type of obj) on the SAME object; a panic
// inside ImportConfig is recovered and reported as outcome kind 2 (the object is then observed as
// the call left it)
func configRoundTrip(o *hmmObj) (kind int) {
	defer func() {
		if r := recover(); r != nil {
			kind = 2
		}
	}()
	var cfg stat.ConfigDistribution
	if o.v != nil {
		cfg = o.v.ExportConfig()
	} else {
		cfg = o.g.ExportConfig()
	}
	var buf bytes.Buffer
	if err := cfg.WriteJson(&buf); err != nil {
		return 3
	}
	var back stat.ConfigDistribution
	if err := back.ReadJson(&buf); err != nil {
		return 3
	}
	t := o.g.ScalarType()
	if o.v != nil {
		if err := o.v.ImportConfig(back, t); err != nil {
			return 1
		}
		return 0
	}
	if err := o.g.ImportConfig(back, t); err != nil {
		return 1
	}
	return 0
}

type HistObs struct {
	Steps []StepObs // after the constructor, after every op
	H     HObs
}

func observeHist(c Case) (obs HistObs, err error) {
	defer func() {
		if r := recover(); r != nil {
			err = fmt.Errorf("panic: %v", r)
		}
	}()
	o, e := buildHist(c)
	if e != nil {
		return obs, e
	}
	obs.Steps = append(obs.Steps, snapObj(o, 0))
	for _, op := range c.Ops {
		er := applyOp(o, c, op)
		obs.Steps = append(obs.Steps, snapObj(o, er))
	}
	obs.H, err = observeObj(o, c)
	return obs, err
}

func coqOp(op OpJ) string {
	switch op.Op {
	case "start":
		return "JStart " + zl(op.States)
	case "final":
		return "JFinal " + zl(op.States)
	case "config":
		return "JConfig"
	case "params":
		return "JParams " + QL(op.Pi) + " " + QLL(op.Tr)
	}
	return "JClone"
}

func coqHist(c Case, obs HistObs) string {
	ops := make([]string, len(c.Ops))
	for i, op := range c.Ops {
		ops[i] = coqOp(op)
	}
	steps := make([]string, len(obs.Steps))
	for i, s := range obs.Steps {
		steps[i] = fmt.Sprintf("(%d, %s, %s, %s)", s.Err, GL(s.Pi), GLL(s.Tr), GLL(s.Tf))
	}
	return fmt.Sprintf("XHist (mkHS %d %s %s %s\n     %s\n     %s\n     %s %s %s\n     %s)",
		c.M, QL(c.Pi), QLL(c.Tr), NL(stateMap(c)), List(ops), "["+strings.Join(steps, ";\n      ")+"]",
		FList(obs.H.Pi), FLL(obs.H.Tr), FLL(obs.H.Tf), seqsCoq(c, obs.H))
}

// ---------------------------------------------------------------- generator

// a probability row of length m: mostly stochastic with dyadic entries (so that the exact
// model and the log-values agree to the last bit but one), zeros with probability pz %
func genRow(r *Rng, m int, pz int, stochastic bool) []float64 {
	row := make([]float64, m)
	if !stochastic {
		for {
			nz := false
			for j := range row {
				row[j] = genProb(r, pz)
				nz = nz || row[j] != 0
			}
			if nz {
				return row
			}
		}
	}
	// distribute 16 sixteenths
	left := 16
	for j := 0; j < m-1; j++ {
		k := 0
		if r.Intn(100) >= pz {
			k = r.Intn(left + 1)
		}
		row[j] = float64(k) / 16
		left -= k
	}
	row[m-1] = float64(left) / 16
	// rotate so that the remainder is not always the last entry
	s := r.Intn(m)
	out := make([]float64, m)
	for j := range row {
		out[(j+s)%m] = row[j]
	}
	return out
}

func genParamsOp(r *Rng, m int) OpJ {
	op := OpJ{Op: "params"}
	pz := []int{0, 20, 40}[r.Intn(3)]
	st := r.Intn(4) > 0
	op.Pi = genRow(r, m, pz, st)
	op.Tr = make([][]float64, m)
	for i := range op.Tr {
		op.Tr[i] = genRow(r, m, pz, st)
	}
	return op
}

func genStatesOp(r *Rng, m int, name string, w *CaseWriter) OpJ {
	op := OpJ{Op: name}
	switch r.Pick([]int{6, 5, 1, 1, 1}) {
	case 0:
		op.States = []int{r.Intn(m)}
	case 1:
		for i := 0; i < m; i++ {
			if r.Bool() {
				op.States = append(op.States, i)
			}
		}
		if len(op.States) == 0 {
			op.States = []int{r.Intn(m)}
		}
		if r.Intn(6) == 0 {
			op.States = append(op.States, op.States[0])
		}
	case 2: // rejected
		op.States = []int{r.Intn(m), []int{m, m + 1, -2}[r.Intn(3)]}
		w.Count("hist:" + name + "-invalid")
	case 3: // no-op
		op.States = []int{}
		w.Count("hist:" + name + "-empty")
	default: // accepted, masks everything
		op.States = []int{-1}
		w.Count("hist:" + name + "-minus1")
	}
	return op
}

// histories aimed at the derived state: the templates put SetParameters after SetFinalStates
// (and after Clone, after a second SetFinalStates, ...); the rest is random
func genHist(r *Rng, w *CaseWriter) Case {
	var c Case
	c.Kind = "hist"
	if r.Intn(4) == 0 {
		c.Sub = "cat"
	}
	c.Real = r.Intn(6) == 0
	m := r.Pick([]int{1, 6, 5, 1}) + 1
	if m == 4 {
		m = 3
	}
	ne := genBase(r, w, &c, m, []int{0, 15, 30}[r.Intn(3)])
	fin := func() OpJ { return genStatesOp(r, m, "final", w) }
	sta := func() OpJ { return genStatesOp(r, m, "start", w) }
	par := func() OpJ { return genParamsOp(r, m) }
	cl := OpJ{Op: "clone"}
	cfg := OpJ{Op: "config"}
	switch t := r.Intn(16); t {
	case 10: // the round trip renormalises what SetParameters stored raw and re-derives Tf
		c.Ops = []OpJ{fin(), par(), cfg}
	case 11: // ... and re-applies the start-state mask that SetParameters dropped
		c.Ops = []OpJ{sta(), par(), cfg, fin()}
	case 12:
		c.Ops = []OpJ{par(), cfg, fin(), par(), cfg}
	case 13: // no mass left in Pi: ImportConfig returns the normalisation error, the object is unchanged
		c.Ops = []OpJ{{Op: "start", States: []int{-1}}, cfg, par(), cfg}
		if r.Bool() {
			c.Ops = append([]OpJ{fin()}, c.Ops...)
		}
	case 14:
		c.Ops = []OpJ{fin(), cfg, cl, par(), cfg}
	case 0:
		c.Ops = []OpJ{fin(), par()}
	case 1:
		c.Ops = []OpJ{fin(), par(), par()}
	case 2:
		c.Ops = []OpJ{par(), fin(), par()}
	case 3:
		c.Ops = []OpJ{fin(), cl, par()}
	case 4:
		c.Ops = []OpJ{sta(), fin(), par(), sta()}
	case 5:
		c.Ops = []OpJ{fin(), par(), fin()}
	case 6:
		c.Ops = []OpJ{par(), cl, fin(), par(), cl}
	default:
		n := r.Range(1, 5)
		for k := 0; k < n; k++ {
			switch r.Pick([]int{3, 2, 4, 1, 2}) {
			case 0:
				c.Ops = append(c.Ops, fin())
			case 1:
				c.Ops = append(c.Ops, sta())
			case 2:
				c.Ops = append(c.Ops, par())
			case 3:
				c.Ops = append(c.Ops, cl)
			default:
				c.Ops = append(c.Ops, cfg)
			}
		}
	}
	w.Count(fmt.Sprintf("hist:ops=%d", len(c.Ops)))
	nsym := r.Range(2, 3)
	if c.Sub == "cat" {
		c.Theta = genTheta(r, ne, nsym)
	}
	// sequences of EVERY length 1..nmax (length 2 = only the final-step matrix is used)
	nmax := r.Pick([]int{0, 0, 3, 4, 2})
	if m == 3 && nmax > 3 {
		nmax = 3
	}
	for n := 1; n <= nmax; n++ {
		var s Seq
		s.N = n
		if isCat(c) {
			s.X = make([]int, n)
			for k := range s.X {
				s.X[k] = r.Intn(nsym)
			}
		} else {
			ez := []int{0, 0, 10}[r.Intn(3)]
			s.Em = make([][]float64, ne)
			for ci := range s.Em {
				s.Em[ci] = make([]float64, n)
				for k := range s.Em[ci] {
					s.Em[ci][k] = genProb(r, ez)
				}
			}
		}
		s.Sets = [][][]int{genSets(r, m, n)}
		if isCat(c) && r.Bool() {
			s.Cls = genCls(r, w, m, n)[:1]
		}
		c.Seqs = append(c.Seqs, s)
	}
	return c
}

// SetParameters after an accepted SetFinalStates
func paramsAfterFinal(c Case) bool {
	seen := false
	for _, op := range c.Ops {
		if op.Op == "final" && len(op.States) > 0 && validStates(op.States, c.M) {
			seen = true
		}
		if op.Op == "params" && seen {
			return true
		}
	}
	return false
}
func validStates(l []int, m int) bool {
	for _, i := range l {
		if i < -1 || i >= m {
			return false
		}
	}
	return true
}

func emitHist(c Case, w *CaseWriter, key string) {
	obs, err := observeHist(c)
	if err != nil {
		w.Count("outcome:error/hist")
		w.Extra["last_error"] = err.Error()
		w.Add("XC ("+coqBroken(c)+")", c, key, false)
		return
	}
	w.Count("kind:hist" + c.Sub)
	for k, op := range c.Ops {
		if op.Op == "config" {
			w.Count(fmt.Sprintf("hist:config-outcome=%d", obs.Steps[k+1].Err))
		}
	}
	paf := paramsAfterFinal(c)
	if paf {
		w.Count("hist:params-after-final")
	}
	pos := false
	for si, s := range c.Seqs {
		w.Count(fmt.Sprintf("hist:length=%d", s.N))
		if s.N >= 2 && !math.IsInf(obs.H.Seqs[si].LogPdf, -1) {
			pos = true
		}
	}
	w.Add(coqHist(c, obs), c, key, paf && pos && c.M >= 2)
}

// ---------------------------------------------------------------- property-level oracle (hunt)

// The parameters the history calls for, replayed in float64 probability space independently of
// the Coq model: Pi as last stored / masked (SetParameters stores Pi raw: the code's reading, see
// F-C15-SETPARAMS-START), Tr as last stored, Tf = the current Tr masked by the current final
// states and renormalised.
func specHist(c Case) (pi []float64, tr, tf [][]float64) {
	pi = normVec(normVec(c.Pi))
	tr = normRows(normRows(c.Tr))
	var start, final []int
	maskPi := func() {
		if start != nil {
			p := make([]float64, len(pi))
			for i := range pi {
				if member(i, start) {
					p[i] = pi[i]
				}
			}
			pi = normVec(p)
		}
	}
	for _, op := range c.Ops {
		switch op.Op {
		case "start":
			if validStates(op.States, c.M) && len(op.States) > 0 {
				start = op.States
				maskPi()
			}
		case "final":
			if validStates(op.States, c.M) && len(op.States) > 0 {
				final = op.States
			}
		case "params":
			pi = append([]float64{}, op.Pi...)
			tr = op.Tr
		case "clone":
			maskPi()
		case "config":
			// a vector without mass cannot be imported (the call returns an error and leaves the object alone)
			sum := 0.0
			for _, x := range pi {
				sum += x
			}
			if sum != 0 {
				pi = normVec(normVec(pi))
				maskPi()
				tr = normRows(normRows(tr))
			}
		}
	}
	tf = tr
	if final != nil {
		t := make([][]float64, len(tr))
		for i := range tr {
			t[i] = make([]float64, len(tr))
			for j := range tr[i] {
				if member(j, final) {
					t[i][j] = tr[i][j]
				}
			}
		}
		tf = normRows(t)
	}
	return
}

func propCheckHist(c Case) string {
	r, _ := histFailure(c)
	return r
}

// the failure and whether it is a failure of INFERENCE (LogPdf, forward-backward, marginals,
// Posterior, Viterbi against the enumeration) rather than of the parameter tables alone
func histFailure(c Case) (string, bool) {
	obs, err := observeHist(c)
	if err != nil {
		return "implementation failed: " + err.Error(), false
	}
	// no public call of a history may panic (regression: F-C15-PIVEC-ERR-SWALLOWED, ImportConfig on a Pi without mass)
	for k, st := range obs.Steps {
		if st.Err == 2 {
			return "call " + opsString(c.Ops[k-1:k]) + " of the history " + opsString(c.Ops) + " panicked", false
		}
	}
	pi, tr, tf := specHist(c)
	// inference against the enumeration with the parameters the history calls for
	if r := propSeqs(c, obs.H, pi, tr, tf); r != "" {
		return "after the setter history " + opsString(c.Ops) + ": " + r, true
	}
	last := obs.Steps[len(obs.Steps)-1]
	for i := 0; i < c.M; i++ {
		if !near(expv(last.Pi[i]), pi[i]) {
			return fmt.Sprintf("after the setter history Pi[%d] = %g, expected %g", i, expv(last.Pi[i]), pi[i]), false
		}
		for j := 0; j < c.M; j++ {
			if !near(expv(last.Tr[i][j]), tr[i][j]) {
				return fmt.Sprintf("after the setter history Tr[%d][%d] = %g, expected %g", i, j, expv(last.Tr[i][j]), tr[i][j]), false
			}
			if !near(expv(last.Tf[i][j]), tf[i][j]) {
				return fmt.Sprintf("after the setter history the final-step matrix Tf[%d][%d] = %g, but the current Tr and final states give %g (stale derived state)", i, j, expv(last.Tf[i][j]), tf[i][j]), false
			}
		}
	}
	return "", false
}

func opsString(ops []OpJ) string {
	s := make([]string, len(ops))
	for i, op := range ops {
		switch op.Op {
		case "start":
			s[i] = fmt.Sprintf("SetStartStates(%v)", op.States)
		case "final":
			s[i] = fmt.Sprintf("SetFinalStates(%v)", op.States)
		case "params":
			s[i] = "SetParameters"
		case "config":
			s[i] = "ImportConfig(ExportConfig())"
		default:
			s[i] = "Clone"
		}
	}
	return strings.Join(s, "; ")
}

func shrinkHist(c Case) Case {
	_, inf := histFailure(c)
	fails := func(x Case) bool {
		r, i := histFailure(x)
		return r != "" && (i || !inf)
	}
	cp := func() Case {
		var x Case
		b, _ := json.Marshal(c)
		json.Unmarshal(b, &x)
		return x
	}
	// drop operations
	for again := true; again; {
		again = false
		for k := range c.Ops {
			x := cp()
			x.Ops = append(x.Ops[:k], x.Ops[k+1:]...)
			if fails(x) {
				c, again = x, true
				break
			}
		}
	}
	// a single sequence, the shortest that fails
	for _, s := range c.Seqs {
		x := cp()
		x.Seqs = []Seq{s}
		if fails(x) {
			c = x
			break
		}
	}
	x := cp()
	x.Real = false
	if fails(x) {
		c = x
	}
	x = cp()
	for i := range x.Seqs {
		x.Seqs[i].Sets = nil
	}
	if fails(x) {
		c = x
	}
	return c
}

// ---------------------------------------------------------------- known findings (fixed witnesses)

func knownCheckHist() []Known {
	var out []Known
	// F-C15-SETPARAMS-START: the start-state restriction lives only in the masked Pi;
	// SetParameters overwrites Pi without re-applying it
	k1 := Known{Id: "F-C15-SETPARAMS-START"}
	c := Case{Kind: "hist", M: 2, Pi: []float64{0.5, 0.5}, Tr: [][]float64{{1, 1}, {1, 1}},
		Ops: []OpJ{{Op: "start", States: []int{0}}, {Op: "params", Pi: []float64{0.25, 0.75}, Tr: [][]float64{{0.5, 0.5}, {0.5, 0.5}}}},
		Seqs: []Seq{{N: 2, Em: [][]float64{{1, 1}, {1, 1}}}}}
	if obs, err := observeHist(c); err == nil && len(obs.Steps) == 3 {
		if expv(obs.Steps[1].Pi[1]) == 0 && near(expv(obs.Steps[2].Pi[1]), 0.75) {
			k1.Still = true
			k1.What = fmt.Sprintf("SetStartStates({0}) then SetParameters(pi = (1/4, 3/4)): Pi[1] = %g, paths starting in the excluded state 1 count again (Viterbi %v)",
				expv(obs.Steps[2].Pi[1]), obs.H.Seqs[0].Vit)
		}
	}
	// F-C15-SETPARAMS-UNCOMPARABLE: obj.Tr == obj.Tf on ChmmTransitionMatrix / HhmmTransitionMatrix panics
	k2 := Known{Id: "F-C15-SETPARAMS-UNCOMPARABLE"}
	pan := func(c Case) (msg string) {
		o, err := build(c)
		if err != nil {
			return ""
		}
		defer func() {
			if r := recover(); r != nil {
				msg = fmt.Sprint(r)
			}
		}()
		o.g.SetParameters(o.g.GetParameters())
		return ""
	}
	m1 := pan(Case{Kind: "chmm", M: 2, Pi: []float64{0.5, 0.5}, Tr: [][]float64{{0.5, 0.5}, {0.25, 0.75}}})
	m2 := pan(Case{Kind: "hhmm", M: 2, Pi: []float64{0.5, 0.5}, Tr: [][]float64{{0.5, 0.5}, {0.25, 0.75}}, Tree: &TreeJ{A: 0, B: 2}})
	if strings.Contains(m1, "uncomparable") && strings.Contains(m2, "uncomparable") {
		k2.Still = true
		k2.What = "h.SetParameters(h.GetParameters()) on a constrained and on a hierarchical HMM panics: " + m1
	}
	return append(out, k1, k2)
}

// ---------------------------------------------------------------- constructor on a start vector without mass

// kind "ctor0" (regression case of the repaired F-C15-PIVEC-ERR-SWALLOWED): the public constructors
// (vectorDistribution.NewHmm for Sub "cat", else generic.NewHmmProbabilityVector + NewHmm) on the
// given Pi, which has no mass, must return an error and must not panic.
func observeCtor0(c Case) (panicked, isErr bool) {
	defer func() {
		if r := recover(); r != nil {
			panicked = true
		}
	}()
	b := c
	b.Kind = "table"
	if c.Sub == "cat" {
		b.Kind = "cat"
	}
	_, err := build(b)
	return false, err != nil
}

func propCheckCtor0(c Case) string {
	p, e := observeCtor0(c)
	if p {
		return fmt.Sprintf("the constructor panicked on the start vector %v (no mass) instead of returning an error", c.Pi)
	}
	if !e {
		return fmt.Sprintf("the constructor accepted the start vector %v (no mass)", c.Pi)
	}
	return ""
}

// the Coq side reuses the precondition case: XPre 0 0 [] panicked (not iserr) holds iff both flags are false
func emitCtor0(c Case, w *CaseWriter, key string) {
	p, e := observeCtor0(c)
	w.Count("kind:ctor0" + c.Sub)
	w.Add(fmt.Sprintf("XPre 0 0 [] %s %s", B(p), B(!e)), c, key, false)
}
