// C15 round 3: constrained and hierarchical HMMs, matrixDistribution.Hmm / ShapeHmm,
// Posterior preconditions.
//
//   kind "chmm"   generic.NewChmmTransitionMatrix + generic.NewHmm (Sub "": emission tables) or
//                 vectorDistribution.NewConstrainedHmm (Sub "cat": categorical emissions).
//                 ChmmTransitionMatrix.Normalize finds its Lagrange multipliers with Newton's
//                 method; the harness obtains the multipliers of every Normalize call through the
//                 PUBLIC pieces (EvalConstraints + newton.RunRoot with the same start point and
//                 epsilon) on a clone that holds the input of that call, and hands exp(lambda) to the
//                 Coq model as oracle data.  Everything else (complemented constraint groups, the
//                 matrices after NewChmmTransitionMatrix / NewHmm / SetFinalStates, inference) is
//                 compared.
//   kind "hhmm"   generic.NewHhmmTransitionMatrix / vectorDistribution.NewHierarchicalHmm on random
//                 trees of 2-3 levels.
//   kind "mat" / "shape"   matrixDistribution.Hmm / ShapeHmm with products of categorical
//                 distributions as emissions; the emission table handed to Coq is computed here
//                 from the parameters (window rule of ShapeHmmDataRecord re-stated), not through the library.
//   kind "pre"    Posterior on state lists with indices outside [0,m): panics.
package main

import (
	"fmt"
	"math"
	"strings"

	. "adharness/common"

	ad "github.com/pbenner/autodiff"
	"github.com/pbenner/autodiff/algorithm/newton"
	stat "github.com/pbenner/autodiff/statistics"
	"github.com/pbenner/autodiff/statistics/generic"
	"github.com/pbenner/autodiff/statistics/matrixDistribution"
	"github.com/pbenner/autodiff/statistics/scalarDistribution"
	"github.com/pbenner/autodiff/statistics/vectorDistribution"
)

type TreeJ struct {
	A, B int
	Ch   []TreeJ `json:"ch,omitempty"`
}

func (t TreeJ) node() generic.HmmNode {
	if len(t.Ch) == 0 {
		return generic.NewHmmLeaf(t.A, t.B)
	}
	ch := make([]generic.HmmNode, len(t.Ch))
	for i := range t.Ch {
		ch[i] = t.Ch[i].node()
	}
	return generic.NewHmmNode(ch...)
}
func (t TreeJ) coq() string {
	if len(t.Ch) == 0 {
		return fmt.Sprintf("HLeaf %d %d", t.A, t.B)
	}
	s := make([]string, len(t.Ch))
	for i := range t.Ch {
		s[i] = t.Ch[i].coq()
	}
	return "HNode " + List(s)
}
func (t TreeJ) depth() int {
	d := 0
	for _, c := range t.Ch {
		if x := c.depth(); x > d {
			d = x
		}
	}
	return d + 1
}

func constraints(c Case) []generic.EqualityConstraint {
	var cs []generic.EqualityConstraint
	for _, g := range c.Cons {
		cs = append(cs, generic.EqualityConstraint(append([][2]int{}, g...)))
	}
	return cs
}

func catDists(real bool, theta [][]float64) ([]stat.ScalarPdf, error) {
	ed := make([]stat.ScalarPdf, len(theta))
	for i, th := range theta {
		d, err := scalarDistribution.NewCategoricalDistribution(mkVec(real, th))
		if err != nil {
			return nil, err
		}
		ed[i] = d
	}
	return ed, nil
}

// ---------------------------------------------------------------- building

func buildCH(c Case) (*hmmObj, error) {
	o := &hmmObj{kind: c.Kind}
	pi := mkVec(c.Real, c.Pi)
	tr := mkMat(c.Real, c.Tr)
	switch c.Kind {
	case "chmm", "hhmm":
		if c.Sub == "cat" {
			ed, err := catDists(c.Real, c.Theta)
			if err != nil {
				return nil, err
			}
			if c.Kind == "chmm" {
				h, err := vectorDistribution.NewConstrainedHmm(pi, tr, c.Map, ed, constraints(c))
				if err != nil {
					return nil, err
				}
				o.v, o.g = &h.Hmm, &h.Hmm.Hmm
			} else {
				h, err := vectorDistribution.NewHierarchicalHmm(pi, tr, c.Map, ed, c.Tree.node())
				if err != nil {
					return nil, err
				}
				o.v, o.g = &h.Hmm, &h.Hmm.Hmm
			}
		} else {
			p, err := generic.NewHmmProbabilityVector(pi, false)
			if err != nil {
				return nil, err
			}
			var t generic.TransitionMatrix
			if c.Kind == "chmm" {
				t, err = generic.NewChmmTransitionMatrix(tr, constraints(c), false)
			} else {
				if !c.Tree.node().Check(c.M) {
					return nil, fmt.Errorf("invalid Hmm tree")
				}
				t, err = generic.NewHhmmTransitionMatrix(tr, c.Tree.node(), false)
			}
			if err != nil {
				return nil, err
			}
			h, err := generic.NewHmm(p, t, c.Map)
			if err != nil {
				return nil, err
			}
			o.g = h
		}
	case "mat":
		ed := make([]stat.VectorPdf, len(c.Theta4))
		for ci := range c.Theta4 {
			sd, err := catDists(c.Real, c.Theta4[ci][0])
			if err != nil {
				return nil, err
			}
			d, err := vectorDistribution.NewScalarId(sd...)
			if err != nil {
				return nil, err
			}
			ed[ci] = d
		}
		h, err := matrixDistribution.NewHmm(pi, tr, c.Map, ed)
		if err != nil {
			return nil, err
		}
		o.mh, o.g = h, &h.Hmm
	case "shape":
		ed := make([]stat.MatrixPdf, len(c.Theta4))
		for ci := range c.Theta4 {
			rows := make([]stat.VectorPdf, len(c.Theta4[ci]))
			for r := range rows {
				sd, err := catDists(c.Real, c.Theta4[ci][r])
				if err != nil {
					return nil, err
				}
				d, err := vectorDistribution.NewScalarId(sd...)
				if err != nil {
					return nil, err
				}
				rows[r] = d
			}
			d, err := matrixDistribution.NewVectorId(rows...)
			if err != nil {
				return nil, err
			}
			ed[ci] = d
		}
		h, err := matrixDistribution.NewShapeHmm(pi, tr, c.Map, ed)
		if err != nil {
			return nil, err
		}
		o.sh, o.g = h, &h.Hmm
	}
	if err := o.g.SetStartStates(c.Start); err != nil {
		return nil, err
	}
	if err := o.g.SetFinalStates(c.Final); err != nil {
		return nil, err
	}
	return o, nil
}

// emission probabilities [c][k] of a sequence, from the parameters of the case.
// mat: product over the coordinates of row k.  shape: the window of wn rows starting at
// i = k - wn/2, used only if i >= 0 and i + wn < n (as ShapeHmmDataRecord.LogPdf tests it);
// otherwise the emission is 1 (log-value 0.0).
func emTableMat(c Case, s Seq) [][]float64 {
	em := make([][]float64, len(c.Theta4))
	for ci, th := range c.Theta4 {
		em[ci] = make([]float64, s.N)
		wn := len(th)
		for k := 0; k < s.N; k++ {
			i := k
			if c.Kind == "shape" {
				i = k - wn/2
				if !(i >= 0 && i+wn < s.N) {
					em[ci][k] = 1
					continue
				}
			}
			p := 1.0
			for r := 0; r < wn; r++ {
				for d := range th[r] {
					p *= th[r][d][s.X2[i+r][d]]
				}
			}
			em[ci][k] = p
		}
	}
	return em
}

func (o *hmmObj) recordMat(c Case, s Seq) generic.HmmDataRecord {
	d := len(c.Theta4[0][0])
	flat := make([]float64, 0, s.N*d)
	for k := 0; k < s.N; k++ {
		for j := 0; j < d; j++ {
			flat = append(flat, float64(s.X2[k][j]))
		}
	}
	x := ad.NewDenseFloat64Matrix(flat, s.N, d)
	if o.mh != nil {
		return matrixDistribution.HmmDataRecord{Edist: o.mh.Edist, X: x}
	}
	return matrixDistribution.ShapeHmmDataRecord{Edist: o.sh.Edist, X: x}
}

// ---------------------------------------------------------------- Chmm: the multipliers of one Normalize call

func snapshot(t ad.Matrix) [][]float64 {
	n, m := t.Dims()
	r := make([][]float64, n)
	for i := 0; i < n; i++ {
		r[i] = make([]float64, m)
		for j := 0; j < m; j++ {
			r[i][j] = t.At(i, j).GetFloat64()
		}
	}
	return r
}

// u holds the INPUT of a Normalize call (it is modified).  Mirrors Normalize's first loop and
// computeLambda with public functions only.
func lambdaOf(u generic.ChmmTransitionMatrix) (lam []float64, err error) {
	defer func() {
		if r := recover(); r != nil {
			err = fmt.Errorf("panic: %v", r)
		}
	}()
	n, m := u.Dims()
	for i := 0; i < n; i++ {
		all := true
		for j := 0; j < m; j++ {
			if !math.IsInf(u.At(i, j).GetFloat64(), -1) {
				all = false
			}
		}
		if all {
			u.At(i, i).SetFloat64(0.0)
		}
	}
	x := ad.NullDenseReal64Vector(n)
	f := func(l ad.ConstVector) (ad.MagicVector, error) {
		u.EvalConstraints(l, x)
		return x, nil
	}
	r, e := newton.RunRoot(f, ad.NullDenseFloat64Vector(n), newton.Epsilon{1e-8})
	if e != nil {
		return nil, e
	}
	lam = make([]float64, n)
	for i := range lam {
		lam[i] = math.Exp(r.At(i).GetFloat64())
	}
	return lam, nil
}

type ChObs struct {
	Err    int // 0 built, 1 NewChmmTransitionMatrix failed, 2 NewHmm failed
	Groups [][][2]int
	T1     [][]float64
	Lam    [3][]float64 // nil: computeLambda fails
	H      HObs
}

func observeCh(c Case) (obs ChObs, err error) {
	defer func() {
		if r := recover(); r != nil {
			err = fmt.Errorf("panic: %v", r)
		}
	}()
	t1, e := generic.NewChmmTransitionMatrix(mkMat(c.Real, c.Tr), constraints(c), false)
	if e != nil {
		obs.Err = 1
		return obs, nil
	}
	for _, g := range t1.GetConstraints() {
		obs.Groups = append(obs.Groups, append([][2]int{}, g...))
	}
	obs.T1 = snapshot(t1)
	// input of the first Normalize: the log of the raw matrix, same constraint groups
	u := t1.CloneTransitionMatrix().(generic.ChmmTransitionMatrix)
	for i := range c.Tr {
		for j := range c.Tr[i] {
			u.At(i, j).SetFloat64(math.Log(c.Tr[i][j]))
		}
	}
	obs.Lam[0], _ = lambdaOf(u)
	// input of the second Normalize (in NewHmm): T1
	obs.Lam[1], _ = lambdaOf(t1.CloneTransitionMatrix().(generic.ChmmTransitionMatrix))
	o, e := build(c)
	if e != nil {
		obs.Err = 2
		return obs, nil
	}
	if len(c.Final) > 0 {
		u := o.g.Tr.CloneTransitionMatrix().(generic.ChmmTransitionMatrix)
		n, _ := u.Dims()
		for i := 0; i < n; i++ {
			for j := 0; j < n; j++ {
				if !member(j, c.Final) {
					u.At(i, j).SetFloat64(math.Inf(-1))
				}
			}
		}
		obs.Lam[2], _ = lambdaOf(u)
	}
	obs.H, err = observeObj(o, c)
	return obs, err
}

type HhObs struct {
	Err int // 0 built, 1 invalid tree, 2 other constructor error
	T1  [][]float64
	H   HObs
}

func hasBad(t [][]float64) bool {
	for _, r := range t {
		for _, v := range r {
			if math.IsNaN(v) || math.IsInf(v, 1) {
				return true
			}
		}
	}
	return false
}

func observeHh(c Case) (obs HhObs, err error) {
	defer func() {
		if r := recover(); r != nil {
			err = fmt.Errorf("panic: %v", r)
		}
	}()
	if !c.Tree.node().Check(c.M) {
		// the wrapper refuses; the generic constructor has no check of its own
		if _, e := vectorDistribution.NewHierarchicalHmm(mkVec(c.Real, c.Pi), mkMat(c.Real, c.Tr), c.Map, nil, c.Tree.node()); e == nil {
			return obs, fmt.Errorf("NewHierarchicalHmm accepted a tree that fails Check")
		}
		obs.Err = 1
		return obs, nil
	}
	t1, e := generic.NewHhmmTransitionMatrix(mkMat(c.Real, c.Tr), c.Tree.node(), false)
	if e != nil {
		obs.Err = 2
		return obs, nil
	}
	obs.T1 = snapshot(t1)
	o, e := build(c)
	if e != nil {
		obs.Err = 2
		return obs, nil
	}
	if hasBad(snapshot(o.g.Tr)) || hasBad(snapshot(o.g.Tf)) {
		// NaN parameters: inference is not run
		c.Seqs = nil
	}
	obs.H, err = observeObj(o, c)
	return obs, err
}

// ---------------------------------------------------------------- Coq terms

func cellsCoq(gs [][][2]int) string {
	s := make([]string, len(gs))
	for i, g := range gs {
		t := make([]string, len(g))
		for k, c := range g {
			t[k] = fmt.Sprintf("(%d, %d)", c[0], c[1])
		}
		s[i] = List(t)
	}
	return List(s)
}
func lamCoq(l []float64) string {
	if l == nil {
		return "None"
	}
	return "(Some " + QL(l) + ")"
}

func seqsCoq(c Case, obs HObs) string {
	var seqs []string
	for si, s := range c.Seqs {
		if si >= len(obs.Seqs) {
			break
		}
		so := obs.Seqs[si]
		marg := "None"
		if so.MargOk {
			marg = "(Some " + GLL(so.Marg) + ")"
		}
		post := make([]string, len(s.Sets))
		for i, sets := range s.Sets {
			g := G(so.Post[i])
			if so.PostE[i] {
				g = "GErr"
			}
			post[i] = "(" + NLL(sets) + ", " + g + ")"
		}
		bg := append(bitsOf(so.GA), bitsOf(so.GB)...)
		bo := append(bitsOf(so.OA), bitsOf(so.OB)...)
		seqs = append(seqs, fmt.Sprintf("mkSeq %d %s %s (%s) %s %s %s %s %s%%Z %s%%Z %s %s %s %s",
			s.N, QLL(emTable(c, s)), FLL(so.EmF), G(so.LogPdf), GLL(so.GA), GLL(so.GB), GLL(so.OA), GLL(so.OB),
			ZList(bg), ZList(bo), marg, List(post), NL(so.Vit), clsCoq(so.Cls)))
	}
	return "[" + strings.Join(seqs, ";\n     ") + "]"
}

func paramsCoq(obs HObs) string {
	return fmt.Sprintf("%s %s %s %s %s %s", GL(obs.Pi), GLL(obs.Tr), GLL(obs.Tf), FList(obs.Pi), FLL(obs.Tr), FLL(obs.Tf))
}

func coqCh(c Case, obs ChObs) string {
	if obs.Err != 0 {
		return fmt.Sprintf("XChmm (mkCC %d %s %s %s %s %s %s None None None %d [] [] [] [] [] [] [] [] [])",
			c.M, QL(c.Pi), QLL(c.Tr), cellsCoq(c.Cons), NL(stateMap(c)), zl(c.Start), zl(c.Final), obs.Err)
	}
	return fmt.Sprintf("XChmm (mkCC %d %s %s %s %s %s %s %s %s %s 0 %s %s %s\n     %s)",
		c.M, QL(c.Pi), QLL(c.Tr), cellsCoq(c.Cons), NL(stateMap(c)), zl(c.Start), zl(c.Final),
		lamCoq(obs.Lam[0]), lamCoq(obs.Lam[1]), lamCoq(obs.Lam[2]),
		cellsCoq(obs.Groups), GLL(obs.T1), paramsCoq(obs.H), seqsCoq(c, obs.H))
}

func coqHh(c Case, obs HhObs) string {
	if obs.Err != 0 {
		return fmt.Sprintf("XHhmm (mkHH %d %s %s (%s) %s %s %s %d [] [] [] [] [] [] [] [])",
			c.M, QL(c.Pi), QLL(c.Tr), c.Tree.coq(), NL(stateMap(c)), zl(c.Start), zl(c.Final), obs.Err)
	}
	return fmt.Sprintf("XHhmm (mkHH %d %s %s (%s) %s %s %s 0 %s %s\n     %s)",
		c.M, QL(c.Pi), QLL(c.Tr), c.Tree.coq(), NL(stateMap(c)), zl(c.Start), zl(c.Final),
		GLL(obs.T1), paramsCoq(obs.H), seqsCoq(c, obs.H))
}

// ---------------------------------------------------------------- Posterior precondition

// Posterior on state lists with arbitrary integers: panicked?
func observePre(c Case) (panicked bool, isErr bool) {
	cc := c
	cc.Kind = "table"
	o, e := build(cc)
	if e != nil {
		return false, true
	}
	s := c.Seqs[0]
	rec := o.record(cc, s)
	defer func() {
		if r := recover(); r != nil {
			panicked = true
		}
	}()
	r := ad.NewScalar(o.g.ScalarType(), 0.0)
	if e := o.g.Posterior(r, rec, c.ZSets); e != nil {
		isErr = true
	}
	return
}

func zll(xs [][]int) string {
	s := make([]string, len(xs))
	for i, x := range xs {
		s[i] = zl(x)
	}
	return List(s)
}

// ---------------------------------------------------------------- generators

func genTreeRange(r *Rng, a, b, depth int) TreeJ {
	// split [a,b) into 2..3 consecutive parts while depth allows and there is room
	if depth <= 1 || b-a < 2 {
		return TreeJ{A: a, B: b}
	}
	parts := 2
	if b-a >= 3 && r.Bool() {
		parts = 3
	}
	cuts := []int{a}
	for p := 1; p < parts; p++ {
		lo := cuts[len(cuts)-1] + 1
		hi := b - (parts - p)
		cuts = append(cuts, r.Range(lo, hi))
	}
	cuts = append(cuts, b)
	t := TreeJ{A: a, B: b}
	for p := 0; p < parts; p++ {
		d := depth - 1
		if r.Intn(3) == 0 {
			d = 1
		}
		t.Ch = append(t.Ch, genTreeRange(r, cuts[p], cuts[p+1], d))
	}
	return t
}

func genSeqs(r *Rng, w *CaseWriter, c *Case, m, ne, nsym int, nlen []int) {
	nseq := r.Range(1, 2)
	for q := 0; q < nseq; q++ {
		var s Seq
		s.N = r.Pick(nlen)
		if isCat(*c) {
			s.X = make([]int, s.N)
			for k := range s.X {
				s.X[k] = r.Intn(nsym)
			}
		} else {
			ez := []int{0, 0, 10, 25}[r.Intn(4)]
			s.Em = make([][]float64, ne)
			for ci := range s.Em {
				s.Em[ci] = make([]float64, s.N)
				for k := range s.Em[ci] {
					s.Em[ci][k] = genProb(r, ez)
				}
			}
		}
		s.Sets = [][][]int{genSets(r, m, s.N)}
		if s.N > 0 && r.Intn(3) == 0 { // duplicates inside the "sets"
			d := genSets(r, m, s.N)
			for x := 0; x < 1+r.Intn(2); x++ {
				k := r.Intn(s.N)
				d[k] = append(d[k], d[k][r.Intn(len(d[k]))])
			}
			s.Sets = append(s.Sets, d)
		}
		if isCat(*c) {
			s.Cls = genCls(r, w, m, s.N)
		}
		c.Seqs = append(c.Seqs, s)
	}
}

func genBase(r *Rng, w *CaseWriter, c *Case, m int, pz int) (ne int) {
	c.M = m
	ne = m
	if m > 1 && r.Intn(3) == 0 {
		ne = r.Range(1, m)
		c.Map = make([]int, m)
		for i := range c.Map {
			c.Map[i] = r.Intn(ne)
		}
		c.Map[r.Intn(m)] = ne - 1
	}
	c.Pi = make([]float64, m)
	for {
		nz := false
		for i := range c.Pi {
			c.Pi[i] = genProb(r, pz)
			nz = nz || c.Pi[i] != 0
		}
		if nz {
			break
		}
	}
	c.Tr = make([][]float64, m)
	for i := range c.Tr {
		c.Tr[i] = make([]float64, m)
		for j := range c.Tr[i] {
			c.Tr[i][j] = genProb(r, pz)
		}
	}
	return ne
}

func genTheta(r *Rng, ne, nsym int) [][]float64 {
	th := make([][]float64, ne)
	for ci := range th {
		th[ci] = make([]float64, nsym)
		for s := range th[ci] {
			th[ci][s] = genProb(r, 15)
		}
	}
	return th
}

func genChmm(r *Rng, w *CaseWriter) Case {
	var c Case
	c.Kind = "chmm"
	if r.Intn(3) == 0 {
		c.Sub = "cat"
	}
	m := r.Range(2, 4)
	if r.Intn(8) == 0 {
		m = 1
	}
	ne := genBase(r, w, &c, m, []int{0, 20, 35}[r.Intn(3)])
	if r.Intn(10) == 0 { // an all-zero row: Newton cannot satisfy it
		i := r.Intn(m)
		for j := range c.Tr[i] {
			c.Tr[i][j] = 0
		}
		w.Count("chmm:zero-row")
	}
	// constraint groups: disjoint random groups of 2-3 cells, sometimes containing a zero cell,
	// rarely a repeated cell (error)
	used := map[[2]int]bool{}
	ng := r.Pick([]int{2, 4, 3, 1})
	for g := 0; g < ng; g++ {
		var grp [][2]int
		sz := r.Range(2, 3)
		sameRow := r.Intn(4) == 0
		row := r.Intn(m)
		for k := 0; k < sz; k++ {
			cell := [2]int{r.Intn(m), r.Intn(m)}
			if sameRow {
				cell[0] = row
			}
			if r.Intn(2) == 0 && c.Tr[cell[0]][cell[1]] == 0 {
				cell = [2]int{r.Intn(m), r.Intn(m)} // fewer zero cells in groups
			}
			if used[cell] && r.Intn(12) != 0 {
				continue
			}
			used[cell] = true
			grp = append(grp, cell)
		}
		if len(grp) > 0 {
			c.Cons = append(c.Cons, grp)
		}
	}
	w.Count(fmt.Sprintf("chmm:groups=%d", len(c.Cons)))
	if r.Intn(3) == 0 {
		c.Final = genSubset(r, m, w, "chmm-final")
	}
	if r.Intn(4) == 0 {
		c.Start = genSubset(r, m, w, "chmm-start")
	}
	nsym := r.Range(2, 3)
	if c.Sub == "cat" {
		c.Theta = genTheta(r, ne, nsym)
	}
	genSeqs(r, w, &c, m, ne, nsym, []int{1, 2, 3, 3, 2})
	return c
}

func genHhmm(r *Rng, w *CaseWriter) Case {
	var c Case
	c.Kind = "hhmm"
	if r.Intn(3) == 0 {
		c.Sub = "cat"
	}
	m := r.Range(3, 6)
	if r.Intn(10) == 0 {
		m = r.Range(1, 2)
	}
	ne := genBase(r, w, &c, m, []int{0, 0, 15, 30}[r.Intn(4)])
	t := genTreeRange(r, 0, m, r.Range(2, 3))
	switch r.Intn(14) {
	case 0: // a gap / wrong end: Check fails
		t.B = m
		if len(t.Ch) > 0 {
			last := &t.Ch[len(t.Ch)-1]
			for len(last.Ch) > 0 {
				last = &last.Ch[len(last.Ch)-1]
			}
			last.B++
		} else {
			t.B++
		}
		w.Count("hhmm:bad-tree")
	case 1: // a single leaf
		t = TreeJ{A: 0, B: m}
	}
	c.Tree = &t
	w.Count(fmt.Sprintf("hhmm:depth=%d", t.depth()))
	if r.Intn(3) == 0 {
		c.Final = genSubset(r, m, w, "hhmm-final")
	}
	if r.Intn(4) == 0 {
		c.Start = genSubset(r, m, w, "hhmm-start")
	}
	nsym := r.Range(2, 3)
	if c.Sub == "cat" {
		c.Theta = genTheta(r, ne, nsym)
	}
	lens := []int{1, 2, 3, 3, 1}
	if m >= 5 {
		lens = []int{1, 2, 3, 2}
	}
	genSeqs(r, w, &c, m, ne, nsym, lens)
	return c
}

func genMat(r *Rng, w *CaseWriter) Case {
	var c Case
	c.Kind = "mat"
	if r.Bool() {
		c.Kind = "shape"
	}
	m := r.Range(1, 3)
	ne := genBase(r, w, &c, m, []int{0, 15, 30}[r.Intn(3)])
	d := r.Range(1, 2)
	wn := 1
	if c.Kind == "shape" {
		wn = r.Range(1, 3)
	}
	nsym := 2
	c.Theta4 = make([][][][]float64, ne)
	for ci := range c.Theta4 {
		c.Theta4[ci] = make([][][]float64, wn)
		for rr := range c.Theta4[ci] {
			c.Theta4[ci][rr] = genTheta(r, d, nsym)
		}
	}
	if r.Intn(3) == 0 {
		c.Final = genSubset(r, m, w, "mat-final")
	}
	if r.Intn(3) == 0 {
		c.Start = genSubset(r, m, w, "mat-start")
	}
	nseq := r.Range(1, 2)
	for q := 0; q < nseq; q++ {
		var s Seq
		s.N = r.Pick([]int{1, 2, 2, 3, 3, 3, 2})
		s.X2 = make([][]int, s.N)
		for k := range s.X2 {
			s.X2[k] = make([]int, d)
			for j := range s.X2[k] {
				s.X2[k][j] = r.Intn(nsym)
			}
		}
		s.Sets = [][][]int{genSets(r, m, s.N)}
		c.Seqs = append(c.Seqs, s)
	}
	w.Count(fmt.Sprintf("%s:window=%d", c.Kind, wn))
	return c
}

func genPre(r *Rng, w *CaseWriter) Case {
	var c Case
	c.Kind = "pre"
	m := r.Range(1, 3)
	ne := genBase(r, w, &c, m, 0)
	var s Seq
	s.N = r.Range(1, 3)
	s.Em = make([][]float64, ne)
	for ci := range s.Em {
		s.Em[ci] = make([]float64, s.N)
		for k := range s.Em[ci] {
			s.Em[ci][k] = genProb(r, 0)
		}
	}
	c.Seqs = []Seq{s}
	c.ZSets = genSets(r, m, s.N)
	if r.Intn(4) > 0 {
		k := r.Intn(s.N)
		bad := []int{m, m + 1, -1, -2}[r.Intn(4)]
		pos := r.Intn(len(c.ZSets[k]) + 1)
		z := append([]int{}, c.ZSets[k][:pos]...)
		z = append(z, bad)
		c.ZSets[k] = append(z, c.ZSets[k][pos:]...)
	}
	return c
}

// ---------------------------------------------------------------- emit

func emitCH(c Case, w *CaseWriter, key string) {
	switch c.Kind {
	case "chmm":
		obs, err := observeCh(c)
		if err != nil {
			w.Count("outcome:error/chmm")
			w.Extra["last_error"] = err.Error()
			w.Add("XC ("+coqBroken(c)+")", c, key, false)
			return
		}
		w.Count(fmt.Sprintf("chmm:outcome=%d", obs.Err))
		tiedAcrossRows := false
		for _, g := range c.Cons {
			for _, cell := range g {
				if cell[0] != g[0][0] {
					tiedAcrossRows = true
				}
			}
		}
		w.Count("kind:chmm" + c.Sub)
		w.Add(coqCh(c, obs), c, key, obs.Err == 0 && c.M >= 2 && tiedAcrossRows)
	case "hhmm":
		obs, err := observeHh(c)
		if err != nil {
			w.Count("outcome:error/hhmm")
			w.Extra["last_error"] = err.Error()
			w.Add("XC ("+coqBroken(c)+")", c, key, false)
			return
		}
		w.Count(fmt.Sprintf("hhmm:outcome=%d", obs.Err))
		bad := obs.Err == 0 && (hasBad(obs.H.Tr) || hasBad(obs.H.Tf))
		if bad {
			w.Count("hhmm:nan-parameters")
		}
		w.Count("kind:hhmm" + c.Sub)
		w.Add(coqHh(c, obs), c, key, obs.Err == 0 && !bad && c.Tree.depth() >= 2)
	case "pre":
		p, e := observePre(c)
		w.Count(fmt.Sprintf("pre:panic=%v", p))
		w.Add(fmt.Sprintf("XPre %d %d %s %s %s", c.M, c.Seqs[0].N, zll(c.ZSets), B(p), B(e)), c, key, p)
	}
}
