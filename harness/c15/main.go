// C15 harness: random HMMs and mixtures (small dyadic probabilities, zeros,
// non-injective state maps, start/final restrictions, several sequences) are
// run through /repo's generic.Hmm / vectorDistribution.Hmm / generic.Mixture /
// scalarDistribution.Mixture; every observable is written as a Coq case for
// coq/C15/Corr.v.
package main

import (
	"encoding/json"
	"fmt"
	"math"
	"os"
	"strings"

	. "adharness/common"

	ad "github.com/pbenner/autodiff"
	stat "github.com/pbenner/autodiff/statistics"
	"github.com/pbenner/autodiff/statistics/generic"
	"github.com/pbenner/autodiff/statistics/matrixDistribution"
	"github.com/pbenner/autodiff/statistics/scalarDistribution"
	"github.com/pbenner/autodiff/statistics/vectorDistribution"
)

// ---------------------------------------------------------------- case description (inputs only)

type Seq struct {
	N     int         `json:"n"`
	Em    [][]float64 `json:"em,omitempty"`    // table kind: emission probabilities [c][k]
	X     []int       `json:"x,omitempty"`     // cat kind: observed symbols
	Sets  [][][]int   `json:"sets,omitempty"`  // state-set sequences for Posterior
	X2    [][]int     `json:"x2,omitempty"`    // mat / shape kinds: observed symbol vectors [k][d]
	Cls   []ClsJ      `json:"cls,omitempty"`   // round 6: vectorClassifier.HmmPosterior / HmmClassifier calls (cat kinds)
}
type Case struct {
	Kind  string      `json:"kind"` // "table" | "cat" | "mixtable" | "mixcat"
	Real  bool        `json:"real,omitempty"` // parameters held in Real64 (AD) scalars instead of Float64
	M     int         `json:"m"`
	Pi    []float64   `json:"pi,omitempty"`
	Tr    [][]float64 `json:"tr,omitempty"`
	Map   []int       `json:"map,omitempty"`
	Start []int       `json:"start,omitempty"`
	Final []int       `json:"final,omitempty"`
	Theta [][]float64 `json:"theta,omitempty"` // cat kinds: categorical parameters [c][symbol]
	Seqs  []Seq       `json:"seqs,omitempty"`
	// mixtures
	W   []float64 `json:"w,omitempty"`
	P   []float64 `json:"p,omitempty"` // mixtable: component densities
	X   int       `json:"x,omitempty"` // mixcat: observed symbol
	XV  []int     `json:"xv,omitempty"` // mixvec (round 6): observed symbol vector; component j = ScalarId(cat(theta[(j+d)%k]) for coordinate d)
	Sel [][]int   `json:"sel,omitempty"`
	// bw: poison value of the reused work matrices (0: NaN, 1: 1.5)
	Poison int `json:"poison,omitempty"`
	// round 3 (ch.go): chmm / hhmm (Sub = "cat": through vectorDistribution.Chmm / Hhmm with
	// categorical emissions, else generic.Hmm on emission tables), mat / shape
	// (matrixDistribution.Hmm / ShapeHmm), pre (Posterior with out-of-range state indices)
	Sub    string          `json:"sub,omitempty"`
	Cons   [][][2]int      `json:"cons,omitempty"`   // chmm: equality constraints (groups of cells)
	Tree   *TreeJ          `json:"tree,omitempty"`   // hhmm
	Theta4 [][][][]float64 `json:"theta4,omitempty"` // mat / shape: [c][window row][coordinate][symbol]
	ZSets  [][]int         `json:"zsets,omitempty"`  // pre
	// round 5 (hist.go): kind "hist", a history of setter calls applied after the constructor
	Ops []OpJ `json:"ops,omitempty"`
}

// ---------------------------------------------------------------- data records

type tableRec struct {
	logem [][]float64
	n     int
}

func (r tableRec) MapIndex(k int) int { return k }
func (r tableRec) GetN() int          { return r.n }
func (r tableRec) LogPdf(s ad.Scalar, c, k int) error {
	s.SetFloat64(r.logem[c][k])
	return nil
}

type mixRec struct{ logp []float64 }

func (r mixRec) LogPdf(s ad.Scalar, c int) error { s.SetFloat64(r.logp[c]); return nil }

// ---------------------------------------------------------------- printing

func G(v float64) string {
	if math.IsNaN(v) || math.IsInf(v, 1) {
		return "GNaN"
	}
	if math.IsInf(v, -1) {
		return "GVal (0#1)"
	}
	x := math.Exp(v)
	if math.IsInf(x, 0) || math.IsNaN(x) {
		return "GNaN"
	}
	return "GVal " + Q(x)
}
func GL(vs []float64) string {
	s := make([]string, len(vs))
	for i, v := range vs {
		s[i] = G(v)
	}
	return List(s)
}
func GLL(vs [][]float64) string {
	s := make([]string, len(vs))
	for i, v := range vs {
		s[i] = GL(v)
	}
	return List(s)
}
func QL(vs []float64) string {
	s := make([]string, len(vs))
	for i, v := range vs {
		s[i] = Q(v)
	}
	return List(s)
}
func QLL(vs [][]float64) string {
	s := make([]string, len(vs))
	for i, v := range vs {
		s[i] = QL(v)
	}
	return List(s)
}
func FLL(vs [][]float64) string {
	s := make([]string, len(vs))
	for i, v := range vs {
		s[i] = FList(v)
	}
	return List(s)
}
func NL(xs []int) string {
	s := make([]string, len(xs))
	for i, x := range xs {
		s[i] = fmt.Sprintf("%d", x)
	}
	return List(s)
}
func NLL(xs [][]int) string {
	s := make([]string, len(xs))
	for i, x := range xs {
		s[i] = NL(x)
	}
	return List(s)
}
func bitsOf(vs [][]float64) []int64 {
	var r []int64
	for _, row := range vs {
		for _, v := range row {
			r = append(r, int64(math.Float64bits(v)))
		}
	}
	return r
}

// ---------------------------------------------------------------- running the implementation

type hmmObj struct {
	g    *generic.Hmm
	v    *vectorDistribution.Hmm
	mh   *matrixDistribution.Hmm
	sh   *matrixDistribution.ShapeHmm
	kind string
}

// the public entry points of the wrapper that holds the model (vectorDistribution.Hmm / Chmm / Hhmm,
// matrixDistribution.Hmm / ShapeHmm), else generic.Hmm on the data record
func (o *hmmObj) doLogPdf(r ad.Scalar, rec generic.HmmDataRecord) error {
	switch {
	case o.v != nil:
		return o.v.LogPdf(r, rec.(vectorDistribution.HmmDataRecord).X)
	case o.mh != nil:
		return o.mh.LogPdf(r, rec.(matrixDistribution.HmmDataRecord).X)
	case o.sh != nil:
		return o.sh.LogPdf(r, rec.(matrixDistribution.ShapeHmmDataRecord).X)
	}
	return o.g.LogPdf(r, rec)
}
func (o *hmmObj) doMarginals(rec generic.HmmDataRecord) ([]ad.Vector, error) {
	switch {
	case o.v != nil:
		return o.v.PosteriorMarginals(rec.(vectorDistribution.HmmDataRecord).X)
	case o.mh != nil:
		return o.mh.PosteriorMarginals(rec.(matrixDistribution.HmmDataRecord).X)
	case o.sh != nil:
		return o.sh.PosteriorMarginals(rec.(matrixDistribution.ShapeHmmDataRecord).X.(ad.Matrix))
	}
	return o.g.PosteriorMarginals(rec)
}
func (o *hmmObj) doPosterior(r ad.Scalar, rec generic.HmmDataRecord, sets [][]int) error {
	switch {
	case o.v != nil:
		return o.v.Posterior(r, rec.(vectorDistribution.HmmDataRecord).X, sets)
	case o.mh != nil:
		return o.mh.Posterior(r, rec.(matrixDistribution.HmmDataRecord).X, sets)
	case o.sh != nil:
		return o.sh.Posterior(r, rec.(matrixDistribution.ShapeHmmDataRecord).X.(ad.Matrix), sets)
	}
	return o.g.Posterior(r, rec, sets)
}
func (o *hmmObj) doViterbi(rec generic.HmmDataRecord) ([]int, error) {
	switch {
	case o.v != nil:
		return o.v.Viterbi(rec.(vectorDistribution.HmmDataRecord).X)
	case o.mh != nil:
		return o.mh.Viterbi(rec.(matrixDistribution.HmmDataRecord).X)
	case o.sh != nil:
		return o.sh.Viterbi(rec.(matrixDistribution.ShapeHmmDataRecord).X.(ad.Matrix))
	}
	return o.g.Viterbi(rec)
}

func mkVec(real bool, v []float64) ad.Vector {
	if real {
		return ad.NewDenseReal64Vector(v)
	}
	return ad.NewDenseFloat64Vector(v)
}
func mkMat(real bool, rows [][]float64) ad.Matrix {
	m := len(rows)
	flat := make([]float64, 0, m*m)
	for _, r := range rows {
		flat = append(flat, r...)
	}
	if real {
		return ad.NewDenseReal64Matrix(flat, m, m)
	}
	return ad.NewDenseFloat64Matrix(flat, m, m)
}

func isCat(c Case) bool { return c.Kind == "cat" || c.Sub == "cat" }

func build(c Case) (*hmmObj, error) {
	if c.Kind == "chmm" || c.Kind == "hhmm" || c.Kind == "mat" || c.Kind == "shape" {
		return buildCH(c)
	}
	pi := mkVec(c.Real, c.Pi)
	tr := mkMat(c.Real, c.Tr)
	o := &hmmObj{kind: c.Kind}
	if c.Kind == "cat" {
		ed := make([]stat.ScalarPdf, len(c.Theta))
		for i, th := range c.Theta {
			d, err := scalarDistribution.NewCategoricalDistribution(mkVec(c.Real, th))
			if err != nil {
				return nil, err
			}
			ed[i] = d
		}
		h, err := vectorDistribution.NewHmm(pi, tr, c.Map, ed)
		if err != nil {
			return nil, err
		}
		o.v = h
		o.g = &h.Hmm
	} else {
		p, err := generic.NewHmmProbabilityVector(pi, false)
		if err != nil {
			return nil, err
		}
		t, err := generic.NewHmmTransitionMatrix(tr, false)
		if err != nil {
			return nil, err
		}
		h, err := generic.NewHmm(p, t, c.Map)
		if err != nil {
			return nil, err
		}
		o.g = h
	}
	if err := o.g.SetStartStates(c.Start); err != nil {
		return nil, err
	}
	if err := o.g.SetFinalStates(c.Final); err != nil {
		return nil, err
	}
	return o, nil
}

// emission probabilities [c][k] of a sequence
func emTable(c Case, s Seq) [][]float64 {
	if c.Kind == "mat" || c.Kind == "shape" {
		return emTableMat(c, s)
	}
	if isCat(c) {
		em := make([][]float64, len(c.Theta))
		for ci, th := range c.Theta {
			em[ci] = make([]float64, s.N)
			for k := 0; k < s.N; k++ {
				em[ci][k] = th[s.X[k]]
			}
		}
		return em
	}
	return s.Em
}

func (o *hmmObj) record(c Case, s Seq) generic.HmmDataRecord {
	if c.Kind == "mat" || c.Kind == "shape" {
		return o.recordMat(c, s)
	}
	if isCat(c) {
		x := make([]float64, s.N)
		for k := range x {
			x[k] = float64(s.X[k])
		}
		return vectorDistribution.HmmDataRecord{Edist: o.v.Edist, X: ad.NewDenseFloat64Vector(x)}
	}
	le := make([][]float64, len(s.Em))
	for ci := range s.Em {
		le[ci] = make([]float64, s.N)
		for k := 0; k < s.N; k++ {
			le[ci][k] = math.Log(s.Em[ci][k])
		}
	}
	return tableRec{le, s.N}
}

// observed results of one sequence
type SeqObs struct {
	EmF    [][]float64 // emission log-values [c][k] as the implementation sees them
	LogPdf float64
	GA, GB [][]float64 // [k][i]
	OA, OB [][]float64
	Marg   [][]float64 // [k][i], nil on error
	MargOk bool
	Post   []float64
	PostE  []bool
	Vit    []int
	Cls    []ClsObs
}
type HObs struct {
	Pi     []float64
	Tr, Tf [][]float64
	Seqs   []SeqObs
}

func matKI(a ad.Matrix, m, n int) [][]float64 {
	r := make([][]float64, n)
	for k := 0; k < n; k++ {
		r[k] = make([]float64, m)
		for i := 0; i < m; i++ {
			r[k][i] = a.At(i, k).GetFloat64()
		}
	}
	return r
}

func observe(c Case) (obs HObs, err error) {
	defer func() {
		if r := recover(); r != nil {
			err = fmt.Errorf("panic: %v", r)
		}
	}()
	o, e := build(c)
	if e != nil {
		return obs, e
	}
	return observeObj(o, c)
}

func observeObj(o *hmmObj, c Case) (obs HObs, err error) {
	defer func() {
		if r := recover(); r != nil {
			err = fmt.Errorf("panic: %v", r)
		}
	}()
	var e error
	h := o.g
	m := h.M
	obs.Pi = make([]float64, m)
	obs.Tr = make([][]float64, m)
	obs.Tf = make([][]float64, m)
	for i := 0; i < m; i++ {
		obs.Pi[i] = h.Pi.At(i).GetFloat64()
		obs.Tr[i] = make([]float64, m)
		obs.Tf[i] = make([]float64, m)
		for j := 0; j < m; j++ {
			obs.Tr[i][j] = h.Tr.At(i, j).GetFloat64()
			obs.Tf[i][j] = h.Tf.At(i, j).GetFloat64()
		}
	}
	for _, s := range c.Seqs {
		var so SeqObs
		rec := o.record(c, s)
		n := s.N
		// emission log-values as seen through the data record
		so.EmF = make([][]float64, h.N)
		for ci := 0; ci < h.N; ci++ {
			so.EmF[ci] = make([]float64, n)
			for k := 0; k < n; k++ {
				t := ad.NullFloat64()
				if e := rec.LogPdf(t, ci, k); e != nil {
					return obs, e
				}
				so.EmF[ci][k] = t.GetFloat64()
			}
		}
		// LogPdf
		r := ad.NewScalar(h.ScalarType(), 0.0)
		e = o.doLogPdf(r, rec)
		if e != nil {
			return obs, e
		}
		so.LogPdf = r.GetFloat64()
		// generic forward-backward
		a, b, e := h.ForwardBackward(rec)
		if e != nil {
			return obs, e
		}
		so.GA, so.GB = matKI(a, m, n), matKI(b, m, n)
		// float64-specialised forward-backward
		oa, ob, e := h.VerifC15Float64ForwardBackward(rec)
		if e != nil {
			return obs, e
		}
		so.OA, so.OB = matKI(oa, m, n), matKI(ob, m, n)
		// posterior marginals
		var g []ad.Vector
		g, e = o.doMarginals(rec)
		if e == nil {
			so.MargOk = true
			so.Marg = make([][]float64, n)
			for k := 0; k < n; k++ {
				so.Marg[k] = make([]float64, m)
				for i := 0; i < m; i++ {
					so.Marg[k][i] = g[i].At(k).GetFloat64()
				}
			}
		}
		// posterior of state-set sequences
		for _, sets := range s.Sets {
			r := ad.NewScalar(h.ScalarType(), 0.0)
			e = o.doPosterior(r, rec, sets)
			so.Post = append(so.Post, r.GetFloat64())
			so.PostE = append(so.PostE, e != nil)
		}
		// Viterbi
		var p []int
		p, e = o.doViterbi(rec)
		if e != nil {
			return obs, e
		}
		so.Vit = p
		// round 6: the classifier front-ends (only the wrappers that hold a vectorDistribution.Hmm)
		if o.v != nil {
			for _, cj := range s.Cls {
				so.Cls = append(so.Cls, observeCls(o, c, s, cj))
			}
		}
		obs.Seqs = append(obs.Seqs, so)
	}
	return obs, nil
}

func zl(xs []int) string {
	s := make([]string, len(xs))
	for i, x := range xs {
		s[i] = "(" + ZI(x) + ")%Z"
	}
	return List(s)
}

func stateMap(c Case) []int {
	if c.Map != nil {
		return c.Map
	}
	// newHmm: a nil state map is the identity
	r := make([]int, c.M)
	for i := range r {
		r[i] = i
	}
	return r
}

func coqH(c Case, obs HObs) string {
	var seqs []string
	for si, s := range c.Seqs {
		so := obs.Seqs[si]
		marg := "None"
		if so.MargOk {
			marg = "(Some " + GLL(so.Marg) + ")"
		}
		post := make([]string, len(s.Sets))
		for i, sets := range s.Sets {
			g := G(so.Post[i])
			if so.PostE[i] {
				g = "GErr"
			}
			post[i] = "(" + NLL(sets) + ", " + g + ")"
		}
		bg := append(bitsOf(so.GA), bitsOf(so.GB)...)
		bo := append(bitsOf(so.OA), bitsOf(so.OB)...)
		seqs = append(seqs, fmt.Sprintf("mkSeq %d %s %s (%s) %s %s %s %s %s%%Z %s%%Z %s %s %s %s",
			s.N, QLL(emTable(c, s)), FLL(so.EmF), G(so.LogPdf), GLL(so.GA), GLL(so.GB), GLL(so.OA), GLL(so.OB),
			ZList(bg), ZList(bo), marg, List(post), NL(so.Vit), clsCoq(so.Cls)))
	}
	return fmt.Sprintf("CH (mkH %d %s %s %s %s %s %s %s %s %s %s %s %s)",
		c.M, QL(c.Pi), QLL(c.Tr), NL(stateMap(c)), zl(c.Start), zl(c.Final),
		GL(obs.Pi), GLL(obs.Tr), GLL(obs.Tf), FList(obs.Pi), FLL(obs.Tr), FLL(obs.Tf),
		"["+strings.Join(seqs, ";\n     ")+"]")
}

// a case on which the implementation crashed or refused: can never match
func coqBroken(c Case) string {
	return fmt.Sprintf("CH (mkH %d [] [] [] [] [] [] [] [] [] [] [] [mkSeq 1 [] [] GErr [] [] [] [] [] [] None [] [] []])", c.M)
}

// ---------------------------------------------------------------- mixtures

type MObs struct {
	W    []float64
	Log  float64
	Post []float64
	PErr []bool
	Lik  []float64
	LErr []bool
}

func observeMix(c Case) (obs MObs, err error) {
	defer func() {
		if r := recover(); r != nil {
			err = fmt.Errorf("panic: %v", r)
		}
	}()
	w := mkVec(c.Real, c.W)
	var gm *generic.Mixture
	var rec generic.MixtureDataRecord
	var sm *scalarDistribution.Mixture
	var vm *vectorDistribution.Mixture
	var xv ad.ConstVector
	x := ad.NewFloat64(float64(c.X))
	if c.Kind == "mixvec" {
		// round 6: vectorDistribution.Mixture (the wrapper + its MixtureDataRecord), on the clone for odd len(Sel)
		k := len(c.Theta)
		ed := make([]stat.VectorPdf, k)
		for j := range ed {
			sd := make([]stat.ScalarPdf, len(c.XV))
			for d := range sd {
				cd, e := scalarDistribution.NewCategoricalDistribution(mkVec(c.Real, c.Theta[(j+d)%k]))
				if e != nil {
					return obs, e
				}
				sd[d] = cd
			}
			id, e := vectorDistribution.NewScalarId(sd...)
			if e != nil {
				return obs, e
			}
			ed[j] = id
		}
		mx, e := vectorDistribution.NewMixture(w, ed)
		if e != nil {
			return obs, e
		}
		if len(c.Sel)%2 == 1 {
			mx = mx.Clone()
		}
		if mx.Dim() != len(c.XV) {
			return obs, fmt.Errorf("vectorDistribution.Mixture.Dim() = %d for components of dimension %d", mx.Dim(), len(c.XV))
		}
		vm = mx
		gm = &mx.Mixture
		xf := make([]float64, len(c.XV))
		for d, v := range c.XV {
			xf[d] = float64(v)
		}
		xv = ad.NewDenseFloat64Vector(xf)
	} else if c.Kind == "mixcat" {
		ed := make([]stat.ScalarPdf, len(c.Theta))
		for i, th := range c.Theta {
			d, e := scalarDistribution.NewCategoricalDistribution(mkVec(c.Real, th))
			if e != nil {
				return obs, e
			}
			ed[i] = d
		}
		mx, e := scalarDistribution.NewMixture(w, ed)
		if e != nil {
			return obs, e
		}
		sm = mx
		gm = &mx.Mixture
		rec = scalarDistribution.MixtureDataRecord{Edist: ed, X: x}
	} else {
		mx, e := generic.NewMixture(w)
		if e != nil {
			return obs, e
		}
		gm = mx
		lp := make([]float64, len(c.P))
		for i, p := range c.P {
			lp[i] = math.Log(p)
		}
		rec = mixRec{lp}
	}
	for i := 0; i < gm.NComponents(); i++ {
		obs.W = append(obs.W, gm.LogWeights.At(i).GetFloat64())
	}
	r := ad.NewScalar(gm.ScalarType(), 0.0)
	var e error
	if vm != nil {
		e = vm.LogPdf(r, xv)
	} else if sm != nil {
		e = sm.LogPdf(r, x)
	} else {
		e = gm.LogPdf(r, rec)
	}
	if e != nil {
		return obs, e
	}
	obs.Log = r.GetFloat64()
	for _, sel := range c.Sel {
		r1 := ad.NewScalar(gm.ScalarType(), 0.0)
		r2 := ad.NewScalar(gm.ScalarType(), 0.0)
		var e1, e2 error
		if vm != nil {
			e1 = vm.Posterior(r1, xv, sel)
			e2 = vm.Likelihood(r2, xv, sel)
		} else if sm != nil {
			e1 = sm.Posterior(r1, x, sel)
			e2 = sm.Likelihood(r2, x, sel)
		} else {
			e1 = gm.Posterior(r1, rec, sel)
			e2 = gm.Likelihood(r2, rec, sel)
		}
		obs.Post = append(obs.Post, r1.GetFloat64())
		obs.PErr = append(obs.PErr, e1 != nil)
		obs.Lik = append(obs.Lik, r2.GetFloat64())
		obs.LErr = append(obs.LErr, e2 != nil)
	}
	return obs, nil
}

func mixP(c Case) []float64 {
	if c.Kind == "mixvec" {
		k := len(c.Theta)
		p := make([]float64, k)
		for j := range p {
			p[j] = 1
			for d, v := range c.XV {
				p[j] *= c.Theta[(j+d)%k][v]
			}
		}
		return p
	}
	if c.Kind == "mixcat" {
		p := make([]float64, len(c.Theta))
		for i, th := range c.Theta {
			p[i] = th[c.X]
		}
		return p
	}
	return c.P
}

func coqM(c Case, obs MObs) string {
	sel := make([]string, len(c.Sel))
	for i, s := range c.Sel {
		g1, g2 := G(obs.Post[i]), G(obs.Lik[i])
		if obs.PErr[i] {
			g1 = "GErr"
		}
		if obs.LErr[i] {
			g2 = "GErr"
		}
		sel[i] = fmt.Sprintf("(%s, %s, %s)", NL(s), g1, g2)
	}
	return fmt.Sprintf("CM (mkMx %s %s %s (%s) %s)", QL(c.W), QL(mixP(c)), GL(obs.W), G(obs.Log), List(sel))
}

// ---------------------------------------------------------------- generators

var dy8 = []float64{0, 0.125, 0.25, 0.375, 0.5, 0.625, 0.75, 0.875, 1}

func genProb(r *Rng, pzero int) float64 {
	if r.Intn(100) < pzero {
		return 0
	}
	switch r.Intn(4) {
	case 0:
		return []float64{0.25, 0.5, 0.75, 1}[r.Intn(4)]
	case 1:
		return float64(1+r.Intn(15)) / 16
	default:
		return dy8[1+r.Intn(8)]
	}
}

func genSubset(r *Rng, m int, w *CaseWriter, tag string) []int {
	// none / singleton / random subset, sometimes with -1 or a duplicate
	switch r.Pick([]int{5, 3, 4}) {
	case 0:
		w.Count(tag + ":none")
		return nil
	case 1:
		w.Count(tag + ":single")
		return []int{r.Intn(m)}
	}
	var s []int
	for i := 0; i < m; i++ {
		if r.Bool() {
			s = append(s, i)
		}
	}
	if len(s) == 0 {
		s = []int{r.Intn(m)}
	}
	if r.Intn(8) == 0 {
		s = append(s, s[0])
	}
	if r.Intn(10) == 0 {
		s = append(s, -1)
	}
	w.Count(tag + ":subset")
	return s
}

func genSets(r *Rng, m, n int) [][]int {
	sets := make([][]int, n)
	mode := r.Intn(4)
	for k := range sets {
		var s []int
		switch mode {
		case 0: // singletons: one path
			s = []int{r.Intn(m)}
		case 1: // full sets: posterior 1
			for i := 0; i < m; i++ {
				s = append(s, i)
			}
		default:
			for i := 0; i < m; i++ {
				if r.Intn(3) > 0 {
					s = append(s, i)
				}
			}
			if len(s) == 0 {
				s = []int{r.Intn(m)}
			}
			// permuted order
			if len(s) > 1 && r.Bool() {
				s[0], s[len(s)-1] = s[len(s)-1], s[0]
			}
		}
		sets[k] = s
	}
	return sets
}

func genHmm(r *Rng, w *CaseWriter) Case {
	var c Case
	c.Kind = "table"
	if r.Intn(3) == 0 {
		c.Kind = "cat"
	}
	c.Real = r.Intn(5) == 0
	m := r.Pick([]int{0, 2, 5, 5, 4})
	c.M = m
	// state map: nil (identity), or a non-injective map onto [0,ne)
	ne := m
	if m > 1 && r.Intn(3) > 0 {
		ne = r.Range(1, m)
		c.Map = make([]int, m)
		for i := range c.Map {
			c.Map[i] = r.Intn(ne)
		}
		c.Map[r.Intn(m)] = ne - 1 // NEDists = max+1
		w.Count("statemap:noninjective")
	} else if r.Bool() {
		c.Map = make([]int, m)
		for i := range c.Map {
			c.Map[i] = m - 1 - i
		}
		w.Count("statemap:permutation")
	} else {
		w.Count("statemap:nil")
	}
	pz := []int{0, 15, 35}[r.Intn(3)]
	c.Pi = make([]float64, m)
	for {
		nz := false
		for i := range c.Pi {
			c.Pi[i] = genProb(r, pz)
			nz = nz || c.Pi[i] != 0
		}
		if nz {
			break
		}
	}
	c.Tr = make([][]float64, m)
	for i := range c.Tr {
		c.Tr[i] = make([]float64, m)
		for j := range c.Tr[i] {
			c.Tr[i][j] = genProb(r, pz)
		}
		if r.Intn(12) == 0 { // an all-zero row
			for j := range c.Tr[i] {
				c.Tr[i][j] = 0
			}
			w.Count("tr:zero-row")
		}
	}
	c.Start = genSubset(r, m, w, "start")
	c.Final = genSubset(r, m, w, "final")
	nsym := r.Range(2, 3)
	if c.Kind == "cat" {
		c.Theta = make([][]float64, ne)
		for ci := range c.Theta {
			c.Theta[ci] = make([]float64, nsym)
			for s := range c.Theta[ci] {
				c.Theta[ci][s] = genProb(r, 20)
			}
		}
	}
	nseq := r.Range(1, 3)
	for q := 0; q < nseq; q++ {
		var s Seq
		s.N = r.Pick([]int{0, 3, 3, 3, 3, 2, 2})
		if c.Kind == "cat" {
			s.X = make([]int, s.N)
			for k := range s.X {
				s.X[k] = r.Intn(nsym)
			}
		} else {
			ez := []int{0, 0, 10, 25}[r.Intn(4)]
			s.Em = make([][]float64, ne)
			for ci := range s.Em {
				s.Em[ci] = make([]float64, s.N)
				for k := range s.Em[ci] {
					s.Em[ci][k] = genProb(r, ez)
				}
			}
		}
		s.Sets = [][][]int{genSets(r, m, s.N), genSets(r, m, s.N)}
		if r.Intn(10) == 0 { // wrong length: error
			s.Sets = append(s.Sets, genSets(r, m, s.N+1))
		}
		if r.Intn(6) == 0 { // a duplicate inside a set (not a set any more: model follows the code)
			d := genSets(r, m, s.N)
			k := r.Intn(s.N)
			d[k] = append(d[k], d[k][0])
			s.Sets = append(s.Sets, d)
		}
		if c.Kind == "cat" {
			s.Cls = genCls(r, w, m, s.N)
		}
		c.Seqs = append(c.Seqs, s)
	}
	return c
}

func genMix(r *Rng, w *CaseWriter) Case {
	var c Case
	c.Kind = "mixtable"
	switch r.Intn(4) {
	case 0:
		c.Kind = "mixcat"
	case 1:
		c.Kind = "mixvec"
	}
	c.Real = r.Intn(5) == 0
	k := r.Range(1, 4)
	c.M = k
	c.W = make([]float64, k)
	for i := range c.W {
		c.W[i] = genProb(r, 25)
	}
	if r.Intn(15) == 0 {
		for i := range c.W {
			c.W[i] = 0
		}
		w.Count("mix:zero-weights")
	}
	if c.Kind == "mixcat" || c.Kind == "mixvec" {
		nsym := r.Range(2, 3)
		c.Theta = make([][]float64, k)
		for ci := range c.Theta {
			c.Theta[ci] = make([]float64, nsym)
			for s := range c.Theta[ci] {
				c.Theta[ci][s] = genProb(r, 25)
			}
		}
		c.X = r.Intn(nsym)
		if c.Kind == "mixvec" {
			c.X = 0
			c.XV = make([]int, r.Range(1, 3))
			for d := range c.XV {
				c.XV[d] = r.Intn(nsym)
			}
		}
	} else {
		c.P = make([]float64, k)
		for i := range c.P {
			c.P[i] = genProb(r, 25) * float64(int(1)<<uint(r.Intn(3))) // densities may exceed 1
		}
	}
	nsel := r.Range(2, 4)
	for q := 0; q < nsel; q++ {
		var s []int
		for i := 0; i < k; i++ {
			if r.Bool() {
				s = append(s, i)
			}
		}
		switch r.Intn(10) {
		case 0:
			s = append(s, k+r.Intn(2)) // out of bounds: error
		case 1:
			if len(s) > 0 {
				s = append(s, s[0])
			}
		case 2:
			s = []int{}
		}
		if s == nil {
			s = []int{}
		}
		c.Sel = append(c.Sel, s)
	}
	return c
}

// ---------------------------------------------------------------- emit

func isMix(c Case) bool { return strings.HasPrefix(c.Kind, "mix") }

func emit(c Case, w *CaseWriter, key string) {
	if c.Kind == "bw" {
		emitBW(c, w, key)
		return
	}
	if c.Kind == "chmm" || c.Kind == "hhmm" || c.Kind == "pre" {
		emitCH(c, w, key)
		return
	}
	if c.Kind == "hist" {
		emitHist(c, w, key)
		return
	}
	if c.Kind == "ctor0" {
		emitCtor0(c, w, key)
		return
	}
	if isMix(c) {
		obs, err := observeMix(c)
		if err != nil {
			w.Count("outcome:error/" + c.Kind)
			w.Add("XC (CM (mkMx [] [] [GErr] GErr []))", c, key, false)
			return
		}
		nz := 0
		for _, x := range c.W {
			if x != 0 {
				nz++
			}
		}
		w.Count("kind:" + c.Kind)
		w.Add("XC ("+coqM(c, obs)+")", c, key, nz >= 2)
		return
	}
	obs, err := observe(c)
	if err != nil {
		w.Count("outcome:error/" + c.Kind)
		w.Extra["last_error"] = err.Error()
		w.Add("XC ("+coqBroken(c)+")", c, key, false)
		return
	}
	w.Count("kind:" + c.Kind)
	if c.Real {
		w.Count("scalar:Real64")
	}
	w.Count(fmt.Sprintf("states:%d", c.M))
	nontriv := false
	for si, s := range c.Seqs {
		w.Count(fmt.Sprintf("length:%d", s.N))
		so := obs.Seqs[si]
		if math.IsInf(so.LogPdf, -1) {
			w.Count("likelihood:zero")
		} else {
			w.Count("likelihood:positive")
			if c.M >= 2 && s.N >= 3 {
				nontriv = true
			}
		}
	}
	w.Add("XC ("+coqH(c, obs)+")", c, key, nontriv)
}

const hdr = "From Coq Require Import List ZArith QArith Floats. Import ListNotations.\nFrom ADV Require Import C15.Model C15.ModelCH C15.ModelSet C15.Corr C15.CorrCH.\nOpen Scope nat_scope.\n"

func main() {
	o := ParseFlags()
	if o.Extra == "hunt" {
		hunt(o)
		return
	}
	if o.Replay != "" {
		b, err := os.ReadFile(o.Replay)
		if err != nil {
			Die("%v", err)
		}
		var rp struct {
			Case Case `json:"case"`
		}
		if err := json.Unmarshal(b, &rp); err != nil {
			Die("%v", err)
		}
		w := NewCaseWriter(o.Out, "replay", hdr, "xmism", 1000)
		w.Type = "xcase"
		emit(rp.Case, w, "replay")
		w.Flush()
		return
	}
	w := NewCaseWriter(o.Out, "cases", hdr, "xmism", 5)
	w.Type = "xcase"
	w.Rule = "random HMMs (1-4 states, sequence length 1-6, 1-3 sequences per model, probabilities k/16 with zeros, unnormalised rows, all-zero rows, nil/permuted/non-injective state maps, start/final restrictions incl. -1 and duplicates, emission tables or categorical emissions through vectorDistribution.Hmm, Float64 or Real64 parameters) and mixtures (1-4 components, table or categorical); an HMM case is non-trivial iff it has >= 2 states and a sequence of length >= 3 with positive likelihood, a mixture iff >= 2 non-zero weights; a Baum-Welch case (2-4 records of different lengths on one thread, both record orders, poisoned work memory) is non-trivial iff it has >= 2 states, a longer record directly before a shorter one and the step succeeds; a setter history (1-5 calls of SetStartStates / SetFinalStates / SetParameters / Clone after the constructor, then sequences of every length 1..n, n in 2..4) is non-trivial iff it has >= 2 states, a SetParameters after an accepted SetFinalStates and a sequence of length >= 2 with positive likelihood; round 6: histories also contain ImportConfig(json(ExportConfig())) round trips (incl. the panicking one after SetStartStates({-1})), every sequence of a model built on vectorDistribution.Hmm carries 1-3 vectorClassifier.HmmPosterior / HmmClassifier Eval calls (state lists: subset in any order / all / empty / repeated / out of range; result vector of the right or a wrong length; on the classifier and its clone), mixtures also through vectorDistribution.Mixture with ScalarId components (and its Clone); round 7: mixtures with 2-4 components whose Posterior / Likelihood are called on every ordering of every component subset (k <= 3) or on the descending and a random order of every subset (k = 4); HMM (fresh work matrices) and Baum-Welch cases (recycled work matrices, both record orders) with an exactly-zero emission density forced at an interior position of every record of length >= 3; distinct = distinct input"
	corpus, _ := os.ReadFile(o.Extra)
	if len(corpus) > 0 {
		for _, line := range strings.Split(string(corpus), "\n") {
			line = strings.TrimSpace(line)
			if line == "" || strings.HasPrefix(line, "#") {
				continue
			}
			var c Case
			if err := json.Unmarshal([]byte(line), &c); err != nil {
				Die("corpus: %v", err)
			}
			emit(c, w, "corpus:"+line)
			w.Count("corpus")
		}
	}
	rng := NewRng(o.Seed)
	for k := 0; k < o.N; k++ {
		r := rng.Split()
		var c Case
		if k%5 == 4 {
			c = genMix(r, w)
		} else if k%5 == 3 {
			// Baum-Welch data set, in the generated and in the reversed record order
			c = genBW(r, w)
			b, _ := json.Marshal(c)
			emit(c, w, string(b))
			c = reversedBW(c)
		} else {
			c = genHmm(r, w)
		}
		b, _ := json.Marshal(c)
		emit(c, w, string(b))
	}
	// round 3: constrained / hierarchical HMMs, matrixDistribution.Hmm / ShapeHmm, Posterior precondition
	rng3 := NewRng(o.Seed*1000003 + 15)
	for k := 0; k < o.N*4/15; k++ {
		r := rng3.Split()
		var c Case
		switch k % 8 {
		case 0, 3, 6:
			c = genChmm(r, w)
		case 1, 4:
			c = genHhmm(r, w)
		case 2, 7:
			c = genMat(r, w)
		default:
			c = genPre(r, w)
		}
		b, _ := json.Marshal(c)
		emit(c, w, string(b))
	}
	// round 5: setter histories (SetStartStates / SetFinalStates / SetParameters / Clone in any order)
	rng5 := NewRng(o.Seed*1000003 + 515)
	for k := 0; k < o.N*2/5; k++ {
		r := rng5.Split()
		c := genHist(r, w)
		b, _ := json.Marshal(c)
		emit(c, w, string(b))
	}
	// round 7: mixtures over component subsets in every order; zero emission density at interior
	// positions on fresh (table) and on recycled (bw, both record orders) work matrices
	rng7 := NewRng(o.Seed*1000003 + 715)
	for k := 0; k < o.N/5; k++ {
		r := rng7.Split()
		var c Case
		switch k % 3 {
		case 0:
			c = genMixSub(r, w)
		case 1:
			c = genHmmZero(r, w)
		default:
			c = genBWZero(r, w)
			b, _ := json.Marshal(c)
			emit(c, w, string(b))
			c = reversedBW(c)
		}
		b, _ := json.Marshal(c)
		emit(c, w, string(b))
	}
	if err := w.Flush(); err != nil {
		Die("%v", err)
	}
}
