// Property-level oracle on the implementation (independent of the Coq model):
// brute-force enumeration of all hidden paths in float64 probability space,
// compared with what the library reports.  Used by the hunt only.
package main

import (
	"encoding/json"
	"fmt"
	"math"
	"os"

	. "adharness/common"

	ad "github.com/pbenner/autodiff"
)

const otol = 1e-9

func near(got, want float64) bool {
	if want == 0 {
		return got == 0
	}
	return math.Abs(got-want) <= otol*math.Abs(want)
}
func expv(v float64) float64 {
	if math.IsInf(v, -1) {
		return 0
	}
	return math.Exp(v)
}

func normVec(v []float64) []float64 {
	s := 0.0
	for _, x := range v {
		s += x
	}
	r := make([]float64, len(v))
	copy(r, v)
	if s == 0 {
		return r
	}
	for i := range r {
		r[i] /= s
	}
	return r
}
func member(i int, l []int) bool {
	for _, x := range l {
		if x == i {
			return true
		}
	}
	return false
}
func normRows(t [][]float64) [][]float64 {
	r := make([][]float64, len(t))
	for i := range t {
		s := 0.0
		for _, x := range t[i] {
			s += x
		}
		r[i] = make([]float64, len(t[i]))
		if s == 0 {
			r[i][i] = 1
			continue
		}
		for j := range t[i] {
			r[i][j] = t[i][j] / s
		}
	}
	return r
}

// the parameters the documentation promises: Pi restricted to the start
// states and renormalised, Tr row-normalised, Tf = Tr restricted to final
// states and renormalised (rows without mass become self loops, as coded)
func specParams(c Case) (pi []float64, tr, tf [][]float64) {
	pi = normVec(c.Pi)
	if len(c.Start) > 0 {
		for i := range pi {
			if !member(i, c.Start) {
				pi[i] = 0
			}
		}
		pi = normVec(pi)
	}
	tr = normRows(c.Tr)
	tf = tr
	if len(c.Final) > 0 {
		t := make([][]float64, len(tr))
		for i := range tr {
			t[i] = make([]float64, len(tr))
			for j := range tr[i] {
				if member(j, c.Final) {
					t[i][j] = tr[i][j]
				}
			}
		}
		tf = normRows(t)
	}
	return
}

type brute struct {
	m, n   int
	pi     []float64
	tr, tf [][]float64
	smap   []int
	em     [][]float64
}

func (b *brute) T(k int) [][]float64 {
	if k < b.n-1 {
		return b.tr
	}
	return b.tf
}
func (b *brute) weight(p []int) float64 {
	if len(p) == 0 {
		return 1 // the empty sequence: LogPdf = 0.0
	}
	w := b.pi[p[0]] * b.em[b.smap[p[0]]][0]
	for k := 1; k < len(p); k++ {
		w *= b.T(k)[p[k-1]][p[k]] * b.em[b.smap[p[k]]][k]
	}
	return w
}
func (b *brute) each(n int, f func(p []int)) {
	p := make([]int, n)
	var rec func(k int)
	rec = func(k int) {
		if k == n {
			f(p)
			return
		}
		for x := 0; x < b.m; x++ {
			p[k] = x
			rec(k + 1)
		}
	}
	rec(0)
}

func setsOK(sets [][]int, m int) (nodup bool) {
	for _, s := range sets {
		seen := map[int]bool{}
		for _, x := range s {
			if seen[x] || x < 0 || x >= m {
				return false
			}
			seen[x] = true
		}
	}
	return true
}

func propCheck(c Case) string {
	if c.Kind == "bw" {
		return propCheckBW(c)
	}
	if isMix(c) {
		return propCheckMix(c)
	}
	if c.Kind == "chmm" || c.Kind == "hhmm" {
		return propCheckCH(c)
	}
	if c.Kind == "hist" {
		return propCheckHist(c)
	}
	if c.Kind == "ctor0" {
		return propCheckCtor0(c)
	}
	if c.Kind == "pre" {
		p, _ := observePre(c)
		want := false
		for _, s := range c.ZSets {
			for _, x := range s {
				if x < 0 || x >= c.M {
					want = true
				}
			}
		}
		if p != want && len(c.ZSets) == c.Seqs[0].N {
			return fmt.Sprintf("Posterior panicked = %v on %v with %d states", p, c.ZSets, c.M)
		}
		return ""
	}
	obs, err := observe(c)
	if err != nil {
		return "implementation failed: " + err.Error()
	}
	m := c.M
	pi, tr, tf := specParams(c)
	for i := 0; i < m; i++ {
		if !near(expv(obs.Pi[i]), pi[i]) {
			return fmt.Sprintf("Pi[%d] = %g, expected %g (start-state restriction / normalisation)", i, expv(obs.Pi[i]), pi[i])
		}
		for j := 0; j < m; j++ {
			if !near(expv(obs.Tr[i][j]), tr[i][j]) {
				return fmt.Sprintf("Tr[%d][%d] = %g, expected %g", i, j, expv(obs.Tr[i][j]), tr[i][j])
			}
			if !near(expv(obs.Tf[i][j]), tf[i][j]) {
				return fmt.Sprintf("Tf[%d][%d] = %g, expected %g (final-state restriction)", i, j, expv(obs.Tf[i][j]), tf[i][j])
			}
		}
	}
	return propSeqs(c, obs, pi, tr, tf)
}

// inference of every sequence against the brute-force enumeration with the given parameters
func propSeqs(c Case, obs HObs, pi []float64, tr, tf [][]float64) string {
	m := c.M
	smap := c.Map
	if smap == nil {
		smap = make([]int, m)
		for i := range smap {
			smap[i] = i
		}
	}
	for si, s := range c.Seqs {
		so := obs.Seqs[si]
		n := s.N
		b := &brute{m, n, pi, tr, tf, smap, emTable(c, s)}
		total := 0.0
		best := 0.0
		marg := make([][]float64, n)
		for k := range marg {
			marg[k] = make([]float64, m)
		}
		setsum := make([]float64, len(s.Sets))
		b.each(n, func(p []int) {
			w := b.weight(p)
			total += w
			if w > best {
				best = w
			}
			for k, x := range p {
				marg[k][x] += w
			}
			for q, sets := range s.Sets {
				if len(sets) != n {
					continue
				}
				in := true
				for k, x := range p {
					if !member(x, sets[k]) {
						in = false
						break
					}
				}
				if in {
					setsum[q] += w
				}
			}
		})
		tag := fmt.Sprintf("sequence %d: ", si)
		if !near(expv(so.LogPdf), total) {
			return tag + fmt.Sprintf("exp(LogPdf) = %g, enumeration of all %d^%d paths gives %g", expv(so.LogPdf), m, n, total)
		}
		// forward: alpha(j,k) = sum over prefixes ending in j
		for k := 0; k < n; k++ {
			al := make([]float64, m)
			b.each(k+1, func(p []int) { al[p[k]] += b.weight(p) })
			for j := 0; j < m; j++ {
				if !near(expv(so.GA[k][j]), al[j]) {
					return tag + fmt.Sprintf("forward alpha(%d,%d) = %g, enumeration gives %g", j, k, expv(so.GA[k][j]), al[j])
				}
				if !near(expv(so.OA[k][j]), al[j]) {
					return tag + fmt.Sprintf("float64-specialised alpha(%d,%d) = %g, enumeration gives %g", j, k, expv(so.OA[k][j]), al[j])
				}
			}
			// alpha*beta summed over the state is the likelihood at every position
			ab, abo := 0.0, 0.0
			for j := 0; j < m; j++ {
				ab += expv(so.GA[k][j]) * expv(so.GB[k][j])
				abo += expv(so.OA[k][j]) * expv(so.OB[k][j])
				if !near(expv(so.GA[k][j])*expv(so.GB[k][j]), marg[k][j]) {
					return tag + fmt.Sprintf("alpha*beta at state %d position %d = %g, paths through it sum to %g", j, k, expv(so.GA[k][j])*expv(so.GB[k][j]), marg[k][j])
				}
			}
			if !near(ab, total) {
				return tag + fmt.Sprintf("sum_i alpha*beta at position %d = %g, likelihood %g", k, ab, total)
			}
			if !near(abo, total) {
				return tag + fmt.Sprintf("float64-specialised forward-backward: sum_i alpha*beta at position %d = %g, likelihood %g", k, abo, total)
			}
			for j := 0; j < m; j++ {
				if math.Float64bits(so.GA[k][j]) != math.Float64bits(so.OA[k][j]) || math.Float64bits(so.GB[k][j]) != math.Float64bits(so.OB[k][j]) {
					return tag + fmt.Sprintf("generic and float64-specialised forward-backward differ at (%d,%d)", j, k)
				}
			}
		}
		// marginals
		if total == 0 {
			if so.MargOk {
				return tag + "PosteriorMarginals returned values although every path has probability zero"
			}
		} else {
			if !so.MargOk {
				return tag + "PosteriorMarginals returned an error although the likelihood is positive"
			}
			for k := 0; k < n; k++ {
				sum := 0.0
				for i := 0; i < m; i++ {
					g := expv(so.Marg[k][i])
					sum += g
					if !near(g, marg[k][i]/total) {
						return tag + fmt.Sprintf("posterior marginal of state %d at position %d = %g, enumeration gives %g", i, k, g, marg[k][i]/total)
					}
				}
				if math.Abs(sum-1) > 1e-9 {
					return tag + fmt.Sprintf("posterior marginals at position %d sum to %g", k, sum)
				}
			}
		}
		// posterior of state-set sequences
		for q, sets := range s.Sets {
			if len(sets) != n {
				if !so.PostE[q] {
					return tag + "Posterior accepted a state-set sequence of the wrong length"
				}
				continue
			}
			if so.PostE[q] {
				return tag + "Posterior returned an error"
			}
			if !setsOK(sets, m) {
				continue // not sets
			}
			if total == 0 {
				if !math.IsNaN(so.Post[q]) {
					return tag + "Posterior is not NaN although the likelihood is zero"
				}
				continue
			}
			if !near(expv(so.Post[q]), setsum[q]/total) {
				return tag + fmt.Sprintf("Posterior of state sets %v = %g, enumeration gives %g", sets, expv(so.Post[q]), setsum[q]/total)
			}
		}
		// Viterbi
		if len(so.Vit) != n {
			return tag + "Viterbi path has the wrong length"
		}
		for _, x := range so.Vit {
			if x < 0 || x >= m {
				return tag + "Viterbi path leaves the state space"
			}
		}
		if wv := b.weight(so.Vit); wv < best*(1-otol) {
			return tag + fmt.Sprintf("Viterbi path %v has joint probability %g, the best path has %g", so.Vit, wv, best)
		}
		// round 6: the classifier front-ends
		if r := propCls(tag, c, s, so, b, marg, total, best); r != "" {
			return r
		}
	}
	return ""
}

func propCheckMix(c Case) string {
	obs, err := observeMix(c)
	if err != nil {
		return "implementation failed: " + err.Error()
	}
	sw := 0.0
	for _, x := range c.W {
		sw += x
	}
	if sw == 0 {
		return "" // 0/0 weights: nothing promised
	}
	p := mixP(c)
	total := 0.0
	for j := range c.W {
		if !near(expv(obs.W[j]), c.W[j]/sw) {
			return fmt.Sprintf("mixture weight %d = %g, expected %g", j, expv(obs.W[j]), c.W[j]/sw)
		}
		total += c.W[j] / sw * p[j]
	}
	if !near(expv(obs.Log), total) {
		return fmt.Sprintf("exp(LogPdf) = %g, sum_j w_j p_j = %g", expv(obs.Log), total)
	}
	for q, sel := range c.Sel {
		if !setsOK([][]int{sel}, len(c.W)) {
			continue
		}
		if obs.PErr[q] || obs.LErr[q] {
			return "Posterior/Likelihood returned an error on valid components"
		}
		num, den := 0.0, 0.0
		for _, j := range sel {
			num += c.W[j] / sw * p[j]
			den += c.W[j] / sw
		}
		if total > 0 && !near(expv(obs.Post[q]), num/total) {
			return fmt.Sprintf("Posterior(%v) = %g, expected %g", sel, expv(obs.Post[q]), num/total)
		}
		if den > 0 && !near(expv(obs.Lik[q]), num/den) {
			return fmt.Sprintf("Likelihood(%v) = %g, expected %g", sel, expv(obs.Lik[q]), num/den)
		}
	}
	// round 7: complementary component subsets (the complement listed in descending order)
	return propMixComplement(c, obs, total)
}

// ---------------------------------------------------------------- shrinking

func shrink(c Case) Case {
	if c.Kind == "bw" {
		return shrinkBW(c)
	}
	if isMix(c) {
		return shrinkMix(c)
	}
	if c.Kind == "ctor0" {
		return c
	}
	if c.Kind == "hist" {
		return shrinkHist(c)
	}
	fails := func(x Case) bool { return propCheck(x) != "" }
	// a single sequence
	for _, s := range c.Seqs {
		x := c
		x.Seqs = []Seq{s}
		if fails(x) {
			c = x
			break
		}
	}
	try := func(f func(x *Case)) {
		var x Case // deep copy
		b, _ := json.Marshal(c)
		json.Unmarshal(b, &x)
		f(&x)
		if fails(x) {
			c = x
		}
	}
	try(func(x *Case) { x.Real = false })
	try(func(x *Case) { x.Start = nil })
	try(func(x *Case) { x.Final = nil })
	try(func(x *Case) {
		for i := range x.Seqs {
			x.Seqs[i].Sets = nil
		}
	})
	// classifier calls: none, else a single one
	try(func(x *Case) {
		for i := range x.Seqs {
			x.Seqs[i].Cls = nil
		}
	})
	if len(c.Seqs) == 1 {
		for _, cj := range c.Seqs[0].Cls {
			cj := cj
			n1 := len(c.Seqs[0].Cls)
			try(func(x *Case) { x.Seqs[0].Cls = []ClsJ{cj} })
			if len(c.Seqs[0].Cls) < n1 {
				break
			}
		}
	}
	// shorter sequence
	for len(c.Seqs) == 1 && c.Seqs[0].N > 1 {
		n0 := c.Seqs[0].N
		try(func(x *Case) {
			s := &x.Seqs[0]
			s.N--
			for q := range s.Cls {
				if s.Cls[q].Rdim > 0 {
					s.Cls[q].Rdim--
				}
			}
			if s.X != nil {
				s.X = s.X[:s.N]
			}
			for ci := range s.Em {
				s.Em[ci] = s.Em[ci][:s.N]
			}
			for q := range s.Sets {
				if len(s.Sets[q]) > s.N {
					s.Sets[q] = s.Sets[q][:s.N]
				}
			}
		})
		if c.Seqs[0].N == n0 {
			break
		}
	}
	return c
}

// ---------------------------------------------------------------- exhaustive grid

var vals5 = []float64{0, 0.25, 0.5, 0.75, 1}
var rows5 = [][]float64{{1, 0}, {0, 1}, {0.5, 0.5}, {0.25, 0.75}, {0.75, 0.25}}

const gridTotal = 5 * 36 * 625 * 9

// 2-state models with probabilities in {0,1/4,1/2,3/4,1}, categorical emissions
// over two symbols, every observation sequence of length <= 4
func gridCase(idx int) Case {
	var c Case
	c.Kind = "cat"
	c.M = 2
	c.Pi = rows5[idx%5]
	idx /= 5
	rows6 := append([][]float64{{0, 0}}, rows5...)
	c.Tr = [][]float64{rows6[idx%6], rows6[(idx/6)%6]}
	idx /= 36
	th := idx % 625
	idx /= 625
	c.Theta = [][]float64{{vals5[th%5], vals5[(th/5)%5]}, {vals5[(th/25)%5], vals5[(th/125)%5]}}
	restr := [][]int{nil, {0}, {1}}
	c.Start = restr[idx%3]
	c.Final = restr[(idx/3)%3]
	for n := 1; n <= 4; n++ {
		for x := 0; x < 1<<uint(n); x++ {
			s := Seq{N: n, X: make([]int, n)}
			for k := 0; k < n; k++ {
				s.X[k] = (x >> uint(k)) & 1
			}
			c.Seqs = append(c.Seqs, s)
		}
	}
	return c
}

// hunt: look for an input on which the PROPERTY fails on the implementation:
// first the cases of the replay file (correspondence mismatches), then the
// committed corpus is not needed here; then a stride through the exhaustive
// 2-state grid, then fresh random cases.
func hunt(o Opts) {
	type res struct {
		Found   bool   `json:"found"`
		Failure string `json:"failure"`
		Case    Case   `json:"case"`
		Tried   int    `json:"tried"`
		Grid    int    `json:"grid_models"`
		GridMix int    `json:"grid_mixtures"`
		Known   []Known `json:"known"`
	}
	var r res
	report := func(c Case) {
		c = shrink(c)
		r.Found, r.Failure, r.Case = true, propCheck(c), c
	}
	done := false
	if o.Replay != "" {
		if b, err := os.ReadFile(o.Replay); err == nil {
			var rp struct {
				Cases []Case `json:"cases"`
			}
			json.Unmarshal(b, &rp)
			// a witness on the public Baum-Welch path (no poisoned memory) is preferred
			bwPublicOnly = true
			for _, c := range rp.Cases {
				if c.Kind == "bw" && propCheck(c) != "" {
					r.Tried++
					report(c)
					done = true
					break
				}
			}
			bwPublicOnly = false
			for _, c := range rp.Cases {
				if done {
					break
				}
				r.Tried++
				if propCheck(c) != "" {
					report(c)
					done = true
					break
				}
			}
		}
	}
	ngrid := o.N
	if o.Tier == "thorough" {
		ngrid = o.N * 10
	}
	if ngrid > gridTotal || o.N < 0 {
		ngrid = gridTotal
	}
	for k := 0; k < ngrid && !done; k++ {
		idx := int((uint64(k)*7919*104729 + o.Seed*31) % gridTotal)
		c := gridCase(idx)
		r.Tried++
		r.Grid++
		if propCheck(c) != "" {
			report(c)
			done = true
		}
	}
	// round 7: exhaustive mixture grid (3 components, every ordering of every component subset)
	if o.N > 0 {
		for idx := 0; idx < mixGridTotal && !done; idx++ {
			c := mixGridCase(idx)
			r.Tried++
			r.GridMix++
			if propCheck(c) != "" {
				report(c)
				done = true
			}
		}
	}
	if !done {
		rng := NewRng(o.Seed + 7919)
		w := NewCaseWriter(o.Out, "huntcases", "", "mism", 1000)
		for k := 0; k < o.N/2 && !done; k++ {
			rr := rng.Split()
			var c Case
			if k%3 == 1 {
				c = genHist(rr, w)
			} else if k%7 == 5 {
				c = genChmm(rr, w)
			} else if k%7 == 6 {
				c = genHhmm(rr, w)
			} else if k%5 == 4 {
				if k%2 == 0 {
					c = genMixSub(rr, w)
				} else {
					c = genMix(rr, w)
				}
			} else if k%5 == 3 {
				if k%4 == 1 {
					c = genBWZero(rr, w)
				} else {
					c = genBW(rr, w)
				}
				if k%10 == 8 {
					c = reversedBW(c)
				}
			} else if k%4 == 2 {
				c = genHmmZero(rr, w)
			} else {
				c = genHmm(rr, w)
			}
			r.Tried++
			if propCheck(c) != "" {
				report(c)
				done = true
			}
		}
	}
	r.Known = knownCheck()
	b, _ := json.MarshalIndent(r, "", " ")
	os.MkdirAll(o.Out, 0755)
	os.WriteFile(o.Out+"/hunt.json", b, 0644)
}

// ---------------------------------------------------------------- known finding

type Known struct {
	Id    string `json:"id"`
	Still bool   `json:"still"`
	What  string `json:"what"`
}

// F-C15-TF-SELFLOOP: SetFinalStates renormalises the masked transition matrix
// with HmmTransitionMatrix.Normalize, which turns a row without any mass on
// the final states into a self loop -- also for a state that is not final.
// Witness: identity transitions, final states {1}: sequences may still end in
// state 0 (Viterbi returns [0 0], the posterior of state 0 at the last
// position is 0.8).  The model follows the code; the enumeration of the
// property uses Tf as the library builds it.
func knownCheck() []Known {
	c := Case{Kind: "table", M: 2, Pi: []float64{0.5, 0.5}, Tr: [][]float64{{1, 0}, {0, 1}}, Final: []int{1},
		Seqs: []Seq{{N: 2, Em: [][]float64{{0.5, 0.5}, {0.25, 0.25}}}}}
	k := Known{Id: "F-C15-TF-SELFLOOP"}
	obs, err := observe(c)
	if err == nil && len(obs.Seqs) == 1 && len(obs.Seqs[0].Vit) == 2 {
		last := obs.Seqs[0].Vit[1]
		if last == 0 && expv(obs.Tf[0][0]) == 1 && obs.Seqs[0].MargOk && expv(obs.Seqs[0].Marg[1][0]) > 0 {
			k.Still = true
			k.What = fmt.Sprintf("final states {1}, Tr = identity: Tf[0][0] = %g, Viterbi path %v ends in the non-final state 0, posterior of state 0 at the last position %g",
				expv(obs.Tf[0][0]), obs.Seqs[0].Vit, expv(obs.Seqs[0].Marg[1][0]))
		}
	}
	return append(append([]Known{k}, knownCheckCH()...), knownCheckHist()...)
}

// round 3: final-state restriction on hierarchical / constrained HMMs (fixed witnesses,
// the same as in coq/C15/PropsCH.v) and NaN matrices of the hierarchical HMM
func knownCheckCH() []Known {
	var out []Known
	whTr := [][]float64{{0.5, 0.25, 0.125, 0.125}, {0.25, 0.25, 0.5, 0.25}, {0.5, 0.25, 0.25, 1}, {0.25, 0.25, 0.5, 0.5}}
	tree := &TreeJ{A: 0, B: 4, Ch: []TreeJ{{A: 0, B: 2}, {A: 2, B: 4}}}
	pi4 := []float64{0.25, 0.25, 0.25, 0.25}
	hh := func(tr [][]float64, final []int) (*hmmObj, error) {
		return build(Case{Kind: "hhmm", M: 4, Pi: pi4, Tr: tr, Tree: tree, Final: final})
	}
	// F-C15-HHMM-FINAL-NAN: final states {3}, leaf {0,1} has no final state
	k1 := Known{Id: "F-C15-HHMM-FINAL-NAN"}
	if o, err := hh(whTr, []int{3}); err == nil && math.IsNaN(o.g.Tf.At(0, 0).GetFloat64()) {
		r := ad.NullFloat64()
		rec := tableRec{[][]float64{{0, 0}, {0, 0}, {0, 0}, {0, 0}}, 2}
		o.g.LogPdf(r, rec)
		if math.IsNaN(r.GetFloat64()) {
			k1.Still = true
			k1.What = "leaves {0,1},{2,3}, final states {3}: Tf rows 0,1 are NaN, LogPdf of a length-2 sequence is NaN"
		}
	}
	// F-C15-HHMM-FINAL-LEAK: final states {1,3}, Tf(0,2) > 0
	k2 := Known{Id: "F-C15-HHMM-FINAL-LEAK"}
	if o, err := hh(whTr, []int{1, 3}); err == nil {
		if v := expv(o.g.Tf.At(0, 2).GetFloat64()); v > 0.2 && v < 0.3 {
			k2.Still = true
			k2.What = fmt.Sprintf("leaves {0,1},{2,3}, final states {1,3}: Tf[0][2] = %g for the non-final state 2 (12/49)", v)
		}
	}
	// F-C15-HHMM-ZEROROW-NAN: a leaf row without mass inside its leaf
	k3 := Known{Id: "F-C15-HHMM-ZEROROW-NAN"}
	zr := [][]float64{{0, 0, 0.125, 0.125}, whTr[1], whTr[2], whTr[3]}
	if o, err := hh(zr, nil); err == nil && math.IsNaN(o.g.Tr.At(0, 0).GetFloat64()) {
		k3.Still = true
		k3.What = "row 0 has no mass inside its leaf {0,1}: NewHhmmTransitionMatrix and NewHmm return no error, Tr rows 0,1 are NaN"
	}
	// F-C15-CHMM-FINAL-TIE: cells (0,0),(0,1) tied, final states {1}
	k4 := Known{Id: "F-C15-CHMM-FINAL-TIE"}
	cc := Case{Kind: "chmm", M: 3, Pi: []float64{0.5, 0.25, 0.25}, Tr: [][]float64{{0.5, 0.25, 0.25}, {0.25, 0.25, 0.5}, {0.5, 0.25, 0.25}},
		Cons: [][][2]int{{{0, 0}, {0, 1}}}, Final: []int{1}}
	if o, err := build(cc); err == nil {
		if v := expv(o.g.Tf.At(0, 0).GetFloat64()); math.Abs(v-0.5) < 1e-6 {
			k4.Still = true
			k4.What = fmt.Sprintf("constraint {(0,0),(0,1)}, final states {1}: Tf[0][0] = %g for the non-final state 0", v)
		}
	}
	return append(out, k1, k2, k3, k4)
}

// ---------------------------------------------------------------- constrained / hierarchical HMM

func expMat(t [][]float64) [][]float64 {
	r := make([][]float64, len(t))
	for i := range t {
		r[i] = make([]float64, len(t[i]))
		for j := range t[i] {
			r[i][j] = expv(t[i][j])
		}
	}
	return r
}

// Property-level oracle for the wrappers (independent of the Coq model): the constructed Tr is
// row-stochastic, tied cells are equal, forbidden cells stay zero (chmm) / blocks between
// different children are constant (hhmm); inference equals the enumeration with the matrices
// the object holds.  Objects with NaN parameters are the known findings and are skipped.
func propCheckCH(c Case) string {
	o, err := build(c)
	if err != nil {
		return "" // refused input
	}
	obs, err := observeObj(o, c)
	if err != nil {
		return "implementation failed: " + err.Error()
	}
	if hasBad(obs.Tr) || hasBad(obs.Tf) {
		return ""
	}
	m := c.M
	tr, tf := expMat(obs.Tr), expMat(obs.Tf)
	for i := 0; i < m; i++ {
		s := 0.0
		for j := 0; j < m; j++ {
			s += tr[i][j]
		}
		if math.Abs(s-1) > 1e-6 {
			return fmt.Sprintf("row %d of the constructed transition matrix sums to %g", i, s)
		}
	}
	if c.Kind == "chmm" {
		listed := map[[2]int]bool{}
		for _, g := range c.Cons {
			for _, cell := range g {
				listed[cell] = true
				if obs.Tr[cell[0]][cell[1]] != obs.Tr[g[0][0]][g[0][1]] {
					return fmt.Sprintf("tied cells %v and %v differ after Normalize", g[0], cell)
				}
			}
		}
		zrow := make([]bool, m)
		for i := range c.Tr {
			zrow[i] = true
			for _, x := range c.Tr[i] {
				if x != 0 {
					zrow[i] = false
				}
			}
		}
		for i := 0; i < m; i++ {
			for j := 0; j < m; j++ {
				if c.Tr[i][j] == 0 && !listed[[2]int{i, j}] && !(i == j && zrow[i]) && tr[i][j] != 0 {
					return fmt.Sprintf("forbidden transition (%d,%d) has weight %g", i, j, tr[i][j])
				}
			}
		}
	} else {
		var walk func(t TreeJ) string
		walk = func(t TreeJ) string {
			for a := range t.Ch {
				for b := range t.Ch {
					if a == b {
						continue
					}
					ra, rb := t.Ch[a], t.Ch[b]
					for i := ra.A; i < ra.B; i++ {
						for j := rb.A; j < rb.B; j++ {
							if !near(tr[i][j], tr[ra.A][rb.A]) {
								return fmt.Sprintf("block (%d..%d) x (%d..%d) of the hierarchical matrix is not constant", ra.A, ra.B, rb.A, rb.B)
							}
						}
					}
				}
				if r := walk(t.Ch[a]); r != "" {
					return r
				}
			}
			return ""
		}
		if r := walk(*c.Tree); r != "" {
			return r
		}
	}
	pi := make([]float64, m)
	for i := range pi {
		pi[i] = expv(obs.Pi[i])
	}
	return propSeqs(c, obs, pi, tr, tf)
}
