// Property-level oracle for C11 (independent of the Coq model): a dense shadow
// (plain value lists, copy semantics for Slice/Append/Clone) is run next to
// the implementation; after every operation the coherence invariant is checked
// on the hook dump of every vector, every in-range read must succeed and agree
// with the shadow, the iteration must visit exactly the non-zero positions in
// ascending order, and dimensions must not change.  Plus delta-debugging shrink.
package main

import (
	"encoding/json"
	"fmt"
	"os"
	"sort"

	. "adharness/common"
)

func nonzero(l []int64, from int64) []int64 {
	r := []int64{}
	for i, x := range l {
		if x != 0 && int64(i) >= from {
			r = append(r, int64(i), x)
		}
	}
	return r
}
func eqList(a, b []int64) bool {
	if len(a) != len(b) {
		return false
	}
	for i := range a {
		if a[i] != b[i] {
			return false
		}
	}
	return true
}
func cp(l []int64) []int64 { return append([]int64{}, l...) }

func isPerm(p []int64, n int) bool {
	if len(p) != n {
		return false
	}
	seen := make([]bool, n)
	for _, x := range p {
		if x < 0 || int(x) >= n || seen[x] {
			return false
		}
		seen[x] = true
	}
	return true
}

// wellFormed: every handle names a vector that exists at that point (assuming
// every creating op succeeds) — needed by the shrinker
func wellFormed(ops []Op) bool {
	n := 0
	for _, o := range ops {
		if o.Op == "New" {
			n++
			continue
		}
		if o.T < 0 || o.T >= n {
			return false
		}
		switch o.Op {
		case "SetV", "Joint":
			if o.U >= n {
				return false
			}
		case "SETV", "AppendV":
			if o.U < 0 || o.U >= n {
				return false
			}
		case "Joint3":
			if o.U >= n || o.W >= n {
				return false
			}
		}
		switch o.Op {
		case "Slice", "AppendV", "AppendS", "AppendD", "Clone":
			n++
		}
	}
	return true
}

// inRange: is the op inside the fragment the property quantifies over, given the shadow dims
func inRange(o Op, sh [][]int64) bool {
	if o.Bad {
		return false
	}
	if o.Op == "New" {
		if len(o.L) != len(o.L2) {
			return false
		}
		seen := map[int64]bool{}
		for _, k := range o.L {
			if k < 0 || k >= o.I || seen[k] {
				return false
			}
			seen[k] = true
		}
		return o.I >= 0
	}
	n := int64(len(sh[o.T]))
	in := func(i int64) bool { return 0 <= i && i < n }
	opdim := func(u int, l []int64) int64 {
		if u < 0 {
			return int64(len(l))
		}
		return int64(len(sh[u]))
	}
	switch o.Op {
	case "At", "SetAt", "ConstAt", "SetVar":
		return in(o.I)
	case "Swap":
		return in(o.I) && in(o.J)
	case "Slice":
		return 0 <= o.I && o.I <= o.J && o.J <= n
	case "Permute":
		return isPerm(o.L, int(n))
	case "SetV", "Joint":
		return opdim(o.U, o.L) == n
	case "SETV":
		return opdim(o.U, nil) == n
	case "Joint3":
		return opdim(o.U, o.L) == n && opdim(o.W, o.L2) == n
	case "MapAdd":
		return o.X == 0
	}
	return true
}

func cellSet(o VecObs) map[uintptr]bool {
	m := map[uintptr]bool{}
	for _, c := range o.Cells {
		if c != 0 {
			m[c] = true
		}
	}
	return m
}
func sharing(obs []VecObs, t int) []int {
	mine := cellSet(obs[t])
	var r []int
	for u := range obs {
		if u == t {
			continue
		}
		for _, c := range obs[u].Cells {
			if mine[c] {
				r = append(r, u)
				break
			}
		}
	}
	return r
}

// invariant on the hook dump + self consistency of one vector
func checkVec(i int, o VecObs, n int) string {
	if o.N != n {
		return fmt.Sprintf("vector %d: Dim()=%d but the history gives it dimension %d (n changes only by Append)", i, o.N, n)
	}
	inIdx := map[int64]bool{}
	for k, x := range o.Index {
		if x < 0 || x >= int64(o.N) {
			return fmt.Sprintf("vector %d: index key %d outside [0,%d)", i, x, o.N)
		}
		if k > 0 && o.Index[k-1] >= x {
			return fmt.Sprintf("vector %d: index keys not strictly ascending", i)
		}
		inIdx[x] = true
	}
	for k, key := range o.Keys {
		if o.Nil[k] {
			return fmt.Sprintf("vector %d: nil placeholder stored at %d", i, key)
		}
		if !inIdx[key] {
			return fmt.Sprintf("vector %d: value stored at %d without an index key", i, key)
		}
	}
	if !o.ReadOK {
		return fmt.Sprintf("vector %d: an in-range read panicked", i)
	}
	if !o.IterOK {
		return fmt.Sprintf("vector %d: Clone or iteration of the clone panicked / did not stop", i)
	}
	if !eqList(o.Iter, nonzero(o.Reads, 0)) {
		return fmt.Sprintf("vector %d: iteration %v is not the ascending list of non-zero positions of %v", i, o.Iter, o.Reads)
	}
	return ""
}

func jointExpect(a []int64, ops [][]int64, dense []bool) []int64 {
	// union of: non-zero positions of the sparse operands and ALL positions of dense operands
	n := len(a)
	for _, o := range ops {
		if len(o) > n {
			n = len(o)
		}
	}
	r := []int64{}
	for i := 0; i < n; i++ {
		vis := i < len(a) && a[i] != 0
		for k, o := range ops {
			if i < len(o) && (dense[k] || o[i] != 0) {
				vis = true
			}
		}
		if !vis {
			continue
		}
		r = append(r, int64(i))
		if i < len(a) && a[i] != 0 {
			r = append(r, 1, a[i])
		} else {
			r = append(r, 0, 0)
		}
		for _, o := range ops {
			if i < len(o) {
				r = append(r, o[i])
			} else {
				r = append(r, 0)
			}
		}
	}
	return r
}

// propCheck runs the history on the implementation next to the dense shadow.
// Returns the first property failure ("" if none) and the op index.
func propCheck(c Case) (fail string, at int) {
	if !wellFormed(c.Ops) {
		return "", -1
	}
	defer func() {
		if r := recover(); r != nil {
			fail, at = fmt.Sprintf("harness-level panic: %v", r), -1
		}
	}()
	w := &World{Type: c.Type}
	var sh [][]int64 // shadow values
	for k, o := range c.Ops {
		if o.Op != "New" && o.T >= len(w.V) {
			return "", -1 // a creating op failed earlier (only after malformed ops)
		}
		valid := inRange(o, sh)
		if !valid {
			// outside the quantifier: from here on only resynchronise
			w.execOne(o)
			obs, _ := w.observe()
			if len(obs) != len(sh) {
				for len(sh) < len(obs) {
					sh = append(sh, nil)
				}
			}
			for i := range obs {
				if !obs[i].ReadOK {
					return "", -1 // the malformed op broke the vector; nothing more to say
				}
				sh[i] = cp(obs[i].Reads)
			}
			// after a malformed op the invariant is not promised: stop judging this history
			return "", -1
		}
		pre, _ := w.observe()
		taint := map[int]bool{}
		writes := func(t int) {
			for _, u := range sharing(pre, t) {
				taint[u] = true
			}
		}
		operand := func(u int, l []int64) []int64 {
			if u < 0 {
				return l
			}
			return sh[u]
		}
		var expP []int64
		checkP := true
		nsh := len(sh)
		switch o.Op {
		case "New":
			s := make([]int64, o.I)
			for i, k := range o.L {
				s[k] = o.L2[i]
			}
			sh = append(sh, s)
		case "At":
			expP = []int64{sh[o.T][o.I]}
		case "SetAt":
			sh[o.T][o.I] = o.X
			writes(o.T)
		case "SetVar":
			sh[o.T][o.I] = o.X + VARW
			writes(o.T)
		case "ConstAt":
			expP = []int64{sh[o.T][o.I]}
		case "SetV", "SETV":
			if o.U >= 0 {
				for _, u := range sharing(pre, o.T) {
					if u == o.U {
						taint[o.T] = true // receiver and operand share cells: aliasing (C08), not judged
					}
				}
			}
			if o.U != o.T || o.U < 0 {
				sh[o.T] = cp(operand(o.U, o.L))
			}
			writes(o.T)
		case "Reset":
			for i := range sh[o.T] {
				sh[o.T][i] = 0
			}
			writes(o.T)
		case "ReverseOrder":
			s := sh[o.T]
			for i, j := 0, len(s)-1; i < j; i, j = i+1, j-1 {
				s[i], s[j] = s[j], s[i]
			}
		case "Swap":
			s := sh[o.T]
			s[o.I], s[o.J] = s[o.J], s[o.I]
		case "Permute":
			s := sh[o.T]
			for i, p := range o.L {
				if int(p) > i {
					s[i], s[p] = s[p], s[i]
				}
			}
		case "Sort":
			s := sh[o.T]
			if o.B {
				sort.Slice(s, func(i, j int) bool { return s[i] > s[j] })
			} else {
				sort.Slice(s, func(i, j int) bool { return s[i] < s[j] })
			}
		case "Slice":
			sh = append(sh, cp(sh[o.T][o.I:o.J]))
		case "AppendV":
			sh = append(sh, append(cp(sh[o.T]), sh[o.U]...))
		case "AppendS", "AppendD":
			sh = append(sh, append(cp(sh[o.T]), o.L...))
		case "MapMul", "MapSetMul":
			for i := range sh[o.T] {
				sh[o.T][i] *= o.X
			}
			writes(o.T)
		case "MapAdd":
		case "ReduceSum":
			s := int64(0)
			for _, x := range sh[o.T] {
				s += x
			}
			expP = []int64{s}
		case "Iterate":
			expP = nonzero(sh[o.T], 0)
		case "IterPart":
			expP = nonzero(sh[o.T], 0)
			if int64(len(expP)) > 2*o.I {
				expP = expP[:2*o.I]
			}
		case "IterFrom":
			expP = nonzero(sh[o.T], o.I)
		case "Clone":
			sh = append(sh, cp(sh[o.T]))
		case "Joint":
			expP = jointExpect(sh[o.T], [][]int64{operand(o.U, o.L)}, []bool{o.U < 0})
		case "Joint3":
			expP = jointExpect(sh[o.T], [][]int64{operand(o.U, o.L), operand(o.W, o.L2)}, []bool{o.U < 0, o.W < 0})
		default:
			checkP = false
		}
		kind, p := w.execOne(o)
		if kind != K_OK {
			return fmt.Sprintf("op %d %s with in-range arguments ended with outcome kind %d (1=panic, 2=error, 7=did not return)", k, o.Op, kind), k
		}
		if len(w.V) != len(sh) {
			return fmt.Sprintf("op %d %s: number of vectors %d, expected %d", k, o.Op, len(w.V), len(sh)), k
		}
		if checkP && expP != nil && !eqList(p, expP) {
			return fmt.Sprintf("op %d %s returned %v, the dense model gives %v", k, o.Op, p, expP), k
		}
		obs, _ := w.observe()
		for i := range obs {
			if f := checkVec(i, obs[i], len(sh[i])); f != "" {
				return fmt.Sprintf("after op %d %s: %s", k, o.Op, f), k
			}
			if taint[i] {
				// a write went through a cell shared with this vector: the plain dense model
				// has no opinion (known finding C11-SLICEWT covers the semantics); resynchronise
				sh[i] = cp(obs[i].Reads)
				continue
			}
			if !eqList(obs[i].Reads, sh[i]) {
				return fmt.Sprintf("after op %d %s: vector %d reads %v, the dense model of the history gives %v", k, o.Op, i, obs[i].Reads, sh[i]), k
			}
		}
		_ = nsh
	}
	return "", -1
}

// ---------------------------------------------------------------- shrinking

// removeOp removes op k; if it created a vector, every later op naming that
// vector is dropped too and higher handles are renumbered.
func removeOp(ops []Op, k int) []Op {
	creates := func(o Op) bool {
		switch o.Op {
		case "New", "Slice", "AppendV", "AppendS", "AppendD", "Clone":
			return true
		}
		return false
	}
	h := -1
	if creates(ops[k]) {
		h = 0
		for _, o := range ops[:k] {
			if creates(o) {
				h++
			}
		}
	}
	var r []Op
	for i, o := range ops {
		if i == k {
			continue
		}
		if h >= 0 && i > k {
			uses := o.Op != "New" && o.T == h
			switch o.Op {
			case "SetV", "Joint", "SETV", "AppendV":
				uses = uses || o.U == h
			case "Joint3":
				uses = uses || o.U == h || o.W == h
			}
			if uses {
				// dropping a creating op recursively would need another pass; refuse instead
				return nil
			}
			if o.Op != "New" && o.T > h {
				o.T--
			}
			switch o.Op {
			case "SetV", "Joint", "SETV", "AppendV", "Joint3":
				if o.U > h {
					o.U--
				}
				if o.Op == "Joint3" && o.W > h {
					o.W--
				}
			}
		}
		r = append(r, o)
	}
	return r
}

func shrink(c Case) Case {
	fails := func(ops []Op) bool {
		if ops == nil || hungTotal >= 3*maxHung {
			return false // every replay of a hanging history costs one watchdog deadline and leaves a spinning goroutine
		}
		f, _ := propCheck(Case{Type: c.Type, Ops: ops})
		return f != ""
	}
	ops := c.Ops
	// cut the tail after the failing op
	if _, at := propCheck(c); at >= 0 && at+1 < len(ops) {
		if fails(ops[:at+1]) {
			ops = ops[:at+1]
		}
	}
	for changed := true; changed; {
		changed = false
		for k := len(ops) - 1; k >= 0; k-- {
			if k >= len(ops) {
				continue
			}
			cand := removeOp(ops, k)
			if fails(cand) {
				ops = cand
				changed = true
			}
		}
	}
	// simplify arguments: values towards 1, shorter New lists
	for k := range ops {
		o := ops[k]
		try := func(n Op) {
			cand := append(append([]Op{}, ops[:k]...), n)
			cand = append(cand, ops[k+1:]...)
			if fails(cand) {
				ops = cand
			}
		}
		if o.Op == "SetAt" && o.X != 1 && o.X != 0 {
			n := o
			n.X = 1
			try(n)
		}
		if o.Op == "New" {
			for i := len(o.L) - 1; i >= 0; i-- {
				cur := ops[k]
				if i >= len(cur.L) {
					continue
				}
				n := cur
				n.L = append(cp(cur.L[:i]), cur.L[i+1:]...)
				n.L2 = append(cp(cur.L2[:i]), cur.L2[i+1:]...)
				try(n)
			}
		}
	}
	return Case{Type: c.Type, Ops: ops}
}

// ---------------------------------------------------------------- hunt

func hunt(o Opts) {
	type res struct {
		Found   bool   `json:"found"`
		Failure string `json:"failure"`
		At      int    `json:"at"`
		Case    Case   `json:"case"`
		Tried   int    `json:"tried"`
	}
	var r res
	// a failing input must REPLAY: the shrunk history is re-judged; if it no longer fails the
	// unshrunk one is; if that does not fail either the observation was not reproducible (it is
	// not reported and the search goes on)
	report := func(c0 Case) bool {
		c0.Outs = nil
		c := shrink(c0)
		f, at := propCheck(c)
		if f == "" {
			c = c0
			if f, at = propCheck(c); f == "" {
				return false
			}
		}
		r.Found, r.Failure, r.At = true, f, at
		c.Outs = nil
		r.Case = c
		return true
	}
	done := false
	if o.Replay != "" {
		if b, err := os.ReadFile(o.Replay); err == nil {
			var rp struct {
				Cases []Case `json:"cases"`
			}
			json.Unmarshal(b, &rp)
			for _, c := range rp.Cases {
				r.Tried++
				if f, _ := propCheck(c); f != "" {
					if done = report(c); done {
						break
					}
				}
			}
		}
	}
	if !done {
		rng := NewRng(o.Seed + 7919)
		for k := 0; k < o.N && !done && hungTotal < maxHung; k++ {
			tn := typeNames[k%len(typeNames)]
			smallMode = k%4 == 3
			c, _ := genCase(rng.Split(), tn, false, nil)
			smallMode = false
			r.Tried++
			if f, _ := propCheck(c); f != "" {
				done = report(c)
			}
		}
	}
	b, _ := json.MarshalIndent(r, "", " ")
	os.MkdirAll(o.Out, 0755)
	os.WriteFile(o.Out+"/hunt.json", b, 0644)
}

// ---------------------------------------------------------------- known findings

// known replays the witnesses of the recorded findings on the implementation.
func known(o Opts) {
	type kf struct {
		Id        string `json:"id"`
		Confirmed bool   `json:"confirmed"`
		Detail    string `json:"detail"`
	}
	var out []kf
	for _, tn := range []string{"float64"} {
		// C11-SLICEWT: a slice shares the cells of EXISTING entries only
		w := &World{Type: tn}
		w.execOne(Op{Op: "New", L: []int64{1}, L2: []int64{5}, I: 4})
		w.execOne(Op{Op: "Slice", T: 0, I: 0, J: 3})
		w.execOne(Op{Op: "SetAt", T: 1, I: 1, X: 7})
		w.execOne(Op{Op: "SetAt", T: 1, I: 2, X: 9})
		obs, _ := w.observe()
		rd := obs[0].Reads
		out = append(out, kf{"C11-SLICEWT", len(rd) == 4 && rd[1] == 7 && rd[2] == 0,
			fmt.Sprintf("v=[0,5,0,0]; s=v.Slice(0,3); s.At(1)=7; s.At(2)=9; v reads %v (write to the stored position is seen, write to the empty position is not)", rd)})
	}
	b, _ := json.MarshalIndent(out, "", " ")
	os.MkdirAll(o.Out, 0755)
	os.WriteFile(o.Out+"/known.json", b, 0644)
}
