// C11 harness: random operation histories on the sparse vectors of /repo (all
// nine element types), observed outcomes written as Coq case files for the model
// in coq/C11.  After every operation the whole world is observed: Dim, ConstAt of
// every index, the private map / nil placeholders / AVL index keys (hook
// VerifC11Dump in /repo/verif_c11.go) and the ConstIterator sequence of a clone.
package main

import (
	"encoding/json"
	"fmt"
	"os"
	"reflect"
	"strings"
	"syscall"
	"time"

	. "adharness/common"

	ad "github.com/pbenner/autodiff"
)

// Op is one operation of a history.  U/W: operand vector handles, -1 = dense
// operand given by L (for U) / L2 (for W).
type Op struct {
	Op string  `json:"op"`
	T  int     `json:"t"`
	U  int     `json:"u,omitempty"`
	W  int     `json:"w,omitempty"`
	I  int64   `json:"i,omitempty"`
	J  int64   `json:"j,omitempty"`
	X  int64   `json:"x,omitempty"`
	B  bool    `json:"b,omitempty"`
	L  []int64 `json:"l,omitempty"`
	L2 []int64 `json:"l2,omitempty"`
	// generator annotation: the op is outside the in-range / alias-safe fragment
	Bad bool `json:"bad,omitempty"`
}
type Out struct {
	K int64   `json:"k"`
	P []int64 `json:"p"`
	H int64   `json:"h"`
}
type Case struct {
	Type string `json:"type"`
	Ops  []Op   `json:"ops"`
	Outs []Out  `json:"outs,omitempty"`
}

const (
	K_OK    = 0
	K_PANIC = 1
	K_ERR   = 2
	K_HANG  = 7 // the operation did not return within the watchdog deadline (no model outcome equals it)
	SEP     = -7771
	HP      = 2147483647
	C_PANIC = 99991 // a read panicked
	C_NIL   = 99992 // nil placeholder in the private map
	C_CLONE = 99993 // Clone / iteration of the clone panicked
	C_LOOP  = 99994 // iteration did not stop
)

var typeNames = []string{"float64", "int", "real64", "float32", "real32", "int8", "int16", "int32", "int64"}

func scalarType(name string) ad.ScalarType {
	switch name {
	case "float64":
		return ad.Float64Type
	case "float32":
		return ad.Float32Type
	case "int":
		return ad.IntType
	case "int8":
		return ad.Int8Type
	case "int16":
		return ad.Int16Type
	case "int32":
		return ad.Int32Type
	case "int64":
		return ad.Int64Type
	case "real32":
		return ad.Real32Type
	case "real64":
		return ad.Real64Type
	}
	Die("unknown element type %s", name)
	return nil
}

func ints(l []int64) []int {
	r := make([]int, len(l))
	for i, x := range l {
		r[i] = int(x)
	}
	return r
}

func newSparse(name string, ks []int64, xs []int64, n int) ad.Vector {
	k := ints(ks)
	switch name {
	case "float64":
		v := make([]float64, len(xs))
		for i, x := range xs {
			v[i] = float64(x)
		}
		return ad.NewSparseFloat64Vector(k, v, n)
	case "float32":
		v := make([]float32, len(xs))
		for i, x := range xs {
			v[i] = float32(x)
		}
		return ad.NewSparseFloat32Vector(k, v, n)
	case "int":
		v := make([]int, len(xs))
		for i, x := range xs {
			v[i] = int(x)
		}
		return ad.NewSparseIntVector(k, v, n)
	case "int8":
		v := make([]int8, len(xs))
		for i, x := range xs {
			v[i] = int8(x)
		}
		return ad.NewSparseInt8Vector(k, v, n)
	case "int16":
		v := make([]int16, len(xs))
		for i, x := range xs {
			v[i] = int16(x)
		}
		return ad.NewSparseInt16Vector(k, v, n)
	case "int32":
		v := make([]int32, len(xs))
		for i, x := range xs {
			v[i] = int32(x)
		}
		return ad.NewSparseInt32Vector(k, v, n)
	case "int64":
		v := make([]int64, len(xs))
		for i, x := range xs {
			v[i] = int64(x)
		}
		return ad.NewSparseInt64Vector(k, v, n)
	case "real32":
		v := make([]float32, len(xs))
		for i, x := range xs {
			v[i] = float32(x)
		}
		return ad.NewSparseReal32Vector(k, v, n)
	case "real64":
		v := make([]float64, len(xs))
		for i, x := range xs {
			v[i] = float64(x)
		}
		return ad.NewSparseReal64Vector(k, v, n)
	}
	Die("unknown element type %s", name)
	return nil
}

func dense(l []int64) ad.Vector {
	v := make([]float64, len(l))
	for i, x := range l {
		v[i] = float64(x)
	}
	return ad.NewDenseFloat64Vector(v)
}

// World: the vectors created so far.
type World struct {
	Type string
	V    []ad.Vector
	// Hung: an operation on this world did not return (watchdog); the world is abandoned (its
	// goroutine may still be spinning inside the library): nothing is executed or observed any more
	Hung     bool
	lastObs  []VecObs
	lastHash int64
}

// per-operation watchdog: a library call that loops for ever (e.g. an AVL iterator caught in a
// parent-pointer cycle inside Sort / Append / skip()) must not hang the harness.  CPU time of the
// process (see execOne), so that a loaded machine cannot produce a false K_HANG
var opDeadline = 3 * time.Second
var hungTotal = 0

const maxHung = 3 // after that many hung operations in one process no further history is started / shrunk

func (w *World) operand(u int, l []int64) ad.Vector {
	if u < 0 {
		return dense(l)
	}
	return w.V[u]
}

// execOne runs one operation on the implementation; panics are recovered and
// reported as outcome kind.
func (w *World) execOne(o Op) (int64, []int64) {
	if w.Hung {
		return K_HANG, []int64{}
	}
	type res struct {
		k int64
		p []int64
	}
	ch := make(chan res, 1)
	go func() {
		k, p := w.execRaw(o)
		ch <- res{k, p}
	}()
	// A hang is decided on CPU time, not on wall-clock time: a library call that loops for ever burns
	// CPU whenever it is scheduled, a harness starved by a loaded machine does not.  The operation is
	// declared hung once the PROCESS has consumed opDeadline of CPU time since it started (operations
	// of these histories take microseconds); the wall-clock ceiling is only a last resort.
	cpu0 := processCPU()
	t0 := time.Now()
	tick := time.NewTicker(100 * time.Millisecond)
	defer tick.Stop()
	for {
		select {
		case r := <-ch:
			return r.k, r.p
		case <-tick.C:
			if processCPU()-cpu0 >= opDeadline || time.Since(t0) >= opWallCeiling {
				w.Hung = true
				hungTotal++
				return K_HANG, []int64{}
			}
		}
	}
}

const opWallCeiling = 15 * time.Minute

func processCPU() time.Duration {
	var ru syscall.Rusage
	if err := syscall.Getrusage(syscall.RUSAGE_SELF, &ru); err != nil {
		return 0
	}
	return time.Duration(ru.Utime.Nano() + ru.Stime.Nano())
}

func (w *World) execRaw(o Op) (kind int64, payload []int64) {
	payload = []int64{}
	defer func() {
		if r := recover(); r != nil {
			kind = K_PANIC
			payload = []int64{}
		}
	}()
	st := scalarType(w.Type)
	var v ad.Vector
	if o.Op != "New" {
		v = w.V[o.T]
	}
	switch o.Op {
	case "New":
		nv := newSparse(w.Type, o.L, o.L2, int(o.I))
		w.V = append(w.V, nv)
	case "At":
		s := v.At(int(o.I))
		payload = append(payload, pv(s))
	case "SetAt":
		v.At(int(o.I)).SetFloat64(float64(o.X))
	case "SetVar":
		// the element becomes an independent variable at the point X (value X, gradient (1)): for the
		// Real element types only; its reading under pv is X + VARW
		s := v.At(int(o.I))
		s.SetFloat64(float64(o.X))
		if err := s.(interface{ SetVariable(int, int, int) error }).SetVariable(0, 1, 1); err != nil {
			kind = K_ERR
		}
	case "ConstAt":
		payload = append(payload, pv(v.ConstAt(int(o.I))))
	case "SetV":
		v.Set(w.operand(o.U, o.L))
	case "SETV":
		reflect.ValueOf(v).MethodByName("SET").Call([]reflect.Value{reflect.ValueOf(w.V[o.U])})
	case "Reset":
		v.Reset()
	case "ReverseOrder":
		v.ReverseOrder()
	case "Swap":
		v.Swap(int(o.I), int(o.J))
	case "Permute":
		if err := v.Permute(ints(o.L)); err != nil {
			kind = K_ERR
		}
	case "Sort":
		v.Sort(o.B)
	case "Slice":
		w.V = append(w.V, v.Slice(int(o.I), int(o.J)))
	case "AppendV":
		w.V = append(w.V, v.AppendVector(w.V[o.U]))
	case "AppendS":
		ss := make([]ad.Scalar, len(o.L))
		for i, x := range o.L {
			ss[i] = ad.NewScalar(st, float64(x))
		}
		w.V = append(w.V, v.AppendScalar(ss...))
	case "AppendD":
		w.V = append(w.V, v.AppendVector(dense(o.L)))
	case "MapMul":
		c := float64(o.X)
		v.Map(func(s ad.Scalar) { s.SetFloat64(s.GetFloat64() * c) })
	case "MapAdd":
		c := float64(o.X)
		v.Map(func(s ad.Scalar) { s.SetFloat64(s.GetFloat64() + c) })
	case "MapSetMul":
		c := float64(o.X)
		v.MapSet(func(s ad.ConstScalar) ad.Scalar { return ad.NewScalar(st, s.GetFloat64()*c) })
	case "ReduceSum":
		r := v.Reduce(func(r ad.Scalar, s ad.ConstScalar) ad.Scalar {
			r.SetFloat64(r.GetFloat64() + s.GetFloat64())
			return r
		}, ad.NewScalar(ad.Float64Type, 0))
		payload = append(payload, int64(r.GetFloat64()))
	case "Iterate":
		g := 0
		for it := v.ConstIterator(); it.Ok(); it.Next() {
			payload = append(payload, int64(it.Index()), pv(it.GetConst()))
			if g++; g > 10000 {
				payload = append(payload, C_LOOP)
				break
			}
		}
	case "IterPart":
		it := v.ConstIterator()
		for c := int64(0); c < o.I && it.Ok(); c++ {
			payload = append(payload, int64(it.Index()), pv(it.GetConst()))
			it.Next()
		}
	case "IterFrom":
		g := 0
		if o.B { // the non-const twin IteratorFrom(i) + Get(): the same ITERATOR_FROM at HEAD, the same model operation
			for it := v.IteratorFrom(int(o.I)); it.Ok(); it.Next() {
				payload = append(payload, int64(it.Index()), pv(it.Get()))
				if g++; g > 10000 {
					payload = append(payload, C_LOOP)
					break
				}
			}
			break
		}
		for it := v.ConstIteratorFrom(int(o.I)); it.Ok(); it.Next() {
			payload = append(payload, int64(it.Index()), pv(it.GetConst()))
			if g++; g > 10000 {
				payload = append(payload, C_LOOP)
				break
			}
		}
	case "Clone":
		w.V = append(w.V, v.CloneVector())
	case "Joint":
		g := 0
		for it := v.JointIterator(w.operand(o.U, o.L)); it.Ok(); it.Next() {
			a, b := it.Get()
			if a == nil || reflect.ValueOf(a).Kind() == reflect.Ptr && reflect.ValueOf(a).IsNil() {
				payload = append(payload, int64(it.Index()), 0, 0, pv(b))
			} else {
				payload = append(payload, int64(it.Index()), 1, pv(a), pv(b))
			}
			if g++; g > 10000 {
				payload = append(payload, C_LOOP)
				break
			}
		}
	case "Joint3":
		b := w.operand(o.U, o.L)
		c := w.operand(o.W, o.L2)
		it := reflect.ValueOf(v).MethodByName("JOINT3_ITERATOR").Call([]reflect.Value{reflect.ValueOf(b), reflect.ValueOf(c)})[0]
		g := 0
		for it.MethodByName("Ok").Call(nil)[0].Bool() {
			idx := it.MethodByName("Index").Call(nil)[0].Int()
			r := it.MethodByName("Get").Call(nil)
			s2 := pv(r[1].Interface().(ad.ConstScalar))
			s3 := pv(r[2].Interface().(ad.ConstScalar))
			if r[0].IsNil() || r[0].Elem().Kind() == reflect.Ptr && r[0].Elem().IsNil() {
				payload = append(payload, idx, 0, 0, s2, s3)
			} else {
				payload = append(payload, idx, 1, pv(r[0].Interface().(ad.Scalar)), s2, s3)
			}
			it.MethodByName("Next").Call(nil)
			if g++; g > 10000 {
				payload = append(payload, C_LOOP)
				break
			}
		}
	default:
		Die("unknown op %s", o.Op)
	}
	return
}

// ---------------------------------------------------------------- observation

type VecObs struct {
	N       int
	Reads   []int64 // C_PANIC where the read panicked
	ReadOK  bool
	Keys    []int64
	Vals    []int64
	Nil     []bool
	Cells   []uintptr
	Index   []int64
	Iter    []int64 // (index, value) pairs of the clone's ConstIterator; [C_CLONE] on panic
	IterOK  bool
	Flat    []int64
}

// pv: the reading of a scalar in the element carrier Z of the model.  The model's "zero" must be the
// library's nullScalar(): for the Real types a scalar with value 0 and a non-zero derivative is NOT null
// (vector_sparse_real64.go skip() / scalar_real64.go nullScalar()).  Values in the histories are bounded by
// maxAbs = 100 and the only gradients are those of SetVar (one variable, derivative 0 or 1), so
// value + VARW * derivative[0] is injective on the reachable scalars and 0 exactly on the null ones.
const VARW = 1000

func pv(s ad.ConstScalar) int64 {
	x := int64(s.GetFloat64())
	if s.GetOrder() >= 1 && s.GetN() >= 1 {
		x += VARW * int64(s.GetDerivative(0))
	}
	return x
}

func readAt(v ad.Vector, i int) (x int64, ok bool) {
	defer func() {
		if r := recover(); r != nil {
			x, ok = C_PANIC, false
		}
	}()
	return pv(v.ConstAt(i)), true
}
func cloneIter(v ad.Vector) (seq []int64, ok bool) {
	seq = []int64{}
	defer func() {
		if r := recover(); r != nil {
			seq, ok = []int64{C_CLONE}, false
		}
	}()
	c := v.CloneVector()
	g := 0
	for it := c.ConstIterator(); it.Ok(); it.Next() {
		seq = append(seq, int64(it.Index()), pv(it.GetConst()))
		if g++; g > 10000 {
			return []int64{C_LOOP}, false
		}
	}
	return seq, true
}

func observeVec(v ad.Vector) VecObs {
	var o VecObs
	st := ad.VerifC11Dump(v)
	d0 := ad.VerifC11Deriv0(v)
	o.N = v.Dim()
	o.ReadOK = true
	f := []int64{int64(o.N), SEP}
	for i := 0; i < o.N; i++ {
		x, ok := readAt(v, i)
		if !ok {
			o.ReadOK = false
		}
		o.Reads = append(o.Reads, x)
		f = append(f, x)
	}
	f = append(f, SEP)
	for _, e := range st.Entries {
		o.Keys = append(o.Keys, int64(e.Key))
		o.Nil = append(o.Nil, e.Nil)
		o.Cells = append(o.Cells, e.Cell)
		x := int64(e.Value) + VARW*int64(d0[e.Key])
		if e.Nil {
			x = C_NIL
		}
		o.Vals = append(o.Vals, x)
		f = append(f, int64(e.Key), x)
	}
	f = append(f, SEP)
	for _, k := range st.Index {
		o.Index = append(o.Index, int64(k))
		f = append(f, int64(k))
	}
	f = append(f, SEP)
	o.Iter, o.IterOK = cloneIter(v)
	f = append(f, o.Iter...)
	f = append(f, SEP)
	o.Flat = f
	return o
}

func hashList(h int64, l []int64) int64 {
	for _, x := range l {
		h = (h*1000003 + x + 12345) % HP
		if h < 0 {
			h += HP
		}
	}
	return h
}

func (w *World) observe() ([]VecObs, int64) {
	if w.Hung {
		return w.lastObs, w.lastHash
	}
	obs := make([]VecObs, len(w.V))
	h := int64(17)
	for i, v := range w.V {
		obs[i] = observeVec(v)
		h = hashList(h, obs[i].Flat)
	}
	w.lastObs, w.lastHash = obs, h
	return obs, h
}

func execute(c Case) []Out {
	w := &World{Type: c.Type}
	outs := make([]Out, 0, len(c.Ops))
	for _, o := range c.Ops {
		k, p := w.execOne(o)
		_, h := w.observe()
		outs = append(outs, Out{k, p, h})
	}
	return outs
}

// ---------------------------------------------------------------- Coq printing

func coqOperand(u int, l []int64) string {
	if u < 0 {
		return "(OD " + ZList(l) + ")"
	}
	return fmt.Sprintf("(OS %d)", u)
}
func coqOp(o Op) string {
	switch o.Op {
	case "New":
		return fmt.Sprintf("New %s %s %s", ZList(o.L), ZList(o.L2), Z(o.I))
	case "At", "ConstAt", "IterFrom":
		return fmt.Sprintf("%s %d %s", o.Op, o.T, Z(o.I))
	case "SetAt":
		return fmt.Sprintf("SetAt %d %s %s", o.T, Z(o.I), Z(o.X))
	case "SetVar": // in the carrier Z of the model: the write of the non-null element X + VARW (see pv)
		return fmt.Sprintf("SetAt %d %s %s", o.T, Z(o.I), Z(o.X+VARW))
	case "SetV":
		return fmt.Sprintf("SetV %d %s", o.T, coqOperand(o.U, o.L))
	case "SETV", "AppendV":
		return fmt.Sprintf("%s %d %d", o.Op, o.T, o.U)
	case "Reset", "ReverseOrder", "ReduceSum", "Iterate", "Clone":
		return fmt.Sprintf("%s %d", o.Op, o.T)
	case "Swap", "Slice":
		return fmt.Sprintf("%s %d %s %s", o.Op, o.T, Z(o.I), Z(o.J))
	case "Permute", "AppendS", "AppendD":
		return fmt.Sprintf("%s %d %s", o.Op, o.T, ZList(o.L))
	case "Sort":
		return fmt.Sprintf("Sort %d %s", o.T, B(o.B))
	case "MapMul", "MapAdd", "MapSetMul":
		return fmt.Sprintf("%s %d %s", o.Op, o.T, Z(o.X))
	case "IterPart":
		return fmt.Sprintf("IterPart %d %d", o.T, o.I)
	case "Joint":
		return fmt.Sprintf("Joint %d %s", o.T, coqOperand(o.U, o.L))
	case "Joint3":
		return fmt.Sprintf("Joint3 %d %s %s", o.T, coqOperand(o.U, o.L), coqOperand(o.W, o.L2))
	}
	Die("coqOp: unknown op %s", o.Op)
	return ""
}
func coqCase(c Case) string {
	ops := make([]string, len(c.Ops))
	for i, o := range c.Ops {
		ops[i] = coqOp(o)
	}
	outs := make([]string, len(c.Outs))
	for i, o := range c.Outs {
		outs[i] = fmt.Sprintf("(%s, %s, %s)", Z(o.K), ZList(o.P), Z(o.H))
	}
	return "(" + List(ops) + ",\n   " + List(outs) + ")"
}

const hdr = "From Coq Require Import ZArith List Bool. Import ListNotations.\nFrom ADV Require Import C11.Model C11.Corr C11.Corr2.\nOpen Scope Z_scope.\n"

const rule = "random histories (<= 40 ops, <= 6 vectors of dim 0..12 growing by Append, values in -8..8, element type drawn from all nine sparse types) over New/At/SetAt(incl. zeros)/ConstAt/Set(sparse|dense)/SET/Reset/ReverseOrder/Swap/Permute/Sort/Slice/AppendVector(sparse|dense)/AppendScalar/Map/MapSet/Reduce/ConstIterator(full|partial)/ConstIteratorFrom(i) (two of three aimed at a pending zero: start q <= p, p a stored zero or value-less index key and the first index key at/after q; compound = create a pending zero by SetAt(0) | At() | Reset | Map x*0 | Set(dense with zeros), then start there)/Clone/JointIterator/JOINT3_ITERATOR; 1 in 5 histories also draws malformed ops (out-of-range indices, wrong-length or non-permutation pi, Swap/Slice out of range, Map with f(0)!=0, dimension mismatch); a case is non-trivial iff it contains >= 8 mutating ops, >= 1 index-rebuilding op (Permute/Sort/ReverseOrder), >= 1 sharing op (Slice/AppendVector) and some vector held a stored zero or a value-less index key at some step; directed stream of round 7 (N/6 short histories, Real64 / Real32 five of eight): SetVar (an element becomes an independent variable, two of three at the point 0: value 0 with derivative 1 is not null; read as value + 1000 * derivative[0]; no value-computing op in these histories) and the compound SET on an EMPTY receiver (new, or emptied by Reset + iteration) from t, At()/SetAt at a fresh position of one of the two, iteration of the OTHER, roles exchanged; distinct = distinct (type, op list)"

func readCorpus(path string) []Case {
	var cs []Case
	b, err := os.ReadFile(path)
	if err != nil {
		return cs
	}
	for _, line := range strings.Split(string(b), "\n") {
		line = strings.TrimSpace(line)
		if line == "" || strings.HasPrefix(line, "#") {
			continue
		}
		var c Case
		if err := json.Unmarshal([]byte(line), &c); err != nil {
			Die("corpus: %v", err)
		}
		cs = append(cs, c)
	}
	return cs
}

func main() {
	o := ParseFlags()
	switch {
	case o.Extra == "hunt":
		hunt(o)
		return
	case o.Extra == "known":
		known(o)
		return
	case o.Extra == "held2" || strings.HasPrefix(o.Extra, "held2:"): // stale held iterators with the observed validity bit (held2.go)
		held2Main(o)
		return
	case strings.HasPrefix(o.Extra, "held"): // held iterators interleaved with mutators (held.go)
		heldMain(o)
		return
	case strings.HasPrefix(o.Extra, "mat"): // sparse matrices (mat.go)
		matMain(o)
		return
	}
	if o.Replay != "" {
		b, err := os.ReadFile(o.Replay)
		if err != nil {
			Die("%v", err)
		}
		var rp struct {
			Case Case `json:"case"`
		}
		if err := json.Unmarshal(b, &rp); err != nil {
			Die("%v", err)
		}
		c := rp.Case
		c.Outs = execute(c)
		w := NewCaseWriter(o.Out, "replay", hdr, "mism2", 1000)
		w.Type = "case"
		w.Add(coqCase(c), c, "replay", true)
		w.Flush()
		return
	}
	per := 12
	w := NewCaseWriter(o.Out, "cases", hdr, "mism2", per)
	w.Type = "case"
	w.Rule = rule
	for _, c := range readCorpus(o.Extra) {
		c.Outs = execute(c)
		w.Add(coqCase(c), c, "corpus:"+fmt.Sprint(c.Ops), true)
		w.Count("corpus")
	}
	rng := NewRng(o.Seed)
	for k := 0; k < o.N && hungTotal < maxHung; k++ {
		tn := typeNames[k%len(typeNames)]
		if k%2 == 0 {
			tn = typeNames[(k/2)%3] // float64 / int / real64 get half of the cases
		}
		c, st := genCase(rng.Split(), tn, k%5 == 4, w)
		w.Add(coqCase(c), c, tn+fmt.Sprint(c.Ops), st.nontrivial())
		w.Count("type:" + tn)
	}
	// directed stream: small vectors / small AVL trees (see smallMode in gen.go)
	smallMode = true
	for k := 0; k < o.N/6 && hungTotal < maxHung; k++ {
		tn := typeNames[k%3]
		c, st := genCase(rng.Split(), tn, false, w)
		w.Add(coqCase(c), c, "small:"+tn+fmt.Sprint(c.Ops), st.mut >= 4 && st.share >= 1)
		w.Count("stream:small")
	}
	smallMode = false
	// directed stream (round 7): variables at the point 0 in the Real vectors (value 0, derivative 1: not null,
	// must be visited and kept by skip()) and SET on an empty receiver followed by At() at a fresh position of
	// one of the two vectors and an iteration of the other (see varMode / case 27 in gen.go)
	dirMode = true
	dirTypes := []string{"real64", "float64", "real32", "int", "real64", "float64", "real32", "float32", "real64", "int8", "real32", "int16", "real64", "int32", "real32", "int64"}
	for k := 0; k < o.N/6 && hungTotal < maxHung; k++ {
		tn := dirTypes[k%len(dirTypes)]
		varMode = tn == "real64" || tn == "real32"
		smallMode = k%2 == 0
		c, st := genCase(rng.Split(), tn, false, w)
		w.Add(coqCase(c), c, "dir:"+tn+fmt.Sprint(c.Ops), st.mut >= 4 && (st.vars >= 1 || st.setEmpty >= 1))
		w.Count("stream:directed-r7")
	}
	dirMode, varMode, smallMode = false, false, false
	if err := w.Flush(); err != nil {
		Die("%v", err)
	}
}
